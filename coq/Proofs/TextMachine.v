(* Proofs/TextMachine.v -- the TextBuffer state machine (push_from_text / push_raw / push_from_attr)
   against Spec/Text.v: character data decoding (C04) and attribute value normalisation (C05). *)
From Coq Require Import List NArith Bool Lia ZifyBool ZifyN.
Import ListNotations.
From RX Require Import Generated.
From RX.Model Require Import Base Stream Builder Parse.
From RX.Spec Require Import Text.
Open Scope N_scope.

(* what process_text's loop does with a run of chunks (no entity references) *)
Fixpoint push_text_chunks (in_entity : bool) (cs : list chunk) (t : text_buffer) : text_buffer :=
  match cs with
  | [] => t
  | CLit x :: r => push_text_chunks in_entity r (tb_push_from_text x t)
  | CRef bs :: r => push_text_chunks in_entity r (push_char_bytes_text bs in_entity t)
  end.
Definition run_text_chunks (in_entity : bool) (cs : list chunk) : bytes :=
  tb_buf (tb_flush (push_text_chunks in_entity cs tb_new)).

(* the next source byte after the head of [r]: a literal byte itself, '&' (38) for a reference *)
Definition next_src (r : list chunk) : option N :=
  match r with [] => None | CLit y :: _ => Some y | CRef _ :: _ => Some 38 end.

Fixpoint push_attr_chunks (in_entity : bool) (cs : list chunk) (t : text_buffer) : option text_buffer :=
  match cs with
  | [] => Some t
  | CLit x :: r => push_attr_chunks in_entity r (tb_push_from_attr x (next_src r) t)
  | CRef bs :: r =>
    match push_char_bytes_attr bs in_entity t with
    | Some t' => push_attr_chunks in_entity r t'
    | None => None
    end
  end.

Local Notation mk b p := {| tb_buf := b; tb_pending_cr := p |}.

(* ------------------------------------------------------------------------------------------ *)
(* norm_eol: one-step equations                                                               *)
(* ------------------------------------------------------------------------------------------ *)

Lemma norm_eol_unfold : forall x r,
  norm_eol (x :: r) =
  if x =? 13 then
    match r with
    | y :: r' => if y =? 10 then 10 :: norm_eol r' else 10 :: norm_eol r
    | [] => [10]
    end
  else x :: norm_eol r.
Proof. reflexivity. Qed.

Lemma norm_eol_ne : forall x l, (x =? 13) = false -> norm_eol (x :: l) = x :: norm_eol l.
Proof. intros x l H. rewrite norm_eol_unfold, H. reflexivity. Qed.

Lemma norm_eol_crlf : forall x y l,
  (x =? 13) = true -> (y =? 10) = true -> norm_eol (x :: y :: l) = 10 :: norm_eol l.
Proof. intros x y l Hx Hy. rewrite norm_eol_unfold, Hx. cbv beta iota. rewrite Hy. reflexivity. Qed.

Lemma norm_eol_cr_other : forall x y l,
  (x =? 13) = true -> (y =? 10) = false -> norm_eol (x :: y :: l) = 10 :: norm_eol (y :: l).
Proof. intros x y l Hx Hy. rewrite norm_eol_unfold, Hx. cbv beta iota. rewrite Hy. reflexivity. Qed.

Lemma norm_eol_cr_end : forall x, (x =? 13) = true -> norm_eol [x] = [10].
Proof. intros x Hx. rewrite norm_eol_unfold, Hx. reflexivity. Qed.

(* ------------------------------------------------------------------------------------------ *)
(* the three piece-list specifications are instances of one scheme; fuel-free equations       *)
(* ------------------------------------------------------------------------------------------ *)

Lemma lits_prefix_len : forall cs, (length (snd (lits_prefix cs)) <= length cs)%nat.
Proof.
  induction cs as [|[x|bs] r IH]; cbn [lits_prefix]; auto.
  destruct (lits_prefix r) as [l rest]. cbn [snd length] in *. lia.
Qed.

Section Gen.
Variable f : bytes -> bytes.   (* what a referenced character becomes *)
Variable k : N -> N.           (* what a (line-end normalised) literal byte becomes *)

Definition glit (l : bytes) : bytes := map k (norm_eol l).

Fixpoint gen_fuel (fuel : nat) (cs : list chunk) : bytes :=
  match fuel with
  | O => []
  | S fu =>
    match cs with
    | [] => []
    | CRef bs :: r => f bs ++ gen_fuel fu r
    | CLit _ :: _ =>
      let '(l, rest) := lits_prefix cs in glit l ++ gen_fuel fu rest
    end
  end.
Definition gen (cs : list chunk) : bytes := gen_fuel (S (length cs)) cs.

Lemma gen_fuel_indep : forall n m cs,
  (length cs < n)%nat -> (length cs < m)%nat -> gen_fuel n cs = gen_fuel m cs.
Proof.
  induction n as [|n IH]; intros m cs Hn Hm; [lia|].
  destruct m as [|m]; [lia|].
  destruct cs as [|[x|bs] r]; [reflexivity| |].
  - cbn [gen_fuel lits_prefix].
    pose proof (lits_prefix_len r) as Hl.
    destruct (lits_prefix r) as [l rest]. cbn [snd length] in *.
    f_equal. apply IH; lia.
  - cbn [gen_fuel]. cbn [length] in *. f_equal. apply IH; lia.
Qed.

Lemma gen_nil : gen [] = [].
Proof. reflexivity. Qed.

Lemma gen_ref : forall bs r, gen (CRef bs :: r) = f bs ++ gen r.
Proof. reflexivity. Qed.

(* every list splits into its literal prefix and the rest *)
Lemma gen_split : forall cs, gen cs = glit (fst (lits_prefix cs)) ++ gen (snd (lits_prefix cs)).
Proof.
  intros [|[x|bs] r]; try reflexivity.
  unfold gen.
  change (gen_fuel (S (length (CLit x :: r))) (CLit x :: r)) with
    (let '(l, rest) := lits_prefix (CLit x :: r) in
     glit l ++ gen_fuel (length (CLit x :: r)) rest).
  cbn [lits_prefix].
  pose proof (lits_prefix_len r) as Hl.
  destruct (lits_prefix r) as [l rest]. cbn [fst snd] in *.
  f_equal. apply gen_fuel_indep; cbn [length]; lia.
Qed.

Lemma gen_lit : forall x r,
  gen (CLit x :: r) = glit (x :: fst (lits_prefix r)) ++ gen (snd (lits_prefix r)).
Proof.
  intros x r. rewrite gen_split. cbn [lits_prefix].
  destruct (lits_prefix r); reflexivity.
Qed.

Lemma gen_lit_ne : forall x r, (x =? 13) = false -> gen (CLit x :: r) = k x :: gen r.
Proof.
  intros x r H. rewrite gen_lit, (gen_split r). unfold glit.
  rewrite norm_eol_ne by assumption. reflexivity.
Qed.

Lemma gen_crlf : forall x y r,
  (x =? 13) = true -> (y =? 10) = true -> gen (CLit x :: CLit y :: r) = k 10 :: gen r.
Proof.
  intros x y r Hx Hy. rewrite gen_lit, (gen_split r). cbn [lits_prefix].
  destruct (lits_prefix r) as [l rest]. cbn [fst snd]. unfold glit.
  rewrite norm_eol_crlf by assumption. reflexivity.
Qed.

Lemma gen_cr : forall x r,
  (x =? 13) = true ->
  match r with CLit y :: _ => (y =? 10) = false | _ => True end ->
  gen (CLit x :: r) = k 10 :: gen r.
Proof.
  intros x r Hx Hr. rewrite gen_lit, (gen_split r).
  destruct r as [|[y|bs] r']; cbn [lits_prefix].
  - cbn [fst snd]. unfold glit. rewrite norm_eol_cr_end by assumption. reflexivity.
  - destruct (lits_prefix r') as [l rest]. cbn [fst snd]. unfold glit.
    rewrite norm_eol_cr_other by assumption. reflexivity.
  - cbn [fst snd]. unfold glit. rewrite norm_eol_cr_end by assumption. reflexivity.
Qed.
End Gen.

Lemma decode_chunks_gen : forall cs, decode_chunks cs = gen (fun b => b) (fun x => x) cs.
Proof.
  intros cs. unfold decode_chunks, gen. generalize (S (length cs)) as n.
  intros n. revert cs. induction n as [|n IH]; intros cs; [reflexivity|].
  cbn [decode_chunks_fuel gen_fuel].
  destruct cs as [|[x|bs] r]; [reflexivity| |].
  - destruct (lits_prefix (CLit x :: r)) as [l rest]. unfold glit. rewrite map_id.
    f_equal; apply IH.
  - f_equal; apply IH.
Qed.

Lemma norm_attr_chunks_gen : forall cs, norm_attr_chunks cs = gen (fun b => b) ws_to_space cs.
Proof.
  intros cs. unfold norm_attr_chunks, gen. generalize (S (length cs)) as n.
  intros n. revert cs. induction n as [|n IH]; intros cs; [reflexivity|].
  cbn [norm_attr_chunks_fuel gen_fuel].
  destruct cs as [|[x|bs] r]; [reflexivity| |].
  - destruct (lits_prefix (CLit x :: r)) as [l rest]. unfold glit, norm_attr_lit.
    f_equal; apply IH.
  - f_equal; apply IH.
Qed.

Lemma norm_attr_chunks_in_entity_gen : forall cs,
  norm_attr_chunks_in_entity cs = gen (map ws_to_space) ws_to_space cs.
Proof.
  intros cs. unfold norm_attr_chunks_in_entity, gen. generalize (S (length cs)) as n.
  intros n. revert cs. induction n as [|n IH]; intros cs; [reflexivity|].
  cbn [norm_attr_chunks_in_entity_fuel gen_fuel].
  destruct cs as [|[x|bs] r]; [reflexivity| |].
  - destruct (lits_prefix (CLit x :: r)) as [l rest]. unfold glit, norm_attr_lit.
    f_equal; apply IH.
  - f_equal; apply IH.
Qed.

(* ------------------------------------------------------------------------------------------ *)
(* the buffer operations, on an explicit state                                                *)
(* ------------------------------------------------------------------------------------------ *)

Lemma push_from_text_spec : forall b p x,
  tb_push_from_text x (mk b p) =
  if p then
    if x =? 10 then mk (b ++ [10]) false
    else if x =? 13 then mk (b ++ [10]) true
    else mk ((b ++ [10]) ++ [x]) false
  else
    if x =? 13 then mk b true else mk (b ++ [x]) false.
Proof.
  intros b p x. unfold tb_push_from_text. cbn [tb_pending_cr tb_buf].
  destruct p; [destruct (x =? 10)|]; destruct (x =? 13); reflexivity.
Qed.

Lemma push_from_attr_spec : forall b p x n,
  tb_push_from_attr x n (mk b p) =
  if (x =? 13) && match n with Some y => y =? 10 | None => false end then mk b p
  else mk (b ++ [ws_to_space x]) p.
Proof.
  intros b p x n. unfold tb_push_from_attr, ws_to_space. cbn [tb_pending_cr tb_buf].
  destruct (x =? 13), (x =? 10), (x =? 9); reflexivity.
Qed.

Lemma flush_spec : forall b p, tb_buf (tb_flush (mk b p)) = if p then b ++ [10] else b.
Proof. intros b [|]; reflexivity. Qed.

(* ------------------------------------------------------------------------------------------ *)
(* text, inside an entity value: everything goes through push_from_text                        *)
(* ------------------------------------------------------------------------------------------ *)

Fixpoint push_lits (l : bytes) (t : text_buffer) : text_buffer :=
  match l with
  | [] => t
  | x :: r => push_lits r (tb_push_from_text x t)
  end.

Lemma push_lits_app : forall l1 l2 t, push_lits (l1 ++ l2) t = push_lits l2 (push_lits l1 t).
Proof. induction l1 as [|x l1 IH]; intros; cbn [app push_lits]; auto. Qed.

Lemma push_char_bytes_text_entity : forall bs t, push_char_bytes_text bs true t = push_lits bs t.
Proof. induction bs as [|x r IH]; intros; cbn [push_char_bytes_text push_lits]; auto. Qed.

Lemma push_text_chunks_entity : forall cs t,
  push_text_chunks true cs t = push_lits (concat (map chunk_bytes cs)) t.
Proof.
  induction cs as [|[x|bs] r IH]; intros t; cbn [push_text_chunks map concat chunk_bytes].
  - reflexivity.
  - rewrite IH. reflexivity.
  - rewrite IH, push_lits_app, push_char_bytes_text_entity. reflexivity.
Qed.

(* a pending CR is a CR of the source that has not been looked at yet *)
Lemma push_lits_spec : forall l b p,
  tb_buf (tb_flush (push_lits l (mk b p))) = b ++ norm_eol ((if p then [13] else []) ++ l).
Proof.
  induction l as [|x l IH]; intros b p.
  - cbn [push_lits]. rewrite flush_spec. destruct p; [reflexivity|].
    cbn [app norm_eol]. rewrite app_nil_r. reflexivity.
  - cbn [push_lits]. rewrite push_from_text_spec.
    destruct p; cbn [app].
    + destruct (x =? 10) eqn:E10; [|destruct (x =? 13) eqn:E13]; rewrite IH; cbn [app].
      * rewrite (norm_eol_crlf 13 x) by (reflexivity || assumption).
        rewrite <- app_assoc. reflexivity.
      * rewrite (norm_eol_cr_other 13 x) by (reflexivity || assumption).
        apply N.eqb_eq in E13. subst x.
        rewrite <- app_assoc. reflexivity.
      * rewrite (norm_eol_cr_other 13 x) by (reflexivity || assumption).
        rewrite (norm_eol_ne x) by assumption.
        rewrite <- !app_assoc. reflexivity.
    + destruct (x =? 13) eqn:E13; rewrite IH; cbn [app].
      * apply N.eqb_eq in E13. subst x. reflexivity.
      * rewrite (norm_eol_ne x) by assumption. rewrite <- app_assoc. reflexivity.
Qed.

(* inside an entity value the crate also pairs line ends across decoded references *)
Theorem text_chunks_in_entity : forall cs,
  run_text_chunks true cs = norm_eol (concat (map chunk_bytes cs)).
Proof.
  intros cs. unfold run_text_chunks, tb_new.
  rewrite push_text_chunks_entity, push_lits_spec. reflexivity.
Qed.
Print Assumptions text_chunks_in_entity.

(* ------------------------------------------------------------------------------------------ *)
(* CDATA                                                                                      *)
(* ------------------------------------------------------------------------------------------ *)

Theorem cdata_decode : forall l, cdata_norm l = norm_eol l.
Proof.
  (* the model's function and the specification are the same fixpoint, up to the name *)
  intros l. reflexivity.
Qed.
Print Assumptions cdata_decode.

(* ------------------------------------------------------------------------------------------ *)
(* empty buffer                                                                               *)
(* ------------------------------------------------------------------------------------------ *)

Lemma tb_is_empty_iff : forall t, tb_is_empty t = true <-> tb_buf (tb_flush t) = [].
Proof.
  intros [b p]. unfold tb_is_empty. rewrite flush_spec. cbn [tb_buf tb_pending_cr].
  destruct b as [|x b], p; cbn; split; intros H; try reflexivity; discriminate.
Qed.

(* the buffer is "empty" exactly when nothing would be produced *)
Theorem run_text_empty_iff : forall e cs,
  tb_is_empty (push_text_chunks e cs tb_new) = true <-> run_text_chunks e cs = [].
Proof. intros e cs. unfold run_text_chunks. apply tb_is_empty_iff. Qed.
Print Assumptions run_text_empty_iff.

(* ------------------------------------------------------------------------------------------ *)
(* text, top level                                                                            *)
(* ------------------------------------------------------------------------------------------ *)

Lemma push_raw_bytes_nopending : forall bs b,
  push_char_bytes_text bs false (mk b false) = mk (b ++ bs) false.
Proof.
  induction bs as [|x r IH]; intros b; cbn [push_char_bytes_text].
  - rewrite app_nil_r. reflexivity.
  - unfold tb_push_raw, tb_flush. cbn [tb_pending_cr tb_buf].
    rewrite IH, <- app_assoc. reflexivity.
Qed.

Lemma push_raw_bytes : forall bs b p, bs <> [] ->
  push_char_bytes_text bs false (mk b p) = mk (tb_buf (tb_flush (mk b p)) ++ bs) false.
Proof.
  intros [|x r] b p H; [congruence|]. cbn [push_char_bytes_text].
  unfold tb_push_raw. cbn [tb_buf tb_pending_cr].
  rewrite push_raw_bytes_nopending, <- app_assoc. reflexivity.
Qed.

Definition pre (p : bool) : list chunk := if p then [CLit 13] else [].

Lemma text_top_inv : forall cs b p,
  Forall (fun c => c <> CRef []) cs ->
  tb_buf (tb_flush (push_text_chunks false cs (mk b p))) =
  b ++ gen (fun bs => bs) (fun x => x) (pre p ++ cs).
Proof.
  induction cs as [|[x|bs] r IH]; intros b p H.
  - cbn [push_text_chunks]. rewrite flush_spec. destruct p; [reflexivity|].
    cbn [pre app]. rewrite gen_nil, app_nil_r. reflexivity.
  - inversion H as [|c cs' _ Hr]; subst.
    cbn [push_text_chunks]. rewrite push_from_text_spec.
    destruct p; cbn [pre app].
    + destruct (x =? 10) eqn:E10; [|destruct (x =? 13) eqn:E13];
        rewrite IH by assumption; cbn [pre app].
      * rewrite (gen_crlf _ _ 13 x) by (reflexivity || assumption).
        rewrite <- app_assoc. reflexivity.
      * rewrite (gen_cr _ _ 13 (CLit x :: r)) by (reflexivity || assumption).
        apply N.eqb_eq in E13. subst x.
        rewrite <- app_assoc. reflexivity.
      * rewrite (gen_cr _ _ 13 (CLit x :: r)) by (reflexivity || assumption).
        rewrite (gen_lit_ne _ _ x) by assumption.
        rewrite <- !app_assoc. reflexivity.
    + destruct (x =? 13) eqn:E13; rewrite IH by assumption; cbn [pre app].
      * apply N.eqb_eq in E13. subst x. reflexivity.
      * rewrite (gen_lit_ne _ _ x) by assumption. rewrite <- app_assoc. reflexivity.
  - inversion H as [|c cs' Hbs Hr]; subst.
    assert (bs <> []) as Hne by congruence.
    cbn [push_text_chunks]. rewrite push_raw_bytes by assumption.
    rewrite IH by assumption. rewrite flush_spec. cbn [pre app].
    destruct p; cbn [pre app].
    + rewrite (gen_cr _ _ 13 (CRef bs :: r)) by (reflexivity || exact I).
      rewrite !gen_ref, <- !app_assoc. reflexivity.
    + rewrite gen_ref, <- app_assoc. reflexivity.
Qed.

(* C04: at the top level literal stretches are normalised as source text, referenced characters
   kept.  SIDE CONDITION: no reference decodes to zero bytes ([encode_utf8] never does).
   Without it the statement is false, see [text_chunks_decode_counterexample]. *)
Theorem text_chunks_decode_partial : forall cs,
  Forall (fun c => c <> CRef []) cs ->
  run_text_chunks false cs = decode_chunks cs.
Proof.
  intros cs H. unfold run_text_chunks, tb_new.
  rewrite text_top_inv by assumption. rewrite decode_chunks_gen. reflexivity.
Qed.
Print Assumptions text_chunks_decode_partial.

(* an empty reference does not flush the pending CR, so CR, (nothing), LF is paired *)
Lemma text_chunks_decode_counterexample :
  run_text_chunks false [CLit 13; CRef []; CLit 10] = [10] /\
  decode_chunks [CLit 13; CRef []; CLit 10] = [10; 10].
Proof. split; reflexivity. Qed.
Print Assumptions text_chunks_decode_counterexample.

Lemma text_chunks_decode_unprovable :
  ~ (forall cs, run_text_chunks false cs = decode_chunks cs).
Proof.
  intros H. specialize (H [CLit 13; CRef []; CLit 10]).
  destruct text_chunks_decode_counterexample as [H1 H2]. rewrite H1, H2 in H. discriminate.
Qed.

Lemma encode_utf8_nonempty : forall c, encode_utf8 c <> [].
Proof.
  intros c. unfold encode_utf8.
  destruct (c <? 128); [discriminate|].
  destruct (c <? 2048); [discriminate|].
  destruct (c <? 65536); discriminate.
Qed.

(* ------------------------------------------------------------------------------------------ *)
(* attribute values                                                                           *)
(* ------------------------------------------------------------------------------------------ *)

(* one literal byte, whatever the referenced characters become *)
Lemma attr_lit_step : forall (f : bytes -> bytes) x r b,
  exists b',
    tb_push_from_attr x (next_src r) (mk b false) = mk b' false /\
    b' ++ gen f ws_to_space r = b ++ gen f ws_to_space (CLit x :: r).
Proof.
  intros f x r b. rewrite push_from_attr_spec.
  destruct (x =? 13) eqn:E13; cbn [andb].
  - destruct r as [|[y|bs] r']; cbn [next_src].
    + eexists; split; [reflexivity|].
      rewrite (gen_cr _ _ x []) by (assumption || exact I).
      apply N.eqb_eq in E13. subst x. rewrite <- app_assoc. reflexivity.
    + destruct (y =? 10) eqn:E10.
      * eexists; split; [reflexivity|].
        rewrite (gen_crlf _ _ x y) by assumption.
        apply N.eqb_eq in E10. subst y.
        rewrite (gen_lit_ne _ _ 10) by reflexivity. reflexivity.
      * eexists; split; [reflexivity|].
        rewrite (gen_cr _ _ x (CLit y :: r')) by assumption.
        apply N.eqb_eq in E13. subst x. rewrite <- app_assoc. reflexivity.
    + eexists; split; [reflexivity|].
      rewrite (gen_cr _ _ x (CRef bs :: r')) by (assumption || exact I).
      apply N.eqb_eq in E13. subst x. rewrite <- app_assoc. reflexivity.
  - eexists; split; [reflexivity|].
    rewrite (gen_lit_ne _ _ x) by assumption. rewrite <- app_assoc. reflexivity.
Qed.

Lemma push_char_bytes_attr_top : forall bs b,
  push_char_bytes_attr bs false (mk b false) = Some (mk (b ++ bs) false).
Proof.
  induction bs as [|x r IH]; intros b; cbn [push_char_bytes_attr].
  - rewrite app_nil_r. reflexivity.
  - unfold tb_push_raw, tb_flush. cbn [tb_pending_cr tb_buf].
    rewrite IH, <- app_assoc. reflexivity.
Qed.

Lemma attr_top_inv : forall cs b,
  push_attr_chunks false cs (mk b false) =
  Some (mk (b ++ gen (fun bs => bs) ws_to_space cs) false).
Proof.
  induction cs as [|[x|bs] r IH]; intros b; cbn [push_attr_chunks].
  - rewrite gen_nil, app_nil_r. reflexivity.
  - destruct (attr_lit_step (fun bs => bs) x r b) as [b' [E1 E2]].
    rewrite E1, IH, E2. reflexivity.
  - rewrite push_char_bytes_attr_top, IH, gen_ref, <- app_assoc. reflexivity.
Qed.

(* C05: attribute values, top level: literals normalised per 3.3.3, referenced characters unchanged *)
Theorem attr_chunks_normalise : forall cs t,
  push_attr_chunks false cs tb_new = Some t ->
  tb_buf (tb_flush t) = norm_attr_chunks cs.
Proof.
  intros cs t H. unfold tb_new in H. rewrite attr_top_inv in H.
  injection H as <-. rewrite flush_spec. symmetry. apply norm_attr_chunks_gen.
Qed.
Print Assumptions attr_chunks_normalise.

Theorem attr_chunks_total_top : forall cs, exists t, push_attr_chunks false cs tb_new = Some t.
Proof. intros cs. unfold tb_new. rewrite attr_top_inv. eexists; reflexivity. Qed.
Print Assumptions attr_chunks_total_top.

Lemma push_char_bytes_attr_entity : forall bs b t,
  push_char_bytes_attr bs true (mk b false) = Some t ->
  t = mk (b ++ map ws_to_space bs) false.
Proof.
  induction bs as [|x r IH]; intros b t H; cbn [push_char_bytes_attr] in H.
  - injection H as <-. cbn [map]. rewrite app_nil_r. reflexivity.
  - destruct (x =? 60); [discriminate|].
    rewrite push_from_attr_spec, andb_false_r in H.
    apply IH in H. subst t. cbn [map]. rewrite <- app_assoc. reflexivity.
Qed.

Lemma attr_entity_inv : forall cs b t,
  push_attr_chunks true cs (mk b false) = Some t ->
  t = mk (b ++ gen (map ws_to_space) ws_to_space cs) false.
Proof.
  induction cs as [|[x|bs] r IH]; intros b t H; cbn [push_attr_chunks] in H.
  - injection H as <-. rewrite gen_nil, app_nil_r. reflexivity.
  - destruct (attr_lit_step (map ws_to_space) x r b) as [b' [E1 E2]].
    rewrite E1 in H. apply IH in H. rewrite E2 in H. exact H.
  - destruct (push_char_bytes_attr bs true (mk b false)) as [t'|] eqn:E; [|discriminate].
    apply push_char_bytes_attr_entity in E. subst t'.
    apply IH in H. rewrite gen_ref. rewrite <- app_assoc in H. exact H.
Qed.

(* inside an entity: referenced characters are normalised as well; a referenced '<' is refused *)
Theorem attr_chunks_in_entity : forall cs t,
  push_attr_chunks true cs tb_new = Some t ->
  tb_buf (tb_flush t) = norm_attr_chunks_in_entity cs.
Proof.
  intros cs t H. unfold tb_new in H. apply attr_entity_inv in H. subst t.
  rewrite flush_spec. symmetry. apply norm_attr_chunks_in_entity_gen.
Qed.
Print Assumptions attr_chunks_in_entity.

(* ========================================================================================== *)
(* SECOND STAGE: the chunk machine is what [process_text_with] runs                           *)
(* ========================================================================================== *)

Section TextLoop.
Variable text : bytes.
Variable pc : stream -> context -> res (stream * context).

(* the inner loop of [process_text_with], copied; [process_text_with_unfold] below checks by
   conversion that it is the same term *)
Definition text_loop (r : Tokenizer.range) :=
  fix loop (fuel : nat) (s : stream) (buf : text_buffer) (c : context) {struct fuel}
    : res (text_buffer * context) :=
    match fuel with
    | O => OutOfFuel
    | S fu =>
      if at_end s then Ok (buf, c) else
      let! (ch, s) := parse_next_chunk text s (c_entities c) in
      match ch with
      | ChByte x => loop fu s (tb_push_from_text x buf) c
      | ChChar cp =>
        loop fu s (push_char_bytes_text (encode_utf8 cp) (0 <? ld_depth (c_ld c)) buf) c
      | ChText value =>
        let! c := if negb (tb_is_empty buf)
                  then let! bs := tb_finish buf in append_text (CowOwned bs) r c
                  else Ok c in
        let! ld := inc_references text s (c_ld c) in
        let! ld := inc_depth text s ld in
        let c := set_ld c ld in
        let! es := stream_from_substr text (sl_start value) (sl_end value) in
        let prev_tag_name := c_tag_name c in
        let prev_floor := c_entity_floor c in
        let c := set_entity_floor (set_tag_name c tag_name_null) (len_N (c_parent_prefixes c)) in
        let! (_, c) := pc es c in
        if negb (len_N (c_parent_prefixes c) =? c_entity_floor c) then Err UnexpectedEndOfStream
        else
          let c := set_entity_floor (set_tag_name c prev_tag_name) prev_floor in
          let c := set_ld c (dec_depth (c_ld c)) in
          loop fu s tb_new c
      end
    end.

Definition finish_text (r : Tokenizer.range) (buf : text_buffer) (c : context) : res context :=
  if negb (tb_is_empty buf)
  then let! bs := tb_finish buf in append_text (CowOwned bs) r c
  else Ok c.

Lemma process_text_with_unfold : forall t r c,
  process_text_with text pc t r c =
  if negb (existsb (fun x => (x =? 38) || (x =? 13)) (slice_bytes text t))
  then append_text (CowBorrowed t) r c
  else
    let! s0 := stream_from_substr text (fst r) (snd r) in
    let! (buf, c) := text_loop r (S (length (s_rest s0))) s0 tb_new c in
    finish_text r buf c.
Proof. reflexivity. Qed.

(* the tokenizer reads the chunks [cs] from [s] up to the end of the stream, meeting bytes and
   character / predefined references only (no general entity reference) *)
Inductive reads (es : list entity) : stream -> list chunk -> Prop :=
| reads_end : forall s, at_end s = true -> reads es s []
| reads_byte : forall s x s' cs,
    at_end s = false -> parse_next_chunk text s es = Ok (ChByte x, s') ->
    reads es s' cs -> reads es s (CLit x :: cs)
| reads_char : forall s cp s' cs,
    at_end s = false -> parse_next_chunk text s es = Ok (ChChar cp, s') ->
    reads es s' cs -> reads es s (CRef (encode_utf8 cp) :: cs).

Lemma reads_nonempty_refs : forall es s cs, reads es s cs -> Forall (fun c => c <> CRef []) cs.
Proof.
  induction 1; constructor; auto; try discriminate.
  intros [= E]. exact (encode_utf8_nonempty _ E).
Qed.

Lemma text_loop_reads : forall r c s cs,
  reads (c_entities c) s cs ->
  forall fuel buf,
  text_loop r fuel s buf c =
  if Nat.ltb (length cs) fuel
  then Ok (push_text_chunks (0 <? ld_depth (c_ld c)) cs buf, c)
  else OutOfFuel.
Proof.
  intros r c s cs H. induction H as [s He | s x s' cs He Hp _ IH | s cp s' cs He Hp _ IH];
    intros [|fu] buf; try reflexivity.
  - cbn [text_loop]. rewrite He. reflexivity.
  - cbn [text_loop]. rewrite He, Hp. cbn [bind]. rewrite IH. reflexivity.
  - cbn [text_loop]. rewrite He, Hp. cbn [bind]. rewrite IH. reflexivity.
Qed.

Definition text_result (r : Tokenizer.range) (c : context) (out : bytes) : res context :=
  match out with
  | [] => Ok c
  | _ => if valid_utf8_b out then append_text (CowOwned out) r c else Panic P_unwrap
  end.

Lemma finish_text_spec : forall r buf c,
  finish_text r buf c = text_result r c (tb_buf (tb_flush buf)).
Proof.
  intros r buf c. unfold finish_text, text_result, tb_finish.
  destruct (tb_is_empty buf) eqn:E.
  - apply tb_is_empty_iff in E. rewrite E. reflexivity.
  - destruct (tb_buf (tb_flush buf)) as [|x l] eqn:E'.
    + apply tb_is_empty_iff in E'. congruence.
    + cbn [negb]. destruct (valid_utf8_b (x :: l)); reflexivity.
Qed.

(* a text token without general entity references: [process_text_with] appends exactly what
   the chunk machine produces (nothing when that is empty); the only other outcome is running
   out of the model's fuel, excluded by the bound of the second statement *)
Theorem process_text_with_chunks : forall t r c s0 cs,
  existsb (fun x => (x =? 38) || (x =? 13)) (slice_bytes text t) = true ->
  stream_from_substr text (fst r) (snd r) = Ok s0 ->
  reads (c_entities c) s0 cs ->
  process_text_with text pc t r c = OutOfFuel \/
  process_text_with text pc t r c =
    text_result r c (run_text_chunks (0 <? ld_depth (c_ld c)) cs).
Proof.
  intros t r c s0 cs Hx Hs Hr.
  rewrite process_text_with_unfold, Hx, Hs. cbn [negb bind].
  rewrite (text_loop_reads r c s0 cs Hr).
  destruct (Nat.ltb (length cs) (S (length (s_rest s0)))); [right|left; reflexivity].
  cbn [bind]. apply finish_text_spec.
Qed.

Theorem process_text_with_chunks_fueled : forall t r c s0 cs,
  existsb (fun x => (x =? 38) || (x =? 13)) (slice_bytes text t) = true ->
  stream_from_substr text (fst r) (snd r) = Ok s0 ->
  reads (c_entities c) s0 cs ->
  (length cs <= length (s_rest s0))%nat ->
  process_text_with text pc t r c =
    text_result r c (run_text_chunks (0 <? ld_depth (c_ld c)) cs).
Proof.
  intros t r c s0 cs Hx Hs Hr Hl.
  rewrite process_text_with_unfold, Hx, Hs. cbn [negb bind].
  rewrite (text_loop_reads r c s0 cs Hr).
  destruct (Nat.ltb (length cs) (S (length (s_rest s0)))) eqn:E; [|lia].
  cbn [bind]. apply finish_text_spec.
Qed.

(* with C04: at the top level the appended text is the XML decoding of the chunks *)
Corollary process_text_with_decode_top : forall t r c s0 cs,
  existsb (fun x => (x =? 38) || (x =? 13)) (slice_bytes text t) = true ->
  stream_from_substr text (fst r) (snd r) = Ok s0 ->
  reads (c_entities c) s0 cs ->
  (0 <? ld_depth (c_ld c)) = false ->
  process_text_with text pc t r c = OutOfFuel \/
  process_text_with text pc t r c = text_result r c (decode_chunks cs).
Proof.
  intros t r c s0 cs Hx Hs Hr Hd.
  rewrite <- (text_chunks_decode_partial cs) by (eapply reads_nonempty_refs; eassumption).
  rewrite <- Hd. eapply process_text_with_chunks; eassumption.
Qed.
End TextLoop.
Print Assumptions process_text_with_chunks.
Print Assumptions process_text_with_chunks_fueled.
Print Assumptions process_text_with_decode_top.

(* ------------------------------------------------------------------------------------------ *)
(* the same for attribute values: the loop of [norm_attr_lvl]                                 *)
(* ------------------------------------------------------------------------------------------ *)

Section AttrLoop.
Variable text : bytes.

(* the inner loop of [norm_attr_lvl], copied; [norm_attr_lvl_unfold] checks it by conversion *)
Definition attr_loop (lvl' : nat) (entities : list entity) :=
  fix loop (fuel : nat) (s : stream) (t : text_buffer) (ld : loop_detector) {struct fuel}
    : res (text_buffer * loop_detector) :=
    match fuel with
    | O => OutOfFuel
    | S fu =>
      if at_end s then Ok (t, ld) else
      let! x := curr_byte_unchecked s in
      if negb (x =? 38) then
        if (x =? 60) && (0 <? ld_depth ld) then err_at text s InvalidAttributeValue
        else
          let! s := advance 1 s in
          loop fu s (tb_push_from_attr x (curr_byte_opt s) t) ld
      else
        let start := s_pos s in
        let! r := consume_reference text s in
        match r with
        | Some (RefChar ch, s) =>
          match push_char_bytes_attr (encode_utf8 ch) (0 <? ld_depth ld) t with
          | Some t => loop fu s t ld
          | None => err_from text start InvalidAttributeValue
          end
        | Some (RefEntity name, s) =>
          match find_entity text entities (slice_bytes text name) with
          | Some e =>
            let! ld := inc_references text s ld in
            let! ld := inc_depth text s ld in
            let! (t, ld) := norm_attr_lvl text lvl' entities (en_value e) t ld in
            loop fu s t (dec_depth ld)
          | None => err_from text start (UnknownEntityReference (slice_bytes text name))
          end
        | None => err_from text start MalformedEntityReference
        end
    end.

Lemma norm_attr_lvl_unfold : forall lvl' entities value t ld,
  norm_attr_lvl text (S lvl') entities value t ld =
  let! s0 := stream_from_substr text (sl_start value) (sl_end value) in
  attr_loop lvl' entities (S (length (s_rest s0))) s0 t ld.
Proof. reflexivity. Qed.

(* the attribute value read from [s] consists of the chunks [cs]: literal bytes other than '&'
   (and other than '<' inside an entity value, where the crate refuses it) and character /
   predefined references; no general entity reference *)
Inductive areads (in_entity : bool) : stream -> list chunk -> Prop :=
| areads_end : forall s, at_end s = true -> areads in_entity s []
| areads_byte : forall s x s' cs,
    at_end s = false -> curr_byte_unchecked s = Ok x -> (x =? 38) = false ->
    (x =? 60) && in_entity = false ->
    advance 1 s = Ok s' ->
    areads in_entity s' cs -> areads in_entity s (CLit x :: cs)
| areads_char : forall s ch s' cs,
    at_end s = false -> curr_byte_unchecked s = Ok 38 ->
    consume_reference text s = Ok (Some (RefChar ch, s')) ->
    areads in_entity s' cs -> areads in_entity s (CRef (encode_utf8 ch) :: cs).

(* [next_src] is the byte the crate peeks at *)
Lemma areads_next : forall e s cs, areads e s cs -> curr_byte_opt s = next_src cs.
Proof.
  intros e s cs H. unfold curr_byte_opt.
  destruct H as [s He | s x s' cs He Hc _ _ _ _ | s ch s' cs He Hc _ _]; rewrite He.
  - reflexivity.
  - unfold curr_byte_unchecked in Hc. destruct (s_rest s); [discriminate|].
    injection Hc as ->. reflexivity.
  - unfold curr_byte_unchecked in Hc. destruct (s_rest s); [discriminate|].
    injection Hc as ->. reflexivity.
Qed.

Lemma attr_loop_reads : forall lvl' entities ld s cs,
  areads (0 <? ld_depth ld) s cs ->
  forall fuel t t',
  push_attr_chunks (0 <? ld_depth ld) cs t = Some t' ->
  attr_loop lvl' entities fuel s t ld =
  if Nat.ltb (length cs) fuel then Ok (t', ld) else OutOfFuel.
Proof.
  intros lvl' entities ld s cs H.
  induction H as [s He | s x s' cs He Hc H38 H60 Ha Hr IH | s ch s' cs He Hc Hcr Hr IH];
    intros [|fu] t t' Hp; try reflexivity; cbn [push_attr_chunks] in Hp.
  - injection Hp as <-. cbn [attr_loop]. rewrite He. reflexivity.
  - cbn [attr_loop]. rewrite He, Hc. cbn [bind]. rewrite H38, H60. cbn [negb].
    rewrite Ha. cbn [bind]. rewrite (areads_next _ _ _ Hr).
    rewrite (IH fu _ _ Hp). reflexivity.
  - destruct (push_char_bytes_attr (encode_utf8 ch) (0 <? ld_depth ld) t) as [t1|] eqn:E;
      [|discriminate].
    cbn [attr_loop]. rewrite He, Hc. cbn [bind].
    change (38 =? 38) with true. cbn [negb].
    rewrite Hcr. cbn [bind]. rewrite E.
    rewrite (IH fu _ _ Hp). reflexivity.
Qed.

(* when the chunk machine refuses (a referenced '<' inside an entity value), so does the crate *)
Lemma attr_loop_refuses : forall lvl' entities ld s cs,
  areads (0 <? ld_depth ld) s cs ->
  forall fuel t,
  push_attr_chunks (0 <? ld_depth ld) cs t = None ->
  attr_loop lvl' entities fuel s t ld = OutOfFuel \/
  exists p, attr_loop lvl' entities fuel s t ld = err_from text p InvalidAttributeValue.
Proof.
  intros lvl' entities ld s cs H.
  induction H as [s He | s x s' cs He Hc H38 H60 Ha Hr IH | s ch s' cs He Hc Hcr Hr IH];
    intros [|fu] t Hp; try (left; reflexivity); cbn [push_attr_chunks] in Hp.
  - discriminate.
  - cbn [attr_loop]. rewrite He, Hc. cbn [bind]. rewrite H38, H60. cbn [negb].
    rewrite Ha. cbn [bind]. rewrite (areads_next _ _ _ Hr). apply IH. exact Hp.
  - cbn [attr_loop]. rewrite He, Hc. cbn [bind].
    change (38 =? 38) with true. cbn [negb].
    rewrite Hcr. cbn [bind].
    destruct (push_char_bytes_attr (encode_utf8 ch) (0 <? ld_depth ld) t) as [t1|] eqn:E.
    + apply IH. exact Hp.
    + right. eexists. reflexivity.
Qed.

(* an attribute value (or entity value, when the depth is positive) without general entity
   references: [norm_attr_lvl] runs the chunk machine *)
Theorem norm_attr_lvl_chunks : forall lvl entities value t ld s0 cs t',
  stream_from_substr text (sl_start value) (sl_end value) = Ok s0 ->
  areads (0 <? ld_depth ld) s0 cs ->
  push_attr_chunks (0 <? ld_depth ld) cs t = Some t' ->
  norm_attr_lvl text (S lvl) entities value t ld = OutOfFuel \/
  norm_attr_lvl text (S lvl) entities value t ld = Ok (t', ld).
Proof.
  intros lvl entities value t ld s0 cs t' Hs Hr Hp.
  rewrite norm_attr_lvl_unfold, Hs. cbn [bind].
  rewrite (attr_loop_reads lvl entities ld s0 cs Hr _ t t' Hp).
  destruct (Nat.ltb (length cs) (S (length (s_rest s0)))); [right|left]; reflexivity.
Qed.

Theorem norm_attr_lvl_chunks_fueled : forall lvl entities value t ld s0 cs t',
  stream_from_substr text (sl_start value) (sl_end value) = Ok s0 ->
  areads (0 <? ld_depth ld) s0 cs ->
  push_attr_chunks (0 <? ld_depth ld) cs t = Some t' ->
  (length cs <= length (s_rest s0))%nat ->
  norm_attr_lvl text (S lvl) entities value t ld = Ok (t', ld).
Proof.
  intros lvl entities value t ld s0 cs t' Hs Hr Hp Hl.
  rewrite norm_attr_lvl_unfold, Hs. cbn [bind].
  rewrite (attr_loop_reads lvl entities ld s0 cs Hr _ t t' Hp).
  destruct (Nat.ltb (length cs) (S (length (s_rest s0)))) eqn:E; [reflexivity|lia].
Qed.

(* with C05: [normalize_attribute] on a top-level value without general entity references
   returns the 3.3.3 normalisation of its chunks *)
Theorem normalize_attribute_chunks_top : forall value c s0 cs,
  existsb (fun x => (x =? 38) || (x =? 9) || (x =? 10) || (x =? 13)) (slice_bytes text value) = true ->
  stream_from_substr text (sl_start value) (sl_end value) = Ok s0 ->
  areads false s0 cs ->
  (0 <? ld_depth (c_ld c)) = false ->
  normalize_attribute text value c = OutOfFuel \/
  normalize_attribute text value c =
    if valid_utf8_b (norm_attr_chunks cs)
    then Ok (Doc.Owned (norm_attr_chunks cs), set_ld c (c_ld c))
    else Panic P_unwrap.
Proof.
  intros value c s0 cs Hx Hs Hr Hd.
  destruct (attr_chunks_total_top cs) as [t' Hp].
  pose proof (attr_chunks_normalise cs t' Hp) as Hn.
  unfold normalize_attribute. rewrite Hx. unfold entity_levels.
  rewrite <- Hd in Hr, Hp.
  destruct (norm_attr_lvl_chunks (S (N.to_nat ld_max_depth)) (c_entities c) value tb_new (c_ld c)
              s0 cs t' Hs Hr Hp) as [E|E]; rewrite E; [left; reflexivity|right].
  cbn [bind]. unfold tb_finish. rewrite Hn.
  destruct (valid_utf8_b (norm_attr_chunks cs)); reflexivity.
Qed.
End AttrLoop.
Print Assumptions norm_attr_lvl_chunks.
Print Assumptions norm_attr_lvl_chunks_fueled.
Print Assumptions attr_loop_refuses.
Print Assumptions normalize_attribute_chunks_top.
