(* Proofs/CstItems.v -- C03, M2 + M3 together: parse_content_loop with the real callback on the
   rendering of an item appends exactly the rows of the item under the current parent. *)
From Coq Require Import Ascii String.
From Coq Require Import List NArith PeanoNat Bool Lia ZifyBool ZifyN ZifyNat.
Import ListNotations.
From RX Require Import Generated.
From RX.Model Require Import Base CharClass Stream Tokenizer Doc Builder Parse.
From RX.Spec Require Cst.
From RX.Proofs Require Import Tactics CstLex CstBuild CstTree.
Open Scope N_scope.

Lemma bind_assoc {A B D} (r : res A) (f : A -> res B) (g : B -> res D) :
  bind (bind r f) g = bind r (fun a => bind (f a) g).
Proof. destruct r; reflexivity. Qed.

(* number of iterations of parse_content_loop spent on an item *)
Fixpoint steps (i : Cst.item) : nat :=
  match i with
  | Cst.IElem _ _ _ (Some (cs, _)) =>
    S ((fix go (l : list Cst.item) : nat := match l with [] => O | c :: r => steps c + go r end) cs + 1)
  | _ => 1
  end%nat.
Fixpoint steps_list (l : list Cst.item) : nat :=
  match l with [] => O | c :: r => (steps c + steps_list r)%nat end.

Lemma steps_elem n a w cs w2 : steps (Cst.IElem n a w (Some (cs, w2))) = S (steps_list cs + 1)%nat.
Proof. reflexivity. Qed.

Definition is_elem (i : Cst.item) : bool := match i with Cst.IElem _ _ _ _ => true | _ => false end.

Section Items.
Variable text : bytes.
Hypothesis Hascii : Forall (fun x => x < 128) text.

Notation ev := (tok_ev text).
Notation loop := (parse_content_loop text context (tok_ev text)).
Notation st := (CstLex.st text).
Notation W := (CstLex.W text).

(* ---- the dispatch of parse_content_loop ---- *)

Lemma loop_text fuel depth p x l c : W p (x :: l) -> x <> 60 ->
  loop (S fuel) depth (st p (x :: l)) c =
  let! (s, c) := parse_text text context ev (st p (x :: l)) c in loop fuel depth s c.
Proof.
  intros HW Hx. cbn [parse_content_loop]. rewrite at_end_st by assumption.
  cbn [curr_byte_unchecked CstLex.st s_rest bind]. replace (x =? 60) with false by lia. reflexivity.
Qed.

Lemma loop_lt fuel depth p y l c : W p (60 :: y :: l) ->
  loop (S fuel) depth (st p (60 :: y :: l)) c =
  if y =? 33 then
    if starts_with (st p (60 :: y :: l)) (b "<!--") then
      let! (s, c) := parse_comment text context ev (st p (60 :: y :: l)) c in loop fuel depth s c
    else if starts_with (st p (60 :: y :: l)) (b "<![CDATA[") then
      let! (s, c) := parse_cdata text context ev (st p (60 :: y :: l)) c in loop fuel depth s c
    else err_at text (st p (60 :: y :: l)) UnknownToken
  else if y =? 63 then
    let! (s, c) := parse_pi text context ev (st p (60 :: y :: l)) c in loop fuel depth s c
  else if y =? 47 then
    let! (s, c) := parse_close_element text context ev (st p (60 :: y :: l)) c in
    if depth =? 0 then Ok (s, c) else loop fuel (depth - 1) s c
  else
    let! (open, s, c) := parse_element text context ev (st p (60 :: y :: l)) c in
    loop fuel (if open then depth + 1 else depth) s c.
Proof.
  intros HW. cbn [parse_content_loop]. rewrite at_end_st by assumption.
  cbn [curr_byte_unchecked CstLex.st s_rest bind]. change (60 =? 60) with true. cbv iota.
  fold (st p (60 :: y :: l)). rewrite next_byte_st by assumption. reflexivity.
Qed.

Lemma loop_comment fuel depth p l c : W p ([60; 33; 45; 45] ++ l) ->
  loop (S fuel) depth (st p ([60; 33; 45; 45] ++ l)) c =
  let! (s, c) := parse_comment text context ev (st p ([60; 33; 45; 45] ++ l)) c in loop fuel depth s c.
Proof.
  intros HW. cbn [app] in *. rewrite loop_lt by assumption. change (33 =? 33) with true. cbv iota.
  rewrite starts_with_st by assumption. reflexivity.
Qed.

Lemma loop_pi fuel depth p l c : W p ([60; 63] ++ l) ->
  loop (S fuel) depth (st p ([60; 63] ++ l)) c =
  let! (s, c) := parse_pi text context ev (st p ([60; 63] ++ l)) c in loop fuel depth s c.
Proof. intros HW. cbn [app] in *. rewrite loop_lt by assumption. reflexivity. Qed.

Lemma loop_close fuel depth p l c : W p ([60; 47] ++ l) ->
  loop (S fuel) depth (st p ([60; 47] ++ l)) c =
  let! (s, c) := parse_close_element text context ev (st p ([60; 47] ++ l)) c in
  if depth =? 0 then Ok (s, c) else loop fuel (depth - 1) s c.
Proof. intros HW. cbn [app] in *. rewrite loop_lt by assumption. reflexivity. Qed.

Lemma loop_elem fuel depth p n l c : W p ([60] ++ (n :: l)) -> Cst.is_name_start n = true ->
  loop (S fuel) depth (st p ([60] ++ (n :: l))) c =
  let! (open, s, c) := parse_element text context ev (st p ([60] ++ (n :: l))) c in
  loop fuel (if open then depth + 1 else depth) s c.
Proof.
  intros HW Hn. cbn [app] in *. rewrite loop_lt by assumption.
  destruct (name_start_byte _ Hn) as (_ & _ & _ & H47 & _ & H33 & H63 & _).
  replace (n =? 33) with false by lia. replace (n =? 63) with false by lia.
  replace (n =? 47) with false by lia. reflexivity.
Qed.

(* ---- what is proved of every item ---- *)

Definition node_room (c : context) (k : N) : Prop :=
  len_N (d_nodes (c_doc c)) + k <= nodes_limit (c_opt c) /\ len_N (d_nodes (c_doc c)) + k <= u32_max.
Definition attr_room (c : context) (k : nat) : Prop :=
  len_N (d_attrs (c_doc c)) + N.of_nat k < u32_max.

Lemma node_room_room c k : node_room c k -> 1 <= k -> room c.
Proof. unfold node_room, room. lia. Qed.

Definition Post (i : Cst.item) (c c' : context) (K : list row) (ext : list attr_data) : Prop :=
  Step c c' K ext /\ CI c' /\ (Cst.is_text i = false -> c_after_text c' = []) /\
  (tn_set c -> tn_set c') /\ (is_elem i = true -> tn_set c') /\
  Forall2 (km text (d_attrs (c_doc c'))) K (tag (c_parent_id c) (len_N (d_nodes (c_doc c))) i) /\
  length ext = nattrs i.

Definition PI (i : Cst.item) : Prop :=
  forall p post c depth fuel,
    Cst.wf_item i = true -> W p (Cst.r_item i ++ post) ->
    (Cst.is_text i = true -> text_stop post) ->
    CI c -> (Cst.is_text i = true -> c_after_text c = []) ->
    node_room c (nsize i) -> attr_room c (nattrs i) ->
    exists c' K ext,
      loop (steps i + fuel) depth (st p (Cst.r_item i ++ post)) c =
      loop fuel depth (st (p + blen (Cst.r_item i)) post) c' /\
      Post i c c' K ext.

Lemma same_tn c c' : c_tag_name c' = c_tag_name c -> tn_set c -> tn_set c'.
Proof. unfold tn_set. intros ->. auto. Qed.

(* ---- comments ---- *)
Lemma wf_comment bs : Cst.wf_item (Cst.IComment bs) = true -> comment_ok bs.
Proof.
  cbn [Cst.wf_item]. rewrite !andb_true_iff. intros [[H1 H2] H3]. split; [exact H1|]. split.
  - rewrite <- contains_eq. apply negb_true_iff. exact H2.
  - unfold ends_with_byte. destruct (rev bs); [reflexivity|]. apply negb_true_iff. exact H3.
Qed.

Lemma ev_comment bs p post c : Cst.wf_item (Cst.IComment bs) = true ->
  W p (Cst.r_item (Cst.IComment bs) ++ post) -> CI c -> room c ->
  exists c' K,
    parse_comment text context ev (st p (Cst.r_item (Cst.IComment bs) ++ post)) c =
    Ok (st (p + blen (Cst.r_item (Cst.IComment bs))) post, c') /\ Post (Cst.IComment bs) c c' K [].
Proof.
  intros Hwf HW I R. apply wf_comment in Hwf.
  cbn [Cst.r_item] in *. rewrite <- !app_assoc in *.
  rewrite lex_comment by assumption.
  destruct (tok_comment text (sl (p + 4) (p + 4 + blen bs)) (p, p + 4 + blen bs + 3) c I R)
    as (c' & E & S & I' & A & T).
  rewrite E. cbn [bind].
  exists c', [(Some (c_parent_id c), KComment (sl (p + 4) (p + 4 + blen bs)))].
  split.
  - f_equal. f_equal. f_equal. rewrite !blen_app. change (blen [60; 33; 45; 45]) with 4. change (blen [45; 45; 62]) with 3. lia.
  - split; [exact S|]. split; [exact I'|]. split; [intros _; exact A|]. split; [apply same_tn; exact T|].
    split; [discriminate|]. split; [|reflexivity].
    cbn [tag]. constructor; [|constructor]. split; [reflexivity|]. cbn [snd].
    pose proof (W_app _ _ _ _ HW) as HW1. change (blen [60; 33; 45; 45]) with 4 in HW1.
    apply (W_slice _ _ _ _ HW1).
Qed.

Lemma PI_comment bs : PI (Cst.IComment bs).
Proof.
  intros p post c depth fuel Hwf HW _ I _ NR _.
  destruct (ev_comment bs p post c Hwf HW I (node_room_room _ _ NR (nsize_pos _))) as (c' & K & E & HP).
  exists c', K, []. split; [|exact HP].
  cbn [steps Nat.add]. cbn [Cst.r_item] in *. rewrite <- !app_assoc in *.
  rewrite loop_comment by exact HW. rewrite E. reflexivity.
Qed.

(* ---- processing instructions ---- *)
Lemma wf_pi t s v : Cst.wf_item (Cst.IPI t s v) = true -> pi_ok t s v.
Proof.
  cbn [Cst.wf_item]. rewrite !andb_true_iff. intros [[[[[H1 H2] H3] H4] H5] H6].
  split; [exact H1|]. split; [exact H2|]. split; [exact H3|]. split.
  { rewrite <- contains_eq. apply negb_true_iff. exact H4. }
  split; [apply negb_true_iff; exact H5|].
  destruct v as [|x v]; [exact I|]. apply andb_true_iff in H6. destruct H6 as [H6 H7].
  split; [apply negb_true_iff; exact H6|]. destruct s; [discriminate|discriminate].
Qed.

Lemma ev_pi t s v p post c : Cst.wf_item (Cst.IPI t s v) = true ->
  W p (Cst.r_item (Cst.IPI t s v) ++ post) -> CI c -> room c ->
  exists c' K,
    parse_pi text context ev (st p (Cst.r_item (Cst.IPI t s v) ++ post)) c =
    Ok (st (p + blen (Cst.r_item (Cst.IPI t s v))) post, c') /\ Post (Cst.IPI t s v) c c' K [].
Proof.
  intros Hwf HW I R. apply wf_pi in Hwf.
  cbn [Cst.r_item] in *. rewrite <- !app_assoc in *.
  rewrite lex_pi by assumption. cbv zeta.
  set (vs := match v with [] => None | _ :: _ => Some (sl (p + 2 + blen t + blen s) (p + 2 + blen t + blen s + blen v)) end).
  destruct (tok_pi text (sl (p + 2) (p + 2 + blen t)) vs (p, p + 2 + blen t + blen s + blen v + 2) c I R)
    as (c' & E & S & I' & A & T).
  rewrite E. cbn [bind].
  exists c', [(Some (c_parent_id c), KPI (sl (p + 2) (p + 2 + blen t)) vs)].
  split.
  - f_equal. f_equal. f_equal. rewrite !blen_app. change (blen [60; 63]) with 2. change (blen [63; 62]) with 2. lia.
  - split; [exact S|]. split; [exact I'|]. split; [intros _; exact A|]. split; [apply same_tn; exact T|].
    split; [discriminate|]. split; [|reflexivity].
    cbn [tag]. constructor; [|constructor]. split; [reflexivity|]. cbn [snd].
    pose proof (W_app _ _ _ _ HW) as HW1. change (blen [60; 63]) with 2 in HW1.
    split; [apply (W_slice _ _ _ _ HW1)|].
    pose proof (W_app _ _ _ _ HW1) as HW2. pose proof (W_app _ _ _ _ HW2) as HW3.
    unfold vs. destruct v as [|x v]; [exact Logic.I|]. apply (W_slice _ _ _ _ HW3).
Qed.

Lemma PI_pi t s v : PI (Cst.IPI t s v).
Proof.
  intros p post c depth fuel Hwf HW _ I _ NR _.
  destruct (ev_pi t s v p post c Hwf HW I (node_room_room _ _ NR (nsize_pos _))) as (c' & K & E & HP).
  exists c', K, []. split; [|exact HP].
  cbn [steps Nat.add]. cbn [Cst.r_item] in *. rewrite <- !app_assoc in *.
  rewrite loop_pi by exact HW. rewrite E. reflexivity.
Qed.

(* ---- text ---- *)
Lemma wf_text bs : Cst.wf_item (Cst.IText bs) = true ->
  text_ok bs /\ bs <> [] /\ existsb (fun x => (x =? 38) || (x =? 13)) bs = false.
Proof.
  cbn [Cst.wf_item]. rewrite !andb_true_iff. intros [[H1 H2] H3]. split; [split|split].
  - exact H2.
  - rewrite <- contains_eq. apply negb_true_iff. exact H3.
  - destruct bs; [discriminate|discriminate].
  - clear - H2. induction bs as [|x r IH]; [reflexivity|]. cbn [forallb existsb] in *.
    apply andb_true_iff in H2. destruct H2 as [Hx H2]. rewrite IH by exact H2.
    assert (Hp : Cst.is_plain x = true) by lia. destruct (plain_char _ Hp) as (_ & _ & H13). lia.
Qed.

Lemma PI_text bs : PI (Cst.IText bs).
Proof.
  intros p post c depth fuel Hwf HW Hstop I Hat NR _. destruct (wf_text _ Hwf) as (Hok & Hne & Hex).
  cbn [Cst.r_item] in *. specialize (Hstop eq_refl). specialize (Hat eq_refl).
  cbn [steps Nat.add].
  destruct bs as [|x r]; [congruence|].
  assert (Hx : x <> 60).
  { destruct Hok as [Hok _]. cbn [forallb] in Hok. lia. }
  change ((x :: r) ++ post) with (x :: r ++ post) in *. rewrite loop_text by assumption.
  change (x :: r ++ post) with ((x :: r) ++ post) in *.
  rewrite lex_text by assumption.
  destruct (tok_text text (sl p (p + blen (x :: r))) (p, p + blen (x :: r)) c I)
    as (c' & E & S & I' & T); [apply (node_room_room _ _ NR (nsize_pos _))|exact Hat| |].
  { rewrite (W_slice _ _ _ _ HW). exact Hex. }
  rewrite E. cbn [bind].
  exists c', [(Some (c_parent_id c), KText (Borrowed (SIn (sl p (p + blen (x :: r))))))], [].
  split; [reflexivity|].
  split; [exact S|]. split; [exact I'|]. split; [discriminate|]. split; [apply same_tn; exact T|].
  split; [discriminate|]. split; [|reflexivity].
  cbn [tag]. constructor; [|constructor]. split; [reflexivity|]. cbn [snd storage_bytes str_bytes].
  apply (W_slice _ _ _ _ HW).
Qed.


(* ---- elements ---- *)
Lemma loop_elem' fuel depth p name l c : W p ([60] ++ name ++ l) -> Cst.wf_name name = true ->
  loop (S fuel) depth (st p ([60] ++ name ++ l)) c =
  let! (open, s, c) := parse_element text context ev (st p ([60] ++ name ++ l)) c in
  loop fuel (if open then depth + 1 else depth) s c.
Proof.
  intros HW Hn. destruct name as [|n ns]; [discriminate|].
  cbn [Cst.wf_name] in Hn. apply andb_true_iff in Hn. destruct Hn as [Hn _].
  apply (loop_elem fuel depth p n (ns ++ l) c HW Hn).
Qed.

Lemma wf_elem_parts name attrs ws body : Cst.wf_item (Cst.IElem name attrs ws body) = true ->
  Cst.wf_name name = true /\ forallb Cst.wf_attr attrs = true /\ forallb not_xmlns attrs = true /\
  Cst.names_distinct (map Cst.a_name attrs) = true /\ Cst.wf_ws ws = true /\
  match body with
  | None => True
  | Some (cs, ws2) => Cst.wf_ws ws2 = true /\ Cst.no_adjacent_text cs = true /\ wf_items cs = true
  end.
Proof.
  rewrite wf_item_elem, !andb_true_iff. intros [[[[[[H1 _] H2] H3] H4] H5] H6].
  repeat split; try assumption. destruct body as [[cs ws2]|]; [|exact Logic.I].
  rewrite !andb_true_iff in H6. tauto.
Qed.

Lemma wf_name_ne name : Cst.wf_name name = true -> name <> [].
Proof. destruct name; [discriminate|discriminate]. Qed.

Lemma PI_empty name attrs ws : PI (Cst.IElem name attrs ws None).
Proof.
  intros p post c depth fuel Hwf HW _ I _ NR AR.
  destruct (wf_elem_parts _ _ _ _ Hwf) as (Hn & Ha & Hx & Hd & Hw & _). clear Hwf.
  rewrite r_item_elem in *. rewrite <- !app_assoc in HW |- *.
  change ([47; 62] ++ post) with (tag_tail true ++ post) in *.
  cbn [steps Nat.add]. rewrite loop_elem' by assumption.
  rewrite lex_element by assumption. cbv zeta.
  rewrite nattrs_elem, Nat.add_0_r in AR.
  destruct (start_tag_ok text p name attrs ws true post c HW (wf_name_ne _ Hn) Ha Hx Hd I)
    as (c' & ar & E & S & Hkm & I' & A & T & P1 & P2);
    [apply (node_room_room _ _ NR (nsize_pos _))|unfold attr_room, len_N in *; lia|].
  cbv zeta in E. apply bind_ok in E. destruct E as (c1 & E1 & E2).
  rewrite E1. cbn [bind]. rewrite E2. cbn [bind negb].
  exists c', [(Some (c_parent_id c), KElement None (sl (p + 1) (p + 1 + blen name)) ar (1, 1))],
    (map ad_of (tas (p + 1 + blen name) attrs)).
  split.
  - f_equal. f_equal. rewrite !blen_app. change (blen [60]) with 1. change (blen (tag_tail true)) with 2.
    change (blen [47; 62]) with 2. lia.
  - split; [split; [exact S|split; assumption]|]. split; [exact I'|]. split; [intros _; exact A|].
    split; [intros _; exact T|]. split; [intros _; exact T|]. split.
    + cbn [tag]. constructor; [|constructor]. apply Hkm.
    + rewrite map_length, nattrs_elem, Nat.add_0_r. pose proof (tas_len attrs (p + 1 + blen name)) as L.
      unfold len_N in L. lia.
Qed.


(* ---- lists of children ---- *)
Definition head_text_ok (cs : list Cst.item) (c : context) : Prop :=
  match cs with i :: _ => Cst.is_text i = true -> c_after_text c = [] | [] => True end.

Definition PL (cs : list Cst.item) : Prop :=
  forall p post c depth fuel,
    wf_items cs = true -> Cst.no_adjacent_text cs = true -> W p (r_items cs ++ post) -> text_stop post ->
    CI c -> head_text_ok cs c -> node_room c (nsizes cs) -> attr_room c (nattrs_items cs) ->
    exists c' K ext,
      loop (steps_list cs + fuel) depth (st p (r_items cs ++ post)) c =
      loop fuel depth (st (p + blen (r_items cs)) post) c' /\
      Step c c' K ext /\ CI c' /\ (tn_set c -> tn_set c') /\
      Forall2 (km text (d_attrs (c_doc c'))) K (tag_list (c_parent_id c) (len_N (d_nodes (c_doc c))) cs) /\
      length ext = nattrs_items cs.

Lemma Forall2_len_N {A B} (R : A -> B -> Prop) l l' : Forall2 R l l' -> len_N l = len_N l'.
Proof. intros H. unfold len_N. induction H; cbn [length]; lia. Qed.

Lemma Step_nodes_len c c' K ext : Step c c' K ext ->
  len_N (d_nodes (c_doc c')) = len_N (d_nodes (c_doc c)) + len_N K.
Proof. intros [S _]. apply (Step0_len _ _ _ _ S). Qed.

Lemma Step_attrs_len c c' K ext : Step0 c c' K ext ->
  len_N (d_attrs (c_doc c')) = len_N (d_attrs (c_doc c)) + len_N ext.
Proof. intros S. rewrite (s_attrs _ _ _ _ S), len_N_app. reflexivity. Qed.

Lemma Step_opt c c' K ext : Step0 c c' K ext -> c_opt c' = c_opt c.
Proof. intros S. apply (s_keep _ _ _ _ S). Qed.

Lemma km_Forall2_ext A ext K T : Forall2 (km text A) K T -> Forall2 (km text (A ++ ext)) K T.
Proof. intros H. induction H; constructor; [apply km_ext; assumption|assumption]. Qed.

Lemma PL_of cs : Forall PI cs -> PL cs.
Proof.
  induction 1 as [|i r Hi _ IH]; intros p post c depth fuel Hwf Hna HW Hstop I Hhd NR AR.
  - exists c, [], []. cbn [steps_list r_items app Nat.add blen length] in *.
    change (N.of_nat 0) with 0. rewrite N.add_0_r.
    split; [reflexivity|]. split; [apply Step_refl|]. split; [exact I|]. split; [auto|].
    split; [constructor|reflexivity].
  - cbn [wf_items] in Hwf. apply andb_true_iff in Hwf. destruct Hwf as [Hw1 Hw2].
    cbn [r_items] in HW |- *. rewrite <- app_assoc in HW |- *.
    rewrite nsizes_cons in NR. cbn [nattrs_items] in AR.
    assert (Hna2 : Cst.no_adjacent_text r = true).
    { destruct r as [|d r']; [reflexivity|]. cbn [Cst.no_adjacent_text] in Hna.
      apply andb_true_iff in Hna. apply Hna. }
    assert (Hnext : forall d r', r = d :: r' -> Cst.is_text i = true -> Cst.is_text d = false).
    { intros d r' -> Hi1. cbn [Cst.no_adjacent_text] in Hna. apply andb_true_iff in Hna.
      destruct Hna as [Hna _]. rewrite Hi1 in Hna. cbn [andb] in Hna. apply negb_true_iff in Hna. exact Hna. }
    assert (Hfollow : Cst.is_text i = true -> text_stop (r_items r ++ post)).
    { intros Hi1. destruct r as [|d r']; [exact Hstop|].
      destruct (nontext_starts d (Hnext d r' eq_refl Hi1)) as [l El].
      cbn [r_items]. rewrite El. reflexivity. }
    destruct (Hi p (r_items r ++ post) c depth (steps_list r + fuel)%nat Hw1 HW Hfollow I Hhd)
      as (c1 & K1 & e1 & E1 & S1 & I1 & A1 & T1 & _ & F1 & L1).
    { unfold node_room in *. lia. }
    { unfold attr_room in *. lia. }
    pose proof (Step_nodes_len _ _ _ _ S1) as Ln1.
    rewrite (Forall2_len_N _ _ _ F1) in Ln1. unfold len_N at 3 in Ln1. rewrite tag_len in Ln1.
    pose proof (Step_attrs_len _ _ _ _ (proj1 S1)) as La1. unfold len_N at 3 in La1. rewrite L1 in La1.
    pose proof (Step_opt _ _ _ _ (proj1 S1)) as Lo1.
    destruct (IH (p + blen (Cst.r_item i)) post c1 depth fuel Hw2 Hna2 (W_app _ _ _ _ HW) Hstop I1)
      as (c2 & K2 & e2 & E2 & S2 & I2 & T2 & F2 & L2).
    { destruct r as [|d r']; [exact Logic.I|]. cbn [head_text_ok]. intros Hd. apply A1.
      destruct (Cst.is_text i) eqn:Ei; [|reflexivity].
      rewrite (Hnext d r' eq_refl eq_refl) in Hd. discriminate. }
    { unfold node_room in *. rewrite Ln1, Lo1. lia. }
    { unfold attr_room in *. rewrite La1. lia. }
    exists c2, (K1 ++ K2), (e1 ++ e2). split.
    { cbn [steps_list]. rewrite <- Nat.add_assoc, E1, E2. f_equal. f_equal. rewrite blen_app. lia. }
    split; [eapply Step_trans; eassumption|]. split; [exact I2|]. split; [auto|]. split.
    + cbn [tag_list]. apply Forall2_app.
      * rewrite (s_attrs _ _ _ _ (proj1 S2)). apply km_Forall2_ext. exact F1.
      * destruct S1 as (_ & P1 & _). rewrite P1, Ln1 in F2. exact F2.
    + rewrite app_length, L1, L2. reflexivity.
Qed.


(* lia without the stream hypotheses (they only slow zify down) *)
Ltac clia := repeat match goal with H : @eq bool _ true |- _ => clear H end; lia.

Lemma PI_open name attrs ws cs ws2 : PL cs -> PI (Cst.IElem name attrs ws (Some (cs, ws2))).
Proof.
  intros HPL p post c depth fuel Hwf HW _ I _ NR AR.
  destruct (wf_elem_parts _ _ _ _ Hwf) as (Hn & Ha & Hx & Hd & Hw & Hw2 & Hna & Hcs). clear Hwf.
  rewrite r_item_elem in *. rewrite <- !app_assoc in HW |- *.
  set (post2 := [60; 47] ++ name ++ ws2 ++ [62] ++ post) in *.
  change ([62] ++ r_items cs ++ post2) with (tag_tail false ++ (r_items cs ++ post2)) in *.
  rewrite nsize_elem in NR. rewrite nattrs_elem in AR.
  rewrite steps_elem. cbn [Nat.add]. rewrite loop_elem' by assumption.
  rewrite lex_element by assumption. cbv zeta.
  destruct (start_tag_ok text p name attrs ws false (r_items cs ++ post2) c HW (wf_name_ne _ Hn) Ha Hx Hd I)
    as (c1 & ar & E & S1 & Hkm & I1 & A1 & T1 & P1 & P2 & P3);
    [unfold node_room, room in *; clia|unfold attr_room, len_N in *; clia|].
  cbv zeta in E. apply bind_ok in E. destruct E as (c0 & E0 & E1).
  rewrite E0. cbn [bind]. rewrite E1. cbn [bind negb]. clear E0 E1 c0.
  (* positions *)
  pose proof (W_app _ _ _ _ HW) as HW1. change (blen [60]) with 1 in HW1.
  pose proof (W_app _ _ _ _ HW1) as HW2. pose proof (W_app _ _ _ _ HW2) as HW3.
  pose proof (W_app _ _ _ _ HW3) as HW4. pose proof (W_app _ _ _ _ HW4) as HW5.
  set (q := p + 1 + blen name + blen (flat_map Cst.r_attr attrs) + blen ws + blen (tag_tail false)) in *.
  (* the context after the start tag *)
  pose proof (Step0_len _ _ _ _ S1) as Ln1. change (len_N [_]) with 1 in Ln1.
  pose proof (Step_attrs_len _ _ _ _ S1) as La1. rewrite len_N_map, tas_len in La1.
  pose proof (Step_opt _ _ _ _ S1) as Lo1.
  replace (steps_list cs + 1 + fuel)%nat with (steps_list cs + S fuel)%nat by clia.
  destruct (HPL q post2 c1 (depth + 1) (S fuel) Hcs Hna HW5 eq_refl I1)
    as (c2 & K2 & e2 & E2 & S2 & I2 & T2 & F2 & L2).
  { destruct cs; [exact Logic.I|]. intros _. exact A1. }
  { unfold node_room in *. rewrite Ln1, Lo1. clia. }
  { unfold attr_room, len_N in *. rewrite La1. clia. }
  rewrite E2. clear E2.
  pose proof (W_app _ _ _ _ HW5) as HW6. set (e := q + blen (r_items cs)) in *.
  unfold post2 in HW6 |- *. rewrite loop_close by exact HW6.
  rewrite lex_close by assumption. cbv zeta.
  destruct S2 as (S2 & Pid2 & Pp2).
  pose proof (W_app _ _ _ _ HW6) as HW7. change (blen [60; 47]) with 2 in HW7.
  destruct (close_tag_ok text (sl (e + 2) (e + 2)) (sl (e + 2) (e + 2 + blen name))
              (e, e + 2 + blen name + blen ws2 + 1) c2 (c_parent_id c) None
              (sl (p + 1) (p + 1 + blen name)) ar (1, 1) name (c_parent_prefixes c) (sl (p + 1) (p + 1)) I2)
    as (c3 & E3 & S3 & I3 & Pid3 & Pp3 & A3 & Tn3).
  { rewrite Pid2, P1, (s_nodes _ _ _ _ S2), (s_nodes _ _ _ _ S1).
    replace (N.to_nat (len_N (d_nodes (c_doc c)))) with (length (absn (c_doc c)))
      by (unfold absn, len_N; rewrite map_length; clia).
    rewrite <- app_assoc, nth_error_app2 by clia. rewrite Nat.sub_diag. reflexivity. }
  { apply (W_slice _ _ _ _ HW1). }
  { apply (W_slice _ _ _ _ HW7). }
  { apply slice_empty. }
  { rewrite Pp2, P2. reflexivity. }
  { apply (ci_pp _ I). }
  { apply slice_empty. }
  { apply T2. exact T1. }
  { rewrite (Step0_len _ _ _ _ S2), Ln1. pose proof (ci_pid _ I). clia. }
  { destruct (ci_par _ I) as (par & k & Ep & Hk). exists par, k. split; [|exact Hk].
    rewrite (s_nodes _ _ _ _ S2), (s_nodes _ _ _ _ S1), <- app_assoc.
    rewrite nth_error_app1; [exact Ep|].
    pose proof (ci_pid _ I) as Hp. rewrite <- absn_len in Hp. unfold len_N in Hp. clia. }
  rewrite E3. cbn [bind]. replace (depth + 1 =? 0) with false by clia.
  replace (depth + 1 - 1) with depth by clia.
  exists c3, ((Some (c_parent_id c), KElement None (sl (p + 1) (p + 1 + blen name)) ar (1, 1)) :: K2),
    (map ad_of (tas (p + 1 + blen name) attrs) ++ e2).
  split.
  { f_equal. f_equal. unfold e, q. rewrite !blen_app. change (blen [60]) with 1. change (blen [60; 47]) with 2.
    change (blen [62]) with 1. change (blen (tag_tail false)) with 1. clear. clia. }
  pose proof (Step0_trans _ _ _ _ _ _ _ (Step0_trans _ _ _ _ _ _ _ S1 S2) S3) as S13.
  rewrite !app_nil_r in S13. cbn [app] in S13.
  split; [split; [exact S13|split; [exact Pid3|exact Pp3]]|]. split; [exact I3|].
  split; [intros _; exact A3|].
  assert (T3 : tn_set c3) by (apply (same_tn _ _ Tn3); apply T2; exact T1).
  split; [intros _; exact T3|]. split; [intros _; exact T3|]. split.
  - rewrite tag_elem. rewrite (s_attrs _ _ _ _ S3), app_nil_r. constructor.
    + rewrite (s_attrs _ _ _ _ S2). apply km_ext. apply Hkm.
    + rewrite P1, Ln1 in F2. exact F2.
  - rewrite app_length, map_length, L2, nattrs_elem. pose proof (tas_len attrs (p + 1 + blen name)) as L.
    unfold len_N in L. clia.
Qed.

Theorem PI_all : forall i, PI i.
Proof.
  intros i. induction i as [n a w|n a w cs w2 IH|bs|bs|t s v] using item_ind'.
  - apply PI_empty.
  - apply PI_open. apply PL_of. exact IH.
  - apply PI_text.
  - apply PI_comment.
  - apply PI_pi.
Qed.

Theorem PL_all : forall cs, PL cs.
Proof. intros cs. apply PL_of. apply Forall_forall. intros i _. apply PI_all. Qed.


(* ---- the root element: parse_element, then parse_content at depth 0 ---- *)
Lemma steps_le : forall i, Cst.wf_item i = true -> (steps i <= length (Cst.r_item i))%nat.
Proof.
  intros i. induction i as [n a w|n a w cs w2 IH|bs|bs|t s v] using item_ind'; intros Hwf.
  - rewrite r_item_elem, !app_length. cbn [steps length]. lia.
  - destruct (wf_elem_parts _ _ _ _ Hwf) as (_ & _ & _ & _ & _ & _ & _ & Hcs).
    rewrite r_item_elem, steps_elem, !app_length. cbn [length].
    assert (G : (steps_list cs <= length (r_items cs))%nat).
    { clear - IH Hcs. induction IH as [|c r Hc _ IHr]; [cbn; lia|].
      cbn [wf_items] in Hcs. apply andb_true_iff in Hcs. destruct Hcs as [H1 H2].
      cbn [steps_list r_items]. rewrite app_length. specialize (Hc H1). specialize (IHr H2). lia. }
    lia.
  - destruct (wf_text _ Hwf) as (_ & Hne & _). destruct bs; [congruence|]. cbn. lia.
  - cbn [Cst.r_item steps]. rewrite !app_length. cbn [length]. lia.
  - cbn [Cst.r_item steps]. rewrite !app_length. cbn [length]. lia.
Qed.

Lemma steps_list_le : forall cs, wf_items cs = true -> (steps_list cs <= length (r_items cs))%nat.
Proof.
  induction cs as [|c r IH]; intros Hwf; [cbn; lia|].
  cbn [wf_items] in Hwf. apply andb_true_iff in Hwf. destruct Hwf as [H1 H2].
  cbn [steps_list r_items]. rewrite app_length. pose proof (steps_le c H1). specialize (IH H2). lia.
Qed.

Lemma root_ok name attrs ws body p post c :
  Cst.wf_item (Cst.IElem name attrs ws body) = true ->
  W p (Cst.r_item (Cst.IElem name attrs ws body) ++ post) ->
  CI c -> node_room c (nsize (Cst.IElem name attrs ws body)) ->
  attr_room c (nattrs (Cst.IElem name attrs ws body)) ->
  exists c' K ext,
    (let! (open, s, c) := parse_element text context ev
                            (st p (Cst.r_item (Cst.IElem name attrs ws body) ++ post)) c in
     if open then parse_content text context ev s c else Ok (s, c)) =
    Ok (st (p + blen (Cst.r_item (Cst.IElem name attrs ws body))) post, c') /\
    Post (Cst.IElem name attrs ws body) c c' K ext.
Proof.
  intros Hwf HW I NR AR. destruct body as [[cs ws2]|].
  - (* open *)
    destruct (wf_elem_parts _ _ _ _ Hwf) as (Hn & Ha & Hx & Hd & Hw & Hw2 & Hna & Hcs). clear Hwf.
    rewrite r_item_elem in *. rewrite <- !app_assoc in HW |- *.
    set (post2 := [60; 47] ++ name ++ ws2 ++ [62] ++ post) in *.
    change ([62] ++ r_items cs ++ post2) with (tag_tail false ++ (r_items cs ++ post2)) in *.
    rewrite nsize_elem in NR. rewrite nattrs_elem in AR.
    rewrite lex_element by assumption. cbv zeta.
    destruct (start_tag_ok text p name attrs ws false (r_items cs ++ post2) c HW (wf_name_ne _ Hn) Ha Hx Hd I)
      as (c1 & ar & E & S1 & Hkm & I1 & A1 & T1 & P1 & P2 & P3);
      [unfold node_room, room in *; clia|unfold attr_room, len_N in *; clia|].
    cbv zeta in E. apply bind_ok in E. destruct E as (c0 & E0 & E1).
    rewrite E0. cbn [bind]. rewrite E1. cbn [bind negb]. clear E0 E1 c0.
    pose proof (W_app _ _ _ _ HW) as HW1. change (blen [60]) with 1 in HW1.
    pose proof (W_app _ _ _ _ HW1) as HW2. pose proof (W_app _ _ _ _ HW2) as HW3.
    pose proof (W_app _ _ _ _ HW3) as HW4. pose proof (W_app _ _ _ _ HW4) as HW5.
    set (q := p + 1 + blen name + blen (flat_map Cst.r_attr attrs) + blen ws + blen (tag_tail false)) in *.
    pose proof (Step0_len _ _ _ _ S1) as Ln1. change (len_N [_]) with 1 in Ln1.
    pose proof (Step_attrs_len _ _ _ _ S1) as La1. rewrite len_N_map, tas_len in La1.
    pose proof (Step_opt _ _ _ _ S1) as Lo1.
    unfold parse_content. cbn [CstLex.st s_rest].
    pose proof (steps_list_le cs Hcs) as Hst.
    replace (S (length (r_items cs ++ post2)))
      with (steps_list cs + S (length (r_items cs ++ post2) - steps_list cs))%nat
      by (rewrite app_length; clia).
    fold (st q (r_items cs ++ post2)).
    destruct (PL_all cs q post2 c1 0 (S (length (r_items cs ++ post2) - steps_list cs)) Hcs Hna HW5 eq_refl I1)
      as (c2 & K2 & e2 & E2 & S2 & I2 & T2 & F2 & L2).
    { destruct cs; [exact Logic.I|]. intros _. exact A1. }
    { unfold node_room in *. rewrite Ln1, Lo1. clia. }
    { unfold attr_room, len_N in *. rewrite La1. clia. }
    rewrite E2. clear E2.
    pose proof (W_app _ _ _ _ HW5) as HW6. set (e := q + blen (r_items cs)) in *.
    unfold post2 in HW6 |- *. rewrite loop_close by exact HW6.
    rewrite lex_close by assumption. cbv zeta.
    destruct S2 as (S2 & Pid2 & Pp2).
    pose proof (W_app _ _ _ _ HW6) as HW7. change (blen [60; 47]) with 2 in HW7.
    destruct (close_tag_ok text (sl (e + 2) (e + 2)) (sl (e + 2) (e + 2 + blen name))
                (e, e + 2 + blen name + blen ws2 + 1) c2 (c_parent_id c) None
                (sl (p + 1) (p + 1 + blen name)) ar (1, 1) name (c_parent_prefixes c) (sl (p + 1) (p + 1)) I2)
      as (c3 & E3 & S3 & I3 & Pid3 & Pp3 & A3 & Tn3).
    { rewrite Pid2, P1, (s_nodes _ _ _ _ S2), (s_nodes _ _ _ _ S1).
      replace (N.to_nat (len_N (d_nodes (c_doc c)))) with (length (absn (c_doc c)))
        by (unfold absn, len_N; rewrite map_length; clia).
      rewrite <- app_assoc, nth_error_app2 by clia. rewrite Nat.sub_diag. reflexivity. }
    { apply (W_slice _ _ _ _ HW1). }
    { apply (W_slice _ _ _ _ HW7). }
    { apply slice_empty. }
    { rewrite Pp2, P2. reflexivity. }
    { apply (ci_pp _ I). }
    { apply slice_empty. }
    { apply T2. exact T1. }
    { rewrite (Step0_len _ _ _ _ S2), Ln1. pose proof (ci_pid _ I). clia. }
    { destruct (ci_par _ I) as (par & k & Ep & Hk). exists par, k. split; [|exact Hk].
      rewrite (s_nodes _ _ _ _ S2), (s_nodes _ _ _ _ S1), <- app_assoc.
      rewrite nth_error_app1; [exact Ep|].
      pose proof (ci_pid _ I) as Hp. rewrite <- absn_len in Hp. unfold len_N in Hp. clia. }
    rewrite E3. cbn [bind]. change (0 =? 0) with true. cbv iota.
    exists c3, ((Some (c_parent_id c), KElement None (sl (p + 1) (p + 1 + blen name)) ar (1, 1)) :: K2),
      (map ad_of (tas (p + 1 + blen name) attrs) ++ e2).
    split.
    { f_equal. f_equal. f_equal. unfold e, q. rewrite !blen_app. change (blen [60]) with 1. change (blen [60; 47]) with 2.
      change (blen [62]) with 1. change (blen (tag_tail false)) with 1. clear. clia. }
    pose proof (Step0_trans _ _ _ _ _ _ _ (Step0_trans _ _ _ _ _ _ _ S1 S2) S3) as S13.
    rewrite !app_nil_r in S13. cbn [app] in S13.
    split; [split; [exact S13|split; [exact Pid3|exact Pp3]]|]. split; [exact I3|].
    split; [intros _; exact A3|].
    assert (T3 : tn_set c3) by (apply (same_tn _ _ Tn3); apply T2; exact T1).
    split; [intros _; exact T3|]. split; [intros _; exact T3|]. split.
    + rewrite tag_elem. rewrite (s_attrs _ _ _ _ S3), app_nil_r. constructor.
      * rewrite (s_attrs _ _ _ _ S2). apply km_ext. apply Hkm.
      * rewrite P1, Ln1 in F2. exact F2.
    + rewrite app_length, map_length, L2, nattrs_elem. pose proof (tas_len attrs (p + 1 + blen name)) as L.
      unfold len_N in L. clia.
  - (* empty *)
    destruct (wf_elem_parts _ _ _ _ Hwf) as (Hn & Ha & Hx & Hd & Hw & _). clear Hwf.
    rewrite r_item_elem in *. rewrite <- !app_assoc in HW |- *.
    change ([47; 62] ++ post) with (tag_tail true ++ post) in *.
    rewrite lex_element by assumption. cbv zeta.
    rewrite nattrs_elem, Nat.add_0_r in AR.
    destruct (start_tag_ok text p name attrs ws true post c HW (wf_name_ne _ Hn) Ha Hx Hd I)
      as (c' & ar & E & S & Hkm & I' & A & T & P1 & P2);
      [apply (node_room_room _ _ NR (nsize_pos _))|unfold attr_room, len_N in *; clia|].
    cbv zeta in E. apply bind_ok in E. destruct E as (c1 & E1 & E2).
    rewrite E1. cbn [bind]. rewrite E2. cbn [bind negb].
    exists c', [(Some (c_parent_id c), KElement None (sl (p + 1) (p + 1 + blen name)) ar (1, 1))],
      (map ad_of (tas (p + 1 + blen name) attrs)).
    split.
    + f_equal. f_equal. f_equal. rewrite !blen_app. change (blen [60]) with 1. change (blen (tag_tail true)) with 2.
      change (blen [47; 62]) with 2. clia.
    + split; [split; [exact S|split; assumption]|]. split; [exact I'|]. split; [intros _; exact A|].
      split; [intros _; exact T|]. split; [intros _; exact T|]. split.
      * cbn [tag]. constructor; [|constructor]. apply Hkm.
      * rewrite map_length, nattrs_elem, Nat.add_0_r. pose proof (tas_len attrs (p + 1 + blen name)) as L.
        unfold len_N in L. clia.
Qed.

End Items.

Print Assumptions PI_all.
Print Assumptions PL_all.
Print Assumptions root_ok.
