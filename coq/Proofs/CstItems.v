(* Proofs/CstItems.v -- C03, M2 + M3 together: parse_content_loop with the real callback on the
   rendering of an item appends exactly the rows of the item under the current parent. *)
From Coq Require Import Ascii String.
From Coq Require Import List NArith PeanoNat Bool Lia ZifyBool ZifyN ZifyNat.
Import ListNotations.
From RX Require Import Generated.
From RX.Model Require Import Base CharClass Stream Tokenizer Doc Builder Parse.
From RX.Spec Require Cst.
From RX.Proofs Require Import CstLex CstBuild CstTree.
Open Scope N_scope.

Lemma bind_assoc {A B D} (r : res A) (f : A -> res B) (g : B -> res D) :
  bind (bind r f) g = bind r (fun a => bind (f a) g).
Proof. destruct r; reflexivity. Qed.

(* number of iterations of parse_content_loop spent on an item *)
Fixpoint steps (i : Cst.item) : nat :=
  match i with
  | Cst.IElem _ _ _ (Some (cs, _)) =>
    S ((fix go (l : list Cst.item) : nat := match l with [] => O | c :: r => steps c + go r end) cs + 1)
  | _ => 1
  end%nat.
Fixpoint steps_list (l : list Cst.item) : nat :=
  match l with [] => O | c :: r => (steps c + steps_list r)%nat end.

Lemma steps_elem n a w cs w2 : steps (Cst.IElem n a w (Some (cs, w2))) = S (steps_list cs + 1)%nat.
Proof. reflexivity. Qed.

Definition is_elem (i : Cst.item) : bool := match i with Cst.IElem _ _ _ _ => true | _ => false end.

Section Items.
Variable text : bytes.
Hypothesis Hascii : Forall (fun x => x < 128) text.

Notation ev := (tok_ev text).
Notation loop := (parse_content_loop text context (tok_ev text)).
Notation st := (CstLex.st text).
Notation W := (CstLex.W text).

(* ---- the dispatch of parse_content_loop ---- *)

Lemma loop_text fuel depth p x l c : W p (x :: l) -> x <> 60 ->
  loop (S fuel) depth (st p (x :: l)) c =
  let! (s, c) := parse_text text context ev (st p (x :: l)) c in loop fuel depth s c.
Proof.
  intros HW Hx. cbn [parse_content_loop]. rewrite at_end_st by assumption.
  cbn [curr_byte_unchecked CstLex.st s_rest bind]. replace (x =? 60) with false by lia. reflexivity.
Qed.

Lemma loop_lt fuel depth p y l c : W p (60 :: y :: l) ->
  loop (S fuel) depth (st p (60 :: y :: l)) c =
  if y =? 33 then
    if starts_with (st p (60 :: y :: l)) (b "<!--") then
      let! (s, c) := parse_comment text context ev (st p (60 :: y :: l)) c in loop fuel depth s c
    else if starts_with (st p (60 :: y :: l)) (b "<![CDATA[") then
      let! (s, c) := parse_cdata text context ev (st p (60 :: y :: l)) c in loop fuel depth s c
    else err_at text (st p (60 :: y :: l)) UnknownToken
  else if y =? 63 then
    let! (s, c) := parse_pi text context ev (st p (60 :: y :: l)) c in loop fuel depth s c
  else if y =? 47 then
    let! (s, c) := parse_close_element text context ev (st p (60 :: y :: l)) c in
    if depth =? 0 then Ok (s, c) else loop fuel (depth - 1) s c
  else
    let! (open, s, c) := parse_element text context ev (st p (60 :: y :: l)) c in
    loop fuel (if open then depth + 1 else depth) s c.
Proof.
  intros HW. cbn [parse_content_loop]. rewrite at_end_st by assumption.
  cbn [curr_byte_unchecked CstLex.st s_rest bind]. change (60 =? 60) with true. cbv iota.
  fold (st p (60 :: y :: l)). rewrite next_byte_st by assumption. reflexivity.
Qed.

Lemma loop_comment fuel depth p l c : W p ([60; 33; 45; 45] ++ l) ->
  loop (S fuel) depth (st p ([60; 33; 45; 45] ++ l)) c =
  let! (s, c) := parse_comment text context ev (st p ([60; 33; 45; 45] ++ l)) c in loop fuel depth s c.
Proof.
  intros HW. cbn [app] in *. rewrite loop_lt by assumption. change (33 =? 33) with true. cbv iota.
  rewrite starts_with_st by assumption. reflexivity.
Qed.

Lemma loop_pi fuel depth p l c : W p ([60; 63] ++ l) ->
  loop (S fuel) depth (st p ([60; 63] ++ l)) c =
  let! (s, c) := parse_pi text context ev (st p ([60; 63] ++ l)) c in loop fuel depth s c.
Proof. intros HW. cbn [app] in *. rewrite loop_lt by assumption. reflexivity. Qed.

Lemma loop_close fuel depth p l c : W p ([60; 47] ++ l) ->
  loop (S fuel) depth (st p ([60; 47] ++ l)) c =
  let! (s, c) := parse_close_element text context ev (st p ([60; 47] ++ l)) c in
  if depth =? 0 then Ok (s, c) else loop fuel (depth - 1) s c.
Proof. intros HW. cbn [app] in *. rewrite loop_lt by assumption. reflexivity. Qed.

Lemma loop_elem fuel depth p n l c : W p ([60] ++ (n :: l)) -> Cst.is_name_start n = true ->
  loop (S fuel) depth (st p ([60] ++ (n :: l))) c =
  let! (open, s, c) := parse_element text context ev (st p ([60] ++ (n :: l))) c in
  loop fuel (if open then depth + 1 else depth) s c.
Proof.
  intros HW Hn. cbn [app] in *. rewrite loop_lt by assumption.
  destruct (name_start_byte _ Hn) as (_ & _ & _ & H47 & _ & H33 & H63 & _).
  replace (n =? 33) with false by lia. replace (n =? 63) with false by lia.
  replace (n =? 47) with false by lia. reflexivity.
Qed.

(* ---- what is proved of every item ---- *)

Definition node_room (c : context) (k : N) : Prop :=
  len_N (d_nodes (c_doc c)) + k <= nodes_limit (c_opt c) /\ len_N (d_nodes (c_doc c)) + k <= u32_max.
Definition attr_room (c : context) (k : nat) : Prop :=
  len_N (d_attrs (c_doc c)) + N.of_nat k < u32_max.

Lemma node_room_room c k : node_room c k -> 1 <= k -> room c.
Proof. unfold node_room, room. lia. Qed.

Definition Post (i : Cst.item) (c c' : context) (K : list row) (ext : list attr_data) : Prop :=
  Step c c' K ext /\ CI c' /\ (Cst.is_text i = false -> c_after_text c' = []) /\
  (tn_set c -> tn_set c') /\ (is_elem i = true -> tn_set c') /\
  Forall2 (km text (d_attrs (c_doc c'))) K (tag (c_parent_id c) (len_N (d_nodes (c_doc c))) i) /\
  length ext = nattrs i.

Definition PI (i : Cst.item) : Prop :=
  forall p post c depth fuel,
    Cst.wf_item i = true -> W p (Cst.r_item i ++ post) ->
    (Cst.is_text i = true -> text_stop post) ->
    CI c -> (Cst.is_text i = true -> c_after_text c = []) ->
    node_room c (nsize i) -> attr_room c (nattrs i) ->
    exists c' K ext,
      loop (steps i + fuel) depth (st p (Cst.r_item i ++ post)) c =
      loop fuel depth (st (p + blen (Cst.r_item i)) post) c' /\
      Post i c c' K ext.

Lemma same_tn c c' : c_tag_name c' = c_tag_name c -> tn_set c -> tn_set c'.
Proof. unfold tn_set. intros ->. auto. Qed.

(* ---- comments ---- *)
Lemma wf_comment bs : Cst.wf_item (Cst.IComment bs) = true -> comment_ok bs.
Proof.
  cbn [Cst.wf_item]. rewrite !andb_true_iff. intros [[H1 H2] H3]. split; [exact H1|]. split.
  - rewrite <- contains_eq. apply negb_true_iff. exact H2.
  - unfold ends_with_byte. destruct (rev bs); [reflexivity|]. apply negb_true_iff. exact H3.
Qed.

Lemma PI_comment bs : PI (Cst.IComment bs).
Proof.
  intros p post c depth fuel Hwf HW _ I _ NR _. apply wf_comment in Hwf.
  cbn [Cst.r_item] in *. rewrite <- !app_assoc in *.
  cbn [steps Nat.add]. rewrite loop_comment by exact HW. rewrite lex_comment by assumption.
  destruct (tok_comment text (sl (p + 4) (p + 4 + blen bs)) (p, p + 4 + blen bs + 3) c I)
    as (c' & E & S & I' & A & T); [apply (node_room_room _ _ NR (nsize_pos _))|].
  rewrite E. cbn [bind].
  exists c', [(Some (c_parent_id c), KComment (sl (p + 4) (p + 4 + blen bs)))], [].
  split.
  - f_equal. f_equal. rewrite !blen_app. change (blen [60; 33; 45; 45]) with 4. change (blen [45; 45; 62]) with 3. lia.
  - split; [exact S|]. split; [exact I'|]. split; [intros _; exact A|]. split; [apply same_tn; exact T|].
    split; [discriminate|]. split; [|reflexivity].
    cbn [tag]. constructor; [|constructor]. split; [reflexivity|]. cbn [snd].
    pose proof (W_app _ _ _ _ HW) as HW1. change (blen [60; 33; 45; 45]) with 4 in HW1.
    apply (W_slice _ _ _ _ HW1).
Qed.

(* ---- processing instructions ---- *)
Lemma wf_pi t s v : Cst.wf_item (Cst.IPI t s v) = true -> pi_ok t s v.
Proof.
  cbn [Cst.wf_item]. rewrite !andb_true_iff. intros [[[[[H1 H2] H3] H4] H5] H6].
  split; [exact H1|]. split; [exact H2|]. split; [exact H3|]. split.
  { rewrite <- contains_eq. apply negb_true_iff. exact H4. }
  split; [apply negb_true_iff; exact H5|].
  destruct v as [|x v]; [exact I|]. apply andb_true_iff in H6. destruct H6 as [H6 H7].
  split; [apply negb_true_iff; exact H6|]. destruct s; [discriminate|discriminate].
Qed.

Lemma PI_pi t s v : PI (Cst.IPI t s v).
Proof.
  intros p post c depth fuel Hwf HW _ I _ NR _. apply wf_pi in Hwf.
  cbn [Cst.r_item] in *. rewrite <- !app_assoc in *.
  cbn [steps Nat.add]. rewrite loop_pi by exact HW. rewrite lex_pi by assumption. cbv zeta.
  set (vs := match v with [] => None | _ :: _ => Some (sl (p + 2 + blen t + blen s) (p + 2 + blen t + blen s + blen v)) end).
  destruct (tok_pi text (sl (p + 2) (p + 2 + blen t)) vs (p, p + 2 + blen t + blen s + blen v + 2) c I)
    as (c' & E & S & I' & A & T); [apply (node_room_room _ _ NR (nsize_pos _))|].
  rewrite E. cbn [bind].
  exists c', [(Some (c_parent_id c), KPI (sl (p + 2) (p + 2 + blen t)) vs)], [].
  split.
  - f_equal. f_equal. rewrite !blen_app. change (blen [60; 63]) with 2. change (blen [63; 62]) with 2. lia.
  - split; [exact S|]. split; [exact I'|]. split; [intros _; exact A|]. split; [apply same_tn; exact T|].
    split; [discriminate|]. split; [|reflexivity].
    cbn [tag]. constructor; [|constructor]. split; [reflexivity|]. cbn [snd].
    pose proof (W_app _ _ _ _ HW) as HW1. change (blen [60; 63]) with 2 in HW1.
    split; [apply (W_slice _ _ _ _ HW1)|].
    pose proof (W_app _ _ _ _ HW1) as HW2. pose proof (W_app _ _ _ _ HW2) as HW3.
    unfold vs. destruct v as [|x v]; [exact Logic.I|]. apply (W_slice _ _ _ _ HW3).
Qed.

(* ---- text ---- *)
Lemma wf_text bs : Cst.wf_item (Cst.IText bs) = true ->
  text_ok bs /\ bs <> [] /\ existsb (fun x => (x =? 38) || (x =? 13)) bs = false.
Proof.
  cbn [Cst.wf_item]. rewrite !andb_true_iff. intros [[H1 H2] H3]. split; [split|split].
  - exact H2.
  - rewrite <- contains_eq. apply negb_true_iff. exact H3.
  - destruct bs; [discriminate|discriminate].
  - clear - H2. induction bs as [|x r IH]; [reflexivity|]. cbn [forallb existsb] in *.
    apply andb_true_iff in H2. destruct H2 as [Hx H2]. rewrite IH by exact H2.
    assert (Hp : Cst.is_plain x = true) by lia. destruct (plain_char _ Hp) as (_ & _ & H13). lia.
Qed.

Lemma PI_text bs : PI (Cst.IText bs).
Proof.
  intros p post c depth fuel Hwf HW Hstop I Hat NR _. destruct (wf_text _ Hwf) as (Hok & Hne & Hex).
  cbn [Cst.r_item] in *. specialize (Hstop eq_refl). specialize (Hat eq_refl).
  cbn [steps Nat.add].
  destruct bs as [|x r]; [congruence|].
  assert (Hx : x <> 60).
  { destruct Hok as [Hok _]. cbn [forallb] in Hok. lia. }
  change ((x :: r) ++ post) with (x :: r ++ post) in *. rewrite loop_text by assumption.
  change (x :: r ++ post) with ((x :: r) ++ post) in *.
  rewrite lex_text by assumption.
  destruct (tok_text text (sl p (p + blen (x :: r))) (p, p + blen (x :: r)) c I)
    as (c' & E & S & I' & T); [apply (node_room_room _ _ NR (nsize_pos _))|exact Hat| |].
  { rewrite (W_slice _ _ _ _ HW). exact Hex. }
  rewrite E. cbn [bind].
  exists c', [(Some (c_parent_id c), KText (Borrowed (SIn (sl p (p + blen (x :: r))))))], [].
  split; [reflexivity|].
  split; [exact S|]. split; [exact I'|]. split; [discriminate|]. split; [apply same_tn; exact T|].
  split; [discriminate|]. split; [|reflexivity].
  cbn [tag]. constructor; [|constructor]. split; [reflexivity|]. cbn [snd storage_bytes str_bytes].
  apply (W_slice _ _ _ _ HW).
Qed.


(* ---- elements ---- *)
Lemma loop_elem' fuel depth p name l c : W p ([60] ++ name ++ l) -> Cst.wf_name name = true ->
  loop (S fuel) depth (st p ([60] ++ name ++ l)) c =
  let! (open, s, c) := parse_element text context ev (st p ([60] ++ name ++ l)) c in
  loop fuel (if open then depth + 1 else depth) s c.
Proof.
  intros HW Hn. destruct name as [|n ns]; [discriminate|].
  cbn [Cst.wf_name] in Hn. apply andb_true_iff in Hn. destruct Hn as [Hn _].
  apply (loop_elem fuel depth p n (ns ++ l) c HW Hn).
Qed.

Lemma wf_elem_parts name attrs ws body : Cst.wf_item (Cst.IElem name attrs ws body) = true ->
  Cst.wf_name name = true /\ forallb Cst.wf_attr attrs = true /\ forallb not_xmlns attrs = true /\
  Cst.names_distinct (map Cst.a_name attrs) = true /\ Cst.wf_ws ws = true /\
  match body with
  | None => True
  | Some (cs, ws2) => Cst.wf_ws ws2 = true /\ Cst.no_adjacent_text cs = true /\ wf_items cs = true
  end.
Proof.
  rewrite wf_item_elem, !andb_true_iff. intros [[[[[[H1 _] H2] H3] H4] H5] H6].
  repeat split; try assumption. destruct body as [[cs ws2]|]; [|exact Logic.I].
  rewrite !andb_true_iff in H6. tauto.
Qed.

Lemma wf_name_ne name : Cst.wf_name name = true -> name <> [].
Proof. destruct name; [discriminate|discriminate]. Qed.

Lemma PI_empty name attrs ws : PI (Cst.IElem name attrs ws None).
Proof.
  intros p post c depth fuel Hwf HW _ I _ NR AR.
  destruct (wf_elem_parts _ _ _ _ Hwf) as (Hn & Ha & Hx & Hd & Hw & _).
  rewrite r_item_elem in *. rewrite <- !app_assoc in HW |- *.
  change ([47; 62] ++ post) with (tag_tail true ++ post) in *.
  cbn [steps Nat.add]. rewrite loop_elem' by assumption.
  rewrite lex_element by assumption. cbv zeta.
  rewrite nattrs_elem, Nat.add_0_r in AR.
  destruct (start_tag_ok text p name attrs ws true post c HW (wf_name_ne _ Hn) Ha Hx Hd I)
    as (c' & ar & E & S & Hkm & I' & A & T & P1 & P2);
    [apply (node_room_room _ _ NR (nsize_pos _))|unfold attr_room, len_N in *; lia|].
  cbv zeta in E. apply Tactics.bind_ok in E. destruct E as (c1 & E1 & E2).
  rewrite E1. cbn [bind]. rewrite E2. cbn [bind negb].
  exists c', [(Some (c_parent_id c), KElement None (sl (p + 1) (p + 1 + blen name)) ar (1, 1))],
    (map ad_of (tas (p + 1 + blen name) attrs)).
  split.
  - f_equal. f_equal. rewrite !blen_app. change (blen [60]) with 1. change (blen (tag_tail true)) with 2.
    change (blen [47; 62]) with 2. lia.
  - split; [split; [exact S|split; assumption]|]. split; [exact I'|]. split; [intros _; exact A|].
    split; [intros _; exact T|]. split; [intros _; exact T|]. split.
    + cbn [tag]. constructor; [|constructor]. apply Hkm.
    + rewrite map_length, nattrs_elem, Nat.add_0_r. pose proof (tas_len attrs (p + 1 + blen name)) as L.
      unfold len_N in L. lia.
Qed.

End Items.
