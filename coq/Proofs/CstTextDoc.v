(* Proofs/CstTextDoc.v -- C04/C05 on whole documents: parse_document on the rendering of a
   well-formed document of Spec/CstText.v.  The prolog and the epilog (comments, PIs) are those of
   Spec/Cst.v and are handled by Proofs/CstDoc.v through the erasure. *)
From Coq Require Import Ascii String.
From Coq Require Import List NArith PeanoNat Bool Lia ZifyBool ZifyN ZifyNat.
Import ListNotations.
From RX Require Import Generated.
From RX.Model Require Import Base CharClass Stream Tokenizer Doc Builder Parse.
From RX.Spec Require Cst CstText.
From RX.Spec Require Import Text.
From RX.Proofs Require Import Tactics CstLex CstBuild CstTree CstItems CstDoc CstTextSem CstTextLex CstTextBuild CstTextItems.
Open Scope N_scope.

(* ------------------------------------------------------------------------------------------ *)
(* the erased document; miscellaneous items are unchanged by the erasure                      *)
(* ------------------------------------------------------------------------------------------ *)

Definition erase_doc (c : T.doc) : Cst.doc :=
  {| Cst.d_before := map (fun x => (erase (fst x), snd x)) (T.d_before c);
     Cst.d_ws0 := T.d_ws0 c;
     Cst.d_root := erase (T.d_root c);
     Cst.d_after := map (fun x => (fst x, erase (snd x))) (T.d_after c);
     Cst.d_ws_end := T.d_ws_end c |}.

Lemma misc_erase i : T.is_misc i = true ->
  Cst.is_misc (erase i) = true /\ Cst.r_item (erase i) = T.r_item i /\ Cst.wf_item (erase i) = T.wf_item i.
Proof. destruct i; try discriminate; intros _; repeat split; reflexivity. Qed.

Lemma sem_erase_doc c : Cst.sem (erase_doc c) = T.sem c.
Proof.
  unfold Cst.sem, T.sem, erase_doc. cbn [Cst.d_before Cst.d_root Cst.d_after]. rewrite sem_erase. f_equal; [|f_equal].
  - induction (T.d_before c) as [|x r IH]; [reflexivity|]. cbn [map flat_map fst]. rewrite sem_erase, IH. reflexivity.
  - induction (T.d_after c) as [|x r IH]; [reflexivity|]. cbn [map flat_map snd]. rewrite sem_erase, IH. reflexivity.
Qed.

Record tdoc_parts (c : T.doc) : Prop := {
  tp_ws0 : Cst.wf_ws (T.d_ws0 c) = true;
  tp_wsend : Cst.wf_ws (T.d_ws_end c) = true;
  tp_before : forallb (fun p => Cst.is_misc (fst p) && Cst.wf_item (fst p) && Cst.wf_ws (snd p)) (Cst.d_before (erase_doc c)) = true;
  tp_root : exists name attrs ws body, T.d_root c = T.IElem name attrs ws body;
  tp_rootwf : T.wf_item (T.d_root c) = true;
  tp_after : wf_pairs (Cst.d_after (erase_doc c)) = true;
  tp_render :
    T.render c =
    Cst.d_ws0 (erase_doc c) ++ flat_map (fun p => Cst.r_item (fst p) ++ snd p) (Cst.d_before (erase_doc c)) ++
    T.r_item (T.d_root c) ++ r_pairs (Cst.d_after (erase_doc c)) ++ T.d_ws_end c
}.

Lemma twf_doc_parts c : T.wf_doc c = true -> tdoc_parts c.
Proof.
  unfold T.wf_doc. rewrite !andb_true_iff. intros [[[[H1 H2] H3] H4] H5].
  constructor; try assumption.
  - unfold erase_doc. cbn [Cst.d_before]. clear - H3. induction (T.d_before c) as [|[i w] r IH]; [reflexivity|].
    cbn [forallb map fst snd] in *. rewrite !andb_true_iff in H3. destruct H3 as [[[A B0] C0] D].
    destruct (misc_erase i A) as (E1 & _ & E3). rewrite E1, E3, B0, C0, IH by exact D. reflexivity.
  - destruct (T.d_root c); try discriminate. eauto.
  - destruct (T.d_root c); try discriminate. exact H4.
  - unfold erase_doc, wf_pairs. cbn [Cst.d_after]. clear - H5. induction (T.d_after c) as [|[w i] r IH]; [reflexivity|].
    cbn [forallb map fst snd] in *. rewrite !andb_true_iff in H5. destruct H5 as [[[A B0] C0] D].
    destruct (misc_erase i B0) as (E1 & _ & E3). rewrite E1, E3, A, C0, IH by exact D. reflexivity.
  - unfold T.render, erase_doc. cbn [Cst.d_ws0 Cst.d_before Cst.d_after]. f_equal. f_equal; [|f_equal; f_equal].
    + clear - H3. induction (T.d_before c) as [|[i w] r IH]; [reflexivity|].
      cbn [forallb map flat_map fst snd] in *. rewrite !andb_true_iff in H3. destruct H3 as [[[A _] _] D].
      destruct (misc_erase i A) as (_ & E2 & _). rewrite E2, IH by exact D. reflexivity.
    + unfold r_pairs. clear - H5. induction (T.d_after c) as [|[w i] r IH]; [reflexivity|].
      cbn [forallb map flat_map fst snd] in *. rewrite !andb_true_iff in H5. destruct H5 as [[[_ B0] _] D].
      destruct (misc_erase i B0) as (_ & E2 & _). rewrite E2, IH by exact D. reflexivity.
Qed.

(* ------------------------------------------------------------------------------------------ *)
(* renderings are ASCII                                                                       *)
(* ------------------------------------------------------------------------------------------ *)

Lemma asc_vbytes q l : forallb (vbyte q) l = true -> asc l.
Proof. apply forallb_asc. intros x H. unfold vbyte in H. rewrite !andb_true_iff in H. destruct H as [[Hp _] _]. apply (tplain_char _ Hp). Qed.

Lemma asc_tattr a : T.wf_attr a = true -> asc (T.r_attr a).
Proof.
  intros H. destruct (wf_attr_parts' _ H) as (_ & H1 & H2 & H3 & H4 & H5 & H6 & _).
  unfold T.r_attr. repeat apply asc_app; try (apply asc_ws; assumption).
  - apply asc_name. exact H2.
  - apply asc_lit. reflexivity.
  - constructor; [lia|constructor].
  - apply (asc_vbytes (T.a_quote a)). apply vpieces_bytes; [destruct H5; auto|exact H6].
  - constructor; [lia|constructor].
Qed.

Lemma asc_tattrs attrs : forallb T.wf_attr attrs = true -> asc (flat_map T.r_attr attrs).
Proof.
  induction attrs as [|a r IH]; intros H; [constructor|]. cbn [forallb] in H.
  apply andb_true_iff in H. destruct H as [H1 H2]. cbn [flat_map]. apply asc_app; [apply asc_tattr; exact H1|auto].
Qed.

Lemma asc_tplain l : forallb T.is_tplain l = true -> asc l.
Proof. apply forallb_asc. intros x H. apply (tplain_char _ H). Qed.

Lemma asc_text ps : T.wf_text ps = true -> asc (T.r_pieces ps).
Proof.
  unfold T.wf_text. rewrite !andb_true_iff. intros [[_ H] _].
  induction ps as [|p ps IH]; [constructor|]. cbn [forallb] in H. apply andb_true_iff in H. destruct H as [H1 H2].
  rewrite r_pieces_cons. apply asc_app; [|apply IH; exact H2].
  destruct p as [bs|hex ds|e|bs].
  - apply (asc_vbytes 60). apply (vpiece_bytes 60 (T.PLit bs)); [auto|]. apply tpiece_vpiece; [exact H1|reflexivity].
  - apply (asc_vbytes 60). apply (vpiece_bytes 60 (T.PCharRef hex ds)); [auto|exact H1].
  - apply (asc_vbytes 60). apply (vpiece_bytes 60 (T.PPredef e)); [auto|reflexivity].
  - cbn [T.r_piece T.wf_tpiece] in *. apply andb_true_iff in H1. destruct H1 as [H1 _].
    repeat apply asc_app; [apply asc_lit; reflexivity|apply asc_tplain; exact H1|apply asc_lit; reflexivity].
Qed.

Lemma asc_titem : forall i, T.wf_item i = true -> asc (T.r_item i).
Proof.
  intros i. induction i as [n a w|n a w cs w2 IH|ps|bs|t s v] using titem_ind; intros Hwf.
  - destruct (twf_elem_parts _ _ _ _ Hwf) as (Hn & Ha & _ & _ & Hw & _). rewrite tr_item_elem.
    repeat apply asc_app; try (apply asc_lit; reflexivity).
    + apply asc_name; exact Hn.
    + apply asc_tattrs; exact Ha.
    + apply asc_ws; exact Hw.
  - destruct (twf_elem_parts _ _ _ _ Hwf) as (Hn & Ha & _ & _ & Hw & Hw2 & _ & Hcs). rewrite tr_item_elem.
    repeat apply asc_app; try (apply asc_lit; reflexivity).
    + apply asc_name; exact Hn.
    + apply asc_tattrs; exact Ha.
    + apply asc_ws; exact Hw.
    + clear - IH Hcs. induction IH as [|c r Hc _ IHr]; [constructor|].
      cbn [twf_items] in Hcs. apply andb_true_iff in Hcs. destruct Hcs as [H1 H2].
      cbn [tr_items]. apply asc_app; auto.
    + apply asc_name; exact Hn.
    + apply asc_ws; exact Hw2.
  - apply asc_text. exact Hwf.
  - apply (asc_item (Cst.IComment bs)). exact Hwf.
  - apply (asc_item (Cst.IPI t s v)). exact Hwf.
Qed.

(* ------------------------------------------------------------------------------------------ *)
(* the shape of a rendered document                                                            *)
(* ------------------------------------------------------------------------------------------ *)

Lemma trender_shape c : T.wf_doc c = true ->
  T.render c =
  r_pairs (regroup (T.d_ws0 c) (Cst.d_before (erase_doc c))) ++ last_ws (T.d_ws0 c) (Cst.d_before (erase_doc c)) ++
  T.r_item (T.d_root c) ++ r_pairs (Cst.d_after (erase_doc c)) ++ T.d_ws_end c ++ [].
Proof.
  intros H. rewrite (tp_render _ (twf_doc_parts c H)). rewrite app_nil_r.
  change (Cst.d_ws0 (erase_doc c)) with (T.d_ws0 c).
  rewrite app_assoc, regroup_render, <- app_assoc. reflexivity.
Qed.

Lemma trender_asc c : T.wf_doc c = true -> asc (T.render c).
Proof.
  intros H. rewrite (trender_shape c H). pose proof (twf_doc_parts c H) as [H1 H2 H3 H4 H5 H6 _].
  destruct (regroup_wf _ _ H1 H3) as [R1 R2].
  repeat apply asc_app.
  - apply asc_pairs; exact R1.
  - apply asc_ws; exact R2.
  - apply asc_titem; exact H5.
  - apply asc_pairs; exact H6.
  - apply asc_ws; exact H2.
  - constructor.
Qed.

Lemma troot_starts name attrs ws body : Cst.wf_name name = true ->
  exists n l, T.r_item (T.IElem name attrs ws body) = 60 :: n :: l /\ Cst.is_name_start n = true.
Proof.
  intros Hn. rewrite tr_item_elem. destruct name as [|n r]; [discriminate|].
  cbn [Cst.wf_name] in Hn. apply andb_true_iff in Hn. destruct Hn as [Hn _]. eexists. eexists. split; [reflexivity|exact Hn].
Qed.

Lemma tdecl_render c : T.wf_doc c = true -> decl_test (T.render c) = false.
Proof.
  intros H. rewrite (trender_shape c H). pose proof (twf_doc_parts c H) as [H1 H2 H3 (name & attrs & ws & body & Er) H5 H6 _].
  destruct (regroup_wf _ _ H1 H3) as [R1 R2].
  destruct (twf_elem_parts _ _ _ _ ltac:(rewrite <- Er; exact H5)) as (Hn & _).
  destruct (troot_starts name attrs ws body Hn) as (n & l & El & Hns).
  destruct (name_start_byte _ Hns) as (_ & _ & _ & _ & _ & _ & H63 & _).
  destruct (regroup (T.d_ws0 c) (Cst.d_before (erase_doc c))) as [|[w i] B].
  - cbn [r_pairs flat_map app]. destruct (last_ws (T.d_ws0 c) (Cst.d_before (erase_doc c))) as [|x wl].
    + cbn [app]. rewrite Er, El. cbn [app]. apply decl_lt. exact H63.
    + cbn [app]. apply decl_ws. cbn [Cst.wf_ws forallb] in R2. apply andb_true_iff in R2.
      destruct R2 as [R2 _]. unfold Cst.is_ws in R2. clear - R2. lia.
  - cbn [wf_pairs forallb fst snd] in R1. rewrite !andb_true_iff in R1. destruct R1 as [[[W1 M1] I1] _].
    cbn [r_pairs flat_map fst snd]. rewrite <- !app_assoc. destruct w as [|x w].
    + cbn [app]. destruct i as [? ? ? ?|?|bs|t s v]; try discriminate.
      * cbn [Cst.r_item app]. apply decl_lt. clear. lia.
      * cbn [Cst.r_item]. rewrite <- !app_assoc. apply decl_pi. apply wf_pi. exact I1.
    + cbn [app]. apply decl_ws. cbn [Cst.wf_ws forallb] in W1. apply andb_true_iff in W1.
      destruct W1 as [W1 _]. unfold Cst.is_ws in W1. clear - W1. lia.
Qed.

Ltac clia := repeat match goal with H : @eq bool _ true |- _ => clear H end; lia.

(* ------------------------------------------------------------------------------------------ *)
(* parse_document                                                                             *)
(* ------------------------------------------------------------------------------------------ *)

Lemma tparse_document_ok (c : T.doc) (dtd : bool) (c0 : context) :
  T.wf_doc c = true ->
  let text := T.render c in
  CI c0 -> LD c0 -> c_after_text c0 = [] ->
  node_room c0 (nsizes (doc_items (erase_doc c))) -> attr_room c0 (nattrs (erase (T.d_root c))) ->
  exists cf K ext,
    parse_document text context (tok_ev text) dtd c0 = Ok cf /\
    Step c0 cf K ext /\ CI cf /\
    Forall2 (km text (d_attrs (c_doc cf))) K
            (tag_list (c_parent_id c0) (len_N (d_nodes (c_doc c0))) (doc_items (erase_doc c))).
Proof.
  intros Hwf text I0 Hld0 A0 NR AR.
  pose proof (trender_asc c Hwf) as Hascii. fold text in Hascii.
  pose proof (tdecl_render c Hwf) as Hdecl. fold text in Hdecl.
  pose proof (trender_shape c Hwf) as Etext. fold text in Etext.
  pose proof (twf_doc_parts c Hwf) as [H1 H2 H3 (name & attrs & ws & body & Er) H5 H6 _].
  clear Hwf.
  destruct (regroup_wf _ _ H1 H3) as [R1 R2].
  assert (Eitems : doc_items (erase_doc c) =
                   map snd (regroup (T.d_ws0 c) (Cst.d_before (erase_doc c))) ++ erase (T.d_root c) :: map snd (Cst.d_after (erase_doc c))).
  { unfold doc_items. rewrite regroup_items. reflexivity. }
  rewrite Eitems in *. clear Eitems. clear H1 H3.
  set (B := regroup (T.d_ws0 c) (Cst.d_before (erase_doc c))) in *.
  set (wB := last_ws (T.d_ws0 c) (Cst.d_before (erase_doc c))) in *.
  set (A := Cst.d_after (erase_doc c)) in *. set (wE := T.d_ws_end c) in *.
  rewrite Er in *. clear Er.
  set (root := T.IElem name attrs ws body) in *.
  rewrite nsizes_app, nsizes_cons in NR.
  pose proof (W_new text) as HW0.
  destruct (twf_elem_parts _ _ _ _ H5) as (Hn & _).
  destruct (troot_starts name attrs ws body Hn) as (n & l & El & Hns). fold root in El.
  destruct (name_start_byte _ Hns) as (_ & _ & Hnsp & _ & _ & H33 & H63 & _). clear Hns Hn.
  remember (T.r_item root ++ r_pairs A ++ wE ++ []) as rest eqn:Erest.
  assert (Hstop : misc_stop rest).
  { rewrite Erest, El. cbn [app]. split; [reflexivity|]. cbn [prefix_b].
    replace (33 =? n) with false by clia. replace (63 =? n) with false by clia. split; reflexivity. }
  assert (Hdt : prefix_b [60; 33; 68; 79; 67; 84; 89; 80; 69] rest = false).
  { rewrite Erest, El. cbn [app prefix_b]. replace (33 =? n) with false by clia. rewrite andb_false_r. reflexivity. }
  assert (Hcb : forall p, CstLex.W text p rest ->
            match curr_byte_opt (CstLex.st text p rest) with Some x => x =? 60 | None => false end = true).
  { intros p HWp. rewrite Erest, El in *. cbn [app] in *. rewrite curr_byte_opt_st by exact HWp. reflexivity. }
  clear El.
  unfold parse_document. rewrite st_new.
  rewrite starts_with_st by exact HW0. rewrite bom_false by exact Hascii. cbn [bind].
  unfold starts_with_declaration. rewrite starts_with_st, avail_st by exact HW0.
  change (b "<?xml") with [60; 63; 120; 109; 108]. fold (decl_test text). rewrite Hdecl. cbn [bind].
  (* prolog *)
  unfold parse_misc. cbn [CstLex.st s_rest].
  fold (CstLex.st text 0 text).
  assert (HW0' : CstLex.W text 0 (r_pairs B ++ wB ++ rest)) by (rewrite <- Etext; exact HW0).
  replace (CstLex.st text 0 text) with (CstLex.st text 0 (r_pairs B ++ wB ++ rest))
    by (rewrite <- Etext; reflexivity).
  assert (Elen : length text = length (r_pairs B ++ wB ++ rest)) by (rewrite <- Etext; reflexivity).
  destruct (misc_loop_ok text Hascii B 0 wB rest c0 (S (length text)) HW0' R1 R2 Hstop)
    as (c1 & K1 & E1 & S1 & I1 & A1 & F1).
  { pose proof (pairs_len B R1). rewrite Elen, app_length. clia. }
  { exact I0. } { exact A0. } { unfold node_room in *. clia. }
  rewrite E1. cbn [bind]. clear E1.
  pose proof (W_app _ _ _ _ HW0') as HWa. pose proof (W_app _ _ _ _ HWa) as HW1.
  set (p1 := 0 + blen (r_pairs B) + blen wB) in *.
  rewrite skip_spaces_none by (try exact HW1; apply Hstop).
  rewrite starts_with_st by exact HW1. change (b "<!DOCTYPE") with [60; 33; 68; 79; 67; 84; 89; 80; 69].
  rewrite Hdt.
  cbn [bind]. rewrite skip_spaces_none by (try exact HW1; apply Hstop).
  rewrite (Hcb p1 HW1).
  (* root *)
  pose proof (Step_nodes_len _ _ _ _ S1) as Ln1.
  rewrite (Forall2_len_N _ _ _ F1) in Ln1. unfold len_N at 3 in Ln1. rewrite tag_list_len in Ln1.
  pose proof (Step_opt _ _ _ _ (proj1 S1)) as Lo1.
  pose proof (Step_attrs_len _ _ _ _ (proj1 S1)) as La1. change (len_N []) with 0 in La1.
  rewrite Erest in HW1 |- *.
  destruct (root_ok' text Hascii name attrs ws body p1 (r_pairs A ++ wE ++ []) c1 H5 HW1 I1 (Step_LD _ _ _ _ S1 Hld0))
    as (c2 & K2 & e2 & E2 & S2 & I2 & A2 & _ & _ & F2 & L2).
  { unfold node_room in *. rewrite Ln1, Lo1. fold root. clia. }
  { unfold attr_room in *. rewrite La1. fold root. clia. }
  fold root in E2, S2, A2, F2, L2, HW1.
  rewrite E2. cbn [bind]. clear E2.
  pose proof (W_app _ _ _ _ HW1) as HW2.
  set (p2 := p1 + blen (T.r_item root)) in *.
  pose proof (Step_nodes_len _ _ _ _ S2) as Ln2.
  rewrite (Forall2_len_N _ _ _ F2) in Ln2. unfold len_N at 3 in Ln2. rewrite tag_len in Ln2.
  pose proof (Step_opt _ _ _ _ (proj1 S2)) as Lo2.
  (* epilog *)
  unfold parse_misc. cbn [CstLex.st s_rest]. fold (CstLex.st text p2 (r_pairs A ++ wE ++ [])).
  destruct (misc_loop_ok text Hascii A p2 wE [] c2
              (S (length (r_pairs A ++ wE ++ []))) HW2 H6 H2)
    as (c3 & K3 & E3 & S3 & I3 & A3 & F3).
  { split; [exact Logic.I|split; reflexivity]. }
  { pose proof (pairs_len A H6). rewrite app_length. clia. }
  { exact I2. } { apply A2. reflexivity. }
  { unfold node_room in *. rewrite Ln2, Lo2, Ln1, Lo1. clia. }
  rewrite E3. cbn [bind]. clear E3.
  pose proof (W_app _ _ _ _ HW2) as HWb. pose proof (W_app _ _ _ _ HWb) as HW3.
  rewrite at_end_st by exact HW3. cbn [negb].
  exists c3, (K1 ++ K2 ++ K3), ([] ++ e2 ++ []). split; [reflexivity|].
  split; [apply (Step_trans _ _ _ _ _ _ _ S1 (Step_trans _ _ _ _ _ _ _ S2 S3))|]. split; [exact I3|].
  rewrite tag_list_app. cbn [tag_list].
  destruct S1 as (S1 & P1 & _). destruct S2 as (S2 & P2 & _). destruct S3 as (S3 & _ & _).
  apply Forall2_app; [|apply Forall2_app].
  - rewrite (s_attrs _ _ _ _ S3), (s_attrs _ _ _ _ S2), <- app_assoc. apply km_Forall2_ext. exact F1.
  - rewrite (s_attrs _ _ _ _ S3). apply km_Forall2_ext. rewrite P1, Ln1 in F2. exact F2.
  - rewrite P2, P1, Ln2, Ln1 in F3. exact F3.
Qed.

Print Assumptions tparse_document_ok.
