(* Proofs/CstSound6aSem.v -- C08 soundness on stage S6, markup-valued entities referenced from the body:
   what the content loop carries for a list of items AS WRITTEN at one level ([SemL]): their inlining under a
   table of Spec/CstFullS4.v succeeds with a trace the loop detector runs through, no CR is left in the inlined
   pieces, and the items the (un-regrouped) result denotes satisfy the namespace rules in the scope of the level.
   Regrouping adjacent character data changes neither the namespace conditions nor the declarations nor the
   cost, and keeps the line-end proviso.  No parser is involved. *)
From Coq Require Import String.
From Coq Require Import List Arith NArith Bool Lia.
Import ListNotations.
From RX Require Import Generated.
From RX.Model Require Import Base.
From RX.Spec Require Cst CstText CstEnt Detector Scope CstU CstNs Chars.
From RX.Spec Require Import CstFullS5.
From RX.Spec Require Import Text CstFull CstFullS4.
From RX.Spec Require Import CstFullS6.
From RX.Proofs Require Import Tactics DetectorProofs CstFullTree.
From RX.Proofs Require Import CstEntCSem CstFullS4Sem.
From RX.Proofs Require CstNsTree CstSoundNBuild CstSoundNMain CstSoundPRMain.
From RX.Proofs Require Import CstSoundPRef CstSound6uEmb.
Open Scope N_scope.

Notation bdens := (CstFullTree.dens bpieces bmeaning).
Notation xb := (x_entry bpieces T.value_sem).
Notation ns_own := CstSoundNBuild.ns_own.
Notation elem_cost := CstSoundNMain.elem_cost.

(* ---- text nodes are invisible to the namespace conditions ---- *)
Definition nt (l : list CstNs.item) : list CstNs.item :=
  filter (fun i => match i with CstNs.IText _ => false | _ => true end) l.

Lemma nt_app a c : nt (a ++ c) = nt a ++ nt c.
Proof. apply filter_app. Qed.

Lemma nt_text Q : nt (bden (@IText bpieces Q)) = [].
Proof. rewrite bden_text. destruct (all_marks Q); reflexivity. Qed.

Lemma bdens_cons (i : bitem) r : bdens (i :: r) = bden i ++ bdens r.
Proof. reflexivity. Qed.

Lemma nt_regroup : forall bs, nt (bdens (regroup bs)) = nt (bdens bs).
Proof.
  induction bs as [|i r IH]; [reflexivity|].
  destruct i as [n a w bd|ps|c|t s v]; try (rewrite regroup_nontext by reflexivity; rewrite !bdens_cons, !nt_app, IH; reflexivity).
  cbn [regroup]. rewrite bdens_cons, nt_app, nt_text. cbn [app]. rewrite <- IH.
  destruct (regroup r) as [|[n a w bd|qs|c|t s v] r']; rewrite ?bdens_cons, ?nt_app, ?nt_text; reflexivity.
Qed.

Lemma ns_oks_nt sc : forall l, ns_oks sc l = ns_oks sc (nt l).
Proof. induction l as [|i r IH]; [reflexivity|]. destruct i; cbn [nt filter ns_oks]; fold (nt r); rewrite IH; reflexivity. Qed.
Lemma decls_nt : forall l, NT.items_decls l = NT.items_decls (nt l).
Proof. induction l as [|i r IH]; [reflexivity|]. destruct i; cbn [nt filter NT.items_decls]; fold (nt r); rewrite IH; reflexivity. Qed.
Lemma costs_nt sc : forall l, NT.ns_costs sc l = NT.ns_costs sc (nt l).
Proof. induction l as [|i r IH]; [reflexivity|]. destruct i; cbn [nt filter NT.ns_costs]; fold (nt r); rewrite IH; reflexivity. Qed.

Lemma ns_oks_regroup sc bs : ns_oks sc (bdens (regroup bs)) = ns_oks sc (bdens bs).
Proof. rewrite ns_oks_nt, nt_regroup, <- ns_oks_nt. reflexivity. Qed.
Lemma decls_regroup bs : NT.items_decls (bdens (regroup bs)) = NT.items_decls (bdens bs).
Proof. rewrite decls_nt, nt_regroup, <- decls_nt. reflexivity. Qed.
Lemma costs_regroup sc bs : NT.ns_costs sc (bdens (regroup bs)) = NT.ns_costs sc (bdens bs).
Proof. rewrite costs_nt, nt_regroup, <- costs_nt. reflexivity. Qed.

Lemma ns_oks_texts sc bs : forallb is_btext bs = true -> ns_oks sc (bdens bs) = true.
Proof.
  intros H. rewrite ns_oks_nt. replace (nt (bdens bs)) with (@nil CstNs.item); [reflexivity|].
  induction bs as [|i r IH]; [reflexivity|]. cbn [forallb] in H. apply andb_true_iff in H. destruct H as [H1 H2].
  destruct i; try discriminate. rewrite bdens_cons, nt_app, nt_text. exact (IH H2).
Qed.
Lemma decls_texts bs : forallb is_btext bs = true -> NT.items_decls (bdens bs) = [].
Proof.
  intros H. rewrite decls_nt. replace (nt (bdens bs)) with (@nil CstNs.item); [reflexivity|].
  induction bs as [|i r IH]; [reflexivity|]. cbn [forallb] in H. apply andb_true_iff in H. destruct H as [H1 H2].
  destruct i; try discriminate. rewrite bdens_cons, nt_app, nt_text. exact (IH H2).
Qed.
Lemma costs_texts sc bs : forallb is_btext bs = true -> NT.ns_costs sc (bdens bs) = 0%nat.
Proof.
  intros H. rewrite costs_nt. replace (nt (bdens bs)) with (@nil CstNs.item); [reflexivity|].
  induction bs as [|i r IH]; [reflexivity|]. cbn [forallb] in H. apply andb_true_iff in H. destruct H as [H1 H2].
  destruct i; try discriminate. rewrite bdens_cons, nt_app, nt_text. exact (IH H2).
Qed.

(* ---- the line-end proviso ---- *)
Definition pv1 (i : bitem) : Prop := match i with IText Q => nocr Q | _ => provisos_item i = true end.
Definition PV (bs : list bitem) : Prop := Forall pv1 bs.

Lemma PV_app a c : PV a -> PV c -> PV (a ++ c).
Proof. intros. apply Forall_app. split; assumption. Qed.

Lemma PV_regroup : forall bs, PV bs -> PV (regroup bs).
Proof.
  induction bs as [|i r IH]; intros H; [constructor|]. inversion H as [|? ? H1 H2]; subst. specialize (IH H2).
  destruct i as [n a w bd|ps|c|t s v]; try (rewrite regroup_nontext by reflexivity; constructor; assumption).
  cbn [regroup]. destruct (regroup r) as [|[n a w bd|qs|c|t s v] r']; try (constructor; assumption).
  inversion IH as [|? ? Hq Hr']; subst. constructor; [|exact Hr']. cbn [pv1] in *. apply nocr_app; assumption.
Qed.

Lemma PV_provisos : forall bs, PV bs -> forallb provisos_item bs = true.
Proof.
  induction 1 as [|i r Hi _ IH]; [reflexivity|]. cbn [forallb]. rewrite IH, andb_true_r.
  destruct i; try exact Hi. cbn [provisos_item]. apply nocr_crlf. exact Hi.
Qed.

Lemma provisos_fix : forall l : list bitem,
  (fix all (l : list bitem) : bool := match l with [] => true | c :: r => provisos_item c && all r end) l = forallb provisos_item l.
Proof. induction l as [|c r IH]; [reflexivity|]. cbn [forallb]. rewrite <- IH. reflexivity. Qed.

Lemma inline_run_app tb m : forall a c x1 t1 x2 t2, inline_run tb m a = Some (x1, t1) -> inline_run tb m c = Some (x2, t2) ->
  inline_run tb m (a ++ c) = Some (x1 ++ x2, t1 ++ t2).
Proof.
  induction a as [|p a IH]; intros c x1 t1 x2 t2 H1 H2.
  - cbn [inline_run] in H1. injection H1 as <- <-. exact H2.
  - cbn [app inline_run] in *. destruct p as [p|n].
    + destruct (inline_run tb m a) as [[xa ta]|] eqn:Ea; [|discriminate]. cbn [E.obind fst snd] in H1. injection H1 as <- <-.
      rewrite (IH c _ _ _ _ eq_refl H2). reflexivity.
    + destruct (ylookup tb n) as [v|]; [|discriminate]. cbn [E.obind] in *.
      destruct (inline_run tb m a) as [[xa ta]|] eqn:Ea; [|discriminate]. cbn [E.obind fst snd] in H1. injection H1 as <- <-.
      rewrite (IH c _ _ _ _ eq_refl H2). cbn [E.obind fst snd]. cbn [app]. rewrite <- !app_assoc. cbn [app]. reflexivity.
Qed.

Section Sem.
Variable tb : ytable.
Variable m : bool.

Definition SemL (sc : list Scope.binding) (cs : list uitem) (bs : list bitem) (tr : list Detector.lop) : Prop :=
  inline_items tb m cs = Some (bs, tr) /\ GoodT tr /\ PV bs /\ ns_oks sc (bdens bs) = true.
Definition bs_of (cs : list uitem) : list bitem := match inline_items tb m cs with Some x => fst x | None => [] end.
Definition dcl (cs : list uitem) : list Scope.binding := NT.items_decls (bdens (bs_of cs)).
Definition cst (sc : list Scope.binding) (cs : list uitem) : nat := NT.ns_costs sc (bdens (bs_of cs)).

Lemma SemL_nil sc : SemL sc [] [] [].
Proof. split; [reflexivity|]. split; [apply GoodT_nil|]. split; [constructor|reflexivity]. Qed.

Lemma bs_of_sem sc cs bs tr : SemL sc cs bs tr -> bs_of cs = bs.
Proof. intros (H & _). unfold bs_of. rewrite H. reflexivity. Qed.

Lemma SemL_cons sc (i : uitem) cs bi ti bs tr :
  inline_item tb m i = Some (bi, ti) -> GoodT ti -> PV bi -> ns_oks sc (bdens bi) = true ->
  SemL sc cs bs tr -> SemL sc (i :: cs) (bi ++ bs) (ti ++ tr).
Proof.
  intros Hi Gi Pi Ni (H & G & P & Nn). split; [cbn [inline_items]; rewrite Hi; cbn [E.obind]; rewrite H; reflexivity|].
  split; [apply GoodT_app; assumption|]. split; [apply PV_app; assumption|]. rewrite bdens_app, ns_oks_app, Ni, Nn. reflexivity.
Qed.

Lemma dcl_cons sc (i : uitem) cs bi ti bs tr : inline_item tb m i = Some (bi, ti) -> SemL sc cs bs tr ->
  dcl (i :: cs) = NT.items_decls (bdens bi) ++ dcl cs /\
  forall sc', cst sc' (i :: cs) = (NT.ns_costs sc' (bdens bi) + cst sc' cs)%nat.
Proof.
  intros Hi (H & _). unfold dcl, cst, bs_of. cbn [inline_items]. rewrite Hi. cbn [E.obind]. rewrite H. cbn [E.obind fst snd].
  rewrite bdens_app. split; [apply CstFullTree.items_decls_app|intros sc'; apply CstFullTree.ns_costs_app].
Qed.

(* a fragment of character data in front: it joins the run at the head *)
Lemma SemL_text sc ps cs b1 t1 bs tr :
  inline_run tb m (enc_epieces ps) = Some (b1, t1) -> GoodT t1 -> PV b1 -> ns_oks sc (bdens b1) = true ->
  SemL sc cs bs tr -> SemL sc (CstSoundPRMain.cons_text_r ps cs) (b1 ++ bs) (t1 ++ tr).
Proof.
  intros Hi Gi Pi Ni HS.
  destruct cs as [|[n a w bd|qs|c|t s v] r]; cbn [CstSoundPRMain.cons_text_r]; try (apply SemL_cons; assumption).
  destruct HS as (H & G & P & Nn). cbn [inline_items inline_item] in H.
  destruct (inline_run tb m (enc_epieces qs)) as [[bq tq]|] eqn:Eq; [|discriminate]. cbn [E.obind] in H.
  destruct (inline_items tb m r) as [[br trr]|] eqn:Er; [|discriminate]. cbn [E.obind fst snd] in H. injection H as <- <-.
  split.
  { cbn [inline_items inline_item]. unfold enc_epieces. rewrite map_app. fold (enc_epieces ps). fold (enc_epieces qs).
    rewrite (inline_run_app tb m _ _ _ _ _ _ Hi Eq). cbn [E.obind]. rewrite Er. cbn [E.obind fst snd]. rewrite <- !app_assoc. reflexivity. }
  split; [apply GoodT_app; assumption|]. split; [apply PV_app; assumption|]. rewrite bdens_app, ns_oks_app, Ni, Nn. reflexivity.
Qed.

Lemma dcl_text sc ps cs b1 t1 bs tr : inline_run tb m (enc_epieces ps) = Some (b1, t1) -> SemL sc cs bs tr ->
  dcl (CstSoundPRMain.cons_text_r ps cs) = NT.items_decls (bdens b1) ++ dcl cs /\
  forall sc', cst sc' (CstSoundPRMain.cons_text_r ps cs) = (NT.ns_costs sc' (bdens b1) + cst sc' cs)%nat.
Proof.
  intros Hi HS.
  destruct cs as [|[n a w bd|qs|c|t s v] r]; cbn [CstSoundPRMain.cons_text_r].
  1,2,4,5: (apply (dcl_cons sc (@IText epieces ps) _ b1 t1 bs tr); [exact Hi|exact HS]).
  destruct HS as (H & _). cbn [inline_items inline_item] in H.
  destruct (inline_run tb m (enc_epieces qs)) as [[bq tq]|] eqn:Eq; [|discriminate]. cbn [E.obind] in H.
  destruct (inline_items tb m r) as [[br trr]|] eqn:Er; [|discriminate]. cbn [E.obind fst snd] in H. injection H as <- <-.
  unfold dcl, cst, bs_of. cbn [inline_items inline_item]. unfold enc_epieces. rewrite map_app. fold (enc_epieces ps). fold (enc_epieces qs).
  rewrite (inline_run_app tb m _ _ _ _ _ _ Hi Eq), Eq. cbn [E.obind]. rewrite Er. cbn [E.obind fst snd]. rewrite <- !app_assoc.
  rewrite !bdens_app. split; [rewrite !CstFullTree.items_decls_app; reflexivity|intros sc'; rewrite !CstFullTree.ns_costs_app; reflexivity].
Qed.

(* an element *)
Lemma elem_sem inh name (es : list uentry) (es' : list bentry) tra ws body bsb trb :
  inline_entries tb m es = Some (es', tra) -> GoodT tra ->
  forallb (fun e => E.crlf_split_ok (e_value bpieces e)) es' = true ->
  ns_own inh (x_qname name) (map xb es') = true ->
  match body with
  | None => bsb = [] /\ trb = []
  | Some (cs, _) => SemL (Scope.scope_of (CstNs.own_bindings (map xb es')) inh) cs bsb trb
  end ->
  let i' := @IElem bpieces name es' ws (match body with None => None | Some (_, w2) => Some (regroup bsb, w2) end) in
  inline_item tb m (IElem name es ws body) = Some ([i'], tra ++ trb) /\ GoodT (tra ++ trb) /\ PV [i'] /\
  ns_oks inh (bdens [i']) = true /\
  NT.items_decls (bdens [i']) = CstNs.own_bindings (map xb es') ++ match body with None => [] | Some (cs, _) => dcl cs end /\
  NT.ns_costs inh (bdens [i']) =
    (elem_cost (CstNs.own_bindings (map xb es')) (Scope.scope_of (CstNs.own_bindings (map xb es')) inh) +
     match body with None => 0 | Some (cs, _) => cst (Scope.scope_of (CstNs.own_bindings (map xb es')) inh) cs end)%nat.
Proof.
  intros Ee Ge Ce Hown Hb i'.
  split.
  { rewrite inline_item_elem, Ee. cbn [E.obind]. destruct body as [[cs w2]|].
    - destruct Hb as (Hi & _). fold (inline_items tb m cs). rewrite Hi. reflexivity.
    - destruct Hb as [-> ->]. rewrite app_nil_r. reflexivity. }
  split; [destruct body as [[cs w2]|]; [apply GoodT_app; [exact Ge|apply Hb]|destruct Hb as [_ ->]; rewrite app_nil_r; exact Ge]|].
  split.
  { constructor; [|constructor]. unfold i', pv1. cbn [provisos_item]. rewrite Ce. cbn [andb].
    destruct body as [[cs w2]|]; [|reflexivity]. rewrite provisos_fix. apply PV_provisos. apply PV_regroup. apply Hb. }
  assert (Eden : bdens [i'] = [CstNs.IElem (x_qname name) (map xb es') ws
             (match body with None => None | Some (_, w2) => Some (bdens (regroup bsb), w2) end)]).
  { cbn [CstFullTree.dens]. rewrite app_nil_r. unfold i'. rewrite CstFullTree.den_elem. destruct body as [[cs w2]|]; reflexivity. }
  rewrite Eden. split; [|split].
  - cbn [CstFullTree.ns_oks]. rewrite andb_true_r, CstFullTree.ns_ok_elem. cbv zeta. unfold CstNsTree.esc.
    unfold CstSoundNBuild.ns_own in Hown. cbv zeta in Hown. rewrite Hown. cbn [andb].
    destruct body as [[cs w2]|]; [|reflexivity]. rewrite ns_oks_regroup. apply Hb.
  - cbn [NT.items_decls]. rewrite app_nil_r, NT.item_decls_elem. destruct body as [[cs w2]|]; [|reflexivity].
    rewrite decls_regroup. unfold dcl. rewrite (bs_of_sem _ _ _ _ Hb). reflexivity.
  - cbn [NT.ns_costs]. rewrite Nat.add_0_r, NT.ns_cost_elem. unfold NT.esc, CstSoundNMain.elem_cost. destruct body as [[cs w2]|]; [|reflexivity].
    rewrite costs_regroup. unfold cst. rewrite (bs_of_sem _ _ _ _ Hb). reflexivity.
Qed.

End Sem.
