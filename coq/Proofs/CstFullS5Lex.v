(* Proofs/CstFullS5Lex.v -- the capstone fragment, stage S5: Proofs/CstFullLex.v (start tags and end tags) with the
   production S for the white space of the layout (Spec/CstFullS5.v, [wf_layout_s]). *)
From Coq Require Import Ascii String.
From Coq Require Import List NArith PeanoNat Bool Lia ZifyBool ZifyN ZifyNat.
Import ListNotations.
From RX Require Import Generated.
From RX.Model Require Import Base CharClass Stream Tokenizer.
From RX.Spec Require Cst Scope CstNs CstU Chars.
From RX.Spec Require Import CstFull CstFullS5.
From RX.Proofs Require Import CstLex CstULex CstNsLex CstFullLex CstFullS5Ws.
Open Scope N_scope.

Definition uentry_ok_s (e : CstNs.entry) : Prop :=
  wf_layout_s (CstNs.e_layout e) = true /\ uq_ok (e_qname e) /\
  uval_ok (CstNs.l_quote (CstNs.e_layout e)) (CstNs.e_value e).

Section Lex.
Variable text : bytes.

Notation st := (CstLex.st text).
Notation W := (CstLex.W text).
Notation WV := (CstULex.WV text).

(* ---- start-tag entries ---- *)
Variable C : Type.
Variable ev : token -> C -> res C.

Lemma uentry_parts_s e : uentry_ok_s e ->
  CstNs.l_ws (CstNs.e_layout e) <> [] /\ wf_s (CstNs.l_ws (CstNs.e_layout e)) = true /\
  wf_s (CstNs.l_ws1 (CstNs.e_layout e)) = true /\ wf_s (CstNs.l_ws2 (CstNs.e_layout e)) = true /\
  (CstNs.l_quote (CstNs.e_layout e) = 39 \/ CstNs.l_quote (CstNs.e_layout e) = 34) /\
  uval_ok (CstNs.l_quote (CstNs.e_layout e)) (CstNs.e_value e) /\ uq_ok (e_qname e).
Proof.
  intros (H & Hq & Hv). unfold wf_layout_s in H. rewrite !andb_true_iff in H. destruct H as [[[H1 H2] H3] H4].
  repeat split; try assumption.
  - unfold wf_s1 in H1. destruct (CstNs.l_ws (CstNs.e_layout e)); [discriminate|discriminate].
  - unfold wf_s1 in H1. unfold wf_s. destruct (CstNs.l_ws (CstNs.e_layout e)); [reflexivity|exact H1].
  - apply is_quote_cases. exact H4.
Qed.

Lemma uentry_valid_s e : uentry_ok_s e -> U8.Valid (CstNs.r_entry e).
Proof.
  intros H. destruct (uentry_parts_s e H) as (_ & Hw & Hw1 & Hw2 & Hq & (cs & Ev & Hcs & _) & Hn).
  unfold CstNs.r_entry. cbv zeta. rewrite e_name_qname.
  repeat apply U8.Valid_app; try (apply Valid_lit; apply s_lit; assumption).
  - apply uq_valid; exact Hn.
  - apply Valid_lit. reflexivity.
  - apply Valid_lit. cbn. destruct Hq as [-> | ->]; reflexivity.
  - rewrite Ev. apply Valid_utf8s. apply chars_scalars. exact Hcs.
  - apply Valid_lit. cbn. destruct Hq as [-> | ->]; reflexivity.
Qed.

Lemma lex_entry_full_s fuel ts q e more c : WV q (CstNs.r_entry e ++ more) -> uentry_ok_s e ->
  parse_element_loop text C ev (S fuel) ts (st q (CstNs.r_entry e ++ more)) c =
  let! c' := ev (entry_tok q e) c in
  parse_element_loop text C ev fuel ts (st (q + blen (CstNs.r_entry e)) more) c'.
Proof.
  intros HW Hwf. destruct (uentry_parts_s _ Hwf) as (Hne & Hws & Hw1 & Hw2 & Hq & Hv & Hn).
  unfold entry_tok. cbv zeta.
  assert (Elen : q + blen (CstNs.r_entry e) = q + blen (CstNs.l_ws (CstNs.e_layout e)) + blen (CstNs.r_qname (e_qname e))
                  + blen (CstNs.l_ws1 (CstNs.e_layout e)) + 1 + blen (CstNs.l_ws2 (CstNs.e_layout e)) + 1 + blen (CstNs.e_value e) + 1).
  { clear. unfold CstNs.r_entry. cbv zeta. rewrite e_name_qname, !blen_app, !blen_cons, blen_nil. lia. }
  rewrite Elen. clear Elen.
  unfold CstNs.r_entry in *. cbv zeta in *. rewrite e_name_qname in *. rewrite <- !app_assoc in *. cbn [app] in *.
  set (qn := e_qname e) in *. clearbody qn.
  destruct (CstNs.e_layout e) as [ws ws1 ws2 quote]. set (value := CstNs.e_value e) in *. clearbody value.
  cbn [CstNs.l_ws CstNs.l_ws1 CstNs.l_ws2 CstNs.l_quote] in *. clear Hwf.
  destruct Hv as (cs & -> & Hv2 & Hv1).
  assert (Hqq : (quote =? 39) || (quote =? 34) = true) by (clear - Hq; lia).
  assert (Hqsp : byte_is_space quote = false) by (clear - Hq; destruct Hq as [-> | ->]; reflexivity).
  assert (Hq128 : quote < 128) by (clear - Hq; lia). clear Hq.
  destruct ws as [|w ws]; [congruence|]. clear Hne.
  destruct (uq_head _ Hn) as (n & nr & En & Hnsp & Hn47 & Hn62 & _).
  apply N.eqb_neq in Hn47, Hn62.
  assert (Hwsp : byte_is_space w = true).
  { cbn [wf_s forallb] in Hws. apply andb_true_iff in Hws. apply s_space. apply Hws. }
  pose proof (WV_W _ _ _ HW) as HW0.
  cbn [parse_element_loop]. rewrite at_end_st by exact HW0. cbn [app].
  unfold starts_with_space. rewrite curr_byte_opt_st by exact HW0.
  rewrite Hwsp. cbv zeta.
  change (w :: ws ++ ?l) with ((w :: ws) ++ l) in HW, HW0 |- *.
  rewrite skip_spaces_st; [|exact HW0|apply s_spaces; exact Hws|rewrite En; cbn [app stops]; exact Hnsp].
  pose proof (WV_lit _ _ _ _ HW (s_lit _ Hws)) as HW1. pose proof (WV_W _ _ _ HW1) as HW1'. cbn [CstLex.st s_pos].
  assert (Ecb : curr_byte (st (q + blen (w :: ws)) (CstNs.r_qname qn ++ ws1 ++ 61 :: ws2 ++ quote :: utf8s cs ++ quote :: more)) = Ok n).
  { revert HW1'. rewrite En. cbn [app]. intros HW1'. apply curr_byte_st. exact HW1'. }
  rewrite Ecb. cbn [bind]. rewrite Hn47, Hn62. clear Ecb En.
  rewrite consume_qname_full; [|exact HW1|exact Hn|].
  2:{ apply s_stop_name; [exact Hw1|]. cbn [name_stop]. apply not_name_byte_lit. auto. }
  cbn [bind].
  pose proof (WV_app _ _ _ _ HW1 (uq_valid _ Hn)) as HW2. pose proof (WV_W _ _ _ HW2) as HW2'.
  unfold consume_eq.
  rewrite skip_spaces_st; [|exact HW2'|apply s_spaces; exact Hw1|reflexivity].
  pose proof (WV_lit _ _ _ _ HW2 (s_lit _ Hw1)) as HW3.
  rewrite consume_byte_st by (apply (WV_W _ _ _ HW3)). cbn [bind].
  pose proof (WV_cons _ _ _ _ HW3 ltac:(lia)) as HW4.
  rewrite skip_spaces_st; [|apply (WV_W _ _ _ HW4)|apply s_spaces; exact Hw2|cbn [stops]; exact Hqsp].
  pose proof (WV_lit _ _ _ _ HW4 (s_lit _ Hw2)) as HW5. cbn [CstLex.st s_pos].
  unfold consume_quote. rewrite curr_byte_st by (apply (WV_W _ _ _ HW5)). cbn [bind].
  rewrite Hqq.
  rewrite advance1_st by (apply (WV_W _ _ _ HW5)). cbn [bind].
  pose proof (WV_cons _ _ _ _ HW5 Hq128) as HW6. pose proof (WV_W _ _ _ HW6) as HW6'. cbn [CstLex.st s_pos].
  unfold advance_until2. rewrite avail_st by exact HW6'.
  rewrite find_idx_run; [|exact Hv1|rewrite N.eqb_refl; reflexivity].
  rewrite advance_st by (try reflexivity; exact HW6'). cbn [bind].
  unfold slice_back. cbn [CstLex.st s_pos].
  rewrite (mk_slice_v text _ (utf8s cs) _ HW6) by (apply Valid_utf8s; apply chars_scalars; exact Hv2). cbn [bind].
  rewrite (is_xml_str_u text _ cs _ _ HW6' Hv2). cbn [bind].
  pose proof (W_app _ _ _ _ HW6') as HW7.
  rewrite consume_byte_st by exact HW7. cbn [bind]. cbn [CstLex.st s_pos].
  reflexivity.
Qed.

Lemma lex_entries_full_s ts ws_end empty post : forall es q c fuel,
  WV q (flat_map CstNs.r_entry es ++ ws_end ++ tag_tail empty ++ post) ->
  Forall uentry_ok_s es -> wf_s ws_end = true -> (length es < fuel)%nat ->
  parse_element_loop text C ev fuel ts (st q (flat_map CstNs.r_entry es ++ ws_end ++ tag_tail empty ++ post)) c =
  let q' := q + blen (flat_map CstNs.r_entry es) + blen ws_end in
  let! c1 := evs C ev (entry_toks q es) c in
  let! c2 := ev (end_tok q' empty) c1 in
  Ok (negb empty, st (q' + blen (tag_tail empty)) post, c2).
Proof.
  induction es as [|a es IH]; intros q c fuel HW Ha Hws Hf; cbv zeta.
  - cbn [flat_map app entry_toks evs bind] in *. rewrite blen_nil, N.add_0_r.
    destruct fuel as [|fu]; [cbn in Hf; lia|]. apply lex_elem_end_s; [apply (WV_W _ _ _ HW)|exact Hws].
  - apply Forall_cons_iff in Ha. destruct Ha as [Ha1 Ha2].
    cbn [length] in Hf. destruct fuel as [|fu]; [lia|].
    cbn [flat_map entry_toks evs] in *. rewrite <- app_assoc in *.
    rewrite lex_entry_full_s by assumption.
    destruct (ev (entry_tok q a) c) as [c'| | |]; cbn [bind]; try reflexivity.
    rewrite IH; [|apply (WV_app _ _ _ _ HW (uentry_valid_s _ Ha1))|exact Ha2|exact Hws|lia]. cbv zeta.
    rewrite blen_app. rewrite !N.add_assoc. reflexivity.
Qed.

Lemma uentries_name_stop_s es ws_end empty post :
  Forall uentry_ok_s es -> wf_s ws_end = true ->
  name_stop (flat_map CstNs.r_entry es ++ ws_end ++ tag_tail empty ++ post).
Proof.
  intros Ha Hws. destruct es as [|a es].
  - cbn [flat_map app]. apply s_stop_name; [exact Hws|]. destruct empty; cbn [tag_tail app name_stop];
      apply not_name_byte_lit; auto.
  - apply Forall_cons_iff in Ha. destruct Ha as [Ha _].
    destruct (uentry_parts_s _ Ha) as (Hne & Hw & _). cbn [flat_map]. unfold CstNs.r_entry. cbv zeta.
    destruct (CstNs.l_ws (CstNs.e_layout a)) as [|w ws]; [congruence|]. cbn [app name_stop].
    cbn [wf_s forallb] in Hw. apply andb_true_iff in Hw. apply s_not_name_byte. apply Hw.
Qed.

Lemma lex_element_full_s p name es ws_end empty post c :
  WV p ([60] ++ CstNs.r_qname name ++ flat_map CstNs.r_entry es ++ ws_end ++ tag_tail empty ++ post) ->
  uq_ok name -> Forall uentry_ok_s es -> wf_s ws_end = true ->
  let q' := p + 1 + blen (CstNs.r_qname name) + blen (flat_map CstNs.r_entry es) + blen ws_end in
  parse_element text C ev (st p ([60] ++ CstNs.r_qname name ++ flat_map CstNs.r_entry es ++ ws_end ++ tag_tail empty ++ post)) c =
  let! c1 := evs C ev (start_toks_ns p name es) c in
  let! c2 := ev (end_tok q' empty) c1 in
  Ok (negb empty, st (q' + blen (tag_tail empty)) post, c2).
Proof.
  intros HW Hn Ha Hws q'. unfold parse_element. cbv zeta. cbn [CstLex.st s_pos].
  fold (st p ([60] ++ CstNs.r_qname name ++ flat_map CstNs.r_entry es ++ ws_end ++ tag_tail empty ++ post)).
  rewrite (advance_st text 1 p [60]) by (try reflexivity; apply (WV_W _ _ _ HW)). cbn [bind].
  pose proof (WV_lit _ _ _ _ HW eq_refl) as HW1. change (blen [60]) with 1 in HW1.
  rewrite consume_qname_full; [|exact HW1|exact Hn|apply uentries_name_stop_s; assumption]. cbn [bind].
  unfold start_toks_ns. cbn [evs].
  destruct (ev _ c) as [c0| | |]; cbn [bind]; try reflexivity.
  pose proof (WV_app _ _ _ _ HW1 (uq_valid _ Hn)) as HW2.
  rewrite lex_entries_full_s; [|exact HW2|exact Ha|exact Hws|].
  2:{ cbn [CstLex.st s_rest]. rewrite app_length. pose proof (flat_entry_len es). lia. }
  reflexivity.
Qed.

Lemma lex_close_full_s p name ws2 post c : WV p ([60; 47] ++ CstNs.r_qname name ++ ws2 ++ [62] ++ post) ->
  uq_ok name -> wf_s ws2 = true ->
  let e := p + 2 + blen (CstNs.r_qname name) + blen ws2 + 1 in
  parse_close_element text C ev (st p ([60; 47] ++ CstNs.r_qname name ++ ws2 ++ [62] ++ post)) c =
  let! c' := ev (TElementEnd (EClose (sl (p + 2) (p + 2 + blen (CstNs.q_prefix name)))
                                     (sl (p + 2 + q_off name) (p + 2 + blen (CstNs.r_qname name)))) (p, e)) c in
  Ok (st e post, c').
Proof.
  intros HW Hn Hws e. unfold parse_close_element. cbv zeta. cbn [CstLex.st s_pos].
  fold (st p ([60; 47] ++ CstNs.r_qname name ++ ws2 ++ [62] ++ post)).
  rewrite (advance_st text 2 p [60; 47]) by (try reflexivity; apply (WV_W _ _ _ HW)). cbn [bind].
  pose proof (WV_lit _ _ _ _ HW eq_refl) as HW1. change (blen [60; 47]) with 2 in HW1.
  rewrite consume_qname_full; [|exact HW1|exact Hn|].
  2:{ apply s_stop_name; [exact Hws|]. cbn [app name_stop]. apply not_name_byte_lit. auto. }
  cbn [bind]. pose proof (W_app _ _ _ _ (WV_W _ _ _ HW1)) as HW2.
  rewrite skip_spaces_st; [|exact HW2|apply s_spaces; exact Hws|reflexivity].
  pose proof (W_app _ _ _ _ HW2) as HW3. cbn [app] in *.
  rewrite consume_byte_st by exact HW3. cbn [bind CstLex.st s_pos]. reflexivity.
Qed.

End Lex.

Print Assumptions lex_element_full_s.
Print Assumptions lex_close_full_s.
