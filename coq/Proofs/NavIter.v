(* Proofs/NavIter.v -- the iterators of the navigation API: Children (double-ended, driven by
   next_sibling / prev_sibling), the slice iterators (Descendants, Attributes, NamespaceIter)
   and the axes (ancestors, prev/next siblings, first/last children). *)
From Coq Require Import List NArith Bool Lia ZifyBool ZifyN ZifyNat.
From RX.Model Require Import Base Doc Builder Api.
From RX.Spec Require Import Tree Deque.
From RX.Proofs Require Import NavEnc NavLinks.
Import ListNotations.
Open Scope N_scope.

(* ------------------------------------------------------------------ *)
(* deque_run in terms of hd_error / tl *)
Lemma deque_next {A} r (l : list A) :
  deque_run (DNext :: r) l = OItem (hd_error l) :: deque_run r (tl l).
Proof. destruct l; reflexivity. Qed.

Lemma deque_next_back {A} r (l : list A) :
  deque_run (DNextBack :: r) l = OItem (hd_error (rev l)) :: deque_run r (rev (tl (rev l))).
Proof. cbn [deque_run]. destruct (rev l); reflexivity. Qed.

Lemma deque_nth {A} k r (l : list A) :
  deque_run (DNth k :: r) l = OItem (hd_error (skipn k l)) :: deque_run r (tl (skipn k l)).
Proof. cbn [deque_run]. destruct (skipn k l); reflexivity. Qed.

Fixpoint run_children (d : document) (ops : list dop) (it : children_it) : res (list (dout N)) :=
  match ops with
  | [] => Ok []
  | DNext :: r => let! (o, it') := children_next d it in let! rest := run_children d r it' in Ok (OItem o :: rest)
  | DNextBack :: r => let! (o, it') := children_next_back d it in let! rest := run_children d r it' in Ok (OItem o :: rest)
  | _ :: r => run_children d r it          (* Nth / Len are not offered by Children *)
  end.

(* ------------------------------------------------------------------ *)
(* children of a row: each child id is a row with the same sibling list *)
Lemma child_row d t p pp sp x :
  Arena' d t -> In (p, pp, sp) (table t) -> In x (child_ids (p + 1) (tchildren sp)) ->
  exists sx, In (x, Some p, sx) (table t) /\
             sibling_ids t x (Some p) = child_ids (p + 1) (tchildren sp).
Proof.
  intros HA Hp Hx. destruct (in_table_table'' _ _ _ _ Hp) as [ppv Hp'].
  destruct (table'_child_id _ _ _ _ _ _ Hp' Hx) as (pvx & sx & Hrow).
  exists sx. split; [eapply in_table'_table'; exact Hrow|].
  unfold sibling_ids. rewrite (table_find _ _ _ _ Hp). destruct sp; reflexivity.
Qed.

Lemma NoDup_app_l {A} (l1 l2 : list A) : NoDup (l1 ++ l2) -> NoDup l1.
Proof.
  induction l1 as [|a l1 IH]; cbn [app]; intros ND; [constructor|].
  inversion ND as [|? ? Hn ND']; subst. constructor.
  - intros Hin. apply Hn. apply in_or_app. left. exact Hin.
  - apply IH. exact ND'.
Qed.

Lemma NoDup_app_r {A} (l1 l2 : list A) : NoDup (l1 ++ l2) -> NoDup l2.
Proof.
  induction l1 as [|a l1 IH]; cbn [app]; intros ND; [exact ND|].
  inversion ND; subst. apply IH. assumption.
Qed.

Section Children.
  Variables (d : document) (t : tree) (p : N) (pp : option N) (sp : tree).
  Hypothesis HA : Arena' d t.
  Hypothesis Hp : In (p, pp, sp) (table t).

  Let L := child_ids (p + 1) (tchildren sp).

  Lemma L_NoDup : NoDup L.
  Proof. apply child_ids_NoDup. Qed.

  Lemma next_sibling_split pre x post :
    L = pre ++ x :: post -> next_sibling d x = Ok (hd_error post).
  Proof.
    intros E.
    assert (Hx : In x L) by (rewrite E; apply in_elt).
    destruct (child_row d t p pp sp x HA Hp Hx) as (sx & Hrow & Es).
    rewrite (nav_next_sibling' _ _ _ _ _ HA Hrow), Es. fold L. rewrite E.
    rewrite after_split; [reflexivity|].
    apply (NoDup_app_notin pre x post). rewrite <- E. apply L_NoDup.
  Qed.

  Lemma prev_sibling_split pre x post :
    L = pre ++ x :: post -> prev_sibling d x = Ok (hd_error (rev pre)).
  Proof.
    intros E.
    assert (Hx : In x L) by (rewrite E; apply in_elt).
    destruct (child_row d t p pp sp x HA Hp Hx) as (sx & Hrow & Es).
    rewrite (nav_prev_sibling' _ _ _ _ _ HA Hrow), Es. fold L. rewrite E.
    rewrite before_split; [reflexivity|].
    apply (NoDup_app_notin pre x post). rewrite <- E. apply L_NoDup.
  Qed.

  Definition mk_it (l : list N) : children_it :=
    {| ch_front := hd_error l; ch_back := hd_error (rev l) |}.

  Definition seg (l : list N) : Prop := exists pre post, L = pre ++ l ++ post.

  Lemma seg_tl x l : seg (x :: l) -> seg l.
  Proof.
    intros (pre & post & E). exists (pre ++ [x]), post.
    rewrite E, <- app_assoc. reflexivity.
  Qed.

  Lemma seg_removelast l x : seg (l ++ [x]) -> seg l.
  Proof.
    intros (pre & post & E). exists pre, (x :: post).
    rewrite E, <- app_assoc. reflexivity.
  Qed.

  Lemma seg_NoDup l : seg l -> NoDup l.
  Proof.
    intros (pre & post & E). pose proof L_NoDup as ND. rewrite E in ND.
    apply NoDup_app_r in ND. apply NoDup_app_l in ND. exact ND.
  Qed.

  Lemma children_next_spec l :
    seg l -> children_next d (mk_it l) = Ok (hd_error l, mk_it (tl l)).
  Proof.
    intros Hseg. unfold children_next, mk_it. cbn [ch_front ch_back].
    destruct l as [|x l]; [reflexivity|].
    destruct l as [|y l].
    - cbn [rev app hd_error opt_N_eqb]. rewrite N.eqb_refl. reflexivity.
    - cbn [hd_error tl].
      assert (Hne : rev (y :: l) <> []) by (apply rev_ne; discriminate).
      assert (Eb : hd_error (rev (x :: y :: l)) = hd_error (rev (y :: l))).
      { change (rev (x :: y :: l)) with (rev (y :: l) ++ [x]). apply hd_error_app_ne. exact Hne. }
      rewrite Eb.
      destruct (rev (y :: l)) as [|z rl] eqn:Er; [congruence|]. cbn [hd_error opt_N_eqb].
      assert (Hz : In z (y :: l)). { apply in_rev. rewrite Er. left. reflexivity. }
      pose proof (seg_NoDup _ Hseg) as ND. inversion ND as [|? ? Hn _]; subst.
      destruct (x =? z) eqn:E; [apply N.eqb_eq in E; subst; contradiction|].
      destruct Hseg as (pre & post & EL).
      rewrite (next_sibling_split pre x ((y :: l) ++ post)) by exact EL.
      reflexivity.
  Qed.

  Lemma children_next_back_spec l :
    seg l -> children_next_back d (mk_it l) = Ok (hd_error (rev l), mk_it (rev (tl (rev l)))).
  Proof.
    intros Hseg. unfold children_next_back, mk_it. cbn [ch_front ch_back].
    assert (El : l = rev (rev l)) by (rewrite rev_involutive; reflexivity).
    destruct (rev l) as [|x rl]; cbn [rev app] in El; subst l.
    - reflexivity.
    - destruct rl as [|y rl].
      + cbn [rev app hd_error tl opt_N_eqb]. rewrite N.eqb_refl. reflexivity.
      + cbn [tl hd_error]. rewrite rev_involutive. cbn [hd_error].
        assert (Hne : rev (y :: rl) <> []) by (apply rev_ne; discriminate).
        rewrite (hd_error_app_ne (rev (y :: rl)) [x] Hne).
        destruct (rev (y :: rl)) as [|z l'] eqn:Er; [congruence|]. cbn [hd_error opt_N_eqb].
        pose proof (seg_NoDup _ Hseg) as ND.
        apply NoDup_remove_2 in ND. rewrite app_nil_r in ND.
        destruct (x =? z) eqn:E.
        { apply N.eqb_eq in E. subst. exfalso. apply ND. left. reflexivity. }
        destruct Hseg as (pre & post & EL).
        rewrite (prev_sibling_split (pre ++ z :: l') x post)
          by (rewrite EL, <- !app_assoc; reflexivity).
        rewrite rev_app_distr, <- Er, rev_involutive. reflexivity.
  Qed.

  Lemma run_children_spec ops : forall l,
    seg l -> Forall (fun o => o = DNext \/ o = DNextBack) ops ->
    run_children d ops (mk_it l) = Ok (deque_run ops l).
  Proof.
    induction ops as [|o r IH]; intros l Hseg HF; [reflexivity|].
    inversion HF as [|? ? Ho HF']; subst.
    destruct Ho as [-> | ->].
    - cbn [run_children]. rewrite children_next_spec by exact Hseg. cbn [bind].
      rewrite IH; [| |exact HF'].
      + cbn [bind]. rewrite deque_next. reflexivity.
      + destruct l; [exact Hseg | eapply seg_tl; exact Hseg].
    - cbn [run_children]. rewrite children_next_back_spec by exact Hseg. cbn [bind].
      rewrite IH; [| |exact HF'].
      + cbn [bind]. rewrite deque_next_back. reflexivity.
      + assert (El : l = rev (rev l)) by (rewrite rev_involutive; reflexivity).
        destruct (rev l) as [|x rl]; cbn [rev app] in El; cbn [tl]; subst l.
        * exact Hseg.
        * eapply seg_removelast. exact Hseg.
  Qed.

  Lemma children_collect_spec l : forall fuel,
    seg l -> (length l < fuel)%nat -> children_collect fuel d (mk_it l) = Ok l.
  Proof.
    induction l as [|x l IH]; intros fuel Hseg Hf; (destruct fuel as [|fu]; [lia|]);
      cbn [children_collect]; rewrite children_next_spec by exact Hseg; cbn [bind hd_error tl].
    - reflexivity.
    - rewrite IH; [reflexivity | eapply seg_tl; exact Hseg | cbn [length] in Hf; lia].
  Qed.

  Lemma seg_L : seg L.
  Proof. exists [], []. rewrite app_nil_r. reflexivity. Qed.

  Lemma children_spec : children d p = Ok (mk_it L).
  Proof.
    unfold children.
    rewrite (nav_first_child' _ _ _ _ _ HA Hp), (nav_last_child' _ _ _ _ _ HA Hp).
    reflexivity.
  Qed.
End Children.

Theorem nav_children' : forall d t id par s,
  Arena' d t -> In (id, par, s) (table t) ->
  children_list d id = Ok (child_ids (id + 1) (tchildren s)).
Proof.
  intros d t id par s HA Hin. unfold children_list.
  rewrite (children_spec d t id par s HA Hin). cbn [bind].
  apply (children_collect_spec d t id par s HA Hin).
  - apply seg_L.
  - destruct (in_table_table'' _ _ _ _ Hin) as [pv Hin'].
    pose proof (table'_bounds _ _ _ _ _ Hin') as Hb.
    pose proof (arena_len _ _ HA) as Hlen. unfold len_N in Hlen.
    rewrite child_ids_length. destruct s as [k cs]. cbn [tchildren].
    rewrite size_T in Hb. pose proof (length_le_sizes cs). lia.
Qed.
Print Assumptions nav_children'.

Theorem children_deque' : forall d t id par s ops it,
  Arena' d t -> In (id, par, s) (table t) ->
  Forall (fun o => o = DNext \/ o = DNextBack) ops ->
  children d id = Ok it ->
  run_children d ops it = Ok (deque_run ops (child_ids (id + 1) (tchildren s))).
Proof.
  intros d t id par s ops it HA Hin HF Hit.
  rewrite (children_spec d t id par s HA Hin) in Hit. injection Hit as <-.
  apply (run_children_spec d t id par s HA Hin); [apply seg_L | exact HF].
Qed.
Print Assumptions children_deque'.

(* ------------------------------------------------------------------ *)
(* slice iterators *)
Fixpoint run_slice (ops : list dop) (it : slice_it) : list (dout N) :=
  match ops with
  | [] => []
  | DNext :: r => let '(o, it') := sit_next it in OItem o :: run_slice r it'
  | DNextBack :: r => let '(o, it') := sit_next_back it in OItem o :: run_slice r it'
  | DNth k :: r => let '(o, it') := sit_nth (N.of_nat k) it in OItem o :: run_slice r it'
  | DLen :: r => OLen (N.to_nat (sit_len it)) :: run_slice r it
  end.

Lemma N_range_snoc a m : N_range a (S m) = N_range a m ++ [a + N.of_nat m].
Proof.
  replace (S m) with (m + 1)%nat by lia. rewrite N_range_app. reflexivity.
Qed.

Lemma N_range_skipn k : forall a n,
  skipn k (N_range a n) = N_range (a + N.of_nat k) (n - k).
Proof.
  induction k as [|k IH]; intros a n.
  - cbn [skipn]. replace (n - 0)%nat with n by lia. f_equal. lia.
  - destruct n as [|n]; [reflexivity|].
    cbn [N_range skipn]. rewrite IH. replace (S n - S k)%nat with (n - k)%nat by lia.
    f_equal. lia.
Qed.

Lemma sit_next_spec it : it_lo it <= it_hi it ->
  exists it', sit_next it = (hd_error (sit_list it), it') /\
              sit_list it' = tl (sit_list it) /\ it_lo it' <= it_hi it'.
Proof.
  destruct it as [lo hi]. cbn [it_lo it_hi]. intros Hle.
  unfold sit_next, sit_list, sit_len. cbn [it_lo it_hi].
  destruct (lo <? hi) eqn:E.
  - apply N.ltb_lt in E. eexists. split; [|split].
    + destruct (N.to_nat (hi - lo)) as [|m] eqn:Em; [lia|]. reflexivity.
    + cbn [it_lo it_hi]. destruct (N.to_nat (hi - lo)) as [|m] eqn:Em; [lia|].
      cbn [N_range tl]. f_equal. lia.
    + cbn [it_lo it_hi]. lia.
  - apply N.ltb_ge in E. exists {| it_lo := lo; it_hi := hi |}.
    replace (N.to_nat (hi - lo)) with 0%nat by lia. cbn [it_lo it_hi N_range hd_error tl].
    split; [reflexivity|]. split; [|exact Hle].
    replace (N.to_nat (hi - lo)) with 0%nat by lia. reflexivity.
Qed.

Lemma sit_next_back_spec it : it_lo it <= it_hi it ->
  exists it', sit_next_back it = (hd_error (rev (sit_list it)), it') /\
              sit_list it' = rev (tl (rev (sit_list it))) /\ it_lo it' <= it_hi it'.
Proof.
  destruct it as [lo hi]. cbn [it_lo it_hi]. intros Hle.
  unfold sit_next_back, sit_list, sit_len. cbn [it_lo it_hi].
  destruct (lo <? hi) eqn:E.
  - apply N.ltb_lt in E. eexists. split; [|split].
    + destruct (N.to_nat (hi - lo)) as [|m] eqn:Em; [lia|].
      rewrite N_range_snoc, rev_app_distr. cbn [rev app hd_error].
      replace (lo + N.of_nat m) with (hi - 1) by lia. reflexivity.
    + cbn [it_lo it_hi]. destruct (N.to_nat (hi - lo)) as [|m] eqn:Em; [lia|].
      rewrite N_range_snoc, rev_app_distr. cbn [rev app tl]. rewrite rev_involutive.
      f_equal. lia.
    + cbn [it_lo it_hi]. lia.
  - apply N.ltb_ge in E. exists {| it_lo := lo; it_hi := hi |}.
    replace (N.to_nat (hi - lo)) with 0%nat by lia. cbn [it_lo it_hi N_range rev hd_error tl].
    split; [reflexivity|]. split; [|exact Hle].
    replace (N.to_nat (hi - lo)) with 0%nat by lia. reflexivity.
Qed.

Lemma sit_nth_spec k it : it_lo it <= it_hi it ->
  exists it', sit_nth (N.of_nat k) it = (hd_error (skipn k (sit_list it)), it') /\
              sit_list it' = tl (skipn k (sit_list it)) /\ it_lo it' <= it_hi it'.
Proof.
  destruct it as [lo hi]. cbn [it_lo it_hi]. intros Hle.
  unfold sit_nth, sit_list, sit_len. cbn [it_lo it_hi]. rewrite N_range_skipn.
  destruct (N.of_nat k <? hi - lo) eqn:E.
  - apply N.ltb_lt in E. eexists. split; [|split].
    + destruct (N.to_nat (hi - lo) - k)%nat as [|m] eqn:Em; [lia|]. reflexivity.
    + cbn [it_lo it_hi]. destruct (N.to_nat (hi - lo) - k)%nat as [|m] eqn:Em; [lia|].
      cbn [N_range tl]. f_equal. lia.
    + cbn [it_lo it_hi]. lia.
  - apply N.ltb_ge in E. eexists. split; [|split].
    + replace (N.to_nat (hi - lo) - k)%nat with 0%nat by lia. reflexivity.
    + cbn [it_lo it_hi]. replace (N.to_nat (hi - lo) - k)%nat with 0%nat by lia.
      replace (N.to_nat (hi - hi)) with 0%nat by lia. reflexivity.
    + cbn [it_lo it_hi]. lia.
Qed.

Lemma sit_len_spec it : N.to_nat (sit_len it) = length (sit_list it).
Proof. unfold sit_list. rewrite N_range_length. reflexivity. Qed.

Theorem slice_deque : forall ops it, it_lo it <= it_hi it ->
  run_slice ops it = deque_run ops (sit_list it).
Proof.
  induction ops as [|o r IH]; intros it Hle; [reflexivity|].
  destruct o as [| |k|].
  - destruct (sit_next_spec it Hle) as (it' & E1 & E2 & E3).
    cbn [run_slice]. rewrite E1, deque_next, <- E2, IH by exact E3. reflexivity.
  - destruct (sit_next_back_spec it Hle) as (it' & E1 & E2 & E3).
    cbn [run_slice]. rewrite E1, deque_next_back, <- E2, IH by exact E3. reflexivity.
  - destruct (sit_nth_spec k it Hle) as (it' & E1 & E2 & E3).
    cbn [run_slice]. rewrite E1, deque_nth, <- E2, IH by exact E3. reflexivity.
  - cbn [run_slice deque_run]. rewrite sit_len_spec, IH by exact Hle. reflexivity.
Qed.
Print Assumptions slice_deque.

(* ------------------------------------------------------------------ *)
(* the theorems for [Arena] (strict bound) *)
Theorem nav_children : forall d t id par s,
  Arena d t -> In (id, par, s) (table t) ->
  children_list d id = Ok (child_ids (id + 1) (tchildren s)).
Proof.
  intros *. intros HA. generalize (Arena_weaken _ _ HA). clear HA. apply nav_children'.
Qed.
Print Assumptions nav_children.

Theorem children_deque : forall d t id par s ops it,
  Arena d t -> In (id, par, s) (table t) ->
  Forall (fun o => o = DNext \/ o = DNextBack) ops ->
  children d id = Ok it ->
  run_children d ops it = Ok (deque_run ops (child_ids (id + 1) (tchildren s))).
Proof.
  intros *. intros HA. generalize (Arena_weaken _ _ HA). clear HA. apply children_deque'.
Qed.
Print Assumptions children_deque.

