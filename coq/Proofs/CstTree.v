(* Proofs/CstTree.v -- C03, the combinatorial part: induction on the items of Spec/Cst.v, the
   pre-order list of (parent id, vnode) of an item ("tag") and the fact that in this list the
   number of entries whose parent is the id of an element is the number of its children. *)
From Coq Require Import List NArith PeanoNat Bool Lia ZifyBool ZifyN ZifyNat.
Import ListNotations.
From RX.Spec Require Import Cst.
Open Scope N_scope.

(* ---- induction on items ---- *)
Section ItemInd.
Variable P : item -> Prop.
Hypothesis Hempty : forall n a w, P (IElem n a w None).
Hypothesis Helem : forall n a w cs w2, Forall P cs -> P (IElem n a w (Some (cs, w2))).
Hypothesis Htext : forall bs, P (IText bs).
Hypothesis Hcomment : forall bs, P (IComment bs).
Hypothesis Hpi : forall t s v, P (IPI t s v).

Fixpoint item_ind' (i : item) : P i :=
  match i with
  | IElem n a w None => Hempty n a w
  | IElem n a w (Some (cs, w2)) =>
    Helem n a w cs w2
      ((fix go (l : list item) : Forall P l :=
          match l with [] => Forall_nil P | c :: r => Forall_cons c (item_ind' c) (go r) end) cs)
  | IText bs => Htext bs
  | IComment bs => Hcomment bs
  | IPI t s v => Hpi t s v
  end.
End ItemInd.

(* ---- the list versions of the nested fixpoints ---- *)
Fixpoint r_items (l : list item) : bytes :=
  match l with [] => [] | c :: r => r_item c ++ r_items r end.
Fixpoint wf_items (l : list item) : bool :=
  match l with [] => true | c :: r => wf_item c && wf_items r end.
Fixpoint sem_items (l : list item) : list vnode :=
  match l with [] => [] | c :: r => sem_item c ++ sem_items r end.

Lemma r_item_elem name attrs ws body :
  r_item (IElem name attrs ws body) =
  [60] ++ name ++ flat_map r_attr attrs ++ ws ++
  match body with
  | None => [47; 62]
  | Some (cs, ws2) => [62] ++ r_items cs ++ [60; 47] ++ name ++ ws2 ++ [62]
  end.
Proof. destruct body as [[cs ws2]|]; reflexivity. Qed.

Definition xmlns_b : bytes := [120; 109; 108; 110; 115].

Lemma wf_item_elem name attrs ws body :
  wf_item (IElem name attrs ws body) =
  wf_name name && negb (if list_eq_dec N.eq_dec name xmlns_b then true else false)
  && forallb wf_attr attrs
  && forallb (fun a => negb (if list_eq_dec N.eq_dec (a_name a) xmlns_b then true else false)) attrs
  && names_distinct (map a_name attrs) && wf_ws ws &&
  match body with
  | None => true
  | Some (cs, ws2) => wf_ws ws2 && no_adjacent_text cs && wf_items cs
  end.
Proof. destruct body as [[cs ws2]|]; reflexivity. Qed.

Lemma sem_item_elem name attrs ws body :
  sem_item (IElem name attrs ws body) =
  match body with
  | None => [VElem name (map (fun a => (a_name a, a_value a)) attrs) 0]
  | Some (cs, _) => VElem name (map (fun a => (a_name a, a_value a)) attrs) (length cs) :: sem_items cs
  end.
Proof. destruct body as [[cs ws2]|]; reflexivity. Qed.

(* ---- sizes ---- *)
Definition nsize (i : item) : N := N.of_nat (length (sem_item i)).
Definition nsizes (l : list item) : N := N.of_nat (length (sem_items l)).

Lemma nsizes_cons c r : nsizes (c :: r) = nsize c + nsizes r.
Proof. unfold nsizes, nsize. cbn [sem_items]. rewrite app_length. lia. Qed.

Lemma nsize_elem name attrs ws cs ws2 : nsize (IElem name attrs ws (Some (cs, ws2))) = 1 + nsizes cs.
Proof. unfold nsize, nsizes. rewrite sem_item_elem. cbn [length]. lia. Qed.

Lemma nsize_pos i : 1 <= nsize i.
Proof. unfold nsize. destruct i as [n a w [[cs w2]|]| | |]; try rewrite sem_item_elem; cbn [sem_item length]; lia. Qed.

Fixpoint nattrs (i : item) : nat :=
  match i with
  | IElem _ attrs _ body =>
    length attrs +
    match body with
    | None => 0
    | Some (cs, _) => (fix go (l : list item) : nat := match l with [] => 0 | c :: r => nattrs c + go r end) cs
    end
  | _ => 0
  end%nat.
Fixpoint nattrs_items (l : list item) : nat :=
  match l with [] => 0 | c :: r => nattrs c + nattrs_items r end%nat.

Lemma nattrs_elem name attrs ws body :
  nattrs (IElem name attrs ws body) =
  (length attrs + match body with None => 0 | Some (cs, _) => nattrs_items cs end)%nat.
Proof. destruct body as [[cs ws2]|]; reflexivity. Qed.

(* ---- the tagged pre-order list ---- *)
Definition eattrs (attrs : list attr) := map (fun a => (a_name a, a_value a)) attrs.

Fixpoint tag (p id : N) (i : item) : list (N * vnode) :=
  match i with
  | IElem name attrs _ body =>
    match body with
    | None => [(p, VElem name (eattrs attrs) 0)]
    | Some (cs, _) =>
      (p, VElem name (eattrs attrs) (length cs)) ::
      (fix go (id' : N) (l : list item) : list (N * vnode) :=
         match l with [] => [] | c :: r => tag id id' c ++ go (id' + nsize c) r end) (id + 1) cs
    end
  | IText bs => [(p, VText bs)]
  | IComment bs => [(p, VComment bs)]
  | IPI target _ value => [(p, VPI target (match value with [] => None | _ => Some value end))]
  end.
Fixpoint tag_list (p id : N) (l : list item) : list (N * vnode) :=
  match l with [] => [] | c :: r => tag p id c ++ tag_list p (id + nsize c) r end.

Lemma tag_elem p id name attrs ws cs ws2 :
  tag p id (IElem name attrs ws (Some (cs, ws2))) =
  (p, VElem name (eattrs attrs) (length cs)) :: tag_list id (id + 1) cs.
Proof.
  cbn [tag]. f_equal. generalize (id + 1). induction cs as [|c r IH]; intros base; [reflexivity|].
  cbn [tag_list]. f_equal. apply IH.
Qed.

Lemma tag_sem : forall i p id, map snd (tag p id i) = sem_item i.
Proof.
  intros i. induction i as [n a w|n a w cs w2 IH|bs|bs|t s v] using item_ind'; intros p id; try reflexivity.
  rewrite tag_elem, sem_item_elem. cbn [map snd]. f_equal. unfold eattrs.
  generalize (id + 1). induction IH as [|c r Hc _ IHr]; intros base; cbn [tag_list sem_items map]; [reflexivity|].
  rewrite map_app, Hc, IHr. reflexivity.
Qed.

Lemma tag_list_sem : forall l p id, map snd (tag_list p id l) = sem_items l.
Proof.
  induction l as [|c r IH]; intros p id; cbn [tag_list sem_items map]; [reflexivity|].
  rewrite map_app, tag_sem, IH. reflexivity.
Qed.

Lemma tag_len i p id : N.of_nat (length (tag p id i)) = nsize i.
Proof. unfold nsize. rewrite <- (tag_sem i p id), map_length. reflexivity. Qed.

Lemma tag_list_len l p id : N.of_nat (length (tag_list p id l)) = nsizes l.
Proof. unfold nsizes. rewrite <- (tag_list_sem l p id), map_length. reflexivity. Qed.

(* ---- counting the entries with a given parent ---- *)
Definition cnt (q : N) (T : list (N * vnode)) : nat := length (filter (fun e => fst e =? q) T).

Lemma cnt_app q T1 T2 : cnt q (T1 ++ T2) = (cnt q T1 + cnt q T2)%nat.
Proof. unfold cnt. rewrite filter_app, app_length. reflexivity. Qed.

Lemma cnt_cons q e T : cnt q (e :: T) = ((if (fst e =? q)%N then 1 else 0) + cnt q T)%nat.
Proof. unfold cnt. cbn [filter]. destruct (fst e =? q); reflexivity. Qed.

Lemma cnt_zero q T : Forall (fun e => fst e <> q) T -> cnt q T = 0%nat.
Proof.
  induction 1 as [|e T He _ IH]; [reflexivity|]. rewrite cnt_cons, IH.
  replace (fst e =? q) with false by lia. reflexivity.
Qed.

(* the parents occurring in the tagged list of an item *)
Lemma tag_parents : forall i p id,
  Forall (fun e => fst e = p \/ (id <= fst e /\ fst e < id + nsize i)) (tag p id i).
Proof.
  intros i. induction i as [n a w|n a w cs w2 IH|bs|bs|t s v] using item_ind'; intros p id;
    try (constructor; [left; reflexivity|constructor]).
  rewrite tag_elem, nsize_elem. constructor; [left; reflexivity|].
  assert (G : forall base, id < base ->
            Forall (fun e => id <= fst e /\ fst e < base + nsizes cs) (tag_list id base cs)).
  { induction IH as [|c r Hc _ IHr]; intros base Hb; cbn [tag_list]; [constructor|].
    rewrite nsizes_cons. apply Forall_app. split.
    - eapply Forall_impl; [|apply (Hc id base)]. cbv beta. intros e [E|E]; lia.
    - eapply Forall_impl; [|apply (IHr (base + nsize c))]; [cbv beta; intros e E; lia|].
      pose proof (nsize_pos c). lia. }
  eapply Forall_impl; [|apply (G (id + 1))]; [cbv beta; intros e E; right; lia|lia].
Qed.

Lemma tag_list_parents : forall l p id,
  Forall (fun e => fst e = p \/ (id <= fst e /\ fst e < id + nsizes l)) (tag_list p id l).
Proof.
  induction l as [|c r IH]; intros p id; cbn [tag_list]; [constructor|].
  rewrite nsizes_cons. apply Forall_app. split.
  - eapply Forall_impl; [|apply tag_parents]. cbv beta. intros e [E|E]; [left; exact E|right; lia].
  - eapply Forall_impl; [|apply IH]. cbv beta. intros e [E|E]; [left; exact E|right; lia].
Qed.

(* below the ids of the item only the parent itself occurs, once per top-level item *)
Lemma cnt_below_list l p id q : q < id -> cnt q (tag_list p id l) = if q =? p then length l else 0%nat.
Proof.
  intros Hq.
  assert (E : forall T, Forall (fun e => fst e = p \/ (id <= fst e)) T -> q <> p -> cnt q T = 0%nat).
  { intros T HT Hne. apply cnt_zero. eapply Forall_impl; [|exact HT]. cbv beta. intros e [E|E]; lia. }
  revert id Hq E. induction l as [|c r IH]; intros id Hq E; cbn [tag_list length].
  - destruct (q =? p); reflexivity.
  - rewrite cnt_app. rewrite IH.
    + destruct (q =? p) eqn:Eqp.
      * apply N.eqb_eq in Eqp. subst q.
        assert (C1 : cnt p (tag p id c) = 1%nat).
        { destruct c as [n a w [[cs w2]|]| | |]; try (cbn [tag]; rewrite cnt_cons; cbn [fst]; rewrite N.eqb_refl; reflexivity).
          rewrite tag_elem, cnt_cons. cbn [fst]. rewrite N.eqb_refl.
          rewrite cnt_zero; [reflexivity|].
          eapply Forall_impl; [|apply (tag_list_parents cs id (id + 1))]. cbv beta. intros e [E1|E1]; lia. }
        rewrite C1. reflexivity.
      * rewrite cnt_zero; [reflexivity|].
        eapply Forall_impl; [|apply (tag_parents c p id)]. cbv beta. intros e [E1|E1]; lia.
    + pose proof (nsize_pos c). lia.
    + intros T HT Hne. apply cnt_zero. eapply Forall_impl; [|exact HT]. cbv beta. intros e [E1|E1]; lia.
Qed.

Definition vcount (v : vnode) : nat := match v with VElem _ _ m => m | _ => 0%nat end.

Lemma nth_error_app_split {A} (l1 l2 : list A) k x : nth_error (l1 ++ l2) k = Some x ->
  (k < length l1 /\ nth_error l1 k = Some x)%nat \/ (length l1 <= k /\ nth_error l2 (k - length l1) = Some x)%nat.
Proof.
  intros H. destruct (Nat.lt_ge_cases k (length l1)) as [L|L].
  - left. split; [exact L|]. rewrite nth_error_app1 in H by exact L. exact H.
  - right. split; [exact L|]. rewrite nth_error_app2 in H by exact L. exact H.
Qed.

(* the list version, given the statement for every item of the list *)
Lemma tag_counts_list (cs : list item) :
  Forall (fun i => forall p id, p < id -> forall k q v, nth_error (tag p id i) k = Some (q, v) ->
                   vcount v = cnt (id + N.of_nat k) (tag p id i)) cs ->
  forall p base, p < base -> forall k q v, nth_error (tag_list p base cs) k = Some (q, v) ->
  vcount v = cnt (base + N.of_nat k) (tag_list p base cs).
Proof.
  induction 1 as [|c r Hc _ IHr]; intros p base Hb k q v Hk; cbn [tag_list] in *.
  - destruct k; discriminate.
  - rewrite cnt_app. pose proof (tag_len c p base) as Lc.
    apply nth_error_app_split in Hk. destruct Hk as [[L Hk]|[L Hk]].
    + rewrite (Hc p base Hb k q v Hk).
      rewrite cnt_below_list by lia. replace (base + N.of_nat k =? p) with false by lia. lia.
    + rewrite (IHr p (base + nsize c) ltac:(lia) _ q v Hk).
      replace (base + nsize c + N.of_nat (k - length (tag p base c))) with (base + N.of_nat k) by lia.
      rewrite (cnt_zero _ (tag p base c)); [reflexivity|].
      eapply Forall_impl; [|apply (tag_parents c p base)]. cbv beta. intros e [E|E]; lia.
Qed.

Lemma tag_counts : forall i p id, p < id -> forall k q v, nth_error (tag p id i) k = Some (q, v) ->
  vcount v = cnt (id + N.of_nat k) (tag p id i).
Proof.
  intros i. induction i as [n a w|n a w cs w2 IH|bs|bs|t s v0] using item_ind'; intros p id Hp k q v Hk;
    try (destruct k as [|k]; [|destruct k; discriminate]; cbn [tag nth_error] in Hk; injection Hk as <- <-;
         cbn [tag vcount]; rewrite cnt_cons, N.add_0_r; cbn [fst cnt filter length];
         replace (p =? id) with false by lia; reflexivity).
  rewrite tag_elem in *. destruct k as [|k].
  - cbn [nth_error] in Hk. injection Hk as <- <-. cbn [vcount]. rewrite N.add_0_r, cnt_cons. cbn [fst].
    replace (p =? id) with false by lia. rewrite cnt_below_list by lia. rewrite N.eqb_refl. reflexivity.
  - cbn [nth_error] in Hk. rewrite cnt_cons. cbn [fst]. replace (p =? id + N.of_nat (S k)) with false by lia.
    rewrite (tag_counts_list cs IH id (id + 1) ltac:(lia) k q v Hk).
    replace (id + 1 + N.of_nat k) with (id + N.of_nat (S k)) by lia. reflexivity.
Qed.

Lemma tag_list_counts l p base : p < base -> forall k q v, nth_error (tag_list p base l) k = Some (q, v) ->
  vcount v = cnt (base + N.of_nat k) (tag_list p base l).
Proof.
  apply tag_counts_list. apply Forall_forall. intros i _. apply tag_counts.
Qed.

(* ---- shapes of renderings ---- *)
Lemma nontext_starts i : is_text i = false -> exists l, r_item i = 60 :: l.
Proof.
  destruct i as [n a w b| | |]; intros H; try discriminate.
  - rewrite r_item_elem. eexists. reflexivity.
  - eexists. reflexivity.
  - eexists. reflexivity.
Qed.

Print Assumptions tag_list_counts.
