(* Proofs/BorrowTokenizer.v -- C18, part 2: every token the tokenizer hands to its callback
   carries only sub-slices of the input, whatever the callback and whatever the stream the
   tokenizer is started on (a stream over an entity value included). *)
From Coq Require Import List NArith Bool Lia ZifyBool ZifyN.
Import ListNotations.
From RX Require Import Generated.
From RX.Model Require Import Base CharClass Stream Tokenizer.
From RX.Proofs Require Import Tactics BorrowLocal.
Open Scope N_scope.

Section Tok.
Variable text : bytes.
Variable C : Type.
Variable ev : token -> C -> res C.
Variable P : C -> Prop.
Hypothesis Hev : forall tok c0 c1, token_ok text tok -> P c0 -> ev tok c0 = Ok c1 -> P c1.

Notation stream := Stream.stream.
Notation V := (valid_slice text).

Lemma ev_okP tok c : token_ok text tok -> P c -> okP (ev tok c) P.
Proof. intros Ht Hc c1 H. exact (Hev tok c c1 Ht Hc H). Qed.

(* postconditions *)
Definition PS (r : stream * C) : Prop := P (snd r).
Definition PE (r : bool * stream * C) : Prop := P (snd r).

Ltac fin := cbn [fst snd token_ok PS PE] in *;
  repeat match goal with |- context [if ?b then _ else _] => destruct b end;
  intuition auto.

Ltac tspec :=
  first [ apply slice_back_okP | apply mk_slice_okP
        | apply consume_bytes_okP | apply consume_chars_okP
        | apply consume_name_okP | apply consume_qname_okP
        | apply ev_okP; [fin | fin] ].

Ltac go := repeat ok_step tspec; fin.

Lemma parse_comment_ok s c : P c -> okP (parse_comment text C ev s c) PS.
Proof. intros Hc. unfold parse_comment. go. Qed.

Lemma parse_pi_ok s c : P c -> okP (parse_pi text C ev s c) PS.
Proof. intros Hc. unfold parse_pi. go. Qed.

Lemma parse_misc_loop_ok : forall fuel s c, P c -> okP (parse_misc_loop text C ev fuel s c) PS.
Proof.
  induction fuel as [|fu IH]; intros s c Hc; cbn [parse_misc_loop]; [apply okP_fuel|].
  repeat ok_step ltac:(first [ apply parse_comment_ok; fin | apply parse_pi_ok; fin
                             | apply IH; fin ]); fin.
Qed.

Lemma parse_misc_ok s c : P c -> okP (parse_misc text C ev s c) PS.
Proof. apply parse_misc_loop_ok. Qed.

Lemma parse_entity_def_ok s is_ge :
  okP (parse_entity_def text s is_ge)
      (fun r => match fst r with Some v => V v | None => True end).
Proof. unfold parse_entity_def. go. Qed.

Lemma parse_entity_decl_ok s c : P c -> okP (parse_entity_decl text C ev s c) PS.
Proof.
  intros Hc. unfold parse_entity_decl.
  repeat ok_step ltac:(first [ apply parse_entity_def_ok | tspec ]); fin.
Qed.

Lemma parse_doctype_loop_ok : forall fuel start s c, P c ->
  okP (parse_doctype_loop text C ev fuel start s c) PS.
Proof.
  induction fuel as [|fu IH]; intros start s c Hc; cbn [parse_doctype_loop]; [apply okP_fuel|].
  repeat ok_step ltac:(first [ apply parse_comment_ok; fin | apply parse_pi_ok; fin
                             | apply parse_entity_decl_ok; fin
                             | apply IH; fin ]); fin.
Qed.

Lemma parse_doctype_ok s c : P c -> okP (parse_doctype text C ev s c) PS.
Proof.
  intros Hc. unfold parse_doctype.
  repeat ok_step ltac:(first [ apply parse_doctype_loop_ok; fin ]); fin.
Qed.

Lemma parse_element_loop_ok : forall fuel tag_start s c, P c ->
  okP (parse_element_loop text C ev fuel tag_start s c) PE.
Proof.
  induction fuel as [|fu IH]; intros tag_start s c Hc; cbn [parse_element_loop]; [apply okP_fuel|].
  repeat ok_step ltac:(first [ apply IH; fin | tspec ]); fin.
Qed.

Lemma parse_element_ok s c : P c -> okP (parse_element text C ev s c) PE.
Proof.
  intros Hc. unfold parse_element.
  repeat ok_step ltac:(first [ apply parse_element_loop_ok; fin | tspec ]); fin.
Qed.

Lemma parse_cdata_ok s c : P c -> okP (parse_cdata text C ev s c) PS.
Proof. intros Hc. unfold parse_cdata. go. Qed.

Lemma parse_close_element_ok s c : P c -> okP (parse_close_element text C ev s c) PS.
Proof. intros Hc. unfold parse_close_element. go. Qed.

Lemma parse_text_ok s c : P c -> okP (parse_text text C ev s c) PS.
Proof. intros Hc. unfold parse_text. go. Qed.

Lemma parse_content_loop_ok : forall fuel depth s c, P c ->
  okP (parse_content_loop text C ev fuel depth s c) PS.
Proof.
  induction fuel as [|fu IH]; intros depth s c Hc; cbn [parse_content_loop]; [apply okP_fuel|].
  repeat ok_step ltac:(first [ apply parse_comment_ok; fin | apply parse_pi_ok; fin
                             | apply parse_cdata_ok; fin | apply parse_close_element_ok; fin
                             | apply parse_element_ok; fin | apply parse_text_ok; fin
                             | apply IH; fin ]); fin.
Qed.

(* the entry point used on entity values *)
Lemma parse_content_ok s c : P c -> okP (parse_content text C ev s c) PS.
Proof. apply parse_content_loop_ok. Qed.

Lemma parse_document_ok dtd c : P c -> okP (parse_document text C ev dtd c) P.
Proof.
  intros Hc. unfold parse_document.
  repeat ok_step ltac:(first [ apply parse_misc_ok; fin | apply parse_doctype_ok; fin
                             | apply parse_element_ok; fin | apply parse_content_ok; fin ]); fin.
Qed.

End Tok.

(* the tokenizer delivers only tokens whose strings are slices of the input, whatever the callback *)
Theorem tokenizer_tokens_ok : forall text (C : Type) (ev : token -> C -> res C) (P : C -> Prop) dtd c c',
  (forall tok c0 c1, token_ok text tok -> P c0 -> ev tok c0 = Ok c1 -> P c1) ->
  P c -> parse_document text C ev dtd c = Ok c' -> P c'.
Proof.
  intros text C ev P dtd c c' Hev Hc H.
  exact (parse_document_ok text C ev P Hev dtd c Hc c' H).
Qed.
Print Assumptions tokenizer_tokens_ok.

(* the same for the entry point the builder uses on the value of an entity *)
Theorem tokenizer_content_tokens_ok : forall text (C : Type) (ev : token -> C -> res C) (P : C -> Prop) s c s' c',
  (forall tok c0 c1, token_ok text tok -> P c0 -> ev tok c0 = Ok c1 -> P c1) ->
  P c -> parse_content text C ev s c = Ok (s', c') -> P c'.
Proof.
  intros text C ev P s c s' c' Hev Hc H.
  exact (parse_content_ok text C ev P Hev s c Hc (s', c') H).
Qed.
Print Assumptions tokenizer_content_tokens_ok.
