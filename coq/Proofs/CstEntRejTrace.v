(* Proofs/CstEntRejTrace.v -- C09 on whole documents, the declaration graph (no parser).
   The names a document / a value refers to directly ([refs_*]), reference paths in the graph of the FIRST
   declarations ([rpath], [reach], [on_cycle]) and the number of expansions below a reference ([nested]) are defined on
   the abstract syntax of Spec/CstEnt.v; the trace of the 12-level unfolding (Proofs/CstEntRejSem.v) of a
   body from which a path of 11 names starts -- in particular a path into a cycle -- or that refers to a name with more
   than 255 expansions below it is outside the limits of Spec/Detector.v. *)
From Coq Require Import List NArith PeanoNat Bool Lia ZifyBool ZifyN ZifyNat.
Import ListNotations.
From RX Require Import Generated.
From RX.Model Require Import Base Stream Builder Parse.
From RX.Spec Require Cst CstText CstEnt Chars Detector.
From RX.Spec Require Import Text.
From RX.Proofs Require Import DetectorProofs CstTextSem CstTextItems CstEntSem CstEntText CstEntAttr CstEntMeaning CstEntInline CstEntItems.
From RX.Proofs Require Import CstEntRejSem.
Open Scope N_scope.

(* ------------------------------------------------------------------------------------------ *)
(* the names referred to directly                                                             *)
(* ------------------------------------------------------------------------------------------ *)
Definition refs_ps (ps : list E.epiece) : list bytes :=
  flat_map (fun p => match p with E.ERef n => [n] | E.EP _ => [] end) ps.

Definition refs_attrs (l : list E.attr) : list bytes := flat_map (fun a => refs_ps (E.a_value a)) l.

Fixpoint refs_item (i : E.item) : list bytes :=
  match i with
  | E.IElem _ attrs _ body =>
    refs_attrs attrs ++
    match body with
    | Some (cs, _) => (fix go (l : list E.item) : list bytes := match l with [] => [] | c :: r => refs_item c ++ go r end) cs
    | None => []
    end
  | E.IText ps => refs_ps ps
  | _ => []
  end.

Definition refs_items (l : list E.item) : list bytes := flat_map refs_item l.

Definition refs_value (v : E.evalue) : list bytes :=
  match v with E.EText ps => refs_ps ps | E.EContent its => refs_items its end.

Lemma refs_item_elem name attrs ws body :
  refs_item (E.IElem name attrs ws body) =
  refs_attrs attrs ++ match body with Some (cs, _) => refs_items cs | None => [] end.
Proof.
  destruct body as [[cs ws2]|]; [|reflexivity]. cbn [refs_item]. reflexivity.
Qed.

(* ------------------------------------------------------------------------------------------ *)
(* the expansion of a name referred to directly is a well-nested part of the trace            *)
(* ------------------------------------------------------------------------------------------ *)
Section Occ.
Variable tb : E.table.
Hypothesis Htb : BalT tb.

Definition Occ (n : bytes) (tr : list Detector.lop) : Prop :=
  exists v a b0, E.lookup tb n = Some v /\ Bal a /\
                 tr = a ++ Detector.Enter :: E.x_trace v ++ Detector.Exit :: b0.

Lemma Occ_app_l n t1 t2 : Occ n t1 -> Occ n (t1 ++ t2).
Proof.
  intros (v & a & b0 & Hl & Ha & ->). exists v, a, (b0 ++ t2). split; [exact Hl|]. split; [exact Ha|].
  rewrite <- app_assoc. cbn [app]. rewrite <- app_assoc. reflexivity.
Qed.

Lemma Occ_app_r n t1 t2 : Bal t1 -> Occ n t2 -> Occ n (t1 ++ t2).
Proof.
  intros H1 (v & a & b0 & Hl & Ha & ->). exists v, (t1 ++ a), b0. split; [exact Hl|]. split; [apply Bal_app; assumption|].
  rewrite <- app_assoc. reflexivity.
Qed.

Lemma Occ_ent n t r : Bal t -> Occ n r -> Occ n (Detector.Enter :: t ++ Detector.Exit :: r).
Proof.
  intros H1 (v & a & b0 & Hl & Ha & ->). exists v, (Detector.Enter :: t ++ Detector.Exit :: a), b0.
  split; [exact Hl|]. split; [apply Bal_ent; assumption|].
  cbn [app]. rewrite <- app_assoc. reflexivity.
Qed.

Lemma Occ_here n v r : E.lookup tb n = Some v -> Occ n (Detector.Enter :: E.x_trace v ++ Detector.Exit :: r).
Proof. intros Hl. exists v, [], r. split; [exact Hl|]. split; [constructor|reflexivity]. Qed.

Lemma occ_ps n fa ie : forall ps q tr, E.inline_ps tb fa ie ps = Some (q, tr) -> In n (refs_ps ps) -> Occ n tr.
Proof.
  induction ps as [|p ps IH]; intros q tr H Hin; [destruct Hin|]. cbn [E.inline_ps] in H. destruct p as [p|m].
  - destruct (fa && ie && E.is_lt_ref p); [discriminate|].
    destruct (E.inline_ps tb fa ie ps) as [[q' tr']|] eqn:Er; [|discriminate]. cbn [E.obind fst snd] in H.
    injection H as _ <-. apply (IH _ _ eq_refl). exact Hin.
  - destruct (E.lookup tb m) as [v|] eqn:El; [|discriminate]. cbn [E.obind] in H.
    destruct (E.x_pieces v) as [qv|]; [|discriminate]. cbn [E.obind] in H.
    destruct (fa && existsb E.is_lt_ref qv); [discriminate|].
    destruct (E.inline_ps tb fa ie ps) as [[q' tr']|] eqn:Er; [|discriminate]. cbn [E.obind fst snd] in H.
    injection H as _ <-. cbn [refs_ps flat_map app In] in Hin. destruct Hin as [<-|Hin].
    + apply Occ_here. exact El.
    + apply Occ_ent; [apply (Htb _ _ El)|]. apply (IH _ _ eq_refl). exact Hin.
Qed.

Lemma occ_run n ie : forall ps its tr, E.inline_run tb ie ps = Some (its, tr) -> In n (refs_ps ps) -> Occ n tr.
Proof.
  induction ps as [|p ps IH]; intros its tr H Hin; [destruct Hin|]. cbn [E.inline_run] in H. destruct p as [p|m].
  - destruct (E.inline_run tb ie ps) as [[q' tr']|] eqn:Er; [|discriminate]. cbn [E.obind fst snd] in H.
    injection H as _ <-. apply (IH _ _ eq_refl). exact Hin.
  - destruct (E.lookup tb m) as [v|] eqn:El; [|discriminate]. cbn [E.obind] in H.
    destruct (E.inline_run tb ie ps) as [[q' tr']|] eqn:Er; [|discriminate]. cbn [E.obind fst snd] in H.
    injection H as _ <-. cbn [refs_ps flat_map app In] in Hin. destruct Hin as [<-|Hin].
    + apply Occ_here. exact El.
    + apply Occ_ent; [apply (Htb _ _ El)|]. apply (IH _ _ eq_refl). exact Hin.
Qed.

Lemma occ_attrs n ie : forall attrs a' tr, E.inline_attrs tb ie attrs = Some (a', tr) -> In n (refs_attrs attrs) -> Occ n tr.
Proof.
  induction attrs as [|a r IH]; intros a' tr H Hin; [destruct Hin|]. cbn [E.inline_attrs] in H.
  unfold E.inline_attr in H. destruct (E.inline_ps tb true ie (E.a_value a)) as [[qv tra]|] eqn:Ea; [|discriminate].
  cbn [E.obind fst snd] in H. destruct (E.inline_attrs tb ie r) as [[ar trr]|] eqn:Er; [|discriminate].
  cbn [E.obind fst snd] in H. injection H as _ <-.
  cbn [refs_attrs flat_map] in Hin. apply in_app_or in Hin. destruct Hin as [Hin|Hin].
  - apply Occ_app_l. apply (occ_ps _ _ _ _ _ _ Ea Hin).
  - apply Occ_app_r; [apply (bal_ps tb Htb _ _ _ _ _ Ea)|]. apply (IH _ _ eq_refl). exact Hin.
Qed.

Lemma occ_items_of n ie cs :
  Forall (fun i => forall its tr, E.inline_item tb ie i = Some (its, tr) -> In n (refs_item i) -> Occ n tr) cs ->
  forall its tr, E.inline_items tb ie cs = Some (its, tr) -> In n (refs_items cs) -> Occ n tr.
Proof.
  induction 1 as [|i r Hi _ IH]; intros its tr H Hin; [destruct Hin|]. cbn [E.inline_items] in H.
  destruct (E.inline_item tb ie i) as [[its1 tr1]|] eqn:Ei; [|discriminate]. cbn [E.obind fst snd] in H.
  destruct (E.inline_items tb ie r) as [[its2 tr2]|] eqn:Er; [|discriminate]. cbn [E.obind fst snd] in H.
  injection H as _ <-. cbn [refs_items flat_map] in Hin. apply in_app_or in Hin. destruct Hin as [Hin|Hin].
  - apply Occ_app_l. apply (Hi _ _ eq_refl Hin).
  - apply Occ_app_r; [apply (bal_item tb Htb _ _ _ _ Ei)|]. apply (IH _ _ eq_refl). exact Hin.
Qed.

Lemma occ_item n ie : forall i its tr, E.inline_item tb ie i = Some (its, tr) -> In n (refs_item i) -> Occ n tr.
Proof.
  intros i. induction i as [nm a w|nm a w cs w2 IHc|ps|bs|t s v] using eitem_ind; intros its tr H Hin.
  - rewrite inline_elem in H. destruct (E.inline_attrs tb ie a) as [[a' ta]|] eqn:Ea; [|discriminate].
    cbn [E.obind fst snd] in H. injection H as _ <-. rewrite refs_item_elem, app_nil_r in Hin.
    apply (occ_attrs _ _ _ _ _ Ea Hin).
  - rewrite inline_elem in H. destruct (E.inline_attrs tb ie a) as [[a' ta]|] eqn:Ea; [|discriminate].
    cbn [E.obind fst snd] in H. destruct (E.inline_items tb ie cs) as [[b0 tb0]|] eqn:Ec; [|discriminate].
    cbn [E.obind fst snd] in H. injection H as _ <-. rewrite refs_item_elem in Hin.
    apply in_app_or in Hin. destruct Hin as [Hin|Hin].
    + apply Occ_app_l. apply (occ_attrs _ _ _ _ _ Ea Hin).
    + apply Occ_app_r; [apply (bal_attrs tb Htb _ _ _ _ Ea)|]. apply (occ_items_of n ie cs IHc _ _ Ec Hin).
  - cbn [E.inline_item] in H. apply (occ_run _ _ _ _ _ H Hin).
  - destruct Hin.
  - destruct Hin.
Qed.

Lemma occ_items n ie cs its tr : E.inline_items tb ie cs = Some (its, tr) -> In n (refs_items cs) -> Occ n tr.
Proof. apply occ_items_of. apply Forall_forall. intros i _. apply occ_item. Qed.

Lemma occ_value n v x : E.inline_value tb v = Some x -> In n (refs_value v) -> Occ n (E.x_trace x).
Proof.
  destruct v as [ps|its]; cbn [E.inline_value refs_value]; intros H Hin.
  - destruct (E.inline_ps tb false true ps) as [[q tr]|] eqn:Ei; [|discriminate]. cbn [E.obind fst snd] in H.
    injection H as <-. apply (occ_ps _ _ _ _ _ _ Ei Hin).
  - destruct (E.inline_items tb true its) as [[it tr]|] eqn:Ei; [|discriminate]. cbn [E.obind fst snd] in H.
    injection H as <-. apply (occ_items _ _ _ _ _ Ei Hin).
Qed.

(* ---- the trace reaches a depth ---- *)
Definition peak (tr : list Detector.lop) (L : nat) : Prop :=
  exists pre suf, tr = pre ++ suf /\ forall d, Detector.depth_after d pre = Some (d + N.of_nat L).

Lemma peak_0 tr : peak tr 0.
Proof. exists [], tr. split; [reflexivity|]. intros d. cbn. f_equal. lia. Qed.

Lemma peak_occ n tr L : Occ n tr -> (forall v, E.lookup tb n = Some v -> peak (E.x_trace v) L) -> peak tr (S L).
Proof.
  intros (v & a & b0 & Hl & Ha & ->) Hp. destruct (Hp v Hl) as (pre & suf & Ev & Hd).
  exists (a ++ Detector.Enter :: pre), (suf ++ Detector.Exit :: b0). split.
  - rewrite Ev, <- !app_assoc. reflexivity.
  - intros d. rewrite depth_after_app, (Bal_depth a Ha). cbn [Detector.depth_after]. rewrite Hd. f_equal. lia.
Qed.

(* ---- the number of expansions ---- *)
Definition cE (tr : list Detector.lop) : nat := count_occ lop_eq_dec tr Detector.Enter.

Lemma cE_app a b0 : cE (a ++ b0) = (cE a + cE b0)%nat.
Proof. apply count_occ_app. Qed.

Lemma cE_ent t r : cE (Detector.Enter :: t ++ Detector.Exit :: r) = S (cE t + cE r).
Proof.
  unfold cE. rewrite count_occ_cons_eq by reflexivity. rewrite count_occ_app.
  rewrite count_occ_cons_neq by discriminate. reflexivity.
Qed.

Definition cnt (n : bytes) : nat := match E.lookup tb n with Some v => cE (E.x_trace v) | None => 0%nat end.
Definition wsum (l : list bytes) : nat := list_sum (map (fun n => S (cnt n)) l).

Lemma wsum_app a b0 : wsum (a ++ b0) = (wsum a + wsum b0)%nat.
Proof. unfold wsum. rewrite map_app, list_sum_app. reflexivity. Qed.

Lemma count_ps fa ie : forall ps q tr, E.inline_ps tb fa ie ps = Some (q, tr) -> cE tr = wsum (refs_ps ps).
Proof.
  induction ps as [|p ps IH]; intros q tr H; cbn [E.inline_ps] in H.
  - injection H as _ <-. reflexivity.
  - destruct p as [p|m].
    + destruct (fa && ie && E.is_lt_ref p); [discriminate|].
      destruct (E.inline_ps tb fa ie ps) as [[q' tr']|] eqn:Er; [|discriminate]. cbn [E.obind fst snd] in H.
      injection H as _ <-. apply (IH _ _ eq_refl).
    + destruct (E.lookup tb m) as [v|] eqn:El; [|discriminate]. cbn [E.obind] in H.
      destruct (E.x_pieces v) as [qv|]; [|discriminate]. cbn [E.obind] in H.
      destruct (fa && existsb E.is_lt_ref qv); [discriminate|].
      destruct (E.inline_ps tb fa ie ps) as [[q' tr']|] eqn:Er; [|discriminate]. cbn [E.obind fst snd] in H.
      injection H as _ <-. rewrite cE_ent, (IH _ _ eq_refl).
      cbn [refs_ps flat_map app]. unfold wsum at 2. cbn [map list_sum]. unfold cnt at 1. rewrite El. reflexivity.
Qed.

Lemma count_run ie : forall ps its tr, E.inline_run tb ie ps = Some (its, tr) -> cE tr = wsum (refs_ps ps).
Proof.
  induction ps as [|p ps IH]; intros its tr H; cbn [E.inline_run] in H.
  - injection H as _ <-. reflexivity.
  - destruct p as [p|m].
    + destruct (E.inline_run tb ie ps) as [[q' tr']|] eqn:Er; [|discriminate]. cbn [E.obind fst snd] in H.
      injection H as _ <-. apply (IH _ _ eq_refl).
    + destruct (E.lookup tb m) as [v|] eqn:El; [|discriminate]. cbn [E.obind] in H.
      destruct (E.inline_run tb ie ps) as [[q' tr']|] eqn:Er; [|discriminate]. cbn [E.obind fst snd] in H.
      injection H as _ <-. rewrite cE_ent, (IH _ _ eq_refl).
      cbn [refs_ps flat_map app]. unfold wsum at 2. cbn [map list_sum]. unfold cnt at 1. rewrite El. reflexivity.
Qed.

Lemma count_attrs ie : forall attrs a' tr, E.inline_attrs tb ie attrs = Some (a', tr) -> cE tr = wsum (refs_attrs attrs).
Proof.
  induction attrs as [|a r IH]; intros a' tr H; cbn [E.inline_attrs] in H.
  - injection H as _ <-. reflexivity.
  - unfold E.inline_attr in H. destruct (E.inline_ps tb true ie (E.a_value a)) as [[qv tra]|] eqn:Ea; [|discriminate].
    cbn [E.obind fst snd] in H. destruct (E.inline_attrs tb ie r) as [[ar trr]|] eqn:Er; [|discriminate].
    cbn [E.obind fst snd] in H. injection H as _ <-.
    cbn [refs_attrs flat_map]. rewrite cE_app, wsum_app, (count_ps _ _ _ _ _ Ea), (IH _ _ eq_refl). reflexivity.
Qed.

Lemma count_items_of ie cs :
  Forall (fun i => forall its tr, E.inline_item tb ie i = Some (its, tr) -> cE tr = wsum (refs_item i)) cs ->
  forall its tr, E.inline_items tb ie cs = Some (its, tr) -> cE tr = wsum (refs_items cs).
Proof.
  induction 1 as [|i r Hi _ IH]; intros its tr H; cbn [E.inline_items] in H.
  - injection H as _ <-. reflexivity.
  - destruct (E.inline_item tb ie i) as [[its1 tr1]|] eqn:Ei; [|discriminate]. cbn [E.obind fst snd] in H.
    destruct (E.inline_items tb ie r) as [[its2 tr2]|] eqn:Er; [|discriminate]. cbn [E.obind fst snd] in H.
    injection H as _ <-. cbn [refs_items flat_map]. rewrite cE_app, wsum_app, (Hi _ _ eq_refl), (IH _ _ eq_refl). reflexivity.
Qed.

Lemma count_item ie : forall i its tr, E.inline_item tb ie i = Some (its, tr) -> cE tr = wsum (refs_item i).
Proof.
  intros i. induction i as [nm a w|nm a w cs w2 IHc|ps|bs|t s v] using eitem_ind; intros its tr H.
  - rewrite inline_elem in H. destruct (E.inline_attrs tb ie a) as [[a' ta]|] eqn:Ea; [|discriminate].
    cbn [E.obind fst snd] in H. injection H as _ <-. rewrite refs_item_elem, app_nil_r. apply (count_attrs _ _ _ _ Ea).
  - rewrite inline_elem in H. destruct (E.inline_attrs tb ie a) as [[a' ta]|] eqn:Ea; [|discriminate].
    cbn [E.obind fst snd] in H. destruct (E.inline_items tb ie cs) as [[b0 tb0]|] eqn:Ec; [|discriminate].
    cbn [E.obind fst snd] in H. injection H as _ <-. rewrite refs_item_elem, cE_app, wsum_app.
    rewrite (count_attrs _ _ _ _ Ea), (count_items_of ie cs IHc _ _ Ec). reflexivity.
  - cbn [E.inline_item] in H. apply (count_run _ _ _ _ H).
  - cbn [E.inline_item] in H. injection H as _ <-. reflexivity.
  - cbn [E.inline_item] in H. injection H as _ <-. reflexivity.
Qed.

Lemma count_items ie cs its tr : E.inline_items tb ie cs = Some (its, tr) -> cE tr = wsum (refs_items cs).
Proof. apply count_items_of. apply Forall_forall. intros i _. apply count_item. Qed.

Lemma count_value v x : E.inline_value tb v = Some x -> cE (E.x_trace x) = wsum (refs_value v).
Proof.
  destruct v as [ps|its]; cbn [E.inline_value refs_value]; intros H.
  - destruct (E.inline_ps tb false true ps) as [[q tr]|] eqn:Ei; [|discriminate]. cbn [E.obind fst snd] in H.
    injection H as <-. apply (count_ps _ _ _ _ _ Ei).
  - destruct (E.inline_items tb true its) as [[it tr]|] eqn:Ei; [|discriminate]. cbn [E.obind fst snd] in H.
    injection H as <-. apply (count_items _ _ _ _ Ei).
Qed.

End Occ.

(* the prefixes of a well-nested trace do not go below the depth at which it starts *)
Lemma Bal_prefix tr : Bal tr -> forall p q d, tr = p ++ q -> exists d', Detector.depth_after d p = Some d' /\ d <= d'.
Proof.
  induction 1 as [|a b0 Ha IHa Hb IHb|t r Ht IHt Hr IHr]; intros p q d E.
  - symmetry in E. apply app_eq_nil in E. destruct E as [-> _]. exists d. split; [reflexivity|lia].
  - symmetry in E. apply app_eq_app in E. destruct E as [l [[-> E2]|[E1 E2]]].
    + rewrite depth_after_app, (Bal_depth a Ha). apply (IHb l q d E2).
    + apply (IHa p l d E1).
  - destruct p as [|x p].
    + exists d. split; [reflexivity|lia].
    + cbn [app] in E. injection E as <- E. cbn [Detector.depth_after].
      symmetry in E. apply app_eq_app in E. destruct E as [l [[-> E2]|[E1 E2]]].
      * rewrite depth_after_app, (Bal_depth t Ht). destruct l as [|y l].
        -- exists (d + 1). split; [reflexivity|lia].
        -- cbn [app] in E2. injection E2 as <- E2. cbn [Detector.depth_after].
           replace (d + 1 =? 0) with false by lia. replace (d + 1 - 1) with d by lia. apply (IHr l q d E2).
      * destruct (IHt p l (d + 1) E1) as (d' & Hd & Hle). exists d'. split; [exact Hd|lia].
Qed.

(* ------------------------------------------------------------------------------------------ *)
(* the graph of the first declarations                                                        *)
(* ------------------------------------------------------------------------------------------ *)
Section Graph.
Variable decls : list E.edecl.

(* the value of the (first) declaration of n refers to n' *)
Definition edge (n n' : bytes) : Prop :=
  exists d, first_decl decls n = Some d /\ In n' (refs_value (E.e_value d)).

(* n heads a reference path of L names: n = n1 -> n2 -> ... -> nL *)
Inductive rpath : bytes -> nat -> Prop :=
| rpath_one : forall n, rpath n 1
| rpath_S : forall n n' L, edge n n' -> rpath n' L -> rpath n (S L).

Inductive reach : bytes -> bytes -> Prop :=
| reach_refl : forall n, reach n n
| reach_step : forall n m p, edge n m -> reach m p -> reach n p.

(* m refers to itself, directly or not *)
Definition on_cycle (m : bytes) : Prop := exists m', edge m m' /\ reach m' m.

Lemma rpath_pos n L : rpath n L -> (1 <= L)%nat.
Proof. induction 1; lia. Qed.

Lemma rpath_le n L : rpath n L -> forall L', (1 <= L')%nat -> (L' <= L)%nat -> rpath n L'.
Proof.
  induction 1 as [n|n n' L He Hp IH]; intros L' H1 H2.
  - replace L' with 1%nat by lia. constructor.
  - destruct L' as [|[|L']]; [lia|constructor|].
    apply (rpath_S n n' (S L') He). apply IH; lia.
Qed.

Lemma rpath_reach a c : reach a c -> forall L, rpath c L -> exists L', (L <= L')%nat /\ rpath a L'.
Proof.
  induction 1 as [n|n m p He _ IH]; intros L Hp.
  - exists L. split; [lia|exact Hp].
  - destruct (IH L Hp) as (L' & Hle & Hp'). exists (S L'). split; [lia|]. apply (rpath_S n m L' He Hp').
Qed.

Lemma cycle_paths m : on_cycle m -> forall L, exists L', (L <= L')%nat /\ rpath m L'.
Proof.
  intros (m' & He & Hr). induction L as [|L IH].
  - exists 1%nat. split; [lia|constructor].
  - destruct IH as (L' & Hle & Hp). destruct (rpath_reach m' m Hr L' Hp) as (L2 & Hle2 & Hp2).
    exists (S L2). split; [lia|]. apply (rpath_S m m' L2 He Hp2).
Qed.

Lemma cycle_rpath n m L : reach n m -> on_cycle m -> (1 <= L)%nat -> rpath n L.
Proof.
  intros Hr Hc HL. destruct (cycle_paths m Hc L) as (L1 & H1 & Hp1).
  destruct (rpath_reach n m Hr L1 Hp1) as (L2 & H2 & Hp2). apply (rpath_le n L2 Hp2); lia.
Qed.

(* the expansion of a name at the head of a path of L names reaches depth L - 1 *)
Lemma peak_rpath n L : rpath n L ->
  forall k v, (L <= S k)%nat -> E.lookup (glevel decls k) n = Some v -> peak (E.x_trace v) (L - 1).
Proof.
  induction 1 as [n|n n' L (d & Hfd & Hin) Hp IH]; intros k v Hk Hl.
  - apply peak_0.
  - pose proof (rpath_pos _ _ Hp) as HL. destruct k as [|k]; [lia|].
    rewrite lookup_glevel, Hfd in Hl.
    pose proof (occ_value (glevel decls k) (balT_glevel decls k) n' _ _ Hl Hin) as HO.
    replace (S L - 1)%nat with (S (L - 1)) by lia.
    apply (peak_occ (glevel decls k) n' _ _ HO). intros v' Hl'. apply (IH k v' ltac:(lia) Hl').
Qed.

(* the number of expansions below a reference to n, k levels down *)
Fixpoint nested (k : nat) (n : bytes) : nat :=
  match k with
  | O => 0%nat
  | S k' =>
    match first_decl decls n with
    | Some d => list_sum (map (fun n' => S (nested k' n')) (refs_value (E.e_value d)))
    | None => 0%nat
    end
  end.

Lemma nested_glevel : forall k n v, E.lookup (glevel decls k) n = Some v -> cE (E.x_trace v) = nested k n.
Proof.
  induction k as [|k IH]; intros n v Hl; rewrite lookup_glevel in Hl; cbn [nested];
    destruct (first_decl decls n) as [d|]; try discriminate.
  - injection Hl as <-. destruct (E.e_value d); reflexivity.
  - rewrite (count_value (glevel decls k) _ _ Hl). unfold wsum. f_equal. apply map_ext_in. intros n' Hin.
    destruct (occ_value (glevel decls k) (balT_glevel decls k) n' _ _ Hl Hin) as (v' & _ & _ & Hl' & _).
    unfold cnt. rewrite Hl'. f_equal. apply (IH _ _ Hl').
Qed.

(* ---- the trace of a body ---- *)
Theorem deep_limits root its tr n L :
  E.inline_item (glevel decls glevels) false root = Some (its, tr) ->
  In n (refs_item root) -> rpath n L -> (11 <= L)%nat ->
  Detector.within_limits 10 255 0 0 tr = false.
Proof.
  intros Hin Hn Hp HL. pose proof (rpath_le n L Hp 11 ltac:(lia) HL) as Hp'.
  pose proof (occ_item _ (balT_glevel decls glevels) n false _ _ _ Hin Hn) as HO.
  assert (Hpk : peak tr 11).
  { apply (peak_occ _ n _ _ HO). intros v Hl. apply (peak_rpath n 11 Hp' glevels v ltac:(unfold glevels; lia) Hl). }
  destruct Hpk as (pre & suf & Etr & Hd).
  destruct (Detector.within_limits 10 255 0 0 tr) eqn:Hw; [|reflexivity].
  destruct (limits_bound_depth 10 255 tr pre suf Hw Etr) as (d & Hd' & Hle). rewrite Hd in Hd'. injection Hd' as <-. lia.
Qed.

Theorem budget_limits root its tr n :
  E.inline_item (glevel decls glevels) false root = Some (its, tr) ->
  In n (refs_item root) -> (255 < nested glevels n)%nat ->
  Detector.within_limits 10 255 0 0 tr = false.
Proof.
  intros Hin Hn Hc.
  destruct (occ_item _ (balT_glevel decls glevels) n false _ _ _ Hin Hn) as (v & a & b0 & Hl & Ha & ->).
  destruct (Detector.within_limits 10 255 0 0 (a ++ Detector.Enter :: E.x_trace v ++ Detector.Exit :: b0)) eqn:Hw; [|reflexivity].
  pose proof (limits_bound_nested 10 255 a (E.x_trace v) (Detector.Exit :: b0) Hw (Bal_depth a Ha 0)) as X.
  assert (Hpre : forall p q, E.x_trace v = p ++ q -> exists d, Detector.depth_after 1 p = Some d /\ 1 <= d).
  { intros p q E. apply (Bal_prefix _ (balT_glevel decls glevels n v Hl) p q 1 E). }
  specialize (X Hpre). unfold count_enter in X. fold (cE (E.x_trace v)) in X. rewrite (nested_glevel _ _ _ Hl) in X. lia.
Qed.

End Graph.

Print Assumptions deep_limits.
Print Assumptions budget_limits.
