(* Proofs/CstSound6uEmb.v -- CstFullS6Embed5.v (section Items) for a declaration list that also contains
   markup-valued entities: the body, well-formed for [ents_meaning] on the table E.level (map pd xds), is
   well-formed for the inlining of Spec/CstFullS4.v on the table level xds (a reference whose value and run
   are well-formed never resolves to a markup declaration).  Original header: A document of
   Spec/CstFullS5.v, whose entities are character data and whose meaning is defined value by value and run by run
   ([ents_meaning]: Spec/CstEnt.v [E.inline_ps] on the table [E.level]), is -- with its general entity declarations
   read as declarations of Spec/CstFullS4.v -- a well-formed document of Spec/CstFullS6.v with the same rendering and
   the same meaning: inlining the whole body item by item (Spec/CstFullS4.v) does to every value and every run what
   [E.inline_ps] does, the runs of one element stay apart, and the limits / provisos / namespace conditions asked of
   each value and run separately are those asked of the inlined body.  No parser is involved. *)
From Coq Require Import Ascii String.
From Coq Require Import List NArith PeanoNat Bool Lia ZifyBool ZifyN ZifyNat.
Import ListNotations.
From RX Require Import Generated.
From RX.Model Require Import Base CharClass Stream Tokenizer Doc Builder Parse.
From RX.Spec Require Cst CstText CstEnt Detector Scope CstU CstNs Chars.
From RX.Spec Require Import CstFullS5.
From RX.Spec Require Import Text CstFull CstFullS4.
From RX.Spec Require Import CstFullS6.
From RX.Proofs Require Import Tactics CstLex DetectorProofs CstFullTree.
From RX.Proofs Require CstFullDoc.
From RX.Proofs Require Import CstFullS4Sem CstFullS4Attr.
From RX.Proofs Require Import CstFullS5Ws CstFullS5Items CstFullS5Doc.
From RX.Proofs Require CstEntSem CstEntMeaning CstEntRejSem CstEntBuild CstFullS4Items CstFullS5 CstFullS6Doc CstFullS6Main.
Open Scope N_scope.

Notation Bal := CstEntRejSem.Bal.
Notation pieces_of := CstFullS4Items.pieces_of.

Definition GoodT (tr : list Detector.lop) : Prop := Bal tr /\ ld_run ld_init tr = Some ld_init.

Lemma GoodT_nil : GoodT [].
Proof. split; [constructor|reflexivity]. Qed.

Lemma GoodT_app a c : GoodT a -> GoodT c -> GoodT (a ++ c).
Proof. intros [A1 A2] [C1 C2]. split; [constructor; assumption|]. rewrite ld_run_app, A2. exact C2. Qed.

Lemma GoodT_of tr : Bal tr -> limits_ok tr = true -> GoodT tr.
Proof.
  intros Hb Hl. split; [exact Hb|]. destruct (detector_complete_gen tr 0 0 Hl) as [st Hst]. change (mk 0 0) with ld_init in Hst.
  apply (ld_run_top tr ld_init st Hb Hst ld_ok_init).
Qed.

Lemma GoodT_limits tr : GoodT tr -> limits_ok tr = true.
Proof.
  intros [Hb Hr]. apply (detector_sound tr ld_init Hr). rewrite (CstEntRejSem.Bal_depth tr Hb). discriminate.
Qed.

(* ------------------------------------------------------------------------------------------ *)
(* regrouping blocks of character data                                                        *)
(* ------------------------------------------------------------------------------------------ *)
Definition head_nontext (l : list bitem) : Prop := match l with [] => True | i :: _ => is_btext i = false end.

Lemma regroup_block : forall ts r, ts <> [] -> forallb is_btext ts = true -> head_nontext r ->
  regroup (ts ++ r) = @IText bpieces (pieces_of ts) :: regroup r.
Proof.
  induction ts as [|t ts IH]; intros r Hne Ht Hr; [congruence|]. cbn [forallb] in Ht. apply andb_true_iff in Ht. destruct Ht as [H1 H2].
  destruct t as [? ? ? ?|p|?|? ? ?]; try discriminate. cbn [app CstFullS4Items.pieces_of].
  destruct ts as [|t2 ts'].
  - cbn [app CstFullS4Items.pieces_of]. rewrite app_nil_r. destruct r as [|i r0]; [reflexivity|].
    cbn [head_nontext] in Hr. rewrite (regroup_text_nontext _ _ _ Hr), (regroup_nontext _ _ Hr). reflexivity.
  - cbn [regroup]. fold regroup. rewrite (IH r ltac:(discriminate) H2 Hr). reflexivity.
Qed.

Lemma bden_pieces Q : bden (@IText bpieces Q) = if forallb E.is_mark Q then [] else [CstNs.IText (T.text_sem Q)].
Proof. cbn [den run_sem bmeaning]. destruct (forallb E.is_mark Q); reflexivity. Qed.

(* ------------------------------------------------------------------------------------------ *)
(* the declarations                                                                           *)
(* ------------------------------------------------------------------------------------------ *)
Section Items.
Variable xds : list xdecl.

Notation decls5 := (map pd xds).
Notation tb5 := (E.level decls5 E.max_level).
Notation M5 := (ents_meaning tb5).
Notation decls4 := xds.
Notation tb4 := (level decls4 E.max_level).
Notation bdens := (CstFullTree.dens bpieces bmeaning).
Notation dens5 := (CstFullTree.dens epieces M5).

Lemma ps_eq fa ie ps : E.inline_ps (ptable tb4) fa ie ps = E.inline_ps tb5 fa ie ps.
Proof. rewrite inline_ps_level. reflexivity. Qed.

Lemma balT5 : forall k, CstEntRejSem.BalT (E.level decls5 k).
Proof.
  induction k as [|k IH]; intros n v Hl; rewrite CstEntMeaning.lookup_level in Hl; [discriminate|].
  destruct (CstEntSem.first_decl decls5 n) as [d0|]; [|discriminate]. apply (CstEntRejSem.bal_value (E.level decls5 k) IH _ _ Hl).
Qed.

Lemma ypieces_items k n yv q : ylookup (level decls4 k) n = Some yv -> y_pieces yv = Some q -> y_items yv = [@IText bpieces q].
Proof.
  rewrite ylookup_level. destruct k as [|k']; [discriminate|].
  destruct (first_xdecl decls4 n) as [d0|]; [|discriminate]. intros Hv Hp.
  destruct (x_value d0) as [ps|its]; cbn [inline_value] in Hv.
  - destruct (E.inline_ps _ false true (enc_epieces ps)) as [x|]; cbn [E.obind] in Hv; [|discriminate].
    injection Hv as <-. cbn [y_pieces y_items] in *. injection Hp as <-. reflexivity.
  - destruct (inline_items _ true its) as [x|]; cbn [E.obind] in Hv; [|discriminate]. injection Hv as <-. discriminate Hp.
Qed.

Lemma run_embed m : forall ps Q tr, E.inline_ps (ptable tb4) false m ps = Some (Q, tr) ->
  exists its, inline_run tb4 m ps = Some (its, tr) /\ forallb is_btext its = true /\ pieces_of its = Q /\ (ps <> [] -> its <> []).
Proof.
  induction ps as [|p ps IH]; intros Q tr H.
  - cbn [E.inline_ps] in H. injection H as <- <-. exists []. repeat split. intros X; congruence.
  - destruct p as [p|n]; cbn [E.inline_ps andb] in H.
    + destruct (E.inline_ps (ptable tb4) false m ps) as [[Q' tr']|] eqn:Er; [|discriminate]. cbn [E.obind fst snd] in H. injection H as <- <-.
      destruct (IH Q' tr' eq_refl) as (its' & E1 & E2 & E3 & _).
      exists (@IText bpieces [p] :: its'). cbn [inline_run]. rewrite E1. cbn [E.obind fst snd forallb is_btext CstFullS4Items.pieces_of app].
      rewrite E2, E3. repeat split. discriminate.
    + rewrite lookup_ptable in H. destruct (ylookup tb4 n) as [yv|] eqn:Ey; [|discriminate]. cbn [E.obind E.x_pieces E.x_trace] in H.
      destruct (y_pieces yv) as [q|] eqn:Ep; cbn [E.obind] in H; [|discriminate]. pose proof (ypieces_items _ _ _ _ Ey Ep) as Ei.
      destruct (E.inline_ps (ptable tb4) false m ps) as [[Q' tr']|] eqn:Er; [|discriminate]. cbn [E.obind fst snd] in H. injection H as <- <-.
      destruct (IH Q' tr' eq_refl) as (its' & E1 & E2 & E3 & _).
      exists (bmark :: y_items yv ++ bmark :: its'). cbn [inline_run]. rewrite Ey. cbn [E.obind]. rewrite E1. cbn [E.obind fst snd].
      split; [reflexivity|]. rewrite Ei. cbn [app forallb is_btext bmark CstFullS4Items.pieces_of]. rewrite E2, E3.
      split; [reflexivity|]. split; [reflexivity|discriminate].
Qed.

Lemma entry_embed (e : uentry) : wf_entry_s M5 e = true ->
  wf_uentry_s false e = true /\
  exists e' tr, inline_entry tb4 false e = Some (e', tr) /\ GoodT tr /\
    x_entry bpieces T.value_sem e' = x_entry epieces (val_sem M5) e /\ E.crlf_split_ok (e_value bpieces e') = true.
Proof.
  unfold wf_entry_s. rewrite !andb_true_iff. intros [[Hl Hv] Hn].
  cbn [wf_val ents_meaning] in Hv. unfold wf_eval in Hv. apply andb_true_iff in Hv. destruct Hv as [Hw Hi].
  split; [unfold wf_uentry_s; rewrite Hl, Hw, Hn; reflexivity|].
  destruct (E.inline_ps tb5 true false (enc_epieces (e_value epieces e))) as [[Q tr]|] eqn:Ei; [|discriminate].
  apply andb_true_iff in Hi. destruct Hi as [Hlim Hcr].
  assert (HG : GoodT tr) by (apply GoodT_of; [apply (CstEntRejSem.bal_ps tb5 (balT5 _) _ _ _ _ _ Ei)|exact Hlim]).
  destruct e as [l n v|l p v]; cbn [e_value] in *; cbn [inline_entry]; rewrite ps_eq, Ei; cbn [E.obind fst snd];
    eexists; eexists; (split; [reflexivity|]); (split; [exact HG|]); cbn [x_entry e_value val_sem ents_meaning]; unfold eval_sem; rewrite Ei; split; [reflexivity|exact Hcr|reflexivity|exact Hcr].
Qed.

Lemma entries_embed (es : list uentry) : forallb (wf_entry_s M5) es = true ->
  forallb (wf_uentry_s false) es = true /\
  exists es' tr, inline_entries tb4 false es = Some (es', tr) /\ GoodT tr /\
    map (x_entry bpieces T.value_sem) es' = map (x_entry epieces (val_sem M5)) es /\
    forallb (fun e => E.crlf_split_ok (e_value bpieces e)) es' = true.
Proof.
  induction es as [|e es IH]; intros H.
  - split; [reflexivity|]. exists [], []. repeat split. apply GoodT_nil.
  - cbn [forallb] in H. apply andb_true_iff in H. destruct H as [H1 H2].
    destruct (entry_embed e H1) as (W1 & e' & t1 & E1 & G1 & X1 & C1). destruct (IH H2) as (W2 & es' & t2 & E2 & G2 & X2 & C2).
    split; [cbn [forallb]; rewrite W1, W2; reflexivity|].
    exists (e' :: es'), (t1 ++ t2). cbn [inline_entries]. rewrite E1. cbn [E.obind]. rewrite E2. cbn [E.obind fst snd].
    split; [reflexivity|]. split; [apply GoodT_app; assumption|]. cbn [map forallb]. rewrite X1, X2, C1, C2. split; reflexivity.
Qed.

Definition head_ok (cs : list uitem) (l : list bitem) : Prop :=
  match cs with [] => l = [] | c :: _ => is_text epieces c = false -> head_nontext l end.

Definition EmbI (i : uitem) : Prop := wf_item_s M5 i = true ->
  wf_uitem_s false i = true /\
  exists its tr, inline_item tb4 false i = Some (its, tr) /\ GoodT tr /\
    if is_text epieces i
    then its <> [] /\ forallb is_btext its = true /\ bden (@IText bpieces (pieces_of its)) = den M5 i /\
         E.crlf_split_ok (pieces_of its) = true
    else exists i', its = [i'] /\ is_btext i' = false /\ bden i' = den M5 i /\ provisos_item i' = true.

Definition EmbL (cs : list uitem) : Prop := wf_items_s epieces M5 cs = true -> no_adjacent_text epieces cs = true ->
  forallb (wf_uitem_s false) cs = true /\
  exists l tr, inline_items tb4 false cs = Some (l, tr) /\ GoodT tr /\
    bdens (regroup l) = dens5 cs /\ forallb provisos_item (regroup l) = true /\ head_ok cs l.

Lemma EmbL_of cs : Forall EmbI cs -> EmbL cs.
Proof.
  induction 1 as [|c r Hc _ IH]; intros Hwf Hna.
  - split; [reflexivity|]. exists [], []. repeat split. apply GoodT_nil.
  - cbn [wf_items_s] in Hwf. apply andb_true_iff in Hwf. destruct Hwf as [Hw1 Hw2].
    assert (Hna2 : no_adjacent_text epieces r = true).
    { destruct r as [|c2 r']; [reflexivity|]. cbn [no_adjacent_text] in Hna. apply andb_true_iff in Hna. apply Hna. }
    destruct (Hc Hw1) as (W1 & its & t1 & E1 & G1 & P1). destruct (IH Hw2 Hna2) as (W2 & l' & t2 & E2 & G2 & D2 & V2 & K2).
    split; [cbn [forallb]; rewrite W1, W2; reflexivity|].
    exists (its ++ l'), (t1 ++ t2). cbn [inline_items]. rewrite E1. cbn [E.obind]. rewrite E2. cbn [E.obind fst snd].
    split; [reflexivity|]. split; [apply GoodT_app; assumption|]. cbn [CstFullTree.dens].
    destruct (is_text epieces c) eqn:Et.
    + destruct P1 as (Hne & Ht & Hd & Hcr).
      assert (Hh : head_nontext l').
      { destruct r as [|c2 r']; [cbn [head_ok] in K2; rewrite K2; exact Logic.I|]. cbn [head_ok] in K2. apply K2.
        cbn [no_adjacent_text] in Hna. apply andb_true_iff in Hna. destruct Hna as [Hna _]. rewrite Et in Hna. cbn [andb] in Hna.
        apply negb_true_iff in Hna. exact Hna. }
      rewrite (regroup_block its l' Hne Ht Hh). cbn [CstFullTree.dens forallb provisos_item]. rewrite Hd, D2, Hcr, V2.
      split; [reflexivity|]. split; [reflexivity|]. cbn [head_ok]. intros X. rewrite Et in X. discriminate X.
    + destruct P1 as (i' & -> & Hnt & Hd & Hp). cbn [app]. rewrite (regroup_nontext _ _ Hnt). cbn [CstFullTree.dens forallb]. rewrite Hd, D2, Hp, V2.
      split; [reflexivity|]. split; [reflexivity|]. cbn [head_ok head_nontext]. intros _. exact Hnt.
Qed.

Lemma EmbI_all : forall i, EmbI i.
Proof.
  intros i. induction i as [n a w|n a w cs w2 IH|r|bs|t s v] using fitem_ind; intros Hwf.
  - (* empty element *)
    rewrite wf_item_elem_s in Hwf. rewrite !andb_true_iff in Hwf. destruct Hwf as [[[Hn Ha] Hw] _].
    destruct (entries_embed a Ha) as (Wa & a' & ta & Ea & Ga & Xa & Ca).
    split; [cbn [wf_uitem_s]; rewrite Hn, Wa, Hw; reflexivity|].
    rewrite inline_item_elem, Ea. cbn [E.obind fst snd]. eexists. eexists. split; [reflexivity|]. split; [exact Ga|].
    cbn [is_text]. eexists. split; [reflexivity|]. split; [reflexivity|]. split.
    + rewrite !den_elem. change (val_sem bmeaning) with T.value_sem. rewrite Xa. reflexivity.
    + cbn [provisos_item]. rewrite Ca. reflexivity.
  - (* element with content *)
    rewrite wf_item_elem_s in Hwf. rewrite !andb_true_iff in Hwf. destruct Hwf as [[[Hn Ha] Hw] [[Hw2 Hna] Hcs]].
    destruct (entries_embed a Ha) as (Wa & a' & ta & Ea & Ga & Xa & Ca).
    destruct (EmbL_of cs IH Hcs Hna) as (Wc & l & tc & Ec & Gc & Dc & Vc & _).
    split.
    { rewrite CstFullS6Text.wf_uitem_elem, Hn, Wa, Hw, Hw2, Hna. rewrite <- CstFullS6Text.wf_uitems_forallb. exact Wc. }
    rewrite inline_item_elem, Ea. cbn [E.obind]. rewrite Ec. cbn [E.obind fst snd]. eexists. eexists. split; [reflexivity|].
    split; [apply GoodT_app; assumption|]. cbn [is_text]. eexists. split; [reflexivity|]. split; [reflexivity|]. split.
    + rewrite !den_elem. change (val_sem bmeaning) with T.value_sem. rewrite Xa, Dc. reflexivity.
    + cbn [provisos_item]. rewrite Ca. cbn [andb].
      clear - Vc. induction (regroup l) as [|x y IHy]; [reflexivity|]. cbn [forallb] in Vc. apply andb_true_iff in Vc. destruct Vc as [V1 V2].
      rewrite V1. exact (IHy V2).
  - (* a run *)
    cbn [wf_item_s wf_run ents_meaning] in Hwf. unfold wf_erun in Hwf. rewrite !andb_true_iff in Hwf. destruct Hwf as [[Hne Hw] Hi].
    split; [cbn [wf_uitem_s]; rewrite Hne, Hw; reflexivity|].
    destruct (E.inline_ps tb5 false false (enc_epieces r)) as [[Q tr]|] eqn:Ei; [|discriminate].
    apply andb_true_iff in Hi. destruct Hi as [Hlim Hcr].
    assert (Ei' : E.inline_ps (ptable tb4) false false (enc_epieces r) = Some (Q, tr)) by (rewrite ps_eq; exact Ei).
    destruct (run_embed false _ _ _ Ei') as (its & E1 & E2 & E3 & E4).
    exists its, tr. cbn [inline_item]. split; [exact E1|].
    split; [apply GoodT_of; [apply (CstEntRejSem.bal_ps tb5 (balT5 _) _ _ _ _ _ Ei)|exact Hlim]|].
    cbn [is_text]. split; [apply E4; destruct r; [discriminate|unfold enc_epieces; cbn [map]; discriminate]|].
    split; [exact E2|]. rewrite E3. split; [|exact Hcr].
    rewrite bden_pieces. cbn [den run_sem ents_meaning]. unfold erun_sem. rewrite Ei. destruct (forallb E.is_mark Q); reflexivity.
  - split; [exact Hwf|]. exists [@IComment bpieces bs], []. split; [reflexivity|]. split; [apply GoodT_nil|].
    cbn [is_text]. eexists. repeat split.
  - split; [exact Hwf|]. exists [@IPI bpieces t s v], []. split; [reflexivity|]. split; [apply GoodT_nil|].
    cbn [is_text]. eexists. repeat split.
Qed.

End Items.
