(* Proofs/CstFullS7Example.v -- the theorems of Proofs/CstFullS7Main.v are not vacuous, and stage S7 is strictly wider
   than stage S6: the sample document ex7 of Proofs/CstFullS7Sanity.v -- CR in comments and PI values (in the prolog, in
   the subset, inside a markup entity, in the content and in the epilog), the DOCTYPE name ":d:t", the PI targets
   ":p::q", "t:u", "a:b", "x:" -- satisfies the hypotheses of [parse_render_sem_full_s7_api] and is not a document of S6. *)
From Coq Require Import Ascii String.
From Coq Require Import List NArith Bool Lia.
Import ListNotations.
From RX Require Import Generated.
From RX.Model Require Import Base Stream Tokenizer Doc Builder Parse.
From RX.Spec Require CstNs CstU.
From RX.Spec Require Import CstFull CstFullS6 CstFullS7.
From RX.Proofs Require Import CstNsView CstFullMain CstFullS6Sanity CstFullS7Sanity CstFullS7Main.
From RX.Proofs Require ApiView.
Open Scope N_scope.

Definition optx := {| allow_dtd := true; nodes_limit := default_nodes_limit |}.

Theorem s7_wider : S7.wf_doc ex7 = true /\ S6.wf_doc ex7 = false.
Proof. split; vm_compute; reflexivity. Qed.

Example ex7_parses : exists x, parse (S7.render ex7) optx = Ok x /\ ApiView.api_view (S7.render ex7) x = Some (S7.sem ex7).
Proof.
  apply parse_render_sem_full_s7_api.
  - vm_compute. reflexivity.
  - reflexivity.
  - vm_compute. intros H. discriminate H.
  - vm_compute. reflexivity.
  - vm_compute. reflexivity.
  - vm_compute. reflexivity.
  - unfold S7.distinct_decls_le, S6.distinct_decls_le, X4.S4.distinct_decls_le.
    match goal with |- match ?x with _ => _ end => let y := eval vm_compute in x in change x with y end.
    apply distinct_by_count.
    match goal with |- (length ?l <= _)%nat => let n := eval vm_compute in (length l) in change (length l) with n end. lia.
  - vm_compute. intros H. discriminate H.
Qed.

Print Assumptions s7_wider.
Print Assumptions ex7_parses.
