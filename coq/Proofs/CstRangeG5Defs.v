(* Proofs/CstRangeG5Defs.v -- C13 / C18 on the capstone fragment, stage S5 (Spec/CstFullS5.v: the whole prolog),
   part 1: where the nodes of a document of stage S5 are written in its rendering -- after a byte
   order mark and an XML declaration; the comments and PIs before the DOCTYPE, those of the internal
   subset, those after the DOCTYPE, the root element, the epilog -- and where the values of the
   general internal entities of the subset are written.  Computed from the abstract document alone. *)
From Coq Require Import List NArith Bool Lia.
Import ListNotations.
From RX.Spec Require Cst CstNs CstU CstText CstEnt Scope.
From RX.Spec Require Import Text CstFull CstFullS5.
From RX.Proofs Require Import CstRangeDefs CstRangeTDefs CstRangeEDefs CstRangeFDefs CstRangeGDefs.
Open Scope N_scope.

(* ---- the internal subset whose first item is written at q ---- *)
(* its comments and PIs, each with the offset of its first byte *)
Fixpoint smisc_at (q : N) (ds : list sdecl) : list (N * item epieces) :=
  match ds with
  | [] => []
  | s :: r =>
    match s with
    | SMisc ws0 i => (q + nlen ws0, i) :: smisc_at (q + nlen (r_sdecl s)) r
    | _ => smisc_at (q + nlen (r_sdecl s)) r
    end
  end.
(* its general internal entities: (name, offset of the value, value), in declaration order *)
Fixpoint svtable_at (q : N) (ds : list sdecl) : list (bytes * (N * E.evalue)) :=
  match ds with
  | [] => []
  | s :: r =>
    match s with
    | SEntity e => (E.e_name (enc_decl e), (q + decl_value_off (enc_decl e), E.e_value (enc_decl e))) :: svtable_at (q + nlen (r_sdecl s)) r
    | _ => svtable_at (q + nlen (r_sdecl s)) r
    end
  end.

(* the offset of the first item of the internal subset of a DOCTYPE written at p (after the '[') *)
Definition subset_offset (p : N) (t : doctype) : N :=
  p + 9 + nlen (t_ws1 t) + nlen (utf8s (t_name t)) + nlen (t_ws2 t)
  + nlen (r_opt (fun x => r_extid (fst x) ++ snd x) (t_ext t)) + 1.

(* ---- the offsets of a document ---- *)
(* after the byte order mark and the XML declaration *)
Definition s5_start (d : S5.doc) : N := (if S5.x_bom d then 3 else 0) + nlen (r_opt r_xmldecl (S5.x_decl d)).
(* the DOCTYPE *)
Definition s5_dtd_offset (d : S5.doc) (g : S5.dtd_part) : N :=
  s5_start d + nlen (S5.g_ws0 g) + fbefore_len epieces (S5.g_before g).

Definition s5_vtable (d : S5.doc) : list (bytes * (N * E.evalue)) :=
  match S5.x_dtd d with
  | Some g => svtable_at (subset_offset (s5_dtd_offset d g) (S5.g_dtd g)) (subset_decls (S5.g_dtd g))
  | None => []
  end.

(* the items in document order, each with the offset of its first byte *)
Definition s5_items_at (d : S5.doc) : list (N * item epieces) :=
  match S5.x_dtd d with
  | Some g =>
    fbefore_at epieces (s5_start d + nlen (S5.g_ws0 g)) (S5.g_before g)
    ++ smisc_at (subset_offset (s5_dtd_offset d g) (S5.g_dtd g)) (subset_decls (S5.g_dtd g))
    ++ fdoc_items_from epieces (s5_dtd_offset d g + nlen (r_doctype (S5.g_dtd g))) (S5.x_main d)
  | None => fdoc_items_from epieces (s5_start d) (S5.x_main d)
  end.

Definition vstore_s5 (d : S5.doc) := vstore3 (S5.table d).
Definition run_nodes_s5 (d : S5.doc) := run_nodes3 (S5.table d) (s5_vtable d).

Definition fnodes5 (d : S5.doc) : list ((N * N) * tshape) := flat_map (fnode_of epieces (run_nodes_s5 d)) (s5_items_at d).
(* (1) the ranges of the nodes below the Root, in document order *)
Definition fspans5 (d : S5.doc) : list (N * N) := map fst (fnodes5 d).
(* (2) what they hold *)
Definition fshapes5 (d : S5.doc) : list tshape := map snd (fnodes5 d).
Definition fattr_spans5 (d : S5.doc) : list faspan := flat_map (fitem_aspans epieces (vstore_s5 d)) (s5_items_at d).
Definition fns_table5 (d : S5.doc) : list fnsdesc :=
  map snd (dedupe [xml_binding] (flat_map (fitem_decls epieces (S5.meaning_of d) (vstore_s5 d)) (s5_items_at d))).
Definition fattrs_small5 (d : S5.doc) : Prop := Forall faspan_small (fattr_spans5 d).
