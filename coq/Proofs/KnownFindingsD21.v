(* Proofs/KnownFindingsD21.v -- the known finding D21 (property C08) as theorems about the model.
   How it relates to the pinned theorems: the soundness theorems (parse_sound_fragment_n ...) say "accepted => rendering of a
   document that is well-formed in the sense of the SPEC", and the decision theorems (NsRejMain.ns_decide, ns_decide_full_s6_partial)
   say "accepted <=> the namespace rules of the spec hold".  Rule N6 of the spec (no prefix declared twice in one start tag) is
   stated on [CstNs.own_bindings], which leaves out every declaration of the prefix xml -- because the model never stores the
   xml binding, so its duplicate test cannot see it.  Hence the statement one would like, "an accepted document has no start tag
   with two declarations of the same prefix" (XML: Unique Att Spec), is REFUTED by a witness ([d21_refuted]); it HOLDS outside the
   class "the repeated prefix is xml" ([d21_outside_class]: any other repeated declaration is rejected with an error of the
   namespace family; [d21_outside_class_variant]: DuplicatedNamespace p when it is the first violation).  The witness is
   well-formed for the spec ([d21_wf_for_spec]): it is the SPEC that departs from XML here, in step with the crate. *)
From Coq Require Import Ascii String.
From Coq Require Import List NArith PeanoNat Bool Lia ZifyBool ZifyN ZifyNat.
Import ListNotations.
From RX Require Import Generated.
From RX.Model Require Import Base Stream Tokenizer Doc Builder Parse.
From RX.Spec Require Cst Scope.
From RX.Spec Require Import CstNs.
From RX.Proofs Require Import CstNsTree CstNsView CstNsMain CstNsSanity NsRejDefs NsRejBuild NsRejMain.
From RX.Proofs Require ScopeProofs.
Open Scope N_scope.

(* ------------------------------------------------------------------------------------------ *)
(* "a start tag carries two namespace declarations with the same prefix", on the syntax       *)
(* ------------------------------------------------------------------------------------------ *)
Definition decl_prefixes (es : list entry) : list bytes :=
  flat_map (fun e => match e with EDecl _ p _ => [p] | EAttr _ _ _ => [] end) es.
Fixpoint has_dup (l : list bytes) : bool :=
  match l with [] => false | x :: r => existsb (Scope.bytes_eqb x) r || has_dup r end.

(* [skip_xml]: do not count the declarations of the prefix xml *)
Definition dup_tag (skip_xml : bool) (es : list entry) : bool :=
  has_dup (filter (fun p => negb (skip_xml && Scope.bytes_eqb p Scope.xml_prefix)) (decl_prefixes es)).
Fixpoint dup_item (skip_xml : bool) (i : item) : bool :=
  match i with
  | IElem _ es _ body =>
    dup_tag skip_xml es ||
    match body with
    | None => false
    | Some (cs, _) => (fix any (l : list item) : bool := match l with [] => false | c :: r => dup_item skip_xml c || any r end) cs
    end
  | _ => false
  end.
Fixpoint dup_items (skip_xml : bool) (l : list item) : bool :=
  match l with [] => false | c :: r => dup_item skip_xml c || dup_items skip_xml r end.

Definition dup_decl (c : doc) : bool := dup_item false (d_root c).               (* some prefix is declared twice in one tag *)
Definition dup_decl_outside_xml (c : doc) : bool := dup_item true (d_root c).    (* ... and it is not the prefix xml *)
(* the class of D21: every repeated declaration is one of the prefix xml *)
Definition d21_class (c : doc) : bool := dup_decl c && negb (dup_decl_outside_xml c).

Lemma dup_item_elem sk name es ws body :
  dup_item sk (IElem name es ws body) = dup_tag sk es || match body with None => false | Some (cs, _) => dup_items sk cs end.
Proof.
  destruct body as [[cs ws2]|]; [|reflexivity]. cbn [dup_item]. f_equal.
  induction cs as [|c r IH]; [reflexivity|]. cbn [dup_items]. rewrite <- IH. reflexivity.
Qed.

(* ------------------------------------------------------------------------------------------ *)
(* (a) the full statement is refuted                                                          *)
(* ------------------------------------------------------------------------------------------ *)
Definition d21_doc : doc :=
  {| d_before := []; d_ws0 := []; d_after := []; d_ws_end := [];
     d_root := IElem (qn "" "a") [dc "xml" "http://www.w3.org/XML/1998/namespace"; dc "xml" "http://www.w3.org/XML/1998/namespace"] [] None |}.
Definition d21_text : bytes :=
  b "<a xmlns:xml='http://www.w3.org/XML/1998/namespace' xmlns:xml='http://www.w3.org/XML/1998/namespace'/>".

Theorem d21_refuted :
  exists (c : doc) (d : document),
    render c = d21_text /\ dup_decl c = true /\ parse (render c) default_options = Ok d.
Proof.
  exists d21_doc. destruct (parse (render d21_doc) default_options) as [d| | |] eqn:E; [|vm_compute in E; discriminate E..].
  exists d. split; [vm_compute; reflexivity|]. split; [vm_compute; reflexivity|reflexivity].
Qed.

(* the witness is in the class, and it IS well-formed for the spec: N6 does not look at the prefix xml *)
Theorem d21_wf_for_spec : d21_class d21_doc = true /\ wf_doc d21_doc = true /\ first_violation d21_doc = None.
Proof. repeat split; vm_compute; reflexivity. Qed.

(* ------------------------------------------------------------------------------------------ *)
(* (b) outside the class the statement holds                                                  *)
(* ------------------------------------------------------------------------------------------ *)
Definition popt (p : bytes) : option bytes := match p with [] => None | _ => Some p end.

Lemma popt_eqb p q : Scope.prefix_eqb (popt p) (popt q) = Scope.bytes_eqb p q.
Proof. destruct p, q; reflexivity. Qed.

Lemma own_prefixes es :
  map fst (own_bindings es) = map popt (filter (fun p => negb (true && Scope.bytes_eqb p Scope.xml_prefix)) (decl_prefixes es)).
Proof.
  unfold own_bindings, decl_prefixes. induction es as [|e es IH]; [reflexivity|]. cbn [flat_map].
  rewrite map_app, filter_app, map_app, IH. f_equal. destruct e as [l n v|l p u]; [reflexivity|].
  cbn [filter andb]. destruct (Scope.bytes_eqb p Scope.xml_prefix); reflexivity.
Qed.

Lemma pu_fst : forall sc, Scope.prefixes_unique sc =
  (fix go (l : list (option bytes)) : bool := match l with [] => true | x :: r => negb (existsb (fun y => Scope.prefix_eqb y x) r) && go r end) (map fst sc).
Proof.
  induction sc as [|b0 r IH]; [reflexivity|]. cbn [Scope.prefixes_unique map]. rewrite IH. f_equal. f_equal.
  clear. induction r as [|o r IH]; [reflexivity|]. cbn [existsb map]. rewrite IH. reflexivity.
Qed.

Lemma dup_not_unique : forall l, has_dup l = true ->
  (fix go (l : list (option bytes)) : bool := match l with [] => true | x :: r => negb (existsb (fun y => Scope.prefix_eqb y x) r) && go r end) (map popt l) = false.
Proof.
  induction l as [|x r IH]; intros H; [discriminate|]. cbn [has_dup] in H. cbn [map].
  apply orb_true_iff in H. destruct H as [H|H].
  - apply andb_false_iff. left. apply negb_false_iff. apply existsb_exists in H. destruct H as (y & Hin & Hy).
    apply existsb_exists. exists (popt y). split; [apply in_map; exact Hin|]. rewrite popt_eqb, NsRejDefs.sbytes_eqb_sym. exact Hy.
  - apply andb_false_iff. right. apply IH. exact H.
Qed.

Lemma dup_tag_not_unique es : dup_tag true es = true -> Scope.prefixes_unique (own_bindings es) = false.
Proof. unfold dup_tag. intros H. rewrite pu_fst, own_prefixes. apply dup_not_unique. exact H. Qed.

(* a repeated declaration of a prefix other than xml violates N6 of the spec, wherever it stands *)
Lemma dup_item_ns : forall i inh, dup_item true i = true -> ns_item inh i = false.
Proof.
  intros i. induction i as [n a w|n a w cs w2 IH|bs|bs|t s v] using item_ind'; intros inh H; try discriminate.
  - rewrite dup_item_elem, orb_false_r in H. rewrite ns_item_elem, andb_true_r. unfold ns_tag. cbv zeta.
    rewrite (dup_tag_not_unique a H), !andb_false_r. reflexivity.
  - rewrite dup_item_elem in H. rewrite ns_item_elem. apply orb_true_iff in H. destruct H as [H|H].
    + unfold ns_tag. cbv zeta. rewrite (dup_tag_not_unique a H), !andb_false_r. reflexivity.
    + apply andb_false_iff. right. generalize (esc a inh). intros sc.
      induction IH as [|c r Hc _ IHr]; [discriminate|]. cbn [dup_items] in H. cbn [ns_items].
      apply orb_true_iff in H. destruct H as [H|H]; [rewrite (Hc sc H); reflexivity|rewrite (IHr H); apply andb_false_r].
Qed.

Theorem d21_outside_class : forall (c : doc) (opt : options),
  wf_syntax_ns c = true -> dup_decl_outside_xml c = true -> fits c opt ->
  exists e, parse (render c) opt = Err e /\ is_ns_error e = true.
Proof.
  intros c opt Hwf Hd (F1 & F2 & F3 & F4). apply ns_violation_rejected; try assumption.
  apply (dup_item_ns (d_root c) [] Hd).
Qed.

(* ... with the variant the crate documents, when the repeated declaration is the first violation in reading order;
   conversely a DupPrefix violation always comes from a tag that repeats a prefix other than xml *)
Notation nx := (filter (fun p0 => negb (true && Scope.bytes_eqb p0 Scope.xml_prefix))).

Lemma has_dup_in pre x y l : In y pre -> Scope.bytes_eqb y x = true -> has_dup (pre ++ x :: l) = true.
Proof.
  induction pre as [|z pre IH]; intros Hin E; [destruct Hin|]. cbn [app has_dup]. destruct Hin as [->|Hin].
  - apply orb_true_iff. left. apply existsb_exists. exists x. split; [apply in_or_app; right; left; reflexivity|exact E].
  - apply orb_true_iff. right. apply IH; assumption.
Qed.

Lemma entries_viol_dup p : forall es own1 pre, entries_viol own1 es = Some (DupPrefix p) ->
  map fst own1 = map popt pre -> has_dup (pre ++ nx (decl_prefixes es)) = true.
Proof.
  induction es as [|e es IHe]; intros own1 pre Hv Hpre; [discriminate|]. cbn [entries_viol] in Hv.
  destruct (entry_viol own1 e) as [y|] eqn:Eev.
  - injection Hv as ->. destruct e as [l n0 v0|l q u]; [discriminate|]. unfold entry_viol in Eev.
    destruct q as [|x0 q0]; cbv beta iota in Eev.
    + destruct (Scope.bytes_eqb u Scope.xml_uri); [discriminate|]. destruct (Scope.bytes_eqb u xmlns_uri); [discriminate|].
      destruct (declared own1 None); discriminate.
    + destruct (Scope.bytes_eqb (x0 :: q0) xmlns_b); [discriminate|]. destruct (Scope.bytes_eqb u xmlns_uri); [discriminate|].
      destruct (Scope.bytes_eqb (x0 :: q0) Scope.xml_prefix) eqn:Ex; [destruct (Scope.bytes_eqb u Scope.xml_uri); discriminate|].
      destruct (Scope.bytes_eqb u Scope.xml_uri); [discriminate|].
      match type of Eev with context [declared own1 ?k] => destruct (declared own1 k) eqn:Edc end; [|discriminate]. injection Eev as <-.
      unfold decl_prefixes. cbn [flat_map app filter andb]. rewrite Ex. cbn [negb].
      unfold declared in Edc. apply existsb_exists in Edc. destruct Edc as (o & Ho & Eo).
      apply (in_map fst) in Ho. rewrite Hpre in Ho. apply in_map_iff in Ho. destruct Ho as (q & Eq & Hq).
      rewrite <- Eq in Eo. change (Some (x0 :: q0)) with (popt (x0 :: q0)) in Eo. rewrite popt_eqb in Eo.
      apply (has_dup_in pre (x0 :: q0) q _ Hq Eo).
  - assert (E1 : map fst (own1 ++ own_bindings [e]) = map popt (pre ++ nx (decl_prefixes [e])))
      by (rewrite !map_app; f_equal; [exact Hpre|apply own_prefixes]).
    pose proof (IHe _ _ Hv E1) as X. rewrite <- app_assoc in X.
    assert (E2 : decl_prefixes (e :: es) = decl_prefixes [e] ++ decl_prefixes es)
      by (unfold decl_prefixes; cbn [flat_map]; rewrite app_nil_r; reflexivity).
    rewrite E2, filter_app. exact X.
Qed.

Lemma pl_viol_not_dup sc p : forall l seen, pl_viol sc seen l = Some (DupPrefix p) -> False.
Proof.
  induction l as [|pl l IHl]; intros seen Ep; [discriminate|].
  cbn [pl_viol] in Ep. destruct (is_bound _); [|discriminate]. destruct (existsb _ seen); [discriminate|]. apply (IHl _ Ep).
Qed.

Lemma tag_viol_dup inh n a p : tag_viol inh n a = Some (DupPrefix p) -> dup_tag true a = true.
Proof.
  unfold tag_viol. destruct (Scope.bytes_eqb (q_prefix n) xmlns_b); [discriminate|].
  destruct (entries_viol [] a) as [x|] eqn:Ee.
  - intros Et. injection Et as ->. apply (entries_viol_dup p a [] [] Ee eq_refl).
  - destruct (pl_viol (esc a inh) [] (attr_names a)) as [y|] eqn:Ep.
    + intros Et. injection Et as ->. destruct (pl_viol_not_dup _ _ _ _ Ep).
    + destruct (is_bound _); discriminate.
Qed.

Lemma item_viol_dup p : forall i inh, item_viol inh i = Some (DupPrefix p) -> dup_item true i = true.
Proof.
  intros i. induction i as [n a w|n a w cs w2 IH|bs|bs|t s v] using item_ind'; intros inh H; try discriminate.
  - rewrite item_viol_elem in H. rewrite dup_item_elem, orb_false_r.
    destruct (tag_viol inh n a) as [x|] eqn:Et; [|discriminate]. injection H as ->. apply (tag_viol_dup _ _ _ _ Et).
  - rewrite item_viol_elem in H. rewrite dup_item_elem.
    destruct (tag_viol inh n a) as [x|] eqn:Et.
    + injection H as ->. rewrite (tag_viol_dup _ _ _ _ Et). reflexivity.
    + apply orb_true_iff. right. revert H. generalize (esc a inh). intros sc H.
      induction IH as [|c0 r Hc _ IHr]; [discriminate|]. cbn [items_viol] in H. cbn [dup_items].
      destruct (item_viol sc c0) as [y|] eqn:Ey.
      * injection H as ->. rewrite (Hc sc Ey). reflexivity.
      * rewrite (IHr H). apply orb_true_r.
Qed.

Theorem d21_outside_class_variant : forall (c : doc) (opt : options) (p : bytes),
  wf_syntax_ns c = true -> first_violation c = Some (DupPrefix p) -> fits c opt ->
  dup_decl_outside_xml c = true /\ exists tp, parse (render c) opt = Err (DuplicatedNamespace p tp).
Proof.
  intros c opt p Hwf Hv F. split; [apply (item_viol_dup p (d_root c) [] Hv)|apply (n6_duplicate_prefix c opt p Hwf Hv F)].
Qed.

(* an instance outside the class: the same tag with the prefix p instead of xml *)
Definition d21_neighbour : doc :=
  {| d_before := []; d_ws0 := []; d_after := []; d_ws_end := [];
     d_root := IElem (qn "" "a") [dc "p" "http://www.w3.org/XML/1998/namespac"; dc "p" "http://www.w3.org/XML/1998/namespac"] [] None |}.
Example d21_neighbour_rejected :
  d21_class d21_neighbour = false /\ exists tp, parse (render d21_neighbour) CstNsSanity.opt = Err (DuplicatedNamespace (b "p") tp).
Proof.
  split; [vm_compute; reflexivity|].
  apply (d21_outside_class_variant d21_neighbour CstNsSanity.opt (b "p")); [vm_compute; reflexivity|vm_compute; reflexivity|].
  split; [vm_compute; reflexivity|]. split; [vm_compute; intros H; discriminate H|].
  split; [apply distinct_by_count;
          match goal with |- (length ?l <= _)%nat => let n := fresh "n" in let En := fresh "En" in
            remember (length l) as n eqn:En; vm_compute in En; subst n; lia end|vm_compute; intros H; discriminate H].
Qed.

Print Assumptions d21_refuted.
Print Assumptions d21_wf_for_spec.
Print Assumptions d21_outside_class.
Print Assumptions d21_outside_class_variant.
Print Assumptions d21_neighbour_rejected.
