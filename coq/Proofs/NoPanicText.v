(* Proofs/NoPanicText.v -- the TextBuffer always holds valid UTF-8 when it is finished
   (String::from_utf8(..).unwrap() cannot fail); normalize_attribute, process_attribute,
   parse_next_chunk, process_cdata do not panic. *)
From Coq Require Import Ascii String.
From Coq Require Import List Arith NArith Bool Lia ZifyBool ZifyN ZifyNat.
Import ListNotations.
From RX Require Import Generated.
From RX.Model Require Import Base CharClass Stream Tokenizer Doc Builder Parse.
From RX.Proofs Require Import Tactics NoPanicUtf8 NoPanicStream NoPanicBuilder NoPanicBuilderCtx.
Open Scope N_scope.

(* ---------------------------------------------------------------------------------------- *)
(* pushes on a buffer that holds valid UTF-8                                                *)
(* ---------------------------------------------------------------------------------------- *)

Lemma Valid_snoc_ascii B x : Valid B -> ascii x = true -> Valid (B ++ [x]).
Proof. intros. apply Valid_app; auto. apply Valid_ascii; auto. Qed.

Lemma flush_valid t : Valid (tb_buf t) -> Valid (tb_buf (tb_flush t)).
Proof.
  intros H. unfold tb_flush. destruct (tb_pending_cr t); cbn; auto.
  apply Valid_snoc_ascii; auto.
Qed.

Lemma flush_pending t : tb_pending_cr (tb_flush t) = false.
Proof. unfold tb_flush. destruct (tb_pending_cr t) eqn:E; cbn; auto. Qed.

Lemma push_from_text_ascii t x : Valid (tb_buf t) -> ascii x = true ->
  Valid (tb_buf (tb_push_from_text x t)).
Proof.
  intros H Hx. unfold tb_push_from_text.
  destruct (tb_pending_cr t); cbn.
  - destruct (x =? 10); cbn; [apply Valid_snoc_ascii; auto|].
    destruct (x =? 13); cbn; [apply Valid_snoc_ascii; auto|].
    apply Valid_snoc_ascii; auto. apply Valid_snoc_ascii; auto.
  - destruct (x =? 13); cbn; auto. apply Valid_snoc_ascii; auto.
Qed.

Lemma push_from_attr_ascii t x nxt : Valid (tb_buf t) -> ascii x = true ->
  Valid (tb_buf (tb_push_from_attr x nxt t)) /\
  tb_pending_cr (tb_push_from_attr x nxt t) = tb_pending_cr t.
Proof.
  intros H Hx. unfold tb_push_from_attr.
  destruct (_ && _); cbn; auto. split; auto.
  apply Valid_snoc_ascii; auto. destruct (_ || _); auto.
Qed.

Lemma push_raw_ascii t x : Valid (tb_buf t) -> ascii x = true ->
  Valid (tb_buf (tb_push_raw x t)).
Proof.
  intros H Hx. unfold tb_push_raw. cbn. apply Valid_snoc_ascii; auto. apply flush_valid; auto.
Qed.

Definition high (x : N) : bool := 128 <=? x.

(* a byte >= 128 is pushed as it is, after the pending line feed *)
Lemma push_from_text_high t x : high x = true ->
  tb_push_from_text x t = {| tb_buf := tb_buf (tb_flush t) ++ [x]; tb_pending_cr := false |}.
Proof.
  unfold high, tb_push_from_text, tb_flush. intros Hx.
  destruct (tb_pending_cr t) eqn:E; cbn.
  - assert ((x =? 10) = false) as -> by lia. assert ((x =? 13) = false) as -> by lia. reflexivity.
  - assert ((x =? 13) = false) as -> by lia. rewrite E. reflexivity.
Qed.

Lemma push_from_attr_high t x nxt : high x = true ->
  tb_push_from_attr x nxt t = {| tb_buf := tb_buf t ++ [x]; tb_pending_cr := tb_pending_cr t |}.
Proof.
  unfold high, tb_push_from_attr. intros Hx.
  assert ((x =? 13) = false) as -> by lia. assert ((x =? 10) = false) as -> by lia.
  assert ((x =? 9) = false) as -> by lia. reflexivity.
Qed.

Lemma push_char_bytes_text_high ie : forall bs t, forallb high bs = true -> bs <> [] ->
  tb_buf (push_char_bytes_text bs ie t) = tb_buf (tb_flush t) ++ bs.
Proof.
  induction bs as [|x bs IH]; intros t Hh Hne; [contradiction|].
  cbn [forallb] in Hh. apply andb_true_iff in Hh as [Hx Hh]. cbn [push_char_bytes_text].
  set (t1 := if ie then tb_push_from_text x t else tb_push_raw x t).
  assert (E1 : t1 = {| tb_buf := tb_buf (tb_flush t) ++ [x]; tb_pending_cr := false |}).
  { unfold t1. destruct ie; [apply push_from_text_high; auto|reflexivity]. }
  destruct bs as [|y bs'].
  - cbn. rewrite E1. reflexivity.
  - rewrite IH; auto; [|discriminate]. rewrite E1. unfold tb_flush at 1. cbn.
    rewrite <- app_assoc. reflexivity.
Qed.

Lemma push_char_bytes_text_valid ie c t : is_scalar c = true -> Valid (tb_buf t) ->
  Valid (tb_buf (push_char_bytes_text (encode_utf8 c) ie t)).
Proof.
  intros Hc Ht. destruct (c <? 128) eqn:E.
  - rewrite encode_ascii by auto. cbn. destruct ie.
    + apply push_from_text_ascii; auto.
    + apply push_raw_ascii; auto.
  - rewrite push_char_bytes_text_high.
    + apply Valid_app; [apply flush_valid; auto|apply Valid_encode; auto].
    + apply encode_high; auto.
    + pose proof (encode_nonempty c). destruct (encode_utf8 c); cbn in *; [lia|discriminate].
Qed.

Lemma push_char_bytes_attr_high ie : forall bs t t', forallb high bs = true ->
  push_char_bytes_attr bs ie t = Some t' ->
  tb_pending_cr t = false ->
  tb_buf t' = tb_buf t ++ bs /\ tb_pending_cr t' = false.
Proof.
  induction bs as [|x bs IH]; intros t t' Hh H Hp; cbn [push_char_bytes_attr] in H.
  { inversion H; subst. rewrite app_nil_r. auto. }
  cbn [forallb] in Hh. apply andb_true_iff in Hh as [Hx Hh].
  destruct ie.
  - assert ((x =? 60) = false) as E by (unfold high in Hx; lia). rewrite E in H.
    rewrite push_from_attr_high in H by auto.
    apply IH in H; auto. cbn in H. destruct H as [H1 H2]. rewrite H1, <- app_assoc. auto.
  - apply IH in H; auto; try reflexivity.
    unfold tb_push_raw, tb_flush in H. rewrite Hp in H. cbn in H.
    destruct H as [H1 H2]. rewrite H1, <- app_assoc. auto.
Qed.

Lemma push_char_bytes_attr_valid ie c t t' : is_scalar c = true -> Valid (tb_buf t) ->
  tb_pending_cr t = false ->
  push_char_bytes_attr (encode_utf8 c) ie t = Some t' ->
  Valid (tb_buf t') /\ tb_pending_cr t' = false.
Proof.
  intros Hc Ht Hp H. destruct (c <? 128) eqn:E.
  - rewrite encode_ascii in H by auto. cbn in H. destruct ie.
    + destruct (c =? 60); [discriminate|]. inversion H; subst.
      destruct (push_from_attr_ascii t c None Ht E) as [H1 H2]. split; auto. congruence.
    + inversion H; subst. split; [apply push_raw_ascii; auto|reflexivity].
  - apply push_char_bytes_attr_high in H; auto; [|apply encode_high; auto].
    destruct H as [H1 H2]. split; auto. rewrite H1. apply Valid_app; auto. apply Valid_encode; auto.
Qed.

Lemma tb_finish_safe t : Valid (tb_buf t) -> safe (tb_finish t) (fun _ => True).
Proof.
  intros H. unfold tb_finish. cbv zeta.
  apply flush_valid in H. apply valid_iff_Valid in H. rewrite H. exact I.
Qed.

(* ---------------------------------------------------------------------------------------- *)
(* the loop of norm_attr_lvl, by name                                                       *)
(* ---------------------------------------------------------------------------------------- *)

Section AttrLoop.
Variable text : bytes.
Variable lvl' : nat.
Variable entities : list entity.
Notation stream := Stream.stream.
Fixpoint attr_loop (fuel : nat) (s : stream) (t : text_buffer) (ld : loop_detector) {struct fuel}
  : res (text_buffer * loop_detector) :=
  match fuel with
  | O => OutOfFuel
  | S fu =>
    if at_end s then Ok (t, ld) else
    let! x := curr_byte_unchecked s in
    if negb (x =? 38) then
      if (x =? 60) && (0 <? ld_depth ld) then err_at text s InvalidAttributeValue
      else
        let! s := advance 1 s in
        attr_loop fu s (tb_push_from_attr x (curr_byte_opt s) t) ld
    else
      let start := s_pos s in
      let! r := consume_reference text s in
      match r with
      | Some (RefChar ch, s) =>
        match push_char_bytes_attr (encode_utf8 ch) (0 <? ld_depth ld) t with
        | Some t => attr_loop fu s t ld
        | None => err_from text start InvalidAttributeValue
        end
      | Some (RefEntity name, s) =>
        match find_entity text entities (slice_bytes text name) with
        | Some e =>
          let! ld := inc_references text s ld in
          let! ld := inc_depth text s ld in
          let! (t, ld) := norm_attr_lvl text lvl' entities (en_value e) t ld in
          attr_loop fu s t (dec_depth ld)
        | None => err_from text start (UnknownEntityReference (slice_bytes text name))
        end
      | None => err_from text start MalformedEntityReference
      end
  end.
End AttrLoop.

Lemma norm_attr_lvl_S text lvl' entities value t ld :
  norm_attr_lvl text (S lvl') entities value t ld =
  let! s0 := stream_from_substr text (sl_start value) (sl_end value) in
  attr_loop text lvl' entities (S (length (s_rest s0))) s0 t ld.
Proof. reflexivity. Qed.

Section WithText.
Variable text : bytes.
Hypothesis Hvalid : valid_utf8_b text = true.

Notation Bd := (Boundary text).
Notation stream := Stream.stream.
Notation SInv0 := (SInv0 text).
Notation SInv := (SInv text).
Notation Ext := (Ext text).

(* ---- the buffer while the stream is in the middle of a char ---- *)

Definition PV (t : text_buffer) (p : N) : Prop :=
  exists q B, Bd q /\ q <= p /\ Valid B /\ tb_buf t = B ++ sub text q p /\
              (tb_pending_cr t = true -> q = p).

Lemma PV_valid t p : PV t p -> Bd p -> Valid (tb_buf t).
Proof.
  intros (q & B & Hq & Hle & HB & E & _) Hp. rewrite E. apply Valid_app; auto.
  apply Valid_sub'; auto.
Qed.

Lemma PV_of_valid t p : Valid (tb_buf t) -> Bd p -> PV t p.
Proof.
  clear Hvalid.
  intros H Hp. exists p, (tb_buf t). repeat split; auto; try lia; try apply Hp.
  rewrite sub_nil, app_nil_r. reflexivity.
Qed.

Lemma sub_snoc q p x r : skipn (N.to_nat p) text = x :: r -> q <= p ->
  sub text q (p + 1) = sub text q p ++ [x].
Proof.
  clear Hvalid.
  intros Hs Hle. rewrite (sub_split text q p (p + 1)) by lia. f_equal.
  unfold sub. replace (N.to_nat (p + 1 - p)) with 1%nat by lia. rewrite Hs. reflexivity.
Qed.

Lemma byte_pos_lt p x r : skipn (N.to_nat p) text = x :: r -> p < blen text.
Proof.
  clear Hvalid.
  intros Hs. unfold blen. destruct (Nat.lt_ge_cases (N.to_nat p) (length text)); [lia|].
  rewrite skipn_all2 in Hs by lia. discriminate.
Qed.

(* a raw byte >= 128 *)
Lemma PV_high_text t p x r : PV t p -> skipn (N.to_nat p) text = x :: r -> high x = true ->
  PV (tb_push_from_text x t) (p + 1).
Proof.
  clear Hvalid.
  intros (q & B & Hq & Hle & HB & E & Hp) Hs Hx. rewrite push_from_text_high by auto.
  unfold tb_flush. destruct (tb_pending_cr t) eqn:Ep; cbn.
  - specialize (Hp eq_refl). subst q. rewrite sub_nil, app_nil_r in E.
    exists p, (B ++ [10]). cbn [tb_buf tb_pending_cr].
    repeat split; auto; try lia; try apply Hq; try discriminate.
    + apply Valid_snoc_ascii; auto.
    + rewrite E. f_equal. rewrite (sub_snoc p p x r) by (auto; lia). rewrite sub_nil. reflexivity.
  - exists q, B. cbn [tb_buf tb_pending_cr].
    repeat split; auto; try lia; try apply Hq; try discriminate.
    rewrite E, <- app_assoc. f_equal. symmetry. eapply sub_snoc; eauto.
Qed.

Lemma PV_high_attr t p x r nxt : PV t p -> tb_pending_cr t = false ->
  skipn (N.to_nat p) text = x :: r -> high x = true ->
  PV (tb_push_from_attr x nxt t) (p + 1) /\ tb_pending_cr (tb_push_from_attr x nxt t) = false.
Proof.
  clear Hvalid.
  intros (q & B & Hq & Hle & HB & E & Hp) Hpc Hs Hx. rewrite push_from_attr_high by auto. cbn.
  split; auto. exists q, B. cbn [tb_buf tb_pending_cr].
  repeat split; auto; try lia; try apply Hq; try congruence.
  rewrite E, <- app_assoc. f_equal. symmetry. eapply sub_snoc; eauto.
Qed.

(* an ASCII byte: we are at a boundary *)
Lemma ascii_byte_Bd p x r : skipn (N.to_nat p) text = x :: r -> ascii x = true -> Bd p /\ Bd (p + 1).
Proof.
  intros Hs Hx.
  assert (Hb : Bd p) by (eapply Boundary_noncont; eauto; apply ascii_not_cont; auto).
  split; auto. eapply Boundary_ascii_step; eauto.
Qed.

Lemma PV_ascii_text t p x r : PV t p -> skipn (N.to_nat p) text = x :: r -> ascii x = true ->
  PV (tb_push_from_text x t) (p + 1).
Proof.
  intros Ht Hs Hx. destruct (ascii_byte_Bd p x r Hs Hx) as [Hb Hb1].
  apply PV_of_valid; auto. apply push_from_text_ascii; auto. eapply PV_valid; eauto.
Qed.

Lemma PV_ascii_attr t p x r nxt : PV t p -> tb_pending_cr t = false ->
  skipn (N.to_nat p) text = x :: r -> ascii x = true ->
  PV (tb_push_from_attr x nxt t) (p + 1) /\ tb_pending_cr (tb_push_from_attr x nxt t) = false.
Proof.
  intros Ht Hpc Hs Hx. destruct (ascii_byte_Bd p x r Hs Hx) as [Hb Hb1].
  destruct (push_from_attr_ascii t x nxt (PV_valid t p Ht Hb) Hx) as [H1 H2].
  split; [apply PV_of_valid; auto|congruence].
Qed.

Lemma ascii_or_high x : ascii x = true \/ high x = true.
Proof. unfold ascii, high. lia. Qed.

Lemma PV_byte_text t p x r : PV t p -> skipn (N.to_nat p) text = x :: r ->
  PV (tb_push_from_text x t) (p + 1).
Proof.
  intros Ht Hs. destruct (ascii_or_high x); [eapply PV_ascii_text|eapply PV_high_text]; eauto.
Qed.

Lemma PV_byte_attr t p x r nxt : PV t p -> tb_pending_cr t = false ->
  skipn (N.to_nat p) text = x :: r ->
  PV (tb_push_from_attr x nxt t) (p + 1) /\ tb_pending_cr (tb_push_from_attr x nxt t) = false.
Proof.
  intros Ht Hpc Hs. destruct (ascii_or_high x); [eapply PV_ascii_attr|eapply PV_high_attr]; eauto.
Qed.

(* ---- stepping one byte with the weak stream invariant ---- *)

Lemma advance1_SInv0 s : SInv0 s -> s_pos s < s_end s ->
  exists s1, advance 1 s = Ok s1 /\ SInv0 s1 /\ s_pos s1 = s_pos s + 1 /\ s_end s1 = s_end s.
Proof.
  clear Hvalid.
  intros (Hr & Hpe & Het & Hbe) Hlt. unfold advance.
  destruct (s_end s <? s_pos s + 1) eqn:E; [lia|]. eexists; split; [reflexivity|].
  unfold NoPanicStream.SInv0. cbn. repeat split; auto; try lia; try apply Hbe.
  rewrite Hr, skipn_skipn'. f_equal. lia.
Qed.

Lemma SInv0_at_end_Bd s : SInv0 s -> at_end s = true -> Bd (s_pos s).
Proof.
  clear Hvalid.
  intros (Hr & Hpe & Het & Hbe) E. unfold at_end in E.
  replace (s_pos s) with (s_end s) by lia. exact Hbe.
Qed.

Lemma SInv0_byte s x r : SInv0 s -> s_rest s = x :: r -> skipn (N.to_nat (s_pos s)) text = x :: r.
Proof. clear Hvalid. intros (Hr & _) H. congruence. Qed.

Lemma SInv_of_byte s x r : SInv0 s -> s_rest s = x :: r -> is_cont x = false -> SInv s.
Proof.
  clear Hvalid.
  intros H0 Hr Hx. split; auto. eapply Boundary_noncont; eauto. eapply SInv0_byte; eauto.
Qed.

(* ---- loop detector ---- *)

Lemma inc_references_safe s ld : Bd (s_pos s) -> safe (inc_references text s ld) (fun _ => True).
Proof.
  intros Hb. unfold inc_references. destruct (_ =? 0); [exact I|].
  destruct (_ =? _); [apply err_at_safe'; auto|exact I].
Qed.

Lemma inc_depth_safe s ld : Bd (s_pos s) -> safe (inc_depth text s ld) (fun _ => True).
Proof.
  intros Hb. unfold inc_depth. destruct (_ <? _); [exact I|apply err_at_safe'; auto].
Qed.

Lemma find_entity_In : forall es name e, find_entity text es name = Some e -> In e es.
Proof.
  clear Hvalid.
  induction es as [|e0 es IH]; intros name e; cbn [find_entity]; [discriminate|].
  destruct (bytes_eqb _ _); intros H; [inversion H; subst; left; auto|right; eauto].
Qed.

Definition EntsOk (es : list entity) : Prop := Forall (fun e => SliceOk text (en_value e)) es.

(* ---- norm_attr_lvl ---- *)

Definition BufOk (r : text_buffer * loop_detector) : Prop :=
  Valid (tb_buf (fst r)) /\ tb_pending_cr (fst r) = false.

Lemma attr_loop_safe lvl' entities :
  EntsOk entities ->
  (forall value t ld, SliceOk text value -> Valid (tb_buf t) -> tb_pending_cr t = false ->
     safe (norm_attr_lvl text lvl' entities value t ld) BufOk) ->
  forall fuel s t ld, SInv0 s -> PV t (s_pos s) -> tb_pending_cr t = false ->
    safe (attr_loop text lvl' entities fuel s t ld) BufOk.
Proof.
  intros Hents IHlvl. induction fuel as [|fu IH]; intros s t ld Hs Ht Hp; cbn [attr_loop]; [exact I|].
  destruct (at_end s) eqn:Eend.
  { cbn. split; auto. cbn. eapply PV_valid; eauto. apply SInv0_at_end_Bd; auto. }
  eapply safe_bind; [apply (curr_byte_unchecked_safe text); auto|]. intros x (r & Hr & Hlt). cbv beta.
  pose proof (SInv0_byte s x r Hs Hr) as Hbyte.
  destruct (x =? 38) eqn:E38; cbn [negb].
  - (* a reference *)
    assert (x = 38) by lia. subst x.
    assert (Hsi : SInv s) by (eapply SInv_of_byte; eauto).
    cbv zeta.
    eapply safe_bind; [apply consume_reference_safe; auto|].
    intros [[[name|ch] s1]|] Hr1; [| |apply err_from_safe; auto].
    + destruct Hr1 as [H1 _].
      destruct (find_entity text entities (slice_bytes text name)) as [e|] eqn:Ef;
        [|apply err_from_safe; auto].
      apply find_entity_In in Ef. unfold EntsOk in Hents. rewrite Forall_forall in Hents.
      pose proof (Hents _ Ef) as He.
      eapply safe_bind; [apply inc_references_safe; apply H1|]. intros ld1 _. cbv beta.
      eapply safe_bind; [apply inc_depth_safe; apply H1|]. intros ld2 _. cbv beta.
      eapply safe_bind; [apply IHlvl; auto; eapply PV_valid; eauto; apply Hsi|].
      intros [t1 ld3] [Hv1 Hp1]. cbn [fst] in Hv1, Hp1. cbv beta iota.
      apply IH; auto; [apply H1|]. apply PV_of_valid; auto. apply H1.
    + destruct Hr1 as [H1 Hch]. cbn in Hch.
      destruct (push_char_bytes_attr _ _ t) as [t1|] eqn:Epush; [|apply err_from_safe; auto].
      apply push_char_bytes_attr_valid in Epush; auto; [|eapply PV_valid; eauto; apply Hsi].
      destruct Epush as [Hv1 Hp1].
      apply IH; auto; [apply H1|]. apply PV_of_valid; auto. apply H1.
  - destruct ((x =? 60) && (0 <? ld_depth ld)) eqn:E60.
    { apply err_at_safe'. eapply Boundary_noncont; eauto. unfold is_cont. lia. }
    destruct (advance1_SInv0 s Hs Hlt) as (s1 & -> & Hs1 & Hp1 & He1). cbn [bind].
    destruct (PV_byte_attr t (s_pos s) x r (curr_byte_opt s1) Ht Hp Hbyte) as [Ht1 Hpc1].
    apply IH; auto. rewrite Hp1. exact Ht1.
Qed.

Lemma norm_attr_lvl_safe : forall lvl entities, EntsOk entities ->
  forall value t ld, SliceOk text value -> Valid (tb_buf t) -> tb_pending_cr t = false ->
  safe (norm_attr_lvl text lvl entities value t ld) BufOk.
Proof.
  induction lvl as [|lvl IH]; intros entities Hents value t ld (Ha & He & Hae) Hv Hp.
  { exact I. }
  rewrite norm_attr_lvl_S.
  eapply safe_bind; [apply stream_from_substr_safe; auto|]. intros s0 (Hs0 & Hp0 & He0). cbv beta.
  apply attr_loop_safe; auto.
  - apply Hs0.
  - apply PV_of_valid; auto. apply Hs0.
Qed.

(* ---- normalize_attribute, process_attribute ---- *)

Notation Core := (Core text).

Lemma Core_set_ld c ld : Core c -> Core (set_ld c ld).
Proof. clear Hvalid. intros [L Ch P Aw Af Ns D En Cu]. split; cbn; auto. Qed.

Lemma Core_set_cur_attrs c l : Core c -> Forall (fun a => snd (ta_range a) <> 0) l ->
  Core (set_cur_attrs c l).
Proof. clear Hvalid. intros [L Ch P Aw Af Ns D En Cu] Hl. split; cbn; auto. Qed.

Lemma normalize_attribute_safe value c : Core c -> SliceOk text value ->
  safe (normalize_attribute text value c)
       (fun '(_, c') => Core c' /\ c_tag_name c' = c_tag_name c /\
                        c_doc c' = c_doc c /\ c_ns_start_idx c' = c_ns_start_idx c).
Proof.
  intros Hc Hv. unfold normalize_attribute. cbv zeta.
  destruct (existsb _ _); [|cbn; auto].
  eapply safe_bind.
  { apply norm_attr_lvl_safe; auto; try apply Hc; try apply Valid_nil; try reflexivity. }
  intros [t ld] [Ht _]. cbn [fst] in Ht. cbv beta iota.
  eapply safe_bind; [apply tb_finish_safe; auto|]. intros bs _. cbn.
  split; [apply Core_set_ld; auto|auto].
Qed.

Lemma process_attribute_safe r qn eq prefix local value c : Core c -> SliceOk text value ->
  snd r <> 0 ->
  safe (process_attribute text r qn eq prefix local value c)
       (fun c' => Core c' /\ c_tag_name c' = c_tag_name c).
Proof.
  intros Hc Hv Hr0. unfold process_attribute.
  eapply safe_bind; [apply normalize_attribute_safe; auto|].
  intros [v c1] (H1 & Ht1 & Hd1 & Hn1). cbv beta iota zeta.
  pose proof (core_doc text c1 H1) as Hdoc. pose proof (core_ns_start text c1 H1) as Hns.
  assert (Hpush : forall name, safe (let! d := push_ns text name v (c_doc c1) in Ok (set_doc c1 d))
                                    (fun c' => Core c' /\ c_tag_name c' = c_tag_name c)).
  { intros name. eapply safe_bind; [apply push_ns_safe; auto|].
    intros d' (R & _ & _). cbn. split; [apply Core_set_doc; auto|auto]. }
  destruct (bytes_eqb (slice_bytes text prefix) xmlns_str).
  - destruct (bytes_eqb _ xmlns_str); [apply err_from_safe; auto|].
    destruct (bytes_eqb _ ns_xmlns_uri); [apply err_from_safe; auto|].
    destruct (_ && _); [apply err_from_safe; auto|].
    destruct (_ && _); [apply err_from_safe; auto|].
    eapply safe_bind; [apply ns_exists_safe; auto|]. intros ex _. cbv beta.
    destruct ex; [apply err_from_safe; auto|].
    destruct (negb _); [apply Hpush|cbn; auto].
  - destruct (_ && bytes_eqb _ xmlns_str).
    + destruct (bytes_eqb _ ns_xml_uri); [apply err_from_safe; auto|].
      destruct (bytes_eqb _ ns_xmlns_uri); [apply err_from_safe; auto|].
      eapply safe_bind; [apply ns_exists_safe; auto|]. intros ex _. cbv beta.
      destruct ex; [apply err_from_safe; auto|]. apply Hpush.
    + cbn. split; [apply Core_set_cur_attrs; auto|auto].
      apply Forall_app; split; [apply H1|]. constructor; auto.
Qed.

(* ---- process_cdata ---- *)

Lemma process_cdata_safe txt r c : Core c ->
  safe (process_cdata text txt r c) (fun c' => Core c' /\ c_tag_name c' = c_tag_name c).
Proof.
  clear Hvalid. intros Hc. unfold process_cdata. cbv zeta.
  destruct (mem_b 13 _); apply append_text_safe; auto.
Qed.

(* ---- parse_next_chunk ---- *)

Definition ChunkOk (s : stream) (r : next_chunk * stream) : Prop :=
  let s1 := snd r in
  s_end s1 = s_end s /\
  match fst r with
  | ChByte x => SInv0 s1 /\ s_pos s1 = s_pos s + 1 /\ exists r', s_rest s = x :: r'
  | ChChar cp => SInv s1 /\ is_scalar cp = true /\ Bd (s_pos s)
  | ChText v => SInv s1 /\ SliceOk text v /\ Bd (s_pos s)
  end.

Lemma parse_next_chunk_safe s entities : SInv0 s -> at_end s = false -> EntsOk entities ->
  safe (parse_next_chunk text s entities) (ChunkOk s).
Proof.
  intros Hs Eend Hents. unfold parse_next_chunk. rewrite Eend.
  eapply safe_bind; [apply (curr_byte_unchecked_safe text); auto|]. intros x (r & Hr & Hlt). cbv beta.
  destruct (x =? 38) eqn:E38.
  - assert (x = 38) by lia. subst x.
    assert (Hsi : SInv s) by (eapply SInv_of_byte; eauto).
    cbv zeta.
    eapply safe_bind; [apply consume_reference_safe; auto|].
    intros [[[name|ch] s1]|] Hr1; [| |apply err_from_safe; auto].
    + destruct Hr1 as [H1 _].
      destruct (find_entity text entities (slice_bytes text name)) as [e|] eqn:Ef;
        [|apply err_from_safe; auto].
      apply find_entity_In in Ef. unfold EntsOk in Hents. rewrite Forall_forall in Hents.
      pose proof (Hents _ Ef) as He.
      cbn. split; [apply H1|]. split; [apply H1|]. split; [exact He|apply Hsi].
    + destruct Hr1 as [H1 Hch]. cbn in Hch.
      cbn. split; [apply H1|]. split; [apply H1|]. split; [exact Hch|apply Hsi].
  - destruct (advance1_SInv0 s Hs Hlt) as (s1 & -> & Hs1 & Hp1 & He1). cbn.
    split; auto. split; auto. split; auto. eauto.
Qed.

End WithText.
