(* Proofs/ErrShiftBase.v -- C14 (errors under a shift by prolog whitespace), part 1: errors up to
   their position, the relation between the errors of the two runs, and the lockstep relation of
   RangeShiftBase.v refined on the error side. *)
From Coq Require Import List Arith NArith Bool Lia ZifyBool ZifyN ZifyNat.
Import ListNotations.
From RX Require Import Generated.
From RX.Model Require Import Base CharClass Stream.
From RX.Proofs Require Import Tactics NoPanicUtf8 NoPanicStream RangeShiftBase RangeShiftStream.
Open Scope N_scope.

(* the error with its position erased *)
Definition err_kind (e : error) : error :=
  let z := (0, 0) in
  match e with
  | InvalidXmlPrefixUri _ => InvalidXmlPrefixUri z
  | UnexpectedXmlUri _ => UnexpectedXmlUri z
  | UnexpectedXmlnsUri _ => UnexpectedXmlnsUri z
  | InvalidElementNamePrefix _ => InvalidElementNamePrefix z
  | DuplicatedNamespace s _ => DuplicatedNamespace s z
  | UnknownNamespace s _ => UnknownNamespace s z
  | UnexpectedCloseTag a b _ => UnexpectedCloseTag a b z
  | UnexpectedEntityCloseTag _ => UnexpectedEntityCloseTag z
  | UnknownEntityReference s _ => UnknownEntityReference s z
  | MalformedEntityReference _ => MalformedEntityReference z
  | EntityReferenceLoop _ => EntityReferenceLoop z
  | InvalidAttributeValue _ => InvalidAttributeValue z
  | DuplicatedAttribute s _ => DuplicatedAttribute s z
  | UnexpectedDeclaration _ => UnexpectedDeclaration z
  | InvalidName _ => InvalidName z
  | NonXmlChar c _ => NonXmlChar c z
  | InvalidChar a b _ => InvalidChar a b z
  | InvalidChar2 a b _ => InvalidChar2 a b z
  | InvalidString a _ => InvalidString a z
  | InvalidExternalID _ => InvalidExternalID z
  | InvalidComment _ => InvalidComment z
  | InvalidCharacterData _ => InvalidCharacterData z
  | UnknownToken _ => UnknownToken z
  | NoRootNode | UnclosedRootNode | DtdDetected | NodesLimitReached
  | AttributesLimitReached | NamespacesLimitReached | UnexpectedEndOfStream => e
  end.

Definition has_pos (e : error) : bool :=
  match e with
  | NoRootNode | UnclosedRootNode | DtdDetected | NodesLimitReached
  | AttributesLimitReached | NamespacesLimitReached | UnexpectedEndOfStream => false
  | _ => true
  end.

(* a constructor applied to everything but its position *)
Definition pos_ctor (mk : textpos -> error) : Prop :=
  (forall p, error_pos (mk p) = p) /\ (forall p q, err_kind (mk p) = err_kind (mk q)) /\
  (forall p, has_pos (mk p) = true).

Ltac pc := split; [|split]; intros; reflexivity.

Definition nopos_res {A} (r : res A) : Prop :=
  match r with Err e => has_pos e = false | _ => True end.

Section Shift.
Variable ws text : bytes.
Hypothesis Hvalid : valid_utf8_b text = true.
Hypothesis Hws : forallb byte_is_space ws = true.
Notation text2 := (ws ++ text).
Notation k := (blen ws).
Notation shs := (sh_s k).
Notation shl := (sh_sl k).

(* positions of the same place of the document in the two texts *)
Definition PosRel (tp tp' : textpos) : Prop :=
  exists off, off <= tlen text /\ is_boundary text off = true /\
              gen_text_pos_at text off = Ok tp /\ gen_text_pos_at text2 (off + k) = Ok tp'.

Inductive ErrRel : error -> error -> Prop :=
| ER_same e : has_pos e = false -> ErrRel e e
| ER_pos e e' : has_pos e = true -> err_kind e = err_kind e' ->
                PosRel (error_pos e) (error_pos e') -> ErrRel e e'.

Lemma ErrRel_mk mk tp tp' : pos_ctor mk -> PosRel tp tp' -> ErrRel (mk tp) (mk tp').
Proof.
  intros (H1 & H2 & H3) HP. apply ER_pos; [apply H3|apply H2|]. rewrite !H1. exact HP.
Qed.

(* lockstep results, with related errors *)
Definition rsimE {A B} (f : A -> B) (r1 : res A) (r2 : res B) : Prop :=
  match r1 with
  | Ok a => r2 = Ok (f a)
  | Err e => exists e', r2 = Err e' /\ ErrRel e e'
  | Panic p => r2 = Panic p
  | OutOfFuel => r2 = OutOfFuel
  end.

Lemma rsimE_bind {A B A' B'} (f : A -> A') (g : B -> B') r1 r2 k1 k2 :
  rsimE f r1 r2 -> (forall a, r1 = Ok a -> rsimE g (k1 a) (k2 (f a))) ->
  rsimE g (bind r1 k1) (bind r2 k2).
Proof.
  intros H Hk. destruct r1; cbn [rsimE bind] in *.
  - subst r2. cbn [bind]. apply Hk. reflexivity.
  - destruct H as [e' [-> He]]. cbn. eauto.
  - subst r2. reflexivity.
  - subst r2. reflexivity.
Qed.

Lemma rsimE_ok {A B} (f : A -> B) r1 r2 a : rsimE f r1 r2 -> r1 = Ok a -> r2 = Ok (f a).
Proof. intros H ->. exact H. Qed.
Lemma rsimE_err {A B} (f : A -> B) (r1 : res A) (r2 : res B) e :
  rsimE f r1 r2 -> r1 = Err e -> exists e', r2 = Err e' /\ ErrRel e e'.
Proof. intros H ->. exact H. Qed.

Lemma rsimE_ret {A B} (f : A -> B) a b : b = f a -> rsimE f (Ok a) (Ok b).
Proof. intros ->. reflexivity. Qed.
Lemma rsimE_same_err {A B} (f : A -> B) e : has_pos e = false -> rsimE f (Err e) (Err e).
Proof. intros H. cbn. exists e. split; [reflexivity|apply ER_same; exact H]. Qed.
Lemma rsimE_panic {A B} (f : A -> B) p : rsimE f (Panic p) (Panic p).
Proof. reflexivity. Qed.
Lemma rsimE_fuel {A B} (f : A -> B) : rsimE f OutOfFuel OutOfFuel.
Proof. reflexivity. Qed.

(* the same computation on both sides, which can only fail without a position *)
Lemma id_simE {A} (r : res A) : nopos_res r -> rsimE idf r r.
Proof. destruct r; cbn; eauto. intros H. exists e. split; [reflexivity|apply ER_same; exact H]. Qed.

(* a relation of RangeShift* between computations that never return an error *)
Lemma rsimf_E {A B} (f : A -> B) r1 r2 : (forall e, r1 <> Err e) -> rsimf f r1 r2 -> rsimE f r1 r2.
Proof. destruct r1; cbn; auto. intros H. exfalso. apply (H e). reflexivity. Qed.

(* both sides fail, with related errors *)
Definition both_failE {A B} (r1 : res A) (r2 : res B) : Prop :=
  match r1 with
  | Ok _ => False
  | Err e => exists e', r2 = Err e' /\ ErrRel e e'
  | Panic p => r2 = Panic p
  | OutOfFuel => r2 = OutOfFuel
  end.
Lemma both_failE_bind {A B A' B'} (f : A' -> B') (r1 : res A) (r2 : res B) k1 k2 :
  both_failE r1 r2 -> rsimE f (bind r1 k1) (bind r2 k2).
Proof.
  destruct r1; cbn; try contradiction.
  - intros [e' [-> He]]. cbn. eauto.
  - intros ->. reflexivity.
  - intros ->. reflexivity.
Qed.
Lemma both_failE_sim {A' B'} (f : A' -> B') (r1 : res A') (r2 : res B') :
  both_failE r1 r2 -> rsimE f r1 r2.
Proof. destruct r1; cbn; auto; contradiction. Qed.

(* ---- positions ---- *)
Lemma gen_pos_shift p tp : gen_text_pos_at text p = Ok tp ->
  exists tp', gen_text_pos_at text2 (p + k) = Ok tp' /\ PosRel tp tp'.
Proof.
  intros H. pose proof H as H0. unfold gen_text_pos_at in H.
  destruct ((tlen text <? p) || negb (is_boundary text p)) eqn:E; [discriminate|].
  apply orb_false_iff in E. destruct E as [E1 E2]. apply negb_false_iff in E2.
  assert (H2 : exists tp', gen_text_pos_at text2 (p + k) = Ok tp').
  { unfold gen_text_pos_at. rewrite (tlen_shift ws), (is_boundary_shift ws text Hvalid), E2.
    replace (tlen text + k <? p + k) with false by lia. cbn. eauto. }
  destruct H2 as [tp' H2]. exists tp'. split; [exact H2|]. exists p. repeat split; auto. lia.
Qed.

Lemma err_at_both {A B} s mk : pos_ctor mk ->
  both_failE (@err_at text A s mk) (@err_at text2 B (shs s) mk).
Proof.
  intros Hmk. unfold err_at, gen_text_pos. rewrite s_pos_sh.
  destruct (gen_text_pos_at text (s_pos s)) as [tp| |p|] eqn:E; cbn.
  - destruct (gen_pos_shift _ _ E) as [tp' [E' HP]]. rewrite E'. cbn.
    exists (mk tp'). split; [reflexivity|apply ErrRel_mk; assumption].
  - unfold gen_text_pos_at in E. destruct (_ || _); discriminate.
  - assert (p = P_slice) by (unfold gen_text_pos_at in E; destruct (_ || _); congruence). subst p.
    unfold gen_text_pos_at in *. rewrite (tlen_shift ws), (is_boundary_shift ws text Hvalid).
    replace (tlen text + k <? s_pos s + k) with (tlen text <? s_pos s) by lia.
    destruct (_ || _); [reflexivity|discriminate].
  - unfold gen_text_pos_at in E. destruct (_ || _); discriminate.
Qed.

Lemma floor_fuel_shift : forall fuel q,
  floor_boundary_fuel text2 fuel (q + k) = floor_boundary_fuel text fuel q + k.
Proof.
  induction fuel as [|fu IH]; intros q; cbn [floor_boundary_fuel]; [reflexivity|].
  rewrite (is_boundary_shift ws text Hvalid). destruct (is_boundary text q) eqn:E; [reflexivity|].
  assert (q <> 0). { intros ->. unfold is_boundary in E. cbn in E. discriminate. }
  replace (q + k - 1) with (q - 1 + k) by lia. apply IH.
Qed.

Lemma err_from_both {A B} p mk : pos_ctor mk ->
  both_failE (@err_from text A p mk) (@err_from text2 B (p + k) mk).
Proof.
  intros Hmk. unfold err_from, gen_text_pos_from.
  rewrite (tlen_shift ws). replace (N.min (p + k) (tlen text + k)) with (N.min p (tlen text) + k) by lia.
  unfold floor_boundary. rewrite floor_fuel_shift.
  fold (floor_boundary text (N.min p (tlen text))).
  pose proof (floor_boundary_Bd text Hvalid (N.min p (tlen text)) ltac:(unfold tlen; lia)) as [Hb Hl].
  set (q := floor_boundary text (N.min p (tlen text))) in *.
  assert (E : exists tp, gen_text_pos_at text q = Ok tp).
  { unfold gen_text_pos_at, tlen. rewrite Hb. replace (blen text <? q) with false by lia. cbn. eauto. }
  destruct E as [tp E]. rewrite E. cbn [bind].
  destruct (gen_pos_shift _ _ E) as [tp' [E' HP]]. rewrite E'. cbn.
  exists (mk tp'). split; [reflexivity|apply ErrRel_mk; assumption].
Qed.

Lemma err_at_shE {A B} s mk (f : A -> B) : pos_ctor mk ->
  rsimE f (@err_at text A s mk) (@err_at text2 B (shs s) mk).
Proof. intros H. apply both_failE_sim. apply err_at_both. exact H. Qed.

Lemma err_from_shE {A B} p p' mk (f : A -> B) : pos_ctor mk -> p' = p + k ->
  rsimE f (@err_from text A p mk) (@err_from text2 B p' mk).
Proof. intros H ->. apply both_failE_sim. apply err_from_both. exact H. Qed.

Lemma err_at_bindE {A B C D} s mk (k1 : A -> res C) (k2 : B -> res D) (f : C -> D) : pos_ctor mk ->
  rsimE f (bind (@err_at text A s mk) k1) (bind (@err_at text2 B (shs s) mk) k2).
Proof. intros H. apply both_failE_bind. apply err_at_both. exact H. Qed.

End Shift.
