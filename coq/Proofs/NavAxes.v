(* Proofs/NavAxes.v -- the axes (AxisIter): ancestors, prev/next siblings, first/last children.
   Each axis starts at the node itself. *)
From Coq Require Import List NArith Bool Lia ZifyBool ZifyN ZifyNat.
From RX.Model Require Import Base Doc Builder Api.
From RX.Spec Require Import Tree Deque.
From RX.Proofs Require Import NavEnc NavLinks NavIter.
Import ListNotations.
Open Scope N_scope.

(* ------------------------------------------------------------------ *)
(* the expected lists, defined from the tree *)

(* ancestors, nearest first: follow [par] through the table *)
Fixpoint anc_chain (fuel : nat) (t : tree) (par : option N) : list N :=
  match fuel with
  | O => []
  | S f =>
    match par with
    | None => []
    | Some p =>
      p :: match find (fun e => fst (fst e) =? p) (table t) with
           | Some (_, pp, _) => anc_chain f t pp
           | None => []
           end
    end
  end.
Definition ancestor_ids (t : tree) (par : option N) : list N :=
  anc_chain (length (table t)) t par.

(* the node, its first child, the first child of that, ... *)
Fixpoint first_chain (id : N) (s : tree) : list N :=
  match s with
  | T _ cs => id :: match cs with [] => [] | c :: _ => first_chain (id + 1) c end
  end.

(* the node, its last child, the last child of that, ... *)
Fixpoint last_chain (id : N) (s : tree) : list N :=
  match s with
  | T _ cs =>
    id :: (fix go (cid : N) (l : list tree) : list N :=
             match l with
             | [] => []
             | c :: r => match r with [] => last_chain cid c | _ :: _ => go (cid + size c) r end
             end) (id + 1) cs
  end.

Fixpoint last_chain_children (cid : N) (l : list tree) : list N :=
  match l with
  | [] => []
  | c :: r => match r with [] => last_chain cid c | _ :: _ => last_chain_children (cid + size c) r end
  end.

Lemma last_chain_T id k cs : last_chain id (T k cs) = id :: last_chain_children (id + 1) cs.
Proof.
  reflexivity.
Qed.

Lemma last_chain_children_snoc l : forall cid c,
  last_chain_children cid (l ++ [c]) = last_chain (cid + sizes l) c.
Proof.
  induction l as [|c1 l IH]; intros cid c.
  - cbn [app last_chain_children]. rewrite sizes_nil. f_equal. lia.
  - cbn [app]. change (last_chain_children cid (c1 :: l ++ [c]))
      with (match l ++ [c] with [] => last_chain cid c1
            | _ :: _ => last_chain_children (cid + size c1) (l ++ [c]) end).
    destruct (l ++ [c]) eqn:E; [destruct l; discriminate|]. rewrite <- E, IH, sizes_cons.
    f_equal. lia.
Qed.

(* ------------------------------------------------------------------ *)
(* collecting an axis along a chain of steps *)
Fixpoint chain_ok (d : document) (a : axis) (x : N) (rest : list N) : Prop :=
  match rest with
  | [] => axis_step d a x = Ok None
  | y :: r => axis_step d a x = Ok (Some y) /\ chain_ok d a y r
  end.

Lemma axis_collect_chain d a rest : forall x fuel,
  chain_ok d a x rest -> (length rest + 2 <= fuel)%nat ->
  axis_collect fuel d a (Some x) = Ok (x :: rest).
Proof.
  induction rest as [|y r IH]; intros x fuel Hc Hf; cbn [chain_ok] in Hc;
    (destruct fuel as [|fu]; [lia|]); cbn [axis_collect axis_next].
  - rewrite Hc. cbn [bind]. destruct fu as [|fu]; [cbn [length] in Hf; lia|]. reflexivity.
  - destruct Hc as [Hs Hc]. rewrite Hs. cbn [bind].
    rewrite (IH y fu Hc) by (cbn [length] in Hf; lia). reflexivity.
Qed.

Lemma axis_list_chain d t a x rest :
  Arena' d t -> chain_ok d a x rest -> N.of_nat (length rest) <= size t ->
  axis_list d a x = Ok (x :: rest).
Proof.
  intros HA Hc Hl. unfold axis_list. apply axis_collect_chain; [exact Hc|].
  pose proof (arena_len _ _ HA) as Hlen. unfold len_N in Hlen. lia.
Qed.

(* ------------------------------------------------------------------ *)
(* ancestors *)
Lemma table_length t : length (table t) = N.to_nat (size t).
Proof.
  rewrite <- (map_length (fun e => fst (fst e))), table_ids, N_range_length. reflexivity.
Qed.

Lemma anc_chain_length fuel t par : (length (anc_chain fuel t par) <= fuel)%nat.
Proof.
  revert par; induction fuel as [|f IH]; intros par; cbn [anc_chain length]; [lia|].
  destruct par as [p|]; cbn [length]; [|lia].
  destruct (find _ _) as [[[? pp] ?]|]; [|cbn [length]; lia].
  specialize (IH pp). lia.
Qed.

Lemma anc_chain_ok d t : Arena' d t -> forall fuel id par s,
  In (id, par, s) (table t) -> (N.to_nat id <= fuel)%nat ->
  chain_ok d AxAncestors id (anc_chain fuel t par).
Proof.
  intros HA. induction fuel as [|f IH]; intros id par s Hin Hf.
  - destruct par as [p|].
    + destruct (in_table_table'' _ _ _ _ Hin) as [pv Hin'].
      destruct (table'_parent _ _ _ _ _ Hin') as (pp & ppv & k & l1 & l2 & _ & E & _). lia.
    + cbn [anc_chain chain_ok axis_step]. apply (nav_parent' _ _ _ _ _ HA Hin).
  - destruct par as [p|].
    + destruct (in_table_table'' _ _ _ _ Hin) as [pv Hin'].
      destruct (table'_parent _ _ _ _ _ Hin') as (pp & ppv & k & l1 & l2 & Hp' & E & _).
      pose proof (in_table'_table' _ _ _ _ _ Hp') as Hp.
      cbn [anc_chain]. rewrite (table_find _ _ _ _ Hp). cbn [chain_ok axis_step]. split.
      * apply (nav_parent' _ _ _ _ _ HA Hin).
      * apply (IH p pp _ Hp). lia.
    + cbn [anc_chain chain_ok axis_step]. apply (nav_parent' _ _ _ _ _ HA Hin).
Qed.

Theorem nav_ancestors' : forall d t id par s,
  Arena' d t -> In (id, par, s) (table t) ->
  axis_list d AxAncestors id = Ok (id :: ancestor_ids t par).
Proof.
  intros d t id par s HA Hin. apply (axis_list_chain d t); [exact HA| |].
  - apply (anc_chain_ok d t HA _ id par s Hin).
    destruct (in_table_table'' _ _ _ _ Hin) as [pv Hin'].
    pose proof (table'_bounds _ _ _ _ _ Hin'). pose proof (size_pos s).
    rewrite table_length. lia.
  - unfold ancestor_ids. pose proof (anc_chain_length (length (table t)) t par) as Hl.
    rewrite table_length in Hl at 2. lia.
Qed.
Print Assumptions nav_ancestors'.

(* ------------------------------------------------------------------ *)
(* siblings *)
Lemma next_chain_ok d t p pp sp :
  Arena' d t -> In (p, pp, sp) (table t) ->
  forall post pre x, child_ids (p + 1) (tchildren sp) = pre ++ x :: post ->
  chain_ok d AxNextSiblings x post.
Proof.
  intros HA Hp. induction post as [|y post IH]; intros pre x E; cbn [chain_ok axis_step].
  - apply (next_sibling_split d t p pp sp HA Hp pre x []). exact E.
  - split.
    + apply (next_sibling_split d t p pp sp HA Hp pre x (y :: post)). exact E.
    + apply (IH (pre ++ [x]) y). rewrite E, <- app_assoc. reflexivity.
Qed.

Lemma prev_chain_ok d t p pp sp :
  Arena' d t -> In (p, pp, sp) (table t) ->
  forall pre x post, child_ids (p + 1) (tchildren sp) = pre ++ x :: post ->
  chain_ok d AxPrevSiblings x (rev pre).
Proof.
  intros HA Hp. induction pre as [|y pre IH] using rev_ind; intros x post E.
  - cbn [rev chain_ok axis_step].
    apply (prev_sibling_split d t p pp sp HA Hp [] x post). exact E.
  - rewrite rev_app_distr. cbn [rev app chain_ok axis_step]. split.
    + rewrite (prev_sibling_split d t p pp sp HA Hp (pre ++ [y]) x post E).
      rewrite rev_app_distr. reflexivity.
    + apply (IH y (x :: post)). rewrite E, <- app_assoc. reflexivity.
Qed.

(* a row with a parent, seen from the table *)
Lemma table_siblings t id p s :
  In (id, Some p, s) (table t) ->
  exists pp sp pre post,
    In (p, pp, sp) (table t) /\
    child_ids (p + 1) (tchildren sp) = pre ++ id :: post /\
    before N.eqb id (sibling_ids t id (Some p)) = pre /\
    after N.eqb id (sibling_ids t id (Some p)) = post.
Proof.
  intros Hin. destruct (in_table_table'' _ _ _ _ Hin) as [pv Hin'].
  destruct (table'_siblings _ _ _ _ _ Hin')
    as (pp & ppv & k & l1 & l2 & Hp & Eid & Epv & Es & Eb & Ea).
  exists pp, (T k (l1 ++ s :: l2)), (child_ids (p + 1) l1), (child_ids (id + size s) l2).
  split; [eapply in_table'_table'; exact Hp|].
  split; [|split; assumption].
  cbn [tchildren]. rewrite child_ids_app. cbn [child_ids]. subst id. reflexivity.
Qed.

Lemma siblings_length_bound t p pp sp pre x post :
  In (p, pp, sp) (table t) ->
  child_ids (p + 1) (tchildren sp) = pre ++ x :: post ->
  N.of_nat (length pre) <= size t /\ N.of_nat (length post) <= size t.
Proof.
  intros Hp E. destruct (in_table_table'' _ _ _ _ Hp) as [pv Hp'].
  pose proof (table'_bounds _ _ _ _ _ Hp') as Hb.
  apply (f_equal (@length N)) in E. rewrite child_ids_length, app_length in E.
  cbn [length] in E. destruct sp as [k cs]. cbn [tchildren] in E.
  rewrite size_T in Hb. pose proof (length_le_sizes cs). lia.
Qed.

Theorem nav_next_siblings' : forall d t id par s,
  Arena' d t -> In (id, par, s) (table t) ->
  axis_list d AxNextSiblings id = Ok (id :: after N.eqb id (sibling_ids t id par)).
Proof.
  intros d t id par s HA Hin. destruct par as [p|].
  - destruct (table_siblings _ _ _ _ Hin) as (pp & sp & pre & post & Hp & E & Eb & Ea).
    rewrite Ea. apply (axis_list_chain d t); [exact HA| |].
    + apply (next_chain_ok d t p pp sp HA Hp post pre id E).
    + apply (siblings_length_bound _ _ _ _ _ _ _ Hp E).
  - cbn [sibling_ids after]. rewrite N.eqb_refl.
    apply (axis_list_chain d t); [exact HA| |cbn [length]; lia].
    cbn [chain_ok axis_step]. rewrite (nav_next_sibling' _ _ _ _ _ HA Hin).
    cbn [sibling_ids after]. rewrite N.eqb_refl. reflexivity.
Qed.
Print Assumptions nav_next_siblings'.

Theorem nav_prev_siblings' : forall d t id par s,
  Arena' d t -> In (id, par, s) (table t) ->
  axis_list d AxPrevSiblings id = Ok (id :: rev (before N.eqb id (sibling_ids t id par))).
Proof.
  intros d t id par s HA Hin. destruct par as [p|].
  - destruct (table_siblings _ _ _ _ Hin) as (pp & sp & pre & post & Hp & E & Eb & Ea).
    rewrite Eb. apply (axis_list_chain d t); [exact HA| |].
    + apply (prev_chain_ok d t p pp sp HA Hp pre id post E).
    + rewrite rev_length. apply (siblings_length_bound _ _ _ _ _ _ _ Hp E).
  - cbn [sibling_ids before]. rewrite N.eqb_refl. cbn [rev].
    apply (axis_list_chain d t); [exact HA| |cbn [length]; lia].
    cbn [chain_ok axis_step]. rewrite (nav_prev_sibling' _ _ _ _ _ HA Hin).
    cbn [sibling_ids before]. rewrite N.eqb_refl. reflexivity.
Qed.
Print Assumptions nav_prev_siblings'.

(* ------------------------------------------------------------------ *)
(* first / last children *)
Lemma table_child t p pp k l1 c l2 :
  In (p, pp, T k (l1 ++ c :: l2)) (table t) ->
  In (p + 1 + sizes l1, Some p, c) (table t).
Proof.
  intros Hin. destruct (in_table_table'' _ _ _ _ Hin) as [pv Hin'].
  apply table'_child in Hin'. eapply in_table'_table'. exact Hin'.
Qed.

Lemma first_chain_ok d t : Arena' d t -> forall s id par,
  In (id, par, s) (table t) ->
  exists rest, first_chain id s = id :: rest /\
               chain_ok d AxFirstChildren id rest /\ N.of_nat (length rest) < size s.
Proof.
  intros HA. induction s as [k cs IH] using tree_ind'; intros id par Hin.
  pose proof (nav_first_child' _ _ _ _ _ HA Hin) as Hfc. cbn [tchildren] in Hfc.
  destruct cs as [|c r].
  - exists []. cbn [first_chain chain_ok axis_step length]. rewrite size_T.
    split; [reflexivity|]. split; [exact Hfc | lia].
  - pose proof (table_child t id par k [] c r Hin) as Hc.
    rewrite sizes_nil in Hc. replace (id + 1 + 0) with (id + 1) in Hc by lia.
    inversion IH as [|? ? IHc _]; subst.
    destruct (IHc _ _ Hc) as (rest & E & Hok & Hl).
    exists ((id + 1) :: rest). cbn [first_chain]. rewrite E.
    split; [reflexivity|]. split.
    + cbn [chain_ok axis_step]. split; [exact Hfc | exact Hok].
    + cbn [length]. rewrite size_T, sizes_cons. lia.
Qed.

Theorem nav_first_children' : forall d t id par s,
  Arena' d t -> In (id, par, s) (table t) ->
  axis_list d AxFirstChildren id = Ok (first_chain id s).
Proof.
  intros d t id par s HA Hin.
  destruct (first_chain_ok d t HA s id par Hin) as (rest & E & Hok & Hl).
  rewrite E. apply (axis_list_chain d t); [exact HA | exact Hok |].
  destruct (in_table_table'' _ _ _ _ Hin) as [pv Hin'].
  pose proof (table'_bounds _ _ _ _ _ Hin'). lia.
Qed.
Print Assumptions nav_first_children'.

Lemma list_snoc_cases {A} (l : list A) : l = [] \/ exists l1 c, l = l1 ++ [c].
Proof.
  destruct l as [|a l] using rev_ind; [left; reflexivity | right; eauto].
Qed.

Lemma last_chain_ok d t : Arena' d t -> forall s id par,
  In (id, par, s) (table t) ->
  exists rest, last_chain id s = id :: rest /\
               chain_ok d AxLastChildren id rest /\ N.of_nat (length rest) < size s.
Proof.
  intros HA. induction s as [k cs IH] using tree_ind'; intros id par Hin.
  pose proof (nav_last_child' _ _ _ _ _ HA Hin) as Hlc. cbn [tchildren] in Hlc.
  rewrite last_chain_T.
  destruct (list_snoc_cases cs) as [-> | (l1 & c & ->)].
  - exists []. cbn [last_chain_children chain_ok axis_step length]. rewrite size_T.
    split; [reflexivity|]. split; [exact Hlc | lia].
  - pose proof (table_child t id par k l1 c [] Hin) as Hc.
    apply Forall_elt in IH.
    destruct (IH _ _ Hc) as (rest & E & Hok & Hl).
    exists ((id + 1 + sizes l1) :: rest). rewrite last_chain_children_snoc, E.
    split; [reflexivity|]. split.
    + cbn [chain_ok axis_step]. split; [|exact Hok].
      rewrite Hlc, child_ids_app, rev_app_distr. reflexivity.
    + cbn [length]. rewrite size_T, sizes_app, sizes_cons. lia.
Qed.

Theorem nav_last_children' : forall d t id par s,
  Arena' d t -> In (id, par, s) (table t) ->
  axis_list d AxLastChildren id = Ok (last_chain id s).
Proof.
  intros d t id par s HA Hin.
  destruct (last_chain_ok d t HA s id par Hin) as (rest & E & Hok & Hl).
  rewrite E. apply (axis_list_chain d t); [exact HA | exact Hok |].
  destruct (in_table_table'' _ _ _ _ Hin) as [pv Hin'].
  pose proof (table'_bounds _ _ _ _ _ Hin'). lia.
Qed.
Print Assumptions nav_last_children'.

(* ------------------------------------------------------------------ *)
(* the theorems for [Arena] (strict bound) *)
Theorem nav_ancestors : forall d t id par s,
  Arena d t -> In (id, par, s) (table t) ->
  axis_list d AxAncestors id = Ok (id :: ancestor_ids t par).
Proof.
  intros *. intros HA. generalize (Arena_weaken _ _ HA). clear HA. apply nav_ancestors'.
Qed.
Print Assumptions nav_ancestors.

Theorem nav_next_siblings : forall d t id par s,
  Arena d t -> In (id, par, s) (table t) ->
  axis_list d AxNextSiblings id = Ok (id :: after N.eqb id (sibling_ids t id par)).
Proof.
  intros *. intros HA. generalize (Arena_weaken _ _ HA). clear HA. apply nav_next_siblings'.
Qed.
Print Assumptions nav_next_siblings.

Theorem nav_prev_siblings : forall d t id par s,
  Arena d t -> In (id, par, s) (table t) ->
  axis_list d AxPrevSiblings id = Ok (id :: rev (before N.eqb id (sibling_ids t id par))).
Proof.
  intros *. intros HA. generalize (Arena_weaken _ _ HA). clear HA. apply nav_prev_siblings'.
Qed.
Print Assumptions nav_prev_siblings.

Theorem nav_first_children : forall d t id par s,
  Arena d t -> In (id, par, s) (table t) ->
  axis_list d AxFirstChildren id = Ok (first_chain id s).
Proof.
  intros *. intros HA. generalize (Arena_weaken _ _ HA). clear HA. apply nav_first_children'.
Qed.
Print Assumptions nav_first_children.

Theorem nav_last_children : forall d t id par s,
  Arena d t -> In (id, par, s) (table t) ->
  axis_list d AxLastChildren id = Ok (last_chain id s).
Proof.
  intros *. intros HA. generalize (Arena_weaken _ _ HA). clear HA. apply nav_last_children'.
Qed.
Print Assumptions nav_last_children.

