(* Proofs/StrictStream.v -- the hidden panic sites of the Stream primitives are not reached:
   as_bytes / starts_with (&bytes[pos..end]), chars() (the eager &str[pos..end]),
   try_consume_byte (the debug_assert of advance), skip_string (from_utf8(..).unwrap()). *)
From Coq Require Import Ascii String.
From Coq Require Import List Arith NArith Bool Lia ZifyBool ZifyN ZifyNat.
Import ListNotations.
From RX Require Import Generated.
From RX.Model Require Import Base CharClass Stream Tokenizer.
From RX.Proofs Require Import Tactics NoPanicUtf8 NoPanicStream.
From RX.Proofs Require Import StrictModel.
Open Scope N_scope.

(* ---------------------------------------------------------------------------------------- *)
(* try_consume_byte: unconditional -- after curr_byte succeeded, advance(1) cannot fail     *)
(* ---------------------------------------------------------------------------------------- *)

Theorem try_consume_byte_s_eq : forall c s, try_consume_byte_s c s = Ok (try_consume_byte c s).
Proof.
  intros c s. unfold try_consume_byte_s, try_consume_byte.
  destruct (curr_byte_opt s) as [x|] eqn:E; [|reflexivity].
  destruct (x =? c); [|reflexivity].
  unfold curr_byte_opt, at_end in E. destruct (s_end s <=? s_pos s) eqn:E1; [discriminate|].
  unfold advance. destruct (s_end s <? s_pos s + 1) eqn:E2; [lia|]. reflexivity.
Qed.
Print Assumptions try_consume_byte_s_eq.

(* ---------------------------------------------------------------------------------------- *)
(* skip_string: the expected texts are literals of the source, all valid UTF-8               *)
(* ---------------------------------------------------------------------------------------- *)

(* the arguments of every call of skip_string in Model/Tokenizer.v (tokenizer.rs) *)
Definition skip_string_literals : list bytes := [b "-->"; b "?>"; b "]]>"; b "version"].

Lemma skip_string_literals_valid : forallb valid_utf8_b skip_string_literals = true.
Proof. vm_compute. reflexivity. Qed.

Section WithText.
Variable text : bytes.
Notation stream := Stream.stream.
Notation Bd := (Boundary text).

(* ---------------------------------------------------------------------------------------- *)
(* as_bytes / starts_with                                                                   *)
(* ---------------------------------------------------------------------------------------- *)

(* the range of a stream is a range of the text *)
Definition Wf (s : stream) : Prop := s_pos s <= s_end s /\ s_end s <= tlen text.

Lemma Wf_guard s : Wf s -> as_bytes_guard text s = true.
Proof. intros [H1 H2]. unfold as_bytes_guard. lia. Qed.

Lemma avail_s_eq s : Wf s -> avail_s text s = Ok (avail s).
Proof. intros H. unfold avail_s. rewrite Wf_guard; auto. Qed.

Lemma starts_with_s_eq s p : Wf s -> starts_with_s text s p = Ok (starts_with s p).
Proof. intros H. unfold starts_with_s. rewrite avail_s_eq; auto. Qed.

Lemma advance_until2_s_eq n1 n2 s : Wf s -> advance_until2_s text n1 n2 s = advance_until2 n1 n2 s.
Proof. intros H. unfold advance_until2_s, advance_until2. rewrite avail_s_eq; auto. Qed.

Lemma skip_string_s_eq p s : Wf s -> valid_utf8_b p = true ->
  skip_string_s text p s = skip_string text p s.
Proof.
  intros H Hp. unfold skip_string_s, skip_string. rewrite starts_with_s_eq; auto. cbn [bind].
  destruct (starts_with s p); cbn [negb]; [reflexivity|].
  unfold err_at. destruct (gen_text_pos text s); cbn [bind]; try reflexivity. rewrite Hp. reflexivity.
Qed.

(* Every stream record of Model/Stream.v is built by one of four functions (stream_new,
   stream_from_substr, advance, skip_bytes; try_consume_byte returns its argument or the result
   of advance); all of them keep the range inside the text. *)
Inductive StreamGen : stream -> Prop :=
| SG_new : StreamGen (stream_new text)
| SG_substr a e s : stream_from_substr text a e = Ok s -> StreamGen s
| SG_advance n s s' : StreamGen s -> advance n s = Ok s' -> StreamGen s'
| SG_skip f s : StreamGen s -> StreamGen (skip_bytes f s).

Lemma scan_le' f l room : (scan f l room <= room)%nat.
Proof. revert l; induction room; intros [|x l]; cbn; try lia. destruct (f x); [|lia]. specialize (IHroom l). lia. Qed.

Theorem StreamGen_Wf : forall s, StreamGen s -> Wf s.
Proof.
  induction 1 as [|a e s H|n s s' _ IH H|f s _ IH]; unfold Wf in *.
  - cbn. unfold tlen. lia.
  - unfold stream_from_substr in H. destruct ((e <? a) || (tlen text <? e)) eqn:E; [discriminate|].
    inversion H; subst; cbn. lia.
  - unfold advance in H. destruct (s_end s <? s_pos s + n) eqn:E; [discriminate|].
    inversion H; subst; cbn. lia.
  - unfold skip_bytes. cbn. pose proof (scan_le' f (s_rest s) (N.to_nat (s_end s - s_pos s))). lia.
Qed.

(* site: Stream::as_bytes / starts_with -- the slice &bytes[pos..end] is always in range *)
Theorem site_as_bytes_unreachable : forall s p, StreamGen s ->
  avail_s text s = Ok (avail s) /\ starts_with_s text s p = Ok (starts_with s p).
Proof.
  intros s p H. apply StreamGen_Wf in H. split; [apply avail_s_eq|apply starts_with_s_eq]; auto.
Qed.

Lemma SInv0_Wf s : SInv0 text s -> Wf s.
Proof. intros (_ & H1 & H2 & _). split; auto. Qed.

(* ---------------------------------------------------------------------------------------- *)
(* chars()                                                                                  *)
(* ---------------------------------------------------------------------------------------- *)

Hypothesis Hvalid : valid_utf8_b text = true.

Lemma SInv_chars_guard s : SInv text s -> chars_guard text s = true.
Proof.
  intros [H0 Hb]. unfold chars_guard. rewrite (Wf_guard s (SInv0_Wf s H0)).
  destruct H0 as (_ & _ & _ & He). destruct Hb as [Hb _]. destruct He as [He _]. rewrite Hb, He.
  reflexivity.
Qed.

(* where the eager slice of the source panics, the lazy check of the model panics as well *)
Lemma next_char_s_eq s : SInv0 text s -> next_char_s text s = next_char s.
Proof.
  intros H0. unfold next_char_s, chars_guard. rewrite (Wf_guard s (SInv0_Wf s H0)).
  pose proof H0 as (Hr & Hpe & Het & He). destruct He as [He Hel]. rewrite He.
  destruct (is_boundary text (s_pos s)) eqn:Eb; cbn [andb]; [reflexivity|].
  unfold next_char, at_end.
  destruct (s_end s <=? s_pos s) eqn:E.
  { assert (s_pos s = s_end s) by lia. congruence. }
  unfold is_boundary in Eb. destruct (s_pos s =? 0); [discriminate|].
  rewrite Hr.
  destruct (nth_error text (N.to_nat (s_pos s))) as [x|] eqn:En.
  - destruct (is_cont x) eqn:Ec; [|discriminate].
    assert (Hs : exists r, skipn (N.to_nat (s_pos s)) text = x :: r).
    { clear - En. revert En. generalize (N.to_nat (s_pos s)) as n. intros n. revert text.
      induction n; intros [|y l] H; cbn in *; try discriminate.
      - inversion H; eauto.
      - apply IHn; auto. }
    destruct Hs as [r ->]. unfold decode1, is_cont in *.
    assert ((x <? 128) = false) as -> by lia. assert ((x <? 192) = true) as -> by lia. reflexivity.
  - apply nth_error_None in En. unfold tlen, blen in *. lia.
Qed.

(* site: Stream::chars -- at a call on a stream that satisfies the stream invariant of
   NoPanicStream.v (both ends on char boundaries), the slice does not panic *)
Theorem site_chars_unreachable : forall s, SInv text s -> next_char_s text s = next_char s /\
  chars_guard text s = true.
Proof. intros s H. split; [apply next_char_s_eq; apply H|apply SInv_chars_guard; auto]. Qed.

(* ---- the four functions of Stream.v that call chars(), with the strict primitive ---- *)

Fixpoint skip_chars_loop_s (fuel : nat) (f : stream -> N -> bool) (s : stream) : res stream :=
  match fuel with
  | O => OutOfFuel
  | S fu =>
    let! oc := next_char_s text s in
    match oc with
    | None => Ok s
    | Some (c, n) =>
      if negb (char_is_char c) then err_at text s (NonXmlChar c)
      else if f s c then let! s' := advance n s in skip_chars_loop_s fu f s'
      else Ok s
    end
  end.

Fixpoint skip_name_loop_s (fuel : nat) (s : stream) : res stream :=
  match fuel with
  | O => OutOfFuel
  | S fu =>
    let! oc := next_char_s text s in
    match oc with
    | None => Ok s
    | Some (c, n) => if char_is_name c then let! s' := advance n s in skip_name_loop_s fu s' else Ok s
    end
  end.

Definition skip_name_s (s : stream) : res stream :=
  let start := s_pos s in
  let! oc := next_char_s text s in
  match oc with
  | None => Ok s
  | Some (c, n) =>
    if char_is_name_start c then
      let! s' := advance n s in skip_name_loop_s (S (length (s_rest s'))) s'
    else err_from text start InvalidName
  end.

Fixpoint consume_qname_loop_s (fuel : nat) (start : N) (splitter : option N) (s : stream)
  : res (option N * stream) :=
  match fuel with
  | O => OutOfFuel
  | S fu =>
    if at_end s then Ok (splitter, s)
    else
      let! x := curr_byte_unchecked s in
      if x <? 128 then
        if x =? 58 then
          match splitter with
          | None => let! s' := advance 1 s in consume_qname_loop_s fu start (Some (s_pos s)) s'
          | Some _ => err_from text start InvalidName
          end
        else if byte_is_name x then let! s' := advance 1 s in consume_qname_loop_s fu start splitter s'
        else Ok (splitter, s)
      else
        let! oc := next_char_s text s in
        match oc with
        | Some (c, n) =>
          if char_is_name c then let! s' := advance n s in consume_qname_loop_s fu start splitter s'
          else Ok (splitter, s)
        | None => Ok (splitter, s)
        end
  end.

(* one step: next_char, then advance by the length of the char, lands on a good stream again *)
Lemma step_SInv s c n s' : SInv text s -> next_char s = Ok (Some (c, n)) -> advance n s = Ok s' ->
  SInv text s'.
Proof.
  intros Hs Hn Ha. pose proof (next_char_safe text Hvalid s Hs) as H. rewrite Hn in H. cbn in H.
  pose proof (advance_char text s n Hs H) as H'. rewrite Ha in H'. apply H'.
Qed.

Lemma skip_chars_loop_s_eq f : forall fuel s, SInv text s ->
  skip_chars_loop_s fuel f s = skip_chars_loop text fuel f s.
Proof.
  induction fuel as [|fu IH]; intros s Hs; [reflexivity|]. cbn [skip_chars_loop_s skip_chars_loop].
  rewrite next_char_s_eq by apply Hs.
  destruct (next_char s) as [[[c n]|]| | |] eqn:En; cbn [bind]; try reflexivity.
  destruct (negb (char_is_char c)); [reflexivity|]. destruct (f s c); [|reflexivity].
  destruct (advance n s) as [s'| | |] eqn:Ea; cbn [bind]; try reflexivity.
  apply IH. eapply step_SInv; eauto.
Qed.

Lemma skip_name_loop_s_eq : forall fuel s, SInv text s ->
  skip_name_loop_s fuel s = skip_name_loop fuel s.
Proof.
  induction fuel as [|fu IH]; intros s Hs; [reflexivity|]. cbn [skip_name_loop_s skip_name_loop].
  rewrite next_char_s_eq by apply Hs.
  destruct (next_char s) as [[[c n]|]| | |] eqn:En; cbn [bind]; try reflexivity.
  destruct (char_is_name c); [|reflexivity].
  destruct (advance n s) as [s'| | |] eqn:Ea; cbn [bind]; try reflexivity.
  apply IH. eapply step_SInv; eauto.
Qed.

Lemma skip_name_s_eq s : SInv text s -> skip_name_s s = skip_name text s.
Proof.
  intros Hs. unfold skip_name_s, skip_name. cbv zeta. rewrite next_char_s_eq by apply Hs.
  destruct (next_char s) as [[[c n]|]| | |] eqn:En; cbn [bind]; try reflexivity.
  destruct (char_is_name_start c); [|reflexivity].
  destruct (advance n s) as [s'| | |] eqn:Ea; cbn [bind]; try reflexivity.
  apply skip_name_loop_s_eq. eapply step_SInv; eauto.
Qed.

Lemma advance1_SInv s s' x r : SInv text s -> s_rest s = x :: r -> s_pos s < s_end s ->
  ascii x = true -> advance 1 s = Ok s' -> SInv text s'.
Proof.
  intros Hs Hr Hlt Hx Ha. pose proof (advance1_safe text Hvalid s x r Hs Hr Hlt Hx) as H.
  rewrite Ha in H. apply H.
Qed.

Lemma consume_qname_loop_s_eq start : forall fuel spl s, SInv text s ->
  consume_qname_loop_s fuel start spl s = consume_qname_loop text fuel start spl s.
Proof.
  induction fuel as [|fu IH]; intros spl s Hs; [reflexivity|].
  cbn [consume_qname_loop_s consume_qname_loop].
  destruct (at_end s) eqn:Ee; [reflexivity|].
  pose proof (curr_byte_unchecked_safe text s ltac:(apply Hs) Ee) as Hc.
  destruct (curr_byte_unchecked s) as [x| | |]; cbn [bind]; try reflexivity.
  destruct Hc as (r & Hr & Hlt).
  destruct (x <? 128) eqn:Ex.
  - destruct (x =? 58).
    + destruct spl; [reflexivity|].
      destruct (advance 1 s) as [s'| | |] eqn:Ea; cbn [bind]; try reflexivity.
      apply IH. eapply advance1_SInv; eauto.
    + destruct (byte_is_name x); [|reflexivity].
      destruct (advance 1 s) as [s'| | |] eqn:Ea; cbn [bind]; try reflexivity.
      apply IH. eapply advance1_SInv; eauto.
  - rewrite next_char_s_eq by apply Hs.
    destruct (next_char s) as [[[c n]|]| | |] eqn:En; cbn [bind]; try reflexivity.
    destruct (char_is_name c); [|reflexivity].
    destruct (advance n s) as [s'| | |] eqn:Ea; cbn [bind]; try reflexivity.
    apply IH. eapply step_SInv; eauto.
Qed.

End WithText.

Print Assumptions site_as_bytes_unreachable.
Print Assumptions site_chars_unreachable.
Print Assumptions skip_string_s_eq.
Print Assumptions consume_qname_loop_s_eq.
