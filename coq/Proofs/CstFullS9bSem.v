(* Proofs/CstFullS9bSem.v -- the capstone fragment, stage S9 (Spec/CstFullS9.v):
   Proofs/CstFullS4TSem.v (the character-data machine with markup entities, facts without the parser) for references named with colons.
   An adapted copy: the statements and proofs are those of that file over the definitions of Proofs/CstFullS9aSem.v. *)
From Coq Require Import List NArith PeanoNat Bool Lia ZifyBool ZifyN ZifyNat Wf_nat.
Import ListNotations.
From RX Require Import Generated.
From RX.Model Require Import Base Builder.
From RX.Spec Require Cst CstText CstEnt Chars CstU Detector.
From RX.Spec Require Import Text CstFull.
From RX.Proofs Require Import TextMachine HoistProofs NoPanicUtf8 CstTextSem CstEntSem CstEntMeaning CstEntRun CstEntInline.
From RX.Proofs Require CstLex CstULex CstUItems CstFullLex CstTextLex CstEntAttr.
From RX.Proofs Require Import CstFullS2Sem CstFullS9aSem.
Open Scope N_scope.

(* a declared entity: character data, usable everywhere -- or markup *)
Definition udecl_okc (d : E.edecl) : Prop :=
  match E.e_value d with
  | E.EText vps => Forall (uep_ok true) vps /\ contains_b n3 (E.r_epieces vps) = false /\ E.no_adjacent_elit vps = true
  | E.EContent _ => True       (* markup: not looked at by the character-data machine *)
  end.

Lemma udecl_ok_c d : udecl_ok d -> udecl_okc d.
Proof. unfold udecl_ok, udecl_okc. destruct (E.e_value d); [auto|contradiction]. Qed.

Section Decls.
Variable decls : list E.edecl.
Hypothesis Hdecls : Forall udecl_okc decls.

Lemma first_decl_u n d vps : first_decl decls n = Some d -> E.e_value d = E.EText vps ->
  Forall (uep_ok true) vps /\ contains_b n3 (E.r_epieces vps) = false /\ E.no_adjacent_elit vps = true.
Proof.
  intros Hf Hv. unfold first_decl in Hf. apply find_some in Hf. destruct Hf as [Hin _].
  rewrite Forall_forall in Hdecls. specialize (Hdecls _ Hin). unfold udecl_okc in Hdecls.
  rewrite Hv in Hdecls. exact Hdecls.
Qed.

Lemma first_decl_ok_u n d vps : first_decl decls n = Some d -> E.e_value d = E.EText vps -> Forall (uep_ok true) vps.
Proof. intros Hf Hv. apply (first_decl_u n d vps Hf Hv). Qed.

Lemma first_decl_adj_u n d vps : first_decl decls n = Some d -> E.e_value d = E.EText vps -> E.no_adjacent_elit vps = true.
Proof. intros Hf Hv. apply (first_decl_u n d vps Hf Hv). Qed.

Lemma uep_nonmark m p : uep_ok m (E.EP p) -> E.is_mark p = false.
Proof.
  intros [Hv _]. destruct p as [[|x bs]| | |]; try reflexivity. cbn [bvpiece] in Hv. destruct Hv as (Hne & _). congruence.
Qed.

(* ---- character data: the strings appended are the decoding of the inlined pieces ---- *)
Lemma Exp_sem_u : forall m acc ps q tr F, Exp decls m acc ps q tr F ->
  Forall (uep_ok m) ps -> acc_ok m acc ->
  pend_ok acc q = true -> E.crlf_split_ok q = true ->
  concat F = decode_chunks (acc ++ chunks q).
Proof.
  intros m acc ps q tr F H.
  induction H as [m acc|m acc p r q tr F _ IH|m acc n r d vps qv trv Fv q tr F Hfd Hval _ IHv _ IHr];
    intros Hok Hacc Hp Hs.
  - unfold chunks. cbn [flat_map]. rewrite app_nil_r. destruct (emit_valid_u m acc Hacc) as [Eo _].
    unfold emit. rewrite <- Eo. destruct (run_text_chunks m acc); cbn [concat]; rewrite ?app_nil_r; reflexivity.
  - apply Forall_cons_iff in Hok. destruct Hok as [Hp0 Hr].
    unfold chunks. cbn [flat_map]. fold (chunks q). rewrite app_assoc. apply IH.
    + exact Hr.
    + apply acc_app; [exact Hacc|apply uep_chunks; exact Hp0].
    + pose proof (uep_nonmark _ _ Hp0) as Em. destruct (nonmark_chunks p Em) as (Hne & H13 & _).
      unfold pend_ok. rewrite ends13_app by exact Hne. rewrite H13.
      cbn [E.crlf_split_ok] in Hs. apply andb_true_iff in Hs. destruct Hs as [Hs _]. exact Hs.
    + apply (crlf_split_tail _ _ Hs).
  - apply Forall_cons_iff in Hok. destruct Hok as [_ Hr].
    pose proof (first_decl_ok_u _ _ _ Hfd Hval) as Hvok.
    assert (Hs1 : E.crlf_split_ok (qv ++ E.mark :: q) = true) by (apply (crlf_split_tail _ _ Hs)).
    rewrite !concat_app.
    rewrite (IHv Hvok (acc_nil _) eq_refl (crlf_split_app_l _ _ Hs1)).
    rewrite (IHr Hr (acc_nil _) eq_refl (crlf_split_tail _ _ (crlf_split_app_r _ _ Hs1))).
    cbn [app]. destruct (emit_valid_u m acc Hacc) as [Eo _].
    replace (concat (emit m acc)) with (decode_chunks acc)
      by (unfold emit; rewrite <- Eo; destruct (run_text_chunks m acc); cbn [concat]; rewrite ?app_nil_r; reflexivity).
    change (E.mark :: qv ++ E.mark :: q) with ([E.mark] ++ qv ++ [E.mark] ++ q).
    rewrite !chunks_app. change (chunks [E.mark]) with (@nil chunk). cbn [app].
    rewrite (decode_app_nosplit acc).
    + f_equal. symmetry. apply decode_app_nosplit.
      destruct (ends13 (chunks qv)) eqn:E13; [|reflexivity]. cbn [andb].
      apply crlf_ok_true_starts. apply (crlf_cut qv q Hs1 E13).
    + unfold pend_ok in Hp. destruct (ends13 acc); [|reflexivity]. cbn [andb]. cbn [E.is_mark E.mark] in Hp.
      rewrite <- chunks_app. change (qv ++ q) with (qv ++ [] ++ q).
      pose proof (crlf_ok_true_starts _ Hp) as X. rewrite chunks_app in X. unfold chunks at 2 in X. cbn [flat_map] in X.
      change (T.piece_chunks E.mark) with (@nil chunk) in X. cbn [app] in X. fold (chunks q) in X.
      rewrite chunks_app. exact X.
Qed.

Lemma acc_decode_ne m c acc' : acc_ok m (c :: acc') -> decode_chunks (c :: acc') <> [].
Proof.
  intros [_ Hacc]. rewrite decode_chunks_gen. apply gen_cons_ne. apply Forall_cons_iff in Hacc. destruct Hacc as [(Hc & _) _].
  destruct c as [x|bs]; [exact I|]. intros E0. apply Hc. cbv beta in E0. rewrite E0. reflexivity.
Qed.

(* nothing is appended exactly when there are only marks *)
Lemma Exp_empty_u : forall m acc ps q tr F, Exp decls m acc ps q tr F ->
  Forall (uep_ok m) ps -> acc_ok m acc ->
  (F = [] <-> (acc = [] /\ forallb E.is_mark q = true)).
Proof.
  intros m acc ps q tr F H.
  induction H as [m acc|m acc p r q tr F _ IH|m acc n r d vps qv trv Fv q tr F Hfd Hval _ IHv _ IHr];
    intros Hok Hacc.
  - unfold emit. destruct (emit_valid_u m acc Hacc) as [Eo _]. rewrite Eo. cbn [forallb].
    destruct acc as [|c acc'].
    + change (decode_chunks []) with (@nil N). tauto.
    + pose proof (acc_decode_ne m c acc' Hacc) as Hne.
      destruct (decode_chunks (c :: acc')); [congruence|]. split; [discriminate|intros [? _]; discriminate].
  - apply Forall_cons_iff in Hok. destruct Hok as [Hp Hr].
    pose proof (uep_nonmark _ _ Hp) as Em. destruct (nonmark_chunks p Em) as (Hne & _).
    rewrite IH; [|exact Hr|apply acc_app; [exact Hacc|apply uep_chunks; exact Hp]].
    cbn [forallb]. rewrite Em. split.
    + intros [E0 _]. apply app_eq_nil in E0. destruct E0 as [_ E0]. congruence.
    + intros [_ E0]. discriminate.
  - apply Forall_cons_iff in Hok. destruct Hok as [_ Hr].
    pose proof (first_decl_ok_u _ _ _ Hfd Hval) as Hvok.
    specialize (IHv Hvok (acc_nil _)). specialize (IHr Hr (acc_nil _)).
    cbn [forallb E.is_mark E.mark]. rewrite forallb_app. cbn [forallb E.is_mark E.mark].
    split.
    + intros E0. apply app_eq_nil in E0. destruct E0 as [E1 E2]. apply app_eq_nil in E2. destruct E2 as [E2 E3].
      destruct (proj1 IHv E2) as [_ M1]. destruct (proj1 IHr E3) as [_ M2]. rewrite M1, M2.
      split; [|reflexivity].
      unfold emit in E1. destruct (emit_valid_u m acc Hacc) as [Eo _]. rewrite Eo in E1.
      destruct acc as [|c acc']; [reflexivity|].
      pose proof (acc_decode_ne m c acc' Hacc) as Hne.
      destruct (decode_chunks (c :: acc')); [congruence|discriminate].
    + intros [-> M]. rewrite !andb_true_iff in M. destruct M as (_ & M1 & _ & M2).
      rewrite (proj2 IHv (conj eq_refl M1)), (proj2 IHr (conj eq_refl M2)). reflexivity.
Qed.

Lemma Exp_no_cdata_u : forall m acc ps q tr F, Exp decls m acc ps q tr F -> Forall (uep_ok m) ps ->
  forallb no_cdata q = true.
Proof.
  intros m acc ps q tr F H.
  induction H as [m acc|m acc p r q tr F _ IH|m acc n r d vps qv trv Fv q tr F Hfd Hval _ IHv _ IHr]; intros Hok.
  - reflexivity.
  - apply Forall_cons_iff in Hok. destruct Hok as [[Hv _] Hr]. cbn [forallb]. rewrite (IH Hr), andb_true_r.
    destruct p; try reflexivity. contradiction.
  - apply Forall_cons_iff in Hok. destruct Hok as [_ Hr].
    cbn [forallb no_cdata E.mark]. rewrite forallb_app. cbn [forallb no_cdata E.mark].
    rewrite (IHv (first_decl_ok_u _ _ _ Hfd Hval)), (IHr Hr). reflexivity.
Qed.

(* the chunks of the inlined pieces of a derivation are valid *)
Lemma Exp_chunks_u : forall m acc ps q tr F, Exp decls m acc ps q tr F -> Forall (uep_ok m) ps -> CV (chunks q).
Proof.
  intros m acc ps q tr F H.
  induction H as [m acc|m acc p r q tr F _ IH|m acc n r d vps qv trv Fv q tr F Hfd Hval _ IHv _ IHr]; intros Hok.
  - apply CV_nil.
  - apply Forall_cons_iff in Hok. destruct Hok as [Hp Hr]. unfold chunks. cbn [flat_map].
    apply CV_app; [apply (uep_chunks m p Hp)|apply IH; exact Hr].
  - apply Forall_cons_iff in Hok. destruct Hok as [_ Hr].
    change (E.mark :: qv ++ E.mark :: q) with ([E.mark] ++ qv ++ [E.mark] ++ q). rewrite !chunks_app.
    change (chunks [E.mark]) with (@nil chunk). cbn [app]. apply CV_app; [apply IHv; apply (first_decl_ok_u _ _ _ Hfd Hval)|apply IHr; exact Hr].
Qed.

(* ---- the expansion of a run, segment by segment ---- *)
Definition ueseg_wf (s : eseg) : Prop :=
  match s with
  | ESS l => l <> [] /\ Forall (uep_ok false) l /\ E.no_adjacent_elit l = true /\
             contains_b n3 (E.r_epieces l) = false
  | ESC bs => ustr bs /\ contains_b n3 bs = false
  end.

Lemma RunExp_sem_u : forall L Q tr FF, RunExp decls L Q tr FF -> Forall ueseg_wf L -> ealt L ->
  E.crlf_split_ok Q = true ->
  concat (map (@concat N) FF) = T.text_sem Q.
Proof.
  intros L Q tr FF H. rewrite text_sem_any.
  induction H as [|ps q tr F L Q tr' FF He HR IH|bs L Q tr' FF HR IH]; intros Hwf Ha Hs.
  - reflexivity.
  - apply Forall_cons_iff in Hwf. destruct Hwf as [(Hne & Hok & _) Hwf].
    assert (Ha' : ealt L) by (destruct L; [exact I|apply Ha]).
    assert (HQ : match Q with T.PCData _ :: _ => True | [] => True | _ => False end).
    { destruct L as [|[l|b0] L']; inversion HR; subst; try exact I. destruct Ha as [Ha _]. specialize (Ha eq_refl). discriminate. }
    rewrite segs_app_ss; [|apply (Exp_no_cdata_u _ _ _ _ _ _ He Hok)|apply (Exp_ne _ _ _ _ _ _ _ He Hne)|exact HQ].
    cbn [map concat seg_sem]. rewrite (IH Hwf Ha' (crlf_split_app_r _ _ Hs)). f_equal.
    rewrite (Exp_sem_u _ _ _ _ _ _ He Hok (acc_nil _) eq_refl (crlf_split_app_l _ _ Hs)). reflexivity.
  - apply Forall_cons_iff in Hwf. destruct Hwf as [_ Hwf].
    assert (Ha' : ealt L) by (destruct L; [exact I|apply Ha]).
    cbn [segs map concat seg_sem]. rewrite app_nil_r. rewrite (IH Hwf Ha' (crlf_split_tail _ _ Hs)). reflexivity.
Qed.

Lemma RunExp_marks_u L Q tr FF : RunExp decls L Q tr FF -> Forall ueseg_wf L ->
  (concat FF = [] <-> forallb E.is_mark Q = true).
Proof.
  intros H. induction H as [|ps q tr F L Q tr' FF He HR IH|bs L Q tr' FF HR IH]; intros HF.
  - cbn. tauto.
  - apply Forall_cons_iff in HF. destruct HF as [(_ & Hok & _) HL]. cbn [concat]. rewrite forallb_app.
    pose proof (Exp_empty_u _ _ _ _ _ _ He Hok (acc_nil _)) as X. specialize (IH HL).
    split.
    + intros E0. apply app_eq_nil in E0. destruct E0 as [E1 E2]. destruct (proj1 X E1) as [_ M1]. rewrite M1, (proj1 IH E2). reflexivity.
    + intros M. apply andb_true_iff in M. destruct M as [M1 M2]. rewrite (proj2 X (conj eq_refl M1)), (proj2 IH M2). reflexivity.
  - cbn [concat forallb E.is_mark app]. split; discriminate.
Qed.

Lemma RunExp_chunks_u L Q tr FF : RunExp decls L Q tr FF -> Forall ueseg_wf L -> True.
Proof. auto. Qed.

(* ---- attribute values ---- *)
Lemma piece_push_eq_u p t : uep_ok true (E.EP p) -> E.is_lt_ref p = false -> tb_pending_cr t = false ->
  push_attr_chunks true (T.piece_chunks p) t = push_attr_chunks false (T.piece_chunks p) t.
Proof.
  intros [Hv Hc] Hlt Hp. specialize (Hc eq_refl).
  destruct p as [bs|hex ds|e|bs]; cbn [bvpiece] in Hv; try contradiction; cbn [T.piece_chunks].
  - apply (push_attr_lits_depth bs t).
  - cbn [push_attr_chunks]. rewrite pcba_eq; [reflexivity|exact Hp|].
    cbn [E.charref_ok_in_value] in Hc. cbv zeta in Hc.
    change (T.utf8 (T.ref_val hex ds)) with (encode_utf8 (T.ref_val hex ds)).
    destruct (T.ref_val hex ds <? 128) eqn:E128.
    + rewrite encode_ascii by exact E128. cbn [forallb]. unfold plain_byte. lia.
    + pose proof (encode_high _ E128) as Hh. revert Hh. apply CstLex.forallb_imp. intros x Hx. unfold plain_byte. lia.
  - cbn [push_attr_chunks]. rewrite pcba_eq; [reflexivity|exact Hp|]. destruct e; try reflexivity. discriminate.
Qed.

Lemma AExp_sem_u : forall m ps t q tr t', AExp decls m ps t q tr t' ->
  Forall (uep_ok m) ps -> E.no_adjacent_elit ps = true -> tb_pending_cr t = false ->
  E.crlf_split_ok q = true ->
  push_attr_chunks false (chunks q) t = Some t' /\ tb_pending_cr t' = false.
Proof.
  intros m ps t q tr t' H.
  induction H as [m t|m p r t t1 q tr t' Hlt Hpush Hrest IH|m n r d vps t qv trv t1 q tr t' Hfd Hval _ IHv _ IHr];
    intros Hok Hadj Hp Hs.
  - split; [reflexivity|exact Hp].
  - apply Forall_cons_iff in Hok. destruct Hok as [Hp0 Hr].
    assert (Hpush' : push_attr_chunks false (T.piece_chunks p) t = Some t1).
    { destruct m; [|exact Hpush]. rewrite <- piece_push_eq_u; auto. }
    pose proof (push_attr_pending false _ _ _ Hp Hpush') as Hp1.
    destruct (IH Hr (CstEntAttr.no_adj_etail _ _ Hadj) Hp1 (crlf_split_tail _ _ Hs)) as [E1 Hp2].
    split; [|exact Hp2]. unfold chunks. cbn [flat_map]. fold (chunks q).
    rewrite push_attr_chunks_app; [rewrite Hpush'; cbn [HoistProofs.obind]; exact E1|].
    apply nosplit_hoist.
    pose proof (uep_nonmark _ _ Hp0) as Em. destruct (nonmark_chunks p Em) as (_ & H13 & _). rewrite H13.
    destruct (E.ends_cr p) eqn:Ecr; [|reflexivity]. cbn [andb].
    cbn [E.crlf_split_ok] in Hs. rewrite Ecr in Hs. apply andb_true_iff in Hs. destruct Hs as [Hs _].
    (* what follows p *)
    inversion Hrest as [? ?|? c r' ? ? q' ? ? ? ? ?|? ? r' ? ? ? qv' ? ? q' ? ?]; subst.
    + reflexivity.
    + (* another piece of the same list: not a literal *)
      assert (Hlit : E.is_elit (E.EP p) = true) by (destruct p as [[|? ?]| | |]; try discriminate; reflexivity).
      cbn [E.no_adjacent_elit] in Hadj. rewrite Hlit in Hadj. cbn [andb] in Hadj.
      apply andb_true_iff in Hadj. destruct Hadj as [Hc _]. apply negb_true_iff in Hc.
      apply Forall_cons_iff in Hr. destruct Hr as [[Hvc _] _].
      unfold chunks. cbn [flat_map].
      destruct c as [bs|hex ds|e|bs]; cbn [E.is_elit] in Hc; try discriminate; try reflexivity.
    + cbn [E.is_mark E.mark] in Hs. unfold chunks. cbn [flat_map T.piece_chunks E.mark map app].
      apply crlf_ok_true_starts. exact Hs.
  - apply Forall_cons_iff in Hok. destruct Hok as [_ Hr].
    pose proof (first_decl_ok_u _ _ _ Hfd Hval) as Hvok.
    pose proof (first_decl_adj_u _ _ _ Hfd Hval) as Hvadj.
    assert (Hs1 : E.crlf_split_ok (qv ++ E.mark :: q) = true) by (apply (crlf_split_tail _ _ Hs)).
    destruct (IHv Hvok Hvadj Hp (crlf_split_app_l _ _ Hs1)) as [Ev Hp1].
    destruct (IHr Hr (CstEntAttr.no_adj_etail _ _ Hadj) Hp1 (crlf_split_tail _ _ (crlf_split_app_r _ _ Hs1))) as [Er Hp2].
    split; [|exact Hp2].
    change (E.mark :: qv ++ E.mark :: q) with ([E.mark] ++ qv ++ [E.mark] ++ q).
    rewrite !chunks_app. change (chunks [E.mark]) with (@nil chunk). cbn [app].
    rewrite push_attr_chunks_app; [rewrite Ev; cbn [HoistProofs.obind]; exact Er|].
    apply nosplit_hoist. destruct (ends13 (chunks qv)) eqn:E13; [|reflexivity]. cbn [andb].
    apply crlf_ok_true_starts. apply (crlf_cut qv q Hs1 E13).
Qed.

Lemma AExp_chunks_u : forall m ps t q tr t', AExp decls m ps t q tr t' -> Forall (uep_ok m) ps -> CV (chunks q).
Proof.
  intros m ps t q tr t' H.
  induction H as [m t|m p r t t1 q tr t' _ _ _ IH|m n r d vps t qv trv t1 q tr t' Hfd Hval _ IHv _ IHr]; intros Hok.
  - apply CV_nil.
  - apply Forall_cons_iff in Hok. destruct Hok as [Hp Hr]. unfold chunks. cbn [flat_map].
    apply CV_app; [apply (uep_chunks m p Hp)|apply IH; exact Hr].
  - apply Forall_cons_iff in Hok. destruct Hok as [_ Hr].
    change (E.mark :: qv ++ E.mark :: q) with ([E.mark] ++ qv ++ [E.mark] ++ q). rewrite !chunks_app.
    change (chunks [E.mark]) with (@nil chunk). cbn [app]. apply CV_app.
    + apply IHv. apply (first_decl_ok_u _ _ _ Hfd Hval).
    + apply IHr. exact Hr.
Qed.

(* inside a value, with no reference to '<' anywhere in the result *)
Lemma inline_AExp_in_u : forall k ps q tr, E.inline_ps (E.level decls k) false true ps = Some (q, tr) ->
  existsb E.is_lt_ref q = false -> Forall (uep_ok true) ps ->
  forall t, tb_pending_cr t = false -> exists t', AExp decls true ps t q tr t' /\ tb_pending_cr t' = false.
Proof.
  induction k as [k IHk] using lt_wf_ind. induction ps as [|p ps IH]; intros q tr H Hlt Hok t Hp.
  - injection H as <- <-. exists t. split; [constructor|exact Hp].
  - apply Forall_cons_iff in Hok. destruct Hok as [Hp0 Hr]. cbn [E.inline_ps] in H. destruct p as [p|n].
    + cbn [andb] in H. destruct (E.inline_ps (E.level decls k) false true ps) as [[q' tr']|] eqn:Er; [|discriminate].
      cbn [E.obind fst snd] in H. injection H as <- <-. cbn [existsb] in Hlt. apply orb_false_iff in Hlt. destruct Hlt as [Hl1 Hl2].
      destruct (push_top_total (T.piece_chunks p) t Hp) as [t1 E1].
      assert (E1' : push_attr_chunks true (T.piece_chunks p) t = Some t1) by (rewrite piece_push_eq_u; auto).
      pose proof (push_attr_pending true _ _ _ Hp E1') as Hp1.
      destruct (IH _ _ eq_refl Hl2 Hr t1 Hp1) as (t' & HA & Hp').
      exists t'. split; [|exact Hp']. econstructor; [intros _; exact Hl1|exact E1'|exact HA].
    + destruct (E.lookup (E.level decls k) n) as [v|] eqn:El; [|discriminate]. cbn [E.obind] in H.
      destruct (E.x_pieces v) as [qv|] eqn:Ex; [|discriminate]. cbn [E.obind andb] in H.
      destruct (E.inline_ps (E.level decls k) false true ps) as [[q' tr']|] eqn:Er; [|discriminate].
      cbn [E.obind fst snd] in H. injection H as <- <-.
      cbn [existsb E.is_lt_ref E.mark] in Hlt. rewrite existsb_app in Hlt. cbn [existsb E.is_lt_ref E.mark] in Hlt.
      rewrite !orb_false_iff in Hlt. destruct Hlt as [_ [Hl1 [_ Hl2]]].
      destruct (lookup_pieces decls _ _ _ _ El Ex) as (k' & d & vps & -> & Hf & Hv & Hi).
      destruct (IHk k' ltac:(lia) vps qv _ Hi Hl1 (first_decl_ok_u _ _ _ Hf Hv) t Hp) as (t1 & HA1 & Hp1).
      destruct (IH _ _ eq_refl Hl2 Hr t1 Hp1) as (t' & HA & Hp').
      exists t'. split; [|exact Hp']. eapply CstEntAttr.AExp_ref; eassumption.
Qed.

(* an attribute value, in mode m *)
Lemma inline_AExp_u : forall k m ps q tr, E.inline_ps (E.level decls k) true m ps = Some (q, tr) ->
  Forall (uep_ok m) ps ->
  forall t, tb_pending_cr t = false -> exists t', AExp decls m ps t q tr t' /\ tb_pending_cr t' = false.
Proof.
  intros k m. induction ps as [|p ps IH]; intros q tr H Hok t Hp.
  - injection H as <- <-. exists t. split; [constructor|exact Hp].
  - apply Forall_cons_iff in Hok. destruct Hok as [Hp0 Hr]. cbn [E.inline_ps] in H. destruct p as [p|n].
    + cbn [andb] in H. destruct (m && E.is_lt_ref p) eqn:Elt; [discriminate|].
      destruct (E.inline_ps (E.level decls k) true m ps) as [[q' tr']|] eqn:Er; [|discriminate].
      cbn [E.obind fst snd] in H. injection H as <- <-.
      destruct (push_top_total (T.piece_chunks p) t Hp) as [t1 E1].
      assert (E1' : push_attr_chunks m (T.piece_chunks p) t = Some t1).
      { destruct m; [|exact E1]. cbn [andb] in Elt. rewrite piece_push_eq_u; auto. }
      pose proof (push_attr_pending m _ _ _ Hp E1') as Hp1.
      destruct (IH _ _ eq_refl Hr t1 Hp1) as (t' & HA & Hp').
      exists t'. split; [|exact Hp']. econstructor; [intros ->; exact Elt|exact E1'|exact HA].
    + destruct (E.lookup (E.level decls k) n) as [v|] eqn:El; [|discriminate]. cbn [E.obind] in H.
      destruct (E.x_pieces v) as [qv|] eqn:Ex; [|discriminate]. cbn [E.obind andb] in H.
      destruct (existsb E.is_lt_ref qv) eqn:Elt; [discriminate|].
      destruct (E.inline_ps (E.level decls k) true m ps) as [[q' tr']|] eqn:Er; [|discriminate].
      cbn [E.obind fst snd] in H. injection H as <- <-.
      destruct (lookup_pieces decls _ _ _ _ El Ex) as (k' & d & vps & -> & Hf & Hv & Hi).
      destruct (inline_AExp_in_u k' vps qv _ Hi Elt (first_decl_ok_u _ _ _ Hf Hv) t Hp) as (t1 & HA1 & Hp1).
      destruct (IH _ _ eq_refl Hr t1 Hp1) as (t' & HA & Hp').
      exists t'. split; [|exact Hp']. eapply CstEntAttr.AExp_ref; eassumption.
Qed.

End Decls.

Print Assumptions Exp_sem_u.
Print Assumptions AExp_sem_u.
Print Assumptions inline_AExp_u.
