(* Proofs/CstFullD15Text.v -- the known finding D15 on whole documents: character data with references to entities with markup
   one of which contains, reached by the expansion, an attribute value with &lt;: the text token fails with
   InvalidAttributeValue, after whatever has been read before (Proofs/CstFullS6Text.v for that part).  The items are those of
   the NAIVE inlining (tables [nlevel] of Proofs/KnownFindingsD15.v); "the spec refuses" is [inline_* (level ...) = None]. *)
From Coq Require Import Ascii String.
From Coq Require Import List NArith PeanoNat Bool Lia ZifyBool ZifyN ZifyNat.
Import ListNotations.
From RX Require Import Generated.
From RX.Model Require Import Base CharClass Stream Tokenizer Doc Builder Parse.
From RX.Spec Require Cst CstText CstEnt Detector Scope CstU CstNs.
From RX.Spec Require Chars.
From RX.Spec Require Import CstFullS5.
From RX.Spec Require Import Text CstFull CstFullS4.
From RX.Spec Require Import CstFullS6.
From RX.Proofs Require Import Tactics CstLex CstBuild CstULex TextMachine TextMerge HoistProofs NoPanicUtf8 DetectorProofs.
From RX.Proofs Require Import CstTextSem CstTextLex CstTextBuild CstEntSem CstEntMeaning CstEntRun CstEntInline.
From RX.Proofs Require Import CstNsLex CstNsView CstNsBuild CstFullLex CstFullBuild CstFullTree.
From RX.Proofs Require Import CstFullS2Sem CstFullS2Lex CstFullS2Build CstFullS3Sem CstFullS3Text CstFullS3Plug.
From RX.Proofs Require Import CstEntCFloor CstEntCBuild CstEntCSem CstEntCLoop.
From RX.Proofs Require Import CstFullS4Sem CstFullS4TSem CstFullS4TText CstFullS4Build CstFullS4Attr.
From RX.Proofs Require Import CstFullS5Ws.
From RX.Proofs Require Import CstFullS6Text CstFullS6Items.
From RX.Proofs Require Import CstFullRejSem CstFullRejText KnownFindingsD15 CstFullD15Attr.
From RX.Proofs Require CstEntText CstEntCLex CstEntCText CstFullS6Lex CstNsItems CstNsDoc CstFullItems CstTextItems.
Open Scope N_scope.

Section D15Text.
Variable text : bytes.
Variable D : list Scope.binding.
Hypothesis HD : forall l, NoDup l -> incl l D -> N.of_nat (length l) <= 65535.
Variable decls : list xdecl.
Variable es : list entity.
Hypothesis Henv : Forall2 (uent_ok text) (map pd decls) es.
Hypothesis Hdecls : Forall udecl_okc (map pd decls).
Hypothesis Hcont : Forall decl_cont decls.

Notation W := (CstLex.W text).
Notation WV := (CstULex.WV text).
Notation WVs := (CstFullS6Lex.WV text).
Notation sst4 := CstEntCLex.st.
Notation evl := (CstEntCBuild.evl text).
Notation OR := (CstFullS6Text.OR text D es).
Notation Res := (CstFullS6Text.Res text D es).
Notation Rooms := (CstFullS6Text.Rooms).
Notation NsOk := (CstFullS6Text.NsOk D).
Notation SemI := (CstEntCText.SemI text).
Notation decls3 := (map pd decls).

(* what is proved of a list of items that the naive inlining accepts and the inlining of the spec refuses *)
Definition ItemsD (k : nat) (cs : list uitem) : Prop :=
  forall inh m en tl p post c0 c frs acc lvl depth fuel its tr ld',
    forallb (wf_uitem_s m) cs = true -> no_adjacent_text epieces cs = true ->
    WVs en tl p (r_uitems cs ++ post) -> text_stop post ->
    OR inh c0 c frs -> SemI frs acc -> bnd_if cs acc ->
    m = (0 <? ld_depth (c_ld c)) -> N.of_nat lvl + ld_depth (c_ld c) = 12 -> ld_ok (c_ld c) ->
    c_entity_floor c <= len_N (c_parent_prefixes c) ->
    inline_items (nlevel decls k) false cs = Some (its, tr) -> inline_items (level decls k) m cs = None ->
    ld_run (c_ld c) tr = Some ld' ->
    Pok acc its -> Rooms inh c0 acc its -> NsOk inh acc its ->
    exists pos,
      parse_content_loop text context (evl lvl) (usteps_list cs + fuel) depth (sst4 en tl p (r_uitems cs ++ post)) c =
      Err (InvalidAttributeValue pos).

(* ... and of the pieces of a text token *)
Definition TLdS (k : nat) : Prop :=
  forall ps bps bacc inh m e p more c0 c frs acc fuel L r its tr ld',
  Forall (uep_ok m) ps -> WV p (E.r_epieces ps ++ more) -> p + blen (E.r_epieces ps) = e -> e <= tlen text ->
  m = (0 <? ld_depth (c_ld c)) -> N.of_nat L + ld_depth (c_ld c) = 12 -> ld_ok (c_ld c) ->
  acc_ok m bacc -> bacc = chunks bps -> nomarks bps ->
  OR inh c0 c frs -> SemI frs acc -> bnd acc = true ->
  c_entity_floor c <= len_N (c_parent_prefixes c) ->
  inline_run (nlevel decls k) false ps = Some (its, tr) -> inline_run (level decls k) m ps = None ->
  ld_run (c_ld c) tr = Some ld' ->
  Pok (acc ++ bps) its -> Rooms inh c0 (acc ++ bps) its -> NsOk inh (acc ++ bps) its ->
  (length (E.r_epieces ps) < fuel)%nat ->
  exists pos,
    (let! (b0, c1) := text_loop text (parse_content_lvl text L) r fuel (sst e p (E.r_epieces ps ++ more))
                        (push_text_chunks m bacc tb_new) c in finish_text r b0 c1) = Err (InvalidAttributeValue pos).

Section Level.
Variable k : nat.
Hypothesis IHd : forall k', k = S k' -> forall cs, ItemsD k' cs.
Notation tb := (level decls k).
Notation IHk := (IHok text D HD decls es Henv Hdecls Hcont k).

(* a reference whose value is entered, and fails *)
Lemma ref_step_value_err pc r fu s buf c value s1 c1 ld1 sv er :
  at_end s = false -> parse_next_chunk text s (c_entities c) = Ok (ChText value, s1) ->
  finish_text r buf c = Ok c1 -> ld_enter (c_ld c1) = Some ld1 ->
  stream_from_substr text (sl_start value) (sl_end value) = Ok sv ->
  pc sv (set_entity_floor (set_tag_name (set_ld c1 ld1) tag_name_null) (len_N (c_parent_prefixes c1))) = Err er ->
  text_loop text pc r (S fu) s buf c = Err er.
Proof.
  intros He Hp Ef Een Es Epc. rewrite (text_loop_entity_step text pc r fu s buf c value s1 He Hp).
  rewrite Ef. cbn [bind]. destruct (CstEntText.enter_model text s1 _ _ Een) as (l0 & Ei1 & Ei2).
  rewrite Ei1. cbn [bind]. rewrite Ei2. cbn [bind]. rewrite Es. cbn [bind]. cbv zeta.
  cbn [c_parent_prefixes c_tag_name c_entity_floor set_ld]. rewrite Epc. reflexivity.
Qed.

(* the value of an entity with markup that the spec refuses *)
Lemma value_d inh n v d en L c0 c2 frs2 acc2 ld1' :
  ylookup (nlevel decls k) n = Some v -> ylookup tb n = None -> first_xdecl decls n = Some d -> uent_ok text (pd d) en ->
  OR inh c0 c2 frs2 -> SemI frs2 acc2 -> bnd acc2 = true ->
  0 < ld_depth (c_ld c2) <= 10 -> N.of_nat L + ld_depth (c_ld c2) = 13 -> ld_ok (c_ld c2) ->
  c_entity_floor c2 = len_N (c_parent_prefixes c2) ->
  ld_run (c_ld c2) (y_trace v) = Some ld1' ->
  Pok acc2 (y_items v) -> Rooms inh c0 acc2 (y_items v) -> NsOk inh acc2 (y_items v) ->
  exists sv pos,
    stream_from_substr text (sl_start (en_value en)) (sl_end (en_value en)) = Ok sv /\
    parse_content_lvl text L sv c2 = Err (InvalidAttributeValue pos).
Proof.
  intros Eln El Hfd Hent HO HS Hbnd Hd0 Hlvl Hok Hfl Hld HP HR HN.
  rewrite ylookup_level in El. rewrite ylookup_nlevel in Eln. destruct k as [|k'] eqn:Ek; [discriminate|]. rewrite Hfd in El, Eln.
  pose proof (first_xdecl_in _ _ _ Hfd) as Hin.
  destruct L as [|L']; [lia|].
  destruct (x_value d) as [vps0|its_v] eqn:Hval; cbn [inline_value ninline_value] in El, Eln.
  - (* character data: the two tables agree *)
    rewrite inline_ps_nlevel in Eln.
    destruct (E.inline_ps (ptable (level decls k')) false true (enc_epieces vps0)) as [x|]; discriminate.
  - (* items *)
    destruct (inline_items (nlevel decls k') false its_v) as [[itv trv]|] eqn:Ein; [|discriminate].
    cbn [E.obind fst snd] in Eln. injection Eln as <-. cbn [y_items y_trace] in *.
    destruct (inline_items (level decls k') true its_v) as [y|] eqn:Ei; [discriminate|].
    assert (Hc : decl_cont d) by (rewrite Forall_forall in Hcont; apply Hcont; exact Hin).
    unfold decl_cont in Hc. rewrite Hval in Hc. destruct Hc as [Hwf Hna].
    destruct Hent as (Hen & vs & tail & Eval & HWv).
    change (E.e_value (pd d)) with (pv (x_value d)) in Eval, HWv. rewrite r_value_pv, Hval in Eval, HWv. cbn [r_xvalue] in Eval, HWv.
    rewrite Eval. cbn [sl sl_start sl_end].
    rewrite (stream_from_substr_W text vs (r_uitems its_v) tail (WV_W _ _ _ HWv)).
    set (ve := vs + blen (r_uitems its_v)).
    pose proof (usteps_list_le D HD true its_v Hwf) as Hst.
    assert (HW' : WVs ve tail vs (r_uitems its_v ++ [])).
    { split; [rewrite app_nil_r; exact HWv|rewrite app_nil_r; reflexivity]. }
    assert (Hm' : true = (0 <? ld_depth (c_ld c2))) by (replace (0 <? ld_depth (c_ld c2)) with true by lia; reflexivity).
    assert (Hb' : bnd_if its_v acc2) by (destruct its_v; [exact I|]; intros _; exact Hbnd).
    destruct (IHd k' eq_refl its_v inh true ve tail vs [] c0 c2 frs2 acc2 L' 0
                (S (length (r_uitems its_v ++ tail) - usteps_list its_v)) itv trv ld1'
                Hwf Hna HW' I HO HS Hb' Hm' ltac:(lia) Hok ltac:(lia) Ein Ei Hld HP HR HN) as (pos & Ef).
    eexists. exists pos. split; [reflexivity|].
    rewrite parse_content_lvl_S. unfold parse_content. cbn [sst s_rest].
    replace (S (length (r_uitems its_v ++ tail)))
      with (usteps_list its_v + S (length (r_uitems its_v ++ tail) - usteps_list its_v))%nat
      by (rewrite app_length; lia).
    change (sst ve vs (r_uitems its_v ++ tail)) with (sst4 ve tail vs (r_uitems its_v)).
    rewrite <- (app_nil_r (r_uitems its_v)) at 2. exact Ef.
Qed.

(* ---- the loop of process_text_with ---- *)
Lemma TLd : TLdS k.
Proof.
  intros ps. induction ps as [|pc0 rest IH]; intros bps bacc inh m e p more c0 c frs acc fuel L r its tr ld'
    Hok HW He Hle Hm Hlvl Hldok Hacc Hb Hnm HO HS Hbnd Hfl Hin Hno Hld HP HR HN Hfu.
  - cbn [inline_run] in Hno. discriminate.
  - apply Forall_cons_iff in Hok. destruct Hok as [Hp Hrest]. destruct pc0 as [q|n].
    + (* a piece *)
      cbn [inline_run] in Hin, Hno. destruct (inline_run (nlevel decls k) false rest) as [[itr trr]|] eqn:Er; [|discriminate].
      cbn [E.obind fst snd] in Hin. injection Hin as <- <-.
      destruct (inline_run tb m rest) as [y|] eqn:Er2; [discriminate|].
      cbn [E.r_epieces flat_map E.r_epiece] in *. fold (E.r_epieces rest) in *.
      rewrite <- app_assoc in HW |- *. rewrite blen_app in He.
      pose proof Hp as [Hvp _]. pose proof (chunks_le_piece_u D HD q Hvp) as Hcl. rewrite app_length in Hfu.
      replace fuel with (length (T.piece_chunks q) + (fuel - length (T.piece_chunks q)))%nat by lia.
      rewrite (loop_piece_u text D HD) by (try assumption; lia). rewrite <- Hm.
      rewrite <- push_text_chunks_app.
      apply (IH (bps ++ [q]) (bacc ++ T.piece_chunks q) inh m e (p + blen (T.r_piece q)) more c0 c frs acc
                (fuel - length (T.piece_chunks q))%nat L r itr trr ld'); try assumption; try lia; try reflexivity.
      * apply (WV_app _ _ _ _ HW (vpiece_valid 60 q Hvp)).
      * apply acc_app; [exact Hacc|apply uep_chunks; exact Hp].
      * rewrite chunks_app, Hb. f_equal. unfold chunks. cbn [flat_map]. rewrite app_nil_r. reflexivity.
      * apply Forall_app. split; [exact Hnm|]. constructor; [apply (uep_nonmark _ _ Hp)|constructor].
      * rewrite app_assoc. exact HP.
      * rewrite app_assoc. exact HR.
      * rewrite app_assoc. exact HN.
    + (* a reference *)
      destruct Hp as [Hn Hpre].
      cbn [inline_run] in Hin, Hno. destruct (ylookup (nlevel decls k) n) as [v|] eqn:Eln; [|discriminate]. cbn [E.obind] in Hin.
      destruct (inline_run (nlevel decls k) false rest) as [[itr trr]|] eqn:Er; [|discriminate].
      cbn [E.obind fst snd] in Hin. injection Hin as <- <-.
      cbn [E.r_epieces flat_map E.r_epiece] in *. fold (E.r_epieces rest) in *.
      rewrite <- !app_assoc in HW |- *. rewrite !blen_app in He. change (blen [38]) with 1 in He. change (blen [59]) with 1 in He.
      assert (Hfd : exists d, first_xdecl decls n = Some d).
      { rewrite ylookup_nlevel in Eln. destruct k; [discriminate|]. destruct (first_xdecl decls n); [eauto|discriminate]. }
      destruct Hfd as [d Hfd].
      assert (Hfd3 : first_decl decls3 n = Some (pd d)) by (rewrite first_decl_pd, Hfd; reflexivity).
      destruct (pnc_entity_u text D HD decls3 es Henv e p n (E.r_epieces rest ++ more) (pd d) HW Hn Hpre ltac:(lia) Hle Hfd3)
        as (en & Epnc & Hent).
      destruct fuel as [|fu]; [lia|].
      set (acc1 := acc ++ bps) in *.
      set (acc2 := acc1 ++ [E.mark]).
      assert (Eits : bmark :: y_items v ++ bmark :: itr = (bmark :: y_items v ++ [bmark]) ++ itr)
        by (cbn [app]; rewrite <- app_assoc; reflexivity).
      assert (Ew1 : walk acc1 (bmark :: y_items v ++ [bmark]) =
                    (fst (walk acc2 (y_items v)), snd (walk acc2 (y_items v)) ++ [E.mark])).
      { unfold bmark. cbn [walk]. fold acc2. rewrite walk_app. cbn [walk fst snd]. rewrite app_nil_r. reflexivity. }
      rewrite Eits in HP, HR, HN.
      destruct (Pok_app _ _ _ HP) as [HP1 HP2]. rewrite Ew1 in HP2. cbn [snd] in HP2.
      destruct (CstFullS6Text.NsOk_app _ _ _ _ _ HN) as [HN1 HN2]. rewrite Ew1 in HN2. cbn [snd] in HN2.
      assert (HNv : NsOk inh acc2 (y_items v)).
      { unfold CstFullS6Text.NsOk in HN1 |- *. rewrite Ew1 in HN1. cbn [fst] in HN1. exact HN1. }
      assert (HPv : Pok acc2 (y_items v)).
      { destruct HP1 as [X1 X2]. rewrite Ew1 in X1, X2. cbn [fst snd] in X1, X2. split; [exact X1|].
        apply (crlf_split_app_l _ [E.mark]). exact X2. }
      pose proof (CstFullS6Text.Rooms_app_l D HD _ _ _ _ _ HR) as HR1.
      (* flush *)
      destruct (CstFullS6Text.buf_flush text D es inh m bacc bps r c0 c frs acc Hacc Hb Hnm HO HS Hbnd) as (c1 & G0 & E0 & HO1 & HS1 & L1 & L2 & L3).
      { apply (crlf_split_app_l _ [E.mark]). apply (Pok_acc _ _ HPv). }
      { intros Z0 Z1. destruct HR1 as [HR1 _]. rewrite Ew1 in HR1. cbn [fst snd] in HR1.
        apply (CstFullItems.node_room_room _ _ HR1).
        pose proof (CstFullS6Text.flush_later (y_items v ++ [bmark]) acc2) as Hl.
        rewrite walk_app in Hl. unfold bmark in Hl. cbn [walk fst snd] in Hl. rewrite app_nil_r in Hl.
        assert (X : NT.nsizes (CstFullTree.dens bpieces bmeaning (flush acc2)) = 1).
        { rewrite CstFullS6Text.nsizes_flush. unfold acc2, acc1. rewrite !CstEntCText.all_marks_app, Z0. cbn [andb].
          destruct (all_marks bps) eqn:Em; [apply (nomarks_all bps Hnm) in Em; congruence|]. reflexivity. }
        lia. }
      assert (Hend : at_end (sst e p ([38] ++ n ++ [59] ++ E.r_epieces rest ++ more)) = false) by (rewrite at_end_sst; lia).
      assert (Hpnc : parse_next_chunk text (sst e p ([38] ++ n ++ [59] ++ E.r_epieces rest ++ more)) (c_entities c) =
                     Ok (ChText (en_value en), sst e (p + 2 + blen n) (E.r_epieces rest ++ more)))
        by (rewrite (or_es _ _ _ _ _ _ _ HO); exact Epnc).
      assert (HWn : WV (p + 2 + blen n) (E.r_epieces rest ++ more)).
      { pose proof (WV_cons _ _ _ _ HW ltac:(lia)) as X1. cbn [app] in X1.
        destruct (uname_bytes n Hn) as (Hun & _). pose proof (WV_app _ _ _ _ X1 (ustr_valid _ Hun)) as X2.
        pose proof (WV_cons _ _ _ _ X2 ltac:(lia)) as X3.
        replace (p + 2 + blen n) with (p + 1 + blen n + 1) by lia. exact X3. }
      (* the detector *)
      cbn [ld_run] in Hld. destruct (ld_enter (c_ld c)) as [ld1|] eqn:Eenter; [|discriminate].
      rewrite ld_run_app in Hld. destruct (ld_run ld1 (y_trace v)) as [ld1'|] eqn:Erun1; [|discriminate]. cbn [ld_run] in Hld.
      destruct (enter_d _ _ Eenter) as [Hd1 Hd10].
      set (c2 := set_entity_floor (set_tag_name (set_ld c1 ld1) tag_name_null) (len_N (c_parent_prefixes c1))).
      assert (HO2 : OR inh c0 c2 (frs ++ G0)) by (apply (CstFullS6Text.OR_frame text D es inh c0 c1 c2 _ HO1); unfold c2; repeat split).
      assert (HS2 : SemI (frs ++ G0) acc2) by (apply CstEntCText.SemI_marks; [exact HS1|reflexivity]).
      assert (Hb2 : bnd acc2 = true) by (unfold acc2; rewrite CstEntCText.bnd_snoc; reflexivity).
      assert (Hok2 : ld_ok (c_ld c2)) by (unfold c2; cbn; apply (ld_ok_enter _ _ Eenter Hldok)).
      assert (HRv : Rooms inh c0 acc2 (y_items v)).
      { destruct HR1 as (X1 & X2 & X3). rewrite Ew1 in X1, X2, X3. cbn [fst snd] in X1, X2, X3. split; [|split; assumption].
        unfold CstNsItems.node_room in *. rewrite !bdens_app, !nsizes_app in *.
        assert (Y : NT.nsizes (CstFullTree.dens bpieces bmeaning (flush (snd (walk acc2 (y_items v))))) <=
                    NT.nsizes (CstFullTree.dens bpieces bmeaning (flush (snd (walk acc2 (y_items v)) ++ [E.mark])))).
        { rewrite !CstFullS6Text.nsizes_flush, CstEntCText.all_marks_app. change (all_marks [E.mark]) with true. rewrite andb_true_r. apply N.le_refl. }
        lia. }
      destruct (ylookup tb n) as [v'|] eqn:El.
      * (* the value is read as the spec says; the refusal comes later *)
        assert (Ev : v' = v) by (pose proof (level_nlevel decls k n v' El) as X; rewrite Eln in X; injection X as ->; reflexivity). subst v'.
        cbn [E.obind] in Hno. destruct (inline_run tb m rest) as [y|] eqn:Er2; [discriminate|].
        destruct (CstFullS6Text.value_ok text D HD decls es Henv Hdecls Hcont k IHk inh n v d en L c0 c2 (frs ++ G0) acc2 ld1' El Hfd Hent HO2 HS2 Hb2)
          as (sv & s' & c0a & c2' & frsa & K1 & e1 & Es & Epc & HRes1); try assumption.
        { unfold c2. cbn. lia. }
        { unfold c2. cbn. lia. }
        { unfold c2. reflexivity. }
        pose proof HRes1 as (S1 & O1 & M1 & F1 & Le1 & Nc1 & D1 & D1' & Fl1 & T1).
        assert (Hpp : len_N (c_parent_prefixes c2') = c_entity_floor c2').
        { rewrite Fl1. change (c_entity_floor c2) with (len_N (c_parent_prefixes c1)).
          rewrite (CstEntText.Run_pp _ _ _ (or_run _ _ _ _ _ _ _ O1)), (CstEntText.Run_pp _ _ _ (or_run _ _ _ _ _ _ _ HO1)).
          destruct S1 as (_ & _ & ->). reflexivity. }
        rewrite (CstEntCText.ref_step text (parse_content_lvl text L) r fu (sst e p ([38] ++ n ++ [59] ++ E.r_epieces rest ++ more))
                   (push_text_chunks m bacc tb_new) c (en_value en) (sst e (p + 2 + blen n) (E.r_epieces rest ++ more)) c1 ld1 sv s' c2');
          try assumption.
        2:{ rewrite L1. exact Eenter. }
        set (c3 := set_ld (set_entity_floor (set_tag_name c2' (c_tag_name c1)) (c_entity_floor c1)) (dec_depth (c_ld c2'))).
        assert (HO3 : OR inh c0a c3 frsa) by (apply (CstFullS6Text.OR_frame text D es inh c0a c2' c3 _ O1); unfold c3; repeat split).
        assert (Eld3 : c_ld c3 = dec_depth ld1') by (unfold c3; cbn; rewrite D1; reflexivity).
        assert (Hdd : ld_depth (dec_depth ld1') = ld_depth (c_ld c)).
        { rewrite dec_d; rewrite D1'; unfold c2; cbn [c_ld set_entity_floor set_tag_name set_ld]; lia. }
        assert (HResE : Res inh c0 c acc1 (bmark :: y_items v ++ [bmark]) (dec_depth ld1') c0a c3 frsa K1 e1).
        { unfold CstFullS6Text.Res. rewrite Ew1. cbn [fst snd].
          split; [exact S1|]. split; [exact HO3|]. split; [apply CstEntCText.SemI_marks; [exact M1|reflexivity]|].
          split; [exact F1|]. split; [exact Le1|]. split; [exact Nc1|]. split; [exact Eld3|]. split; [exact Hdd|].
          split; [unfold c3; cbn; exact L3|]. unfold tn_set, c3. cbn. rewrite L2. auto. }
        apply (IH [] [] inh m e (p + 2 + blen n) more c0a c3 frsa (snd (walk acc2 (y_items v)) ++ [E.mark]) fu L r itr trr ld'); try assumption.
        -- lia.
        -- rewrite Eld3, Hdd. exact Hm.
        -- rewrite Eld3, Hdd. exact Hlvl.
        -- rewrite Eld3. apply ld_ok_dec. apply (ld_ok_run _ _ _ Erun1). apply (ld_ok_enter _ _ Eenter Hldok).
        -- apply acc_nil.
        -- reflexivity.
        -- constructor.
        -- apply CstEntCText.SemI_marks; [exact M1|reflexivity].
        -- rewrite CstEntCText.bnd_snoc. reflexivity.
        -- unfold c3. cbn [c_entity_floor c_parent_prefixes set_ld set_entity_floor set_tag_name].
           rewrite (CstEntText.Run_pp _ _ _ (or_run _ _ _ _ _ _ _ O1)). destruct S1 as (_ & _ & ->). rewrite L3.
           rewrite <- (CstEntText.Run_pp _ _ _ (or_run _ _ _ _ _ _ _ HO)). exact Hfl.
        -- reflexivity.
        -- rewrite Eld3. exact Hld.
        -- rewrite app_nil_r. exact HP2.
        -- rewrite app_nil_r. pose proof (CstFullS6Text.Rooms_app_r text D HD es _ _ _ _ _ _ _ _ _ _ _ _ HResE HR) as X. rewrite Ew1 in X. exact X.
        -- rewrite app_nil_r. exact HN2.
        -- rewrite !app_length in Hfu. cbn [length] in Hfu. lia.
      * (* the refusal is inside the value *)
        destruct (value_d inh n v d en L c0 c2 (frs ++ G0) acc2 ld1' Eln El Hfd Hent HO2 HS2 Hb2) as (sv & pos & Es & Epc); try assumption.
        { unfold c2. cbn. lia. }
        { unfold c2. cbn. lia. }
        { unfold c2. reflexivity. }
        rewrite (ref_step_value_err (parse_content_lvl text L) r fu (sst e p ([38] ++ n ++ [59] ++ E.r_epieces rest ++ more))
                   (push_text_chunks m bacc tb_new) c (en_value en) (sst e (p + 2 + blen n) (E.r_epieces rest ++ more)) c1 ld1 sv _
                   Hend Hpnc E0 ltac:(rewrite L1; exact Eenter) Es Epc).
        cbn [bind]. eauto.
Qed.

End Level.

End D15Text.

Print Assumptions value_d.
Print Assumptions TLd.
