(* Proofs/CstFullS3Dtd.v -- the capstone fragment, stage S3: the DOCTYPE with entity declarations over a UTF-8
   text is lexed and its declarations are recorded (Proofs/CstEntDtd.v ported): after
   parse_doctype the context differs only by c_entities, which satisfy the environment relation
   [uent_ok] of Proofs/CstFullS3Text.v. *)
From Coq Require Import Ascii String.
From Coq Require Import List NArith PeanoNat Bool Lia ZifyBool ZifyN ZifyNat.
Import ListNotations.
From RX Require Import Generated.
From RX.Model Require Import Base CharClass Stream Tokenizer Doc Builder Parse.
From RX.Spec Require Cst CstText CstEnt CstU.
From RX.Spec Require Import Text CstFull.
From RX.Proofs Require Import Tactics CstLex CstBuild CstULex CstFullLex CstEntDtd.
From RX.Proofs Require Import CstFullS2Sem CstFullS3Sem CstFullS3Text.
From RX.Proofs Require CstDoc.
Open Scope N_scope.

Section Dtd.
Variable text : bytes.

Notation W := (CstLex.W text).
Notation WV := (CstULex.WV text).
Notation st := (CstLex.st text).

Lemma skip_name_u name p l : WV p (utf8s name ++ l) -> CstU.wf_name name = true -> name_stop l ->
  skip_name text (st p (utf8s name ++ l)) = Ok (st (p + blen (utf8s name)) l).
Proof.
  intros HW Hn Hl. unfold skip_name. cbn [CstLex.st s_pos].
  destruct (wf_uname_parts name Hn) as (c & x & E & Hc & Hx). subst name.
  cbn [forallb] in Hx. apply andb_true_iff in Hx. destruct Hx as [Hc' Hx].
  destruct (uname_start_facts c Hc) as (_ & Hcs & _). destruct (uname_char_facts c Hc') as (Hs & _).
  rewrite utf8s_cons, <- app_assoc in *.
  fold (st p (utf8 c ++ utf8s x ++ l)). rewrite (next_char_v text) by assumption. cbn [bind]. rewrite Hcs.
  rewrite (advance_v text) by exact HW. cbn [bind].
  assert (HW' : WV (p + blen (utf8 c)) (utf8s x ++ l)).
  { apply (WV_app _ _ _ _ HW). rewrite utf8_enc. apply U8.Valid_encode. exact Hs. }
  rewrite (skip_name_loop_u text); [|exact HW'|exact Hx|exact Hl|].
  2:{ cbn [CstLex.st s_rest]. rewrite app_length. pose proof (utf8s_len_le x). lia. }
  rewrite blen_app, N.add_assoc. reflexivity.
Qed.

(* ---- one entity declaration ---- *)
Record udecl_lex_ok (e : E.edecl) : Prop := {
  ul_ws0 : Cst.wf_ws (E.e_ws0 e) = true;
  ul_ws1 : Cst.wf_ws1 (E.e_ws1 e) = true;
  ul_name : uname (E.e_name e);
  ul_ws2 : Cst.wf_ws1 (E.e_ws2 e) = true;
  ul_quote : E.e_quote e = 39 \/ E.e_quote e = 34;
  ul_value : ustr (E.r_value (E.e_value e)) /\ forallb (fun y => negb (y =? E.e_quote e)) (E.r_value (E.e_value e)) = true;
  ul_ws3 : Cst.wf_ws (E.e_ws3 e) = true
}.

Variable C : Type.
Variable ev : Tokenizer.token -> C -> res C.

Lemma uname_head_b n : uname n -> exists b0 r, n = b0 :: r /\ byte_is_space b0 = false /\ b0 <> 37.
Proof.
  intros (cs & -> & Hn). destruct (wf_uname_parts cs Hn) as (c & x & -> & Hc & _). rewrite utf8s_cons.
  destruct (N.lt_ge_cases c 128) as [L|L].
  - rewrite (utf8_ascii c L). cbn [app]. exists c, (utf8s x). split; [reflexivity|].
    destruct (uname_start_facts c Hc) as (_ & _ & Hb). specialize (Hb L). revert Hb. cls. lia.
  - destruct (utf8_high c L) as (_ & b0 & r & E & Hb). rewrite E. cbn [app]. exists b0, (r ++ utf8s x). split; [reflexivity|].
    split; [revert Hb; cls; lia|lia].
Qed.

Lemma udecl_valid e : udecl_lex_ok e -> U8.Valid (E.r_decl e).
Proof.
  intros [H0 H1 Hn H2 Hq [Hv1 Hv2] H3]. destruct (ws1_parts _ H1) as [_ Hw1]. destruct (ws1_parts _ H2) as [_ Hw2].
  destruct (uname_bytes _ Hn) as (Hun & _).
  unfold E.r_decl. repeat apply U8.Valid_app; try (apply Valid_lit, ws_lit; assumption); try (apply Valid_lit; reflexivity);
    try (apply ustr_valid; assumption); apply Valid_lit; cbn; destruct Hq as [-> | ->]; reflexivity.
Qed.

Lemma lex_entity_decl_u q e post c : WV q (E.r_decl e ++ post) -> udecl_lex_ok e ->
  parse_entity_decl text C ev (st (q + blen (E.e_ws0 e)) (skipn (length (E.e_ws0 e)) (E.r_decl e ++ post))) c =
  let! c' := ev (TEntityDecl (en_name (decl_entity q e)) (en_value (decl_entity q e))) c in
  Ok (st (q + blen (E.r_decl e)) post, c').
Proof.
  intros HW [H0 H1 Hn H2 Hq [Hvu Hv1] H3].
  destruct (ws1_parts _ H1) as [Hne1 Hw1]. destruct (ws1_parts _ H2) as [Hne2 Hw2].
  unfold E.r_decl in *. rewrite <- !app_assoc in *. rewrite skipn_len_app.
  pose proof (WV_lit _ _ _ _ HW (ws_lit _ H0)) as HWa.
  set (p0 := q + blen (E.e_ws0 e)) in *.
  unfold parse_entity_decl.
  rewrite (advance_st text 8 p0 E.kw_entity) by (try reflexivity; apply (WV_W _ _ _ HWa)). cbn [bind].
  pose proof (WV_lit _ _ _ _ HWa (eq_refl : forallb (fun y => y <? 128) E.kw_entity = true)) as HWb. change (blen E.kw_entity) with 8 in HWb.
  destruct (uname_head_b _ Hn) as (n0 & nr & En & Hnsp & Hn37).
  rewrite (consume_spaces_st text); [|apply (WV_W _ _ _ HWb)|exact Hne1|exact Hw1|rewrite En; cbn [app stops]; exact Hnsp]. cbn [bind].
  pose proof (WV_lit _ _ _ _ HWb (ws_lit _ Hw1)) as HWc.
  assert (Etry : try_consume_byte 37 (st (p0 + 8 + blen (E.e_ws1 e))
                   (E.e_name e ++ E.e_ws2 e ++ [E.e_quote e] ++ E.r_value (E.e_value e) ++ [E.e_quote e] ++ E.e_ws3 e ++ [62] ++ post)) =
                 (false, st (p0 + 8 + blen (E.e_ws1 e))
                   (E.e_name e ++ E.e_ws2 e ++ [E.e_quote e] ++ E.r_value (E.e_value e) ++ [E.e_quote e] ++ E.e_ws3 e ++ [62] ++ post))).
  { pose proof (WV_W _ _ _ HWc) as HWc'. revert HWc'. rewrite En. cbn [app]. intros HWc'. unfold try_consume_byte.
    rewrite (curr_byte_opt_st text) by exact HWc'. replace (n0 =? 37) with false by lia. reflexivity. }
  rewrite Etry. cbn [negb bind].
  destruct (E.e_ws2 e) as [|w2 ws2] eqn:Ew2; [congruence|]. rewrite <- Ew2 in *.
  assert (Hw2sp : byte_is_space w2 = true).
  { rewrite Ew2 in Hw2. cbn [Cst.wf_ws forallb] in Hw2. apply andb_true_iff in Hw2. apply ws_space. apply Hw2. }
  destruct Hn as (ncs & Encs & Hncs). rewrite Encs in *.
  rewrite (consume_name_u text); [|exact HWc|exact Hncs|].
  2:{ rewrite Ew2. cbn [app name_stop]. apply ws_not_name_byte.
      rewrite Ew2 in Hw2. cbn [Cst.wf_ws forallb] in Hw2. apply andb_true_iff in Hw2. apply Hw2. }
  cbn [bind]. pose proof (WV_app _ _ _ _ HWc (uname_valid _ Hncs)) as HWd.
  rewrite (consume_spaces_st text); [|apply (WV_W _ _ _ HWd)|exact Hne2|exact Hw2|cbn [app stops]; apply quote_not_space; exact Hq]. cbn [bind].
  pose proof (WV_lit _ _ _ _ HWd (ws_lit _ Hw2)) as HWe. pose proof (WV_W _ _ _ HWe) as HWe'. cbn [app] in HWe, HWe' |- *.
  (* the definition *)
  unfold parse_entity_def. rewrite (curr_byte_st text) by exact HWe'. cbn [bind].
  replace ((E.e_quote e =? 34) || (E.e_quote e =? 39)) with true by (destruct Hq as [-> | ->]; reflexivity).
  unfold consume_quote. rewrite (curr_byte_st text) by exact HWe'. cbn [bind].
  replace ((E.e_quote e =? 39) || (E.e_quote e =? 34)) with true by (destruct Hq as [-> | ->]; reflexivity).
  rewrite (advance1_st text) by exact HWe'. cbn [bind]. cbv zeta.
  pose proof (WV_cons _ _ _ _ HWe ltac:(destruct Hq as [-> | ->]; lia)) as HWf. pose proof (WV_W _ _ _ HWf) as HWf'. cbn [CstLex.st s_pos].
  try match goal with |- context [skip_bytes ?f {| s_pos := ?a; s_end := tlen text; s_rest := ?r |}] => fold (st a r) end.
  change (E.r_value (E.e_value e) ++ E.e_quote e :: E.e_ws3 e ++ 62 :: post)
    with (E.r_value (E.e_value e) ++ (E.e_quote e :: E.e_ws3 e ++ 62 :: post)) in *.
  rewrite (skip_bytes_st text); [|exact HWf'|exact Hv1|cbn [stops]; rewrite N.eqb_refl; reflexivity].
  pose proof (WV_app _ _ _ _ HWf (ustr_valid _ Hvu)) as HWg. pose proof (WV_W _ _ _ HWg) as HWg'.
  unfold slice_back. cbn [CstLex.st s_pos].
  rewrite (mk_slice_v text _ _ _ HWf (ustr_valid _ Hvu)). cbn [bind].
  destruct Hvu as (vcs & Evcs & Hvcs). rewrite Evcs in *.
  rewrite (is_xml_str_u text _ vcs _ _ HWf' Hvcs). cbn [bind].
  try match goal with |- context [consume_byte text ?c0 {| s_pos := ?a; s_end := tlen text; s_rest := ?r |}] => fold (st a r) end.
  rewrite (consume_byte_st text) by exact HWg'. cbn [bind negb].
  pose proof (W_cons _ _ _ _ HWg') as HWh.
  unfold decl_entity. cbv zeta. cbn [en_name en_value]. fold p0. rewrite Encs, Evcs.
  destruct (ev _ c) as [c'| | |]; cbn [bind]; try reflexivity.
  change (E.e_ws3 e ++ 62 :: post) with (E.e_ws3 e ++ [62] ++ post) in *.
  rewrite (skip_spaces_st text); [|exact HWh|apply ws_spaces; exact H3|reflexivity].
  pose proof (W_app _ _ _ _ HWh) as HWi. cbn [app] in HWi |- *.
  rewrite (consume_byte_st text) by exact HWi. cbn [bind].
  f_equal. f_equal. f_equal. unfold p0. rewrite !blen_app. change (blen E.kw_entity) with 8.
  repeat rewrite ?blen_cons, ?blen_app, ?blen_nil. lia.
Qed.

(* ---- the declarations, then "]" ws ">" ---- *)
Lemma lex_doctype_loop_u start ws3 ws4 post : forall ds q c fuel,
  WV q (flat_map E.r_decl ds ++ ws3 ++ [93] ++ ws4 ++ [62] ++ post) ->
  Forall udecl_lex_ok ds -> Cst.wf_ws ws3 = true -> Cst.wf_ws ws4 = true -> (length ds < fuel)%nat ->
  parse_doctype_loop text C ev fuel start (st q (flat_map E.r_decl ds ++ ws3 ++ [93] ++ ws4 ++ [62] ++ post)) c =
  let! c' := evs C ev (decl_toks q ds) c in
  Ok (st (q + blen (flat_map E.r_decl ds) + blen ws3 + 1 + blen ws4 + 1) post, c').
Proof.
  induction ds as [|e ds IH]; intros q c fuel HWv Hds H3 H4 Hf; pose proof (WV_W _ _ _ HWv) as HW.
  - cbn [flat_map app decl_toks decl_ents map evs bind] in *. destruct fuel as [|fu]; [lia|].
    cbn [parse_doctype_loop]. rewrite (at_end_st text) by exact HW.
    replace (match ws3 ++ 93 :: ws4 ++ 62 :: post with [] => true | _ => false end) with false by (destruct ws3; reflexivity).
    cbv zeta. change (ws3 ++ 93 :: ws4 ++ 62 :: post) with (ws3 ++ [93] ++ ws4 ++ [62] ++ post) in *.
    rewrite (skip_spaces_st text); [|exact HW|apply ws_spaces; exact H3|reflexivity].
    pose proof (W_app _ _ _ _ HW) as HW1. cbn [app] in HW1 |- *.
    rewrite !(starts_with_st text) by exact HW1.
    change (prefix_b (b "<!ENTITY") (93 :: ws4 ++ 62 :: post)) with false.
    change (prefix_b (b "<!--") (93 :: ws4 ++ 62 :: post)) with false.
    change (prefix_b (b "<?") (93 :: ws4 ++ 62 :: post)) with false.
    change (prefix_b (b "]") (93 :: ws4 ++ 62 :: post)) with true. cbv iota.
    rewrite (advance1_st text) by exact HW1. cbn [bind].
    pose proof (W_cons _ _ _ _ HW1) as HW2.
    change (ws4 ++ 62 :: post) with (ws4 ++ [62] ++ post) in *.
    rewrite (skip_spaces_st text); [|exact HW2|apply ws_spaces; exact H4|reflexivity].
    pose proof (W_app _ _ _ _ HW2) as HW3. cbn [app] in HW3 |- *.
    rewrite (curr_byte_opt_st text) by exact HW3. change (62 =? 62) with true. cbv iota.
    rewrite (advance1_st text) by exact HW3. cbn [bind]. rewrite blen_nil, N.add_0_r. reflexivity.
  - apply Forall_cons_iff in Hds. destruct Hds as [He Hds].
    cbn [flat_map decl_toks decl_ents map evs] in *. rewrite <- app_assoc in HW, HWv |- *.
    destruct fuel as [|fu]; [lia|]. cbn [length] in Hf. cbn [parse_doctype_loop].
    rewrite (at_end_st text) by exact HW.
    destruct (decl_starts e (flat_map E.r_decl ds ++ ws3 ++ [93] ++ ws4 ++ [62] ++ post)) as [l El].
    assert (Esplit : E.r_decl e ++ flat_map E.r_decl ds ++ ws3 ++ [93] ++ ws4 ++ [62] ++ post =
                     E.e_ws0 e ++ E.kw_entity ++ l).
    { rewrite <- El. unfold E.r_decl. rewrite <- !app_assoc, skipn_len_app. reflexivity. }
    replace (match E.r_decl e ++ flat_map E.r_decl ds ++ ws3 ++ [93] ++ ws4 ++ [62] ++ post with [] => true | _ => false end)
      with false by (rewrite Esplit; destruct (E.e_ws0 e); reflexivity).
    cbv zeta. rewrite Esplit. rewrite Esplit in HW.
    rewrite (skip_spaces_st text); [|exact HW|apply ws_spaces; apply (ul_ws0 _ He)|reflexivity].
    pose proof (W_app _ _ _ _ HW) as HW1.
    rewrite (starts_with_st text) by exact HW1. change (b "<!ENTITY") with E.kw_entity. rewrite prefix_b_app_same.
    rewrite <- El.
    rewrite (lex_entity_decl_u q e _ c HWv He).
    fold (decl_toks (q + blen (E.r_decl e)) ds).
    destruct (ev _ c) as [c'| | |]; cbn [bind]; try reflexivity.
    rewrite IH; [|apply (WV_app _ _ _ _ HWv (udecl_valid e He))|exact Hds|exact H3|exact H4|lia].
    rewrite blen_app. destruct (evs C ev _ c'); cbn [bind]; try reflexivity. f_equal. f_equal. f_equal. lia.
Qed.

Lemma udecls_len ds : Forall udecl_lex_ok ds -> (length ds <= length (flat_map E.r_decl ds))%nat.
Proof.
  induction 1 as [|e ds He _ IH]; [cbn; lia|]. cbn [flat_map length]. rewrite app_length.
  unfold E.r_decl at 1. rewrite !app_length. cbn [length]. lia.
Qed.

Lemma udecls_valid ds : Forall udecl_lex_ok ds -> U8.Valid (flat_map E.r_decl ds).
Proof. induction 1 as [|e ds He _ IH]; [constructor|]. cbn [flat_map]. apply U8.Valid_app; [apply udecl_valid; exact He|exact IH]. Qed.

Record udtd_lex_ok (t : E.dtd) : Prop := {
  ud_ws1 : Cst.wf_ws1 (E.t_ws1 t) = true;
  ud_name : uname (E.t_name t);
  ud_ws2 : Cst.wf_ws (E.t_ws2 t) = true;
  ud_decls : Forall udecl_lex_ok (E.t_decls t);
  ud_ws3 : Cst.wf_ws (E.t_ws3 t) = true;
  ud_ws4 : Cst.wf_ws (E.t_ws4 t) = true
}.

Lemma lex_doctype_u p t post c : WV p (E.r_dtd t ++ post) -> udtd_lex_ok t ->
  let q := p + 9 + blen (E.t_ws1 t) + blen (E.t_name t) + blen (E.t_ws2 t) + 1 in
  parse_doctype text C ev (st p (E.r_dtd t ++ post)) c =
  let! c' := evs C ev (decl_toks q (E.t_decls t)) c in Ok (st (p + blen (E.r_dtd t)) post, c').
Proof.
  intros HWv [H1 Hn H2 Hds H3 H4]. cbv zeta. pose proof (WV_W _ _ _ HWv) as HW. destruct (ws1_parts _ H1) as [Hne1 Hw1].
  unfold E.r_dtd in *. rewrite <- !app_assoc in *.
  unfold parse_doctype, parse_doctype_start. cbv zeta.
  rewrite (advance_st text 9 p E.kw_doctype) by (try reflexivity; exact HW). cbn [bind].
  pose proof (WV_lit _ _ _ _ HWv (eq_refl : forallb (fun y => y <? 128) E.kw_doctype = true)) as HWa. change (blen E.kw_doctype) with 9 in HWa.
  destruct (uname_head_b _ Hn) as (n0 & nr & En & Hnsp & _).
  rewrite (consume_spaces_st text); [|apply (WV_W _ _ _ HWa)|exact Hne1|exact Hw1|rewrite En; cbn [app stops]; exact Hnsp]. cbn [bind].
  pose proof (WV_lit _ _ _ _ HWa (ws_lit _ Hw1)) as HWb.
  destruct Hn as (ncs & Encs & Hncs). rewrite Encs in *.
  rewrite skip_name_u; [|exact HWb|exact Hncs|apply ws_stop_name; [exact H2|cbn [app name_stop]; apply not_name_91]]. cbn [bind].
  pose proof (WV_app _ _ _ _ HWb (uname_valid _ Hncs)) as HWc.
  rewrite (skip_spaces_st text); [|apply (WV_W _ _ _ HWc)|apply ws_spaces; exact H2|reflexivity].
  pose proof (WV_lit _ _ _ _ HWc (ws_lit _ H2)) as HWd. pose proof (WV_W _ _ _ HWd) as HWd'. cbn [app] in HWd, HWd' |- *.
  unfold parse_external_id. rewrite !(starts_with_st text) by exact HWd'.
  change (prefix_b (b "SYSTEM") (91 :: ?l)) with false. change (prefix_b (b "PUBLIC") (91 :: ?l)) with false.
  cbn [orb bind].
  rewrite (CstDoc.skip_spaces_none text) by (try exact HWd'; reflexivity).
  rewrite (curr_byte_st text) by exact HWd'. cbn [bind]. change (91 =? 91) with true. cbn [negb andb bind].
  rewrite (CstDoc.skip_spaces_none text) by (try exact HWd'; reflexivity).
  rewrite (curr_byte_opt_st text) by exact HWd'. change (91 =? 62) with false. cbv iota.
  rewrite (advance1_st text) by exact HWd'. cbn [bind].
  pose proof (WV_cons _ _ _ _ HWd ltac:(lia)) as HWe.
  cbn [CstLex.st s_rest s_pos].
  change (flat_map E.r_decl (E.t_decls t) ++ E.t_ws3 t ++ 93 :: E.t_ws4 t ++ 62 :: post)
    with (flat_map E.r_decl (E.t_decls t) ++ E.t_ws3 t ++ [93] ++ E.t_ws4 t ++ [62] ++ post) in *.
  rewrite lex_doctype_loop_u; [|exact HWe|exact Hds|exact H3|exact H4|].
  2:{ rewrite app_length. pose proof (udecls_len _ Hds). lia. }
  destruct (evs C ev _ c); cbn [bind]; try reflexivity. f_equal. f_equal. f_equal.
  repeat rewrite ?blen_cons, ?blen_app, ?blen_nil. change (blen E.kw_doctype) with 9. lia.
Qed.

Lemma udtd_valid t : udtd_lex_ok t -> U8.Valid (E.r_dtd t).
Proof.
  intros [H1 Hn H2 Hds H3 H4]. destruct (ws1_parts _ H1) as [_ Hw1]. destruct (uname_bytes _ Hn) as (Hun & _).
  unfold E.r_dtd. repeat apply U8.Valid_app; try (apply Valid_lit, ws_lit; assumption); try (apply Valid_lit; reflexivity).
  - apply ustr_valid; exact Hun.
  - apply udecls_valid; exact Hds.
Qed.

(* the recorded entities are where the values are *)
Lemma decl_ents_ok_u : forall ds q tail, WV q (flat_map E.r_decl ds ++ tail) -> Forall udecl_lex_ok ds ->
  Forall2 (uent_ok text) ds (decl_ents q ds).
Proof.
  induction ds as [|e ds IH]; intros q tail HW Hds; [constructor|].
  apply Forall_cons_iff in Hds. destruct Hds as [He Hds].
  cbn [flat_map decl_ents] in *. rewrite <- app_assoc in HW.
  constructor; [|apply (IH _ tail); [apply (WV_app _ _ _ _ HW (udecl_valid e He))|exact Hds]].
  destruct He as [H0 H1 Hn H2 Hq [Hvu Hv1] H3]. destruct (ws1_parts _ H1) as [_ Hw1]. destruct (ws1_parts _ H2) as [_ Hw2].
  destruct (uname_bytes _ Hn) as (Hun & _).
  unfold E.r_decl in HW. rewrite <- !app_assoc in HW.
  pose proof (WV_lit _ _ _ _ HW (ws_lit _ H0)) as A1.
  pose proof (WV_lit _ _ _ _ A1 (eq_refl : forallb (fun y => y <? 128) E.kw_entity = true)) as A2. change (blen E.kw_entity) with 8 in A2.
  pose proof (WV_lit _ _ _ _ A2 (ws_lit _ Hw1)) as A3. pose proof (WV_app _ _ _ _ A3 (ustr_valid _ Hun)) as A4.
  pose proof (WV_lit _ _ _ _ A4 (ws_lit _ Hw2)) as A5.
  assert (Hq1 : forallb (fun y => y <? 128) [E.e_quote e] = true) by (cbn; destruct Hq as [-> | ->]; reflexivity).
  pose proof (WV_lit _ _ _ _ A5 Hq1) as A6. change (blen [E.e_quote e]) with 1 in A6.
  unfold uent_ok, decl_entity. cbv zeta. cbn [en_name en_value]. split.
  - apply (W_slice _ _ _ _ (WV_W _ _ _ A3)).
  - eexists. eexists. split; [reflexivity|]. exact A6.
Qed.

End Dtd.

Print Assumptions lex_doctype_u.
Print Assumptions decl_ents_ok_u.
