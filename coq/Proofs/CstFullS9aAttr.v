(* Proofs/CstFullS9aAttr.v -- the capstone fragment, stage S9 (Spec/CstFullS9.v):
   Proofs/CstFullS3Attr.v (attribute values with references) for references named with colons.
   An adapted copy: the statements and proofs are those of that file over the definitions of Proofs/CstFullS9aSem.v. *)
From Coq Require Import Ascii String.
From Coq Require Import List NArith PeanoNat Bool Lia ZifyBool ZifyN ZifyNat.
Import ListNotations.
From RX Require Import Generated.
From RX.Model Require Import Base CharClass Stream Tokenizer Doc Builder Parse.
From RX.Spec Require Cst CstText CstEnt Detector Scope CstU.
From RX.Spec Require Import Text CstFull.
From RX.Proofs Require Import Tactics CstLex CstBuild CstULex TextMachine TextMerge HoistProofs NoPanicUtf8 DetectorProofs.
From RX.Proofs Require Import CstTextSem CstTextLex CstTextBuild CstEntSem CstEntMeaning CstEntRun CstFullLex.
From RX.Proofs Require Import CstFullS2Sem CstFullS2Lex CstFullS2Build CstFullS9aSem CstFullS9aText.
From RX.Proofs Require CstEntText CstEntAttr CstEntBuild.
Open Scope N_scope.

Section Attr.
Variable text : bytes.
Variable D : list Scope.binding.
Hypothesis HD : forall l, NoDup l -> incl l D -> N.of_nat (length l) <= 65535.
Variable decls : list E.edecl.
Variable es : list entity.
Hypothesis Henv : Forall2 (uent_ok text) decls es.
Hypothesis Hdecls : Forall udecl_ok decls.

Notation W := (CstLex.W text).
Notation WV := (CstULex.WV text).

Lemma is_elit_next_u p r : E.no_adjacent_elit (E.EP (T.PLit p) :: r) = true ->
  forall m, Forall (uep_ok m) r -> r = [] \/ exists R', E.r_epieces r = 38 :: R'.
Proof.
  intros Hadj m Hok. destruct r as [|c r']; [left; reflexivity|right].
  cbn [E.no_adjacent_elit E.is_elit andb] in Hadj. apply andb_true_iff in Hadj. destruct Hadj as [Hc _].
  apply Forall_cons_iff in Hok. destruct Hok as [Hc0 _].
  destruct c as [[bs|hex ds|pe|bs]|n]; cbn [E.is_elit negb] in Hc; try discriminate;
    cbn [E.r_epieces flat_map E.r_epiece T.r_piece app]; try (eexists; reflexivity).
  destruct Hc0 as [Hv _]. contradiction.
Qed.

Lemma AL_u : forall m ps t q tr t', AExp decls m ps t q tr t' ->
  forall e p more ld ld' lvl' fuel,
  Forall (uep_ok m) ps -> E.no_adjacent_elit ps = true ->
  WV p (E.r_epieces ps ++ more) -> p + blen (E.r_epieces ps) = e -> e <= tlen text ->
  m = (0 <? ld_depth ld) -> ld_run ld tr = Some ld' -> N.of_nat lvl' + ld_depth ld = 11 ->
  (length (E.r_epieces ps) < fuel)%nat ->
  attr_loop text lvl' es fuel (sst e p (E.r_epieces ps ++ more)) t ld = Ok (t', ld') /\
  ld_depth ld' = ld_depth ld.
Proof.
  intros m ps t q tr t' H.
  induction H as [m t|m pc0 rest t t1 q tr t' _ Hpush _ IH|m n rest d vps t qv trv t1 q tr t' Hfd Hval Hv IHv Hr IHr];
    intros e p more ld ld' lvl' fuel Hok Hadj HW He Hle Hm Hld Hlvl Hfu.
  - cbn [E.r_epieces flat_map app] in *. rewrite blen_nil, N.add_0_r in He.
    destruct fuel as [|fu]; [lia|]. cbn [attr_loop]. rewrite at_end_sst. replace (e <=? p) with true by lia.
    cbn [ld_run] in Hld. injection Hld as <-. auto.
  - apply Forall_cons_iff in Hok. destruct Hok as [Hp Hrest]. destruct Hp as [Hvp Hcv].
    pose proof (CstEntAttr.no_adj_etail _ _ Hadj) as Hadj'.
    cbn [E.r_epieces flat_map E.r_epiece] in *. fold (E.r_epieces rest) in *.
    rewrite <- app_assoc in HW |- *. rewrite blen_app in He. rewrite app_length in Hfu.
    pose proof (chunks_le_piece_u D HD pc0 Hvp) as Hcl.
    assert (Hstep : attr_loop text lvl' es fuel (sst e p (T.r_piece pc0 ++ E.r_epieces rest ++ more)) t ld =
                    attr_loop text lvl' es (fuel - length (T.piece_chunks pc0))
                      (sst e (p + blen (T.r_piece pc0)) (E.r_epieces rest ++ more)) t1 ld).
    { destruct pc0 as [bs|hex ds|pe|bs]; cbn [bvpiece] in Hvp; try contradiction.
      - cbn [T.r_piece T.piece_chunks] in *. rewrite map_length in *.
        destruct (CstEntAttr.aloop_lit text es lvl' ld e bs p (E.r_epieces rest ++ more) t (fuel - length bs) (blit_not_amp _ _ Hvp) ltac:(lia))
          as (t1' & E1 & E2).
        { destruct (is_elit_next_u bs rest Hadj m Hrest) as [->|[R' ER]].
          - left. cbn [E.r_epieces flat_map] in He. rewrite blen_nil in He. lia.
          - right. rewrite ER. eexists. reflexivity. }
        rewrite <- Hm in E1. rewrite Hpush in E1. injection E1 as <-.
        replace fuel with (length bs + (fuel - length bs))%nat at 1 by lia. exact E2.
      - cbn [T.piece_chunks push_attr_chunks] in Hpush.
        destruct (push_char_bytes_attr (T.utf8 (T.ref_val hex ds)) m t) as [t1'|] eqn:Ep; [|discriminate].
        cbn [push_attr_chunks] in Hpush. injection Hpush as <-.
        pose proof (cref_charref_u text e p hex ds (E.r_epieces rest ++ more) HW Hvp ltac:(lia) Hle) as Ec.
        assert (Hlt : p < e) by (cbn [T.r_piece app] in He; rewrite !blen_cons in He; lia).
        cbn [T.r_piece] in Ec, HW |- *. rewrite <- !app_assoc in *. cbn [app] in Ec |- *.
        cbn [T.piece_chunks length].
        replace fuel with (S (fuel - 1)) at 1 by (cbn [length] in Hcl; lia).
        rewrite (CstEntAttr.aloop_ref text es lvl' ld e p _ _ _ t t1' (fuel - 1) Hlt Ec); [reflexivity|].
        rewrite <- Hm. exact Ep.
      - cbn [T.piece_chunks push_attr_chunks] in Hpush.
        destruct (push_char_bytes_attr [T.predef_char pe] m t) as [t1'|] eqn:Ep; [|discriminate].
        cbn [push_attr_chunks] in Hpush. injection Hpush as <-.
        pose proof (cref_predef_u text e p pe (E.r_epieces rest ++ more) HW ltac:(lia) Hle) as Ec.
        assert (Hlt : p < e) by (cbn [T.r_piece app] in He; rewrite !blen_cons in He; lia).
        cbn [T.r_piece] in Ec, HW |- *. rewrite <- !app_assoc in *. cbn [app] in Ec |- *.
        cbn [T.piece_chunks length].
        replace fuel with (S (fuel - 1)) at 1 by (cbn [length] in Hcl; lia).
        rewrite (CstEntAttr.aloop_ref text es lvl' ld e p _ _ _ t t1' (fuel - 1) Hlt Ec); [reflexivity|].
        rewrite <- Hm. replace (encode_utf8 (T.predef_char pe)) with [T.predef_char pe] by (destruct pe; reflexivity).
        exact Ep. }
    rewrite Hstep. apply (IH e _ more ld ld' lvl'); try assumption; try lia.
    apply (WV_app _ _ _ _ HW (vpiece_valid 60 pc0 Hvp)).
  - apply Forall_cons_iff in Hok. destruct Hok as [Hp Hrest]. destruct Hp as [Hn Hpre].
    pose proof (CstEntAttr.no_adj_etail _ _ Hadj) as Hadj'.
    cbn [E.r_epieces flat_map E.r_epiece] in *. fold (E.r_epieces rest) in *.
    rewrite <- !app_assoc in HW |- *. rewrite !blen_app in He. change (blen [38]) with 1 in He. change (blen [59]) with 1 in He.
    destruct (find_first_u text decls es Henv n d Hfd) as (en & Efind & (Hen & vs & tail & Eval & HWv)).
    destruct (first_decl_u decls Hdecls n d Hfd) as (vps' & Hval' & Hvok & _ & Hvadj).
    rewrite Hval in Hval'. injection Hval' as <-.
    rewrite Hval in Eval, HWv. cbn [E.r_value] in Eval, HWv.
    destruct fuel as [|fu]; [lia|].
    cbn [ld_run] in Hld. destruct (ld_enter ld) as [ld1|] eqn:Eenter; [|discriminate].
    rewrite ld_run_app in Hld. destruct (ld_run ld1 trv) as [ld1'|] eqn:Erun1; [|discriminate]. cbn [ld_run] in Hld.
    destruct (CstEntText.enter_model text (sst e (p + 2 + blen n) (E.r_epieces rest ++ more)) _ _ Eenter) as (l0 & Ei1 & Ei2).
    assert (Hd1 : ld_depth ld1 = ld_depth ld + 1 /\ ld_depth ld < 10).
    { rewrite (mk_eta ld) in Eenter. apply ld_enter_some in Eenter. destruct Eenter as [Hlt [[H0 ->]|[H0 [_ ->]]]].
      - unfold DetectorProofs.mk. cbn. rewrite H0. split; [reflexivity|lia].
      - unfold DetectorProofs.mk. cbn. split; [reflexivity|exact Hlt]. }
    destruct Hd1 as [Hd1 Hd10].
    pose proof (cref_entity_u text D HD e p n (E.r_epieces rest ++ more) HW Hn Hpre ltac:(lia) Hle) as Ec.
    cbn [app] in Ec, HW |- *.
    erewrite norm_attr_entity_step;
      [|rewrite at_end_sst; lia|reflexivity|exact Ec| |exact Ei1|exact Ei2].
    2:{ pose proof (W_cons _ _ _ _ (WV_W _ _ _ HW)) as HW1. rewrite (W_slice _ _ _ _ HW1). exact Efind. }
    destruct lvl' as [|lvl'']; [lia|].
    rewrite norm_attr_lvl_unfold, Eval. cbn [sl sl_start sl_end].
    rewrite (stream_from_substr_W text vs (E.r_epieces vps) tail (WV_W _ _ _ HWv)). cbn [bind].
    pose proof (W_le _ _ _ (W_app _ _ _ _ (WV_W _ _ _ HWv))) as Hlev.
    destruct (IHv (vs + blen (E.r_epieces vps)) vs tail ld1 ld1' lvl''
                (S (length (s_rest (sst (vs + blen (E.r_epieces vps)) vs (E.r_epieces vps ++ tail))))))
      as [Ev Hdv]; try assumption; try reflexivity.
    { rewrite Hd1. replace (0 <? ld_depth ld + 1) with true by lia. reflexivity. }
    { lia. }
    { cbn [sst s_rest]. rewrite app_length. lia. }
    rewrite Ev. cbn [bind].
    assert (Hdd : ld_depth (dec_depth ld1') = ld_depth ld).
    { unfold dec_depth. cbn [ld_depth]. rewrite Hdv, Hd1. replace (0 <? ld_depth ld + 1) with true by lia. lia. }
    assert (HWn : WV (p + 2 + blen n) (E.r_epieces rest ++ more)).
    { pose proof (WV_cons _ _ _ _ HW ltac:(lia)) as X1.
      destruct (uname_bytes n Hn) as (Hun & _). pose proof (WV_app _ _ _ _ X1 (ustr_valid _ Hun)) as X2.
      pose proof (WV_cons _ _ _ _ X2 ltac:(lia)) as X3.
      replace (p + 2 + blen n) with (p + 1 + blen n + 1) by lia. exact X3. }
    destruct (IHr e (p + 2 + blen n) more (dec_depth ld1') ld' (S lvl'') fu) as [Er Hdr]; try assumption.
    + lia.
    + rewrite Hdd. exact Hm.
    + rewrite Hdd. exact Hlvl.
    + rewrite !app_length in Hfu. cbn [length] in Hfu. lia.
    + split; [exact Er|rewrite Hdr; exact Hdd].
Qed.

(* ---- a value with references, at the top level ---- *)
Lemma normalize_attribute_ent_u vs ps quote more c k q tr ld' :
  WV vs (E.r_epieces ps ++ [quote] ++ more) ->
  Forall (uep_ok false) ps -> E.no_adjacent_elit ps = true ->
  E.inline_ps (E.level decls k) true false ps = Some (q, tr) -> E.crlf_split_ok q = true ->
  ld_run ld_init tr = Some ld' -> c_ld c = ld_init -> c_entities c = es ->
  normalize_attribute text (sl vs (vs + blen (E.r_epieces ps))) c =
  Ok (if needs_norm (E.r_epieces ps) then Owned (T.value_sem q)
      else Borrowed (SIn (sl vs (vs + blen (E.r_epieces ps)))), c).
Proof.
  intros HWv Hok Hadj Hin Hs Hld Hc Hes. pose proof (WV_W _ _ _ HWv) as HW.
  unfold normalize_attribute. cbv zeta. rewrite (W_slice _ _ _ _ HW).
  fold (needs_norm (E.r_epieces ps)). destruct (needs_norm (E.r_epieces ps)) eqn:E; [|reflexivity].
  destruct (inline_AExp_u decls Hdecls k false ps q tr Hin Hok tb_new eq_refl) as (t' & HA & Hp').
  unfold entity_levels. rewrite norm_attr_lvl_unfold. cbn [sl sl_start sl_end].
  rewrite (stream_from_substr_W text vs (E.r_epieces ps) _ HW). cbn [bind]. rewrite Hc, Hes.
  pose proof (W_le _ _ _ (W_app _ _ _ _ HW)) as Hle.
  destruct (AL_u false ps tb_new q tr t' HA
              (vs + blen (E.r_epieces ps)) vs ([quote] ++ more) ld_init ld' (S (N.to_nat ld_max_depth))
              (S (length (s_rest (sst (vs + blen (E.r_epieces ps)) vs (E.r_epieces ps ++ [quote] ++ more))))))
    as [Eloop Hd]; try assumption; try reflexivity.
  { cbn [sst s_rest]. rewrite app_length. lia. }
  rewrite Eloop. cbn [bind].
  destruct (AExp_sem_u decls Hdecls false ps tb_new q tr t' HA Hok Hadj eq_refl Hs) as [Epush _].
  pose proof (attr_chunks_normalise (chunks q) t' Epush) as Hn.
  unfold tb_finish. rewrite Hn.
  assert (Hval : valid_utf8_b (norm_attr_chunks (chunks q)) = true).
  { apply valid_iff_Valid. apply CV_norm_attr. apply (AExp_chunks_u decls Hdecls _ _ _ _ _ _ HA Hok). }
  rewrite Hval. cbn [bind]. rewrite (CstEntBuild.ld_run_init tr ld' Hld Hd). rewrite <- Hc, set_ld_same. reflexivity.
Qed.

End Attr.

Print Assumptions AL_u.
Print Assumptions normalize_attribute_ent_u.
