(* Proofs/CstRangeG6Sem.v -- C13 / C18 on the capstone fragment, stage S6: facts about the meaning used by the
   range theorems -- the level tables of the entities grow (what is inlined at level k is inlined to
   the same at every higher level), so the value of an attribute normalised at any level is the one
   the top-level table gives; where the values of the recorded entities are written. *)
From Coq Require Import List NArith PeanoNat Bool Lia ZifyBool ZifyN ZifyNat.
Import ListNotations.
From RX Require Import Generated.
From RX.Model Require Import Base CharClass Stream Tokenizer Doc Builder Parse.
From RX.Spec Require Cst CstText CstEnt Detector Scope CstU.
From RX.Spec Require Import Text CstFull CstFullS4.
From RX.Proofs Require Import Tactics CstLex CstULex CstEntSem CstEntMeaning CstFullS3Sem CstFullS3Text CstFullS4Sem.
From RX.Proofs Require CstEntText CstRangeG5Frags.
From RX.Proofs Require Import CstRangeDefs CstRangeTDefs CstRangeEDefs CstRangeFDefs CstRangeGDefs CstRangeG6Defs.
Open Scope N_scope.

(* ---- the tables grow ---- *)
Definition tle (t1 t2 : E.table) : Prop := forall n v, E.lookup t1 n = Some v -> E.lookup t2 n = Some v.

Lemma inline_ps_mono t1 t2 fa ie : tle t1 t2 ->
  forall ps x, E.inline_ps t1 fa ie ps = Some x -> E.inline_ps t2 fa ie ps = Some x.
Proof.
  intros Hle. induction ps as [|p r IH]; intros x H; [exact H|].
  cbn [E.inline_ps] in *. destruct p as [p|n].
  - destruct (fa && ie && E.is_lt_ref p); [discriminate|].
    destruct (E.inline_ps t1 fa ie r) as [y|] eqn:Er; [|discriminate]. rewrite (IH y eq_refl). exact H.
  - destruct (E.lookup t1 n) as [v|] eqn:El; [|discriminate]. rewrite (Hle n v El). cbn [E.obind] in *.
    destruct (E.x_pieces v) as [q|]; [|discriminate]. cbn [E.obind] in *.
    destruct (fa && existsb E.is_lt_ref q); [discriminate|].
    destruct (E.inline_ps t1 fa ie r) as [y|] eqn:Er; [|discriminate]. rewrite (IH y eq_refl). exact H.
Qed.

Lemma level_S_mono (decls : list xdecl) : forall k, tle (E.level (map pd decls) k) (E.level (map pd decls) (S k)).
Proof.
  induction k as [|k IH]; intros n v Hl.
  - rewrite lookup_level in Hl. discriminate.
  - rewrite lookup_level in Hl |- *. rewrite first_decl_pd in *.
    destruct (first_xdecl decls n) as [d|]; [|discriminate]. cbn [option_map] in *.
    cbn [pd E.e_value] in *. destruct (x_value d) as [ps|its]; cbn [pv E.inline_value] in *.
    + destruct (E.inline_ps (E.level (map pd decls) k) false true (enc_epieces ps)) as [x|] eqn:Ei; [|discriminate].
      rewrite (inline_ps_mono _ _ false true IH _ _ Ei). exact Hl.
    + exact Hl.
Qed.

Lemma level_mono (decls : list xdecl) k k' : (k <= k')%nat -> tle (E.level (map pd decls) k) (E.level (map pd decls) k').
Proof.
  induction 1 as [|k' _ IH]; [intros n v H; exact H|].
  intros n v H. apply level_S_mono. apply IH. exact H.
Qed.

(* the value of an attribute, normalised under the table of any level up to the top one *)
Lemma eval_sem_level (decls : list xdecl) k fa ps Q tr : (k <= E.max_level)%nat ->
  E.inline_ps (E.level (map pd decls) k) true fa (enc_epieces ps) = Some (Q, tr) ->
  eval_sem (E.level (map pd decls) E.max_level) ps = T.value_sem Q.
Proof.
  intros Hk H. unfold eval_sem.
  assert (H0 : E.inline_ps (E.level (map pd decls) k) true false (enc_epieces ps) = Some (Q, tr)).
  { destruct fa; [|exact H]. clear - H. revert Q tr H. induction (enc_epieces ps) as [|p r IH]; intros Q tr H; [exact H|].
    cbn [E.inline_ps] in *. destruct p as [p|n].
    - cbn [andb] in *. destruct (E.is_lt_ref p); [discriminate|].
      destruct (E.inline_ps _ true true r) as [[y1 y2]|] eqn:Er; [|discriminate]. rewrite (IH _ _ eq_refl). exact H.
    - destruct (E.lookup _ n) as [v|]; [|discriminate]. cbn [E.obind] in *.
      destruct (E.x_pieces v) as [q|]; [|discriminate]. cbn [E.obind] in *.
      destruct (true && existsb E.is_lt_ref q); [discriminate|].
      destruct (E.inline_ps _ true true r) as [[y1 y2]|] eqn:Er; [|discriminate]. rewrite (IH _ _ eq_refl). exact H. }
  rewrite (inline_ps_mono _ _ true false (level_mono decls k E.max_level Hk) _ _ H0). reflexivity.
Qed.

(* the declarations of the spec are those of the proofs *)
Lemma ev_of_pv v : ev_of v = pv v.
Proof. destruct v; reflexivity. Qed.

(* ---- where the values of the recorded entities are written ---- *)
Definition xvt_of (decls : list xdecl) (es : list entity) : xvt :=
  map (fun de => (utf8s (x_name (fst de)), (sl_start (en_value (snd de)), x_value (fst de)))) (combine decls es).

Lemma tvt_xvt_of decls es : tvt (xvt_of decls es) = CstRangeG5Frags.vt_of (map pd decls) es.
Proof.
  unfold tvt, xvt_of, CstRangeG5Frags.vt_of. revert es. induction decls as [|d r IH]; intros es; [reflexivity|].
  destruct es as [|e es]; [reflexivity|]. cbn [combine map fst snd]. rewrite IH.
  cbn [pd E.e_name E.e_value]. destruct (x_value d); reflexivity.
Qed.

Lemma xlookup_pos text n d : forall ds es, Forall2 (uent_ok text) (map pd ds) es ->
  first_xdecl ds n = Some d ->
  exists en, find_entity text es n = Some en /\
             xvlookup (xvt_of ds es) n = Some (sl_start (en_value en), x_value d) /\
             sl_end (en_value en) = sl_start (en_value en) + blen (r_xvalue (x_value d)).
Proof.
  unfold first_xdecl. induction ds as [|d0 ds IH]; intros es HF Hf; [discriminate|].
  destruct es as [|e0 es]; [inversion HF|]. cbn [map] in HF. inversion HF as [|? ? ? ? H0 HF']; subst.
  unfold xvt_of. cbn [find find_entity combine map xvlookup fst snd] in *. destruct H0 as (Hn & vs & tail & Ev & _).
  rewrite Hn, <- CstEntText.beq_bytes_eqb. change (E.e_name (pd d0)) with (utf8s (x_name d0)).
  destruct (E.beq (utf8s (x_name d0)) n).
  - injection Hf as <-. exists e0. split; [reflexivity|]. split; [reflexivity|]. rewrite Ev.
    change (E.e_value (pd d0)) with (pv (x_value d0)). rewrite r_value_pv. reflexivity.
  - apply IH; assumption.
Qed.

Print Assumptions eval_sem_level.
Print Assumptions xlookup_pos.
