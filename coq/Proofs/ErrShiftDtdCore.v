(* Proofs/ErrShiftDtdCore.v -- C14 (whitespace inserted after the DOCTYPE), part 3: the two runs from
   the loop head of the second parse_misc, compared with the run on the rest of the text; as
   ErrShiftMidCore.v with [cont2] for [cont]. *)
From Coq Require Import Ascii String.
From Coq Require Import List Arith NArith Bool Lia ZifyBool ZifyN ZifyNat.
Import ListNotations.
From RX Require Import Generated.
From RX.Model Require Import Base CharClass Stream Tokenizer Doc Builder Parse.
From RX.Proofs Require Import Tactics NoPanicUtf8 NoPanicStream BorrowLocal BorrowParse OptionsParam
  PositionProofs
  RangeShiftBase RangeShiftStream RangeShiftTokenizer RangeShiftBuilder RangeShiftParse
  ErrShiftBase ErrShiftStream ErrShiftTokenizer ErrShiftBuilder ErrShiftParse ErrShiftFinal
  ErrShiftMidGen ErrShiftMidFrame ErrShiftMidCont ErrShiftMidPos ErrShiftMidCore ErrShiftDtdCont.
Open Scope N_scope.

Section Core2.
Variable A0 W ws U : bytes.
Hypothesis HW : forallb byte_is_space W = true.
Hypothesis Hws : forallb byte_is_space ws = true.
Hypothesis HvU : valid_utf8_b U = true.
Notation A := (A0 ++ W).
Notation A' := (A0 ++ (W ++ ws)).
Notation text := (A ++ U).
Notation text' := (A' ++ U).
Notation P := (blen A).
Notation P' := (blen A').
Variable olds : list (node_kind * range).
Hypothesis Holds : Forall (fun o => ntext (fst o)) olds.

Lemma HW2 : forallb byte_is_space (W ++ ws) = true.
Proof. rewrite forallb_app, HW, Hws. reflexivity. Qed.

Lemma cont2_rel fu fu' c0 : Inv olds c0 -> (fu <= fu')%nat ->
  match cont2 text context (Parse.token text) (S fu) (sQ A0 W U) (pc olds (sh_ctx P c0)) with
  | Ok cF => exists cU, Inv olds (sh_ctx P cU) /\ Inv olds (sh_ctx P' cU) /\
               cF = pc olds (sh_ctx P cU) /\
               cont2 text' context (Parse.token text') (S fu') (sQ A0 (W ++ ws) U) (pc olds (sh_ctx P' c0))
               = Ok (pc olds (sh_ctx P' cU))
  | Err e => exists e', MidErr A A' U e e' /\
               cont2 text' context (Parse.token text') (S fu') (sQ A0 (W ++ ws) U) (pc olds (sh_ctx P' c0))
               = Err e'
  | _ => True
  end.
Proof.
  intros HI Hle.
  pose proof (cont2_shE A0 W U HW HvU context (Parse.token U) (Parse.token text) (sh_ctx P)
                (fun tok c Hwf => token_g A U HvU tok c Hwf) fu c0) as S1.
  pose proof (cont2_shE A0 (W ++ ws) U HW2 HvU context (Parse.token U) (Parse.token text') (sh_ctx P')
                (fun tok c Hwf => token_g A' U HvU tok c Hwf) fu' c0) as S2.
  pose proof (cont2_fr text olds Holds (S fu) (sQ A0 W U) (sh_ctx P c0) (Inv_sh olds P c0 HI)) as F1.
  pose proof (cont2_fr text' olds Holds (S fu') (sQ A0 (W ++ ws) U) (sh_ctx P' c0) (Inv_sh olds P' c0 HI)) as F2.
  set (X := cont2 U context (Parse.token U) (S fu) (stream_new U) c0) in *.
  set (X' := cont2 U context (Parse.token U) (S fu') (stream_new U) c0) in *.
  assert (HX : X <> OutOfFuel -> X' = X).
  { intros Hne. apply cont2_mono; [lia|exact Hne]. }
  set (Y := cont2 text context (Parse.token text) (S fu) (sQ A0 W U) (sh_ctx P c0)) in *.
  set (Y' := cont2 text' context (Parse.token text') (S fu') (sQ A0 (W ++ ws) U) (sh_ctx P' c0)) in *.
  set (Z := cont2 text context (Parse.token text) (S fu) (sQ A0 W U) (pc olds (sh_ctx P c0))) in *.
  set (Z' := cont2 text' context (Parse.token text') (S fu') (sQ A0 (W ++ ws) U) (pc olds (sh_ctx P' c0))) in *.
  destruct X as [cU|eU|p|] eqn:EX.
  - rewrite HX in S2 by discriminate. cbn [ErrShiftBase.rsimE] in S1, S2.
    rewrite S1 in F1. rewrite S2 in F2. cbn [fsim] in F1, F2.
    destruct F1 as [I1 ->]. destruct F2 as [I2 ->]. exists cU. auto.
  - rewrite HX in S2 by discriminate. cbn [ErrShiftBase.rsimE] in S1, S2.
    destruct S1 as [e1 [E1 R1]]. destruct S2 as [e2 [E2 R2]].
    rewrite E1 in F1. rewrite E2 in F2. cbn [fsim] in F1, F2. rewrite F1. exists e2. split; [|exact F2].
    eapply MidErr_of; eassumption.
  - cbn [ErrShiftBase.rsimE] in S1. rewrite S1 in F1. cbn [fsim] in F1. rewrite F1. exact I.
  - cbn [ErrShiftBase.rsimE] in S1. rewrite S1 in F1. cbn [fsim] in F1. rewrite F1. exact I.
Qed.

Variable opt : options.
Variable fu fu' : nat.
Variable c0 : context.
Hypothesis HI : Inv olds c0.
Hypothesis Hfu : (fu <= fu')%nat.
Hypothesis E1 : parse text opt =
  (let! c := cont2 text context (Parse.token text) (S fu) (sQ A0 W U) (pc olds (sh_ctx P c0)) in post c).
Hypothesis E2 : parse text' opt =
  (let! c := cont2 text' context (Parse.token text') (S fu') (sQ A0 (W ++ ws) U) (pc olds (sh_ctx P' c0)) in post c).

Theorem core2_err e : parse text opt = Err e ->
  exists e', parse text' opt = Err e' /\ MidErr A A' U e e'.
Proof.
  intros H. pose proof (cont2_rel fu fu' c0 HI Hfu) as HR. rewrite E1 in H. rewrite E2.
  destruct (cont2 text context (Parse.token text) (S fu) (sQ A0 W U) (pc olds (sh_ctx P c0)))
    as [cF|e1|p|]; cbn [bind] in H; try discriminate.
  - destruct HR as (cU & I1 & I2 & -> & ->). cbn [bind].
    rewrite (post_pc_sh olds A cU Holds I1) in H. rewrite (post_pc_sh olds A' cU Holds I2).
    pose proof (np_post cU) as Hn.
    destruct (post cU) as [d|e0|p|]; cbn [rmapd nopos_res] in *; try discriminate.
    injection H as <-. exists e0. split; [reflexivity|apply MidErr_same; exact Hn].
  - injection H as <-. destruct HR as (e' & HM & ->). exists e'. split; [reflexivity|exact HM].
Qed.

Theorem core2_ok d : parse text opt = Ok d ->
  exists dU, d = pd olds (sh_doc P dU) /\ parse text' opt = Ok (pd olds (sh_doc P' dU)).
Proof.
  intros H. pose proof (cont2_rel fu fu' c0 HI Hfu) as HR. rewrite E1 in H. rewrite E2.
  destruct (cont2 text context (Parse.token text) (S fu) (sQ A0 W U) (pc olds (sh_ctx P c0)))
    as [cF|e1|p|]; cbn [bind] in H; try discriminate.
  destruct HR as (cU & I1 & I2 & -> & ->). cbn [bind].
  rewrite (post_pc_sh olds A cU Holds I1) in H. rewrite (post_pc_sh olds A' cU Holds I2).
  destruct (post cU) as [dU|e0|p|]; cbn [rmapd] in *; try discriminate.
  injection H as <-. exists dU. split; reflexivity.
Qed.

End Core2.
