(* Proofs/CstNsBuild.v -- C06, builder completeness with namespaces: the effect of the real
   callback [Parse.token] on the tokens of the productions of Spec/CstNs.v. *)
From Coq Require Import Ascii String.
From Coq Require Import List NArith PeanoNat Bool Lia ZifyBool ZifyN ZifyNat.
Import ListNotations.
From RX Require Import Generated.
From RX.Model Require Import Base CharClass Stream Tokenizer Doc Builder Parse.
From RX.Spec Require Cst Scope CstNs.
From RX.Proofs Require Import Tactics CstLex CstBuild CstNsLex CstNsView.
From RX.Proofs Require ScopeProofs.
Module SP := ScopeProofs.
Open Scope N_scope.

Import CstNs.

(* lia without the boolean hypotheses (they only slow zify down) *)
Ltac clia := repeat match goal with H : @eq bool _ true |- _ => clear H end; lia.

(* ------------------------------------------------------------------------------------------ *)
(* the namespace table only grows                                                             *)
(* ------------------------------------------------------------------------------------------ *)

Definition NsExt (d d' : document) : Prop :=
  (exists t, d_ns_tree d' = d_ns_tree d ++ t) /\ (exists v, d_ns_values d' = d_ns_values d ++ v).

Lemma NsExt_refl d : NsExt d d.
Proof. split; exists []; rewrite app_nil_r; reflexivity. Qed.

Lemma NsExt_same d d' : d_ns_tree d' = d_ns_tree d -> d_ns_values d' = d_ns_values d -> NsExt d d'.
Proof. intros H1 H2. split; exists []; rewrite app_nil_r; assumption. Qed.

Lemma NsExt_trans d1 d2 d3 : NsExt d1 d2 -> NsExt d2 d3 -> NsExt d1 d3.
Proof.
  intros [[t1 T1] [v1 V1]] [[t2 T2] [v2 V2]]. split.
  - exists (t1 ++ t2). rewrite T2, T1, app_assoc. reflexivity.
  - exists (v1 ++ v2). rewrite V2, V1, app_assoc. reflexivity.
Qed.

Lemma NsExt_tree_len d d' : NsExt d d' -> len_N (d_ns_tree d) <= len_N (d_ns_tree d').
Proof. intros [[t T] _]. rewrite T, len_N_app. lia. Qed.

Lemma nth_N_app_old {A} (l r : list A) i x : nth_N l i = Some x -> nth_N (l ++ r) i = Some x.
Proof.
  unfold nth_N. rewrite len_N_app. destruct (len_N l <=? i) eqn:E; [discriminate|]. intros H.
  replace (len_N l + len_N r <=? i) with false by lia. rewrite nth_error_app1; [exact H|].
  unfold len_N in E. lia.
Qed.

Lemma NoDup_snoc {A} (l : list A) x : NoDup l -> ~ In x l -> NoDup (l ++ [x]).
Proof.
  induction l as [|y l IH]; intros N H; cbn [app]; [constructor; [intros []|constructor]|].
  inversion N as [|? ? Hy N2]; subst. constructor.
  - intros K. apply in_app_or in K. destruct K as [K|[K|[]]]; [exact (Hy K)|]. subst y. apply H. left. reflexivity.
  - apply IH; [exact N2|]. intros K. apply H. right. exact K.
Qed.

Section Ns.
Variable text : bytes.

Lemma ns_uri_opt_ext d d' i u : NsExt d d' -> ns_uri_opt text d i = Some u -> ns_uri_opt text d' i = Some u.
Proof.
  intros [_ [v V]] H. unfold ns_uri_opt in *. destruct i as [i|]; [|exact H].
  destruct (nth_N (d_ns_values d) i) as [x|] eqn:E; [|discriminate].
  rewrite V, (nth_N_app_old _ v _ _ E). exact H.
Qed.

Lemma binding_at_ext d d' p x : NsExt d d' -> SP.binding_at text d p = Some x -> SP.binding_at text d' p = Some x.
Proof.
  intros [[t T] [v V]] H. unfold SP.binding_at in *.
  destruct (nth_N (d_ns_tree d) p) as [vi|] eqn:E; [|discriminate].
  rewrite T, (nth_N_app_old _ t _ _ E).
  destruct (nth_N (d_ns_values d) vi) as [w|] eqn:E2; [|discriminate].
  rewrite V, (nth_N_app_old _ v _ _ E2). exact H.
Qed.

Lemma bindings_of_list_ext' d d' : NsExt d d' -> forall ps l,
  SP.bindings_of_list text d ps = Some l -> SP.bindings_of_list text d' ps = Some l.
Proof.
  intros HE. induction ps as [|p r IH]; intros l H; cbn [SP.bindings_of_list] in *; [exact H|].
  destruct (SP.binding_at text d p) as [x|] eqn:E; [|discriminate].
  destruct (SP.bindings_of_list text d r) as [l'|] eqn:E2; [|discriminate].
  rewrite (binding_at_ext _ _ _ _ HE E), (IH _ eq_refl). exact H.
Qed.

Lemma bindings_of_ext d d' r l : NsExt d d' -> SP.bindings_of text d r = Some l -> SP.bindings_of text d' r = Some l.
Proof. intros HE. apply bindings_of_list_ext'. exact HE. Qed.

Lemma bindings_of_list_length d : forall ps l, SP.bindings_of_list text d ps = Some l -> length l = length ps.
Proof.
  induction ps as [|p r IH]; intros l H; cbn [SP.bindings_of_list] in H; [injection H as <-; reflexivity|].
  destruct (SP.binding_at text d p); [|discriminate].
  destruct (SP.bindings_of_list text d r) as [l'|]; [|discriminate]. injection H as <-.
  cbn [length]. rewrite (IH _ eq_refl). reflexivity.
Qed.

Lemma N_range_length a n : length (N_range a n) = n.
Proof. revert a. induction n as [|n IH]; intros a; [reflexivity|]. cbn [N_range length]. rewrite IH. reflexivity. Qed.

Lemma bindings_of_length d a e l : SP.bindings_of text d (a, e) = Some l -> length l = N.to_nat (e - a).
Proof. unfold SP.bindings_of. cbn [fst snd]. intros H. rewrite (bindings_of_list_length _ _ _ H), N_range_length. reflexivity. Qed.

(* ------------------------------------------------------------------------------------------ *)
(* the namespace table and the declarations of the document                                    *)
(* ------------------------------------------------------------------------------------------ *)

(* D: every declaration of the document; at most 65535 distinct ones *)
Variable D : list Scope.binding.
Hypothesis HD : forall l, NoDup l -> incl l D -> N.of_nat (length l) <= 65535.

Definition pair_of (v : namespace) : Scope.binding := (ns_name_bytes text v, storage_bytes text (ns_uri v)).

Record NsInv (d : document) : Prop := {
  nsi_ok : SP.ns_ok d;
  nsi_xml : nth_error (d_ns_values d) 0 = Some xml_ns;
  nsi_nodup : NoDup (map pair_of (d_ns_values d));
  nsi_incl : incl (map pair_of (tl (d_ns_values d))) D
}.

Lemma find_ns_none name uri : forall vals i, find_ns text vals name uri i = None ->
  ~ In (name, uri) (map pair_of vals).
Proof.
  induction vals as [|v r IH]; intros i H; cbn [find_ns] in H; [intros []|].
  destruct (opt_str_eqb (ns_name_bytes text v) name && bytes_eqb (storage_bytes text (ns_uri v)) uri) eqn:E;
    [discriminate|].
  cbn [map In]. intros [K|K].
  - unfold pair_of in K. injection K as K1 K2. rewrite K1, K2 in E.
    rewrite (proj2 (SP.opt_str_eqb_eq name name) eq_refl), (proj2 (SP.bytes_eqb_eq uri uri) eq_refl) in E. discriminate.
  - exact (IH _ H K).
Qed.

Lemma push_ns_ok name uri d :
  NsInv d -> In (match name with Some s => Some (str_bytes text s) | None => None end, storage_bytes text uri) D ->
  exists d', push_ns text name uri d = Ok d' /\ d_nodes d' = d_nodes d /\ d_attrs d' = d_attrs d /\
    NsExt d d' /\ NsInv d' /\ len_N (d_ns_tree d') = len_N (d_ns_tree d) + 1 /\
    SP.binding_at text d' (len_N (d_ns_tree d)) =
      Some (match name with Some s => Some (str_bytes text s) | None => None end, storage_bytes text uri).
Proof.
  intros I HinD. set (pr := (match name with Some s => Some (str_bytes text s) | None => None end, storage_bytes text uri)) in *.
  assert (Hok : exists d', push_ns text name uri d = Ok d' /\ d_nodes d' = d_nodes d /\ d_attrs d' = d_attrs d /\
            NsExt d d' /\ nth_error (d_ns_values d') 0 = Some xml_ns /\
            NoDup (map pair_of (d_ns_values d')) /\ incl (map pair_of (tl (d_ns_values d'))) D).
  { unfold push_ns.
    match goal with |- context [find_ns text (d_ns_values d) ?a ?b0 0] =>
      change (find_ns text (d_ns_values d) a b0 0) with (find_ns text (d_ns_values d) (fst pr) (snd pr) 0) end.
    destruct (find_ns text (d_ns_values d) (fst pr) (snd pr) 0) as [idx|] eqn:F.
    - eexists. split; [reflexivity|]. cbn. split; [reflexivity|]. split; [reflexivity|].
      split; [split; [eexists; reflexivity|exists []; rewrite app_nil_r; reflexivity]|].
      split; [apply (nsi_xml _ I)|]. split; [apply (nsi_nodup _ I)|apply (nsi_incl _ I)].
    - apply find_ns_none in F. change (fst pr, snd pr) with pr in F.
      destruct (d_ns_values d) as [|v0 vr] eqn:EV; [pose proof (nsi_xml _ I) as X; rewrite EV in X; discriminate|].
      assert (ND : NoDup (map pair_of vr ++ [pr])).
      { pose proof (nsi_nodup _ I) as N0. rewrite EV in N0. cbn [map] in N0. inversion N0 as [|? ? _ N1]; subst.
        apply NoDup_snoc; [exact N1|]. intros K. apply F. right. exact K. }
      assert (HI : incl (map pair_of vr ++ [pr]) D).
      { pose proof (nsi_incl _ I) as I0. rewrite EV in I0. cbn [tl] in I0.
        intros x Hx. apply in_app_or in Hx. destruct Hx as [Hx|[<-|[]]]; [apply I0; exact Hx|exact HinD]. }
      pose proof (HD _ ND HI) as Hlen. rewrite app_length, map_length in Hlen. cbn [length] in Hlen.
      replace (ns_values_limit <? len_N (v0 :: vr)) with false
        by (unfold ns_values_limit, len_N; cbn [length]; clear - Hlen; lia).
      eexists. split; [reflexivity|]. cbn. split; [reflexivity|]. split; [reflexivity|].
      split; [split; [eexists; reflexivity|exists [{| ns_name := name; ns_uri := uri |}]; cbn; rewrite EV; reflexivity]|].
      split; [pose proof (nsi_xml _ I) as X; rewrite EV in X; exact X|]. split.
      + rewrite map_app. cbn [map]. pose proof (nsi_nodup _ I) as N0. rewrite EV in N0. cbn [map] in N0.
        change (pair_of v0 :: map pair_of vr ++ [pair_of {| ns_name := name; ns_uri := uri |}])
          with ((pair_of v0 :: map pair_of vr) ++ [pr]).
        apply NoDup_snoc; [exact N0|exact F].
      + rewrite map_app. exact HI. }
  destruct Hok as (d' & E & E1 & E2 & E3 & E4 & E5 & E6).
  destruct (SP.push_ns_appends text name uri d d' (nsi_ok _ I) E) as (O1 & O2 & O3 & _).
  exists d'. split; [exact E|]. split; [exact E1|]. split; [exact E2|]. split; [exact E3|].
  split; [constructor; assumption|]. split; assumption.
Qed.


(* ------------------------------------------------------------------------------------------ *)
(* the invariant of the context between two tokens, outside a tag                              *)
(* ------------------------------------------------------------------------------------------ *)

Hypothesis Hascii : Forall (fun x => x < 128) text.
Notation W := (CstLex.W text).
Notation ev := (tok_ev text).

(* the node with the kind k is a possible parent whose scope is inh *)
Definition par_ok (d : document) (inh : list Scope.binding) (k : node_kind) : Prop :=
  match k with
  | KRoot => inh = []
  | KElement _ _ _ nss =>
    SP.bindings_of text d nss = Some inh /\ fst nss <= snd nss /\ snd nss <= len_N (d_ns_tree d)
  | _ => False
  end.

Lemma par_ok_ext d d' inh k : NsExt d d' -> par_ok d inh k -> par_ok d' inh k.
Proof.
  intros HE. destruct k; cbn [par_ok]; auto. intros (H1 & H2 & H3).
  split; [apply (bindings_of_ext _ _ _ _ HE H1)|]. split; [exact H2|].
  pose proof (NsExt_tree_len _ _ HE). lia.
Qed.

Record CIn (inh : list Scope.binding) (c : context) : Prop := {
  cn_ns : c_ns_start_idx c = len_N (d_ns_tree (c_doc c));
  cn_inv : NsInv (c_doc c);
  cn_floor : c_entity_floor c = 0;
  cn_cur : c_cur_attrs c = [];
  cn_pp : c_parent_prefixes c <> [];
  cn_pid : c_parent_id c < len_N (d_nodes (c_doc c));
  cn_aw : Forall (fun i => i < len_N (d_nodes (c_doc c))) (c_awaiting c);
  cn_par : exists par k, nth_error (absn (c_doc c)) (N.to_nat (c_parent_id c)) = Some (par, k) /\
                         par_ok (c_doc c) inh k;
  cn_uniq : Scope.prefixes_unique inh = true;
  cn_at : (length (c_after_text c) <= 1)%nat
}.

Definition Keepn (c c' : context) : Prop :=
  c_opt c' = c_opt c /\ c_entities c' = c_entities c /\ c_entity_floor c' = c_entity_floor c /\ c_ld c' = c_ld c.

Record Step0n (c c' : context) (K : list row) (ext : list attr_data) : Prop := {
  sn_keep : Keepn c c';
  sn_cur : c_cur_attrs c' = c_cur_attrs c;
  sn_nodes : absn (c_doc c') = absn (c_doc c) ++ K;
  sn_attrs : d_attrs (c_doc c') = d_attrs (c_doc c) ++ ext;
  sn_ns : NsExt (c_doc c) (c_doc c')
}.
Definition Stepn (c c' : context) (K : list row) (ext : list attr_data) : Prop :=
  Step0n c c' K ext /\ c_parent_id c' = c_parent_id c /\ c_parent_prefixes c' = c_parent_prefixes c.

Lemma Step0n_refl c : Step0n c c [] [].
Proof. constructor; try reflexivity; try (rewrite app_nil_r; reflexivity); [repeat split|apply NsExt_refl]. Qed.

Lemma Step0n_trans c1 c2 c3 K1 K2 e1 e2 :
  Step0n c1 c2 K1 e1 -> Step0n c2 c3 K2 e2 -> Step0n c1 c3 (K1 ++ K2) (e1 ++ e2).
Proof.
  intros [A1 A2 A3 A4 A5] [B1 B2 B3 B4 B5]. constructor.
  - unfold Keepn in *. intuition congruence.
  - congruence.
  - rewrite B3, A3, app_assoc. reflexivity.
  - rewrite B4, A4, app_assoc. reflexivity.
  - eapply NsExt_trans; eassumption.
Qed.

Lemma Stepn_refl c : Stepn c c [] [].
Proof. split; [apply Step0n_refl|auto]. Qed.

Lemma Stepn_trans c1 c2 c3 K1 K2 e1 e2 : Stepn c1 c2 K1 e1 -> Stepn c2 c3 K2 e2 -> Stepn c1 c3 (K1 ++ K2) (e1 ++ e2).
Proof. intros [A [A1 A2]] [B0 [B1 B2]]. split; [eapply Step0n_trans; eassumption|]. split; congruence. Qed.

Lemma Step0n_len c c' K ext : Step0n c c' K ext ->
  len_N (d_nodes (c_doc c')) = len_N (d_nodes (c_doc c)) + len_N K.
Proof. intros H. rewrite <- !absn_len, (sn_nodes _ _ _ _ H), len_N_app. reflexivity. Qed.

Lemma CIn_intro inh inh' c c' K ext : CIn inh c -> Step0n c c' K ext ->
  c_ns_start_idx c' = len_N (d_ns_tree (c_doc c')) -> NsInv (c_doc c') ->
  c_parent_prefixes c' <> [] ->
  c_parent_id c' < len_N (d_nodes (c_doc c')) ->
  (exists par k, nth_error (absn (c_doc c')) (N.to_nat (c_parent_id c')) = Some (par, k) /\ par_ok (c_doc c') inh' k) ->
  Scope.prefixes_unique inh' = true ->
  Forall (fun i => i < len_N (d_nodes (c_doc c'))) (c_awaiting c') ->
  (length (c_after_text c') <= 1)%nat -> CIn inh' c'.
Proof.
  intros I S Hns Hinv Hpp Hpid Hpar Hu Haw Hat. destruct (sn_keep _ _ _ _ S) as (K1 & K2 & K3 & K4).
  constructor; try assumption.
  - rewrite K3. apply (cn_floor _ _ I).
  - rewrite (sn_cur _ _ _ _ S). apply (cn_cur _ _ I).
Qed.

(* a step that keeps the parent and the namespace table *)
Lemma CIn_step inh c c' K ext : CIn inh c -> Stepn c c' K ext ->
  d_ns_tree (c_doc c') = d_ns_tree (c_doc c) -> d_ns_values (c_doc c') = d_ns_values (c_doc c) ->
  c_ns_start_idx c' = c_ns_start_idx c ->
  Forall (fun i => i < len_N (d_nodes (c_doc c'))) (c_awaiting c') ->
  (length (c_after_text c') <= 1)%nat -> CIn inh c'.
Proof.
  intros I [S [P1 P2]] Ht Hv Hs Haw Hat. pose proof (Step0n_len _ _ _ _ S) as L.
  eapply CIn_intro; [exact I|exact S| | | | | | | |]; try assumption.
  - rewrite Hs, Ht. apply (cn_ns _ _ I).
  - destruct (cn_inv _ _ I) as [N1 N2 N3 N4]. constructor.
    + unfold SP.ns_ok. rewrite Ht, Hv. exact N1.
    + rewrite Hv. exact N2.
    + rewrite Hv. exact N3.
    + rewrite Hv. exact N4.
  - rewrite P2. apply (cn_pp _ _ I).
  - rewrite P1, L. pose proof (cn_pid _ _ I). lia.
  - destruct (cn_par _ _ I) as (par & k & E & Hk). exists par, k. split.
    + rewrite P1, (sn_nodes _ _ _ _ S). rewrite nth_error_app1; [exact E|].
      pose proof (cn_pid _ _ I) as Hp. rewrite <- absn_len in Hp. unfold len_N in Hp. lia.
    + apply (par_ok_ext _ _ _ _ (sn_ns _ _ _ _ S) Hk).
  - apply (cn_uniq _ _ I).
Qed.

(* ---- leaves ---- *)
Lemma leaf_ok_n inh kind r c : CIn inh c -> room c -> is_element_kind kind = false ->
  exists c',
    (let! c1 := reset_after_text text c in let! (_, c2) := append_node kind r c1 in Ok c2) = Ok c' /\
    Stepn c c' [(Some (c_parent_id c), kind)] [] /\ CIn inh c' /\
    c_after_text c' = [] /\ c_tag_name c' = c_tag_name c /\ d_ns_tree (c_doc c') = d_ns_tree (c_doc c).
Proof.
  intros I R Hk. rewrite reset_after_text_ok by apply (cn_at _ _ I). cbn [bind].
  destruct (append_node_ok kind r (set_after_text c [])) as (nodes' & E & M & Ln);
    [apply (cn_pid _ _ I)|apply (cn_aw _ _ I)|exact R|].
  rewrite E. cbn [bind]. eexists. split; [reflexivity|].
  match goal with |- Stepn c ?c' _ _ /\ _ => assert (S : Stepn c c' [(Some (c_parent_id c), kind)] []) end.
  { split; [|split; reflexivity]. constructor.
    - repeat split.
    - reflexivity.
    - exact M.
    - cbn. rewrite app_nil_r. reflexivity.
    - apply NsExt_same; reflexivity. }
  split; [exact S|]. split; [|repeat split].
  eapply CIn_step; [exact I|exact S|reflexivity|reflexivity|reflexivity| |cbn; lia].
  rewrite Hk. cbn [c_awaiting set_awaiting c_doc set_doc d_nodes set_nodes].
  constructor; [|constructor]. rewrite Ln. cbn. lia.
Qed.

Lemma tokn_comment inh s r c : CIn inh c -> room c ->
  exists c', ev (TComment s r) c = Ok c' /\ Stepn c c' [(Some (c_parent_id c), KComment s)] [] /\ CIn inh c' /\
             c_after_text c' = [] /\ c_tag_name c' = c_tag_name c /\ d_ns_tree (c_doc c') = d_ns_tree (c_doc c).
Proof. intros I R. apply (leaf_ok_n inh (KComment s) r c I R). reflexivity. Qed.

Lemma tokn_pi inh t v r c : CIn inh c -> room c ->
  exists c', ev (TPI t v r) c = Ok c' /\ Stepn c c' [(Some (c_parent_id c), KPI t v)] [] /\ CIn inh c' /\
             c_after_text c' = [] /\ c_tag_name c' = c_tag_name c /\ d_ns_tree (c_doc c') = d_ns_tree (c_doc c).
Proof. intros I R. apply (leaf_ok_n inh (KPI t v) r c I R). reflexivity. Qed.

Lemma tokn_text inh t r c : CIn inh c -> room c -> c_after_text c = [] ->
  existsb (fun x => (x =? 38) || (x =? 13)) (slice_bytes text t) = false ->
  exists c', ev (TText t r) c = Ok c' /\
             Stepn c c' [(Some (c_parent_id c), KText (Borrowed (SIn t)))] [] /\ CIn inh c' /\
             c_tag_name c' = c_tag_name c /\ d_ns_tree (c_doc c') = d_ns_tree (c_doc c).
Proof.
  intros I R Hat Hb. unfold tok_ev, Parse.token. cbn [token_with]. unfold process_text, process_text_with.
  cbv zeta. rewrite Hb. cbn [negb]. unfold append_text. rewrite Hat.
  destruct (append_node_ok (KText (Borrowed (SIn t))) r c) as (nodes' & E & M & Ln);
    [apply (cn_pid _ _ I)|apply (cn_aw _ _ I)|exact R|].
  rewrite E. cbn [bind]. eexists. split; [reflexivity|].
  match goal with |- Stepn c ?c' _ _ /\ _ => assert (S : Stepn c c' [(Some (c_parent_id c), KText (Borrowed (SIn t)))] []) end.
  { split; [|split; reflexivity]. constructor.
    - repeat split.
    - reflexivity.
    - exact M.
    - cbn. rewrite app_nil_r. reflexivity.
    - apply NsExt_same; reflexivity. }
  split; [exact S|]. split; [|split; reflexivity].
  eapply CIn_step; [exact I|exact S|reflexivity|reflexivity|reflexivity| |cbn; rewrite Hat; cbn; lia].
  cbn [c_awaiting set_awaiting set_after_text c_doc set_doc d_nodes set_nodes is_element_kind].
  constructor; [|constructor]. rewrite Ln. cbn. lia.
Qed.


(* ------------------------------------------------------------------------------------------ *)
(* start-tag entries: attributes are collected, declarations go to the namespace table         *)
(* ------------------------------------------------------------------------------------------ *)

Definition ta_e (q : N) (e : entry) : temp_attr :=
  let l := e_layout e in
  let start := q + blen (l_ws l) in
  let ne := start + blen (r_qname (e_qname e)) in
  let eqe := ne + blen (l_ws1 l) + 1 + blen (l_ws2 l) in
  let vs := eqe + 1 in
  let ve := vs + blen (e_value e) in
  {| ta_prefix := sl start (start + blen (q_prefix (e_qname e))); ta_local := sl (start + q_off (e_qname e)) ne;
     ta_value := Borrowed (SIn (sl vs ve)); ta_range := (start, ve + 1);
     ta_qname_len := N.min (ne - start) qname_len_sat; ta_eq_len := N.min (eqe - ne) eq_len_sat |}.

Fixpoint tas_n (q : N) (es : list entry) : list temp_attr :=
  match es with
  | [] => []
  | e :: r => match e with EAttr _ _ _ => [ta_e q e] | EDecl _ _ _ => [] end ++ tas_n (q + blen (r_entry e)) r
  end.

Lemma qname_slices p q l : W p (r_qname q ++ l) ->
  slice_bytes text (sl p (p + blen (q_prefix q))) = q_prefix q /\
  slice_bytes text (sl (p + q_off q) (p + blen (r_qname q))) = q_local q.
Proof.
  intros HW. pose proof (r_qname_len q) as Hlen. unfold r_qname, q_off in *.
  destruct (q_prefix q) as [|c x].
  - change (blen []) with 0. rewrite !N.add_0_r. split; [apply slice_empty|apply (W_slice _ _ _ _ HW)].
  - rewrite <- !app_assoc in HW. split; [apply (W_slice _ _ _ _ HW)|].
    pose proof (W_app _ _ _ _ HW) as H1. pose proof (W_app _ _ _ _ H1) as H2. change (blen [58]) with 1 in H2.
    rewrite Hlen. replace (p + (blen (c :: x) + 1 + blen (q_local q))) with (p + blen (c :: x) + 1 + blen (q_local q)) by lia.
    replace (p + (blen (c :: x) + 1)) with (p + blen (c :: x) + 1) by lia. apply (W_slice _ _ _ _ H2).
Qed.

Lemma entry_slices q e more : W q (r_entry e ++ more) ->
  slice_bytes text (ta_prefix (ta_e q e)) = q_prefix (e_qname e) /\
  slice_bytes text (ta_local (ta_e q e)) = q_local (e_qname e) /\
  storage_bytes text (ta_value (ta_e q e)) = e_value e.
Proof.
  intros HW. unfold ta_e. cbv zeta. cbn [ta_prefix ta_local ta_value storage_bytes str_bytes].
  unfold r_entry in HW. cbv zeta in HW. rewrite e_name_qname in HW. rewrite <- !app_assoc in HW.
  pose proof (W_app _ _ _ _ HW) as H1. destruct (qname_slices _ _ _ H1) as [S1 S2].
  pose proof (W_app _ _ _ _ H1) as H2. pose proof (W_app _ _ _ _ H2) as H3.
  pose proof (W_app _ _ _ _ H3) as H4. pose proof (W_app _ _ _ _ H4) as H5. pose proof (W_app _ _ _ _ H5) as H6.
  change (blen [61]) with 1 in *. change (blen [l_quote (e_layout e)]) with 1 in *.
  split; [exact S1|]. split; [exact S2|]. apply (W_slice _ _ _ _ H6).
Qed.

Lemma sb_eqb x y : Scope.bytes_eqb x y = bytes_eqb x y.
Proof. apply SP.scope_bytes_eqb. Qed.

Lemma value_no_refs q v : wf_value q v = true ->
  existsb (fun x => (x =? 38) || (x =? 9) || (x =? 10) || (x =? 13)) v = false.
Proof.
  unfold wf_value. induction v as [|x v IH]; [reflexivity|]. cbn [forallb existsb]. intros H.
  apply andb_true_iff in H. destruct H as [H1 H2]. rewrite IH by exact H2.
  assert (Hp : Cst.is_plain x = true) by lia. destruct (plain_char _ Hp) as (_ & _ & H13). lia.
Qed.

Lemma N_range_snoc a n : N_range a (S n) = N_range a n ++ [a + N.of_nat n].
Proof.
  revert a. induction n as [|n IH]; intros a; [cbn; rewrite N.add_0_r; reflexivity|].
  change (N_range a (S (S n))) with (a :: N_range (a + 1) (S n)). rewrite IH. cbn [N_range app].
  f_equal. f_equal. f_equal. lia.
Qed.

Lemma bindings_of_list_app d ps qs l m :
  SP.bindings_of_list text d ps = Some l -> SP.bindings_of_list text d qs = Some m ->
  SP.bindings_of_list text d (ps ++ qs) = Some (l ++ m).
Proof.
  revert l. induction ps as [|p r IH]; intros l H1 H2; cbn [SP.bindings_of_list app] in *.
  - injection H1 as <-. exact H2.
  - destruct (SP.binding_at text d p); [|discriminate].
    destruct (SP.bindings_of_list text d r) as [l'|]; [|discriminate]. injection H1 as <-.
    rewrite (IH _ eq_refl H2). reflexivity.
Qed.

Lemma bindings_of_push d d' start own1 x :
  NsExt d d' -> len_N (d_ns_tree d') = len_N (d_ns_tree d) + 1 ->
  SP.binding_at text d' (len_N (d_ns_tree d)) = Some x -> start <= len_N (d_ns_tree d) ->
  SP.bindings_of text d (start, len_N (d_ns_tree d)) = Some own1 ->
  SP.bindings_of text d' (start, len_N (d_ns_tree d')) = Some (own1 ++ [x]).
Proof.
  intros HE Hl Hb Hs Ho. apply (bindings_of_ext _ _ _ _ HE) in Ho. unfold SP.bindings_of in *. cbn [fst snd] in *.
  rewrite Hl. replace (N.to_nat (len_N (d_ns_tree d) + 1 - start)) with (S (N.to_nat (len_N (d_ns_tree d) - start))) by lia.
  rewrite N_range_snoc. apply bindings_of_list_app; [exact Ho|].
  cbn [SP.bindings_of_list]. replace (start + N.of_nat (N.to_nat (len_N (d_ns_tree d) - start))) with (len_N (d_ns_tree d)) by lia.
  rewrite Hb. reflexivity.
Qed.

(* the state inside a start tag: own1 are the bindings declared so far *)
Record TI (start : N) (own1 : list Scope.binding) (c : context) : Prop := {
  ti_start : c_ns_start_idx c = start;
  ti_le : start <= len_N (d_ns_tree (c_doc c));
  ti_inv : NsInv (c_doc c);
  ti_own : SP.bindings_of text (c_doc c) (start, len_N (d_ns_tree (c_doc c))) = Some own1;
  ti_noxml : Forall (fun b => fst b <> Some Scope.xml_prefix) own1
}.

Lemma ctx_eta c : set_doc (set_cur_attrs c (c_cur_attrs c ++ [])) (c_doc c) = c.
Proof. destruct c. cbn. rewrite app_nil_r. reflexivity. Qed.

Lemma ctx_eta2 c d : set_doc (set_cur_attrs c (c_cur_attrs c ++ [])) d = set_doc c d.
Proof. destruct c. cbn. rewrite app_nil_r. reflexivity. Qed.

Lemma wf_decl_parts l p u : wf_entry (EDecl l p u) = true ->
  (p = [] \/ Cst.wf_name p = true) /\ bytes_eqb p xmlns_str = false /\ bytes_eqb u ns_xmlns_uri = false /\
  (if bytes_eqb p ns_xml_prefix then bytes_eqb u ns_xml_uri = true else bytes_eqb u ns_xml_uri = false).
Proof.
  unfold wf_entry. rewrite !andb_true_iff. intros [_ [[[H1 H2] H3] H4]]. change Scope.bytes_eqb with bytes_eqb in H2, H3, H4.
  split; [destruct p; [left; reflexivity|right; exact H1]|].
  change xmlns_b with xmlns_str in H2. change xmlns_uri with ns_xmlns_uri in H3.
  change Scope.xml_prefix with ns_xml_prefix in H4. change Scope.xml_uri with ns_xml_uri in H4.
  split; [apply negb_true_iff; exact H2|]. split; [apply negb_true_iff; exact H3|].
  destruct (bytes_eqb p ns_xml_prefix); [exact H4|apply negb_true_iff; exact H4].
Qed.

Lemma tok_entry q e more c start own1 :
  W q (r_entry e ++ more) -> wf_entry e = true ->
  (forall b0, In b0 (own_bindings [e]) -> existsb (fun o => Scope.prefix_eqb (fst o) (fst b0)) own1 = false) ->
  incl (own_bindings [e]) D -> TI start own1 c ->
  exists d',
    ev (entry_tok q e) c = Ok (set_doc (set_cur_attrs c (c_cur_attrs c ++ tas_n q [e])) d') /\
    d_nodes d' = d_nodes (c_doc c) /\ d_attrs d' = d_attrs (c_doc c) /\ NsExt (c_doc c) d' /\
    TI start (own1 ++ own_bindings [e]) (set_doc (set_cur_attrs c (c_cur_attrs c ++ tas_n q [e])) d') /\
    len_N (d_ns_tree d') = len_N (d_ns_tree (c_doc c)) + len_N (own_bindings [e]).
Proof.
  intros HW Hwf Hfresh HinD T. destruct (entry_slices _ _ _ HW) as (S1 & S2 & S3).
  destruct (wf_entry_lex _ Hwf) as (_ & _ & _ & _ & _ & Hv & Hq).
  unfold tok_ev, Parse.token, entry_tok. cbv zeta. cbn [token_with].
  unfold ta_e in S1, S2, S3. cbv zeta in S1, S2, S3. cbn [ta_prefix ta_local ta_value storage_bytes str_bytes] in S1, S2, S3.
  unfold process_attribute, normalize_attribute. cbv zeta. rewrite S3.
  rewrite (value_no_refs _ _ Hv). cbn [bind storage_bytes str_bytes]. rewrite S1, S2, S3.
  cbn [tas_n]. rewrite app_nil_r.
  destruct e as [l n v|l p u]; cbn [e_qname e_value e_layout own_bindings flat_map app] in *.
  - (* an ordinary attribute *)
    unfold wf_entry in Hwf. rewrite !andb_true_iff in Hwf. destruct Hwf as [_ [[_ Hx1] Hx2]].
    change xmlns_b with xmlns_str in Hx1, Hx2. apply negb_true_iff in Hx1.
    change Scope.bytes_eqb with bytes_eqb in Hx1, Hx2. rewrite Hx1.
    replace ((slice_len (sl (q + blen (l_ws l)) (q + blen (l_ws l) + blen (q_prefix n))) =? 0)
             && bytes_eqb (q_local n) xmlns_str) with false.
    2:{ unfold slice_len. cbn [sl sl_start sl_end]. apply negb_true_iff in Hx2.
        destruct (q_prefix n) as [|x0 pr]; [rewrite Hx2; symmetry; apply andb_false_r|].
        rewrite blen_cons. replace (q + blen (l_ws l) + (1 + blen pr) - (q + blen (l_ws l)) =? 0) with false by lia. reflexivity. }
    exists (c_doc c). split.
    { reflexivity. }
    split; [reflexivity|]. split; [reflexivity|]. split; [apply NsExt_refl|]. rewrite app_nil_r. split.
    + destruct T as [T1 T2 T3 T4 T5]. constructor; assumption.
    + change (len_N []) with 0. lia.
  - (* a declaration *)
    destruct (wf_decl_parts _ _ _ Hwf) as (Hp & N3 & N4 & N5). destruct T as [T1 T2 T3 T4 T5].
    destruct p as [|x0 pr]; cbn [e_qname q_prefix q_local] in *.
    + (* xmlns="u" *)
      change (bytes_eqb [] xmlns_str) with false. cbv iota.
      unfold slice_len. cbn [sl sl_start sl_end]. change (blen []) with 0.
      replace (q + blen (l_ws l) + 0 - (q + blen (l_ws l)) =? 0) with true by lia.
      change (bytes_eqb xmlns_b xmlns_str) with true. cbn [andb].
      change (bytes_eqb [] ns_xml_prefix) with false in N5. cbv iota in N5. rewrite N5, N4.
      change (Scope.bytes_eqb [] Scope.xml_prefix) with false in *. cbv iota in *.
      rewrite T1. rewrite (SP.ns_exists_spec text (c_doc c) start None own1 T2 T4). cbn [bind].
      pose proof (Hfresh (None, u) (or_introl eq_refl)) as Hf.
      match goal with |- context [if existsb ?f own1 then _ else _] => replace (existsb f own1) with false by (symmetry; exact Hf) end. clear Hf.
      destruct (push_ns_ok None (Borrowed (SIn (sl (q + blen (l_ws l) + blen (r_qname {| q_prefix := []; q_local := xmlns_b |}) + blen (l_ws1 l) + 1 + blen (l_ws2 l) + 1)
                   (q + blen (l_ws l) + blen (r_qname {| q_prefix := []; q_local := xmlns_b |}) + blen (l_ws1 l) + 1 + blen (l_ws2 l) + 1 + blen u)))) (c_doc c) T3)
        as (d' & E & E1 & E2 & E3 & E4 & E5 & E6).
      { cbn [storage_bytes str_bytes]. rewrite S3. apply HinD. left. reflexivity. }
      cbn [storage_bytes str_bytes] in E6. rewrite S3 in E6.
      rewrite E. cbn [bind]. exists d'. rewrite ctx_eta2. split; [reflexivity|].
      split; [exact E1|]. split; [exact E2|]. split; [exact E3|]. split.
      * constructor; cbn [c_ns_start_idx c_doc set_doc set_cur_attrs]; try assumption.
        -- pose proof (NsExt_tree_len _ _ E3). lia.
        -- apply (bindings_of_push (c_doc c) d' start own1 (None, u)); assumption.
        -- apply Forall_app. split; [exact T5|]. constructor; [discriminate|constructor].
      * rewrite E5. reflexivity.
    + (* xmlns:p="u" *)
      set (p := x0 :: pr) in *.
      change (bytes_eqb xmlns_b xmlns_str) with true. cbv iota. rewrite N3, N4.
      change Scope.bytes_eqb with bytes_eqb in *. change Scope.xml_prefix with ns_xml_prefix in *.
      rewrite T1.
      assert (Hex : ns_exists text (c_doc c) start (@Some bytes p) =
                    Ok (existsb (fun o : Scope.binding => Scope.prefix_eqb (fst o) (Some p)) own1))
        by exact (SP.ns_exists_spec text (c_doc c) start (Some p) own1 T2 T4).
      rewrite Hex. clear Hex.
      destruct (bytes_eqb p ns_xml_prefix) eqn:Ex; cbn [app] in *.
      * (* xmlns:xml with the xml URI: nothing is stored *)
        rewrite N5. cbn [negb andb bind].
        assert (Hno : existsb (fun o : Scope.binding => Scope.prefix_eqb (fst o) (Some p)) own1 = false).
        { apply SP.existsb_prefix_false. intros o Ho. rewrite Forall_forall in T5. specialize (T5 o Ho).
          apply SP.bytes_eqb_eq in Ex. rewrite Ex. exact T5. }
        match goal with |- context [if existsb ?f own1 then _ else _] => replace (existsb f own1) with false by (symmetry; exact Hno) end.
        exists (c_doc c). rewrite ctx_eta2. split; [f_equal; destruct c; reflexivity|].
        split; [reflexivity|]. split; [reflexivity|]. split; [apply NsExt_refl|]. rewrite app_nil_r. split.
        -- constructor; assumption.
        -- change (len_N []) with 0. lia.
      * rewrite N5. cbn [negb andb bind].
        pose proof (Hfresh (Some p, u) (or_introl eq_refl)) as Hf.
        match goal with |- context [if existsb ?f own1 then _ else _] => replace (existsb f own1) with false by (symmetry; exact Hf) end. clear Hf.
        match goal with |- context [push_ns text ?nm ?st (c_doc c)] =>
          destruct (push_ns_ok nm st (c_doc c) T3) as (d' & E & E1 & E2 & E3 & E4 & E5 & E6) end.
        { cbn [storage_bytes str_bytes]. rewrite S2, S3. apply HinD. left. reflexivity. }
        cbn [storage_bytes str_bytes] in E6. rewrite S2, S3 in E6.
        rewrite E. cbn [bind]. exists d'. rewrite ctx_eta2. split; [reflexivity|].
        split; [exact E1|]. split; [exact E2|]. split; [exact E3|]. split.
        -- constructor; cbn [c_ns_start_idx c_doc set_doc set_cur_attrs]; try assumption.
           ++ pose proof (NsExt_tree_len _ _ E3). lia.
           ++ apply (bindings_of_push (c_doc c) d' start own1 (Some p, u)); assumption.
           ++ apply Forall_app. split; [exact T5|]. constructor; [|constructor]. cbn [fst]. intros K.
              apply (f_equal (fun o : option bytes => match o with Some y => y | None => [] end)) in K.
              apply (proj2 (SP.bytes_eqb_eq _ _)) in K. change Scope.xml_prefix with ns_xml_prefix in K. rewrite K in Ex. discriminate.
        -- rewrite E5. reflexivity.
Qed.


Lemma own_cons e es : own_bindings (e :: es) = own_bindings [e] ++ own_bindings es.
Proof. unfold own_bindings. cbn [flat_map]. rewrite app_nil_r. reflexivity. Qed.

Lemma tas_cons q e es : tas_n q (e :: es) = tas_n q [e] ++ tas_n (q + blen (r_entry e)) es.
Proof. cbn [tas_n]. rewrite app_nil_r. reflexivity. Qed.

Lemma entries_evs more : forall es q c start own1,
  W q (flat_map r_entry es ++ more) -> forallb wf_entry es = true ->
  Scope.prefixes_unique (own1 ++ own_bindings es) = true -> incl (own_bindings es) D -> TI start own1 c ->
  exists d',
    evs context ev (entry_toks q es) c = Ok (set_doc (set_cur_attrs c (c_cur_attrs c ++ tas_n q es)) d') /\
    d_nodes d' = d_nodes (c_doc c) /\ d_attrs d' = d_attrs (c_doc c) /\ NsExt (c_doc c) d' /\
    TI start (own1 ++ own_bindings es) (set_doc (set_cur_attrs c (c_cur_attrs c ++ tas_n q es)) d') /\
    len_N (d_ns_tree d') = len_N (d_ns_tree (c_doc c)) + len_N (own_bindings es).
Proof.
  induction es as [|e es IH]; intros q c start own1 HW Hwf Hu HinD T.
  - cbn [entry_toks evs tas_n own_bindings flat_map]. exists (c_doc c). rewrite ctx_eta, app_nil_r.
    split; [reflexivity|]. split; [reflexivity|]. split; [reflexivity|]. split; [apply NsExt_refl|].
    split; [exact T|]. change (len_N []) with 0. lia.
  - cbn [forallb] in Hwf. apply andb_true_iff in Hwf. destruct Hwf as [Hw1 Hw2].
    cbn [flat_map] in HW. rewrite <- app_assoc in HW. rewrite own_cons in Hu, HinD.
    destruct (tok_entry q e _ c start own1 HW Hw1) as (d1 & E1 & N1 & A1 & X1 & T1 & L1).
    { intros b0 Hb. apply SP.existsb_prefix_false. intros o Ho.
      apply SP.prefixes_unique_app in Hu. destruct Hu as (_ & _ & Hu).
      intros K. apply (Hu o b0 Ho); [apply in_or_app; left; exact Hb|]. symmetry. exact K. }
    { intros x Hx. apply HinD. apply in_or_app. left. exact Hx. }
    { exact T. }
    cbn [entry_toks evs]. rewrite E1. cbn [bind].
    destruct (IH (q + blen (r_entry e)) (set_doc (set_cur_attrs c (c_cur_attrs c ++ tas_n q [e])) d1) start
                (own1 ++ own_bindings [e]) (W_app _ _ _ _ HW) Hw2)
      as (d2 & E2 & N2 & A2 & X2 & T2 & L2).
    { rewrite <- app_assoc. exact Hu. }
    { intros x Hx. apply HinD. apply in_or_app. right. exact Hx. }
    { exact T1. }
    rewrite E2. exists d2. cbn [c_cur_attrs c_doc set_doc set_cur_attrs] in *.
    rewrite own_cons, (tas_cons q e es). rewrite <- !app_assoc in *.
    split; [reflexivity|]. split; [congruence|]. split; [congruence|].
    split; [eapply NsExt_trans; eassumption|]. split; [exact T2|].
    rewrite L2, L1, len_N_app. lia.
Qed.


(* ------------------------------------------------------------------------------------------ *)
(* resolve_namespaces: succeeds and computes Scope.scope_of                                    *)
(* ------------------------------------------------------------------------------------------ *)

Lemma resolve_ns_loop_ok start : forall is d inh cur,
  SP.ns_ok d -> start <= len_N (d_ns_tree d) -> (forall i, In i is -> i < start) ->
  SP.bindings_of_list text d is = Some inh ->
  SP.bindings_of text d (start, len_N (d_ns_tree d)) = Some cur ->
  exists d', resolve_ns_loop text start is d = Ok d' /\ d_nodes d' = d_nodes d /\ d_attrs d' = d_attrs d /\
             d_ns_values d' = d_ns_values d /\ (exists t, d_ns_tree d' = d_ns_tree d ++ t).
Proof.
  induction is as [|i r IH]; intros d inh cur Hok Hs Hlt Hinh Hcur; cbn [resolve_ns_loop SP.bindings_of_list] in *.
  - exists d. repeat split; try reflexivity. exists []. rewrite app_nil_r. reflexivity.
  - destruct (SP.binding_at text d i) as [x|] eqn:Hx; [|discriminate].
    destruct (SP.bindings_of_list text d r) as [inh'|] eqn:Hr; [|discriminate].
    rewrite SP.binding_at_entry in Hx.
    destruct (nth_N (d_ns_tree d) i) as [vi|] eqn:Hi; [|discriminate].
    cbn [bind]. rewrite (SP.entry_prefix _ _ _ _ Hx). cbn [bind].
    rewrite (SP.ns_exists_spec text d start (fst x) cur Hs Hcur). cbn [bind].
    assert (Hlt' : forall j, In j r -> j < start) by (intros j Hj; apply Hlt; right; assumption).
    destruct (existsb (fun o => Scope.prefix_eqb (fst o) (fst x)) cur).
    + cbn [bind]. eapply IH; eauto.
    + unfold push_ref. rewrite Hi. cbn [bind].
      match goal with |- context [resolve_ns_loop _ _ _ ?d1] => set (d1' := d1) end.
      destruct (SP.tree_append text d d1' vi x Hok) as [Hok1 [Hlen1 [_ Hold]]];
        [reflexivity|cbn; lia|reflexivity|exact Hx|].
      destruct (IH d1' inh' (cur ++ [x])) as (d' & E & E1 & E2 & E3 & (t & E4)); auto.
      * lia.
      * rewrite (SP.bindings_of_list_ext text d d1'); [assumption|].
        intros p Hp. apply Hold. apply Hlt' in Hp. lia.
      * apply (SP.bindings_of_snoc text d d1' start vi x cur); auto.
      * exists d'. split; [exact E|]. split; [exact E1|]. split; [exact E2|]. split; [exact E3|].
        exists ([vi] ++ t). rewrite E4. cbn [d1' d_ns_tree]. rewrite <- app_assoc. reflexivity.
Qed.

Lemma set_doc_same c : set_doc c (c_doc c) = c.
Proof. destruct c; reflexivity. Qed.

Definition own_cost (own sc : list Scope.binding) : N :=
  match own with [] => 0 | _ => N.of_nat (length sc) end.

(* in a context whose parent has the scope inh, after the declarations own *)
Lemma resolve_namespaces_ns inh own c par k :
  TI (c_ns_start_idx c) own c ->
  c_parent_id c < len_N (d_nodes (c_doc c)) ->
  nth_error (absn (c_doc c)) (N.to_nat (c_parent_id c)) = Some (par, k) -> par_ok (c_doc c) inh k ->
  match k with KElement _ _ _ nss => snd nss <= c_ns_start_idx c | _ => True end ->
  Scope.prefixes_unique inh = true ->
  c_ns_start_idx c + own_cost own (Scope.scope_of own inh) <= u32_max ->
  exists r d',
    resolve_namespaces text c = Ok (r, set_doc c d') /\
    d_nodes d' = d_nodes (c_doc c) /\ d_attrs d' = d_attrs (c_doc c) /\ d_ns_values d' = d_ns_values (c_doc c) /\
    (exists t, d_ns_tree d' = d_ns_tree (c_doc c) ++ t) /\ SP.ns_ok d' /\
    SP.bindings_of text d' r = Some (Scope.scope_of own inh) /\ fst r <= snd r /\ snd r <= len_N (d_ns_tree d') /\
    len_N (d_ns_tree d') = match own with
                           | [] => len_N (d_ns_tree (c_doc c))
                           | _ => c_ns_start_idx c + N.of_nat (length (Scope.scope_of own inh))
                           end.
Proof.
  intros T Hpid Erow Hpar Hsnd Hu Hroom. destruct T as [_ T2 T3 T4 _].
  pose proof Erow as Erow'. apply nth_error_map_inv in Erow'. destruct Erow' as (pnd & Epnd & Eabs).
  unfold abs_nd in Eabs. injection Eabs as _ Ekind.
  assert (Hnth : nth_N (d_nodes (c_doc c)) (c_parent_id c) = Some pnd) by (rewrite nth_N_lt by exact Hpid; exact Epnd).
  pose proof (bindings_of_length _ _ _ _ T4) as Hlown.
  (* the result, once it is known to be Ok *)
  assert (Hspec : forall r c', resolve_namespaces text c = Ok (r, c') ->
            SP.ns_ok (c_doc c') /\ SP.bindings_of text (c_doc c') r = Some (Scope.scope_of own inh)).
  { intros r c' E.
    apply (SP.scopes_refine text c r c' pnd (match k with KElement _ _ _ nss => nss | _ => (0, 0) end) own inh
             (nsi_ok _ T3) Hnth).
    - rewrite Ekind. destruct k; reflexivity.
    - destruct k; cbn [snd]; lia.
    - exact T2.
    - destruct k; cbn [par_ok] in Hpar; try contradiction; [subst inh; reflexivity|apply Hpar].
    - exact Hu.
    - exact T4.
    - exact E. }
  unfold resolve_namespaces in *. cbv zeta in *. rewrite Hnth in *. cbn [bind] in *. rewrite Ekind in *.
  destruct k as [|ns local ar nss| | |]; cbn [par_ok] in Hpar; try contradiction.
  - (* the parent is the Root node *)
    subst inh. unfold ns_range_checked in *.
    assert (Hsc : Scope.scope_of own [] = own) by (unfold Scope.scope_of; cbn [filter]; apply app_nil_r).
    rewrite Hsc in *.
    assert (Hle : len_N (d_ns_tree (c_doc c)) <= u32_max).
    { unfold own_cost in Hroom. destruct own; cbn [length] in *; lia. }
    replace (u32_max <? len_N (d_ns_tree (c_doc c))) with false in * by lia. cbn [bind] in *.
    exists (c_ns_start_idx c, len_N (d_ns_tree (c_doc c))), (c_doc c). rewrite set_doc_same.
    split; [reflexivity|]. split; [reflexivity|]. split; [reflexivity|]. split; [reflexivity|].
    split; [exists []; rewrite app_nil_r; reflexivity|]. split; [apply (nsi_ok _ T3)|].
    split; [exact T4|]. cbn [fst snd]. split; [exact T2|]. split; [lia|].
    destruct own; [reflexivity|]. lia.
  - destruct Hpar as (Hb & Hr1 & Hr2).
    destruct (c_ns_start_idx c =? len_N (d_ns_tree (c_doc c))) eqn:Eq.
    + (* nothing declared: the range of the parent *)
      apply N.eqb_eq in Eq.
      assert (Eown : own = []) by (destruct own; [reflexivity|cbn [length] in Hlown; lia]). subst own.
      destruct (Hspec nss c eq_refl) as [_ Hsc].
      exists nss, (c_doc c). rewrite set_doc_same.
      split; [reflexivity|]. split; [reflexivity|]. split; [reflexivity|]. split; [reflexivity|].
      split; [exists []; rewrite app_nil_r; reflexivity|]. split; [apply (nsi_ok _ T3)|].
      split; [exact Hsc|]. split; [exact Hr1|]. split; [exact Hr2|reflexivity].
    + destruct nss as [pa pe]. cbn [fst snd] in *.
      unfold SP.bindings_of in Hb. cbn [fst snd] in Hb.
      destruct (resolve_ns_loop_ok (c_ns_start_idx c) (N_range pa (N.to_nat (pe - pa))) (c_doc c) inh own
                  (nsi_ok _ T3) T2) as (d' & E & E1 & E2 & E3 & (t & E4)).
      { intros i Hi. apply SP.In_N_range in Hi. lia. }
      { exact Hb. }
      { exact T4. }
      rewrite E in *. cbn [bind] in *. unfold ns_range_checked in *.
      destruct (u32_max <? len_N (d_ns_tree d')) eqn:Elim.
      * (* impossible: the table has room *)
        exfalso.
        destruct (SP.resolve_ns_loop_spec text (c_ns_start_idx c) (N_range pa (N.to_nat (pe - pa))) (c_doc c) d' inh own (nsi_ok _ T3) T2
                    ltac:(intros i Hi; apply SP.In_N_range in Hi; lia) Hb T4 E) as (_ & Hs' & Hres).
        apply bindings_of_length in Hres.
        rewrite <- (app_nil_r own) in Hres at 1.
        rewrite SP.copy_loop_filter in Hres; [|exact Hu|intros ? ? []].
        cbn [app] in Hres.
        match type of Hres with length ?l = _ => change l with (Scope.scope_of own inh) in Hres end.
        apply N.eqb_neq in Eq. unfold own_cost in Hroom. destruct own; cbn [length] in *; lia.
      * cbn [bind] in *. destruct (Hspec _ _ eq_refl) as [Hok' Hsc]. cbn [c_doc set_doc] in Hok', Hsc.
        exists (c_ns_start_idx c, len_N (d_ns_tree d')), d'.
        split; [reflexivity|]. split; [exact E1|]. split; [exact E2|]. split; [exact E3|].
        split; [exists t; exact E4|]. split; [exact Hok'|]. split; [exact Hsc|]. cbn [fst snd].
        assert (Hle : c_ns_start_idx c <= len_N (d_ns_tree d')) by (rewrite E4, len_N_app; lia).
        split; [exact Hle|]. split; [lia|].
        apply bindings_of_length in Hsc.
        destruct own as [|b0 own']; [cbn [length] in Hlown; apply N.eqb_neq in Eq; lia|]. lia.
Qed.


(* ------------------------------------------------------------------------------------------ *)
(* names are resolved as Spec/Scope.v says                                                    *)
(* ------------------------------------------------------------------------------------------ *)

Lemma bindings_of_same d d' r : d_ns_tree d' = d_ns_tree d -> d_ns_values d' = d_ns_values d ->
  SP.bindings_of text d' r = SP.bindings_of text d r.
Proof.
  intros Ht Hv. unfold SP.bindings_of. apply SP.bindings_of_list_ext. intros p _.
  unfold SP.binding_at. rewrite Ht, Hv. reflexivity.
Qed.

Lemma get_ns_ns d nss sc pos pfx :
  SP.bindings_of text d nss = Some sc -> fst nss <= snd nss -> snd nss <= len_N (d_ns_tree d) ->
  nth_error (d_ns_values d) 0 = Some xml_ns ->
  is_bound (Scope.resolve_elem sc (slice_bytes text pfx)) = true ->
  exists r, get_ns_idx_by_prefix text nss pos pfx d = Ok r /\
            ns_uri_opt text d r = Some (ns_of (Scope.resolve_elem sc (slice_bytes text pfx))).
Proof.
  intros Hsc H1 H2 Hxml Hb. unfold get_ns_idx_by_prefix. cbv zeta. set (pb := slice_bytes text pfx) in *. clearbody pb.
  unfold Scope.resolve_elem in *. change Scope.bytes_eqb with bytes_eqb in *.
  change Scope.xml_prefix with ns_xml_prefix in *.
  destruct (bytes_eqb pb ns_xml_prefix) eqn:Ex.
  - exists (Some 0). split; [reflexivity|]. unfold ns_uri_opt, nth_N.
    destruct (d_ns_values d) as [|v0 vr]; [discriminate|]. cbn in Hxml. injection Hxml as ->.
    replace (len_N (xml_ns :: vr) <=? 0) with false by (unfold len_N; cbn [length]; lia). reflexivity.
  - rewrite (SP.ns_range_slice_total d nss H1 H2). cbn [bind].
    destruct nss as [a e]. cbn [fst snd] in *. rewrite SP.bindings_of_range in Hsc by assumption.
    destruct (SP.find_prefix_idx_spec text d (match pb with [] => None | _ => Some pb end) _ _ Hsc) as (found & Ef & Hf).
    rewrite Ef. cbn [bind]. destruct found as [vi|].
    + destruct Hf as (v & Ev & El). exists (Some vi). split; [reflexivity|]. unfold ns_uri_opt. rewrite Ev.
      destruct pb;
        (match goal with |- context [match ?L with Some _ => _ | None => _ end] =>
           replace L with (Some (storage_bytes text (ns_uri v))) by (symmetry; exact El) end); reflexivity.
    + destruct pb as [|x0 pr].
      * exists None. split; [reflexivity|].
        match goal with |- context [match ?L with Some _ => _ | None => _ end] =>
          replace L with (@None Scope.bytes) by (symmetry; exact Hf) end. reflexivity.
      * exfalso. match type of Hb with context [match ?L with Some _ => _ | None => _ end] =>
          replace L with (@None Scope.bytes) in Hb by (symmetry; exact Hf) end. discriminate.
Qed.

(* the expanded name of a collected attribute *)
Definition tname (sc : list Scope.binding) (t : temp_attr) : option bytes * bytes :=
  (ns_of (Scope.resolve_attr sc (slice_bytes text (ta_prefix t))), slice_bytes text (ta_local t)).

Definition attr_res (d : document) (sc : list Scope.binding) (t : temp_attr) (a : attr_data) : Prop :=
  ad_local a = ta_local t /\ ad_value a = ta_value t /\ ns_uri_opt text d (ad_ns_idx a) = Some (fst (tname sc t)).

Lemma aen_ok d ns u loc : ns_uri_opt text d ns = Some u ->
  attr_expanded_name text d ns loc = Ok (u, slice_bytes text loc).
Proof.
  unfold ns_uri_opt, attr_expanded_name. destruct ns as [i|]; [|intros [= <-]; reflexivity].
  destruct (nth_N (d_ns_values d) i); [intros [= <-]; reflexivity|discriminate].
Qed.

Lemma any_same_name_spec d nm : forall acc names,
  Forall2 (fun a en => ns_uri_opt text d (ad_ns_idx a) = Some (fst en) /\ slice_bytes text (ad_local a) = snd en) acc names ->
  any_same_name text d acc nm = Ok (existsb (fun en => ename_eqb en nm) names).
Proof.
  induction 1 as [|a en acc names [H1 H2] _ IH]; cbn [any_same_name existsb]; [reflexivity|].
  rewrite (aen_ok _ _ _ _ H1). cbn [bind fst snd]. rewrite H2, IH.
  unfold ename_eqb. change Scope.prefix_eqb with opt_str_eqb. change Scope.bytes_eqb with bytes_eqb.
  match goal with |- (if ?b0 then _ else _) = Ok (?b1 || _) => change b1 with b0; destruct b0; reflexivity end.
Qed.

Lemma distinct_mid : forall l1 nm l2, enames_distinct (l1 ++ nm :: l2) = true ->
  existsb (fun x => ename_eqb x nm) l1 = false.
Proof.
  induction l1 as [|x l1 IH]; intros nm l2 H; [reflexivity|]. cbn [app enames_distinct existsb] in *.
  apply andb_true_iff in H. destruct H as [H1 H2]. rewrite (IH _ _ H2), orb_false_r.
  apply negb_true_iff in H1. rewrite existsb_app in H1. apply orb_false_iff in H1. destruct H1 as [_ H1].
  cbn [existsb] in H1. apply orb_false_iff in H1. apply H1.
Qed.

Lemma resolve_attrs_loop_ns d0 nss sc start base :
  N.to_nat start = length base ->
  SP.bindings_of text d0 nss = Some sc -> fst nss <= snd nss -> snd nss <= len_N (d_ns_tree d0) ->
  nth_error (d_ns_values d0) 0 = Some xml_ns ->
  forall l acc names d, d_attrs d = base ++ acc ->
  d_nodes d = d_nodes d0 -> d_ns_values d = d_ns_values d0 -> d_ns_tree d = d_ns_tree d0 ->
  Forall (fun t => is_bound (Scope.resolve_attr sc (slice_bytes text (ta_prefix t))) = true) l ->
  Forall2 (fun a en => ns_uri_opt text d0 (ad_ns_idx a) = Some (fst en) /\ slice_bytes text (ad_local a) = snd en) acc names ->
  enames_distinct (names ++ map (tname sc) l) = true ->
  exists new, resolve_attrs_loop text nss start l d = Ok (set_attrs d (base ++ acc ++ new)) /\
              Forall2 (attr_res d0 sc) l new.
Proof.
  intros Hs Hsc Hr1 Hr2 Hxml. induction l as [|t l IH]; intros acc names d Hd Hn Hv Ht Hb Hacc Hdist; cbn [resolve_attrs_loop map].
  - exists []. rewrite app_nil_r, <- Hd. split; [destruct d; reflexivity|constructor].
  - inversion Hb as [|? ? Hb1 Hb2]; subst.
    set (pb := slice_bytes text (ta_prefix t)) in *.
    assert (Hidx : exists idx,
      (if bytes_eqb pb ns_xml_prefix then Ok (Some 0)
       else match pb with [] => Ok None | _ => get_ns_idx_by_prefix text nss (fst (ta_range t)) (ta_prefix t) d end) = Ok idx /\
      ns_uri_opt text d0 idx = Some (fst (tname sc t))).
    { unfold tname. cbn [fst]. fold pb. unfold Scope.resolve_attr in *.
      change Scope.bytes_eqb with bytes_eqb in *. change Scope.xml_prefix with ns_xml_prefix in *.
      destruct (bytes_eqb pb ns_xml_prefix) eqn:Ex.
      - exists (Some 0). split; [reflexivity|]. unfold ns_uri_opt, nth_N.
        destruct (d_ns_values d0) as [|v0 vr]; [discriminate|]. cbn in Hxml. injection Hxml as ->.
        replace (len_N (xml_ns :: vr) <=? 0) with false by (unfold len_N; cbn [length]; lia). reflexivity.
      - destruct pb as [|x0 pr] eqn:Epb; [exists None; split; reflexivity|].
        assert (Hsc' : SP.bindings_of text d nss = Some sc).
        { rewrite (bindings_of_same d0 d nss Ht Hv). exact Hsc. }
        destruct (get_ns_ns d nss sc (fst (ta_range t)) (ta_prefix t) Hsc' Hr1) as (r & Er & Eu).
        + rewrite Ht. exact Hr2.
        + rewrite Hv. exact Hxml.
        + fold pb. rewrite Epb. unfold Scope.resolve_elem. change Scope.bytes_eqb with bytes_eqb.
          change Scope.xml_prefix with ns_xml_prefix. rewrite Ex. exact Hb1.
        + exists r. split; [exact Er|]. unfold ns_uri_opt in *. rewrite Hv in Eu.
          fold pb in Eu. rewrite Epb in Eu. unfold Scope.resolve_elem in Eu. change Scope.bytes_eqb with bytes_eqb in Eu.
          change Scope.xml_prefix with ns_xml_prefix in Eu. rewrite Ex in Eu. exact Eu. }
    destruct Hidx as (idx & Eidx & Hu). rewrite Eidx. cbn [bind].
    assert (Hu' : ns_uri_opt text d idx = Some (fst (tname sc t))) by (unfold ns_uri_opt in *; rewrite Hv; exact Hu).
    rewrite (aen_ok _ _ _ _ Hu'). cbn [bind].
    rewrite Hd, (skipn_base base acc) by exact Hs.
    rewrite (any_same_name_spec d _ acc names).
    2:{ clear - Hacc Hv. induction Hacc as [|a en acc names [H1 H2] _ IH]; constructor; [|exact IH].
        split; [unfold ns_uri_opt in *; rewrite Hv; exact H1|exact H2]. }
    cbn [bind]. fold (tname sc t).
    change (fst (tname sc t), slice_bytes text (ta_local t)) with (tname sc t).
    rewrite (distinct_mid _ _ _ Hdist). rewrite <- Hd.
    set (a := {| ad_ns_idx := idx; ad_local := ta_local t; ad_value := ta_value t; ad_range := ta_range t;
                 ad_qname_len := ta_qname_len t; ad_eq_len := ta_eq_len t |}).
    destruct (IH (acc ++ [a]) (names ++ [tname sc t]) (set_attrs d (d_attrs d ++ [a]))) as (new & E & F).
    + cbn [set_attrs d_attrs]. rewrite Hd, <- app_assoc. reflexivity.
    + exact Hn.
    + exact Hv.
    + exact Ht.
    + exact Hb2.
    + apply Forall2_app; [exact Hacc|]. constructor; [|constructor]. split; [exact Hu|reflexivity].
    + rewrite <- app_assoc. exact Hdist.
    + exists (a :: new). split.
      * rewrite E. cbn [set_attrs d_nodes d_attrs d_ns_values d_ns_tree]. rewrite <- !app_assoc. reflexivity.
      * constructor; [|exact F]. split; [reflexivity|]. split; [reflexivity|exact Hu].
Qed.

Lemma resolve_attributes_ns nss sc c :
  SP.bindings_of text (c_doc c) nss = Some sc -> fst nss <= snd nss -> snd nss <= len_N (d_ns_tree (c_doc c)) ->
  nth_error (d_ns_values (c_doc c)) 0 = Some xml_ns ->
  Forall (fun t => is_bound (Scope.resolve_attr sc (slice_bytes text (ta_prefix t))) = true) (c_cur_attrs c) ->
  enames_distinct (map (tname sc) (c_cur_attrs c)) = true ->
  len_N (d_attrs (c_doc c)) + len_N (c_cur_attrs c) < u32_max ->
  exists new,
    resolve_attributes text nss c =
      Ok (attr_range (d_attrs (c_doc c)) (c_cur_attrs c),
          set_doc (set_cur_attrs c []) (set_attrs (c_doc c) (d_attrs (c_doc c) ++ new))) /\
    Forall2 (attr_res (c_doc c) sc) (c_cur_attrs c) new.
Proof.
  intros Hsc H1 H2 Hxml Hb Hd Hlim. unfold resolve_attributes.
  destruct (c_cur_attrs c) as [|t l] eqn:El.
  - exists []. cbn [attr_range]. rewrite app_nil_r. split; [|constructor].
    destruct c as [o n ca aw pp en at_ pid tn fl ld d]. cbn [c_cur_attrs] in El. subst ca.
    destruct d; reflexivity.
  - replace (u32_max <=? len_N (d_attrs (c_doc c)) + len_N (t :: l)) with false by lia.
    destruct (resolve_attrs_loop_ns (c_doc c) nss sc (len_N (d_attrs (c_doc c))) (d_attrs (c_doc c))
                ltac:(unfold len_N; lia) Hsc H1 H2 Hxml (t :: l) [] [] (c_doc c)) as (new & E & F);
      try reflexivity; try assumption.
    + rewrite app_nil_r. reflexivity.
    + constructor.
    + exists new. split; [|exact F]. rewrite E. cbn [bind app]. unfold short_range. cbn [set_attrs d_attrs].
      rewrite len_N_app. assert (Hl : len_N new = len_N (t :: l)).
      { clear - F. unfold len_N. induction F; cbn [length]; lia. }
      rewrite Hl.
      replace ((u32_max <? len_N (d_attrs (c_doc c))) || (u32_max <? len_N (d_attrs (c_doc c)) + len_N (t :: l)))
        with false by lia.
      cbn [bind attr_range]. reflexivity.
Qed.


(* ------------------------------------------------------------------------------------------ *)
(* the view of a row                                                                          *)
(* ------------------------------------------------------------------------------------------ *)

Definition kmn (d : document) (rw : row) (tv : N * vnode) : Prop :=
  fst rw = Some (fst tv) /\
  match snd rw, snd tv with
  | KElement ns local ar nss, VElem u loc attrs sc _ =>
    ns_uri_opt text d ns = Some u /\ slice_bytes text local = loc /\ attrs_of text d ar = Some attrs /\
    fst ar <= snd ar /\ snd ar <= len_N (d_attrs d) /\ scope_at text d nss = Some sc
  | KText s, VText bs => storage_bytes text s = bs
  | KComment s, VComment bs => slice_bytes text s = bs
  | KPI t v, VPI tb vb =>
    slice_bytes text t = tb /\
    match v, vb with
    | Some x, Some y => slice_bytes text x = y
    | None, None => True
    | _, _ => False
    end
  | _, _ => False
  end.

Lemma opt_all_map_ext {A B} (f g : A -> option B) : forall l r,
  (forall a x, In a l -> f a = Some x -> g a = Some x) ->
  opt_all (map f l) = Some r -> opt_all (map g l) = Some r.
Proof.
  induction l as [|a l IH]; intros r H E; cbn [map opt_all] in *; [exact E|].
  destruct (f a) as [x|] eqn:Ea; [|discriminate].
  destruct (opt_all (map f l)) as [r'|] eqn:El; [|discriminate].
  rewrite (H a x (or_introl eq_refl) Ea), (IH r' (fun a0 x0 Hi => H a0 x0 (or_intror Hi)) eq_refl). exact E.
Qed.

Definition DocExt (d d' : document) : Prop := (exists ext, d_attrs d' = d_attrs d ++ ext) /\ NsExt d d'.

Lemma attrs_of_ext d d' r attrs : DocExt d d' -> fst r <= snd r -> snd r <= len_N (d_attrs d) ->
  attrs_of text d r = Some attrs -> attrs_of text d' r = Some attrs.
Proof.
  intros [[ext Ea] Hn] H1 H2 E. unfold attrs_of in *. rewrite Ea.
  assert (Hs : firstn (N.to_nat (snd r - fst r)) (skipn (N.to_nat (fst r)) (d_attrs d ++ ext)) =
               firstn (N.to_nat (snd r - fst r)) (skipn (N.to_nat (fst r)) (d_attrs d))).
  { unfold len_N in H2. rewrite skipn_app, firstn_app.
    replace (N.to_nat (snd r - fst r) - length (skipn (N.to_nat (fst r)) (d_attrs d)))%nat with O
      by (rewrite skipn_length; lia).
    cbn [firstn]. apply app_nil_r. }
  rewrite Hs. revert E. apply opt_all_map_ext. intros a x _ Hx.
  destruct (ns_uri_opt text d (ad_ns_idx a)) as [u|] eqn:Eu; [|discriminate].
  rewrite (ns_uri_opt_ext _ _ _ _ Hn Eu). exact Hx.
Qed.

Lemma kmn_ext d d' rw tv : DocExt d d' -> kmn d rw tv -> kmn d' rw tv.
Proof.
  intros HE [H1 H2]. split; [exact H1|].
  destruct (snd rw), (snd tv); try exact H2.
  destruct H2 as (E1 & E2 & E3 & E4 & E5 & E6). destruct HE as [[ext Ea] Hn].
  split; [apply (ns_uri_opt_ext _ _ _ _ Hn E1)|]. split; [exact E2|].
  split; [apply (attrs_of_ext d d'); [split; [exists ext; exact Ea|exact Hn]|exact E4|exact E5|exact E3]|].
  split; [exact E4|]. split; [rewrite Ea, len_N_app; lia|].
  unfold scope_at in *. apply (bindings_of_ext _ _ _ _ Hn E6).
Qed.

Lemma DocExt_refl d : DocExt d d.
Proof. split; [exists []; rewrite app_nil_r; reflexivity|apply NsExt_refl]. Qed.

Lemma DocExt_same d d' : d_attrs d' = d_attrs d -> d_ns_tree d' = d_ns_tree d -> d_ns_values d' = d_ns_values d -> DocExt d d'.
Proof. intros H1 H2 H3. split; [exists []; rewrite app_nil_r; exact H1|apply NsExt_same; assumption]. Qed.

Lemma DocExt_trans d1 d2 d3 : DocExt d1 d2 -> DocExt d2 d3 -> DocExt d1 d3.
Proof.
  intros [[e1 A1] N1] [[e2 A2] N2]. split; [exists (e1 ++ e2); rewrite A2, A1, app_assoc; reflexivity|].
  eapply NsExt_trans; eassumption.
Qed.

Lemma Step0n_DocExt c c' K ext : Step0n c c' K ext -> DocExt (c_doc c) (c_doc c').
Proof. intros S. split; [exists ext; apply (sn_attrs _ _ _ _ S)|apply (sn_ns _ _ _ _ S)]. Qed.

(* ---- the attributes of a start tag ---- *)
Definition tview (sc : list Scope.binding) (t : temp_attr) : option bytes * bytes * bytes :=
  (fst (tname sc t), snd (tname sc t), storage_bytes text (ta_value t)).

Lemma tas_sem sc more : forall es q, W q (flat_map r_entry es ++ more) ->
  map (tview sc) (tas_n q es) = sem_attrs sc es.
Proof.
  induction es as [|e es IH]; intros q HW; [reflexivity|].
  cbn [flat_map] in HW. rewrite <- app_assoc in HW. rewrite tas_cons, map_app, (IH _ (W_app _ _ _ _ HW)).
  unfold sem_attrs. cbn [flat_map]. f_equal.
  destruct (entry_slices _ _ _ HW) as (S1 & S2 & S3).
  destruct e as [l n v|l pr u]; cbn [tas_n app map]; [|reflexivity].
  unfold tview, tname. cbn [fst snd]. rewrite S1, S2, S3. reflexivity.
Qed.

Lemma attrs_of_new d0 d' sc A l new :
  d_attrs d' = A ++ new -> Forall2 (attr_res d0 sc) l new -> NsExt d0 d' ->
  attrs_of text d' (attr_range A l) = Some (map (tview sc) l).
Proof.
  intros Ea F Hn. unfold attrs_of, attr_range. rewrite Ea.
  assert (Hl : length new = length l) by (clear - F; induction F; cbn [length]; lia).
  destruct l as [|t l].
  - cbn [fst snd]. rewrite N.sub_diag. reflexivity.
  - cbn [fst snd]. replace (N.to_nat (len_N A)) with (length A) by (unfold len_N; lia).
    rewrite skipn_len_app.
    replace (N.to_nat (len_N A + len_N (t :: l) - len_N A)) with (length new) by (unfold len_N; lia).
    rewrite firstn_len. clear Hl Ea. induction F as [|t0 a l0 new0 (R1 & R2 & R3) _ IH]; [reflexivity|].
    cbn [map opt_all]. rewrite (ns_uri_opt_ext _ _ _ _ Hn R3), IH. unfold tview. rewrite R1, R2. reflexivity.
Qed.


(* ------------------------------------------------------------------------------------------ *)
(* tags                                                                                       *)
(* ------------------------------------------------------------------------------------------ *)

Definition tn_of_ns (p : N) (name : qname) : tag_name_span :=
  {| tn_prefix := sl (p + 1) (p + 1 + blen (q_prefix name));
     tn_name := sl (p + 1 + q_off name) (p + 1 + blen (r_qname name)); tn_pos := p; tn_prefix_pos := p + 1 |}.

Lemma NsInv_same d d' : NsInv d -> SP.ns_ok d' -> d_ns_values d' = d_ns_values d -> NsInv d'.
Proof. intros [N1 N2 N3 N4] H Hv. constructor; [exact H|rewrite Hv; assumption..]. Qed.

Lemma NsInv_same2 d d' : NsInv d -> d_ns_tree d' = d_ns_tree d -> d_ns_values d' = d_ns_values d -> NsInv d'.
Proof.
  intros [N1 N2 N3 N4] Ht Hv. constructor; [|rewrite Hv; assumption..].
  unfold SP.ns_ok. rewrite Ht, Hv. exact N1.
Qed.

Lemma bound_tas sc more : forall es q, W q (flat_map r_entry es ++ more) ->
  forallb (fun e => match e with EAttr _ n _ => is_bound (Scope.resolve_attr sc (q_prefix n)) | EDecl _ _ _ => true end) es = true ->
  Forall (fun t => is_bound (Scope.resolve_attr sc (slice_bytes text (ta_prefix t))) = true) (tas_n q es).
Proof.
  induction es as [|e es IH]; intros q HW H; [constructor|].
  cbn [flat_map] in HW. rewrite <- app_assoc in HW. cbn [forallb] in H. apply andb_true_iff in H. destruct H as [H1 H2].
  rewrite tas_cons. apply Forall_app. split; [|apply IH; [apply (W_app _ _ _ _ HW)|exact H2]].
  destruct (entry_slices _ _ _ HW) as (S1 & _).
  destruct e as [l n v|l pr u]; cbn [tas_n app]; [|constructor]. constructor; [|constructor]. rewrite S1. exact H1.
Qed.

Lemma start_tag_ok_ns inh p name es ws_end empty post c :
  W p ([60] ++ r_qname name ++ flat_map r_entry es ++ ws_end ++ tag_tail empty ++ post) ->
  let own := own_bindings es in
  let sc := Scope.scope_of own inh in
  wf_qname name = true -> Scope.bytes_eqb (q_prefix name) xmlns_b = false ->
  forallb wf_entry es = true -> Scope.prefixes_unique own = true ->
  is_bound (Scope.resolve_elem sc (q_prefix name)) = true ->
  forallb (fun e => match e with EAttr _ n _ => is_bound (Scope.resolve_attr sc (q_prefix n)) | EDecl _ _ _ => true end) es = true ->
  enames_distinct (map (fun a => (fst (fst a), snd (fst a))) (sem_attrs sc es)) = true ->
  incl own D ->
  CIn inh c -> room c ->
  len_N (d_attrs (c_doc c)) + N.of_nat (length (sem_attrs sc es)) < u32_max ->
  len_N (d_ns_tree (c_doc c)) + own_cost own sc <= u32_max ->
  let q' := p + 1 + blen (r_qname name) + blen (flat_map r_entry es) + blen ws_end in
  let id := len_N (d_nodes (c_doc c)) in
  exists c' kind ext,
    (let! c1 := evs context ev (start_toks_ns p name es) c in ev (end_tok q' empty) c1) = Ok c' /\
    Step0n c c' [(Some (c_parent_id c), kind)] ext /\ length ext = length (sem_attrs sc es) /\
    (forall m, kmn (c_doc c') (Some (c_parent_id c), kind)
                 (c_parent_id c, VElem (ns_of (Scope.resolve_elem sc (q_prefix name))) (q_local name) (sem_attrs sc es) sc m)) /\
    c_after_text c' = [] /\ tn_set c' /\
    len_N (d_ns_tree (c_doc c')) = len_N (d_ns_tree (c_doc c)) + own_cost own sc /\
    if empty
    then CIn inh c' /\ c_parent_id c' = c_parent_id c /\ c_parent_prefixes c' = c_parent_prefixes c
    else CIn sc c' /\ c_parent_id c' = id /\
         c_parent_prefixes c' = c_parent_prefixes c ++ [sl (p + 1) (p + 1 + blen (q_prefix name))] /\
         c_awaiting c' = [].
Proof.
  intros HW own sc Hn N1 Hwf N6 N2e N2a N7 HinD I R Hlim Hns q' id.
  pose proof (W_app _ _ _ _ HW) as HW1. change (blen [60]) with 1 in HW1.
  pose proof (W_app _ _ _ _ HW1) as HW2.
  destruct (qname_slices _ _ _ HW1) as [Sp Sl].
  pose proof (tas_sem sc _ es _ HW2) as Tsem.
  pose proof (bound_tas sc _ es _ HW2 N2a) as Tb.
  set (T := tas_n (p + 1 + blen (r_qname name)) es) in *.
  unfold start_toks_ns. cbn [evs].
  (* ElementStart *)
  unfold tok_ev at 1, Parse.token at 1. cbn [token_with].
  rewrite reset_after_text_ok by apply (cn_at _ _ I). cbn [bind].
  rewrite Sp. change Scope.bytes_eqb with bytes_eqb in N1. change xmlns_b with xmlns_str in N1. rewrite N1. cbn [bind].
  fold (tok_ev text). fold (tn_of_ns p name).
  set (c0 := set_tag_name (set_after_text c []) (tn_of_ns p name)).
  (* entries *)
  assert (T0 : TI (c_ns_start_idx c) [] c0).
  { constructor; cbn; try reflexivity.
    - rewrite (cn_ns _ _ I). lia.
    - apply (cn_inv _ _ I).
    - rewrite (cn_ns _ _ I). unfold SP.bindings_of. cbn [fst snd]. rewrite N.sub_diag. reflexivity.
    - constructor. }
  destruct (entries_evs _ es _ c0 (c_ns_start_idx c) [] HW2 Hwf N6 HinD T0) as (d1 & E1 & Nd1 & A1 & X1 & T1 & L1).
  rewrite E1. cbn [bind]. cbn [app] in T1. fold own in T1, L1. fold T in T1 |- *.
  change (c_doc c0) with (c_doc c) in Nd1, A1, X1, L1.
  replace (c_cur_attrs c0) with (@nil temp_attr) in * by (symmetry; apply (cn_cur _ _ I)). cbn [app] in *.
  set (c1 := set_doc (set_cur_attrs c0 T) d1) in *.
  (* ElementEnd *)
  unfold tok_ev, Parse.token, end_tok. cbn [token_with].
  rewrite reset_after_text_ok by (cbn; lia). cbn [bind].
  set (c1' := set_after_text c1 []).
  unfold process_element.
  replace (slice_len (tn_name (c_tag_name c1')) =? 0) with false.
  2:{ cbn. unfold slice_len. cbn [sl sl_start sl_end]. rewrite r_qname_len.
      destruct (wf_qname_parts _ Hn) as [_ Hl]. destruct (q_local name); [discriminate|]. rewrite blen_cons. lia. }
  destruct (cn_par _ _ I) as (par & k & Epar & Hpar).
  pose proof (Step0n_len) as _.
  assert (T1' : TI (c_ns_start_idx c1') own c1') by exact T1.
  destruct (resolve_namespaces_ns inh own c1' par k T1') as (r & d2 & E2 & Nd2 & A2 & V2 & (t2 & Tr2) & Ok2 & B2 & R1 & R2 & L2).
  { cbn. rewrite Nd1. apply (cn_pid _ _ I). }
  { cbn. unfold absn. rewrite Nd1. exact Epar. }
  { apply (par_ok_ext (c_doc c) d1); [exact X1|exact Hpar]. }
  { cbn. destruct k; try exact Logic.I. cbn [par_ok] in Hpar. rewrite (cn_ns _ _ I). apply Hpar. }
  { apply (cn_uniq _ _ I). }
  { cbn. rewrite (cn_ns _ _ I). fold sc. exact Hns. }
  rewrite E2. cbn [bind]. clear E2.
  change (c_doc c1') with d1 in Nd2, A2, V2, Tr2, L2.
  change (c_ns_start_idx c1') with (c_ns_start_idx c) in L2.
  set (c3 := set_ns_start_idx (set_doc c1' d2) (len_N (d_ns_tree (c_doc (set_doc c1' d2))))).
  assert (Hxml2 : nth_error (d_ns_values d2) 0 = Some xml_ns) by (rewrite V2; apply (nsi_xml _ (ti_inv _ _ _ T1))).
  destruct (resolve_attributes_ns r sc c3) as (new & E3 & F3).
  { exact B2. } { exact R1. } { exact R2. } { exact Hxml2. } { exact Tb. }
  { cbn [c_cur_attrs c3 set_ns_start_idx set_doc c1' set_after_text c1 set_cur_attrs].
    rewrite <- N7. rewrite <- Tsem, !map_map. reflexivity. }
  { cbn. rewrite A2, A1. unfold len_N at 2. fold T. rewrite <- (map_length (tview sc)), Tsem. exact Hlim. }
  rewrite E3. cbn [bind]. clear E3.
  change (c_cur_attrs c3) with T in F3. change (c_doc c3) with d2 in F3.
  cbn [c_cur_attrs c_doc c3 set_ns_start_idx set_doc c1' set_after_text c1 set_cur_attrs c_tag_name c0 set_tag_name
       tn_of_ns tn_prefix tn_prefix_pos tn_name tn_pos].
  rewrite A2, A1. set (A := d_attrs (c_doc c)).
  set (d4 := set_attrs d2 (A ++ new)).
  destruct (get_ns_ns d4 r sc (p + 1) (sl (p + 1) (p + 1 + blen (q_prefix name)))) as (tns & E4 & U4).
  { rewrite (bindings_of_same d2 d4 r eq_refl eq_refl). exact B2. }
  { exact R1. } { exact R2. } { exact Hxml2. } { rewrite Sp. exact N2e. }
  rewrite Sp in U4.
  assert (Hnew : length new = length T) by (clear - F3; induction F3; cbn [length]; lia).
  set (ar := attr_range A T).
  set (kind := KElement tns (sl (p + 1 + q_off name) (p + 1 + blen (r_qname name))) ar r).
  assert (Hkm : forall m d', DocExt d4 d' ->
            kmn d' (Some (c_parent_id c), kind)
                (c_parent_id c, VElem (ns_of (Scope.resolve_elem sc (q_prefix name))) (q_local name) (sem_attrs sc es) sc m)).
  { intros m d' HE. apply (kmn_ext d4 d' _ _ HE). split; [reflexivity|]. cbn [snd kind].
    split; [exact U4|]. split; [exact Sl|]. split.
    - unfold ar. rewrite <- Tsem. apply (attrs_of_new d2 d4 sc A T new); [reflexivity|exact F3|apply NsExt_same; reflexivity].
    - unfold ar, attr_range. cbn [d4 set_attrs d_attrs]. rewrite len_N_app.
      replace (len_N new) with (len_N T) by (unfold len_N; lia).
      split; [destruct T; cbn [fst snd]; lia|]. split; [destruct T; cbn [fst snd]; lia|].
      unfold scope_at. rewrite (bindings_of_same d2 d4 r eq_refl eq_refl). exact B2. }
  assert (Hext : NsExt (c_doc c) d2).
  { eapply NsExt_trans; [exact X1|]. split; [exists t2; exact Tr2|exists []; rewrite app_nil_r; exact V2]. }
  assert (Hcost : len_N (d_ns_tree d2) = len_N (d_ns_tree (c_doc c)) + own_cost own sc).
  { rewrite L2. unfold own_cost. rewrite (cn_ns _ _ I). change (c_doc c0) with (c_doc c) in L1.
    unfold sc. clear - L1. clearbody own. destruct own; [rewrite L1; change (len_N []) with 0; lia|reflexivity]. }
  assert (Hinv2 : NsInv d2) by (apply (NsInv_same d1 d2 (ti_inv _ _ _ T1) Ok2 V2)).
  rewrite E4. cbn [bind].
  destruct empty; cbv iota; cbn [bind]; fold kind;
  (match goal with |- context [append_node kind ?rg ?cc] =>
    destruct (append_node_ok kind rg cc) as (nodes' & E & M & Ln);
      [cbn; rewrite Nd2, Nd1; apply (cn_pid _ _ I)|cbn; rewrite Nd2, Nd1; apply (cn_aw _ _ I)
      |unfold room in *; cbn; rewrite Nd2, Nd1; exact R|]; rewrite E; clear E end);
  cbn [bind]; cbn in M, Ln; rewrite Nd2, Nd1 in M, Ln; fold (absn (c_doc c)) in M.
  - eexists. exists kind, new. split; [reflexivity|].
    match goal with |- Step0n c ?c' _ _ /\ _ => assert (S : Step0n c c' [(Some (c_parent_id c), kind)] new) end.
    { constructor.
      - repeat split.
      - cbn. symmetry. apply (cn_cur _ _ I).
      - exact M.
      - reflexivity.
      - exact Hext. }
    split; [exact S|]. split; [rewrite Hnew, <- (map_length (tview sc) T), Tsem; reflexivity|].
    split; [intros m; apply Hkm; cbn; apply DocExt_same; reflexivity|].
    split; [reflexivity|]. split.
    { unfold tn_set. cbn. unfold slice_len. cbn [sl sl_start sl_end]. rewrite r_qname_len.
      destruct (wf_qname_parts _ Hn) as [_ Hl]. destruct (q_local name); [discriminate|]. rewrite blen_cons. lia. }
    split; [exact Hcost|].
    split; [|split; reflexivity].
    eapply CIn_intro; [exact I|exact S| | | | | | | |].
    + reflexivity.
    + apply (NsInv_same2 d2); [exact Hinv2|reflexivity|reflexivity].
    + cbn. apply (cn_pp _ _ I).
    + cbn. rewrite Ln. pose proof (cn_pid _ _ I). lia.
    + cbn. exists par, k. split.
      * unfold absn. cbn. rewrite M. rewrite nth_error_app1; [exact Epar|].
        pose proof (cn_pid _ _ I) as Hp. rewrite <- absn_len in Hp. unfold len_N in Hp. lia.
      * apply (par_ok_ext (c_doc c)); [|exact Hpar]. eapply NsExt_trans; [exact Hext|apply NsExt_same; reflexivity].
    + apply (cn_uniq _ _ I).
    + unfold kind. cbn. constructor; [|constructor]. rewrite Ln, Nd2, Nd1. lia.
    + cbn. lia.
  - eexists. exists kind, new. split; [reflexivity|].
    match goal with |- Step0n c ?c' _ _ /\ _ => assert (S : Step0n c c' [(Some (c_parent_id c), kind)] new) end.
    { constructor.
      - repeat split.
      - cbn. symmetry. apply (cn_cur _ _ I).
      - exact M.
      - reflexivity.
      - exact Hext. }
    split; [exact S|]. split; [rewrite Hnew, <- (map_length (tview sc) T), Tsem; reflexivity|].
    split; [intros m; apply Hkm; cbn; apply DocExt_same; reflexivity|].
    split; [reflexivity|]. split.
    { unfold tn_set. cbn. unfold slice_len. cbn [sl sl_start sl_end]. rewrite r_qname_len.
      destruct (wf_qname_parts _ Hn) as [_ Hl]. destruct (q_local name); [discriminate|]. rewrite blen_cons. lia. }
    split; [exact Hcost|].
    split; [|split; [cbn; rewrite Nd2, Nd1; reflexivity|split; reflexivity]].
    eapply CIn_intro; [exact I|exact S| | | | | | | |].
    + reflexivity.
    + apply (NsInv_same2 d2); [exact Hinv2|reflexivity|reflexivity].
    + cbn. destruct (c_parent_prefixes c); discriminate.
    + cbn. rewrite Ln, Nd2, Nd1. lia.
    + cbn. exists (Some (c_parent_id c)), kind. split.
      * unfold absn. cbn. rewrite M, Nd2, Nd1.
        replace (N.to_nat (len_N (d_nodes (c_doc c)))) with (length (absn (c_doc c)))
          by (unfold absn, len_N; rewrite map_length; lia).
        rewrite nth_error_app2 by lia. rewrite Nat.sub_diag. reflexivity.
      * cbn [par_ok kind]. split; [transitivity (SP.bindings_of text d2 r); [apply bindings_of_same; reflexivity|exact B2]|]. split; [exact R1|exact R2].
    + apply SP.scope_prefixes_unique; [exact N6|apply (cn_uniq _ _ I)].
    + cbn. constructor.
    + cbn. lia.
Qed.


Lemma close_tag_ok_ns inh sc pfx loc r c opid ns lsl ar nss name pp px :
  CIn sc c ->
  nth_error (absn (c_doc c)) (N.to_nat (c_parent_id c)) = Some (Some opid, KElement ns lsl ar nss) ->
  slice_bytes text lsl = q_local name -> slice_bytes text loc = q_local name ->
  slice_bytes text pfx = q_prefix name ->
  c_parent_prefixes c = pp ++ [px] -> pp <> [] -> slice_bytes text px = q_prefix name ->
  tn_set c ->
  opid < len_N (d_nodes (c_doc c)) ->
  (exists par k, nth_error (absn (c_doc c)) (N.to_nat opid) = Some (par, k) /\ par_ok (c_doc c) inh k) ->
  Scope.prefixes_unique inh = true ->
  exists c', ev (TElementEnd (EClose pfx loc) r) c = Ok c' /\
    Step0n c c' [] [] /\ CIn inh c' /\ c_parent_id c' = opid /\ c_parent_prefixes c' = pp /\
    c_after_text c' = [] /\ c_tag_name c' = c_tag_name c /\ d_ns_tree (c_doc c') = d_ns_tree (c_doc c).
Proof.
  intros I Erow Hl Hloc Hpfx Hpp Hppne Hpx Htn Hop Hopar Hu.
  unfold tok_ev, Parse.token. cbn [token_with].
  rewrite reset_after_text_ok by apply (cn_at _ _ I). cbn [bind].
  unfold process_element. cbn [c_tag_name set_after_text].
  unfold tn_set in Htn. apply N.eqb_neq in Htn. rewrite Htn.
  pose proof Erow as Erow'. apply nth_error_map_inv in Erow'. destruct Erow' as (pnd & Epnd & Eabs).
  unfold abs_nd in Eabs. injection Eabs as Epar Ekind.
  unfold resolve_namespaces. cbv zeta. cbn [c_doc c_parent_id set_after_text c_ns_start_idx].
  rewrite nth_N_lt by apply (cn_pid _ _ I). rewrite Epnd. cbn [bind]. rewrite Ekind.
  rewrite (cn_ns _ _ I), N.eqb_refl. cbn [bind].
  rewrite resolve_attributes_nil by (cbn; apply (cn_cur _ _ I)). cbn [bind].
  cbn [c_parent_prefixes c_entity_floor set_ns_start_idx set_after_text c_doc c_parent_id].
  rewrite (cn_floor _ _ I), Hpp.
  replace (len_N (pp ++ [px]) <=? 0) with false by (rewrite len_N_app; unfold len_N; cbn; lia).
  rewrite nth_N_lt by apply (cn_pid _ _ I). rewrite Epnd. cbn [bind]. rewrite rev_unit. cbn [bind].
  destruct (upd_node_ok (d_nodes (c_doc c)) (c_parent_id c) (fun nd => nd_set_range_end nd (snd r)))
    as (nodes' & E & M); [apply (cn_pid _ _ I)|intros nd; reflexivity|].
  rewrite E. cbn [bind].
  rewrite Ekind, Hpx, Hpfx, Hloc, Hl. rewrite !bytes_eqb_refl. cbn [negb orb bind].
  rewrite Epar. cbn [c_parent_prefixes set_awaiting set_doc set_ns_start_idx set_after_text c_awaiting c_parent_id].
  rewrite Hpp, removelast_snoc.
  destruct pp as [|p0 pp0]; [congruence|].
  eexists. split; [reflexivity|].
  match goal with |- Step0n c ?c' _ _ /\ _ => assert (S : Step0n c c' [] []) end.
  { constructor.
    - repeat split.
    - reflexivity.
    - unfold absn. cbn. rewrite M, app_nil_r. reflexivity.
    - cbn. rewrite app_nil_r. reflexivity.
    - apply NsExt_same; reflexivity. }
  split; [exact S|]. split; [|repeat split].
  eapply CIn_intro; [exact I|exact S| | | | | | | |].
  - reflexivity.
  - apply (NsInv_same2 (c_doc c)); [apply (cn_inv _ _ I)|reflexivity|reflexivity].
  - cbn. discriminate.
  - cbn. rewrite (map_len_N _ _ _ M). exact Hop.
  - cbn. destruct Hopar as (par & k & Ek & Hk). exists par, k. split.
    + unfold absn. cbn. rewrite M. exact Ek.
    + apply (par_ok_ext (c_doc c)); [apply NsExt_same; reflexivity|exact Hk].
  - exact Hu.
  - cbn. rewrite (map_len_N _ _ _ M). apply Forall_app. split; [apply (cn_aw _ _ I)|].
    constructor; [apply (cn_pid _ _ I)|constructor].
  - cbn. lia.
Qed.

End Ns.

Print Assumptions start_tag_ok_ns.
Print Assumptions close_tag_ok_ns.
