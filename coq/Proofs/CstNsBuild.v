(* Proofs/CstNsBuild.v -- C06, builder completeness with namespaces: the effect of the real
   callback [Parse.token] on the tokens of the productions of Spec/CstNs.v. *)
From Coq Require Import Ascii String.
From Coq Require Import List NArith PeanoNat Bool Lia ZifyBool ZifyN ZifyNat.
Import ListNotations.
From RX Require Import Generated.
From RX.Model Require Import Base CharClass Stream Tokenizer Doc Builder Parse.
From RX.Spec Require Cst Scope CstNs.
From RX.Proofs Require Import Tactics CstLex CstBuild CstNsLex CstNsView.
From RX.Proofs Require ScopeProofs.
Module SP := ScopeProofs.
Open Scope N_scope.

Import CstNs.

(* lia without the boolean hypotheses (they only slow zify down) *)
Ltac clia := repeat match goal with H : @eq bool _ true |- _ => clear H end; lia.

(* ------------------------------------------------------------------------------------------ *)
(* the namespace table only grows                                                             *)
(* ------------------------------------------------------------------------------------------ *)

Definition NsExt (d d' : document) : Prop :=
  (exists t, d_ns_tree d' = d_ns_tree d ++ t) /\ (exists v, d_ns_values d' = d_ns_values d ++ v).

Lemma NsExt_refl d : NsExt d d.
Proof. split; exists []; rewrite app_nil_r; reflexivity. Qed.

Lemma NsExt_same d d' : d_ns_tree d' = d_ns_tree d -> d_ns_values d' = d_ns_values d -> NsExt d d'.
Proof. intros H1 H2. split; exists []; rewrite app_nil_r; assumption. Qed.

Lemma NsExt_trans d1 d2 d3 : NsExt d1 d2 -> NsExt d2 d3 -> NsExt d1 d3.
Proof.
  intros [[t1 T1] [v1 V1]] [[t2 T2] [v2 V2]]. split.
  - exists (t1 ++ t2). rewrite T2, T1, app_assoc. reflexivity.
  - exists (v1 ++ v2). rewrite V2, V1, app_assoc. reflexivity.
Qed.

Lemma NsExt_tree_len d d' : NsExt d d' -> len_N (d_ns_tree d) <= len_N (d_ns_tree d').
Proof. intros [[t T] _]. rewrite T, len_N_app. lia. Qed.

Lemma nth_N_app_old {A} (l r : list A) i x : nth_N l i = Some x -> nth_N (l ++ r) i = Some x.
Proof.
  unfold nth_N. rewrite len_N_app. destruct (len_N l <=? i) eqn:E; [discriminate|]. intros H.
  replace (len_N l + len_N r <=? i) with false by lia. rewrite nth_error_app1; [exact H|].
  unfold len_N in E. lia.
Qed.

Lemma NoDup_snoc {A} (l : list A) x : NoDup l -> ~ In x l -> NoDup (l ++ [x]).
Proof.
  induction l as [|y l IH]; intros N H; cbn [app]; [constructor; [intros []|constructor]|].
  inversion N as [|? ? Hy N2]; subst. constructor.
  - intros K. apply in_app_or in K. destruct K as [K|[K|[]]]; [exact (Hy K)|]. subst y. apply H. left. reflexivity.
  - apply IH; [exact N2|]. intros K. apply H. right. exact K.
Qed.

Section Ns.
Variable text : bytes.

Lemma ns_uri_opt_ext d d' i u : NsExt d d' -> ns_uri_opt text d i = Some u -> ns_uri_opt text d' i = Some u.
Proof.
  intros [_ [v V]] H. unfold ns_uri_opt in *. destruct i as [i|]; [|exact H].
  destruct (nth_N (d_ns_values d) i) as [x|] eqn:E; [|discriminate].
  rewrite V, (nth_N_app_old _ v _ _ E). exact H.
Qed.

Lemma binding_at_ext d d' p x : NsExt d d' -> SP.binding_at text d p = Some x -> SP.binding_at text d' p = Some x.
Proof.
  intros [[t T] [v V]] H. unfold SP.binding_at in *.
  destruct (nth_N (d_ns_tree d) p) as [vi|] eqn:E; [|discriminate].
  rewrite T, (nth_N_app_old _ t _ _ E).
  destruct (nth_N (d_ns_values d) vi) as [w|] eqn:E2; [|discriminate].
  rewrite V, (nth_N_app_old _ v _ _ E2). exact H.
Qed.

Lemma bindings_of_list_ext' d d' : NsExt d d' -> forall ps l,
  SP.bindings_of_list text d ps = Some l -> SP.bindings_of_list text d' ps = Some l.
Proof.
  intros HE. induction ps as [|p r IH]; intros l H; cbn [SP.bindings_of_list] in *; [exact H|].
  destruct (SP.binding_at text d p) as [x|] eqn:E; [|discriminate].
  destruct (SP.bindings_of_list text d r) as [l'|] eqn:E2; [|discriminate].
  rewrite (binding_at_ext _ _ _ _ HE E), (IH _ eq_refl). exact H.
Qed.

Lemma bindings_of_ext d d' r l : NsExt d d' -> SP.bindings_of text d r = Some l -> SP.bindings_of text d' r = Some l.
Proof. intros HE. apply bindings_of_list_ext'. exact HE. Qed.

Lemma bindings_of_list_length d : forall ps l, SP.bindings_of_list text d ps = Some l -> length l = length ps.
Proof.
  induction ps as [|p r IH]; intros l H; cbn [SP.bindings_of_list] in H; [injection H as <-; reflexivity|].
  destruct (SP.binding_at text d p); [|discriminate].
  destruct (SP.bindings_of_list text d r) as [l'|]; [|discriminate]. injection H as <-.
  cbn [length]. rewrite (IH _ eq_refl). reflexivity.
Qed.

Lemma N_range_length a n : length (N_range a n) = n.
Proof. revert a. induction n as [|n IH]; intros a; [reflexivity|]. cbn [N_range length]. rewrite IH. reflexivity. Qed.

Lemma bindings_of_length d a e l : SP.bindings_of text d (a, e) = Some l -> length l = N.to_nat (e - a).
Proof. unfold SP.bindings_of. cbn [fst snd]. intros H. rewrite (bindings_of_list_length _ _ _ H), N_range_length. reflexivity. Qed.

(* ------------------------------------------------------------------------------------------ *)
(* the namespace table and the declarations of the document                                    *)
(* ------------------------------------------------------------------------------------------ *)

(* D: every declaration of the document; at most 65535 distinct ones *)
Variable D : list Scope.binding.
Hypothesis HD : forall l, NoDup l -> incl l D -> N.of_nat (length l) <= 65535.

Definition pair_of (v : namespace) : Scope.binding := (ns_name_bytes text v, storage_bytes text (ns_uri v)).

Record NsInv (d : document) : Prop := {
  nsi_ok : SP.ns_ok d;
  nsi_xml : nth_error (d_ns_values d) 0 = Some xml_ns;
  nsi_nodup : NoDup (map pair_of (d_ns_values d));
  nsi_incl : incl (map pair_of (tl (d_ns_values d))) D
}.

Lemma find_ns_none name uri : forall vals i, find_ns text vals name uri i = None ->
  ~ In (name, uri) (map pair_of vals).
Proof.
  induction vals as [|v r IH]; intros i H; cbn [find_ns] in H; [intros []|].
  destruct (opt_str_eqb (ns_name_bytes text v) name && bytes_eqb (storage_bytes text (ns_uri v)) uri) eqn:E;
    [discriminate|].
  cbn [map In]. intros [K|K].
  - unfold pair_of in K. injection K as K1 K2. rewrite K1, K2 in E.
    rewrite (proj2 (SP.opt_str_eqb_eq name name) eq_refl), (proj2 (SP.bytes_eqb_eq uri uri) eq_refl) in E. discriminate.
  - exact (IH _ H K).
Qed.

Lemma push_ns_ok name uri d :
  NsInv d -> In (match name with Some s => Some (str_bytes text s) | None => None end, storage_bytes text uri) D ->
  exists d', push_ns text name uri d = Ok d' /\ d_nodes d' = d_nodes d /\ d_attrs d' = d_attrs d /\
    NsExt d d' /\ NsInv d' /\ len_N (d_ns_tree d') = len_N (d_ns_tree d) + 1 /\
    SP.binding_at text d' (len_N (d_ns_tree d)) =
      Some (match name with Some s => Some (str_bytes text s) | None => None end, storage_bytes text uri).
Proof.
  intros I HinD. set (pr := (match name with Some s => Some (str_bytes text s) | None => None end, storage_bytes text uri)) in *.
  assert (Hok : exists d', push_ns text name uri d = Ok d' /\ d_nodes d' = d_nodes d /\ d_attrs d' = d_attrs d /\
            NsExt d d' /\ nth_error (d_ns_values d') 0 = Some xml_ns /\
            NoDup (map pair_of (d_ns_values d')) /\ incl (map pair_of (tl (d_ns_values d'))) D).
  { unfold push_ns.
    match goal with |- context [find_ns text (d_ns_values d) ?a ?b0 0] =>
      change (find_ns text (d_ns_values d) a b0 0) with (find_ns text (d_ns_values d) (fst pr) (snd pr) 0) end.
    destruct (find_ns text (d_ns_values d) (fst pr) (snd pr) 0) as [idx|] eqn:F.
    - eexists. split; [reflexivity|]. cbn. split; [reflexivity|]. split; [reflexivity|].
      split; [split; [eexists; reflexivity|exists []; rewrite app_nil_r; reflexivity]|].
      split; [apply (nsi_xml _ I)|]. split; [apply (nsi_nodup _ I)|apply (nsi_incl _ I)].
    - apply find_ns_none in F. change (fst pr, snd pr) with pr in F.
      destruct (d_ns_values d) as [|v0 vr] eqn:EV; [pose proof (nsi_xml _ I) as X; rewrite EV in X; discriminate|].
      assert (ND : NoDup (map pair_of vr ++ [pr])).
      { pose proof (nsi_nodup _ I) as N0. rewrite EV in N0. cbn [map] in N0. inversion N0 as [|? ? _ N1]; subst.
        apply NoDup_snoc; [exact N1|]. intros K. apply F. right. exact K. }
      assert (HI : incl (map pair_of vr ++ [pr]) D).
      { pose proof (nsi_incl _ I) as I0. rewrite EV in I0. cbn [tl] in I0.
        intros x Hx. apply in_app_or in Hx. destruct Hx as [Hx|[<-|[]]]; [apply I0; exact Hx|exact HinD]. }
      pose proof (HD _ ND HI) as Hlen. rewrite app_length, map_length in Hlen. cbn [length] in Hlen.
      replace (ns_values_limit <? len_N (v0 :: vr)) with false
        by (unfold ns_values_limit, len_N; cbn [length]; clear - Hlen; lia).
      eexists. split; [reflexivity|]. cbn. split; [reflexivity|]. split; [reflexivity|].
      split; [split; [eexists; reflexivity|exists [{| ns_name := name; ns_uri := uri |}]; cbn; rewrite EV; reflexivity]|].
      split; [pose proof (nsi_xml _ I) as X; rewrite EV in X; exact X|]. split.
      + rewrite map_app. cbn [map]. pose proof (nsi_nodup _ I) as N0. rewrite EV in N0. cbn [map] in N0.
        change (pair_of v0 :: map pair_of vr ++ [pair_of {| ns_name := name; ns_uri := uri |}])
          with ((pair_of v0 :: map pair_of vr) ++ [pr]).
        apply NoDup_snoc; [exact N0|exact F].
      + rewrite map_app. exact HI. }
  destruct Hok as (d' & E & E1 & E2 & E3 & E4 & E5 & E6).
  destruct (SP.push_ns_appends text name uri d d' (nsi_ok _ I) E) as (O1 & O2 & O3 & _).
  exists d'. split; [exact E|]. split; [exact E1|]. split; [exact E2|]. split; [exact E3|].
  split; [constructor; assumption|]. split; assumption.
Qed.


(* ------------------------------------------------------------------------------------------ *)
(* the invariant of the context between two tokens, outside a tag                              *)
(* ------------------------------------------------------------------------------------------ *)

Hypothesis Hascii : Forall (fun x => x < 128) text.
Notation W := (CstLex.W text).
Notation ev := (tok_ev text).

(* the node with the kind k is a possible parent whose scope is inh *)
Definition par_ok (d : document) (inh : list Scope.binding) (k : node_kind) : Prop :=
  match k with
  | KRoot => inh = []
  | KElement _ _ _ nss =>
    SP.bindings_of text d nss = Some inh /\ fst nss <= snd nss /\ snd nss <= len_N (d_ns_tree d)
  | _ => False
  end.

Lemma par_ok_ext d d' inh k : NsExt d d' -> par_ok d inh k -> par_ok d' inh k.
Proof.
  intros HE. destruct k; cbn [par_ok]; auto. intros (H1 & H2 & H3).
  split; [apply (bindings_of_ext _ _ _ _ HE H1)|]. split; [exact H2|].
  pose proof (NsExt_tree_len _ _ HE). lia.
Qed.

Record CIn (inh : list Scope.binding) (c : context) : Prop := {
  cn_ns : c_ns_start_idx c = len_N (d_ns_tree (c_doc c));
  cn_inv : NsInv (c_doc c);
  cn_floor : c_entity_floor c = 0;
  cn_cur : c_cur_attrs c = [];
  cn_pp : c_parent_prefixes c <> [];
  cn_pid : c_parent_id c < len_N (d_nodes (c_doc c));
  cn_aw : Forall (fun i => i < len_N (d_nodes (c_doc c))) (c_awaiting c);
  cn_par : exists par k, nth_error (absn (c_doc c)) (N.to_nat (c_parent_id c)) = Some (par, k) /\
                         par_ok (c_doc c) inh k;
  cn_uniq : Scope.prefixes_unique inh = true;
  cn_at : (length (c_after_text c) <= 1)%nat
}.

Definition Keepn (c c' : context) : Prop :=
  c_opt c' = c_opt c /\ c_entities c' = c_entities c /\ c_entity_floor c' = c_entity_floor c /\ c_ld c' = c_ld c.

Record Step0n (c c' : context) (K : list row) (ext : list attr_data) : Prop := {
  sn_keep : Keepn c c';
  sn_cur : c_cur_attrs c' = c_cur_attrs c;
  sn_nodes : absn (c_doc c') = absn (c_doc c) ++ K;
  sn_attrs : d_attrs (c_doc c') = d_attrs (c_doc c) ++ ext;
  sn_ns : NsExt (c_doc c) (c_doc c')
}.
Definition Stepn (c c' : context) (K : list row) (ext : list attr_data) : Prop :=
  Step0n c c' K ext /\ c_parent_id c' = c_parent_id c /\ c_parent_prefixes c' = c_parent_prefixes c.

Lemma Step0n_refl c : Step0n c c [] [].
Proof. constructor; try reflexivity; try (rewrite app_nil_r; reflexivity); [repeat split|apply NsExt_refl]. Qed.

Lemma Step0n_trans c1 c2 c3 K1 K2 e1 e2 :
  Step0n c1 c2 K1 e1 -> Step0n c2 c3 K2 e2 -> Step0n c1 c3 (K1 ++ K2) (e1 ++ e2).
Proof.
  intros [A1 A2 A3 A4 A5] [B1 B2 B3 B4 B5]. constructor.
  - unfold Keepn in *. intuition congruence.
  - congruence.
  - rewrite B3, A3, app_assoc. reflexivity.
  - rewrite B4, A4, app_assoc. reflexivity.
  - eapply NsExt_trans; eassumption.
Qed.

Lemma Stepn_refl c : Stepn c c [] [].
Proof. split; [apply Step0n_refl|auto]. Qed.

Lemma Stepn_trans c1 c2 c3 K1 K2 e1 e2 : Stepn c1 c2 K1 e1 -> Stepn c2 c3 K2 e2 -> Stepn c1 c3 (K1 ++ K2) (e1 ++ e2).
Proof. intros [A [A1 A2]] [B0 [B1 B2]]. split; [eapply Step0n_trans; eassumption|]. split; congruence. Qed.

Lemma Step0n_len c c' K ext : Step0n c c' K ext ->
  len_N (d_nodes (c_doc c')) = len_N (d_nodes (c_doc c)) + len_N K.
Proof. intros H. rewrite <- !absn_len, (sn_nodes _ _ _ _ H), len_N_app. reflexivity. Qed.

Lemma CIn_intro inh inh' c c' K ext : CIn inh c -> Step0n c c' K ext ->
  c_ns_start_idx c' = len_N (d_ns_tree (c_doc c')) -> NsInv (c_doc c') ->
  c_parent_prefixes c' <> [] ->
  c_parent_id c' < len_N (d_nodes (c_doc c')) ->
  (exists par k, nth_error (absn (c_doc c')) (N.to_nat (c_parent_id c')) = Some (par, k) /\ par_ok (c_doc c') inh' k) ->
  Scope.prefixes_unique inh' = true ->
  Forall (fun i => i < len_N (d_nodes (c_doc c'))) (c_awaiting c') ->
  (length (c_after_text c') <= 1)%nat -> CIn inh' c'.
Proof.
  intros I S Hns Hinv Hpp Hpid Hpar Hu Haw Hat. destruct (sn_keep _ _ _ _ S) as (K1 & K2 & K3 & K4).
  constructor; try assumption.
  - rewrite K3. apply (cn_floor _ _ I).
  - rewrite (sn_cur _ _ _ _ S). apply (cn_cur _ _ I).
Qed.

(* a step that keeps the parent and the namespace table *)
Lemma CIn_step inh c c' K ext : CIn inh c -> Stepn c c' K ext ->
  d_ns_tree (c_doc c') = d_ns_tree (c_doc c) -> d_ns_values (c_doc c') = d_ns_values (c_doc c) ->
  c_ns_start_idx c' = c_ns_start_idx c ->
  Forall (fun i => i < len_N (d_nodes (c_doc c'))) (c_awaiting c') ->
  (length (c_after_text c') <= 1)%nat -> CIn inh c'.
Proof.
  intros I [S [P1 P2]] Ht Hv Hs Haw Hat. pose proof (Step0n_len _ _ _ _ S) as L.
  eapply CIn_intro; [exact I|exact S| | | | | | | |]; try assumption.
  - rewrite Hs, Ht. apply (cn_ns _ _ I).
  - destruct (cn_inv _ _ I) as [N1 N2 N3 N4]. constructor.
    + unfold SP.ns_ok. rewrite Ht, Hv. exact N1.
    + rewrite Hv. exact N2.
    + rewrite Hv. exact N3.
    + rewrite Hv. exact N4.
  - rewrite P2. apply (cn_pp _ _ I).
  - rewrite P1, L. pose proof (cn_pid _ _ I). lia.
  - destruct (cn_par _ _ I) as (par & k & E & Hk). exists par, k. split.
    + rewrite P1, (sn_nodes _ _ _ _ S). rewrite nth_error_app1; [exact E|].
      pose proof (cn_pid _ _ I) as Hp. rewrite <- absn_len in Hp. unfold len_N in Hp. lia.
    + apply (par_ok_ext _ _ _ _ (sn_ns _ _ _ _ S) Hk).
  - apply (cn_uniq _ _ I).
Qed.

(* ---- leaves ---- *)
Lemma leaf_ok_n inh kind r c : CIn inh c -> room c -> is_element_kind kind = false ->
  exists c',
    (let! c1 := reset_after_text text c in let! (_, c2) := append_node kind r c1 in Ok c2) = Ok c' /\
    Stepn c c' [(Some (c_parent_id c), kind)] [] /\ CIn inh c' /\
    c_after_text c' = [] /\ c_tag_name c' = c_tag_name c /\ d_ns_tree (c_doc c') = d_ns_tree (c_doc c).
Proof.
  intros I R Hk. rewrite reset_after_text_ok by apply (cn_at _ _ I). cbn [bind].
  destruct (append_node_ok kind r (set_after_text c [])) as (nodes' & E & M & Ln);
    [apply (cn_pid _ _ I)|apply (cn_aw _ _ I)|exact R|].
  rewrite E. cbn [bind]. eexists. split; [reflexivity|].
  match goal with |- Stepn c ?c' _ _ /\ _ => assert (S : Stepn c c' [(Some (c_parent_id c), kind)] []) end.
  { split; [|split; reflexivity]. constructor.
    - repeat split.
    - reflexivity.
    - exact M.
    - cbn. rewrite app_nil_r. reflexivity.
    - apply NsExt_same; reflexivity. }
  split; [exact S|]. split; [|repeat split].
  eapply CIn_step; [exact I|exact S|reflexivity|reflexivity|reflexivity| |cbn; lia].
  rewrite Hk. cbn [c_awaiting set_awaiting c_doc set_doc d_nodes set_nodes].
  constructor; [|constructor]. rewrite Ln. cbn. lia.
Qed.

Lemma tokn_comment inh s r c : CIn inh c -> room c ->
  exists c', ev (TComment s r) c = Ok c' /\ Stepn c c' [(Some (c_parent_id c), KComment s)] [] /\ CIn inh c' /\
             c_after_text c' = [] /\ c_tag_name c' = c_tag_name c /\ d_ns_tree (c_doc c') = d_ns_tree (c_doc c).
Proof. intros I R. apply (leaf_ok_n inh (KComment s) r c I R). reflexivity. Qed.

Lemma tokn_pi inh t v r c : CIn inh c -> room c ->
  exists c', ev (TPI t v r) c = Ok c' /\ Stepn c c' [(Some (c_parent_id c), KPI t v)] [] /\ CIn inh c' /\
             c_after_text c' = [] /\ c_tag_name c' = c_tag_name c /\ d_ns_tree (c_doc c') = d_ns_tree (c_doc c).
Proof. intros I R. apply (leaf_ok_n inh (KPI t v) r c I R). reflexivity. Qed.

Lemma tokn_text inh t r c : CIn inh c -> room c -> c_after_text c = [] ->
  existsb (fun x => (x =? 38) || (x =? 13)) (slice_bytes text t) = false ->
  exists c', ev (TText t r) c = Ok c' /\
             Stepn c c' [(Some (c_parent_id c), KText (Borrowed (SIn t)))] [] /\ CIn inh c' /\
             c_tag_name c' = c_tag_name c /\ d_ns_tree (c_doc c') = d_ns_tree (c_doc c).
Proof.
  intros I R Hat Hb. unfold tok_ev, Parse.token. cbn [token_with]. unfold process_text, process_text_with.
  cbv zeta. rewrite Hb. cbn [negb]. unfold append_text. rewrite Hat.
  destruct (append_node_ok (KText (Borrowed (SIn t))) r c) as (nodes' & E & M & Ln);
    [apply (cn_pid _ _ I)|apply (cn_aw _ _ I)|exact R|].
  rewrite E. cbn [bind]. eexists. split; [reflexivity|].
  match goal with |- Stepn c ?c' _ _ /\ _ => assert (S : Stepn c c' [(Some (c_parent_id c), KText (Borrowed (SIn t)))] []) end.
  { split; [|split; reflexivity]. constructor.
    - repeat split.
    - reflexivity.
    - exact M.
    - cbn. rewrite app_nil_r. reflexivity.
    - apply NsExt_same; reflexivity. }
  split; [exact S|]. split; [|split; reflexivity].
  eapply CIn_step; [exact I|exact S|reflexivity|reflexivity|reflexivity| |cbn; rewrite Hat; cbn; lia].
  cbn [c_awaiting set_awaiting set_after_text c_doc set_doc d_nodes set_nodes is_element_kind].
  constructor; [|constructor]. rewrite Ln. cbn. lia.
Qed.


(* ------------------------------------------------------------------------------------------ *)
(* start-tag entries: attributes are collected, declarations go to the namespace table         *)
(* ------------------------------------------------------------------------------------------ *)

Definition ta_e (q : N) (e : entry) : temp_attr :=
  let l := e_layout e in
  let start := q + blen (l_ws l) in
  let ne := start + blen (r_qname (e_qname e)) in
  let eqe := ne + blen (l_ws1 l) + 1 + blen (l_ws2 l) in
  let vs := eqe + 1 in
  let ve := vs + blen (e_value e) in
  {| ta_prefix := sl start (start + blen (q_prefix (e_qname e))); ta_local := sl (start + q_off (e_qname e)) ne;
     ta_value := Borrowed (SIn (sl vs ve)); ta_range := (start, ve + 1);
     ta_qname_len := N.min (ne - start) qname_len_sat; ta_eq_len := N.min (eqe - ne) eq_len_sat |}.

Fixpoint tas_n (q : N) (es : list entry) : list temp_attr :=
  match es with
  | [] => []
  | e :: r => match e with EAttr _ _ _ => [ta_e q e] | EDecl _ _ _ => [] end ++ tas_n (q + blen (r_entry e)) r
  end.

Lemma qname_slices p q l : W p (r_qname q ++ l) ->
  slice_bytes text (sl p (p + blen (q_prefix q))) = q_prefix q /\
  slice_bytes text (sl (p + q_off q) (p + blen (r_qname q))) = q_local q.
Proof.
  intros HW. pose proof (r_qname_len q) as Hlen. unfold r_qname, q_off in *.
  destruct (q_prefix q) as [|c x].
  - change (blen []) with 0. rewrite !N.add_0_r. split; [apply slice_empty|apply (W_slice _ _ _ _ HW)].
  - rewrite <- !app_assoc in HW. split; [apply (W_slice _ _ _ _ HW)|].
    pose proof (W_app _ _ _ _ HW) as H1. pose proof (W_app _ _ _ _ H1) as H2. change (blen [58]) with 1 in H2.
    rewrite Hlen. replace (p + (blen (c :: x) + 1 + blen (q_local q))) with (p + blen (c :: x) + 1 + blen (q_local q)) by lia.
    replace (p + (blen (c :: x) + 1)) with (p + blen (c :: x) + 1) by lia. apply (W_slice _ _ _ _ H2).
Qed.

Lemma entry_slices q e more : W q (r_entry e ++ more) ->
  slice_bytes text (ta_prefix (ta_e q e)) = q_prefix (e_qname e) /\
  slice_bytes text (ta_local (ta_e q e)) = q_local (e_qname e) /\
  storage_bytes text (ta_value (ta_e q e)) = e_value e.
Proof.
  intros HW. unfold ta_e. cbv zeta. cbn [ta_prefix ta_local ta_value storage_bytes str_bytes].
  unfold r_entry in HW. cbv zeta in HW. rewrite e_name_qname in HW. rewrite <- !app_assoc in HW.
  pose proof (W_app _ _ _ _ HW) as H1. destruct (qname_slices _ _ _ H1) as [S1 S2].
  pose proof (W_app _ _ _ _ H1) as H2. pose proof (W_app _ _ _ _ H2) as H3.
  pose proof (W_app _ _ _ _ H3) as H4. pose proof (W_app _ _ _ _ H4) as H5. pose proof (W_app _ _ _ _ H5) as H6.
  change (blen [61]) with 1 in *. change (blen [l_quote (e_layout e)]) with 1 in *.
  split; [exact S1|]. split; [exact S2|]. apply (W_slice _ _ _ _ H6).
Qed.

Lemma sb_eqb x y : Scope.bytes_eqb x y = bytes_eqb x y.
Proof. apply SP.scope_bytes_eqb. Qed.

Lemma value_no_refs q v : wf_value q v = true ->
  existsb (fun x => (x =? 38) || (x =? 9) || (x =? 10) || (x =? 13)) v = false.
Proof.
  unfold wf_value. induction v as [|x v IH]; [reflexivity|]. cbn [forallb existsb]. intros H.
  apply andb_true_iff in H. destruct H as [H1 H2]. rewrite IH by exact H2.
  assert (Hp : Cst.is_plain x = true) by lia. destruct (plain_char _ Hp) as (_ & _ & H13). lia.
Qed.

Lemma N_range_snoc a n : N_range a (S n) = N_range a n ++ [a + N.of_nat n].
Proof.
  revert a. induction n as [|n IH]; intros a; [cbn; rewrite N.add_0_r; reflexivity|].
  change (N_range a (S (S n))) with (a :: N_range (a + 1) (S n)). rewrite IH. cbn [N_range app].
  f_equal. f_equal. f_equal. lia.
Qed.

Lemma bindings_of_list_app d ps qs l m :
  SP.bindings_of_list text d ps = Some l -> SP.bindings_of_list text d qs = Some m ->
  SP.bindings_of_list text d (ps ++ qs) = Some (l ++ m).
Proof.
  revert l. induction ps as [|p r IH]; intros l H1 H2; cbn [SP.bindings_of_list app] in *.
  - injection H1 as <-. exact H2.
  - destruct (SP.binding_at text d p); [|discriminate].
    destruct (SP.bindings_of_list text d r) as [l'|]; [|discriminate]. injection H1 as <-.
    rewrite (IH _ eq_refl H2). reflexivity.
Qed.

Lemma bindings_of_push d d' start own1 x :
  NsExt d d' -> len_N (d_ns_tree d') = len_N (d_ns_tree d) + 1 ->
  SP.binding_at text d' (len_N (d_ns_tree d)) = Some x -> start <= len_N (d_ns_tree d) ->
  SP.bindings_of text d (start, len_N (d_ns_tree d)) = Some own1 ->
  SP.bindings_of text d' (start, len_N (d_ns_tree d')) = Some (own1 ++ [x]).
Proof.
  intros HE Hl Hb Hs Ho. apply (bindings_of_ext _ _ _ _ HE) in Ho. unfold SP.bindings_of in *. cbn [fst snd] in *.
  rewrite Hl. replace (N.to_nat (len_N (d_ns_tree d) + 1 - start)) with (S (N.to_nat (len_N (d_ns_tree d) - start))) by lia.
  rewrite N_range_snoc. apply bindings_of_list_app; [exact Ho|].
  cbn [SP.bindings_of_list]. replace (start + N.of_nat (N.to_nat (len_N (d_ns_tree d) - start))) with (len_N (d_ns_tree d)) by lia.
  rewrite Hb. reflexivity.
Qed.

(* the state inside a start tag: own1 are the bindings declared so far *)
Record TI (start : N) (own1 : list Scope.binding) (c : context) : Prop := {
  ti_start : c_ns_start_idx c = start;
  ti_le : start <= len_N (d_ns_tree (c_doc c));
  ti_inv : NsInv (c_doc c);
  ti_own : SP.bindings_of text (c_doc c) (start, len_N (d_ns_tree (c_doc c))) = Some own1;
  ti_noxml : Forall (fun b => fst b <> Some Scope.xml_prefix) own1
}.

Lemma ctx_eta c : set_doc (set_cur_attrs c (c_cur_attrs c ++ [])) (c_doc c) = c.
Proof. destruct c. cbn. rewrite app_nil_r. reflexivity. Qed.

Lemma ctx_eta2 c d : set_doc (set_cur_attrs c (c_cur_attrs c ++ [])) d = set_doc c d.
Proof. destruct c. cbn. rewrite app_nil_r. reflexivity. Qed.

Lemma wf_decl_parts l p u : wf_entry (EDecl l p u) = true ->
  (p = [] \/ Cst.wf_name p = true) /\ bytes_eqb p xmlns_str = false /\ bytes_eqb u ns_xmlns_uri = false /\
  (if bytes_eqb p ns_xml_prefix then bytes_eqb u ns_xml_uri = true else bytes_eqb u ns_xml_uri = false).
Proof.
  unfold wf_entry. rewrite !andb_true_iff. intros [_ [[[H1 H2] H3] H4]]. change Scope.bytes_eqb with bytes_eqb in H2, H3, H4.
  split; [destruct p; [left; reflexivity|right; exact H1]|].
  change xmlns_b with xmlns_str in H2. change xmlns_uri with ns_xmlns_uri in H3.
  change Scope.xml_prefix with ns_xml_prefix in H4. change Scope.xml_uri with ns_xml_uri in H4.
  split; [apply negb_true_iff; exact H2|]. split; [apply negb_true_iff; exact H3|].
  destruct (bytes_eqb p ns_xml_prefix); [exact H4|apply negb_true_iff; exact H4].
Qed.

Lemma tok_entry q e more c start own1 :
  W q (r_entry e ++ more) -> wf_entry e = true ->
  (forall b0, In b0 (own_bindings [e]) -> existsb (fun o => Scope.prefix_eqb (fst o) (fst b0)) own1 = false) ->
  incl (own_bindings [e]) D -> TI start own1 c ->
  exists d',
    ev (entry_tok q e) c = Ok (set_doc (set_cur_attrs c (c_cur_attrs c ++ tas_n q [e])) d') /\
    d_nodes d' = d_nodes (c_doc c) /\ d_attrs d' = d_attrs (c_doc c) /\ NsExt (c_doc c) d' /\
    TI start (own1 ++ own_bindings [e]) (set_doc (set_cur_attrs c (c_cur_attrs c ++ tas_n q [e])) d') /\
    len_N (d_ns_tree d') = len_N (d_ns_tree (c_doc c)) + len_N (own_bindings [e]).
Proof.
  intros HW Hwf Hfresh HinD T. destruct (entry_slices _ _ _ HW) as (S1 & S2 & S3).
  destruct (wf_entry_lex _ Hwf) as (_ & _ & _ & _ & _ & Hv & Hq).
  unfold tok_ev, Parse.token, entry_tok. cbv zeta. cbn [token_with].
  unfold ta_e in S1, S2, S3. cbv zeta in S1, S2, S3. cbn [ta_prefix ta_local ta_value storage_bytes str_bytes] in S1, S2, S3.
  unfold process_attribute, normalize_attribute. cbv zeta. rewrite S3.
  rewrite (value_no_refs _ _ Hv). cbn [bind storage_bytes str_bytes]. rewrite S1, S2, S3.
  cbn [tas_n]. rewrite app_nil_r.
  destruct e as [l n v|l p u]; cbn [e_qname e_value e_layout own_bindings flat_map app] in *.
  - (* an ordinary attribute *)
    unfold wf_entry in Hwf. rewrite !andb_true_iff in Hwf. destruct Hwf as [_ [[_ Hx1] Hx2]].
    change xmlns_b with xmlns_str in Hx1, Hx2. apply negb_true_iff in Hx1.
    change Scope.bytes_eqb with bytes_eqb in Hx1, Hx2. rewrite Hx1.
    replace ((slice_len (sl (q + blen (l_ws l)) (q + blen (l_ws l) + blen (q_prefix n))) =? 0)
             && bytes_eqb (q_local n) xmlns_str) with false.
    2:{ unfold slice_len. cbn [sl sl_start sl_end]. apply negb_true_iff in Hx2.
        destruct (q_prefix n) as [|x0 pr]; [rewrite Hx2; symmetry; apply andb_false_r|].
        rewrite blen_cons. replace (q + blen (l_ws l) + (1 + blen pr) - (q + blen (l_ws l)) =? 0) with false by lia. reflexivity. }
    exists (c_doc c). split.
    { reflexivity. }
    split; [reflexivity|]. split; [reflexivity|]. split; [apply NsExt_refl|]. rewrite app_nil_r. split.
    + destruct T as [T1 T2 T3 T4 T5]. constructor; assumption.
    + change (len_N []) with 0. lia.
  - (* a declaration *)
    destruct (wf_decl_parts _ _ _ Hwf) as (Hp & N3 & N4 & N5). destruct T as [T1 T2 T3 T4 T5].
    destruct p as [|x0 pr]; cbn [e_qname q_prefix q_local] in *.
    + (* xmlns="u" *)
      change (bytes_eqb [] xmlns_str) with false. cbv iota.
      unfold slice_len. cbn [sl sl_start sl_end]. change (blen []) with 0.
      replace (q + blen (l_ws l) + 0 - (q + blen (l_ws l)) =? 0) with true by lia.
      change (bytes_eqb xmlns_b xmlns_str) with true. cbn [andb].
      change (bytes_eqb [] ns_xml_prefix) with false in N5. cbv iota in N5. rewrite N5, N4.
      change (Scope.bytes_eqb [] Scope.xml_prefix) with false in *. cbv iota in *.
      rewrite T1. rewrite (SP.ns_exists_spec text (c_doc c) start None own1 T2 T4). cbn [bind].
      pose proof (Hfresh (None, u) (or_introl eq_refl)) as Hf.
      match goal with |- context [if existsb ?f own1 then _ else _] => replace (existsb f own1) with false by (symmetry; exact Hf) end. clear Hf.
      destruct (push_ns_ok None (Borrowed (SIn (sl (q + blen (l_ws l) + blen (r_qname {| q_prefix := []; q_local := xmlns_b |}) + blen (l_ws1 l) + 1 + blen (l_ws2 l) + 1)
                   (q + blen (l_ws l) + blen (r_qname {| q_prefix := []; q_local := xmlns_b |}) + blen (l_ws1 l) + 1 + blen (l_ws2 l) + 1 + blen u)))) (c_doc c) T3)
        as (d' & E & E1 & E2 & E3 & E4 & E5 & E6).
      { cbn [storage_bytes str_bytes]. rewrite S3. apply HinD. left. reflexivity. }
      cbn [storage_bytes str_bytes] in E6. rewrite S3 in E6.
      rewrite E. cbn [bind]. exists d'. rewrite ctx_eta2. split; [reflexivity|].
      split; [exact E1|]. split; [exact E2|]. split; [exact E3|]. split.
      * constructor; cbn [c_ns_start_idx c_doc set_doc set_cur_attrs]; try assumption.
        -- pose proof (NsExt_tree_len _ _ E3). lia.
        -- apply (bindings_of_push (c_doc c) d' start own1 (None, u)); assumption.
        -- apply Forall_app. split; [exact T5|]. constructor; [discriminate|constructor].
      * rewrite E5. reflexivity.
    + (* xmlns:p="u" *)
      set (p := x0 :: pr) in *.
      change (bytes_eqb xmlns_b xmlns_str) with true. cbv iota. rewrite N3, N4.
      change Scope.bytes_eqb with bytes_eqb in *. change Scope.xml_prefix with ns_xml_prefix in *.
      rewrite T1.
      assert (Hex : ns_exists text (c_doc c) start (@Some bytes p) =
                    Ok (existsb (fun o : Scope.binding => Scope.prefix_eqb (fst o) (Some p)) own1))
        by exact (SP.ns_exists_spec text (c_doc c) start (Some p) own1 T2 T4).
      rewrite Hex. clear Hex.
      destruct (bytes_eqb p ns_xml_prefix) eqn:Ex; cbn [app] in *.
      * (* xmlns:xml with the xml URI: nothing is stored *)
        rewrite N5. cbn [negb andb bind].
        assert (Hno : existsb (fun o : Scope.binding => Scope.prefix_eqb (fst o) (Some p)) own1 = false).
        { apply SP.existsb_prefix_false. intros o Ho. rewrite Forall_forall in T5. specialize (T5 o Ho).
          apply SP.bytes_eqb_eq in Ex. rewrite Ex. exact T5. }
        match goal with |- context [if existsb ?f own1 then _ else _] => replace (existsb f own1) with false by (symmetry; exact Hno) end.
        exists (c_doc c). rewrite ctx_eta2. split; [f_equal; destruct c; reflexivity|].
        split; [reflexivity|]. split; [reflexivity|]. split; [apply NsExt_refl|]. rewrite app_nil_r. split.
        -- constructor; assumption.
        -- change (len_N []) with 0. lia.
      * rewrite N5. cbn [negb andb bind].
        pose proof (Hfresh (Some p, u) (or_introl eq_refl)) as Hf.
        match goal with |- context [if existsb ?f own1 then _ else _] => replace (existsb f own1) with false by (symmetry; exact Hf) end. clear Hf.
        match goal with |- context [push_ns text ?nm ?st (c_doc c)] =>
          destruct (push_ns_ok nm st (c_doc c) T3) as (d' & E & E1 & E2 & E3 & E4 & E5 & E6) end.
        { cbn [storage_bytes str_bytes]. rewrite S2, S3. apply HinD. left. reflexivity. }
        cbn [storage_bytes str_bytes] in E6. rewrite S2, S3 in E6.
        rewrite E. cbn [bind]. exists d'. rewrite ctx_eta2. split; [reflexivity|].
        split; [exact E1|]. split; [exact E2|]. split; [exact E3|]. split.
        -- constructor; cbn [c_ns_start_idx c_doc set_doc set_cur_attrs]; try assumption.
           ++ pose proof (NsExt_tree_len _ _ E3). lia.
           ++ apply (bindings_of_push (c_doc c) d' start own1 (Some p, u)); assumption.
           ++ apply Forall_app. split; [exact T5|]. constructor; [|constructor]. cbn [fst]. intros K.
              apply (f_equal (fun o : option bytes => match o with Some y => y | None => [] end)) in K.
              apply (proj2 (SP.bytes_eqb_eq _ _)) in K. change Scope.xml_prefix with ns_xml_prefix in K. rewrite K in Ex. discriminate.
        -- rewrite E5. reflexivity.
Qed.

End Ns.
