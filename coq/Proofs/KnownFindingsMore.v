(* Proofs/KnownFindingsMore.v -- the known findings of the conformance audit (D15b, D27, D28, D29, D30) as closed theorems
   about the model: one witness each, by computation, stated without reference to the implementation -- plus, for D15b and
   D30, the characterisation at machine level.
   How they relate to the pinned theorems:
   - D15b (C07) is the second trigger of the mechanism of D15 (Proofs/KnownFindingsD15.v): an attribute value normalised at
     entity depth > 0 refuses &lt; ([lt_at_depth_refused], the statement of [d15_mechanism] for the inner loop; the value of a
     character-data entity used in an attribute is read by that loop at depth 1).  The inlining of the spec refuses it by name
     ([for_attr && existsb is_lt_ref q]), so the document is outside every fragment theorem.
   - D27 (C08): '%' in the value of a referenced entity is kept verbatim; SPECIFIED by stage S8 (Proofs/CstFullS8Main.v
     [parse_render_sem_full_s8]).  D28 (C08): colons in an entity name, a PI target, the DOCTYPE name.
   - D29 and D30 concern a CHARACTER REFERENCE to TAB, LF, CR, '&' or '<' written in an entity value.  XML expands it when the
     entity is declared, the crate when it is used.  The fragments exclude exactly these values by the condition (F)
     ([E.charref_ok_in_value], in wf of entity values: [d29_d30_outside_fragments]); the machine-level hoisting theorems
     (Proofs/HoistProofs.v [text_hoist_equiv], [attr_hoist_equiv]) are stated for a replacement text of LITERAL characters
     ([lits mid]) and do not apply.  For D30 NO proviso of those theorems fails and there is no contradiction: the theorem that
     describes the behaviour is Proofs/TextMachine.v [text_chunks_in_entity] -- at depth > 0 a referenced character is TEXT
     for the pairing of line ends (norm_eol over the decoded bytes), at depth 0 it is not ([text_chunks_decode_partial]) -- so
     the natural extension of text_hoist_equiv to values with references is false ([text_hoist_with_refs_refuted]). *)
From Coq Require Import Ascii String.
From Coq Require Import List NArith PeanoNat Bool Lia ZifyBool ZifyN ZifyNat.
Import ListNotations.
From RX Require Import Generated.
From RX.Model Require Import Base Stream Tokenizer Doc Builder Parse.
From RX.Spec Require Cst CstText CstEnt CstNs CstU Detector.
From RX.Spec Require Import Text CstFull CstFullS4 CstFullS6.
From RX.Proofs Require Import CstLex CstULex TextMachine HoistProofs CstTextLex CstTextBuild CstFullS2Lex CstFullS3Sem CstFullS3Text CstFullS3Attr.
From RX.Proofs Require Import CstNsView CstFullS6Sanity CstFullRejSem.
From RX.Proofs Require CstEntAttr PositionProofs.
Open Scope N_scope.

Definition opts := {| allow_dtd := true; nodes_limit := 1000 |}.
Definition elem (name : string) (attrs : list (option bytes * bytes * bytes)) (n : nat) : CstNs.vnode := CstNs.VElem None (b name) attrs [] n.

(* ------------------------------------------------------------------------------------------ *)
(* D15b: <!ENTITY e '&lt;'> used in an attribute value                                        *)
(* ------------------------------------------------------------------------------------------ *)
Definition d15b_text : bytes := b "<!DOCTYPE a [<!ENTITY e '&lt;'>]><a b='&e;'/>".
Definition d15b_inline : bytes := b "<a b='&lt;'/>".

Theorem d15b_refuted :
  exists pos x,
    parse d15b_text opts = Err (InvalidAttributeValue pos) /\               (* the reference to '<' through the entity: refused *)
    parse d15b_inline opts = Ok x /\                                        (* written in place: accepted, *)
    view d15b_inline x = Some [elem "a" [(None, b "b", b "<")] 0].          (* with the value "<" *)
Proof.
  assert (E1 : exists pos, parse d15b_text opts = Err (InvalidAttributeValue pos)) by (vm_compute; eexists; reflexivity).
  destruct E1 as [pos E1]. destruct (parse d15b_inline opts) as [x| | |] eqn:E2; [|vm_compute in E2; discriminate E2..].
  exists pos, x. split; [exact E1|]. split; [reflexivity|].
  revert E2. vm_compute. intros E2. injection E2 as <-. reflexivity.
Qed.

(* the mechanism of D15, for the loop that reads the value of an entity inside an attribute value *)
Section Mechanism.
Variable text : bytes.
Hypothesis Hvalid : valid_utf8_b text = true.

Lemma err_from_valid {A} p mk : exists tp, @err_from text A p mk = Err (mk tp).
Proof.
  unfold err_from, gen_text_pos_from, gen_text_pos_at.
  assert (Hle : N.min p (tlen text) <= tlen text) by lia.
  rewrite (PositionProofs.valid_floor_boundary text _ Hvalid Hle).
  pose proof (PositionProofs.floor_boundary_fuel_le text 4 (N.min p (tlen text))) as Hf. fold (floor_boundary text (N.min p (tlen text))) in Hf.
  replace (tlen text <? floor_boundary text (N.min p (tlen text))) with false by lia. cbn [orb negb bind].
  eexists. reflexivity.
Qed.

Lemma lt_at_depth_refused vs (bs rest more : bytes) (es : list entity) (lvl : nat) (t : text_buffer) (ld : loop_detector) :
  CstULex.WV text vs (bs ++ [38; 108; 116; 59] ++ rest ++ more) ->
  forallb (fun x => negb (x =? 38) && negb (x =? 60)) bs = true -> U8.Valid bs ->
  0 < ld_depth ld ->
  exists pos, norm_attr_lvl text (S lvl) es (sl vs (vs + blen (bs ++ [38; 108; 116; 59] ++ rest))) t ld = Err (InvalidAttributeValue pos).
Proof.
  intros HWv Hb Hvb Hd. pose proof (WV_W _ _ _ HWv) as HW.
  set (val := bs ++ [38; 108; 116; 59] ++ rest) in *.
  assert (HW' : CstLex.W text vs (val ++ more)) by (unfold val; rewrite <- !app_assoc; exact HW).
  rewrite norm_attr_lvl_unfold. cbn [sl sl_start sl_end].
  rewrite (stream_from_substr_W text vs val more HW'). cbn [bind].
  set (e := vs + blen val).
  pose proof (CstLex.W_le _ _ _ (CstLex.W_app _ _ _ _ HW')) as Hle. fold e in Hle.
  assert (Ee : vs + blen bs + 4 + blen rest = e) by (unfold e, val; rewrite !blen_app; change (blen [38; 108; 116; 59]) with 4; lia).
  cbn [sst s_rest]. unfold val at 2. rewrite <- !app_assoc.
  replace (S (length (val ++ more))) with (length bs + S (length ([38; 108; 116; 59]%N ++ rest ++ more)))%nat
    by (unfold val; rewrite !app_length; cbn [length]; lia).
  destruct (CstEntAttr.aloop_lit text es lvl ld e bs vs ([38; 108; 116; 59] ++ rest ++ more) t
              (S (length ([38; 108; 116; 59]%N ++ rest ++ more))) Hb ltac:(lia) ltac:(right; eexists; reflexivity)) as (t1 & _ & E1).
  rewrite E1. clear E1.
  pose proof (WV_app _ _ _ _ HWv Hvb) as HWv1.
  pose proof (cref_predef_u text e (vs + blen bs) T.Lt (rest ++ more) HWv1 ltac:(change (blen (T.r_piece (T.PPredef T.Lt))) with 4; lia) Hle) as Ec.
  cbn [T.r_piece T.predef_char] in Ec. cbn [app] in Ec |- *.
  cbn [attr_loop]. rewrite at_end_sst. replace (e <=? vs + blen bs) with false by lia.
  cbn [curr_byte_unchecked sst s_rest bind]. change (38 =? 38) with true. cbn [negb]. cbv zeta.
  match type of Ec with consume_reference text ?s = _ => match goal with |- context [consume_reference text ?s'] => change s' with s end end.
  rewrite Ec. cbn [bind].
  replace (0 <? ld_depth ld) with true by lia.
  change (encode_utf8 60) with [60]. cbn [push_char_bytes_attr]. change (60 =? 60) with true. cbv iota.
  match goal with |- context [err_from text ?a ?m] => destruct (@err_from_valid (text_buffer * loop_detector)%type a m) as [tp E] end.
  rewrite E. eauto.
Qed.

End Mechanism.

(* D15b is an instance: the value of e stands at 25..29 of the input; read at any positive depth it is refused *)
Example d15b_instance : forall es lvl t ld, 0 < ld_depth ld ->
  exists pos, norm_attr_lvl d15b_text (S lvl) es (sl 25 29) t ld = Err (InvalidAttributeValue pos).
Proof.
  intros es lvl t ld Hd.
  apply (lt_at_depth_refused d15b_text eq_refl 25 [] [] (b "'>]><a b='&e;'/>") es lvl t ld); [|reflexivity|constructor|exact Hd].
  split; [split; [vm_compute; reflexivity|vm_compute; reflexivity]|]. apply U8.valid_iff_Valid. vm_compute. reflexivity.
Qed.

(* ------------------------------------------------------------------------------------------ *)
(* D27, D28, D29: accepted                                                                    *)
(* ------------------------------------------------------------------------------------------ *)
Ltac accepted_with :=
  match goal with |- exists x, parse ?t ?o = Ok x /\ _ =>
    let E := fresh "E" in destruct (parse t o) as [x| | |] eqn:E; [|vm_compute in E; discriminate E..];
    exists x; split; [reflexivity|]; revert E; vm_compute; intros E; injection E as <-; reflexivity end.

(* D27: a '%' in the value of a referenced general entity (EntityValue, production [9], excludes it) *)
Definition d27_text : bytes := b "<!DOCTYPE a [<!ENTITY e 'x%y'>]><a>&e;</a>".
Theorem d27_refuted : exists x, parse d27_text opts = Ok x /\ view d27_text x = Some [elem "a" [] 1; CstNs.VText (b "x%y")].
Proof. accepted_with. Qed.

(* D28: colons where Namespaces in XML 1.0 requires an NCName (entity name, PI target) or a QName (DOCTYPE name) *)
Definition d28_text : bytes := b "<!DOCTYPE a:b:c [<!ENTITY a:b 'x'>]><a><?p:q r?>&a:b;</a>".
Theorem d28_refuted :
  exists x, parse d28_text opts = Ok x /\ view d28_text x = Some [elem "a" [] 2; CstNs.VPI (b "p:q") (Some (b "r")); CstNs.VText (b "x")].
Proof. accepted_with. Qed.

(* D29: &#38; in an entity value: XML expands it at the declaration, the replacement text "&" is then ill-formed where
   the entity is used; accepted, with the text "&" *)
Definition d29_text : bytes := b "<!DOCTYPE a [<!ENTITY e '&#38;'>]><a>&e;</a>".
Theorem d29_refuted : exists x, parse d29_text opts = Ok x /\ view d29_text x = Some [elem "a" [] 1; CstNs.VText (b "&")].
Proof. accepted_with. Qed.

(* ------------------------------------------------------------------------------------------ *)
(* D30: a literal CR followed by &#10; inside one entity value                                *)
(* ------------------------------------------------------------------------------------------ *)
(* [inline_of v pre post]: a document; [hoisted_of v pre post]: the same with the substring v routed through an entity *)
Definition inline_of (v pre post : bytes) : bytes := pre ++ v ++ post.
Definition hoisted_of (v pre post : bytes) : bytes := b "<!DOCTYPE a [<!ENTITY e '" ++ v ++ b "'>]>" ++ pre ++ b "&e;" ++ post.

Definition d30_value : bytes := [97; 13] ++ b "&#10;b".                  (* a CR &#10; b *)

Theorem d30_refuted :
  exists (v pre post : bytes) (d1 d2 : document),
    let hoisted := hoisted_of v pre post in let inline := inline_of v pre post in
    parse hoisted opts = Ok d1 /\ parse inline opts = Ok d2 /\
    view hoisted d1 = Some [elem "a" [] 1; CstNs.VText [97; 10; 98]] /\            (* "a LF b" *)
    view inline d2 = Some [elem "a" [] 1; CstNs.VText [97; 10; 10; 98]] /\        (* "a LF LF b" *)
    view hoisted d1 <> view inline d2.
Proof.
  exists d30_value, (b "<a>"), (b "</a>").
  destruct (parse (hoisted_of d30_value (b "<a>") (b "</a>")) opts) as [d1| | |] eqn:E1; [|vm_compute in E1; discriminate E1..].
  destruct (parse (inline_of d30_value (b "<a>") (b "</a>")) opts) as [d2| | |] eqn:E2; [|vm_compute in E2; discriminate E2..].
  exists d1, d2. cbv zeta.
  assert (V1 : view (hoisted_of d30_value (b "<a>") (b "</a>")) d1 = Some [elem "a" [] 1; CstNs.VText [97; 10; 98]])
    by (revert E1; vm_compute; intros E1; injection E1 as <-; reflexivity).
  assert (V2 : view (inline_of d30_value (b "<a>") (b "</a>")) d2 = Some [elem "a" [] 1; CstNs.VText [97; 10; 10; 98]])
    by (revert E2; vm_compute; intros E2; injection E2 as <-; reflexivity).
  split; [exact E1|]. split; [exact E2|]. split; [exact V1|]. split; [exact V2|]. rewrite V1, V2. discriminate.
Qed.

(* ---- at machine level (the vocabulary of Proofs/TextMachine.v) ---- *)
(* the chunks of the value: a, a literal CR, a reference that decodes to LF, b *)
Definition d30_chunks : list chunk := [CLit 97; CLit 13; CRef [10]; CLit 98].

(* read as the value of an entity (depth > 0) the CR and the referenced LF are ONE line end; read in place they are two *)
Theorem d30_machine :
  run_text_chunks true d30_chunks = [97; 10; 98] /\ run_text_chunks false d30_chunks = [97; 10; 10; 98].
Proof. split; reflexivity. Qed.

(* which is what the two theorems about the chunk machine say: inside an entity the line ends are paired over the DECODED
   bytes, at the top level a referenced character takes no part in the pairing *)
Theorem d30_explained :
  run_text_chunks true d30_chunks = norm_eol (concat (map chunk_bytes d30_chunks)) /\
  run_text_chunks false d30_chunks = decode_chunks d30_chunks /\
  norm_eol (concat (map chunk_bytes d30_chunks)) <> decode_chunks d30_chunks.
Proof.
  split; [apply text_chunks_in_entity|]. split; [apply text_chunks_decode_partial; repeat constructor; discriminate|].
  vm_compute. discriminate.
Qed.

(* no proviso of the hoisting theorem fails on pre = [], value, post = []: nothing is cut between a CR and an LF ... *)
Theorem d30_provisos_hold :
  ~ (ends_cr [] /\ starts_lf (d30_chunks ++ [])) /\ ~ (ends_cr d30_chunks /\ starts_lf []).
Proof.
  split; intros [[a' H] _].
  - destruct a'; discriminate H.
  - destruct a' as [|c0 [|c1 [|c2 [|c3 [|c4 a']]]]]; discriminate H.
Qed.
(* ... but the theorem speaks of a replacement text of literal characters only, and this one is not *)
Theorem d30_not_literal : forall mid : bytes, lits mid <> d30_chunks.
Proof. intros [|x0 [|x1 [|x2 mid]]]; discriminate. Qed.

(* the statement of text_hoist_equiv with an arbitrary chunk list for the replacement text is false *)
Theorem text_hoist_with_refs_refuted :
  ~ (forall pre mid post : list chunk,
       Forall (fun c => c <> CRef []) pre -> Forall (fun c => c <> CRef []) mid -> Forall (fun c => c <> CRef []) post ->
       ~ (ends_cr pre /\ starts_lf (mid ++ post)) -> ~ (ends_cr mid /\ starts_lf post) ->
       run_text_chunks false pre ++ run_text_chunks true mid ++ run_text_chunks false post = run_text_chunks false (pre ++ mid ++ post)).
Proof.
  intros H. specialize (H [] d30_chunks []). destruct d30_provisos_hold as [P1 P2].
  specialize (H (Forall_nil _) ltac:(repeat constructor; discriminate) (Forall_nil _) P1 P2). vm_compute in H. discriminate H.
Qed.

(* ---- where the fragment theorems exclude D29 and D30 ---- *)
Definition ent_doc (v : list E.epiece) : S6.doc := with_sub [XEntity (xd (b "e") (X4.XText v))] (el [] (b "a") [] [tx [rf (b "e")]]).
Theorem d29_d30_outside_fragments :
  E.charref_ok_in_value (T.PCharRef false (b "38")) = false /\ E.charref_ok_in_value (T.PCharRef false (b "10")) = false /\
  wf_syntax6 (ent_doc [E.EP (T.PCharRef false (b "38"))]) = false /\
  wf_syntax6 (ent_doc [lit [97; 13]; E.EP (T.PCharRef false (b "10")); lit (b "b")]) = false /\
  (* the same value without the offending reference, and with a harmless one, is inside *)
  wf_syntax6 (ent_doc [lit [97; 13; 98]]) = true /\ wf_syntax6 (ent_doc [lit [97; 13]; E.EP (T.PCharRef false (b "65")); lit (b "b")]) = true.
Proof. repeat split; vm_compute; reflexivity. Qed.

Print Assumptions d15b_refuted.
Print Assumptions lt_at_depth_refused.
Print Assumptions d15b_instance.
Print Assumptions d27_refuted.
Print Assumptions d28_refuted.
Print Assumptions d29_refuted.
Print Assumptions d30_refuted.
Print Assumptions d30_explained.
Print Assumptions text_hoist_with_refs_refuted.
Print Assumptions d29_d30_outside_fragments.
