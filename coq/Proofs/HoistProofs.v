(* Proofs/HoistProofs.v -- C07: a reference to an internal entity behaves as if the entity's
   replacement text stood in place of the reference.  Machine-level equivalences on the chunk
   machines of TextMachine.v, the unfolding of the model's loops at an entity reference, and
   "the first declaration wins". *)
From Coq Require Import List NArith Bool Lia ZifyBool ZifyN.
Import ListNotations.
From RX Require Import Generated.
From RX.Model Require Import Base Stream Tokenizer Doc Builder Parse.
From RX.Spec Require Import Text.
From RX.Proofs Require Import TextMachine.
Open Scope N_scope.

Local Notation mk b p := {| tb_buf := b; tb_pending_cr := p |}.

Definition lits (l : bytes) : list chunk := map CLit l.

(* the only way in which cutting a chunk list in two can matter: a CR LF pair across the cut *)
Definition ends_cr (a : list chunk) : Prop := exists a', a = a' ++ [CLit 13].
Definition starts_lf (b : list chunk) : Prop := exists b', b = CLit 10 :: b'.

Definition obind {A B} (o : option A) (f : A -> option B) : option B :=
  match o with Some a => f a | None => None end.

Lemma ends_cr_cons : forall c a, ends_cr a -> ends_cr (c :: a).
Proof. intros c a [a' ->]. exists (c :: a'). reflexivity. Qed.

(* ------------------------------------------------------------------------------------------ *)
(* 1. attribute values                                                                        *)
(* ------------------------------------------------------------------------------------------ *)

(* (a) running [a ++ b] is running [a] (its last byte seeing the end of input, as the last byte
   of an entity value does, or '&', as the byte before a reference does) and then [b], unless
   the cut separates a literal CR from a literal LF *)
Theorem push_attr_chunks_app : forall d a b t,
  ~ (ends_cr a /\ starts_lf b) ->
  push_attr_chunks d (a ++ b) t = obind (push_attr_chunks d a t) (push_attr_chunks d b).
Proof.
  intros d a. induction a as [|c a IH]; intros b t Hc; [reflexivity|].
  assert (Hc' : ~ (ends_cr a /\ starts_lf b)).
  { intros [H1 H2]. apply Hc. split; [apply ends_cr_cons; exact H1|exact H2]. }
  destruct c as [x|bs].
  - destruct a as [|c' a'].
    + cbn [app push_attr_chunks obind next_src]. f_equal.
      unfold tb_push_from_attr.
      destruct (x =? 13) eqn:Ex; cbn [andb]; [|reflexivity].
      destruct b as [|[y|bs] b']; cbn [next_src]; try reflexivity.
      destruct (y =? 10) eqn:Ey; [|reflexivity].
      exfalso. apply Hc. apply N.eqb_eq in Ex. apply N.eqb_eq in Ey. subst x y.
      split; [exists []; reflexivity|exists b'; reflexivity].
    + change (push_attr_chunks d ((CLit x :: c' :: a') ++ b) t)
        with (push_attr_chunks d ((c' :: a') ++ b)
                (tb_push_from_attr x (next_src ((c' :: a') ++ b)) t)).
      change (push_attr_chunks d (CLit x :: c' :: a') t)
        with (push_attr_chunks d (c' :: a') (tb_push_from_attr x (next_src (c' :: a')) t)).
      replace (next_src ((c' :: a') ++ b)) with (next_src (c' :: a')) by (destruct c'; reflexivity).
      apply IH. exact Hc'.
  - cbn [app push_attr_chunks obind].
    destruct (push_attr_chunks d (CRef bs :: a) t) eqn:E; cbn [push_attr_chunks] in E;
      destruct (push_char_bytes_attr bs d t) as [t1|]; try discriminate.
    + rewrite IH by exact Hc'. rewrite E. reflexivity.
    + rewrite IH by exact Hc'. rewrite E. reflexivity.
    + reflexivity.
Qed.
Print Assumptions push_attr_chunks_app.

(* (b) literal bytes are pushed in the same way inside and outside an entity value.  (No
   condition on '<' is needed at this level: a literal '<' inside an entity value is refused by
   the model's loop itself, see [areads] in TextMachine.v, not by the buffer machine.) *)
Theorem push_attr_lits_depth : forall l t,
  push_attr_chunks true (lits l) t = push_attr_chunks false (lits l) t.
Proof.
  induction l as [|x l IH]; intros t; [reflexivity|].
  cbn [lits map push_attr_chunks]. apply IH.
Qed.
Print Assumptions push_attr_lits_depth.

(* (c) inline = hoisted: [pre], then [mid] as the value of an entity (entity mode, its last byte
   sees the end of the value), then [post] *)
Theorem attr_hoist_equiv : forall d pre mid post t,
  ~ (ends_cr pre /\ starts_lf (lits mid ++ post)) ->
  ~ (ends_cr (lits mid) /\ starts_lf post) ->
  push_attr_chunks d (pre ++ lits mid ++ post) t =
  obind (push_attr_chunks d pre t) (fun t1 =>
  obind (push_attr_chunks true (lits mid) t1) (fun t2 =>
  push_attr_chunks d post t2)).
Proof.
  intros d pre mid post t H1 H2.
  rewrite push_attr_chunks_app by exact H1.
  destruct (push_attr_chunks d pre t) as [t1|]; cbn [obind]; [|reflexivity].
  rewrite push_attr_chunks_app by exact H2.
  rewrite push_attr_lits_depth.
  destruct d; [rewrite push_attr_lits_depth|]; reflexivity.
Qed.
Print Assumptions attr_hoist_equiv.

(* with C05: the hoisted run of a top-level value produces the 3.3.3 normalisation of the value
   with the replacement text in place of the reference *)
Corollary attr_hoist_normalise : forall pre mid post t',
  ~ (ends_cr pre /\ starts_lf (lits mid ++ post)) ->
  ~ (ends_cr (lits mid) /\ starts_lf post) ->
  obind (push_attr_chunks false pre tb_new) (fun t1 =>
  obind (push_attr_chunks true (lits mid) t1) (fun t2 =>
  push_attr_chunks false post t2)) = Some t' ->
  tb_buf (tb_flush t') = norm_attr_chunks (pre ++ lits mid ++ post).
Proof.
  intros pre mid post t' H1 H2 H. rewrite <- attr_hoist_equiv in H by assumption.
  apply attr_chunks_normalise. exact H.
Qed.
Print Assumptions attr_hoist_normalise.

(* the model: at a reference to a declared entity the loop of [norm_attr_lvl] runs
   [norm_attr_lvl] on the entity's value with the same buffer, one level deeper, and goes on
   after the reference with the buffer it returns *)
Theorem norm_attr_entity_step : forall text lvl' entities fu s t ld name s1 e ld1 ld2,
  at_end s = false ->
  curr_byte_unchecked s = Ok 38 ->
  consume_reference text s = Ok (Some (RefEntity name, s1)) ->
  find_entity text entities (slice_bytes text name) = Some e ->
  inc_references text s1 ld = Ok ld1 ->
  inc_depth text s1 ld1 = Ok ld2 ->
  attr_loop text lvl' entities (S fu) s t ld =
  let! (t', ld') := norm_attr_lvl text lvl' entities (en_value e) t ld2 in
  attr_loop text lvl' entities fu s1 t' (dec_depth ld').
Proof.
  intros text lvl' entities fu s t ld name s1 e ld1 ld2 He Hc Hr Hf H1 H2.
  cbn [attr_loop]. rewrite He, Hc. cbn [bind].
  change (38 =? 38) with true. cbn [negb].
  rewrite Hr. cbn [bind]. rewrite Hf, H1. cbn [bind]. rewrite H2. reflexivity.
Qed.
Print Assumptions norm_attr_entity_step.

(* ------------------------------------------------------------------------------------------ *)
(* 2. text                                                                                    *)
(* ------------------------------------------------------------------------------------------ *)

Theorem push_text_chunks_app : forall e a b t,
  push_text_chunks e (a ++ b) t = push_text_chunks e b (push_text_chunks e a t).
Proof.
  intros e a. induction a as [|[x|bs] a IH]; intros b t; cbn [app push_text_chunks]; auto.
Qed.
Print Assumptions push_text_chunks_app.

Lemma push_text_lits_depth : forall l t,
  push_text_chunks true (lits l) t = push_text_chunks false (lits l) t.
Proof. induction l as [|x l IH]; intros t; [reflexivity|]. cbn [lits map push_text_chunks]. apply IH. Qed.

(* what is already in the buffer does not influence what is pushed *)
Definition prepend (b0 : bytes) (t : text_buffer) : text_buffer :=
  mk (b0 ++ tb_buf t) (tb_pending_cr t).

Lemma push_from_text_prepend : forall b0 x t,
  tb_push_from_text x (prepend b0 t) = prepend b0 (tb_push_from_text x t).
Proof.
  intros b0 x [b p]. unfold prepend. cbn [tb_buf tb_pending_cr]. rewrite !push_from_text_spec.
  destruct p, (x =? 10), (x =? 13); cbn [tb_buf tb_pending_cr]; rewrite ?app_assoc; reflexivity.
Qed.

Lemma push_raw_prepend : forall b0 x t,
  tb_push_raw x (prepend b0 t) = prepend b0 (tb_push_raw x t).
Proof.
  intros b0 x [b [|]]; unfold tb_push_raw, tb_flush, prepend; cbn [tb_buf tb_pending_cr];
    rewrite ?app_assoc; reflexivity.
Qed.

Lemma push_char_bytes_text_prepend : forall bs e b0 t,
  push_char_bytes_text bs e (prepend b0 t) = prepend b0 (push_char_bytes_text bs e t).
Proof.
  induction bs as [|x bs IH]; intros e b0 t; cbn [push_char_bytes_text]; [reflexivity|].
  destruct e; [rewrite push_from_text_prepend|rewrite push_raw_prepend]; apply IH.
Qed.

Lemma push_text_chunks_prepend : forall e cs b0 t,
  push_text_chunks e cs (prepend b0 t) = prepend b0 (push_text_chunks e cs t).
Proof.
  intros e. induction cs as [|[x|bs] cs IH]; intros b0 t; cbn [push_text_chunks]; [reflexivity| |].
  - rewrite push_from_text_prepend. apply IH.
  - rewrite push_char_bytes_text_prepend. apply IH.
Qed.

Lemma flush_prepend : forall b0 t, tb_buf (tb_flush (prepend b0 t)) = b0 ++ tb_buf (tb_flush t).
Proof.
  intros b0 [b [|]]; unfold prepend, tb_flush; cbn [tb_buf tb_pending_cr];
    rewrite ?app_assoc; reflexivity.
Qed.

Lemma flush_as_prepend : forall t, tb_flush t = prepend (tb_buf (tb_flush t)) tb_new.
Proof.
  intros [b [|]]; unfold prepend, tb_flush, tb_new; cbn [tb_buf tb_pending_cr];
    rewrite app_nil_r; reflexivity.
Qed.

(* flushing a pending CR first changes nothing unless a literal LF comes next *)
Lemma flush_absorb : forall cs t,
  Forall (fun c => c <> CRef []) cs ->
  ~ (tb_pending_cr t = true /\ starts_lf cs) ->
  tb_buf (tb_flush (push_text_chunks false cs t)) =
  tb_buf (tb_flush (push_text_chunks false cs (tb_flush t))).
Proof.
  intros cs t Hne Hc. destruct cs as [|[x|bs] r].
  - cbn [push_text_chunks]. destruct t as [b [|]]; reflexivity.
  - cbn [push_text_chunks]. do 3 f_equal.
    destruct t as [b [|]]; [|reflexivity].
    unfold tb_flush. cbn [tb_buf tb_pending_cr]. rewrite !push_from_text_spec.
    destruct (x =? 10) eqn:Ex.
    + exfalso. apply Hc. split; [reflexivity|]. apply N.eqb_eq in Ex. subst x. exists r. reflexivity.
    + destruct (x =? 13); reflexivity.
  - inversion Hne as [|c cs' Hbs _]; subst. assert (bs <> []) as Hb by congruence.
    cbn [push_text_chunks]. do 3 f_equal.
    destruct t as [b [|]]; [|reflexivity].
    unfold tb_flush. cbn [tb_buf tb_pending_cr].
    rewrite !push_raw_bytes by assumption. reflexivity.
Qed.

(* a cut in a run of text chunks: the part before is flushed, the part after starts afresh *)
Theorem text_boundary : forall cs t,
  Forall (fun c => c <> CRef []) cs ->
  ~ (tb_pending_cr t = true /\ starts_lf cs) ->
  tb_buf (tb_flush (push_text_chunks false cs t)) =
  tb_buf (tb_flush t) ++ run_text_chunks false cs.
Proof.
  intros cs t Hne Hc. rewrite flush_absorb by assumption.
  rewrite (flush_as_prepend t) at 1. rewrite push_text_chunks_prepend, flush_prepend. reflexivity.
Qed.
Print Assumptions text_boundary.

(* a pending CR at the end of a run means that the run ends with a literal CR *)
Lemma pending_ends_cr : forall cs t,
  Forall (fun c => c <> CRef []) cs ->
  tb_pending_cr (push_text_chunks false cs t) = true ->
  (cs = [] /\ tb_pending_cr t = true) \/ ends_cr cs.
Proof.
  induction cs as [|c r IH]; intros t Hne H; [left; auto|right].
  inversion Hne as [|c0 cs' Hc Hr]; subst.
  destruct c as [x|bs]; cbn [push_text_chunks] in H.
  - destruct (IH _ Hr H) as [[-> Hp]|He]; [|apply ends_cr_cons; exact He].
    destruct t as [b p]. rewrite push_from_text_spec in Hp.
    assert (Ex : (x =? 13) = true).
    { destruct p, (x =? 10), (x =? 13); cbn [tb_pending_cr] in Hp; congruence. }
    apply N.eqb_eq in Ex. subst x. exists []. reflexivity.
  - destruct (IH _ Hr H) as [[-> Hp]|He]; [|apply ends_cr_cons; exact He].
    destruct t as [b p]. rewrite push_raw_bytes in Hp by congruence. discriminate.
Qed.

(* inline = hoisted for text: the fragments appended by [process_text_with] around and inside an
   entity reference (the buffer is finished before the expansion, the entity's own text token is
   processed in entity mode, a new buffer is started after it) concatenate to the decoding of
   the text with the replacement text in place *)
Theorem text_hoist_equiv : forall pre mid post,
  Forall (fun c => c <> CRef []) pre ->
  Forall (fun c => c <> CRef []) post ->
  ~ (ends_cr pre /\ starts_lf (lits mid ++ post)) ->
  ~ (ends_cr (lits mid) /\ starts_lf post) ->
  run_text_chunks false pre ++ run_text_chunks true (lits mid) ++ run_text_chunks false post =
  run_text_chunks false (pre ++ lits mid ++ post).
Proof.
  intros pre mid post Hpre Hpost H1 H2.
  assert (Hmid : Forall (fun c => c <> CRef []) (lits mid)).
  { unfold lits. apply Forall_forall. intros c Hin. apply in_map_iff in Hin.
    destruct Hin as [x [<- _]]. discriminate. }
  unfold run_text_chunks at 4. rewrite push_text_chunks_app.
  rewrite text_boundary.
  - fold (run_text_chunks false pre). f_equal.
    unfold run_text_chunks at 3. rewrite push_text_chunks_app.
    rewrite text_boundary.
    + unfold run_text_chunks at 1. rewrite push_text_lits_depth. reflexivity.
    + exact Hpost.
    + intros [Hp Hs]. apply H2. split; [|exact Hs].
      destruct (pending_ends_cr _ _ Hmid Hp) as [[_ Hn]|He]; [discriminate|exact He].
  - apply Forall_app. split; assumption.
  - intros [Hp Hs]. apply H1. split; [|exact Hs].
    destruct (pending_ends_cr _ _ Hpre Hp) as [[_ Hn]|He]; [discriminate|exact He].
Qed.
Print Assumptions text_hoist_equiv.

(* with C04 (top level) *)
Corollary text_hoist_decode : forall pre mid post,
  Forall (fun c => c <> CRef []) pre ->
  Forall (fun c => c <> CRef []) post ->
  ~ (ends_cr pre /\ starts_lf (lits mid ++ post)) ->
  ~ (ends_cr (lits mid) /\ starts_lf post) ->
  run_text_chunks false pre ++ run_text_chunks true (lits mid) ++ run_text_chunks false post =
  decode_chunks (pre ++ lits mid ++ post).
Proof.
  intros pre mid post Hpre Hpost H1 H2. rewrite text_hoist_equiv by assumption.
  apply text_chunks_decode_partial.
  apply Forall_app. split; [exact Hpre|]. apply Forall_app. split; [|exact Hpost].
  unfold lits. apply Forall_forall. intros c Hin. apply in_map_iff in Hin.
  destruct Hin as [x [<- _]]. discriminate.
Qed.
Print Assumptions text_hoist_decode.

(* the model: at a reference to a declared entity the loop of [process_text_with] finishes the
   buffer (appending it as a text fragment when non-empty), parses the entity's value one level
   deeper with the given content parser, and goes on after the reference with a NEW buffer *)
Theorem text_loop_entity_step : forall text pc r fu s buf c value s1,
  at_end s = false ->
  parse_next_chunk text s (c_entities c) = Ok (ChText value, s1) ->
  text_loop text pc r (S fu) s buf c =
  let! c := finish_text r buf c in
  let! ld := inc_references text s1 (c_ld c) in
  let! ld := inc_depth text s1 ld in
  let c := set_ld c ld in
  let! es := stream_from_substr text (sl_start value) (sl_end value) in
  let prev_tag_name := c_tag_name c in
  let prev_floor := c_entity_floor c in
  let c := set_entity_floor (set_tag_name c tag_name_null) (len_N (c_parent_prefixes c)) in
  let! (_, c) := pc es c in
  if negb (len_N (c_parent_prefixes c) =? c_entity_floor c) then Err UnexpectedEndOfStream
  else
    let c := set_entity_floor (set_tag_name c prev_tag_name) prev_floor in
    let c := set_ld c (dec_depth (c_ld c)) in
    text_loop text pc r fu s1 tb_new c.
Proof.
  intros text pc r fu s buf c value s1 He Hp.
  cbn [text_loop]. rewrite He, Hp. reflexivity.
Qed.
Print Assumptions text_loop_entity_step.

(* ------------------------------------------------------------------------------------------ *)
(* 3. the first declaration wins                                                              *)
(* ------------------------------------------------------------------------------------------ *)

Lemma bytes_eqb_refl : forall l, bytes_eqb l l = true.
Proof. induction l as [|x l IH]; cbn [bytes_eqb]; [reflexivity|]. rewrite N.eqb_refl. exact IH. Qed.

Theorem entity_first_declaration_wins : forall text pre e post,
  (forall e', In e' pre ->
     bytes_eqb (slice_bytes text (en_name e')) (slice_bytes text (en_name e)) = false) ->
  find_entity text (pre ++ e :: post) (slice_bytes text (en_name e)) = Some e.
Proof.
  intros text pre e post. induction pre as [|e0 pre IH]; intros H; cbn [app find_entity].
  - rewrite bytes_eqb_refl. reflexivity.
  - rewrite (H e0) by (left; reflexivity). apply IH. intros e' Hin. apply H. right. exact Hin.
Qed.
Print Assumptions entity_first_declaration_wins.

(* ------------------------------------------------------------------------------------------ *)
(* the side conditions are necessary: a CR LF pair split by the entity boundary is NOT paired  *)
(* by the crate (XML 1.0 2.11 normalises line ends per entity, so this is the specified        *)
(* behaviour, not a defect; it is the one place where "as if the text stood there" fails)      *)
(* ------------------------------------------------------------------------------------------ *)

Lemma text_hoist_split_crlf :
  run_text_chunks false ([CLit 13] ++ lits [10] ++ []) = [10] /\
  run_text_chunks false [CLit 13] ++ run_text_chunks true (lits [10]) ++ run_text_chunks false [] = [10; 10].
Proof. split; reflexivity. Qed.

Lemma attr_hoist_split_crlf :
  option_map (fun t => tb_buf (tb_flush t))
    (push_attr_chunks false ([CLit 13] ++ lits [10] ++ []) tb_new) = Some [32] /\
  option_map (fun t => tb_buf (tb_flush t))
    (obind (push_attr_chunks false [CLit 13] tb_new) (fun t1 =>
     obind (push_attr_chunks true (lits [10]) t1) (fun t2 =>
     push_attr_chunks false [] t2))) = Some [32; 32].
Proof. split; reflexivity. Qed.
