(* Proofs/RangeShiftBase.v -- C13 (shift by prolog whitespace), part 1: the two texts [text] and
   [ws ++ text], the shift of offsets, slices and streams by k = |ws|, the result relation of a
   lockstep run, and the Stream primitives.

   A stream of the second run is the stream of the first run with [s_pos] and [s_end] moved by
   k and the same cached [s_rest]; so everything that only looks at [s_rest] and at
   [s_end - s_pos] is literally the same, and what looks at the text ([mk_slice],
   [slice_bytes], positions of errors) is related by the facts F1-F4 below. *)
From Coq Require Import List Arith NArith Bool Lia ZifyBool ZifyN ZifyNat.
Import ListNotations.
From RX Require Import Generated.
From RX.Model Require Import Base CharClass Stream.
From RX.Proofs Require Import Tactics NoPanicUtf8 NoPanicStream.
Open Scope N_scope.

(* ------------------------------------------------------------------ *)
(* lockstep results: same kind of result, values related by a function  *)

Definition rsimf {A B} (f : A -> B) (r1 : res A) (r2 : res B) : Prop :=
  match r1 with
  | Ok a => r2 = Ok (f a)
  | Err _ => exists e, r2 = Err e
  | Panic p => r2 = Panic p
  | OutOfFuel => r2 = OutOfFuel
  end.

Lemma rsimf_bind {A B A' B'} (f : A -> A') (g : B -> B') r1 r2 k1 k2 :
  rsimf f r1 r2 -> (forall a, r1 = Ok a -> rsimf g (k1 a) (k2 (f a))) ->
  rsimf g (bind r1 k1) (bind r2 k2).
Proof.
  intros H Hk. destruct r1; cbn [rsimf bind] in *.
  - subst r2. cbn [bind]. apply Hk. reflexivity.
  - destruct H as [e' ->]. cbn. eauto.
  - subst r2. reflexivity.
  - subst r2. reflexivity.
Qed.

Lemma rsimf_ok {A B} (f : A -> B) r1 r2 a : rsimf f r1 r2 -> r1 = Ok a -> r2 = Ok (f a).
Proof. intros H ->. exact H. Qed.

Lemma rsimf_ret {A B} (f : A -> B) a b : b = f a -> rsimf f (Ok a) (Ok b).
Proof. intros ->. reflexivity. Qed.
Lemma rsimf_err {A B} (f : A -> B) e e' : rsimf f (Err e) (Err e').
Proof. cbn. eauto. Qed.
Lemma rsimf_panic {A B} (f : A -> B) p : rsimf f (Panic p) (Panic p).
Proof. reflexivity. Qed.
Lemma rsimf_fuel {A B} (f : A -> B) : rsimf f OutOfFuel OutOfFuel.
Proof. reflexivity. Qed.

Lemma rsimf_weaken {A B} (f g : A -> B) r1 r2 :
  (forall a, r1 = Ok a -> f a = g a) -> rsimf f r1 r2 -> rsimf g r1 r2.
Proof. intros H. destruct r1; cbn; auto. intros ->. rewrite (H a eq_refl). reflexivity. Qed.

(* both sides fail, whatever the payload *)
Definition both_fail {A B} (r1 : res A) (r2 : res B) : Prop :=
  match r1 with
  | Ok _ => False
  | Err _ => exists e, r2 = Err e
  | Panic p => r2 = Panic p
  | OutOfFuel => r2 = OutOfFuel
  end.
Lemma both_fail_rsimf {A B A' B'} (f : A' -> B') (r1 : res A) (r2 : res B) k1 k2 :
  both_fail r1 r2 -> rsimf f (bind r1 k1) (bind r2 k2).
Proof.
  destruct r1; cbn; try contradiction.
  - intros [e' ->]. cbn. eauto.
  - intros ->. reflexivity.
  - intros ->. reflexivity.
Qed.

(* ------------------------------------------------------------------ *)
(* shifting by k                                                        *)

Definition sh_sl (k : N) (sl : slice) : slice :=
  {| sl_start := sl_start sl + k; sl_end := sl_end sl + k |}.
Definition sh_s (k : N) (s : stream) : stream :=
  {| s_pos := s_pos s + k; s_end := s_end s + k; s_rest := s_rest s |}.

Section Shift.
Variable ws text : bytes.
Hypothesis Hvalid : valid_utf8_b text = true.
Notation text2 := (ws ++ text).
Notation k := (blen ws).
Notation shs := (sh_s k).
Notation shl := (sh_sl k).

(* F4 *)
Lemma skipn_shift p : skipn (N.to_nat (p + k)) text2 = skipn (N.to_nat p) text.
Proof.
  clear Hvalid. unfold blen. replace (N.to_nat (p + N.of_nat (length ws))) with (length ws + N.to_nat p)%nat by lia.
  rewrite <- skipn_skipn'. rewrite skipn_len_app. reflexivity.
Qed.

(* F1 *)
Lemma sub_shift a e : sub text2 (a + k) (e + k) = sub text a e.
Proof. clear Hvalid. unfold sub. rewrite skipn_shift. f_equal. lia. Qed.

Lemma slice_bytes_shift sl : slice_bytes text2 (shl sl) = slice_bytes text sl.
Proof. clear Hvalid. unfold slice_bytes, sh_sl. cbn [sl_start sl_end]. apply sub_shift. Qed.

Lemma slice_len_shift sl : slice_len (shl sl) = slice_len sl.
Proof. clear Hvalid. unfold slice_len, sh_sl. cbn. lia. Qed.

(* F3 *)
Lemma tlen_shift : tlen text2 = tlen text + k.
Proof. clear Hvalid. unfold tlen, blen. rewrite app_length. lia. Qed.

(* F2 *)
Lemma nth_error_shift p : nth_error text2 (N.to_nat (p + k)) = nth_error text (N.to_nat p).
Proof.
  clear Hvalid. unfold blen. replace (N.to_nat (p + N.of_nat (length ws))) with (length ws + N.to_nat p)%nat by lia.
  apply nth_error_len_app.
Qed.

Lemma is_boundary_shift p : is_boundary text2 (p + k) = is_boundary text p.
Proof.
  unfold is_boundary. rewrite nth_error_shift.
  destruct (N.eqb_spec p 0) as [->|Hp].
  - destruct (N.eqb_spec (0 + k) 0) as [E|E]; [reflexivity|].
    cbn [N.to_nat nth_error]. destruct text as [|x r] eqn:Et.
    + cbn. unfold blen. rewrite app_nil_r. apply N.eqb_eq. reflexivity.
    + cbn. pose proof (valid_WF _ Hvalid) as HW. apply WF_head_noncont in HW. rewrite HW. reflexivity.
  - destruct (N.eqb_spec (p + k) 0); [lia|].
    destruct (nth_error text (N.to_nat p)); [reflexivity|].
    unfold blen. rewrite app_length.
    destruct (N.eqb_spec p (N.of_nat (length text))), (N.eqb_spec (p + N.of_nat (length ws)) (N.of_nat (length ws + length text))); try reflexivity; lia.
Qed.

(* ---- streams ---- *)
Lemma s_pos_sh s : s_pos (shs s) = s_pos s + k. Proof. reflexivity. Qed.
Lemma s_end_sh s : s_end (shs s) = s_end s + k. Proof. reflexivity. Qed.
Lemma s_rest_sh s : s_rest (shs s) = s_rest s. Proof. reflexivity. Qed.

Lemma at_end_sh s : at_end (shs s) = at_end s.
Proof. clear Hvalid. unfold at_end, sh_s. cbn. lia. Qed.

Lemma avail_sh s : avail (shs s) = avail s.
Proof. clear Hvalid. unfold avail, sh_s. cbn. f_equal. lia. Qed.

Lemma starts_with_sh s p : starts_with (shs s) p = starts_with s p.
Proof. clear Hvalid. unfold starts_with. rewrite avail_sh. reflexivity. Qed.

Lemma curr_byte_opt_sh s : curr_byte_opt (shs s) = curr_byte_opt s.
Proof. clear Hvalid. unfold curr_byte_opt. rewrite at_end_sh. reflexivity. Qed.

Lemma starts_with_space_sh s : starts_with_space (shs s) = starts_with_space s.
Proof. clear Hvalid. unfold starts_with_space. rewrite curr_byte_opt_sh. reflexivity. Qed.

Lemma skip_bytes_sh f s : skip_bytes f (shs s) = shs (skip_bytes f s).
Proof.
  clear Hvalid. unfold skip_bytes, sh_s. cbn [s_pos s_end s_rest].
  replace (s_end s + k - (s_pos s + k)) with (s_end s - s_pos s) by lia.
  f_equal. lia.
Qed.

Lemma skip_spaces_sh s : skip_spaces (shs s) = shs (skip_spaces s).
Proof. apply skip_bytes_sh. Qed.

Lemma curr_byte_unchecked_sh s : curr_byte_unchecked (shs s) = curr_byte_unchecked s.
Proof. reflexivity. Qed.

Lemma curr_byte_sh s : curr_byte (shs s) = curr_byte s.
Proof. clear Hvalid. unfold curr_byte. rewrite at_end_sh. reflexivity. Qed.

Lemma next_byte_sh s : next_byte (shs s) = next_byte s.
Proof.
  clear Hvalid. unfold next_byte, sh_s. cbn [s_pos s_end s_rest].
  replace (s_end s + k <=? s_pos s + k + 1) with (s_end s <=? s_pos s + 1) by lia. reflexivity.
Qed.

Lemma id_sim {A} (r : res A) : rsimf (fun x => x) r r.
Proof. destruct r; cbn; eauto. Qed.

Lemma advance_sh n s : rsimf shs (advance n s) (advance n (shs s)).
Proof.
  clear Hvalid. unfold advance, sh_s. cbn [s_pos s_end s_rest].
  replace (s_end s + k <? s_pos s + k + n) with (s_end s <? s_pos s + n) by lia.
  destruct (s_end s <? s_pos s + n); cbn; [reflexivity|]. f_equal. f_equal. lia.
Qed.

(* ---- positions of errors: both runs fail in the same way ---- *)
Lemma gen_text_pos_at_kind p :
  match gen_text_pos_at text p with
  | Ok _ => exists q, gen_text_pos_at text2 (p + k) = Ok q
  | Panic x => gen_text_pos_at text2 (p + k) = Panic x
  | _ => False
  end.
Proof.
  unfold gen_text_pos_at. rewrite tlen_shift, is_boundary_shift.
  replace (tlen text + k <? p + k) with (tlen text <? p) by lia.
  destruct (_ || _); eauto.
Qed.

Lemma err_at_sh {A B C D} s mk mk' (k1 : A -> res C) (k2 : B -> res D) (f : C -> D) :
  rsimf f (bind (@err_at text A s mk) k1) (bind (@err_at text2 B (shs s) mk') k2).
Proof.
  apply both_fail_rsimf. unfold err_at, gen_text_pos. rewrite s_pos_sh.
  pose proof (gen_text_pos_at_kind (s_pos s)) as H.
  destruct (gen_text_pos_at text (s_pos s)); try contradiction; cbn.
  - destruct H as [q ->]. cbn. eauto.
  - rewrite H. reflexivity.
Qed.

Lemma err_at_sh0 {A B} s mk mk' (f : A -> B) :
  rsimf f (@err_at text A s mk) (@err_at text2 B (shs s) mk').
Proof.
  pose proof (err_at_sh (A:=A) (B:=B) s mk mk' (fun x => Ok x) (fun x => Ok x) f) as H.
  assert (E1 : forall (r : res A), bind r (fun x => Ok x) = r) by (intros []; reflexivity).
  assert (E2 : forall (r : res B), bind r (fun x => Ok x) = r) by (intros []; reflexivity).
  rewrite E1, E2 in H. exact H.
Qed.

End Shift.
