(* Proofs/CstFullS7Main.v -- the capstone fragment, stage S7 (Spec/CstFullS7.v): the statement of Proofs/CstFullS6Main.v
   for the wider conditions of Spec/CstFullS7.v -- CR in comment bodies and PI values, colons in the DOCTYPE name and in
   PI targets ([parse_render_sem_full_s7]); the same through the public API ([parse_render_sem_full_s7_api]); stage S6
   embeds, with the same documents, rendering and meaning ([s6_in_s7]); that S7 is strictly wider is in Proofs/CstFullS7Example.v. *)
From Coq Require Import Ascii String.
From Coq Require Import List NArith PeanoNat Bool Lia ZifyBool ZifyN ZifyNat.
Import ListNotations.
From RX Require Import Generated.
From RX.Model Require Import Base CharClass Stream Tokenizer Doc Builder Parse.
From RX.Spec Require Cst CstText CstEnt Detector Scope CstU CstNs Chars.
From RX.Spec Require Import CstFullS5.
From RX.Spec Require Import Text CstFull CstFullS4.
From RX.Spec Require Import CstFullS6 CstFullS7.
From RX.Proofs Require Import Tactics CstLex CstBuild CstNsLex CstNsView CstNsBuild CstULex.
From RX.Proofs Require Import CstFullLex CstFullBuild CstFullTree CstFullDoc.
From RX.Proofs Require Import CstFullS4Sem.
From RX.Proofs Require Import CstFullS5Ws CstFullS5Doc.
From RX.Proofs Require Import CstFullS7Text CstFullS7Items CstFullS7Misc CstFullS7Dtd CstFullS7Doc.
From RX.Proofs Require CstNsItems CstNsDoc CstNsMain CstFullMain CstFullS3 CstFullS4Main CstFullS5 OptionsMain CstFullS6Text CstFullS6Main CstFullS7Lex.
From RX.Proofs Require ApiView ApiViewProofs.
Open Scope N_scope.

Notation finish_g := CstFullS3.finish_g.
Notation init_ctx := CstNsMain.init_ctx.
Notation vattrs := CstFullS4Main.vattrs.

Lemma flat_sem l : flat_map (CstNs.sem_item []) l = NT.sem_items [] l.
Proof. induction l as [|x r IH]; [reflexivity|]. cbn [flat_map NT.sem_items]. rewrite IH. reflexivity. Qed.

Lemma bdens_flat l : flat_map bden l = bdens l.
Proof. induction l as [|x r IH]; [reflexivity|]. cbn [flat_map CstFullTree.dens]. rewrite IH. reflexivity. Qed.

Lemma misc_nattrs (l : list uitem) : forallb (is_misc epieces) l = true -> NT.nattrs_items (dens0 l) = O.
Proof.
  induction l as [|i r IH]; intros H; [reflexivity|]. cbn [forallb] in H. apply andb_true_iff in H. destruct H as [H1 H2].
  cbn [CstFullTree.dens]. rewrite nattrs_items_app, (IH H2). destruct i; try discriminate; reflexivity.
Qed.

Section Sem7.
Variable d : S7.doc.
Hypothesis Hwf : S7.wf_doc d = true.
Notation main := (S6.x_main d).

Lemma prolog_misc : forallb (is_misc epieces) (S6.prolog_items d) = true.
Proof.
  destruct (s7_parts d Hwf) as [_ Hg _ _ _ _ _ _ _]. unfold S6.prolog_items. destruct (S6.x_dtd d) as [g|]; [|reflexivity].
  cbn [wf_opt] in Hg. destruct (dtd_part_parts7 g Hg) as (H0 & Hb & Ht). rewrite forallb_app, (subset_misc6_misc _ Ht), andb_true_r.
  clear - Hb. induction (S6.g_before g) as [|[i w] r IH]; [reflexivity|]. cbn [forallb fst snd map] in *.
  rewrite !andb_true_iff in Hb. destruct Hb as [[Hi _] Hr]. rewrite (misc7_is _ Hi), (IH Hr). reflexivity.
Qed.

Lemma before_misc (l : list (uitem * bytes)) :
  forallb (fun p => wf_misc7 (fst p) && wf_s (snd p)) l = true ->
  forallb (is_misc epieces) (map fst l) = true.
Proof.
  induction l as [|[i w] r IH]; intros H; [reflexivity|]. cbn [forallb fst snd map] in *.
  rewrite !andb_true_iff in H. destruct H as [[Hi _] Hr]. rewrite (misc7_is _ Hi), (IH Hr). reflexivity.
Qed.

Lemma sem_all7 root' tr : S4.inline (S6.core d) = Some (cI d root', tr) -> S6.sem d = NT.sem_items [] (L7 d root').
Proof.
  intros Hi. destruct (s7_parts d Hwf) as [_ _ _ _ H3 _ _ H6 _].
  unfold S6.sem, S4.sem. rewrite Hi. cbn [S4.x_before S6.core map flat_map app].
  unfold L7, CstFull.sem, doc_items. cbn [cI d_before d_root d_after].
  rewrite !flat_sem, !bdens_flat, <- CstNsDoc.sem_items_app. f_equal.
  rewrite (dens_misc _ prolog_misc). f_equal.
  rewrite (bdens_app _ (_ :: _)). cbn [CstFullTree.dens]. f_equal; [|f_equal].
  - unfold B1. rewrite (regroup_items epieces). etransitivity; [|symmetry; apply dens_misc; apply (before_misc _ H3)].
    rewrite !map_map. reflexivity.
  - etransitivity; [|symmetry; apply dens_misc; apply (pairs_misc _ H6)]. rewrite !map_map. reflexivity.
Qed.

End Sem7.

(* ------------------------------------------------------------------------------------------ *)
(* the theorems                                                                               *)
(* ------------------------------------------------------------------------------------------ *)
Theorem parse_render_sem_full_s7 : forall (d : S7.doc) (opt : options),
  S7.wf_doc d = true ->
  (S7.has_dtd d = true -> allow_dtd opt = true) ->                (* a DOCTYPE needs the option *)
  N.of_nat (length (S7.sem d)) < nodes_limit opt ->               (* room for all nodes + the Root *)
  N.of_nat (length (S7.sem d)) < u32_max ->                        (* of the MEANING: entities add nodes *)
  N.of_nat (S7.nattrs d) < u32_max ->                              (* the attribute rows of the meaning *)
  S7.distinct_decls_le d (N.to_nat 65535) ->                       (* at most 65535 distinct declared bindings *)
  1 + N.of_nat (S7.ns_cost d) <= u32_max ->                        (* the namespace table fits *)
  exists doc, parse (S7.render d) opt = Ok doc /\ view (S7.render d) doc = Some (S7.sem d).
Proof.
  intros d opt Hwf Hdtd Hlim Hmax Hattr Hdist Hcost. unfold S7.render, S7.sem, S7.has_dtd, S7.distinct_decls_le, S7.ns_cost, S7.nattrs in *. set (text := S6.render d).
  destruct (s7_parts d Hwf) as [_ _ H1 _ H3 (name & ens & ws & body & Er) H5 H6 (root' & tr & Hroot & Hinl & Hl & Hp & Hns)].
  pose proof (sem_all7 d Hwf root' tr Hinl) as Esem.
  unfold S6.distinct_decls_le, S4.distinct_decls_le in Hdist. rewrite Hinl in Hdist.
  unfold S6.ns_cost, S4.ns_cost in Hcost. rewrite Hinl in Hcost.
  unfold CstFull.distinct_decls_le, doc_decls in Hdist. unfold CstFull.ns_cost in Hcost. cbn [d_root cI] in Hdist, Hcost.
  set (D := flat_map CstNs.item_decls (bden root')) in *.
  assert (HD : forall l, NoDup l -> incl l D -> N.of_nat (length l) <= 65535).
  { intros l N1 N2. pose proof (Hdist l N1 N2). lia. }
  assert (Hsz : NT.nsizes (L7 d root') = N.of_nat (length (S6.sem d))).
  { rewrite Esem, CstFullMain.sem_items_len. reflexivity. }
  assert (Hat : NT.nattrs_items (bden root') = S6.nattrs d).
  { unfold S6.nattrs. fold (vattrs (S6.sem d)). rewrite Esem, CstFullS4Main.vattrs_sems. unfold L7.
    destruct (regroup_wf7 _ _ H1 H3) as [Q1 _].
    destruct (pairs_dens7 _ Q1) as (X1 & _). destruct (pairs_dens7 _ H6) as (X2 & _).
    pose proof (misc_nattrs _ (prolog_misc d Hwf)) as X0.
    assert (G : forall x y z w : nat, x = 0%nat -> y = 0%nat -> w = 0%nat -> (x + (y + (z + w)) = z)%nat) by (intros; lia).
    rewrite !nattrs_items_app. symmetry. apply G; [exact X0|exact X1|exact X2]. }
  rewrite ns_oks_forallb in Hns.
  destruct (parse_document_ok_7 d Hwf D HD (allow_dtd opt) root' tr (init_ctx text opt) Hdtd Hroot Hl Hp Hns)
    as (cf & K & E & Habs & Hpp & F).
  { unfold D. rewrite items_decls_flat. apply incl_refl. }
  { apply (CstNsMain.init_ctx_CIn text D opt). }
  { reflexivity. } { reflexivity. } { reflexivity. }
  { unfold CstNsItems.node_room. cbn [CstNsMain.init_ctx c_doc c_opt d_nodes]. rewrite Hsz. unfold len_N. cbn [length]. lia. }
  { unfold CstNsItems.attr_room. cbn [CstNsMain.init_ctx c_doc d_attrs]. rewrite Hat. unfold len_N. cbn [length]. lia. }
  { unfold CstNsItems.ns_room. cbn [CstNsMain.init_ctx c_doc d_ns_tree]. unfold len_N. cbn [length]. rewrite ns_costs_sum. lia. }
  cbn [c_parent_id CstNsMain.init_ctx c_doc d_nodes] in F. change (len_N [_]) with 1 in F.
  destruct (finish_g text opt cf K (L7 d root') E Habs Hpp F) as (doc & P & V).
  { assert (Er' : exists ens' body', root' = @IElem bpieces name ens' ws body').
    { rewrite Er, inline_item_elem in Hroot. destruct (inline_entries (level (S6.decls d) E.max_level) false ens) as [[a' ta]|]; [|discriminate].
      cbn [E.obind fst] in Hroot. destruct body as [[cs0 w2]|].
      - destruct (inline_items (level (S6.decls d) E.max_level) false cs0) as [[b0 tb0]|]; [|discriminate]. cbn [E.obind] in Hroot. injection Hroot as <- _. eauto.
      - injection Hroot as <- _. eauto. }
    destruct Er' as (ens' & body' & ->). unfold L7. rewrite den_elem. cbn [app]. rewrite !app_assoc. eauto 10. }
  { rewrite Hsz. exact Hmax. }
  exists doc. split; [exact P|]. rewrite V, Esem. reflexivity.
Qed.
Print Assumptions parse_render_sem_full_s7.

(* documents with the same meaning -- however the content is distributed over entities (character data or markup),
   literal text, CDATA sections and references, whatever the prolog and whatever the layout -- have the same view *)
Theorem hoist_prolog_insensitive_full_s7 : forall (d1 d2 : S7.doc) opt,
  S7.wf_doc d1 = true -> S7.wf_doc d2 = true -> allow_dtd opt = true -> S7.sem d1 = S7.sem d2 ->
  N.of_nat (length (S7.sem d1)) < nodes_limit opt -> N.of_nat (length (S7.sem d1)) < u32_max ->
  N.of_nat (S7.nattrs d1) < u32_max ->
  S7.distinct_decls_le d1 (N.to_nat 65535) -> S7.distinct_decls_le d2 (N.to_nat 65535) ->
  1 + N.of_nat (S7.ns_cost d1) <= u32_max -> 1 + N.of_nat (S7.ns_cost d2) <= u32_max ->
  exists x1 x2, parse (S7.render d1) opt = Ok x1 /\ parse (S7.render d2) opt = Ok x2 /\
                view (S7.render d1) x1 = view (S7.render d2) x2.
Proof.
  intros d1 d2 opt W1 W2 Hdtd E L Mx At D1 D2 C1 C2.
  pose proof (parse_render_sem_full_s7 d1 opt W1 (fun _ => Hdtd)) as T1. pose proof (parse_render_sem_full_s7 d2 opt W2 (fun _ => Hdtd)) as T2.
  unfold S7.render, S7.sem, S7.has_dtd, S7.distinct_decls_le, S7.ns_cost, S7.nattrs in *.
  assert (At2 : S6.nattrs d2 = S6.nattrs d1) by (unfold S6.nattrs; rewrite E; reflexivity).
  destruct (T1 L Mx At D1 C1) as (x1 & P1 & V1).
  destruct (T2 ltac:(rewrite <- E; exact L) ltac:(rewrite <- E; exact Mx) ltac:(rewrite At2; exact At) D2 C2)
    as (x2 & P2 & V2).
  exists x1, x2. split; [exact P1|]. split; [exact P2|]. rewrite V1, V2, E. reflexivity.
Qed.
Print Assumptions hoist_prolog_insensitive_full_s7.

Theorem render_valid_utf8_s7 : forall d : S7.doc, S7.wf_doc d = true -> valid_utf8_b (S7.render d) = true.
Proof. intros d H. unfold S7.render. apply U8.valid_iff_Valid. apply text_valid7. exact H. Qed.
Print Assumptions render_valid_utf8_s7.


(* ------------------------------------------------------------------------------------------ *)
(* through the public API (Proofs/ApiView.v)                                                  *)
(* ------------------------------------------------------------------------------------------ *)
Theorem parse_render_sem_full_s7_api : forall (d : S7.doc) (opt : options),
  S7.wf_doc d = true ->
  (S7.has_dtd d = true -> allow_dtd opt = true) ->
  nodes_limit opt <= u32_max ->                                    (* a u32 *)
  N.of_nat (length (S7.sem d)) < nodes_limit opt ->
  N.of_nat (length (S7.sem d)) < u32_max ->
  N.of_nat (S7.nattrs d) < u32_max ->
  S7.distinct_decls_le d (N.to_nat 65535) ->
  1 + N.of_nat (S7.ns_cost d) <= u32_max ->
  exists doc, parse (S7.render d) opt = Ok doc /\ ApiView.api_view (S7.render d) doc = Some (S7.sem d).
Proof.
  intros d opt Hwf Hdtd Hu Hlim Hmax Hattr Hdist Hcost.
  destruct (parse_render_sem_full_s7 d opt Hwf Hdtd Hlim Hmax Hattr Hdist Hcost) as (doc & P & V).
  exists doc. split; [exact P|].
  rewrite (ApiViewProofs.api_view_agrees (S7.render d) opt doc (render_valid_utf8_s7 d Hwf) Hu P). exact V.
Qed.
Print Assumptions parse_render_sem_full_s7_api.

Theorem hoist_prolog_insensitive_full_s7_api : forall (d1 d2 : S7.doc) opt,
  S7.wf_doc d1 = true -> S7.wf_doc d2 = true -> allow_dtd opt = true -> nodes_limit opt <= u32_max -> S7.sem d1 = S7.sem d2 ->
  N.of_nat (length (S7.sem d1)) < nodes_limit opt -> N.of_nat (length (S7.sem d1)) < u32_max ->
  N.of_nat (S7.nattrs d1) < u32_max ->
  S7.distinct_decls_le d1 (N.to_nat 65535) -> S7.distinct_decls_le d2 (N.to_nat 65535) ->
  1 + N.of_nat (S7.ns_cost d1) <= u32_max -> 1 + N.of_nat (S7.ns_cost d2) <= u32_max ->
  exists x1 x2, parse (S7.render d1) opt = Ok x1 /\ parse (S7.render d2) opt = Ok x2 /\
                ApiView.api_view (S7.render d1) x1 = ApiView.api_view (S7.render d2) x2.
Proof.
  intros d1 d2 opt W1 W2 Hdtd Hu E L Mx At D1 D2 C1 C2.
  assert (At2 : S7.nattrs d2 = S7.nattrs d1) by (unfold S7.nattrs, S6.nattrs; change (S6.sem d2) with (S7.sem d2); rewrite <- E; reflexivity).
  destruct (parse_render_sem_full_s7_api d1 opt W1 (fun _ => Hdtd) Hu L Mx At D1 C1) as (x1 & P1 & V1).
  destruct (parse_render_sem_full_s7_api d2 opt W2 (fun _ => Hdtd) Hu ltac:(rewrite <- E; exact L) ltac:(rewrite <- E; exact Mx) ltac:(rewrite At2; exact At) D2 C2)
    as (x2 & P2 & V2).
  exists x1, x2. split; [exact P1|]. split; [exact P2|]. rewrite V1, V2, E. reflexivity.
Qed.
Print Assumptions hoist_prolog_insensitive_full_s7_api.

(* ------------------------------------------------------------------------------------------ *)
(* S6 inside S7                                                                               *)
(* ------------------------------------------------------------------------------------------ *)
Lemma chars_7 l : forallb CstU.is_char l = true -> forallb Chars.xml_Char l = true.
Proof. apply CstLex.forallb_imp. intros x H. unfold CstU.is_char in H. apply andb_true_iff in H. apply H. Qed.

Lemma misc_7 {S : syntax} (i : item S) : wf_misc_s i = true -> wf_misc7 i = true.
Proof.
  destruct i as [? ? ? ?|?|bs|t s v]; try discriminate; cbn [wf_misc_s wf_misc7 CstU.wf_item].
  - unfold wf_comment7. rewrite !andb_true_iff. intros [[H1 H2] H3]. rewrite (chars_7 _ H1). auto.
  - unfold wf_pi_s, wf_pi7. rewrite !andb_true_iff. intros [[[[[H1 H2] H3] H4] H5] H6].
    rewrite (CstFullS7Lex.name_7 _ H1), (chars_7 _ H3). auto 10.
Qed.

Lemma uitem_7 m : forall i, wf_uitem_s m i = true -> wf_uitem7 m i = true.
Proof.
  intros i. induction i as [n a w|n a w cs w2 IH|r|bs|t s v] using fitem_ind; intros H.
  - exact H.
  - rewrite CstFullS6Text.wf_uitem_elem in H. rewrite wf_uitem_elem. rewrite !andb_true_iff in H |- *. destruct H as [[[Hn Ha] Hw] [[Hw2 Hna] Hcs]].
    repeat split; try assumption.
    clear - IH Hcs. induction IH as [|c r Hc _ IHr]; [reflexivity|]. cbn [CstFullS6Text.wf_uitems wf_uitems] in *.
    apply andb_true_iff in Hcs. destruct Hcs as [H1 H2]. rewrite (Hc H1), (IHr H2). reflexivity.
  - exact H.
  - apply (@misc_7 epieces (IComment bs)). exact H.
  - apply (@misc_7 epieces (IPI t s v)). exact H.
Qed.

Lemma xdecl_7 e : wf_xdecl_s e = true -> wf_xdecl7 e = true.
Proof.
  unfold wf_xdecl_s, wf_xdecl7, wf_xvalue_s, wf_xvalue7. rewrite !andb_true_iff. intros [[[[[[H0 H1] Hn] H2] Hq] [Hv1 Hv2]] H3].
  repeat split; try assumption.
  destruct (x_value e) as [ps|its]; [exact Hv2|]. apply andb_true_iff in Hv2. destruct Hv2 as [A B0]. rewrite B0, andb_true_r.
  revert A. apply CstLex.forallb_imp. intros i. apply uitem_7.
Qed.

Lemma sdecl_7 s : wf_sdecl6 s = true -> wf_sdecl7 s = true.
Proof.
  destruct s as [e|s]; cbn [wf_sdecl6 wf_sdecl7]; [apply xdecl_7|]. rewrite !andb_true_iff. intros [H1 H2]. split; [exact H1|].
  destruct s; try exact H2. cbn [wf_sdecl wf_other7] in *. apply andb_true_iff in H2. destruct H2 as [H2 H3]. rewrite H2, (misc_7 _ H3). reflexivity.
Qed.

Lemma doctype_7 t : wf_doctype6 t = true -> wf_doctype7 t = true.
Proof.
  unfold wf_doctype6, wf_doctype7. rewrite !andb_true_iff. intros [[[[H1 H2] H3] H4] H5].
  repeat split; try assumption; [apply CstFullS7Lex.name_7; exact H2|].
  destruct (z_subset t) as [u|]; [|reflexivity]. cbn [wf_opt] in *. unfold wf_subset6, wf_subset7 in *. rewrite !andb_true_iff in *.
  destruct H5 as [[A B0] C0]. repeat split; try assumption. revert A. apply CstLex.forallb_imp. exact sdecl_7.
Qed.

Lemma before_7 (l : list (uitem * bytes)) :
  forallb (fun p => wf_misc_s (fst p) && wf_s (snd p)) l = true -> forallb (fun p => wf_misc7 (fst p) && wf_s (snd p)) l = true.
Proof. apply CstLex.forallb_imp. intros [i w]. cbn [fst snd]. rewrite !andb_true_iff. intros [A B0]. split; [apply misc_7; exact A|exact B0]. Qed.
Lemma after_7 (l : list (bytes * uitem)) :
  forallb (fun p => wf_s (fst p) && wf_misc_s (snd p)) l = true -> forallb (fun p => wf_s (fst p) && wf_misc7 (snd p)) l = true.
Proof. apply CstLex.forallb_imp. intros [w i]. cbn [fst snd]. rewrite !andb_true_iff. intros [A B0]. split; [exact A|apply misc_7; exact B0]. Qed.

(* the documents of stage S6 are documents of stage S7: the same document, so the same rendering and the same meaning *)
Theorem s6_in_s7 : forall d : S6.doc, S6.wf_doc d = true ->
  S7.wf_doc d = true /\ S7.render d = S6.render d /\ S7.sem d = S6.sem d /\ S7.has_dtd d = S6.has_dtd d.
Proof.
  intros d Hwf. split; [|repeat split; reflexivity].
  unfold S6.wf_doc in Hwf. unfold S7.wf_doc. rewrite !andb_true_iff in Hwf |- *.
  destruct Hwf as [[[[[[[H1 H2] H3] H4] H5] H6] H7] H8]. repeat split; try assumption.
  - destruct (S6.x_dtd d) as [g|]; [|reflexivity]. cbn [wf_opt] in *. unfold S6.wf_dtd_part, S7.wf_dtd_part in *.
    rewrite !andb_true_iff in *. destruct H2 as [[A B0] C0]. repeat split; [exact A|apply before_7; exact B0|apply doctype_7; exact C0].
  - apply before_7; exact H5.
  - destruct (d_root (S6.x_main d)); try discriminate. apply uitem_7. exact H6.
  - apply after_7; exact H7.
Qed.
Print Assumptions s6_in_s7.

