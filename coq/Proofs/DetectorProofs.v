(* Proofs/DetectorProofs.v -- the entity-expansion loop detector against Spec/Detector.v (C09). *)
From Coq Require Import List NArith Bool Lia ZifyBool ZifyN.
Import ListNotations.
From RX Require Import Generated.
From RX.Model Require Import Base Stream Builder.
From RX.Spec Require Import Detector.
From RX.Proofs Require Import Tactics.
Open Scope N_scope.

(* pure step of the detector: inc_references followed by inc_depth *)
Definition ld_enter (ld : loop_detector) : option loop_detector :=
  if ld_depth ld =? 0 then
    (if ld_depth ld <? ld_max_depth
     then Some {| ld_depth := ld_depth ld + 1; ld_references := ld_references ld |} else None)
  else if ld_references ld =? ld_max_refs then None
  else if ld_depth ld <? ld_max_depth
       then Some {| ld_depth := ld_depth ld + 1; ld_references := ld_references ld + 1 |} else None.

Fixpoint ld_run (ld : loop_detector) (tr : list lop) : option loop_detector :=
  match tr with
  | [] => Some ld
  | Enter :: r => match ld_enter ld with Some ld' => ld_run ld' r | None => None end
  | Exit :: r => ld_run (dec_depth ld) r
  end.

Definition chain (n : nat) : list lop := repeat Enter n ++ repeat Exit n.
Definition fan (n : nat) : list lop := Enter :: concat (repeat [Enter; Exit] n) ++ [Exit].
Definition flat (n : nat) : list lop := concat (repeat [Enter; Exit] n).
Definition accepted (tr : list lop) : Prop := exists st, ld_run ld_init tr = Some st.

Definition lop_eq_dec : forall x y : lop, {x = y} + {x <> y}.
Proof. decide equality. Defined.
Definition count_enter (l : list lop) : N := N.of_nat (count_occ lop_eq_dec l Enter).

(* ------------------------------------------------------------------ *)
(* helpers                                                             *)

Definition mk (d r : N) : loop_detector := {| ld_depth := d; ld_references := r |}.

Lemma mk_eta : forall ld, ld = mk (ld_depth ld) (ld_references ld).
Proof. intros [d r]; reflexivity. Qed.

Lemma err_at_not_ok : forall {A B} text s e (f : A -> res B) x,
  bind (err_at text s e) f <> Ok x.
Proof.
  intros A B text s e f x. unfold err_at.
  destruct (gen_text_pos text s); cbn [bind]; discriminate.
Qed.

Lemma err_at_not_ok' : forall {A} text s e (x : A), err_at text s e <> Ok x.
Proof.
  intros A text s e x. unfold err_at.
  destruct (gen_text_pos text s); cbn [bind]; discriminate.
Qed.

Lemma ld_enter_zero : forall r, ld_enter (mk 0 r) = Some (mk 1 r).
Proof. intros r. reflexivity. Qed.

Lemma ld_enter_pos : forall d r,
  d <> 0 -> d < 10 -> r <> 255 -> ld_enter (mk d r) = Some (mk (d + 1) (r + 1)).
Proof.
  intros d r Hd Hlt Hr. unfold ld_enter, mk, ld_max_depth, ld_max_refs.
  cbn [ld_depth ld_references].
  destruct (N.eqb_spec d 0); [lia|].
  destruct (N.eqb_spec r 255); [lia|].
  destruct (N.ltb_spec d 10); [reflexivity|lia].
Qed.

(* complete characterisation of the pure step *)
Lemma ld_enter_some : forall d r ld',
  ld_enter (mk d r) = Some ld' ->
  d < 10 /\ ((d = 0 /\ ld' = mk 1 r) \/ (d <> 0 /\ r <> 255 /\ ld' = mk (d + 1) (r + 1))).
Proof.
  intros d r ld'. unfold ld_enter, mk, ld_max_depth, ld_max_refs.
  cbn [ld_depth ld_references].
  destruct (N.eqb_spec d 0).
  - subst d. destruct (N.ltb_spec 0 10); [|discriminate].
    intros [= <-]. split; [lia|]. left; split; reflexivity.
  - destruct (N.eqb_spec r 255); [discriminate|].
    destruct (N.ltb_spec d 10); [|discriminate].
    intros [= <-]. split; [lia|]. right; auto.
Qed.

Lemma dec_depth_pos : forall d r,
  d <> 0 -> dec_depth (mk d r) = mk (d - 1) (if d - 1 =? 0 then 0 else r).
Proof.
  intros d r Hd. unfold dec_depth, mk. cbn [ld_depth ld_references].
  destruct (N.ltb_spec 0 d); [reflexivity|lia].
Qed.

Lemma ld_run_app : forall a b ld,
  ld_run ld (a ++ b) = match ld_run ld a with Some l => ld_run l b | None => None end.
Proof.
  induction a as [|[|] a IH]; intros b ld; cbn [ld_run app].
  - reflexivity.
  - destruct (ld_enter ld); [apply IH|reflexivity].
  - apply IH.
Qed.

(* ------------------------------------------------------------------ *)
(* the pure step is what the model's two calls do, whatever the text / stream *)
Theorem enter_agrees_model : forall text s ld,
  match ld_enter ld with
  | Some ld' => bind (inc_references text s ld) (inc_depth text s) = Ok ld'
  | None => forall x, bind (inc_references text s ld) (inc_depth text s) <> Ok x
  end.
Proof.
  intros text s [d r]. unfold ld_enter, inc_references. cbn [ld_depth ld_references].
  destruct (N.eqb_spec d 0).
  - cbn [bind]. unfold inc_depth. cbn [ld_depth ld_references].
    destruct (d <? ld_max_depth).
    + reflexivity.
    + intros x. apply err_at_not_ok'.
  - destruct (N.eqb_spec r ld_max_refs).
    + intros x. apply err_at_not_ok.
    + cbn [bind]. unfold inc_depth. cbn [ld_depth ld_references].
      destruct (d <? ld_max_depth).
      * reflexivity.
      * intros x. apply err_at_not_ok'.
Qed.
Print Assumptions enter_agrees_model.

(* ------------------------------------------------------------------ *)
Lemma detector_sound_gen : forall tr d r st,
  r <= 255 ->
  ld_run (mk d r) tr = Some st -> depth_after d tr <> None ->
  within_limits 10 255 d r tr = true.
Proof.
  induction tr as [|[|] tr IH]; intros d r st Hr Hrun Hd;
    cbn [ld_run depth_after within_limits] in *.
  - reflexivity.
  - destruct (ld_enter (mk d r)) as [ld'|] eqn:E; [|discriminate].
    apply ld_enter_some in E. destruct E as [Hlt [[-> ->]|[Hd0 [Hr0 ->]]]].
    + change (0 =? 0) with true. cbn iota.
      change (0 <? 10) with true. cbn [andb].
      apply (IH _ _ st); auto.
    + destruct (N.eqb_spec d 0); [lia|].
      destruct (N.ltb_spec d 10); [|lia].
      destruct (N.ltb_spec r 255); [|lia]. cbn [andb].
      apply (IH _ _ st); auto. lia.
  - destruct (N.eqb_spec d 0) as [->|Hd0]; [congruence|].
    rewrite dec_depth_pos in Hrun by assumption.
    apply (IH _ _ st); auto.
    destruct (d - 1 =? 0); lia.
Qed.

Theorem detector_sound : forall tr st,
  ld_run ld_init tr = Some st -> depth_after 0 tr <> None ->
  within_limits ld_max_depth ld_max_refs 0 0 tr = true.
Proof.
  intros tr st H1 H2. apply (detector_sound_gen tr 0 0 st); auto. lia.
Qed.
Print Assumptions detector_sound.

Lemma detector_complete_gen : forall tr d r,
  within_limits 10 255 d r tr = true -> exists st, ld_run (mk d r) tr = Some st.
Proof.
  induction tr as [|[|] tr IH]; intros d r H; cbn [ld_run within_limits] in *.
  - eauto.
  - apply andb_true_iff in H. destruct H as [Hlt H].
    apply N.ltb_lt in Hlt.
    destruct (N.eqb_spec d 0) as [->|Hd0].
    + rewrite ld_enter_zero. apply IH. exact H.
    + apply andb_true_iff in H. destruct H as [Hr H]. apply N.ltb_lt in Hr.
      rewrite ld_enter_pos by lia. apply IH. exact H.
  - destruct (N.eqb_spec d 0) as [->|Hd0]; [discriminate|].
    rewrite dec_depth_pos by assumption. apply IH. exact H.
Qed.

Theorem detector_complete : forall tr,
  within_limits ld_max_depth ld_max_refs 0 0 tr = true -> accepted tr.
Proof.
  intros tr H. apply (detector_complete_gen tr 0 0). exact H.
Qed.
Print Assumptions detector_complete.

(* ------------------------------------------------------------------ *)
(* declarative consequences of within_limits, for any limits D R *)
Lemma limits_bound_depth_gen : forall D R pre suf d r,
  within_limits D R d r (pre ++ suf) = true -> d <= D ->
  exists d', depth_after d pre = Some d' /\ d' <= D.
Proof.
  induction pre as [|[|] pre IH]; intros suf d r H Hd;
    cbn [app depth_after within_limits] in *.
  - eauto.
  - apply andb_true_iff in H. destruct H as [Hlt H]. apply N.ltb_lt in Hlt.
    destruct (d =? 0).
    + apply (IH suf _ _ H). lia.
    + apply andb_true_iff in H. destruct H as [_ H]. apply (IH suf _ _ H). lia.
  - destruct (N.eqb_spec d 0); [discriminate|].
    apply (IH suf _ _ H). lia.
Qed.

Theorem limits_bound_depth : forall D R tr pre suf,
  within_limits D R 0 0 tr = true -> tr = pre ++ suf ->
  exists d, depth_after 0 pre = Some d /\ d <= D.
Proof.
  intros D R tr pre suf H ->. apply (limits_bound_depth_gen D R pre suf 0 0 H). lia.
Qed.
Print Assumptions limits_bound_depth.

(* after a prefix, the rest of the trace is within limits from the reached state; the
   reference counter is zero whenever the depth is *)
Lemma within_limits_prefix : forall D R a t d r d',
  (d = 0 -> r = 0) ->
  within_limits D R d r (a ++ t) = true -> depth_after d a = Some d' ->
  exists r', (d' = 0 -> r' = 0) /\ within_limits D R d' r' t = true.
Proof.
  induction a as [|[|] a IH]; intros t d r d' Hz H Hd;
    cbn [app depth_after within_limits] in *.
  - injection Hd as <-. eauto.
  - apply andb_true_iff in H. destruct H as [_ H].
    destruct (N.eqb_spec d 0).
    + refine (IH t _ _ d' _ H Hd); lia.
    + apply andb_true_iff in H. destruct H as [_ H].
      refine (IH t _ _ d' _ H Hd); lia.
  - destruct (N.eqb_spec d 0); [discriminate|].
    refine (IH t _ _ d' _ H Hd).
    destruct (N.eqb_spec (d - 1) 0); [reflexivity|lia].
Qed.

Lemma count_enter_Enter : forall l, count_enter (Enter :: l) = 1 + count_enter l.
Proof.
  intros l. unfold count_enter. rewrite count_occ_cons_eq by reflexivity. lia.
Qed.

Lemma count_enter_Exit : forall l, count_enter (Exit :: l) = count_enter l.
Proof.
  intros l. unfold count_enter. rewrite count_occ_cons_neq by discriminate. reflexivity.
Qed.

Lemma nested_count : forall D R b seg d r,
  within_limits D R d r (seg ++ b) = true -> r <= R ->
  (forall p q, seg = p ++ q -> exists d', depth_after d p = Some d' /\ 1 <= d') ->
  r + count_enter seg <= R.
Proof.
  induction seg as [|[|] seg IH]; intros d r H Hr Hp.
  - unfold count_enter. cbn. lia.
  - assert (Hd : 1 <= d).
    { destruct (Hp [] (Enter :: seg) eq_refl) as [d' [E Hd']].
      cbn [depth_after] in E. injection E as <-. exact Hd'. }
    cbn [app within_limits] in H.
    apply andb_true_iff in H. destruct H as [_ H].
    destruct (N.eqb_spec d 0); [lia|].
    apply andb_true_iff in H. destruct H as [Hlt H]. apply N.ltb_lt in Hlt.
    rewrite count_enter_Enter.
    assert (r + 1 + count_enter seg <= R); [|lia].
    apply (IH (d + 1)); [exact H|lia|].
    intros p q ->. apply (Hp (Enter :: p) q eq_refl).
  - assert (Hd : 1 <= d - 1 /\ d <> 0).
    { destruct (Hp [Exit] seg eq_refl) as [d' [E Hd']].
      cbn [depth_after] in E. destruct (N.eqb_spec d 0); [discriminate|].
      injection E as <-. split; assumption. }
    destruct Hd as [Hd Hd0].
    cbn [app within_limits] in H.
    destruct (N.eqb_spec d 0); [lia|].
    destruct (N.eqb_spec (d - 1) 0); [lia|].
    rewrite count_enter_Exit.
    apply (IH (d - 1)); [exact H|exact Hr|].
    intros p q ->. destruct (Hp (Exit :: p) q eq_refl) as [d' [E Hd']].
    cbn [depth_after] in E. destruct (N.eqb_spec d 0); [lia|]. eauto.
Qed.

(* between two moments of depth zero at most R nested expansions start below one top-level one *)
Theorem limits_bound_nested : forall D R a seg b,
  within_limits D R 0 0 (a ++ Enter :: seg ++ b) = true ->
  depth_after 0 a = Some 0 ->
  (forall p q, seg = p ++ q -> exists d, depth_after 1 p = Some d /\ 1 <= d) ->
  count_enter seg <= R.
Proof.
  intros D R a seg b H Ha Hp.
  destruct (within_limits_prefix D R a _ 0 0 0 (fun _ => eq_refl) H Ha) as [r' [Hr' H']].
  rewrite (Hr' eq_refl) in H'. clear Hr' r'.
  cbn [within_limits] in H'. change (0 =? 0) with true in H'. cbn iota in H'.
  apply andb_true_iff in H'. destruct H' as [_ H'].
  change (0 + 1) with 1 in H'.
  pose proof (nested_count D R b seg 1 0 H' ltac:(lia) Hp). lia.
Qed.
Print Assumptions limits_bound_nested.

(* ------------------------------------------------------------------ *)
(* the documented numbers *)
Theorem documented_limits : ld_max_depth = 10 /\ ld_max_refs = 255.
Proof. split; reflexivity. Qed.
Print Assumptions documented_limits.

(* n nested Enters need n free levels *)
Lemma enters_bound : forall n d r st,
  d <= 10 ->
  ld_run (mk d r) (repeat Enter n) = Some st -> N.of_nat n + d <= 10.
Proof.
  induction n as [|n IH]; intros d r st Hd H.
  - cbn. lia.
  - cbn [repeat ld_run] in H.
    destruct (ld_enter (mk d r)) as [ld'|] eqn:E; [|discriminate].
    apply ld_enter_some in E. destruct E as [Hlt [[-> ->]|[Hd0 [Hr0 ->]]]].
    + apply IH in H; lia.
    + apply IH in H; lia.
Qed.

Theorem chain_accepted_iff : forall n, accepted (chain n) <-> (n <= 10)%nat.
Proof.
  intros n. unfold accepted, chain. split.
  - intros [st H]. rewrite ld_run_app in H.
    destruct (ld_run ld_init (repeat Enter n)) as [l|] eqn:E; [|discriminate].
    apply (enters_bound n 0 0 l) in E; lia.
  - intros Hn.
    do 11 (destruct n as [|n]; [eexists; vm_compute; reflexivity|]). lia.
Qed.
Print Assumptions chain_accepted_iff.

(* n sequential expansions at depth one *)
Lemma pairs_run : forall n r,
  N.of_nat n + r <= 255 ->
  ld_run (mk 1 r) (concat (repeat [Enter; Exit] n)) = Some (mk 1 (r + N.of_nat n)).
Proof.
  induction n as [|n IH]; intros r H.
  - cbn. f_equal. f_equal. lia.
  - cbn [repeat concat app ld_run].
    rewrite ld_enter_pos by lia. change (1 + 1) with 2.
    rewrite dec_depth_pos by lia. change (2 - 1) with 1. change (1 =? 0) with false.
    cbn iota. rewrite IH by lia. f_equal. f_equal. lia.
Qed.

Lemma pairs_bound : forall n r st,
  r <= 255 ->
  ld_run (mk 1 r) (concat (repeat [Enter; Exit] n) ++ [Exit]) = Some st ->
  N.of_nat n + r <= 255.
Proof.
  induction n as [|n IH]; intros r st Hr H.
  - cbn. lia.
  - cbn [repeat concat app ld_run] in H.
    destruct (ld_enter (mk 1 r)) as [ld'|] eqn:E; [|discriminate].
    apply ld_enter_some in E. destruct E as [Hlt [[Hd0 _]|[Hd0 [Hr0 ->]]]]; [lia|].
    change (1 + 1) with 2 in H.
    rewrite dec_depth_pos in H by lia. change (2 - 1) with 1 in H.
    change (1 =? 0) with false in H. cbn iota in H.
    apply IH in H; lia.
Qed.

Theorem fan_accepted_iff : forall n, accepted (fan n) <-> (n <= 255)%nat.
Proof.
  intros n. unfold accepted, fan. split.
  - intros [st H]. cbn [ld_run] in H. change ld_init with (mk 0 0) in H.
    rewrite ld_enter_zero in H.
    apply pairs_bound in H; lia.
  - intros Hn. cbn [ld_run]. change ld_init with (mk 0 0).
    rewrite ld_enter_zero. rewrite ld_run_app. rewrite pairs_run by lia.
    cbn [ld_run]. eauto.
Qed.
Print Assumptions fan_accepted_iff.

Lemma flat_run : forall n,
  ld_run (mk 0 0) (concat (repeat [Enter; Exit] n)) = Some (mk 0 0).
Proof.
  induction n as [|n IH].
  - reflexivity.
  - cbn [repeat concat app ld_run]. rewrite ld_enter_zero.
    rewrite dec_depth_pos by lia. exact IH.
Qed.

Theorem flat_accepted : forall n, accepted (flat n).
Proof.
  intros n. exists (mk 0 0). apply flat_run.
Qed.
Print Assumptions flat_accepted.
