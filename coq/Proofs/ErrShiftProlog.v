(* Proofs/ErrShiftProlog.v -- C14 / C13: whitespace inserted at ANY insertion point of the prolog
   (the five kinds of [prolog_point], ErrShiftSubFinal.v), the side of the documents.
   (1) [parse_ok_shift_prolog]: the second parse yields [mid_doc (blen pre) (blen ws) d]; at the
       start of the text this is the shifted document of RangeShiftBuilder.v ([mid_doc_at_0]).
   (2) [ranges_move_with_prolog_whitespace]: the same, field by field ([doc_moved]), without
       [mid_doc]: everything except offsets is equal; every slice and every range moves rigidly
       with its START by [mv]; the root keeps its start and its end moves. *)
From Coq Require Import Ascii String.
From Coq Require Import List Arith NArith Bool Lia ZifyBool ZifyN ZifyNat.
Import ListNotations.
From RX Require Import Generated.
From RX.Model Require Import Base CharClass Stream Tokenizer Doc Builder Parse.
From RX.Proofs Require Import RangeShiftBase RangeShiftTokenizer RangeShiftBuilder
  ErrShiftFinal ErrShiftMidCore ErrShiftMidFinal ErrShiftDtdFinal ErrShiftEntFinal ErrShiftSubFinal.
Open Scope N_scope.

(* ------------------------------------------------------------------ *)
(** * (1) the documents *)
Lemma m_sl_at_0 k sl : m_sl 0 k sl = sh_sl k sl.
Proof. unfold m_sl. destruct (sl_start sl <? 0) eqn:E; [lia|reflexivity]. Qed.
Lemma m_rng_at_0 k r : m_rng 0 k r = sh_rng k r.
Proof. unfold m_rng. destruct (fst r <? 0) eqn:E; [lia|reflexivity]. Qed.
Lemma m_str_at_0 k s : m_str 0 k s = sh_str k s.
Proof. destruct s; cbn [m_str sh_str]; [rewrite m_sl_at_0|]; reflexivity. Qed.
Lemma m_sto_at_0 k s : m_sto 0 k s = sh_sto k s.
Proof. destruct s; cbn [m_sto sh_sto]; [rewrite m_str_at_0|]; reflexivity. Qed.
Lemma m_kind_at_0 k kd : m_kind 0 k kd = sh_kind k kd.
Proof.
  destruct kd as [|ns l ar nss|t v|s|st]; cbn [m_kind sh_kind]; rewrite ?m_sl_at_0, ?m_sto_at_0; try reflexivity.
  destruct v; cbn [option_map]; rewrite ?m_sl_at_0; reflexivity.
Qed.

(* at the start of the text, [mid_doc] is the shifted document of RangeShiftBuilder.v *)
Lemma mid_doc_at_0 k d : mid_doc 0 k d = sh_doc k d.
Proof.
  unfold mid_doc, sh_doc. f_equal.
  - apply map_ext. intros nd. unfold m_node, sh_node. rewrite m_kind_at_0, m_rng_at_0. reflexivity.
  - apply map_ext. intros a. unfold m_attr, sh_attr. rewrite m_sl_at_0, m_sto_at_0, m_rng_at_0. reflexivity.
  - apply map_ext. intros v. unfold m_ns, sh_ns. rewrite m_sto_at_0. f_equal.
    destruct (ns_name v); cbn [option_map]; rewrite ?m_str_at_0; reflexivity.
Qed.

Theorem parse_ok_shift_prolog : forall pre ws post opt d,
  forallb byte_is_space ws = true -> valid_utf8_b post = true -> post <> [] ->
  prolog_point pre post opt ->
  parse (pre ++ post) opt = Ok d ->
  parse (pre ++ ws ++ post) opt = Ok (mid_doc (blen pre) (blen ws) d).
Proof.
  intros pre ws post opt d Hws Hv Hpost [Hp|[Hp|[Hp|[Hp|Hp]]]] Hd.
  - destruct Hp as (-> & Hb & Hdc). cbn [app] in *. change (blen []) with 0.
    destruct ws as [|w ws'] eqn:Ews.
    + cbn [app]. change (blen []) with 0. rewrite mid_doc_0. exact Hd.
    + rewrite <- Ews in *. rewrite mid_doc_at_0.
      apply (parse_ok_shift ws post opt d Hws Hv); [rewrite Ews; discriminate|exact Hb|exact Hdc|exact Hd].
  - exact (parse_ok_shift_mid_partial pre ws post opt d Hws Hv Hp Hd).
  - exact (parse_ok_shift_dtd pre ws post opt d Hws Hv Hpost Hp Hd).
  - exact (parse_ok_shift_ent pre ws post opt d Hws Hv Hpost Hp Hd).
  - exact (parse_ok_shift_sub pre ws post opt d Hws Hv Hpost Hp Hd).
Qed.
Print Assumptions parse_ok_shift_prolog.

(* ------------------------------------------------------------------ *)
(** * (2) field by field *)
Section Moved.
Variable P k : N.

(* an offset: what lies below the point stays, the rest moves *)
Definition mv (x : N) : N := if x <? P then x else x + k.
(* a slice / a range moves rigidly with its start *)
Definition mv_slice (sl : slice) : slice :=
  {| sl_start := mv (sl_start sl); sl_end := sl_end sl + (mv (sl_start sl) - sl_start sl) |}.
Definition mv_range (r : range) : range := (mv (fst r), snd r + (mv (fst r) - fst r)).
(* strings: a borrowed one keeps its kind and moves; static and owned ones are unchanged *)
Definition mv_str (s : str) : str := match s with SIn sl => SIn (mv_slice sl) | SStatic bs => SStatic bs end.
Definition mv_storage (s : storage) : storage :=
  match s with Borrowed x => Borrowed (mv_str x) | Owned bs => Owned bs end.
Definition mv_kind (kd : node_kind) : node_kind :=
  match kd with
  | KRoot => KRoot
  | KElement ns local ar nss => KElement ns (mv_slice local) ar nss
  | KPI t v => KPI (mv_slice t) (option_map mv_slice v)
  | KComment s => KComment (mv_slice s)
  | KText st => KText (mv_storage st)
  end.

Record node_moved (n n' : node_data) : Prop := {
  nm_parent : nd_parent n' = nd_parent n;
  nm_prev : nd_prev_sibling n' = nd_prev_sibling n;
  nm_next : nd_next_subtree n' = nd_next_subtree n;
  nm_last : nd_last_child n' = nd_last_child n;
  nm_kind : nd_kind n' = mv_kind (nd_kind n);
  (* the root keeps its start, its end moves; every other range moves with its start *)
  nm_range : nd_range n' = match nd_kind n with
                           | KRoot => (fst (nd_range n), snd (nd_range n) + k)
                           | _ => mv_range (nd_range n)
                           end
}.
Record attr_moved (a a' : attr_data) : Prop := {
  am_ns : ad_ns_idx a' = ad_ns_idx a;
  am_local : ad_local a' = mv_slice (ad_local a);
  am_value : ad_value a' = mv_storage (ad_value a);
  am_range : ad_range a' = mv_range (ad_range a);
  (* the name and the "=" are sub-ranges of the range, given by their lengths *)
  am_qname : ad_qname_len a' = ad_qname_len a;
  am_eq : ad_eq_len a' = ad_eq_len a
}.
Record ns_moved (v v' : namespace) : Prop := {
  vm_name : ns_name v' = option_map mv_str (ns_name v);
  vm_uri : ns_uri v' = mv_storage (ns_uri v)
}.
Definition list_moved {A} (R : A -> A -> Prop) (l l' : list A) : Prop :=
  length l' = length l /\ forall i x, nth_error l i = Some x -> exists x', nth_error l' i = Some x' /\ R x x'.
Record doc_moved (d d' : document) : Prop := {
  dm_nodes : list_moved node_moved (d_nodes d) (d_nodes d');
  dm_attrs : list_moved attr_moved (d_attrs d) (d_attrs d');
  dm_ns : list_moved ns_moved (d_ns_values d) (d_ns_values d');
  dm_tree : d_ns_tree d' = d_ns_tree d
}.

(* when both ends lie on the same side of the point, the range moves end by end *)
Lemma mv_range_ends r : (fst r <? P) = (snd r <? P) -> mv_range r = (mv (fst r), mv (snd r)).
Proof. unfold mv_range, mv. intros E. rewrite <- E. destruct (fst r <? P); f_equal; lia. Qed.
Lemma mv_slice_ends sl : (sl_start sl <? P) = (sl_end sl <? P) ->
  mv_slice sl = {| sl_start := mv (sl_start sl); sl_end := mv (sl_end sl) |}.
Proof. unfold mv_slice, mv. intros E. rewrite <- E. destruct (sl_start sl <? P); f_equal; lia. Qed.

Lemma m_sl_mv sl : m_sl P k sl = mv_slice sl.
Proof.
  unfold m_sl, mv_slice, mv, sh_sl. destruct sl as [a e]. cbn [sl_start sl_end].
  destruct (a <? P); f_equal; lia.
Qed.
Lemma m_rng_mv r : m_rng P k r = mv_range r.
Proof.
  unfold m_rng, mv_range, mv, sh_rng. destruct r as [a e]. cbn [fst snd].
  destruct (a <? P); f_equal; lia.
Qed.
Lemma m_str_mv s : m_str P k s = mv_str s.
Proof. destruct s; cbn [m_str mv_str]; [rewrite m_sl_mv|]; reflexivity. Qed.
Lemma m_sto_mv s : m_sto P k s = mv_storage s.
Proof. destruct s; cbn [m_sto mv_storage]; [rewrite m_str_mv|]; reflexivity. Qed.
Lemma m_kind_mv kd : m_kind P k kd = mv_kind kd.
Proof.
  destruct kd as [|ns l ar nss|t v|s|st]; cbn [m_kind mv_kind]; rewrite ?m_sl_mv, ?m_sto_mv; try reflexivity.
  destruct v; cbn [option_map]; rewrite ?m_sl_mv; reflexivity.
Qed.

Lemma map_moved {A} (R : A -> A -> Prop) (g : A -> A) l : (forall x, R x (g x)) -> list_moved R l (map g l).
Proof.
  intros H. split; [apply map_length|]. intros i x Hx. exists (g x). split; [|apply H].
  rewrite nth_error_map, Hx. reflexivity.
Qed.

Lemma mid_doc_moved d : doc_moved d (mid_doc P k d).
Proof.
  constructor; cbn [mid_doc d_nodes d_attrs d_ns_values d_ns_tree]; [| | |reflexivity].
  - apply map_moved. intros n. constructor; cbn [m_node nd_parent nd_prev_sibling nd_next_subtree nd_last_child nd_kind nd_range];
      try reflexivity; [apply m_kind_mv|].
    destruct (nd_kind n); cbn [is_root_kind]; [reflexivity|apply m_rng_mv..].
  - apply map_moved. intros a. constructor; cbn [m_attr ad_ns_idx ad_local ad_value ad_range ad_qname_len ad_eq_len];
      try reflexivity; [apply m_sl_mv|apply m_sto_mv|apply m_rng_mv].
  - apply map_moved. intros v. constructor; cbn [m_ns ns_name ns_uri]; [|apply m_sto_mv].
    destruct (ns_name v); cbn [option_map]; rewrite ?m_str_mv; reflexivity.
Qed.

End Moved.

Theorem ranges_move_with_prolog_whitespace : forall pre ws post opt d,
  forallb byte_is_space ws = true -> valid_utf8_b post = true -> post <> [] ->
  prolog_point pre post opt ->
  parse (pre ++ post) opt = Ok d ->
  exists d', parse (pre ++ ws ++ post) opt = Ok d' /\ doc_moved (blen pre) (blen ws) d d'.
Proof.
  intros pre ws post opt d Hws Hv Hpost Hp Hd. exists (mid_doc (blen pre) (blen ws) d).
  split; [exact (parse_ok_shift_prolog pre ws post opt d Hws Hv Hpost Hp Hd)|apply mid_doc_moved].
Qed.
Print Assumptions ranges_move_with_prolog_whitespace.

(* ------------------------------------------------------------------ *)
(** * Examples *)
From RX.Proofs Require Import ErrShiftSubSanity.

Definition node_ranges (r : res document) : list range :=
  match r with Ok d => map nd_range (d_nodes d) | _ => [] end.
Definition attr_ranges (r : res document) : list range :=
  match r with Ok d => map ad_range (d_attrs d) | _ => [] end.

(* the document of ErrShiftSubSanity.v; the point (51) lies inside the internal subset.  The nodes
   that come from the value of the entity m, declared BEFORE the point, keep their ranges
   (41,49), (44,45); those from the values of e and f, declared BEHIND it, the root element,
   its attribute and the comment of the subset move by 3; the root keeps its start *)
Example exs_ranges :
  blen exs_pre = 51 /\
  node_ranges (parse (exs_pre ++ exs_post) dtd_opt)
    = [(0, 147); (70, 80); (120, 147); (41, 49); (44, 45); (92, 100); (95, 96); (63, 68)] /\
  node_ranges (parse (exs_pre ++ [10; 32; 32] ++ exs_post) dtd_opt)
    = [(0, 150); (73, 83); (123, 150); (41, 49); (44, 45); (95, 103); (98, 99); (66, 71)] /\
  attr_ranges (parse (exs_pre ++ exs_post) dtd_opt) = [(123, 133)] /\
  attr_ranges (parse (exs_pre ++ [10; 32; 32] ++ exs_post) dtd_opt) = [(126, 136)].
Proof. vm_compute. repeat split; reflexivity. Qed.

(* ... and through the theorem *)
Example exs_moved : forall d, parse (exs_pre ++ exs_post) dtd_opt = Ok d ->
  exists d', parse (exs_pre ++ [10; 32; 32] ++ exs_post) dtd_opt = Ok d' /\ doc_moved 51 3 d d'.
Proof.
  intros d H. apply (ranges_move_with_prolog_whitespace exs_pre [10; 32; 32] exs_post dtd_opt d); try reflexivity;
    [discriminate|exact exs_prolog|exact H].
Qed.

(* why ranges move with their START and not end by end: a comment that ends exactly at the point
   (10) keeps its range (0,10), although [mv 10 1 10 = 11] *)
Example boundary_end :
  insertion_point (b "<!-- c -->") (b "<r/>") default_options /\
  node_ranges (parse (b "<!-- c -->" ++ b "<r/>") default_options) = [(0, 14); (0, 10); (10, 14)] /\
  node_ranges (parse (b "<!-- c -->" ++ [32] ++ b "<r/>") default_options) = [(0, 15); (0, 10); (11, 15)] /\
  mv 10 1 10 = 11.
Proof. split; [apply (insertion_point_b_ok _ _ _ 1); vm_compute; reflexivity|]. vm_compute. repeat split; reflexivity. Qed.
