(* Proofs/CstSound6uText.v -- CstSoundPText.v re-instantiated on Frag6u (Proofs/CstSound6uLex.v).  (no
   reference to a declared entity is used: P9): CstSoundNText.v over the fragment of CstSoundP.v,
   with an arbitrary list [es] of declared entities in the context.  A reference that the tokenizer
   reads as an entity reference cannot occur (no_ref_entity).  The decoding of the literals is that
   of CstSoundNText.v. *)
From Coq Require Import String.
From Coq Require Import List Arith NArith Bool Lia ZifyBool ZifyN ZifyNat.
Import ListNotations.
From RX Require Import Generated.
From RX.Model Require Import Base CharClass Stream Tokenizer Doc Builder Parse.
From RX.Spec Require Cst Chars CstU CstNs Scope.
From RX.Spec Require CstText.
From RX.Spec Require Import CstFull.
From RX.Proofs Require Import Tactics CstLex CstULex CstTextLex.
From RX.Proofs Require RejectProofs CharTablesProofs BorrowParse WfParse CstBuild CstTextBuild CstFullS2Lex CstFullS2Sem CstFullS2Build.
From RX.Proofs Require Import CstSound CstSoundT CstSoundTLex CstSoundULex CstSoundBuild CstSoundTBuild CstSoundTText.
From RX.Proofs Require Import CstSoundN CstSoundNLex CstSoundNBuild CstSoundNText.
From RX.Proofs Require Import CstSoundP CstSoundPEnt CstSoundPLex CstSoundPBuild CstSound6 CstSound6U CstSound6uLex.
Open Scope N_scope.

Section TextP.
Variable text : bytes.
Hypothesis HF : Frag6u text.
Hypothesis HN : no_ge_refs text = true.
Variable es : list entity.
Notation W := (CstLex.W text).
Notation WV := (CstULex.WV text).
Notation sb := (slice_bytes text).
Notation T_ := (Parse.token text).
Notation WS := (CstSoundTText.WS text).
Notation WS_cons := (CstSoundTText.WS_cons text).
Notation WS_app := (CstSoundTText.WS_app text).
Notation try_ws := (CstSoundTText.try_ws text).
Notation skip_bytes_ws := (CstSoundTText.skip_bytes_ws text).
Notation consume_byte_ws := (CstSoundTText.consume_byte_ws text).

(* ---- names read from a window (entity names: any Name) ---- *)
Definition nb (y : N) : Prop := y <> 59 /\ y <> 35.
Lemma name_char_no59 c : is_scalar c = true -> char_is_name c = true -> Forall nb (utf8 c).
Proof.
  intros Hs Hc.
  assert (A : Forall (fun y => y <> 59) (utf8 c)) by (apply utf8_no_byte; [lia|]; intros ->; vm_compute in Hc; discriminate).
  assert (B0 : Forall (fun y => y <> 35) (utf8 c)) by (apply utf8_no_byte; [lia|]; intros ->; vm_compute in Hc; discriminate).
  rewrite Forall_forall in *. intros y Hy. split; auto.
Qed.

Lemma skip_name_loop_wsv : forall fuel e p l more s', WS e p l more -> U8.Valid l ->
  skip_name_loop fuel (sst e p (l ++ more)) = Ok s' ->
  exists x l', l = x ++ l' /\ s' = sst e (p + blen x) (l' ++ more) /\ Forall nb x.
Proof.
  induction fuel as [|fu IH]; intros e p l more s' HW HV H; cbn [skip_name_loop] in H; [noerr|].
  pose proof HW as [HW0 Hw].
  destruct (Valid_inv l HV) as [->|(c & l' & -> & Hc & Hv')].
  { unfold next_char in H. rewrite at_end_sst in H. rewrite blen_nil in Hw. replace (e <=? p) with true in H by lia.
    cbn [bind] in H. inversion H; subst. exists [], []. rewrite blen_nil, N.add_0_r. auto. }
  rewrite blen_app in Hw. rewrite <- app_assoc in H.
  rewrite CstFullS2Lex.next_char_sst_u in H by (try exact Hc; lia). cbn [bind] in H.
  destruct (char_is_name c) eqn:Ecn.
  - rewrite CstFullS2Lex.advance_sst_u in H by lia. cbn [bind] in H.
    assert (HW1 : WS e (p + blen (utf8 c)) l' more) by (apply (WS_app e p (utf8 c)); exact HW).
    destruct (IH _ _ _ _ _ HW1 Hv' H) as (x & l2 & -> & -> & H59). exists (utf8 c ++ x), l2.
    rewrite blen_app, <- app_assoc, N.add_assoc. split; [reflexivity|]. split; [reflexivity|].
    apply Forall_app. split; [apply name_char_no59; assumption|exact H59].
  - inversion H; subst. exists [], (utf8 c ++ l'). rewrite blen_nil, N.add_0_r, <- app_assoc. auto.
Qed.

Lemma start_is_name_c c : is_scalar c = true -> char_is_name_start c = true -> char_is_name c = true.
Proof. apply start_is_name. Qed.

Lemma consume_name_wsv e p l more nm s' : WS e p l more -> U8.Valid l -> consume_name text (sst e p (l ++ more)) = Ok (nm, s') ->
  exists name l', l = name ++ l' /\ name <> [] /\ Forall nb name /\ sb nm = name /\
                  s' = sst e (p + blen name) (l' ++ more) /\ WS e (p + blen name) l' more.
Proof.
  intros HW HV H. pose proof HW as [HW0 Hw].
  unfold consume_name in H. cbn [sst s_pos] in H. ib H s1 H1. ib H s2 H2.
  unfold slice_back in H2. apply mk_slice_sl in H2. subst s2.
  destruct (slice_len (sl p (s_pos s1)) =? 0) eqn:El; [noerr|]. injection H as <- <-.
  unfold skip_name in H1.
  destruct (Valid_inv l HV) as [->|(c & l' & -> & Hc & Hv')].
  { unfold next_char in H1. rewrite at_end_sst in H1. rewrite blen_nil in Hw. replace (e <=? p) with true in H1 by lia.
    cbn [bind] in H1. injection H1 as <-. unfold slice_len in El. cbn in El. lia. }
  rewrite blen_app in Hw. rewrite <- app_assoc in H1.
  rewrite CstFullS2Lex.next_char_sst_u in H1 by (try exact Hc; lia). cbn [bind] in H1.
  destruct (char_is_name_start c) eqn:Ecs; [|noerr].
  rewrite CstFullS2Lex.advance_sst_u in H1 by lia. cbn [bind] in H1.
  assert (HW1 : WS e (p + blen (utf8 c)) l' more) by (apply (WS_app e p (utf8 c)); exact HW).
  destruct (skip_name_loop_wsv _ _ _ _ _ _ HW1 Hv' H1) as (x & l2 & -> & -> & H59).
  exists (utf8 c ++ x), l2. cbn [sst s_pos]. rewrite blen_app, N.add_assoc.
  split; [rewrite <- app_assoc; reflexivity|]. split.
  { pose proof (utf8_len c) as Hl. destruct (utf8 c); [unfold blen in Hl; cbn in Hl; lia|discriminate]. }
  split; [apply Forall_app; split; [apply name_char_no59; [exact Hc|apply start_is_name_c; assumption]|exact H59]|].
  split.
  { rewrite <- N.add_assoc, <- blen_app. rewrite !app_assoc in HW0. rewrite <- (app_assoc _ l2 more) in HW0.
    apply (W_slice text _ _ _ HW0). }
  split; [reflexivity|]. rewrite <- N.add_assoc, <- blen_app. apply (WS_app e p (utf8 c ++ x)).
  rewrite <- app_assoc. exact HW.
Qed.

(* ---- consume_reference on a window ---- *)
Lemma ref_ok_here p rest : W p (38 :: 35 :: rest) -> ref_ok_at rest = true.
Proof.
  intros [H _]. pose proof (charrefs_skipn (N.to_nat p) text (fp_refs _ HF)) as Hc. rewrite H in Hc.
  cbn [charrefs_scalar] in Hc. apply andb_true_iff in Hc. tauto.
Qed.

Lemma cref_inv_p e p l1 more r s' : WS e p (38 :: l1) more -> U8.Valid (38 :: l1) ->
  consume_reference text (sst e p ((38 :: l1) ++ more)) = Ok (Some (r, s')) ->
  (exists (hex : bool) ds l', l1 = [35] ++ (if hex then [120] else []) ++ ds ++ [59] ++ l' /\
      T.wf_charref hex ds = true /\ (exists ch, r = RefChar ch) /\
      s' = sst e (p + 2 + (if hex then 1 else 0) + blen ds + 1) (l' ++ more) /\
      WS e (p + 2 + (if hex then 1 else 0) + blen ds + 1) l' more) \/
  (exists pe l', l1 = T.predef_name pe ++ [59] ++ l' /\ (exists ch, r = RefChar ch) /\
      s' = sst e (p + 1 + blen (T.predef_name pe) + 1) (l' ++ more) /\
      WS e (p + 1 + blen (T.predef_name pe) + 1) l' more) \/
  (exists nm name l5, r = RefEntity nm /\ l1 = name ++ 59 :: l5 /\ Forall nb name /\
     forallb (fun n => negb (bytes_eqb name n)) [b "quot"; b "amp"; b "apos"; b "lt"; b "gt"] = true /\
     sb nm = name /\ s' = sst e (p + 1 + blen name + 1) (l5 ++ more) /\ WS e (p + 1 + blen name + 1) l5 more).
Proof.
  intros HW HV H. unfold consume_reference in H. rewrite (try_ws 38 _ _ _ _ HW) in H.
  change (38 =? 38) with true in H. cbv iota in H. cbn [negb] in H.
  pose proof (WS_cons _ _ _ _ _ HW) as HW1.
  assert (HV1 : U8.Valid l1) by (apply (Valid_app_inv [38] l1); [apply Valid_lit; reflexivity|exact HV]).
  rewrite (try_ws 35 _ _ _ _ HW1) in H.
  destruct l1 as [|x1 l2].
  { (* "&" at the end of the window *)
    cbv iota in H. destruct (consume_name text _) as [[nm s2]| | |] eqn:En; cbn [bind] in H; try discriminate.
    destruct (consume_name_wsv _ _ _ _ _ _ HW1 HV1 En) as (name & l' & E & Hne & _). destruct name; [congruence|discriminate]. }
  destruct (x1 =? 35) eqn:E35.
  - (* numeric *)
    assert (x1 = 35) by lia. subst x1. cbv iota in H.
    pose proof (WS_cons _ _ _ _ _ HW1) as HW2.
    rewrite (try_ws 120 _ _ _ _ HW2) in H.
    assert (NUM : forall hex l3 q, WS e q l3 more -> (hex = false -> match l3 with 120 :: _ => False | _ => True end) ->
              l2 = (if hex then [120] else []) ++ l3 -> q = p + 2 + (if hex then 1 else 0) ->
              (let! r0 := (let! (value, s) := consume_bytes text (if hex then is_ascii_hexdigit else is_ascii_digit) (sst e q (l3 ++ more)) in
                 let digits := slice_bytes text value in
                 match digits with
                 | [] => Ok None
                 | _ => let n := digits_val (if hex then 16 else 10) digits 0 in
                        if u32_max <? n then Ok None
                        else let c := if is_scalar n then n else 65533 in
                             if negb (char_is_char c) then Ok None else Ok (Some (RefChar c, s))
                 end) in
               match r0 with
               | None => Ok None
               | Some (r, s) => match consume_byte text 59 s with
                                | Ok s' => Ok (Some (r, s')) | Err _ => Ok None | Panic p => Panic p | OutOfFuel => OutOfFuel end
               end) = Ok (Some (r, s')) ->
              exists ds l', l3 = ds ++ [59] ++ l' /\ T.wf_charref hex ds = true /\ (exists ch, r = RefChar ch) /\
                s' = sst e (q + blen ds + 1) (l' ++ more) /\ WS e (q + blen ds + 1) l' more).
    { intros hex l3 q HW3 Hnx El2 Eq H0. ib H0 r0 Hr0. ib Hr0 vq Hvq. destruct vq as [value s3].
      unfold consume_bytes in Hvq.
      destruct (skip_bytes_ws (if hex then is_ascii_hexdigit else is_ascii_digit) _ _ _ _ HW3)
        as (ds & l4 & -> & Hds & Hst & Esk & HW4).
      rewrite Esk in Hvq. ib Hvq vsl Hsl. unfold slice_back in Hsl. apply mk_slice_sl in Hsl. cbn [sst s_pos] in Hsl.
      inversion Hvq; subst value s3. clear Hvq. subst vsl.
      pose proof (proj1 HW3) as HW30. rewrite <- app_assoc in HW30.
      rewrite (W_slice text q ds _ HW30) in Hr0.
      destruct ds as [|d0 dr] eqn:Eds; [inversion Hr0; subst r0; discriminate|]. rewrite <- Eds in *.
      assert (Hdne : ds <> []) by (rewrite Eds; discriminate). clear Eds.
      destruct ds as [|d0' dr']; [congruence|]. cbv zeta in Hr0.
      destruct (u32_max <? digits_val (if hex then 16 else 10) (d0' :: dr') 0); [inversion Hr0; subst r0; discriminate|].
      set (n := digits_val (if hex then 16 else 10) (d0' :: dr') 0) in *.
      destruct (char_is_char (if is_scalar n then n else 65533)) eqn:Ecc; cbn [negb] in Hr0; inversion Hr0; subst r0; [|discriminate].
      destruct (consume_byte text 59 _) as [s4| | |] eqn:E59; inversion H0; subst r s'. clear H0 Hr0.
      destruct (consume_byte_ws _ _ _ _ _ _ HW4 E59) as (l5 & -> & ->).
      rewrite digits_classes in Hds.
      (* the number is a scalar value: T4 *)
      assert (Hn : n = T.ref_val hex (d0' :: dr')).
      { unfold n, T.ref_val. apply digits_val_ref. exact Hds. }
      assert (Hsc : is_scalar n = true).
      { destruct HW as [HW0 _]. cbn [app] in HW0. pose proof (ref_ok_here _ _ HW0) as Hok.
        rewrite El2 in Hok.
        destruct hex.
        - cbn [app] in Hok. rewrite <- !app_assoc in Hok. cbn [app] in Hok.
          pose proof (ref_ok_at_hex (d0' :: dr') (l5 ++ more) Hds) as Hh. cbn [app] in Hh.
          rewrite Hh in Hok. rewrite scalar_eq, <- Hn in Hok. exact Hok.
        - cbn [app] in Hok. rewrite <- !app_assoc in Hok. cbn [app] in Hok.
          pose proof (ref_ok_at_dec ((d0' :: dr') ++ 59 :: l5 ++ more) (d0' :: dr') (l5 ++ more) (Hnx eq_refl) eq_refl Hds) as Hh. cbn [app] in Hh.
          rewrite Hh in Hok. rewrite scalar_eq, <- Hn in Hok. exact Hok. }
      rewrite Hsc in Ecc.
      exists (d0' :: dr'), l5. split; [reflexivity|]. split.
      { unfold T.wf_charref. rewrite Hds. cbn [andb]. rewrite <- Hn.
        destruct (CharTablesProofs.char_tables_conform n Hsc) as (Ec & _). rewrite <- Ec. exact Ecc. }
      split; [eauto|]. split; [reflexivity|]. apply (WS_cons e _ 59). exact HW4. }
    destruct l2 as [|x2 l3].
    + cbv iota in H. destruct (NUM false [] (p + 1 + 1) HW2 ltac:(intros _; exact I) eq_refl ltac:(cbn; lia) H)
        as (ds & l' & E & _). destruct ds; discriminate.
    + destruct (x2 =? 120) eqn:E120.
      * assert (x2 = 120) by lia. subst x2. cbv iota in H.
        destruct (NUM true l3 (p + 1 + 1 + 1) (WS_cons _ _ _ _ _ HW2) ltac:(intros; discriminate) eq_refl ltac:(cbn; lia) H)
          as (ds & l' & -> & Hwf & Hr & -> & HW5).
        left. exists true, ds, l'. split; [reflexivity|]. split; [exact Hwf|]. split; [exact Hr|].
        replace (p + 2 + 1 + blen ds + 1) with (p + 1 + 1 + 1 + blen ds + 1) by lia. split; [reflexivity|exact HW5].
      * cbv iota in H.
        destruct (NUM false (x2 :: l3) (p + 1 + 1) HW2
                      ltac:(intros _; destruct x2 as [|pp]; [exact I|]; repeat (destruct pp as [pp|pp|]; try exact I); discriminate)
                      eq_refl ltac:(cbn; lia) H) as (ds & l' & E & Hwf & Hr & -> & HW5).
        left. exists false, ds, l'. cbn [app]. split; [rewrite E; reflexivity|]. split; [exact Hwf|]. split; [exact Hr|].
        replace (p + 2 + 0 + blen ds + 1) with (p + 1 + 1 + blen ds + 1) by lia. split; [reflexivity|exact HW5].
  - (* named *)
    cbv iota in H.
    destruct (consume_name text _) as [[nm s2]| | |] eqn:En; cbn [bind] in H; try discriminate.
    destruct (consume_name_wsv _ _ _ _ _ _ HW1 HV1 En) as (name & l' & E & _ & H59 & Hsb & -> & HW2).
    rewrite Hsb in H.
    destruct (consume_byte text 59 _) as [s4| | |] eqn:E59; inversion H; subst s'. clear H.
    destruct (consume_byte_ws _ _ _ _ _ _ HW2 E59) as (l5 & -> & ->).
    assert (PRE : forall pe, bytes_eqb name (T.predef_name pe) = true ->
              exists l'0, x1 :: l2 = T.predef_name pe ++ [59] ++ l'0 /\
                sst e (p + 1 + blen name + 1) (l5 ++ more) = sst e (p + 1 + blen (T.predef_name pe) + 1) (l'0 ++ more) /\
                WS e (p + 1 + blen (T.predef_name pe) + 1) l'0 more).
    { intros pe Hb. apply bytes_eqb_true in Hb. clear Hsb. subst name. exists l5. split; [exact E|]. split; [reflexivity|].
      apply (WS_cons e _ 59). exact HW2. }
    destruct (bytes_eqb name (b "quot")) eqn:B1.
    { right; left. destruct (PRE T.Quot B1) as (l0 & A & B & C). exists T.Quot, l0. subst r. eauto. }
    destruct (bytes_eqb name (b "amp")) eqn:B2.
    { right; left. destruct (PRE T.Amp B2) as (l0 & A & B & C). exists T.Amp, l0. subst r. eauto. }
    destruct (bytes_eqb name (b "apos")) eqn:B3.
    { right; left. destruct (PRE T.Apos B3) as (l0 & A & B & C). exists T.Apos, l0. subst r. eauto. }
    destruct (bytes_eqb name (b "lt")) eqn:B4.
    { right; left. destruct (PRE T.Lt B4) as (l0 & A & B & C). exists T.Lt, l0. subst r. eauto. }
    destruct (bytes_eqb name (b "gt")) eqn:B5.
    { right; left. destruct (PRE T.Gt B5) as (l0 & A & B & C). exists T.Gt, l0. subst r. eauto. }
    right; right. subst r. exists nm, name, l5. split; [reflexivity|]. split; [exact E|]. split; [exact H59|].
    split; [cbn [forallb]; rewrite B1, B2, B3, B4, B5; reflexivity|]. split; [exact Hsb|]. split; [reflexivity|].
    apply (WS_cons e _ 59). exact HW2.
Qed.

(* ---- the byte pieces of a window walked byte by byte ---- *)
Lemma ref_piece_step_p e p l1 more r s' : WS e p (38 :: l1) more -> U8.Valid (38 :: l1) ->
  consume_reference text (sst e p ((38 :: l1) ++ more)) = Ok (Some (r, s')) ->
  (exists nm, r = RefEntity nm) \/
  exists pc l' q, 38 :: l1 = T.r_piece pc ++ l' /\ piece_ok pc /\ T.is_lit pc = false /\
                  s' = sst e q (l' ++ more) /\ WS e q l' more.
Proof.
  intros HW HV H. destruct (cref_inv_p _ _ _ _ _ _ HW HV H)
    as [(hex & ds & l' & -> & Hwf & _ & -> & HW')|[(pe & l' & -> & _ & -> & HW')|(nm & _ & _ & -> & _)]]; [right|right|left; eauto].
  - exists (T.PCharRef hex ds), l', (p + 2 + (if hex then 1 else 0) + blen ds + 1).
    split; [cbn [T.r_piece]; rewrite <- !app_assoc; reflexivity|]. split; [exact Hwf|]. split; [reflexivity|].
    split; [reflexivity|exact HW'].
  - exists (T.PPredef pe), l', (p + 1 + blen (T.predef_name pe) + 1).
    split; [cbn [T.r_piece]; rewrite <- !app_assoc; reflexivity|]. split; [exact I|]. split; [reflexivity|].
    split; [reflexivity|exact HW'].
Qed.

Lemma split_unique (q : N) : forall (a c X Y : bytes), a ++ q :: X = c ++ q :: Y ->
  Forall (fun y => y <> q) a -> Forall (fun y => y <> q) c -> a = c.
Proof.
  induction a as [|x a IH]; intros c X Y E Ha Hc.
  - destruct c as [|y c]; [reflexivity|]. cbn [app] in E. injection E as <- _. inversion Hc; congruence.
  - destruct c as [|y c]; cbn [app] in E.
    + injection E as -> _. inversion Ha; congruence.
    + injection E as -> E. inversion Ha; subst. inversion Hc; subst. f_equal. eapply IH; eauto.
Qed.

(* P9: no reference to a declared entity *)
Lemma no_ref_entity e p l1 more nm s' : WS e p (38 :: l1) more -> U8.Valid (38 :: l1) ->
  consume_reference text (sst e p ((38 :: l1) ++ more)) = Ok (Some (RefEntity nm, s')) -> False.
Proof.
  intros HW HV H.
  destruct (cref_inv_p _ _ _ _ _ _ HW HV H)
    as [(hex & ds & l' & _ & _ & (ch & Er) & _)|[(pe & l' & _ & (ch & Er) & _)|(nm0 & name & l5 & _ & El & Hnb & Hnp & _)]]; try discriminate.
  pose proof (scan_at text _ _ _ HN (proj1 HW)) as Hs. cbn [app] in Hs. change (38 =? 38) with true in Hs. cbv iota in Hs.
  rewrite El in Hs. apply orb_true_iff in Hs. destruct Hs as [Hs|Hs].
  - destruct name as [|y nm']; cbn [app is_hash] in Hs; [discriminate|]. inversion Hnb as [|? ? (_ & Hy) _]; subst. lia.
  - unfold predef_at in Hs. apply existsb_exists in Hs. destruct Hs as (n & Hin & Hp).
    destruct (prefix_b_split _ _ Hp) as (rest & Er). rewrite <- !app_assoc in Er. cbn [app] in Er.
    assert (En : name = n).
    { apply (split_unique 59 name n _ _ Er).
      - eapply Forall_impl; [|exact Hnb]. intros y [Hy _]. exact Hy.
      - apply Forall_forall. intros y Hy. destruct Hin as [<-|[<-|[<-|[<-|[<-|[]]]]]]; cbn in Hy; intuition (subst; lia). }
    subst n. rewrite forallb_forall in Hnp.
    assert (Hin' : In name [b "quot"; b "amp"; b "apos"; b "lt"; b "gt"]).
    { destruct Hin as [<-|[<-|[<-|[<-|[<-|[]]]]]]; cbn; auto 10. }
    specialize (Hnp _ Hin'). rewrite bytes_eqb_same in Hnp. discriminate.
Qed.

Lemma ptext_loop_inv_p pcf r : forall fuel e p l more buf c buf' c',
  WS e p l more -> (exists dn, U8.Valid (dn ++ l)) ->
  BorrowParse.ptext_loop text pcf r fuel (sst e p (l ++ more)) buf c = Ok (buf', c') ->
  c' = c /\ exists ps, l = T.r_pieces ps /\ pieces_ok ps.
Proof.
  induction fuel as [|fu IH]; intros e p l more buf c buf' c' HW HV H; cbn [BorrowParse.ptext_loop] in H; [noerr|].
  rewrite at_end_sst in H. pose proof HW as [HW0 Hw].
  destruct l as [|x l1].
  { rewrite blen_nil in Hw. replace (e <=? p) with true in H by lia. inversion H; subst.
    split; [reflexivity|]. exists []. split; [reflexivity|apply pieces_ok_nil]. }
  rewrite blen_cons in Hw. replace (e <=? p) with false in H by lia.
  ib H q Hq. destruct q as [ch s1]. unfold parse_next_chunk in Hq. rewrite at_end_sst in Hq.
  replace (e <=? p) with false in Hq by lia. cbn [app curr_byte_unchecked sst s_rest bind] in Hq.
  destruct (x =? 38) eqn:E38.
  - assert (x = 38) by lia. subst x. cbv zeta in Hq. ib Hq rf Hrf.
    change (38 :: l1 ++ more) with ((38 :: l1) ++ more) in Hrf. fold (sst e p ((38 :: l1) ++ more)) in Hrf.
    destruct rf as [[rf s2]|]; [|noerr].
    destruct HV as (dn & HV).
    assert (HV0 : U8.Valid (38 :: l1)) by (apply (Valid_app_inv dn); [eapply valid_split; [|exact HV]; lia|exact HV]).
    destruct (ref_piece_step_p _ _ _ _ _ _ HW HV0 Hrf) as [[nm ->]|(pc & l' & q & E & Hok & Hnl & -> & HW')].
    { exfalso. exact (no_ref_entity _ _ _ _ _ _ HW HV0 Hrf). }
    destruct rf as [nm|cp].
    { exfalso. exact (no_ref_entity _ _ _ _ _ _ HW HV0 Hrf). }
    inversion Hq; subst ch s1. clear Hq.
    assert (HV' : exists dn', U8.Valid (dn' ++ l')) by (exists (dn ++ T.r_piece pc); rewrite <- app_assoc, <- E; exact HV).
    destruct (IH _ _ _ _ _ _ _ _ HW' HV' H) as (-> & ps & -> & Hps).
    split; [reflexivity|]. exists (pc :: ps). split; [exact E|]. apply pieces_ok_ref; assumption.
  - fold (sst e p (x :: l1 ++ more)) in Hq. rewrite advance1_sst in Hq by lia. cbn [bind] in Hq.
    inversion Hq; subst ch s1. clear Hq.
    assert (HV' : exists dn', U8.Valid (dn' ++ l1)) by (destruct HV as (dn & HV); exists (dn ++ [x]); rewrite <- app_assoc; exact HV).
    destruct (IH _ _ _ _ _ _ _ _ (WS_cons _ _ _ _ _ HW) HV' H) as (-> & ps & -> & Hps).
    split; [reflexivity|]. exists (cons_lit x ps). split; [rewrite r_cons_lit; reflexivity|].
    apply pieces_ok_lit; [lia|exact Hps].
Qed.

Lemma nattr_loop_inv_p lvl' : forall fu e p l more t ld t' ld',
  WS e p l more -> (exists dn, U8.Valid (dn ++ l)) ->
  WfParse.nattr_loop text lvl' es fu (sst e p (l ++ more)) t ld = Ok (t', ld') ->
  exists ps, l = T.r_pieces ps /\ pieces_ok ps.
Proof.
  induction fu as [|fu IH]; intros e p l more t ld t' ld' HW HV H; cbn [WfParse.nattr_loop] in H; [noerr|].
  rewrite at_end_sst in H. pose proof HW as [HW0 Hw].
  destruct l as [|x l1].
  { exists []. split; [reflexivity|apply pieces_ok_nil]. }
  rewrite blen_cons in Hw. replace (e <=? p) with false in H by lia.
  cbn [app curr_byte_unchecked sst s_rest bind] in H.
  destruct (x =? 38) eqn:E38; cbn [negb] in H.
  - assert (x = 38) by lia. subst x. cbv zeta in H. ib H rf Hrf.
    change (38 :: l1 ++ more) with ((38 :: l1) ++ more) in Hrf. fold (sst e p ((38 :: l1) ++ more)) in Hrf.
    destruct rf as [[rf s2]|]; [|noerr].
    destruct HV as (dn & HV).
    assert (HV0 : U8.Valid (38 :: l1)) by (apply (Valid_app_inv dn); [eapply valid_split; [|exact HV]; lia|exact HV]).
    destruct (ref_piece_step_p _ _ _ _ _ _ HW HV0 Hrf) as [[nm ->]|(pc & l' & q & E & Hok & Hnl & -> & HW')].
    { exfalso. exact (no_ref_entity _ _ _ _ _ _ HW HV0 Hrf). }
    destruct rf as [nm|cp]; [exfalso; exact (no_ref_entity _ _ _ _ _ _ HW HV0 Hrf)|].
    destruct (push_char_bytes_attr _ _ t) as [t1|]; [|noerr].
    assert (HV' : exists dn', U8.Valid (dn' ++ l')) by (exists (dn ++ T.r_piece pc); rewrite <- app_assoc, <- E; exact HV).
    destruct (IH _ _ _ _ _ _ _ _ HW' HV' H) as (ps & -> & Hps).
    exists (pc :: ps). split; [exact E|]. apply pieces_ok_ref; assumption.
  - destruct ((x =? 60) && (0 <? ld_depth ld)); [noerr|].
    fold (sst e p (x :: l1 ++ more)) in H. rewrite advance1_sst in H by lia. cbn [bind] in H.
    assert (HV' : exists dn', U8.Valid (dn' ++ l1)) by (destruct HV as (dn & HV); exists (dn ++ [x]); rewrite <- app_assoc; exact HV).
    destruct (IH _ _ _ _ _ _ _ _ (WS_cons _ _ _ _ _ HW) HV' H) as (ps & -> & Hps).
    exists (cons_lit x ps). split; [rewrite r_cons_lit; reflexivity|]. apply pieces_ok_lit; [lia|exact Hps].
Qed.


(* ------------------------------------------------------------------------------------------ *)
(* the tokens                                                                                   *)
Notation SimP := (CstSoundPBuild.SimP text es).

Lemma Valid_uchars cs : uchars cs -> U8.Valid (utf8s cs).
Proof.
  intros H. apply Valid_utf8s. unfold scalars_ok. eapply Forall_impl; [|exact H]. cbv beta. tauto.
Qed.

Lemma step_text_p p cs more c c' stk : WV p (utf8s cs ++ more) -> raw_text_ok_n cs -> SimP c stk ->
  T_ (TText (sl p (p + blen (utf8s cs))) (p, p + blen (utf8s cs))) c = Ok c' ->
  SimP c' stk /\ nseq c c' /\
  (exists K, erows c' = erows c ++ K /\ Forall (fun rw => is_element_kind (snd rw) = false) K) /\
  exists ps, utf8s cs = T.r_pieces (enc_pieces ps) /\ utparts_ok ps.
Proof.
  intros HWV Hraw HS H. pose proof (WV_W _ _ _ HWV) as HW.
  unfold Parse.token, token_with, process_text in H. rewrite BorrowParse.process_text_with_eq in H.
  cbv zeta in H. rewrite (W_slice text _ _ _ HW) in H.
  assert (FIN : forall ps, utf8s cs = T.r_pieces ps -> pieces_ok ps ->
            exists ps', utf8s cs = T.r_pieces (enc_pieces ps') /\ utparts_ok ps').
  { intros ps Eps Hps. destruct (decoded_text cs ps Hraw Eps Hps) as (ps' & E1 & E2). exists ps'. rewrite E1. auto. }
  destruct (existsb (fun x => (x =? 38) || (x =? 13)) (utf8s cs)) eqn:Ee; cbn [negb] in H.
  - cbn [fst snd] in H. destruct (stream_from_substr_ws text p (utf8s cs) more HW) as (Es & HWS). rewrite Es in H. cbn [bind] in H.
    ib H q Hq. destruct q as [buf c1].
    assert (HV : exists dn, U8.Valid (dn ++ utf8s cs)).
    { exists []. apply Valid_uchars. apply Hraw. }
    destruct (ptext_loop_inv_p _ _ _ _ _ _ _ _ _ _ _ HWS HV Hq) as (-> & ps & Eps & Hps).
    assert (STEP : SimP c' stk /\ nseq c c' /\ exists K, erows c' = erows c ++ K /\ Forall (fun rw => is_element_kind (snd rw) = false) K).
    { destruct (negb (tb_is_empty buf)).
      - ib H bsf Hb. destruct (append_text_step_p text es _ _ _ _ _ HS H) as (A & D).
        split; [exact A|]. split; [exact (append_text_nseq _ _ _ _ H)|exact D].
      - inversion H; subst. split; [exact HS|]. split; [apply nseq_refl|]. exists []. rewrite app_nil_r. split; [reflexivity|constructor]. }
    destruct STEP as (A & Nq & D). split; [exact A|]. split; [exact Nq|]. split; [exact D|]. exact (FIN ps Eps Hps).
  - destruct (append_text_step_p text es _ _ _ _ _ HS H) as (A & D). split; [exact A|].
    split; [exact (append_text_nseq _ _ _ _ H)|]. split; [exact D|].
    assert (H38 : Forall (fun x => x <> 38) (utf8s cs)).
    { apply (no38 (fun x => (x =? 38) || (x =? 13))); [intros x ->; reflexivity|exact Ee]. }
    destruct (lit_pieces_ok (utf8s cs) H38) as (E1 & E2).
    exact (FIN (lit_pieces (utf8s cs)) (eq_sym E1) E2).
Qed.

(* the value of an attribute or of a namespace declaration: its pieces, and what is stored *)
Lemma value_p p v q more c val c1 : WV p (utf8s v ++ [q] ++ more) -> uchars v ->
  Forall (fun x => x <> 60 /\ x <> q) v -> q = 39 \/ q = 34 -> c_entities c = es -> ld_depth (c_ld c) = 0 ->
  normalize_attribute text (sl p (p + blen (utf8s v))) c = Ok (val, c1) ->
  c1 = c /\ exists ps, utf8s v = T.r_pieces (enc_pieces ps) /\ wf_uvalue q ps = true /\
                        storage_bytes text val = T.value_sem (enc_pieces ps).
Proof.
  intros HWV Hu Hb Hq Hent Hld H. pose proof (WV_W _ _ _ HWV) as HW.
  assert (BP : exists ps, utf8s v = T.r_pieces ps /\ pieces_ok ps).
  { pose proof H as H'. unfold normalize_attribute in H'. cbv zeta in H'. rewrite (W_slice text _ _ _ HW) in H'.
    destruct (existsb (fun x => (x =? 38) || (x =? 9) || (x =? 10) || (x =? 13)) (utf8s v)) eqn:Ee.
    - ib H' q0 Hq0. destruct q0 as [t ld]. clear H'.
      rewrite Hent in Hq0. unfold entity_levels in Hq0. rewrite WfParse.norm_attr_lvl_eq in Hq0.
      cbn [sl sl_start sl_end] in Hq0. destruct (stream_from_substr_ws text p (utf8s v) ([q] ++ more) HW) as (Es & HWS).
      rewrite Es in Hq0. cbn [bind] in Hq0.
      assert (HV : exists dn, U8.Valid (dn ++ utf8s v)) by (exists []; apply Valid_uchars; exact Hu).
      exact (nattr_loop_inv_p _ _ _ _ _ _ _ _ _ _ HWS HV Hq0).
    - assert (H38 : Forall (fun x => x <> 38) (utf8s v)).
      { apply (no38 (fun x => (x =? 38) || (x =? 9) || (x =? 10) || (x =? 13))); [intros x ->; reflexivity|exact Ee]. }
      destruct (lit_pieces_ok (utf8s v) H38) as (E1 & E2). exists (lit_pieces (utf8s v)). auto. }
  destruct BP as (ps & Eps & Hps).
  destruct (decoded_value q v ps ltac:(lia) Hu Hb Eps Hps) as (ps' & E1 & Hwf). subst ps.
  destruct (CstFullS2Sem.uvalue_b q ps' ltac:(lia) Hwf) as (Hbv & _).
  assert (HWV' : WV p (T.r_pieces (enc_pieces ps') ++ [q] ++ more)) by (rewrite <- Eps; exact HWV).
  pose proof (CstFullS2Build.normalize_attribute_ok_u text p (enc_pieces ps') q more c HWV' Hbv Hld) as Hfw.
  rewrite <- Eps in Hfw. rewrite Hfw in H. injection H as <- <-.
  split; [reflexivity|]. exists ps'. split; [exact Eps|]. split; [exact Hwf|].
  destruct (CstTextBuild.needs_norm (utf8s v)) eqn:En; [reflexivity|].
  cbn [storage_bytes str_bytes]. rewrite (W_slice text _ _ _ HW). symmetry.
  rewrite Eps in En |- *. apply (CstFullS2Build.value_plain_u q _ Hbv En).
Qed.

End TextP.
