(* Proofs/CstFullS9bAttr.v -- the capstone fragment, stage S9 (Spec/CstFullS9.v):
   Proofs/CstFullS4Attr.v (attribute values, entities with markup in scope) for references named with colons.
   An adapted copy: the statements and proofs are those of that file over the definitions of Proofs/CstFullS9aSem.v. *)
From Coq Require Import Ascii String.
From Coq Require Import List NArith PeanoNat Bool Lia ZifyBool ZifyN ZifyNat.
Import ListNotations.
From RX Require Import Generated.
From RX.Model Require Import Base CharClass Stream Tokenizer Doc Builder Parse.
From RX.Spec Require Cst CstText CstEnt Detector Scope CstU.
From RX.Spec Require Import Text CstFull.
From RX.Proofs Require Import Tactics CstLex CstBuild CstULex TextMachine TextMerge HoistProofs NoPanicUtf8 DetectorProofs.
From RX.Proofs Require Import CstTextSem CstTextLex CstTextBuild CstEntSem CstEntMeaning CstEntRun CstFullLex.
From RX.Proofs Require Import CstFullS2Sem CstFullS2Lex CstFullS2Build CstFullS9aSem CstFullS9aText CstFullS9aAttr CstFullS9aPlug.
From RX.Proofs Require Import CstFullS9bSem CstFullS9bText.
From RX.Proofs Require CstEntText CstEntAttr CstEntBuild CstEntCBuild CstEntRejSem.
Open Scope N_scope.

(* ------------------------------------------------------------------------------------------ *)
(* the detector at a lower depth                                                              *)
(* ------------------------------------------------------------------------------------------ *)
Notation Bal := CstEntRejSem.Bal.

Lemma ld_run_lower tr : Bal tr ->
  forall d r d0 r0 st, ld_run (mk d r) tr = Some st -> d0 <= d -> r0 <= r -> r <= 255 ->
  exists st0, ld_run (mk d0 r0) tr = Some st0 /\
              ld_depth st0 = d0 /\ ld_depth st = d /\ ld_references st0 <= ld_references st /\ ld_references st <= 255.
Proof.
  induction 1 as [|a b0 _ IHa _ IHb|t r' _ IHt _ IHr]; intros d r d0 r0 st Hrun Hd Hr H255.
  - cbn [ld_run] in *. injection Hrun as <-. exists (mk d0 r0). cbn. repeat split; lia.
  - rewrite ld_run_app in Hrun |- *. destruct (ld_run (mk d r) a) as [s1|] eqn:E1; [|discriminate].
    destruct (IHa d r d0 r0 s1 E1 Hd Hr H255) as (s10 & E10 & D1 & D2 & R1 & R2).
    rewrite E10. rewrite (mk_eta s1) in Hrun. rewrite (mk_eta s10).
    destruct (IHb (ld_depth s1) (ld_references s1) (ld_depth s10) (ld_references s10) st Hrun ltac:(lia) R1 R2)
      as (st0 & E2 & D3 & D4 & R3 & R4).
    exists st0. repeat split; try assumption; lia.
  - cbn [ld_run] in Hrun |- *. destruct (ld_enter (mk d r)) as [l1|] eqn:En; [|discriminate].
    apply ld_enter_some in En. destruct En as [Hlt En].
    rewrite ld_run_app in Hrun. destruct (ld_run l1 t) as [s1|] eqn:E1; [|discriminate]. cbn [ld_run] in Hrun.
    assert (En0 : exists l10, ld_enter (mk d0 r0) = Some l10 /\ ld_depth l10 = d0 + 1 /\ ld_depth l1 = d + 1 /\
                              ld_references l10 <= ld_references l1 /\ ld_references l1 <= 255).
    { destruct (N.eq_dec d0 0) as [->|Hd0].
      - exists (mk 1 r0). split; [apply ld_enter_zero|]. destruct En as [[-> ->]|(Hd1 & Hr1 & ->)]; cbn; repeat split; lia.
      - destruct En as [[-> ->]|(Hd1 & Hr1 & ->)]; [lia|].
        exists (mk (d0 + 1) (r0 + 1)). split; [apply ld_enter_pos; lia|]. cbn. repeat split; lia. }
    destruct En0 as (l10 & En0 & A1 & A2 & A3 & A4). rewrite En0.
    rewrite (mk_eta l1) in E1.
    destruct (IHt (ld_depth l1) (ld_references l1) (ld_depth l10) (ld_references l10) s1 E1 ltac:(lia) A3 A4)
      as (s10 & E10 & D1 & D2 & R1 & R2).
    rewrite ld_run_app. rewrite <- (mk_eta l10) in E10. rewrite E10. cbn [ld_run].
    rewrite (mk_eta s1) in Hrun. rewrite (mk_eta s10).
    rewrite dec_depth_pos in Hrun by lia. rewrite dec_depth_pos by lia.
    match type of Hrun with ld_run (mk ?dd ?rr) _ = _ =>
      match goal with |- exists st0, ld_run (mk ?dd0 ?rr0) _ = _ /\ _ =>
        destruct (IHr dd rr dd0 rr0 st Hrun) as (st0 & E2 & D3 & D4 & R3 & R4) end end.
    { lia. }
    { destruct (N.eqb_spec (ld_depth s10 - 1) 0), (N.eqb_spec (ld_depth s1 - 1) 0); lia. }
    { destruct (ld_depth s1 - 1 =? 0); lia. }
    exists st0. repeat split; try assumption; lia.
Qed.


(* the counter of nested references never exceeds its limit *)
Definition ld_ok (ld : loop_detector) : Prop := ld_references ld <= 255.

Lemma ld_ok_init : ld_ok ld_init.
Proof. unfold ld_ok. cbn. lia. Qed.

Lemma ld_ok_enter ld ld1 : ld_enter ld = Some ld1 -> ld_ok ld -> ld_ok ld1.
Proof.
  unfold ld_enter, ld_ok, ld_max_refs. destruct (ld_depth ld =? 0).
  - destruct (ld_depth ld <? ld_max_depth); [|discriminate]. intros E. injection E as <-. cbn. auto.
  - destruct (N.eqb_spec (ld_references ld) 255); [discriminate|].
    destruct (ld_depth ld <? ld_max_depth); [|discriminate]. intros E. injection E as <-. cbn. lia.
Qed.

Lemma ld_ok_dec ld : ld_ok ld -> ld_ok (dec_depth ld).
Proof. unfold ld_ok, dec_depth. cbn [ld_references]. destruct (_ =? 0); lia. Qed.

Lemma ld_ok_run : forall tr ld ld', ld_run ld tr = Some ld' -> ld_ok ld -> ld_ok ld'.
Proof.
  induction tr as [|[|] tr IH]; intros ld ld' H Hk; cbn [ld_run] in H.
  - injection H as <-. exact Hk.
  - destruct (ld_enter ld) as [l1|] eqn:E; [|discriminate]. apply (IH _ _ H). apply (ld_ok_enter _ _ E Hk).
  - apply (IH _ _ H). apply ld_ok_dec. exact Hk.
Qed.

(* what the detector allows inside an entity it allows at the top level *)
Lemma ld_run_top tr ld ld' : Bal tr -> ld_run ld tr = Some ld' -> ld_ok ld -> ld_run ld_init tr = Some ld_init.
Proof.
  intros Hb H Hk. rewrite (mk_eta ld) in H.
  destruct (ld_run_lower tr Hb (ld_depth ld) (ld_references ld) 0 0 ld' H ltac:(lia) ltac:(lia) Hk) as (st0 & E & D0 & _).
  change ld_init with (mk 0 0). rewrite E. f_equal.
  apply (CstEntBuild.ld_run_init tr st0 E). rewrite D0. reflexivity.
Qed.

(* ------------------------------------------------------------------------------------------ *)
(* the inlining of a value outside an entity                                                  *)
(* ------------------------------------------------------------------------------------------ *)
Lemma inline_ps_out tb fa : forall ps q tr, E.inline_ps tb fa true ps = Some (q, tr) -> E.inline_ps tb fa false ps = Some (q, tr).
Proof.
  induction ps as [|p ps IH]; intros q tr H; [exact H|]. cbn [E.inline_ps] in *. destruct p as [p|n].
  - rewrite andb_false_r. cbn [andb]. destruct (fa && true && E.is_lt_ref p); [discriminate|].
    destruct (E.inline_ps tb fa true ps) as [[q' tr']|]; [|discriminate]. rewrite (IH _ _ eq_refl). exact H.
  - destruct (E.lookup tb n) as [v|]; [|discriminate]. cbn [E.obind] in *.
    destruct (E.x_pieces v) as [qv|]; [|discriminate]. cbn [E.obind] in *.
    destruct (fa && existsb E.is_lt_ref qv); [discriminate|].
    destruct (E.inline_ps tb fa true ps) as [[q' tr']|]; [|discriminate]. rewrite (IH _ _ eq_refl). exact H.
Qed.

Section Attr.
Variable text : bytes.
Variable D : list Scope.binding.
Hypothesis HD : forall l, NoDup l -> incl l D -> N.of_nat (length l) <= 65535.
Variable decls : list E.edecl.
Variable es : list entity.
Hypothesis Henv : Forall2 (uent_ok text) decls es.
Hypothesis Hdecls : Forall udecl_okc decls.

Notation W := (CstLex.W text).
Notation WV := (CstULex.WV text).

(* ---- a value with references, at any depth ---- *)
Lemma normalize_attribute_gu vs ps quote more c k q tr ld' m :
  WV vs (E.r_epieces ps ++ [quote] ++ more) ->
  Forall (uep_ok m) ps -> E.no_adjacent_elit ps = true ->
  m = (0 <? ld_depth (c_ld c)) ->
  E.inline_ps (E.level decls k) true m ps = Some (q, tr) -> E.crlf_split_ok q = true ->
  ld_run (c_ld c) tr = Some ld' -> c_entities c = es ->
  normalize_attribute text (sl vs (vs + blen (E.r_epieces ps))) c =
  Ok (if needs_norm (E.r_epieces ps) then Owned (T.value_sem q)
      else Borrowed (SIn (sl vs (vs + blen (E.r_epieces ps)))), set_ld c ld') /\
  ld_depth ld' = ld_depth (c_ld c).
Proof.
  intros HWv Hok Hadj Hm Hin Hs Hld Hes. pose proof (WV_W _ _ _ HWv) as HW.
  unfold normalize_attribute. cbv zeta. rewrite (W_slice _ _ _ _ HW).
  fold (needs_norm (E.r_epieces ps)). destruct (needs_norm (E.r_epieces ps)) eqn:E.
  2:{ rewrite (CstEntCBuild.inline_noamp_tr _ _ _ _ _ _ (CstEntCBuild.needs_norm_noamp _ E) Hin) in Hld. cbn [ld_run] in Hld. injection Hld as <-.
      rewrite set_ld_same. split; reflexivity. }
  destruct (inline_AExp_u decls Hdecls k m ps q tr Hin Hok tb_new eq_refl) as (t' & HA & Hp').
  unfold entity_levels. rewrite norm_attr_lvl_unfold. cbn [sl sl_start sl_end].
  rewrite (stream_from_substr_W text vs (E.r_epieces ps) _ HW). cbn [bind]. rewrite Hes.
  pose proof (W_le _ _ _ (W_app _ _ _ _ HW)) as Hle.
  destruct (AL_u text D HD decls es Henv Hdecls m ps tb_new q tr t' HA
              (vs + blen (E.r_epieces ps)) vs ([quote] ++ more) (c_ld c) ld' (S (N.to_nat ld_max_depth))
              (S (length (s_rest (sst (vs + blen (E.r_epieces ps)) vs (E.r_epieces ps ++ [quote] ++ more))))))
    as [Eloop Hd]; try assumption; try reflexivity.
  { change (N.of_nat (S (N.to_nat ld_max_depth))) with 11. lia. }
  { cbn [sst s_rest]. rewrite app_length. lia. }
  rewrite Eloop. cbn [bind].
  destruct (AExp_sem_u decls Hdecls m ps tb_new q tr t' HA Hok Hadj eq_refl Hs) as [Epush _].
  pose proof (attr_chunks_normalise (chunks q) t' Epush) as Hn.
  unfold tb_finish. rewrite Hn.
  assert (Hval : valid_utf8_b (norm_attr_chunks (chunks q)) = true).
  { apply valid_iff_Valid. apply CV_norm_attr. apply (AExp_chunks_u decls Hdecls _ _ _ _ _ _ HA Hok). }
  rewrite Hval. cbn [bind]. split; [reflexivity|exact Hd].
Qed.

End Attr.

Print Assumptions ld_run_top.
Print Assumptions normalize_attribute_gu.
