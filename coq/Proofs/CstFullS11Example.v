(* Proofs/CstFullS11Example.v -- the theorems of Proofs/CstFullS11Main.v are not vacuous, stage S11 is strictly wider than
   stage S10, and each proviso of Spec/CstFullS11.v is there for a reason.

   1. The sample document ex11 of Proofs/CstFullS11Sanity.v -- <!ENTITY t "a&#9;b&#xA;c"> read as a content entity, a
      markup entity with references to LF after a reference to t, after a reference to an entity that ends in CR, after
      a CDATA section that ends in CR, after a literal "CR LF", and with a reference to TAB as its last run; an entity
      that refers to both -- satisfies the hypotheses of [parse_render_sem_full_s11_api], is not a document of S10, and
      its meaning is the list written out in [ex11_meaning].  [hoist11]: the document with the entities and the
      document with everything written in place have the same meaning, hence the same tree.

   2. The two readings of one declaration ([two_readings]): <!ENTITY e "x&#9;y"> is the rendering of a value [XText]
      and of a value [XContent]; with the references to the entity in character data only, the second reading is a
      document of S11 (the first is not), both have the same meaning, and the crate's tree is that meaning.

   3. Necessity of the provisos.  (P1): [nec_tab_attr], [nec_lf_attr], [nec_tab_nsuri] (an entity with a reference
      to TAB / LF referenced from an attribute value / a namespace URI: in the reading [XText] the meaning by inlining
      has the TAB / LF, the crate's tree has a space; in the reading [XContent] there is no inlining at all,
      [nec_content_in_attr]), [nec_tab_attr_markup], [nec_lf_attr_markup] (the reference written in an attribute
      value inside a content entity).  (P2): [nec_lf_after_cr]; [adjacency_agrees]: the neighbouring cases are
      documents of S11, and the crate agrees with the inlining.  (F-CR): [nec_cr_content].  Every necessity Example
      gives a document [d c] parametrised by the digits c of ONE character reference such that [d "65"] is a
      document of S11, [d c] is not, the crate accepts its rendering and builds a tree that differs from the
      meaning by inlining -- both are written out. *)
From Coq Require Import Ascii String.
From Coq Require Import List NArith Bool Lia.
Import ListNotations.
From RX Require Import Generated.
From RX.Model Require Import Base Stream Tokenizer Doc Builder Parse.
From RX.Spec Require CstNs CstU.
From RX.Spec Require Import CstFull CstFullS6 CstFullS7 CstFullS8 CstFullS9 CstFullS10 CstFullS11.
From RX.Proofs Require Import CstNsView CstFullMain CstFullS6Sanity CstFullS8Sanity CstFullS9Sanity CstFullS10Sanity CstFullS11Sanity.
From RX.Proofs Require Import CstFullS10Example CstFullS11Main.
From RX.Proofs Require ApiView.
Open Scope N_scope.

(* ------------------------------------------------------------------------------------------ *)
(* 1. in S11, not in S10                                                                      *)
(* ------------------------------------------------------------------------------------------ *)
Theorem s11_wider : S11.wf_doc ex11 = true /\ S10.wf_doc ex11 = false.
Proof. split; vm_compute; reflexivity. Qed.

Example ex11_parses : exists x, parse (S11.render ex11) optx = Ok x /\ ApiView.api_view (S11.render ex11) x = Some (S11.sem ex11).
Proof.
  apply parse_render_sem_full_s11_api.
  - vm_compute. reflexivity.
  - reflexivity.
  - vm_compute. intros H. discriminate H.
  - vm_compute. reflexivity.
  - vm_compute. reflexivity.
  - vm_compute. reflexivity.
  - unfold S11.distinct_decls_le, S6.distinct_decls_le, X4.S4.distinct_decls_le.
    match goal with |- match ?x with _ => _ end => let y := eval vm_compute in x in change x with y end.
    apply distinct_by_count.
    match goal with |- (length ?l <= _)%nat => let n := eval vm_compute in (length l) in change (length l) with n end. lia.
  - vm_compute. intros H. discriminate H.
Qed.

(* the predicted meaning, written out (9 = TAB, 10 = LF), and the crate's tree computed by the model *)
Example ex11_meaning :
  S11.sem ex11 =
  [ CstNs.VElem None (b "r") [(None, b "a", [120; 32; 9])] [] 3;
    CstNs.VText ([120; 10] ++ [97; 9; 98; 10; 99] ++ [97; 9; 98; 10; 99] ++ b "|");
    CstNs.VElem None (b "p") [(None, b "k", [118; 120; 32])] [] 1;
    CstNs.VText ([97; 9; 98; 10; 99] ++ [10] ++ [120; 10] ++ [10] ++ [122; 10] ++ [10] ++ [119; 10] ++ [10]);
    CstNs.VText [9; 38; 9] ]
  /\ crate ex11 = Some (S11.sem ex11).
Proof. split; vm_compute; reflexivity. Qed.

(* hoisting: the same content written in place (at the top level a reference to TAB / LF is the character) *)
Definition ex11_inline : S11.doc :=
  {| S6.x_bom := false; S6.x_decl := None; S6.x_dtd := None;
     S6.x_main := {| d_before := []; d_ws0 := [];
                     d_root := el [] (b "r") [at2 [] (b "a") [lit (b "x "); dref "9"]]
                                  [tx [lit ([120; 10] ++ b "a"); dref "9"; lit ([98; 10] ++ b "ca"); xref "9"; lit (b "b"); dref "10"; lit (b "c|")];
                                   el [] (b "p") [at1 [] (b "k") [lit (b "vx ")]]
                                      [tx [lit ([97; 9; 98; 10; 99; 10; 120; 10; 10; 122; 10; 10; 119; 10; 10])]];
                                   tx [dref "9"; E.EP (T.PPredef T.Amp); lit [9]]];
                     d_after := []; d_ws_end := [] |} |}.
Example hoist11 :
  S11.wf_doc ex11_inline = true /\ S11.sem ex11_inline = S11.sem ex11 /\ crate ex11_inline = crate ex11.
Proof. splits; vm_compute; reflexivity. Qed.

(* ------------------------------------------------------------------------------------------ *)
(* 2. one declaration, two readings                                                           *)
(* ------------------------------------------------------------------------------------------ *)
(* <!ENTITY e "x&#c;y"> ... <r>&e;</r>, the value read as content *)
Definition in_text_c (c : string) : S11.doc := mk10 [XEntity (xd (b "e") (X4.XContent [tx [lit (b "x"); dref c; lit (b "y")]]))] [] [rf (b "e")].

Example two_readings :
  S11.render (in_text_c "9") = S11.render (in_text "9") /\ S11.render (in_text_c "10") = S11.render (in_text "10") /\
  S11.wf_doc (in_text "9") = false /\ S11.wf_doc (in_text_c "9") = true /\
  S11.wf_doc (in_text "10") = false /\ S11.wf_doc (in_text_c "10") = true /\
  S11.sem (in_text_c "9") = S11.sem (in_text "9") /\ S11.sem (in_text_c "10") = S11.sem (in_text "10") /\
  crate (in_text_c "9") = Some [r1 [] [] 1; CstNs.VText [120; 9; 121]] /\ S11.sem (in_text_c "9") = [r1 [] [] 1; CstNs.VText [120; 9; 121]] /\
  crate (in_text_c "10") = Some [r1 [] [] 1; CstNs.VText [120; 10; 121]] /\ S11.sem (in_text_c "10") = [r1 [] [] 1; CstNs.VText [120; 10; 121]].
Proof. splits; vm_compute; reflexivity. Qed.

(* the rendering of a value does not depend on the reading, whatever the pieces *)
Lemma reading_render ps : X4.r_xvalue (X4.XContent [@IText epieces ps]) = X4.r_xvalue (X4.XText ps).
Proof. cbn [X4.r_xvalue X4.r_uitems flat_map r_item]. apply app_nil_r. Qed.

(* ------------------------------------------------------------------------------------------ *)
(* 3. necessity of the provisos                                                               *)
(* ------------------------------------------------------------------------------------------ *)
(* <!ENTITY e "x&#c;y"> ... <r a="&e;">t</r>, the value read as content: no inlining *)
Definition in_attr_c (c : string) : S11.doc :=
  mk10 [XEntity (xd (b "e") (X4.XContent [tx [lit (b "x"); dref c; lit (b "y")]]))] [at2 [] (b "a") [rf (b "e")]] [lit (b "t")].
(* <!ENTITY e "x CR &#c;y"> ... <r>&e;</r>, read as content: the reference directly follows a literal CR *)
Definition after_cr_c (c : string) : S11.doc :=
  mk10 [XEntity (xd (b "e") (X4.XContent [tx [lit (b "x" ++ [cr]); dref c; lit (b "y")]]))] [] [rf (b "e")].
(* <!ENTITY e "<p>x&#c;y</p>"> ... <r>&e;</r> (Proofs/CstFullS10Example.v [in_markup_text]) and
   <!ENTITY e "<p k='x&#c;y'/>"> ... <r>&e;</r> ([in_markup_attr]) *)

(* every one of these is a document of S11 when the character referenced is 'A', except the reference to a content
   entity from an attribute value, which has no inlining whatever the character *)
Example shapes_in_s11 :
  forallb (fun d : string -> S11.doc => S11.wf_doc (d "65"%string))
          [in_text; in_text_c; in_attr; in_nsuri; in_markup_attr; after_cr; after_cr_c; in_markup_text] = true /\
  S11.wf_doc (in_attr_c "65") = false /\ X4.S4.inline (S6.core (in_attr_c "65")) = None.
Proof. splits; vm_compute; reflexivity. Qed.

(* (P1) an entity with a reference to TAB / LF must not be referenced from an attribute value or a namespace URI:
   the crate turns the character into a space (as XML does), inlined it is the character *)
Example nec_tab_attr :
  S11.wf_doc (in_attr "9") = false /\
  crate (in_attr "9") = Some [r1 [(None, b "a", [120; 32; 121])] [] 1; CstNs.VText (b "t")] /\
  S11.sem (in_attr "9") = [r1 [(None, b "a", [120; 9; 121])] [] 1; CstNs.VText (b "t")].
Proof. splits; vm_compute; reflexivity. Qed.
Example nec_lf_attr :
  S11.wf_doc (in_attr "10") = false /\
  crate (in_attr "10") = Some [r1 [(None, b "a", [120; 32; 121])] [] 1; CstNs.VText (b "t")] /\
  S11.sem (in_attr "10") = [r1 [(None, b "a", [120; 10; 121])] [] 1; CstNs.VText (b "t")].
Proof. splits; vm_compute; reflexivity. Qed.
Example nec_tab_nsuri :
  S11.wf_doc (in_nsuri "9") = false /\
  crate (in_nsuri "9") = Some [r1 [] [(Some (b "p"), [117; 32; 118])] 1; CstNs.VText (b "t")] /\
  S11.sem (in_nsuri "9") = [r1 [] [(Some (b "p"), [117; 9; 118])] 1; CstNs.VText (b "t")].
Proof. splits; vm_compute; reflexivity. Qed.
(* the same rendering with the value read as content: the abstract syntax gives the reference from an attribute value
   no meaning at all (the crate's tree is the one above) *)
Example nec_content_in_attr :
  S11.render (in_attr_c "9") = S11.render (in_attr "9") /\
  S11.wf_doc (in_attr_c "9") = false /\ X4.S4.inline (S6.core (in_attr_c "9")) = None /\
  crate (in_attr_c "9") = Some [r1 [(None, b "a", [120; 32; 121])] [] 1; CstNs.VText (b "t")].
Proof. splits; vm_compute; reflexivity. Qed.
(* (P1) nor may the reference be written in an attribute value inside a content entity *)
Example nec_tab_attr_markup :
  S11.wf_doc (in_markup_attr "9") = false /\
  crate (in_markup_attr "9") = Some [r1 [] [] 1; CstNs.VElem None (b "p") [(None, b "k", [120; 32; 121])] [] 0] /\
  S11.sem (in_markup_attr "9") = [r1 [] [] 1; CstNs.VElem None (b "p") [(None, b "k", [120; 9; 121])] [] 0].
Proof. splits; vm_compute; reflexivity. Qed.
Example nec_lf_attr_markup :
  S11.wf_doc (in_markup_attr "10") = false /\
  crate (in_markup_attr "10") = Some [r1 [] [] 1; CstNs.VElem None (b "p") [(None, b "k", [120; 32; 121])] [] 0] /\
  S11.sem (in_markup_attr "10") = [r1 [] [] 1; CstNs.VElem None (b "p") [(None, b "k", [120; 10; 121])] [] 0].
Proof. splits; vm_compute; reflexivity. Qed.

(* (P2) D30: directly after a literal CR the referenced LF pairs with it into one line end; inlined there are two.
   With a reference to TAB at the same place the document is in S11 *)
Example nec_lf_after_cr :
  S11.wf_doc (after_cr_c "9") = true /\ S11.wf_doc (after_cr_c "10") = false /\
  crate (after_cr_c "10") = Some [r1 [] [] 1; CstNs.VText [120; 10; 121]] /\
  S11.sem (after_cr_c "10") = [r1 [] [] 1; CstNs.VText [120; 10; 10; 121]].
Proof. splits; vm_compute; reflexivity. Qed.

(* (P2) is all there is: the neighbouring cases are documents of S11 on which the crate agrees with the inlining *)
Definition content_doc (ds : list sdecl6) (its : list uitem) (ps : list E.epiece) : S11.doc :=
  mk10 (ds ++ [XEntity (xd (b "e") (X4.XContent its))]) [] ps.
Definition cr_ent : sdecl6 := XEntity (xd (b "f") (X4.XText [lit (b "z" ++ [cr])])).                 (* <!ENTITY f "z CR"> *)
Definition cr_cont : sdecl6 := XEntity (xd (b "g") (X4.XContent [tx [lit (b "z" ++ [cr])]])).         (* the same, read as content *)
Definition adjacency : list S11.doc :=
  [ content_doc [] [tx [lit (b "x" ++ [cr; 10]); dref "10"; lit (b "y")]] [rf (b "e")];                (* "x CR LF &#10; y" *)
    content_doc [] [tx [lit (b "x" ++ [cr]); dref "9"; dref "10"; lit (b "y")]] [rf (b "e")];          (* "x CR &#9; &#10; y" *)
    content_doc [] [tx [lit (b "x" ++ [cr]); dref "38"; dref "10"]] [rf (b "e")];                      (* "x CR &#38; &#10;" *)
    content_doc [] [tx [lit (b "x" ++ [cr]); E.EP (T.PPredef T.Amp); dref "10"]] [rf (b "e")];         (* "x CR &amp; &#10;" *)
    content_doc [] [tx [E.EP (T.PCData (b "x" ++ [cr])); dref "10"; lit (b "y")]] [rf (b "e")];        (* "<![CDATA[x CR]]> &#10; y" *)
    content_doc [cr_ent] [tx [lit (b "x"); rf (b "f"); dref "10"; lit (b "y")]] [rf (b "e")];          (* "x &f; &#10; y": the CR ends the value of f *)
    content_doc [cr_cont] [tx [lit (b "x"); rf (b "g"); dref "10"; lit (b "y")]] [rf (b "e")];         (* the same with a content entity *)
    content_doc [] [tx [dref "10"; lit (b "y")]] [lit (b "a" ++ [cr]); rf (b "e"); lit (b "c")];       (* a CR &e; c, e = "&#10; y" *)
    content_doc [] [tx [lit (b "y" ++ [cr])]] [lit (b "a"); rf (b "e"); dref "10"; lit (b "c")];       (* a &e; &#10; c, e = "y CR" *)
    content_doc [] [tx [dref "10"; lit ([10] ++ b "y"); dref "10"]] [rf (b "e"); lit [10]];            (* &#10; next to literal LF *)
    content_doc [] [el [] (b "p") [] [tx [lit (b "x"); dref "10"; dref "9"; lit (b "y")]]; tx [dref "9"]] [rf (b "e")] ].
Example adjacency_agrees :
  forallb (fun d => S11.wf_doc d &&
                    match crate d with Some v => if list_eq_dec vnode_eq_dec v (S11.sem d) then true else false | None => false end)
          adjacency = true.
Proof. vm_compute. reflexivity. Qed.

(* (F-CR) in the character data of a content entity, too, the crate turns the referenced CR into LF *)
Example nec_cr_content :
  S11.wf_doc (in_text_c "13") = false /\
  crate (in_text_c "13") = Some [r1 [] [] 1; CstNs.VText [120; 10; 121]] /\
  S11.sem (in_text_c "13") = [r1 [] [] 1; CstNs.VText [120; 13; 121]].
Proof. splits; vm_compute; reflexivity. Qed.

Print Assumptions s11_wider.
Print Assumptions ex11_parses.
Print Assumptions ex11_meaning.
Print Assumptions hoist11.
Print Assumptions two_readings.
Print Assumptions nec_tab_attr.
Print Assumptions nec_content_in_attr.
Print Assumptions nec_lf_after_cr.
Print Assumptions adjacency_agrees.
Print Assumptions nec_cr_content.
