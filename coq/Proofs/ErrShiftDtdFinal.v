(* Proofs/ErrShiftDtdFinal.v -- C14 (whitespace inserted after the DOCTYPE), part 5: the theorems.

   text = pre ++ post, text' = pre ++ ws ++ post, ws whitespace, post valid UTF-8 and not empty, and
   pre ends at an insertion point BEHIND THE DOCTYPE: after doc_start, the first parse_misc, the
   DOCTYPE declaration (parse_doctype) and n rounds of the second parse_misc, the loop stands at a
   position Q <= blen pre, and pre has only whitespace from Q on.

   RESTRICTION (explicit hypothesis [c_entities cQ = []]): the DOCTYPE has recorded no general
   entity (no <!ENTITY name "value"> declaration; parameter entities, external entities, ELEMENT /
   ATTLIST / NOTATION declarations, comments and processing instructions of the internal subset are
   all allowed).  With that, every error of the rest of the run is positioned at or behind the
   insertion point and moves; the disjunctive form asked for is stated as a corollary. *)
From Coq Require Import Ascii String.
From Coq Require Import List Arith NArith Bool Lia ZifyBool ZifyN ZifyNat.
Import ListNotations.
From RX Require Import Generated.
From RX.Model Require Import Base CharClass Stream Tokenizer Doc Builder Parse.
From RX.Proofs Require Import Tactics NoPanicUtf8 PositionProofs
  RangeShiftBase RangeShiftTokenizer RangeShiftBuilder
  ErrShiftBase ErrShiftFinal
  ErrShiftMidFrame ErrShiftMidCont ErrShiftMidPos ErrShiftMidCore ErrShiftMidLocal ErrShiftMidProlog
  ErrShiftMidFinal
  ErrShiftDtdLocal ErrShiftDtdCont ErrShiftDtdCore ErrShiftDtdProlog.
Open Scope N_scope.

(* the state of the prolog after the DOCTYPE and n rounds of the second parse_misc *)
Definition prolog_state2 (text : bytes) (opt : options) (n : nat) : option (stream * context) :=
  match init_context text opt, doc_start text with
  | Ok ci, Ok s2 =>
    match parse_misc text context (Parse.token text) s2 ci with
    | Ok x3 =>
      let s3 := skip_spaces (fst x3) in
      if starts_with s3 (b "<!DOCTYPE") && allow_dtd opt then
        match parse_doctype text context (Parse.token text) s3 (snd x3) with
        | Ok x4 => misc_steps text context (Parse.token text) n (fst x4) (snd x4)
        | _ => None
        end
      else None
    | _ => None
    end
  | _, _ => None
  end.

(* pre ends at an insertion point behind the DOCTYPE; cQ is the context of the builder there *)
Definition dtd_point_at (pre post : bytes) (opt : options) (n : nat) (cQ : context) : Prop :=
  exists sQ, prolog_state2 (pre ++ post) opt n = Some (sQ, cQ) /\ s_pos sQ <= blen pre /\
    forallb byte_is_space (skipn (N.to_nat (s_pos sQ)) pre) = true.

(* ... and the DOCTYPE has recorded no general entity *)
Definition dtd_point_noent (pre post : bytes) (opt : options) : Prop :=
  exists n cQ, dtd_point_at pre post opt n cQ /\ c_entities cQ = [].

Definition dtd_point_noent_b (pre post : bytes) (opt : options) (n : nat) : bool :=
  match prolog_state2 (pre ++ post) opt n with
  | Some (sQ, cQ) => (s_pos sQ <=? blen pre) && forallb byte_is_space (skipn (N.to_nat (s_pos sQ)) pre)
                     && match c_entities cQ with [] => true | _ => false end
  | None => false
  end.

Lemma dtd_point_noent_b_ok pre post opt n : dtd_point_noent_b pre post opt n = true -> dtd_point_noent pre post opt.
Proof.
  unfold dtd_point_noent_b. destruct (prolog_state2 (pre ++ post) opt n) as [[sQ cQ]|] eqn:E; [|discriminate].
  intros H. apply andb_true_iff in H. destruct H as [H H3]. apply andb_true_iff in H. destruct H as [H1 H2].
  exists n, cQ. split; [exists sQ; split; [exact E|split; [lia|exact H2]]|].
  destruct (c_entities cQ); [reflexivity|discriminate].
Qed.

(* ------------------------------------------------------------------ *)
Lemma dtd_parse_eq text opt n ci s2 s3 c3 s4 c4 sQ cQ fu :
  init_context text opt = Ok ci -> doc_start text = Ok s2 ->
  parse_misc text context (Parse.token text) s2 ci = Ok (s3, c3) ->
  starts_with (skip_spaces s3) (b "<!DOCTYPE") = true -> allow_dtd opt = true ->
  parse_doctype text context (Parse.token text) (skip_spaces s3) c3 = Ok (s4, c4) ->
  misc_steps text context (Parse.token text) n s4 c4 = Some (sQ, cQ) ->
  length (s_rest s4) = (n + fu)%nat ->
  parse text opt = (let! c := cont2 text context (Parse.token text) (S fu) sQ cQ in post c).
Proof.
  intros Ei Es Hm Hsw Hd Hdt Hst Hlen. rewrite parse_eq, Ei. cbn [bind]. rewrite Hd.
  rewrite (parse_document_dtd text context (Parse.token text) ci s2 s3 c3 s4 c4 Es Hm Hsw Hdt).
  rewrite Hlen. replace (S (n + fu)) with (n + S fu)%nat by lia. unfold cont2 at 1.
  rewrite (misc_steps_loop _ _ _ _ _ _ _ _ Hst). reflexivity.
Qed.

Lemma dtd_fuel text opt n ci s2 s3 c3 s4 c4 sQ cQ :
  init_context text opt = Ok ci -> doc_start text = Ok s2 ->
  parse_misc text context (Parse.token text) s2 ci = Ok (s3, c3) ->
  starts_with (skip_spaces s3) (b "<!DOCTYPE") = true -> allow_dtd opt = true ->
  parse_doctype text context (Parse.token text) (skip_spaces s3) c3 = Ok (s4, c4) ->
  misc_steps text context (Parse.token text) n s4 c4 = Some (sQ, cQ) ->
  parse text opt <> OutOfFuel -> (n <= length (s_rest s4))%nat.
Proof.
  intros Ei Es Hm Hsw Hd Hdt Hst Hne.
  destruct (Nat.le_gt_cases n (length (s_rest s4))) as [|Hgt]; [assumption|]. exfalso. apply Hne.
  rewrite parse_eq, Ei. cbn [bind]. rewrite Hd.
  rewrite (parse_document_dtd text context (Parse.token text) ci s2 s3 c3 s4 c4 Es Hm Hsw Hdt).
  unfold cont2. rewrite (misc_steps_fuel _ _ _ _ _ _ _ _ Hst) by lia. reflexivity.
Qed.

(* ------------------------------------------------------------------ *)
Lemma rr_entities E c : c_entities (rr E c) = c_entities c.
Proof. reflexivity. Qed.

Lemma dtd_main pre ws post opt n sQ cQ :
  ws <> [] -> forallb byte_is_space ws = true -> valid_utf8_b post = true -> post <> [] ->
  prolog_state2 (pre ++ post) opt n = Some (sQ, cQ) -> s_pos sQ <= blen pre ->
  forallb byte_is_space (skipn (N.to_nat (s_pos sQ)) pre) = true ->
  c_entities cQ = [] ->
  (forall e, parse (pre ++ post) opt = Err e ->
     exists e', parse (pre ++ ws ++ post) opt = Err e' /\ MidErr pre (pre ++ ws) post e e') /\
  (forall d, parse (pre ++ post) opt = Ok d ->
     parse (pre ++ ws ++ post) opt = Ok (mid_doc (blen pre) (blen ws) d)).
Proof.
  intros Hne Hws Hv Hpost Hst HQ HW Hent.
  set (X2 := ws ++ post).
  assert (HX1 : head_ok post) by (apply valid_head_ok; exact Hv).
  assert (HX2 : exists w r, X2 = w :: r /\ byte_is_space w = true).
  { unfold X2. destruct ws as [|w ws']; [congruence|]. exists w, (ws' ++ post). split; [reflexivity|].
    cbn [forallb] in Hws. apply andb_true_iff in Hws. tauto. }
  assert (HL : blen post <= blen X2) by (unfold X2, blen; rewrite app_length; lia).
  assert (HPlt : blen pre < tlen (pre ++ post)).
  { unfold tlen, blen. rewrite app_length. destruct post; [congruence|]. cbn [length]. lia. }
  unfold prolog_state2 in Hst.
  destruct (init_context (pre ++ post) opt) as [ci| | |] eqn:Ei; try discriminate.
  destruct (doc_start (pre ++ post)) as [s2| | |] eqn:Es; try discriminate.
  destruct (parse_misc (pre ++ post) context (Parse.token (pre ++ post)) s2 ci) as [[s3 c3]| | |] eqn:Hm; try discriminate.
  cbv zeta in Hst. cbn [fst snd] in Hst.
  destruct (starts_with (skip_spaces s3) (b "<!DOCTYPE")) eqn:Hsw; [|discriminate].
  destruct (allow_dtd opt) eqn:Hd; [|discriminate]. cbn [andb] in Hst.
  destruct (parse_doctype (pre ++ post) context (Parse.token (pre ++ post)) (skip_spaces s3) c3) as [[s4 c4]| | |] eqn:Hdt;
    try discriminate. cbn [fst snd] in Hst.
  (* positions *)
  destruct (doc_start_loc pre post X2 HX1 HX2 HL s2 Es) as (p2 & -> & Lp2 & Hds).
  pose proof Hm as Hm0. unfold parse_misc in Hm.
  destruct (dtd_positions pre post X2 HX1 HX2 HL context (Parse.token (pre ++ post)) _ p2 ci s3 c3 s4 c4 n sQ cQ Lp2 Hm Hdt Hst)
    as (p3 & p3' & p4 & Q & -> & Esk & -> & -> & I0 & I1 & I1' & I2 & I3 & I3').
  rewrite Esk in Hsw, Hdt. cbn [cs s_pos] in HQ, HW.
  (* the run on the second text *)
  set (R := fun (q : N) (c1 c2 : context) => PS0 (pre ++ post) q c1 /\ c2 = rr (tlen (pre ++ X2)) c1).
  assert (Rmono : forall q q' c1 c2, q <= q' -> R q c1 c2 -> R q' c1 c2).
  { intros q q' c1 c2 Hq [H1 H2]. split; [eapply PS0_mono; eassumption|exact H2]. }
  assert (Htok : forall a e tok c1 c2 c1' q, q <= a -> tok_in2 a e tok -> R q c1 c2 ->
            Parse.token (pre ++ post) tok c1 = Ok c1' ->
            exists c2', Parse.token (pre ++ X2) tok c2 = Ok c2' /\ R e c1' c2').
  { intros a e tok c1 c2 c1' q Hqa Ht [HP ->] Hev. exists (rr (tlen (pre ++ X2)) c1'). split.
    - eapply token_rr0; eassumption.
    - split; [|reflexivity]. eapply token_PS0; eassumption. }
  assert (HR0 : R p2 ci (rr (tlen (pre ++ X2)) ci)).
  { split; [|reflexivity]. apply (PS0_mono _ 0); [lia|]. eapply init_PS0. exact Ei. }
  destruct (dtd_prolog_loc pre post X2 HX1 HX2 HL context context (Parse.token (pre ++ post)) (Parse.token (pre ++ X2))
              R Rmono Htok _ (S (length (s_rest (cs (pre ++ X2) p2)))) p2 p3 p3' p4 Q ci _ c3 c4 n cQ
              (fuel_le pre post X2 HL p2 Lp2) Lp2 Hm Esk Hsw Hdt Hst I1 I2 I3 HQ HPlt HR0)
    as (c32 & c42 & cQ2 & M1 & M2 & M3 & M4 & M5 & [HPS0 ->]).
  specialize (Hds ltac:(lia) ltac:(intros _; lia)).
  (* the pieces *)
  set (A0 := firstn (N.to_nat Q) pre). set (W := skipn (N.to_nat Q) pre).
  assert (Epre : pre = A0 ++ W) by (symmetry; apply firstn_skipn).
  assert (EA0 : blen A0 = Q) by (apply firstn_blen; exact HQ).
  assert (ET2 : pre ++ X2 = (A0 ++ (W ++ ws)) ++ post).
  { unfold X2. rewrite Epre at 1. rewrite <- !app_assoc. reflexivity. }
  assert (ES1 : cs (pre ++ post) Q = sQ A0 W post).
  { unfold cs, sQ. rewrite EA0, <- Epre. f_equal. apply skipn_app_le. unfold blen in HQ. lia. }
  assert (ES2 : cs (pre ++ X2) Q = sQ A0 (W ++ ws) post).
  { unfold cs, sQ. rewrite EA0, <- ET2. f_equal. unfold X2. rewrite skipn_app_le by (unfold blen in HQ; lia).
    fold W. apply app_assoc. }
  (* the contexts *)
  pose proof (PS0_PS _ _ _ HPS0 Hent) as HPS.
  assert (HT1 : tlen (pre ++ post) = blen post + blen pre) by (unfold tlen, blen; rewrite app_length; lia).
  assert (HT2 : tlen (pre ++ X2) = blen post + blen (A0 ++ (W ++ ws))).
  { rewrite ET2. unfold tlen, blen. rewrite !app_length. lia. }
  destruct (PS_decomp _ _ _ (blen pre) (blen post) HPS HT1) as (D1 & D2 & D3 & D4).
  pose proof (PS_rr (pre ++ post) (pre ++ X2) Q cQ HPS) as HPS2.
  destruct (PS_decomp _ _ _ (blen (A0 ++ (W ++ ws))) (blen post) HPS2 HT2) as (F1 & _ & _ & _).
  rewrite olds_rr, uctx_rr in F1.
  set (olds := olds_of cQ) in *. set (c0 := uctx (blen post) cQ) in *.
  assert (EP' : blen (A0 ++ (W ++ ws)) = blen pre + blen ws).
  { rewrite Epre. unfold blen. rewrite !app_length. lia. }
  pose proof (init_rr (pre ++ post) (pre ++ X2) opt ci Ei) as Ei2.
  (* the two parses as [cont2] *)
  set (fu := (length (s_rest (cs (pre ++ post) p4)) - n)%nat).
  set (fu' := (length (s_rest (cs (pre ++ X2) p4)) - n)%nat).
  assert (Hlen4 : (length (s_rest (cs (pre ++ post) p4)) <= length (s_rest (cs (pre ++ X2) p4)))%nat).
  { cbn [cs s_rest]. unfold X2. rewrite !skipn_length, !app_length. lia. }
  assert (HE : (n <= length (s_rest (cs (pre ++ post) p4)))%nat ->
     parse (pre ++ post) opt =
       (let! c := cont2 (pre ++ post) context (Parse.token (pre ++ post)) (S fu) (sQ A0 W post) (pc olds (sh_ctx (blen pre) c0)) in ErrShiftMidCore.post c) /\
     parse (pre ++ X2) opt =
       (let! c := cont2 (pre ++ X2) context (Parse.token (pre ++ X2)) (S fu') (sQ A0 (W ++ ws) post)
                    (pc olds (sh_ctx (blen (A0 ++ (W ++ ws))) c0)) in ErrShiftMidCore.post c)).
  { intros Hn.
    assert (Hsw1 : starts_with (skip_spaces (cs (pre ++ post) p3)) (b "<!DOCTYPE") = true) by (rewrite Esk; exact Hsw).
    assert (Hdt1 : parse_doctype (pre ++ post) context (Parse.token (pre ++ post)) (skip_spaces (cs (pre ++ post) p3)) c3
                   = Ok (cs (pre ++ post) p4, c4)) by (rewrite Esk; exact Hdt).
    assert (Hsw2 : starts_with (skip_spaces (cs (pre ++ X2) p3)) (b "<!DOCTYPE") = true) by (rewrite M2; exact M3).
    assert (Hdt2 : parse_doctype (pre ++ X2) context (Parse.token (pre ++ X2)) (skip_spaces (cs (pre ++ X2) p3)) c32
                   = Ok (cs (pre ++ X2) p4, c42)) by (rewrite M2; exact M4).
    split.
    - rewrite <- ES1. rewrite <- D1.
      apply (dtd_parse_eq (pre ++ post) opt n ci _ _ c3 _ c4 _ cQ fu Ei Es Hm0 Hsw1 Hd Hdt1 Hst). unfold fu. lia.
    - rewrite <- ES2. rewrite <- F1.
      apply (dtd_parse_eq (pre ++ X2) opt n _ _ _ c32 _ c42 _ _ fu' Ei2 Hds M1 Hsw2 Hd Hdt2 M5). unfold fu'. lia. }
  assert (Hfu : (fu <= fu')%nat) by (unfold fu, fu'; lia).
  assert (HWsp : forallb byte_is_space W = true) by exact HW.
  assert (EA : pre ++ ws = A0 ++ (W ++ ws)) by (rewrite Epre at 1; rewrite app_assoc; reflexivity).
  assert (HB : Forall (old_below (blen pre) (blen ws)) olds) by (apply D4; exact HQ).
  assert (Hfuel : parse (pre ++ post) opt <> OutOfFuel -> (n <= length (s_rest (cs (pre ++ post) p4)))%nat).
  { intros Hno.
    assert (Hsw1 : starts_with (skip_spaces (cs (pre ++ post) p3)) (b "<!DOCTYPE") = true) by (rewrite Esk; exact Hsw).
    assert (Hdt1 : parse_doctype (pre ++ post) context (Parse.token (pre ++ post)) (skip_spaces (cs (pre ++ post) p3)) c3
                   = Ok (cs (pre ++ post) p4, c4)) by (rewrite Esk; exact Hdt).
    exact (dtd_fuel (pre ++ post) opt n ci _ _ c3 _ c4 _ cQ Ei Es Hm0 Hsw1 Hd Hdt1 Hst Hno). }
  clearbody fu fu' olds c0 A0 W. subst pre.
  split.
  - intros e He. destruct (HE (Hfuel ltac:(rewrite He; discriminate))) as [E1 E2].
    rewrite ET2 in E2.
    destruct (core2_err A0 W ws post HWsp Hws Hv olds D3 opt fu fu' c0 D2 Hfu E1 E2 e He) as (e' & He' & HM).
    exists e'. split; [rewrite ET2; exact He'|]. rewrite EA. exact HM.
  - intros d Hd'. destruct (HE (Hfuel ltac:(rewrite Hd'; discriminate))) as [E1 E2].
    rewrite ET2 in E2.
    destruct (core2_ok A0 W ws post HWsp Hws Hv olds D3 opt fu fu' c0 D2 Hfu E1 E2 d Hd') as (dU & -> & Hd2).
    rewrite ET2, Hd2. f_equal.
    rewrite (mid_doc_pd (blen (A0 ++ W)) (blen ws) olds D3 HB).
    rewrite mid_doc_sh. rewrite EP'. reflexivity.
Qed.

(* ------------------------------------------------------------------ *)
Lemma parse_err_shift_dtd_explicit : forall pre ws post opt e,
  forallb byte_is_space ws = true -> valid_utf8_b post = true -> post <> [] ->
  dtd_point_noent pre post opt ->
  parse (pre ++ post) opt = Err e ->
  exists e', parse (pre ++ ws ++ post) opt = Err e' /\ MidErr pre (pre ++ ws) post e e'.
Proof.
  intros pre ws post opt e Hws Hv Hpost (n & cQ & (sQ & Hst & HQ & HW) & Hent) He.
  destruct ws as [|w ws'] eqn:Ews.
  - cbn [app]. exists e. split; [exact He|].
    destruct (dtd_main pre [32] post opt n sQ cQ ltac:(discriminate) eq_refl Hv Hpost Hst HQ HW Hent) as [H1 _].
    destruct (H1 e He) as (e1 & _ & (K1 & K2 & K3)).
    split; [reflexivity|]. split; [reflexivity|]. intros Hp.
    destruct (K3 Hp) as (q & tp & L1 & L2 & L3 & L4 & _ & L6 & _).
    exists q, tp. rewrite app_nil_r. auto 10.
  - rewrite <- Ews in *. assert (Hne : ws <> []) by (rewrite Ews; discriminate).
    destruct (dtd_main pre ws post opt n sQ cQ Hne Hws Hv Hpost Hst HQ HW Hent) as [H1 _]. exact (H1 e He).
Qed.
Print Assumptions parse_err_shift_dtd_explicit.

(** * The theorems (insertion behind a DOCTYPE that records no general entity) *)

Theorem parse_err_shift_dtd : forall pre ws post opt e,
  forallb byte_is_space ws = true -> valid_utf8_b post = true -> post <> [] ->
  dtd_point_noent pre post opt ->
  parse (pre ++ post) opt = Err e ->
  exists e', parse (pre ++ ws ++ post) opt = Err e' /\
    err_kind e = err_kind e' /\
    (has_pos e = false -> e' = e) /\
    (has_pos e = true -> exists off, blen pre <= off /\ off <= tlen (pre ++ post) /\
        is_boundary (pre ++ post) off = true /\
        text_pos_at (pre ++ post) off = Ok (error_pos e) /\
        text_pos_at (pre ++ ws ++ post) (off + blen ws) = Ok (error_pos e')).
Proof.
  intros pre ws post opt e Hws Hv Hpost Hip He.
  destruct (parse_err_shift_dtd_explicit pre ws post opt e Hws Hv Hpost Hip He) as (e' & He' & (K1 & K2 & K3)).
  exists e'. split; [exact He'|]. split; [exact K1|]. split; [exact K2|]. intros Hp.
  destruct (K3 Hp) as (q & tp & L1 & L2 & L3 & L4 & L5 & L6 & L7).
  exists (blen pre + q). split; [lia|]. split.
  { unfold tlen in *. rewrite PositionProofs.blen_app. lia. }
  split. { apply is_boundary_app; [exact L1|exact L2|]. intros _. apply valid_head_ok. exact Hv. }
  split; [exact L6|].
  rewrite app_assoc. rewrite PositionProofs.blen_app in L7.
  replace (blen pre + q + blen ws) with (blen pre + blen ws + q) by lia. exact L7.
Qed.
Print Assumptions parse_err_shift_dtd.

(* the form with the two cases: under the restriction the first one never occurs *)
Corollary parse_err_shift_dtd_split : forall pre ws post opt e,
  forallb byte_is_space ws = true -> valid_utf8_b post = true -> post <> [] ->
  dtd_point_noent pre post opt ->
  parse (pre ++ post) opt = Err e ->
  exists e', parse (pre ++ ws ++ post) opt = Err e' /\
    err_kind e = err_kind e' /\
    (has_pos e = false -> e' = e) /\
    (has_pos e = true -> exists off, text_pos_at (pre ++ post) off = Ok (error_pos e) /\
        ((off < blen pre /\ error_pos e' = error_pos e) \/
         (blen pre <= off /\ text_pos_at (pre ++ ws ++ post) (off + blen ws) = Ok (error_pos e')))).
Proof.
  intros pre ws post opt e Hws Hv Hpost Hip He.
  destruct (parse_err_shift_dtd pre ws post opt e Hws Hv Hpost Hip He) as (e' & He' & K1 & K2 & K3).
  exists e'. split; [exact He'|]. split; [exact K1|]. split; [exact K2|]. intros Hp.
  destruct (K3 Hp) as (off & L1 & _ & _ & L4 & L5). exists off. split; [exact L4|]. right. split; assumption.
Qed.
Print Assumptions parse_err_shift_dtd_split.

Theorem parse_ok_shift_dtd : forall pre ws post opt d,
  forallb byte_is_space ws = true -> valid_utf8_b post = true -> post <> [] ->
  dtd_point_noent pre post opt ->
  parse (pre ++ post) opt = Ok d ->
  parse (pre ++ ws ++ post) opt = Ok (mid_doc (blen pre) (blen ws) d).
Proof.
  intros pre ws post opt d Hws Hv Hpost (n & cQ & (sQ & Hst & HQ & HW) & Hent) Hd.
  destruct ws as [|w ws'] eqn:Ews.
  - cbn [app]. change (blen []) with 0. rewrite mid_doc_0. exact Hd.
  - rewrite <- Ews in *. assert (Hne : ws <> []) by (rewrite Ews; discriminate).
    destruct (dtd_main pre ws post opt n sQ cQ Hne Hws Hv Hpost Hst HQ HW Hent) as [_ H2]. exact (H2 d Hd).
Qed.
Print Assumptions parse_ok_shift_dtd.

(* ---- rows and columns, as in ErrShiftMidFinal.v ---- *)
Corollary parse_err_shift_dtd_spaces : forall k pre post opt e,
  valid_utf8_b post = true -> post <> [] -> dtd_point_noent pre post opt ->
  parse (pre ++ post) opt = Err e -> has_pos e = true ->
  exists e' rP cP, parse (pre ++ repeat 32 k ++ post) opt = Err e' /\ err_kind e = err_kind e' /\
    text_pos_at (pre ++ post) (blen pre) = Ok (rP, cP) /\
    error_pos e' = (fst (error_pos e),
                    if fst (error_pos e) =? rP then N.of_nat k + snd (error_pos e) else snd (error_pos e)).
Proof.
  intros k pre post opt e Hv Hpost Hip He Hp.
  destruct (parse_err_shift_dtd_explicit pre (repeat 32 k) post opt e (forallb_space_repeat 32 k eq_refl) Hv Hpost Hip He)
    as (e' & He' & (K1 & K2 & K3)).
  destruct (K3 Hp) as (q & tp & L1 & L2 & L3 & L4 & L5 & _ & _).
  exists e', (fst (pos_app pre (1, 1))), (snd (pos_app pre (1, 1))).
  split; [exact He'|]. split; [exact K1|]. split.
  { rewrite (ins_pos pre post Hv). destruct (pos_app pre (1, 1)); reflexivity. }
  rewrite L5, pos_app_spaces, <- L4. f_equal.
  rewrite L4. unfold pos_app. cbn [fst snd].
  destruct (fst tp =? 1) eqn:E1.
  - replace (count_byte 10 pre + fst tp =? count_byte 10 pre + 1) with true by lia. reflexivity.
  - replace (count_byte 10 pre + fst tp =? count_byte 10 pre + 1) with false by lia. reflexivity.
Qed.
Print Assumptions parse_err_shift_dtd_spaces.

Corollary parse_err_shift_dtd_lines : forall k pre post opt e, (0 < k)%nat ->
  valid_utf8_b post = true -> post <> [] -> dtd_point_noent pre post opt ->
  parse (pre ++ post) opt = Err e -> has_pos e = true ->
  exists e' rP cP, parse (pre ++ repeat 10 k ++ post) opt = Err e' /\ err_kind e = err_kind e' /\
    text_pos_at (pre ++ post) (blen pre) = Ok (rP, cP) /\
    error_pos e' = (N.of_nat k + fst (error_pos e),
                    if fst (error_pos e) =? rP then snd (error_pos e) - (cP - 1) else snd (error_pos e)).
Proof.
  intros k pre post opt e Hk Hv Hpost Hip He Hp.
  destruct (parse_err_shift_dtd_explicit pre (repeat 10 k) post opt e (forallb_space_repeat 10 k eq_refl) Hv Hpost Hip He)
    as (e' & He' & (K1 & K2 & K3)).
  destruct (K3 Hp) as (q & tp & L1 & L2 & L3 & L4 & L5 & _ & _).
  exists e', (fst (pos_app pre (1, 1))), (snd (pos_app pre (1, 1))).
  split; [exact He'|]. split; [exact K1|]. split.
  { rewrite (ins_pos pre post Hv). destruct (pos_app pre (1, 1)); reflexivity. }
  rewrite L5, (pos_app_lines pre k tp Hk), <- L4. f_equal.
  rewrite L4. unfold pos_app. cbn [fst snd].
  destruct (fst tp =? 1) eqn:E1.
  - replace (count_byte 10 pre + fst tp =? count_byte 10 pre + 1) with true by lia. change (1 =? 1) with true. cbv iota. lia.
  - replace (count_byte 10 pre + fst tp =? count_byte 10 pre + 1) with false by lia. reflexivity.
Qed.
Print Assumptions parse_err_shift_dtd_lines.

(* ------------------------------------------------------------------ *)
(** * Examples *)
Definition dtd_opt : options := {| allow_dtd := true; nodes_limit := default_nodes_limit |}.

(* a DOCTYPE with an internal subset (a declaration and a comment), then a processing instruction *)
Definition exd_pre : bytes := b "<?xml version='1.0'?><!DOCTYPE a [<!ELEMENT a ANY><!-- c -->]><?p q?>".
Definition exd_post : bytes := b " <a><b></a>".

Example exd_point : dtd_point_noent exd_pre exd_post dtd_opt.
Proof. apply (dtd_point_noent_b_ok _ _ _ 1). vm_compute. reflexivity. Qed.

(* right behind the DOCTYPE *)
Example exd_point0 : dtd_point_noent (b "<!DOCTYPE a>") (b "<a/>") dtd_opt.
Proof. apply (dtd_point_noent_b_ok _ _ _ 0). vm_compute. reflexivity. Qed.

(* a parameter entity is not recorded: allowed; a general entity is recorded: the test says no *)
Example exd_point_pe : dtd_point_noent (b "<!DOCTYPE a [<!ENTITY % e 'v'>]>") (b "<a/>") dtd_opt.
Proof. apply (dtd_point_noent_b_ok _ _ _ 0). vm_compute. reflexivity. Qed.
Example exd_entity : dtd_point_noent_b (b "<!DOCTYPE a [<!ENTITY e 'v'>]>") (b "<a/>") dtd_opt 0 = false.
Proof. vm_compute. reflexivity. Qed.

Example exd_err : parse (exd_pre ++ exd_post) dtd_opt = Err (UnexpectedCloseTag [98] [97] (1, 77))
               /\ parse (exd_pre ++ repeat 32 3 ++ exd_post) dtd_opt = Err (UnexpectedCloseTag [98] [97] (1, 80)).
Proof. split; vm_compute; reflexivity. Qed.

(* why [post <> []]: a DOCTYPE that is not closed when the text ends is accepted by parse_doctype;
   a whitespace behind it changes the error *)
Example exd_unclosed : parse (b "<!DOCTYPE a [") dtd_opt = Err NoRootNode
                    /\ parse (b "<!DOCTYPE a [" ++ [32]) dtd_opt = Err (UnknownToken (1, 15)).
Proof. split; vm_compute; reflexivity. Qed.

Definition exd_post2 : bytes := b " <a x='1'>t</a>".
Example exd_ok :
  match parse (exd_pre ++ exd_post2) dtd_opt with
  | Ok d => parse (exd_pre ++ repeat 32 3 ++ exd_post2) dtd_opt = Ok (mid_doc (blen exd_pre) 3 d)
            /\ mid_doc (blen exd_pre) 3 d <> d
  | _ => False
  end.
Proof. vm_compute. split; [reflexivity|discriminate]. Qed.
