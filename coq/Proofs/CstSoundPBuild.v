(* Proofs/CstSoundPBuild.v -- C08 soundness WITH A PROLOG AND ENTITIES (stage S5), builder half:
   CstSoundNBuild.v with an arbitrary list of declared entities [es] in the context (the definitions
   that do not depend on the context are those of CstSoundNBuild.v), the token of an entity
   declaration, and the initial context. *)
From Coq Require Import String.
From Coq Require Import List Arith NArith Bool Lia ZifyBool ZifyN ZifyNat.
Import ListNotations.
From RX Require Import Generated.
From RX.Model Require Import Base CharClass Stream Tokenizer Doc Builder Parse.
From RX.Spec Require Scope CstNs.
From RX.Spec Require Import CstFull.
From RX.Proofs Require Import Tactics.
From RX.Proofs Require RejectProofs ScopeProofs ScopeParse AttrListProofs.
From RX.Proofs Require Import CstSoundBuild CstSoundTBuild CstSoundNBuild.
Open Scope N_scope.

Section BuildP.
Variable text : bytes.
Variable es : list entity.
Notation sb := (slice_bytes text).
Notation T := (Parse.token text).
Notation bindings_of := (SP.bindings_of text).

(* ---- the chain of open elements, with the range of the namespace table ---- *)
Inductive chainN (rs : list row) : N -> list frame -> Prop :=
| cn_root id : nth_error rs (N.to_nat id) = Some (None, KRoot) -> chainN rs id []
| cn_elem id par ns local ar f stk :
    nth_error rs (N.to_nat id) = Some (Some par, KElement ns local ar (f_nss f)) ->
    sb local = f_loc f -> chainN rs par stk -> chainN rs id (f :: stk).

Lemma chainN_app rs K : forall id stk, chainN rs id stk -> chainN (rs ++ K) id stk.
Proof.
  induction 1 as [id H|id par ns local ar f stk H Hl _ IH].
  - eapply cn_root. rewrite nth_error_app1; [exact H|]. apply nth_error_Some. congruence.
  - eapply cn_elem; [|exact Hl|exact IH]. rewrite nth_error_app1; [exact H|]. apply nth_error_Some. congruence.
Qed.

Definition frame_ok (c : context) (f : frame) : Prop :=
  bindings_of (c_doc c) (f_nss f) = Some (f_sc f) /\ Scope.prefixes_unique (f_sc f) = true /\
  snd (f_nss f) <= c_ns_start_idx c.

Record NsOk (c : context) (stk : list frame) : Prop := {
  no_ok : SP.ns_ok (c_doc c);
  no_xml : SQ.xml0 text (c_doc c);
  no_start : c_ns_start_idx c <= len_N (d_ns_tree (c_doc c));
  no_frames : Forall (frame_ok c) stk
}.

Lemma ns_ok_eq d d' : d_ns_values d' = d_ns_values d -> d_ns_tree d' = d_ns_tree d -> SP.ns_ok d -> SP.ns_ok d'.
Proof. unfold SP.ns_ok. intros Hv Ht H p vi. rewrite Hv, Ht. apply H. Qed.

Lemma xml0_eq d d' : d_ns_values d' = d_ns_values d -> SQ.xml0 text d -> SQ.xml0 text d'.
Proof. unfold SQ.xml0. intros Hv H. rewrite Hv. exact H. Qed.

Lemma NsOk_eq c c' stk : nseq c c' -> NsOk c stk -> NsOk c' stk.
Proof.
  intros (E1 & E2 & E3) [A B C D]. constructor.
  - eapply ns_ok_eq; eauto.
  - eapply xml0_eq; eauto.
  - rewrite E1, E3. exact C.
  - eapply Forall_impl; [|exact D]. intros f (F1 & F2 & F3). unfold frame_ok.
    rewrite (SQ.bindings_of_ns_eq text _ _ _ E2 E3), E1. auto.
Qed.

Record SimP (c : context) (stk : list frame) : Prop := {
  sn_chain : chainN (erows c) (c_parent_id c) stk;
  sn_pp : map sb (c_parent_prefixes c) = [] :: rev (map f_pre stk);
  sn_cur : c_cur_attrs c = [];
  sn_ent : c_entities c = es;
  sn_ns : NsOk c stk;
  sn_start : c_ns_start_idx c = len_N (d_ns_tree (c_doc c));
  sn_ld : c_ld c = ld_init
}.

(* inside a start tag: [des] are the entries read so far, as they are classified and with their
   normalised values *)
Record InTagP (c : context) (stk : list frame) (pfx name : slice) (des : list CstNs.entry) : Prop := {
  tn_chain : chainN (erows c) (c_parent_id c) stk;
  tn_pp : map sb (c_parent_prefixes c) = [] :: rev (map f_pre stk);
  tn_tn : tn_prefix (c_tag_name c) = pfx /\ tn_name (c_tag_name c) = name;
  tn_cur : map (fun a => (sb (ta_prefix a), sb (ta_local a))) (c_cur_attrs c) = attr_names des;
  tn_ent : c_entities c = es;
  tn_ns : NsOk c stk;
  tn_own : bindings_of (c_doc c) (c_ns_start_idx c, len_N (d_ns_tree (c_doc c))) = Some (CstNs.own_bindings des);
  tn_uniq : Scope.prefixes_unique (CstNs.own_bindings des) = true;
  tn_eok : forallb ns_entry_ok des = true;
  tn_ld : c_ld c = ld_init
}.

(* ---- steps that keep everything but the rows ---- *)
Definition same_ctx (c c' : context) : Prop :=
  c_parent_id c' = c_parent_id c /\ c_parent_prefixes c' = c_parent_prefixes c /\
  c_cur_attrs c' = c_cur_attrs c /\ c_tag_name c' = c_tag_name c /\ c_entities c' = c_entities c /\ nseq c c' /\
  c_ld c' = c_ld c.

Lemma same_ctx_refl c : same_ctx c c.
Proof. repeat split. Qed.
Lemma same_ctx_trans c1 c2 c3 : same_ctx c1 c2 -> same_ctx c2 c3 -> same_ctx c1 c3.
Proof.
  intros (A1 & A2 & A3 & A4 & A5 & A6 & A7) (B1 & B2 & B3 & B4 & B5 & B6 & B7).
  split; [congruence|]. split; [congruence|]. split; [congruence|]. split; [congruence|]. split; [congruence|].
  split; [eapply nseq_trans; eauto|congruence].
Qed.

Lemma SimP_frame c c' stk K : same_ctx c c' -> erows c' = erows c ++ K -> SimP c stk -> SimP c' stk.
Proof.
  intros (A1 & A2 & A3 & A4 & A5 & A6 & A7) ER [S1 S2 S3 S4 S5 S6 S7]. constructor.
  - rewrite ER, A1. apply chainN_app. exact S1.
  - rewrite A2. exact S2.
  - rewrite A3. exact S3.
  - rewrite A5. exact S4.
  - eapply NsOk_eq; eauto.
  - destruct A6 as (E1 & _ & E3). rewrite E1, E3. exact S6.
  - rewrite A7. exact S7.
Qed.

Lemma InTagP_frame c c' stk K tp tn des : same_ctx c c' -> erows c' = erows c ++ K ->
  InTagP c stk tp tn des -> InTagP c' stk tp tn des.
Proof.
  intros (A1 & A2 & A3 & A4 & A5 & A6 & A7) ER [S1 S2 S3 S4 S5 S6 S7 S8 S9 S10]. constructor.
  - rewrite ER, A1. apply chainN_app. exact S1.
  - rewrite A2. exact S2.
  - rewrite A4. exact S3.
  - rewrite A3. exact S4.
  - rewrite A5. exact S5.
  - eapply NsOk_eq; eauto.
  - destruct A6 as (E1 & E2 & E3). rewrite (SQ.bindings_of_ns_eq text _ _ _ E2 E3), E1, E3. exact S7.
  - exact S8.
  - exact S9.
  - rewrite A7. exact S10.
Qed.

Lemma reset_ld c c1 : reset_after_text text c = Ok c1 -> c_ld c1 = c_ld c.
Proof.
  intros H. unfold reset_after_text in H. destruct (c_after_text c) as [|x [|y r]].
  - inversion H; reflexivity.
  - inversion H; reflexivity.
  - ib H c2 H2. inversion H; subst. cbn [c_ld set_after_text]. unfold merge_text in H2. cbv zeta in H2.
    destruct (rev (d_nodes (c_doc c))) as [|nd rn]; [discriminate|]. destruct (nd_kind nd); try discriminate.
    ib H2 nodes Hn. inversion H2; reflexivity.
Qed.

Lemma append_ld kind r c id c' : append_node kind r c = Ok (id, c') -> c_ld c' = c_ld c.
Proof.
  unfold append_node. cbv zeta. intros H.
  destruct (nodes_limit (c_opt c) <=? len_N (d_nodes (c_doc c))); [noerr|].
  ib H nid Hn. ib H pnd Hp. ib H n1 H1. ib H n2 H2. ib H n3 H3. inversion H; reflexivity.
Qed.

Lemma reset_same c c1 : reset_after_text text c = Ok c1 -> same_ctx c c1 /\ erows c1 = erows c /\ c_after_text c1 = [].
Proof.
  intros H. destruct (reset_after_text_inv text _ _ H) as (R1 & R2 & R3 & R4 & R5 & R6 & R7 & R8).
  pose proof (nstep_nseq _ _ (SQ.reset_after_text_nstep _ _ _ H)) as Hn. pose proof (reset_ld _ _ H) as Hl.
  repeat split; try assumption; apply Hn.
Qed.

Lemma append_same kind r c id c' : append_node kind r c = Ok (id, c') ->
  same_ctx c c' /\ erows c' = erows c ++ [(Some (c_parent_id c), ekind kind)] /\ id = len_N (d_nodes (c_doc c)) /\
  c_after_text c' = c_after_text c.
Proof.
  intros H. destruct (append_node_inv_t _ _ _ _ _ H) as (A1 & A2 & A3 & A4 & A5 & A6 & A7 & A8 & A9).
  destruct (SQ.append_node_rows _ _ _ _ _ H) as (B1 & B2 & B3 & _). pose proof (append_ld _ _ _ _ _ H) as Hl.
  repeat split; assumption.
Qed.

(* ---- leaves (comments, PIs) ---- *)
Lemma leaf_step_p kind r c c' stk : SimP c stk ->
  (let! c1 := reset_after_text text c in let! (_, c2) := append_node kind r c1 in Ok c2) = Ok c' ->
  SimP c' stk /\ erows c' = erows c ++ [(Some (c_parent_id c), ekind kind)].
Proof.
  intros HS H. ib H c1 H1. ib H q Hq. destruct q as [id c2]. inversion H; subst. clear H.
  destruct (reset_same _ _ H1) as (X1 & R1 & _). destruct (append_same _ _ _ _ _ Hq) as (X2 & A1 & _).
  assert (ER : erows c' = erows c ++ [(Some (c_parent_id c), ekind kind)]).
  { rewrite A1, R1. destruct X1 as (P & _). rewrite P. reflexivity. }
  split; [|exact ER]. exact (SimP_frame c c' stk _ (same_ctx_trans _ _ _ X1 X2) ER HS).
Qed.

Lemma step_comment_p s r c c' stk : SimP c stk -> T (TComment s r) c = Ok c' ->
  SimP c' stk /\ erows c' = erows c ++ [(Some (c_parent_id c), KComment s)].
Proof. intros HS H. exact (leaf_step_p (KComment s) r c c' stk HS H). Qed.

Lemma step_pi_p t v r c c' stk : SimP c stk -> T (TPI t v r) c = Ok c' ->
  SimP c' stk /\ erows c' = erows c ++ [(Some (c_parent_id c), KPI t v)].
Proof. intros HS H. exact (leaf_step_p (KPI t v) r c c' stk HS H). Qed.

Lemma leaf_nseq kind r c c' :
  (let! c1 := reset_after_text text c in let! (_, c2) := append_node kind r c1 in Ok c2) = Ok c' -> nseq c c'.
Proof.
  intros H. ib H c1 H1. ib H q Hq. destruct q as [id c2]. inversion H; subst. clear H.
  destruct (reset_same _ _ H1) as (X1 & _). destruct (append_same _ _ _ _ _ Hq) as (X2 & _).
  eapply nseq_trans; [apply X1|apply X2].
Qed.

Lemma append_text_nseq t r c c' : append_text t r c = Ok c' -> nseq c c'.
Proof. intros H. apply nstep_nseq. eapply SQ.append_text_nstep; eauto. Qed.

Lemma cdata_nseq t r c c' : T (TCdata t r) c = Ok c' -> nseq c c'.
Proof. intros H. cbn [Parse.token token_with] in H. apply nstep_nseq. eapply SQ.process_cdata_nstep; eauto. Qed.

Lemma start_nseq pfx loc st0 c c' : T (TElementStart pfx loc st0) c = Ok c' -> nseq c c'.
Proof.
  intros H. cbn [Parse.token token_with] in H. ib H c1 H1. destruct (reset_same _ _ H1) as (X1 & _).
  destruct (bytes_eqb _ _); [noerr|]. inversion H; subst. destruct X1 as (_ & _ & _ & _ & _ & (A & B & C) & _).
  repeat split; cbn; assumption.
Qed.

(* ---- text fragments: one more fragment, a text row at most ---- *)
Lemma append_text_step_p t r c c' stk : SimP c stk -> append_text t r c = Ok c' ->
  SimP c' stk /\ exists K, erows c' = erows c ++ K /\ Forall (fun rw => is_element_kind (snd rw) = false) K.
Proof.
  intros HS H. unfold append_text in H. ib H c1 H1.
  assert (E : same_ctx c c1 /\ exists K, erows c1 = erows c ++ K /\ Forall (fun rw => is_element_kind (snd rw) = false) K).
  { destruct (c_after_text c).
    - ib H1 q Hq. destruct q as [id c2]. inversion H1; subst c2.
      destruct (append_same _ _ _ _ _ Hq) as (X & A1 & _).
      split; [exact X|]. eexists; split; [exact A1|constructor; [reflexivity|constructor]].
    - inversion H1; subst c1. split; [apply same_ctx_refl|]. exists []. rewrite app_nil_r. split; [reflexivity|constructor]. }
  destruct E as (X & K & EK & HK). inversion H; subst c'. clear H.
  match goal with |- SimP ?cc _ /\ _ => assert (X2 : same_ctx c1 cc) by (repeat split);
    change (erows cc) with (erows c1) end.
  split; [|exists K; auto]. exact (SimP_frame c _ stk K (same_ctx_trans _ _ _ X X2) EK HS).
Qed.

Lemma step_cdata_p t r c c' stk : SimP c stk -> T (TCdata t r) c = Ok c' ->
  SimP c' stk /\ exists K, erows c' = erows c ++ K /\ Forall (fun rw => is_element_kind (snd rw) = false) K.
Proof.
  intros HS H. cbn [Parse.token token_with] in H. unfold process_cdata in H. cbv zeta in H.
  destruct (mem_b 13 (sb t)); exact (append_text_step_p _ _ _ _ _ HS H).
Qed.

(* ---- start tags ---- *)
Lemma step_start_p pfx loc st0 c c' stk : SimP c stk ->
  T (TElementStart pfx loc st0) c = Ok c' ->
  InTagP c' stk pfx loc [] /\ erows c' = erows c /\ bytes_eqb (sb pfx) CstNs.xmlns_b = false.
Proof.
  intros HS H. cbn [Parse.token token_with] in H. ib H c1 H1.
  destruct (reset_same _ _ H1) as (X1 & R1 & _).
  change xmlns_str with CstNs.xmlns_b in H.
  destruct (bytes_eqb (sb pfx) CstNs.xmlns_b) eqn:Ex; [noerr|]. inversion H; subst. clear H.
  pose proof (SimP_frame c c1 stk [] X1 ltac:(rewrite app_nil_r; exact R1) HS) as [S1 S2 S3 S4 S5 S6 S7].
  match goal with |- InTagP (set_tag_name c1 ?tn) _ _ _ _ /\ _ => set (tnv := tn) end.
  change (erows (set_tag_name c1 tnv)) with (erows c1).
  split; [|auto]. constructor.
  - exact S1.
  - exact S2.
  - split; reflexivity.
  - change (c_cur_attrs (set_tag_name c1 tnv)) with (c_cur_attrs c1). rewrite S3. reflexivity.
  - exact S4.
  - apply (NsOk_eq c1); [repeat split|exact S5].
  - change (bindings_of (c_doc c1) (c_ns_start_idx c1, len_N (d_ns_tree (c_doc c1))) = Some []).
    rewrite S6. apply SQ.bindings_of_empty.
  - reflexivity.
  - reflexivity.
  - exact S7.
Qed.

(* ---- entries of a start tag ---- *)
Lemma normalize_shape value c v c1 : normalize_attribute text value c = Ok (v, c1) ->
  c1 = c \/ exists ld, c1 = set_ld c ld.
Proof.
  unfold normalize_attribute. cbv zeta. intros H. destruct (existsb _ (sb value)).
  - ib H q Hq. destruct q as [t ld]. ib H bs Hbs. inversion H; subst. right; eauto.
  - inversion H; subst. left; reflexivity.
Qed.

Lemma own_snoc d d' start own x : SP.ns_ok d -> start <= len_N (d_ns_tree d) ->
  bindings_of d (start, len_N (d_ns_tree d)) = Some own ->
  len_N (d_ns_tree d') = len_N (d_ns_tree d) + 1 ->
  SP.binding_at text d' (len_N (d_ns_tree d)) = Some x ->
  (forall p, p < len_N (d_ns_tree d) -> SP.binding_at text d' p = SP.binding_at text d p) ->
  bindings_of d' (start, len_N (d_ns_tree d')) = Some (own ++ [x]).
Proof.
  intros Hok Hs Hown Hlen Hnew Hold. rewrite Hlen. unfold SP.bindings_of. cbn [fst snd].
  replace (N.to_nat (len_N (d_ns_tree d) + 1 - start)) with (S (N.to_nat (len_N (d_ns_tree d) - start))) by lia.
  rewrite SQ.N_range_snoc, SQ.bindings_of_list_app.
  change (SP.bindings_of_list text d' (N_range start (N.to_nat (len_N (d_ns_tree d) - start))))
    with (bindings_of d' (start, len_N (d_ns_tree d))).
  rewrite (SQ.bindings_of_old text d d' (len_N (d_ns_tree d))) by (auto; cbn; lia).
  rewrite Hown. cbn [SP.bindings_of_list].
  replace (start + N.of_nat (N.to_nat (len_N (d_ns_tree d) - start))) with (len_N (d_ns_tree d)) by lia.
  rewrite Hnew. reflexivity.
Qed.

(* the (prefix, URI) pairs of the stored namespaces *)
Definition valsd (d : document) : list Scope.binding :=
  map (fun v => (ns_name_bytes text v, storage_bytes text (ns_uri v))) (d_ns_values d).
Definition vals (c : context) : list Scope.binding := valsd (c_doc c).
Definition push_vals (d d' : document) (x : Scope.binding) : Prop :=
  (valsd d' = valsd d /\ In x (valsd d)) \/ (valsd d' = valsd d ++ [x] /\ len_N (d_ns_values d) <= 65535).

Lemma push_ns_vals name uri d d' : push_ns text name uri d = Ok d' ->
  push_vals d d' (match name with Some s0 => Some (str_bytes text s0) | None => None end, storage_bytes text uri).
Proof.
  intros H. unfold push_ns in H.
  destruct (find_ns text (d_ns_values d) _ _ 0) as [idx|] eqn:F.
  - inversion H; subst d'. left. split; [reflexivity|].
    apply SP.find_ns_spec in F. destruct F as (v & _ & F1 & F2 & F3). apply nth_error_In in F1.
    unfold valsd. apply in_map_iff. exists v. rewrite F2, F3. auto.
  - destruct (ns_values_limit <? len_N (d_ns_values d)) eqn:L; [discriminate|]. inversion H; subst d'. right.
    unfold valsd. cbn [d_ns_values]. rewrite map_app. split; [reflexivity|]. change ns_values_limit with 65535 in L. lia.
Qed.

Lemma bindings_of_list_length d : forall ps l, SP.bindings_of_list text d ps = Some l -> length l = length ps.
Proof.
  induction ps as [|p r IH]; intros l H; cbn [SP.bindings_of_list] in H; [injection H as <-; reflexivity|].
  destruct (SP.binding_at text d p); [|discriminate].
  destruct (SP.bindings_of_list text d r) as [l'|]; [|discriminate]. injection H as <-.
  cbn [length]. rewrite (IH _ eq_refl). reflexivity.
Qed.

Lemma N_range_length a n : length (N_range a n) = n.
Proof. revert a. induction n as [|n IH]; intros a; [reflexivity|]. cbn [N_range length]. rewrite IH. reflexivity. Qed.

Lemma bindings_of_length d a e l : bindings_of d (a, e) = Some l -> length l = N.to_nat (e - a).
Proof. unfold SP.bindings_of. cbn [fst snd]. intros H. rewrite (bindings_of_list_length _ _ _ H), N_range_length. reflexivity. Qed.

Lemma push_step c1 d' stk name uri own p : NsOk c1 stk ->
  bindings_of (c_doc c1) (c_ns_start_idx c1, len_N (d_ns_tree (c_doc c1))) = Some own ->
  Scope.prefixes_unique own = true ->
  ns_exists text (c_doc c1) (c_ns_start_idx c1) p = Ok false ->
  p = match name with Some s0 => Some (str_bytes text s0) | None => None end ->
  push_ns text name uri (c_doc c1) = Ok d' ->
  NsOk (set_doc c1 d') stk /\
  bindings_of d' (c_ns_start_idx c1, len_N (d_ns_tree d')) = Some (own ++ [(p, storage_bytes text uri)]) /\
  Scope.prefixes_unique (own ++ [(p, storage_bytes text uri)]) = true /\
  d_nodes d' = d_nodes (c_doc c1) /\
  len_N (d_ns_tree d') = len_N (d_ns_tree (c_doc c1)) + 1 /\ push_vals (c_doc c1) d' (p, storage_bytes text uri).
Proof.
  intros [Hok Hxml Hst Hfr] Hown Hu Hex Hp Hpush.
  destruct (SP.push_ns_appends text name uri _ d' Hok Hpush) as (Hok' & Hlen & Hnew & Hold).
  rewrite <- Hp in Hnew.
  destruct (SQ.push_ns_values_le _ _ _ _ _ Hpush) as (_ & Hle).
  split; [|split; [|split; [|split; [|split]]]].
  - constructor; cbn [c_doc set_doc c_ns_start_idx].
    + exact Hok'.
    + destruct Hxml as (v & Hv & Hu0). exists v. split; [apply Hle; exact Hv|exact Hu0].
    + lia.
    + eapply Forall_impl; [|exact Hfr]. intros f (F1 & F2 & F3). unfold frame_ok. cbn [c_doc set_doc c_ns_start_idx].
      rewrite (SQ.bindings_of_old text (c_doc c1) d' (len_N (d_ns_tree (c_doc c1)))) by (auto; lia). auto.
  - apply (own_snoc (c_doc c1)); assumption.
  - rewrite (SP.ns_exists_spec text _ _ p own Hst Hown) in Hex. inversion Hex as [Hex'].
    apply SP.prefixes_unique_app. split; [exact Hu|]. split; [reflexivity|].
    intros x y Hx [<-|[]]. cbn [fst]. intros E.
    rewrite SP.existsb_prefix_false in Hex'. apply (Hex' x Hx). congruence.
  - apply (SQ.push_ns_nodes _ _ _ _ _ Hpush).
  - exact Hlen.
  - rewrite Hp. apply push_ns_vals. exact Hpush.
Qed.

Lemma blen_nil_inv (l : bytes) : blen l = 0 -> l = [].
Proof. destruct l; [reflexivity|]. unfold blen. cbn [length]. lia. Qed.

Definition attr_effect (c c' : context) (des : list CstNs.entry) (e : CstNs.entry) : Prop :=
  (nseq c c' /\ CstNs.own_bindings (des ++ [e]) = CstNs.own_bindings des) \/
  (exists x, CstNs.own_bindings (des ++ [e]) = CstNs.own_bindings des ++ [x] /\ fst x <> Some Scope.xml_prefix /\
     c_ns_start_idx c' = c_ns_start_idx c /\
     len_N (d_ns_tree (c_doc c')) = len_N (d_ns_tree (c_doc c)) + 1 /\ push_vals (c_doc c) (c_doc c') x).

Lemma step_attr_p l r ql el pfx loc value c c' stk tp tn des :
  InTagP c stk tp tn des -> slice_len pfx = blen (sb pfx) -> sb loc <> [] ->
  (forall v c1, normalize_attribute text value c = Ok (v, c1) -> c1 = c) ->
  T (TAttribute r ql el pfx loc value) c = Ok c' ->
  exists v, normalize_attribute text value c = Ok (v, c) /\
    InTagP c' stk tp tn (des ++ [classify l (sb pfx) (sb loc) (storage_bytes text v)]) /\ erows c' = erows c /\
    attr_effect c c' des (classify l (sb pfx) (sb loc) (storage_bytes text v)).
Proof.
  intros HI Hpl Hlne Hnorm H. cbn [Parse.token token_with] in H. unfold process_attribute in H.
  ib H q Hq. destruct q as [v c1]. cbv zeta in H. pose proof (Hnorm _ _ Hq) as Ec.
  exists v. split; [rewrite Ec in Hq; exact Hq|].
  assert (X1 : same_ctx c c1 /\ erows c1 = erows c) by (rewrite Ec; split; [apply same_ctx_refl|reflexivity]).
  destruct X1 as (X1 & R1).
  pose proof (InTagP_frame c c1 stk [] tp tn des X1 ltac:(rewrite app_nil_r; exact R1) HI) as HI1.
  clear HI Hq Hnorm. destruct HI1 as [S1 S2 S3 S4 S5 S6 S7 S8 S9 S10].
  remember (sb pfx) as pb eqn:Dpb. remember (sb loc) as lb eqn:Dlb. remember (storage_bytes text v) as vb eqn:Dvb.
  change xmlns_str with CstNs.xmlns_b in H. change ns_xmlns_uri with CstNs.xmlns_uri in H.
  change ns_xml_uri with Scope.xml_uri in H. change ns_xml_prefix with Scope.xml_prefix in H.
  unfold classify.
  destruct (bytes_eqb pb CstNs.xmlns_b) eqn:Epx.
  - (* xmlns:lb = vb *)
    destruct (bytes_eqb lb CstNs.xmlns_b) eqn:E1; [noerr|].
    destruct (bytes_eqb vb CstNs.xmlns_uri) eqn:E2; [noerr|].
    destruct (bytes_eqb lb Scope.xml_prefix) eqn:E3; destruct (bytes_eqb vb Scope.xml_uri) eqn:E4;
      cbn [negb andb] in H; try noerr.
    + (* xmlns:xml with the xml URI: nothing is stored *)
      ib H ex0 Hex. destruct ex0; [noerr|]. inversion H; subst c'. clear H.
      split; [|split; [exact R1|left; rewrite Ec; split; [apply nseq_refl|]]].
      2:{ rewrite own_bindings_app. cbn [CstNs.own_bindings flat_map]. change Scope.bytes_eqb with bytes_eqb. rewrite E3. cbn [app].
          apply app_nil_r. }
      constructor; try assumption.
      * rewrite attr_names_app. cbn. rewrite app_nil_r. exact S4.
      * rewrite own_bindings_app. cbn [CstNs.own_bindings flat_map]. change Scope.bytes_eqb with bytes_eqb. rewrite E3. cbn [app].
        rewrite app_nil_r. exact S7.
      * rewrite own_bindings_app. cbn [CstNs.own_bindings flat_map]. change Scope.bytes_eqb with bytes_eqb. rewrite E3. cbn [app].
        rewrite app_nil_r. exact S8.
      * rewrite forallb_app, S9. cbn [forallb ns_entry_ok]. change Scope.bytes_eqb with bytes_eqb. rewrite E1, E2, E3, E4. reflexivity.
    + (* an ordinary prefix *)
      ib H ex0 Hex. destruct ex0; [noerr|]. ib H d' Hd. inversion H; subst c'. clear H.
      destruct (push_step c1 d' stk (Some (SIn loc)) v _ (Some lb) S6 S7 S8 Hex ltac:(rewrite Dlb; reflexivity) Hd) as (P1 & P2 & P3 & P4 & P5 & P6).
      rewrite <- Dvb in P2, P3, P6.
      assert (Eo : CstNs.own_bindings (des ++ [CstNs.EDecl l lb vb]) = CstNs.own_bindings des ++ [(Some lb, vb)]).
      { rewrite own_bindings_app. cbn [CstNs.own_bindings flat_map]. change Scope.bytes_eqb with bytes_eqb. rewrite E3. cbn [app].
        destruct lb; [congruence|reflexivity]. }
      assert (ER : erows (set_doc c1 d') = erows c1) by (unfold erows; cbn [c_doc set_doc]; rewrite P4; reflexivity).
      split; [|split; [rewrite ER; exact R1|right; exists (Some lb, vb); rewrite <- Ec; split; [exact Eo|]]].
      2:{ split; [cbn [fst]; intros Hc; injection Hc as Hc; rewrite Hc, bytes_eqb_same in E3; discriminate|].
          split; [reflexivity|]. split; [exact P5|exact P6]. }
      constructor.
      * rewrite ER. exact S1.
      * exact S2.
      * exact S3.
      * rewrite attr_names_app. cbn. rewrite app_nil_r. exact S4.
      * exact S5.
      * exact P1.
      * rewrite Eo. exact P2.
      * rewrite Eo. exact P3.
      * rewrite forallb_app, S9. cbn [forallb ns_entry_ok]. change Scope.bytes_eqb with bytes_eqb. rewrite E1, E2, E3, E4. reflexivity.
      * exact S10.
  - destruct ((slice_len pfx =? 0) && bytes_eqb lb CstNs.xmlns_b) eqn:Ed.
    + (* xmlns = vb *)
      apply andb_true_iff in Ed. destruct Ed as [Ed1 Ed2].
      assert (Epb : pb = []) by (apply blen_nil_inv; lia).
      rewrite Epb, Ed2.
      destruct (bytes_eqb vb Scope.xml_uri) eqn:E4; [noerr|].
      destruct (bytes_eqb vb CstNs.xmlns_uri) eqn:E2; [noerr|].
      ib H ex0 Hex. destruct ex0; [noerr|]. ib H d' Hd. inversion H; subst c'. clear H.
      destruct (push_step c1 d' stk None v _ None S6 S7 S8 Hex eq_refl Hd) as (P1 & P2 & P3 & P4 & P5 & P6).
      rewrite <- Dvb in P2, P3, P6.
      assert (Eo : CstNs.own_bindings (des ++ [CstNs.EDecl l [] vb]) = CstNs.own_bindings des ++ [(None, vb)]).
      { rewrite own_bindings_app. reflexivity. }
      assert (ER : erows (set_doc c1 d') = erows c1) by (unfold erows; cbn [c_doc set_doc]; rewrite P4; reflexivity).
      split; [|split; [rewrite ER; exact R1|right; exists (None, vb); rewrite <- Ec; split; [exact Eo|]]].
      2:{ split; [cbn [fst]; discriminate|]. split; [reflexivity|]. split; [exact P5|exact P6]. }
      constructor.
      * rewrite ER. exact S1.
      * exact S2.
      * exact S3.
      * rewrite attr_names_app. cbn. rewrite app_nil_r. exact S4.
      * exact S5.
      * exact P1.
      * rewrite Eo. exact P2.
      * rewrite Eo. exact P3.
      * rewrite forallb_app, S9. cbn [forallb ns_entry_ok]. change Scope.bytes_eqb with bytes_eqb. rewrite E2, E4. reflexivity.
      * exact S10.
    + (* an ordinary attribute *)
      inversion H; subst c'. clear H.
      match goal with |- InTagP (set_cur_attrs c1 ?lv0) _ _ _ _ /\ _ => set (lv := lv0) end.
      change (erows (set_cur_attrs c1 lv)) with (erows c1).
      assert (Ecl : (match pb with
                     | [] => if bytes_eqb lb CstNs.xmlns_b then CstNs.EDecl l [] vb
                             else CstNs.EAttr l {| CstNs.q_prefix := pb; CstNs.q_local := lb |} vb
                     | _ :: _ => CstNs.EAttr l {| CstNs.q_prefix := pb; CstNs.q_local := lb |} vb
                     end) = CstNs.EAttr l {| CstNs.q_prefix := pb; CstNs.q_local := lb |} vb).
      { destruct pb as [|x0 pb0]; [|reflexivity].
        change (blen []) with 0 in Hpl. rewrite Hpl in Ed. change (0 =? 0) with true in Ed. cbn [andb] in Ed. rewrite Ed. reflexivity. }
      rewrite Ecl. split; [|split; [exact R1|left; rewrite <- Ec; split; [repeat split|]]].
      2:{ rewrite own_bindings_app. cbn [CstNs.own_bindings flat_map app]. apply app_nil_r. }
      constructor.
      * exact S1.
      * exact S2.
      * exact S3.
      * cbn [c_cur_attrs set_cur_attrs]. unfold lv. rewrite map_app, S4, attr_names_app. subst pb lb. reflexivity.
      * exact S5.
      * apply (NsOk_eq c1); [repeat split|exact S6].
      * rewrite own_bindings_app. cbn [CstNs.own_bindings flat_map app]. rewrite app_nil_r. exact S7.
      * rewrite own_bindings_app. cbn [CstNs.own_bindings flat_map app]. rewrite app_nil_r. exact S8.
      * rewrite forallb_app, S9. cbn [forallb ns_entry_ok CstNs.q_prefix CstNs.q_local]. change Scope.bytes_eqb with bytes_eqb. rewrite Epx.
        cbn [negb andb]. destruct pb as [|x0 pb0]; [|reflexivity].
        change (blen []) with 0 in Hpl. rewrite Hpl in Ed. change (0 =? 0) with true in Ed. cbn [andb] in Ed. rewrite Ed. reflexivity.
      * exact S10.
Qed.

(* ---- the end of a start tag ---- *)
Lemma erow_node c id par k : nth_error (erows c) (N.to_nat id) = Some (par, k) ->
  match k with KText _ => False | _ => True end ->
  exists pnd, nth_N (d_nodes (c_doc c)) id = Some pnd /\ nd_kind pnd = k /\ nd_parent pnd = par.
Proof.
  unfold erows. intros H Hk. rewrite nth_error_map in H.
  destruct (nth_error (d_nodes (c_doc c)) (N.to_nat id)) as [pnd|] eqn:E; [|discriminate].
  exists pnd. split; [apply SP.nth_error_nth_N; exact E|]. cbn [option_map] in H. unfold erowof in H.
  injection H as H1 H2. split; [|exact H1]. destruct (nd_kind pnd); cbn [ekind] in H2; subst k; try reflexivity. destruct Hk.
Qed.

Lemma resolve_attributes_ctx nss c r c' : resolve_attributes text nss c = Ok (r, c') ->
  c_parent_id c' = c_parent_id c /\ c_parent_prefixes c' = c_parent_prefixes c /\ c_tag_name c' = c_tag_name c /\
  c_after_text c' = c_after_text c /\ c_entities c' = c_entities c /\ c_ns_start_idx c' = c_ns_start_idx c /\
  c_ld c' = c_ld c.
Proof.
  unfold resolve_attributes. intros H. destruct (c_cur_attrs c) as [|a l].
  - inversion H; subst. repeat split.
  - cbv zeta in H. destruct (u32_max <=? _); [noerr|]. ib H d' Hd. ib H r0 Hr. inversion H; subst. repeat split.
Qed.

Lemma resolve_namespaces_ld c r c' : resolve_namespaces text c = Ok (r, c') -> c_ld c' = c_ld c.
Proof.
  unfold resolve_namespaces. intros H. ib H pnd Hp.
  destruct (nd_kind pnd).
  2:{ destruct (c_ns_start_idx c =? len_N (d_ns_tree (c_doc c))).
      - inversion H; reflexivity.
      - destruct nss as [pa pe]. ib H d Hd. ib H r0 Hr. inversion H; reflexivity. }
  all: ib H r0 Hr; inversion H; reflexivity.
Qed.

Lemma resolve_namespaces_cases c r c1 : resolve_namespaces text c = Ok (r, c1) ->
  (c1 = c /\ c_ns_start_idx c = len_N (d_ns_tree (c_doc c))) \/
  (r = (c_ns_start_idx c, len_N (d_ns_tree (c_doc c1))) /\ len_N (d_ns_tree (c_doc c1)) <= u32_max /\
   (c_ns_start_idx c = len_N (d_ns_tree (c_doc c)) -> c1 = c)).
Proof.
  unfold resolve_namespaces. intros H. ib H pnd Hp.
  assert (R : forall r0, ns_range_checked (c_ns_start_idx c) (len_N (d_ns_tree (c_doc c))) = Ok r0 ->
              r0 = (c_ns_start_idx c, len_N (d_ns_tree (c_doc c))) /\ len_N (d_ns_tree (c_doc c)) <= u32_max).
  { intros r0 Hr. unfold ns_range_checked in Hr. destruct (u32_max <? _) eqn:E; [discriminate|]. inversion Hr. split; [reflexivity|lia]. }
  destruct (nd_kind pnd).
  2:{ destruct (c_ns_start_idx c =? len_N (d_ns_tree (c_doc c))) eqn:E.
      - inversion H; subst. left. split; [reflexivity|lia].
      - destruct nss as [pa pe]. ib H d Hd. ib H r0 Hr. inversion H; subst. right.
        unfold ns_range_checked in Hr. destruct (u32_max <? _) eqn:E2; [discriminate|]. inversion Hr.
        cbn [c_doc set_doc]. split; [reflexivity|]. split; [lia|]. intros Hc. lia. }
  all: ib H r0 Hr; inversion H; subst; right; destruct (R _ Hr) as (-> & Hle); auto.
Qed.

Definition tag_effect (c c' : context) (sc : list Scope.binding) : Prop :=
  (d_ns_tree (c_doc c') = d_ns_tree (c_doc c) /\ c_ns_start_idx c = len_N (d_ns_tree (c_doc c))) \/
  (len_N (d_ns_tree (c_doc c')) = c_ns_start_idx c + N.of_nat (length sc) /\
   len_N (d_ns_tree (c_doc c')) <= u32_max /\
   (c_ns_start_idx c = len_N (d_ns_tree (c_doc c)) -> len_N (d_ns_tree (c_doc c')) = len_N (d_ns_tree (c_doc c)))).

Lemma names_of_attrs d nss sc : SP.bindings_of text d nss = Some sc -> SQ.xml0 text d ->
  forall cur new names, Forall2 AL.fields_copied cur new -> Forall2 (AL.ns_resolved text nss d) cur new ->
  Forall2 (AL.named text d) new names ->
  names = map (fun t => (CstNs.ns_of (Scope.resolve_attr sc (sb (ta_prefix t))), sb (ta_local t))) cur /\
  Forall (fun t => CstNs.is_bound (Scope.resolve_attr sc (sb (ta_prefix t))) = true) cur.
Proof.
  intros Hsc (v0 & Hv0 & Hu0). induction cur as [|t cur IH]; intros new names F1 F2 F3.
  - inversion F1; subst. inversion F3; subst. split; [reflexivity|constructor].
  - inversion F1 as [|? a ? new' (Hloc & _) F1']; subst. inversion F2 as [|? ? ? ? Hres F2']; subst.
    inversion F3 as [|? n ? names' Hnm F3']; subst.
    destruct (IH _ _ F1' F2' F3') as (-> & Hb). clear IH.
    assert (ONE : n = (CstNs.ns_of (Scope.resolve_attr sc (sb (ta_prefix t))), sb (ta_local t)) /\
                  CstNs.is_bound (Scope.resolve_attr sc (sb (ta_prefix t))) = true).
    { unfold AL.ns_resolved in Hres. cbv zeta in Hres. unfold AL.named in Hnm. rewrite Hloc in Hnm.
      unfold Scope.resolve_attr. change Scope.bytes_eqb with bytes_eqb. change ns_xml_prefix with Scope.xml_prefix in Hres.
      destruct (bytes_eqb (sb (ta_prefix t)) Scope.xml_prefix) eqn:Exml.
      + rewrite Hres in Hnm. unfold attr_expanded_name in Hnm. rewrite Hv0, Hu0 in Hnm. inversion Hnm; subst n.
        split; reflexivity.
      + destruct (sb (ta_prefix t)) as [|x0 pb0] eqn:Epb.
        * rewrite Hres in Hnm. cbn [attr_expanded_name] in Hnm. inversion Hnm; subst n. split; reflexivity.
        * pose proof (SP.names_resolve text d nss _ _ sc _ Hsc Hres) as N. cbv zeta in N.
          change ns_xml_prefix with Scope.xml_prefix in N. rewrite Epb in N. rewrite Exml in N.
          destruct (ad_ns_idx a) as [vi|]; [|destruct N; discriminate].
          destruct N as (v & Hv & Hl). cbn [attr_expanded_name] in Hnm. rewrite Hv in Hnm. inversion Hnm; subst n.
          cbv iota in Hl. cbv iota.
          match goal with |- context [CstNs.ns_of (match ?L with Some u => _ | None => _ end)] =>
            replace L with (Some (storage_bytes text (ns_uri v))) by (symmetry; exact Hl) end.
          split; reflexivity. }
    destruct ONE as (-> & Hb1). split; [reflexivity|constructor; assumption].
Qed.

Lemma elem_bound d nss sc pos pfx r : SP.bindings_of text d nss = Some sc ->
  get_ns_idx_by_prefix text nss pos pfx d = Ok r -> CstNs.is_bound (Scope.resolve_elem sc (sb pfx)) = true.
Proof.
  intros Hsc H. pose proof (SP.names_resolve text d nss _ _ sc _ Hsc H) as N. cbv zeta in N.
  unfold Scope.resolve_elem. change Scope.bytes_eqb with bytes_eqb. change ns_xml_prefix with Scope.xml_prefix in N.
  destruct (bytes_eqb (sb pfx) Scope.xml_prefix); [reflexivity|].
  destruct (sb pfx) as [|x0 pb0].
  - destruct (Scope.lookup sc None); reflexivity.
  - destruct r as [vi|]; [|destruct N; discriminate]. destruct N as (v & _ & Hl). cbv iota in Hl.
    match goal with |- context [match ?L with Some u => _ | None => _ end] =>
      replace L with (Some (storage_bytes text (ns_uri v))) by (symmetry; exact Hl) end. reflexivity.
Qed.

Lemma step_tagend_p e r c c' stk tp tn des :
  InTagP c stk tp tn des -> (e = EOpen \/ e = EEmpty) ->
  T (TElementEnd e r) c = Ok c' ->
  exists nss,
    SimP c' (match e with
             | EOpen => {| f_pre := sb tp; f_loc := sb tn;
                           f_sc := Scope.scope_of (CstNs.own_bindings des) (top_sc stk); f_nss := nss |} :: stk
             | _ => stk end) /\
    (exists ns ar, erows c' = erows c ++ [(Some (c_parent_id c), KElement ns tn ar nss)]) /\
    CstNs.is_bound (Scope.resolve_elem (Scope.scope_of (CstNs.own_bindings des) (top_sc stk)) (sb tp)) = true /\
    forallb (fun pl => CstNs.is_bound (Scope.resolve_attr (Scope.scope_of (CstNs.own_bindings des) (top_sc stk)) (fst pl)))
            (attr_names des) = true /\
    NoDup (map (fun pl => (CstNs.ns_of (Scope.resolve_attr (Scope.scope_of (CstNs.own_bindings des) (top_sc stk)) (fst pl)), snd pl))
               (attr_names des)) /\
    d_ns_values (c_doc c') = d_ns_values (c_doc c) /\
    tag_effect c c' (Scope.scope_of (CstNs.own_bindings des) (top_sc stk)).
Proof.
  intros HI He H. cbn [Parse.token token_with] in H. ib H c0 H0.
  destruct (reset_same _ _ H0) as (X0 & R0 & Hat0).
  pose proof (InTagP_frame c c0 stk [] tp tn des X0 ltac:(rewrite app_nil_r; exact R0) HI) as HI0.
  destruct HI0 as [S1 S2 [S3a S3b] S4 S5 S6 S7 S8 S9 S10].
  set (sc := Scope.scope_of (CstNs.own_bindings des) (top_sc stk)).
  unfold process_element in H.
  destruct (slice_len (tn_name (c_tag_name c0)) =? 0); [destruct He as [-> | ->]; noerr|].
  ib H q1 H1. destruct q1 as [nss c1]. exists nss.
  destruct (resolve_namespaces_inv_t text _ _ _ H1) as (N1 & N2 & N3 & N4 & N5 & N6 & N7 & N8).
  destruct (SQ.resolve_namespaces_frame _ _ _ _ H1) as (pnd & tx & Hp & F1 & F2 & F3 & F4 & F5 & F6).
  destruct S6 as [Hok Hxml Hst Hfr].
  (* the parent's range and scope *)
  assert (PAR : exists pns, (match nd_kind pnd with KElement _ _ _ nss0 => pns = nss0 | _ => pns = (0, 0) end) /\
            snd pns <= c_ns_start_idx c0 /\ bindings_of (c_doc c0) pns = Some (top_sc stk) /\
            Scope.prefixes_unique (top_sc stk) = true /\
            (forall pp, SQ.esig pnd = Some (pp, nss) -> nss = pns /\ stk <> [])).
  { inversion S1 as [id Hrow|id par ns local ar f stk0 Hrow Hl Hch]; subst.
    - destruct (erow_node _ _ _ _ Hrow I) as (pnd' & Hp' & Hk & _). rewrite Hp in Hp'. injection Hp' as <-.
      exists (0, 0). rewrite Hk. split; [reflexivity|]. split; [cbn; lia|]. split; [apply SQ.bindings_of_empty|].
      split; [reflexivity|]. intros pp Hs. unfold SQ.esig in Hs. rewrite Hk in Hs. discriminate.
    - destruct (erow_node _ _ _ _ Hrow I) as (pnd' & Hp' & Hk & _). rewrite Hp in Hp'. injection Hp' as <-.
      inversion Hfr as [|? ? (G1 & G2 & G3) _]; subst. exists (f_nss f). rewrite Hk.
      split; [reflexivity|]. split; [exact G3|]. split; [exact G1|]. split; [exact G2|].
      intros pp Hs. unfold SQ.esig in Hs. rewrite Hk in Hs. injection Hs as _ Hs. split; [congruence|discriminate]. }
  destruct PAR as (pns & Hk & Hpe & Hinh & Hui & Hsig).
  destruct (SP.scopes_refine text c0 nss c1 pnd pns _ _ Hok Hp Hk Hpe Hst Hinh Hui S7 H1) as (Hok1 & Hsc).
  fold sc in Hsc.
  assert (Hold : forall p, p < len_N (d_ns_tree (c_doc c0)) -> SP.binding_at text (c_doc c1) p = SP.binding_at text (c_doc c0) p).
  { intros p Hlt. unfold SP.binding_at. rewrite F4, F5, SP.nth_N_app_l by assumption. reflexivity. }
  assert (Hlen : len_N (d_ns_tree (c_doc c0)) <= len_N (d_ns_tree (c_doc c1))) by (rewrite F5, SP.len_N_app; lia).
  assert (Hsn : snd nss <= len_N (d_ns_tree (c_doc c1))).
  { destruct F6 as [->|F6]; [cbn; lia|]. destruct (Hsig _ F6) as (-> & _). lia. }
  assert (EFF1 : tag_effect c0 c1 sc).
  { destruct (resolve_namespaces_cases _ _ _ H1) as [(-> & Es)|(-> & Hu32 & Hsame)]; [left; auto|right].
    pose proof (bindings_of_length _ _ _ _ Hsc) as Hl. split; [lia|]. split; [exact Hu32|].
    intros Es. rewrite (Hsame Es). reflexivity. }
  set (c1' := set_ns_start_idx c1 (len_N (d_ns_tree (c_doc c1)))) in *.
  set (fr := {| f_pre := sb tp; f_loc := sb tn; f_sc := sc; f_nss := nss |}).
  assert (NS1 : NsOk c1' (fr :: stk)).
  { constructor.
    - exact Hok1.
    - eapply xml0_eq; [|exact Hxml]. exact F4.
    - cbn. lia.
    - constructor.
      + split; [exact Hsc|]. split; [apply SP.scope_prefixes_unique; assumption|exact Hsn].
      + eapply Forall_impl; [|exact Hfr]. intros f (G1 & G2 & G3). unfold frame_ok. cbn [c_doc c1' set_ns_start_idx c_ns_start_idx].
        rewrite (SQ.bindings_of_old text (c_doc c0) (c_doc c1) (len_N (d_ns_tree (c_doc c0)))) by (auto; lia).
        split; [exact G1|]. split; [exact G2|lia]. }
  ib H q2 H2. destruct q2 as [ar c2].
  destruct (AL.resolve_attributes_spec _ _ _ _ _ H2) as (new & names & A1 & A2 & A3 & A4 & A5 & A6 & A7 & A8 & A9 & A10).
  destruct (resolve_attributes_ctx _ _ _ _ H2) as (B1 & B2 & B3 & B4 & B5 & B6 & B7).
  cbn [c_doc c1' set_ns_start_idx c_cur_attrs c_parent_id c_parent_prefixes c_tag_name c_after_text c_entities c_ns_start_idx c_ld] in A2, A3, A4, A5, A7, A8, B1, B2, B3, B4, B5, B6, B7.
  pose proof (resolve_namespaces_ld _ _ _ H1) as N9.
  assert (Hsc2 : bindings_of (c_doc c2) nss = Some sc).
  { rewrite (SQ.bindings_of_ns_eq text _ _ _ A4 A5). exact Hsc. }
  assert (Hxml2 : SQ.xml0 text (c_doc c2)).
  { eapply xml0_eq; [exact A4|]. eapply xml0_eq; [exact F4|exact Hxml]. }
  destruct (names_of_attrs _ _ _ Hsc2 Hxml2 _ _ _ A7 A8 A9) as (En & Hbound).
  rewrite N3 in En, Hbound.
  assert (X12 : nseq c1' c2) by (repeat split; assumption).
  assert (ER2 : erows c2 = erows c0) by (unfold erows; rewrite A3; fold (erows c1); exact N1).
  assert (Etn : c_tag_name c2 = c_tag_name c0) by (rewrite B3, N6; reflexivity).
  assert (Epid : c_parent_id c2 = c_parent_id c0) by (rewrite B1, N4; reflexivity).
  assert (Epp : c_parent_prefixes c2 = c_parent_prefixes c0) by (rewrite B2, N5; reflexivity).
  assert (Eent : c_entities c2 = es) by (rewrite B5, N8; exact S5).
  cbv zeta in H.
  (* the facts about the names *)
  assert (FACTS : forallb (fun pl => CstNs.is_bound (Scope.resolve_attr sc (fst pl))) (attr_names des) = true /\
                  NoDup (map (fun pl => (CstNs.ns_of (Scope.resolve_attr sc (fst pl)), snd pl)) (attr_names des))).
  { rewrite <- S4. split.
    - apply forallb_forall. intros pl Hin. apply in_map_iff in Hin. destruct Hin as (t & <- & Hin).
      rewrite Forall_forall in Hbound. exact (Hbound t Hin).
    - rewrite map_map. cbn [fst snd]. rewrite <- En. exact A10. }
  (* the tag name and the new node *)
  assert (TAIL : forall idx id c3, get_ns_idx_by_prefix text nss (tn_prefix_pos (c_tag_name c2)) (tn_prefix (c_tag_name c2)) (c_doc c2) = Ok idx ->
            append_node (KElement idx (tn_name (c_tag_name c2)) ar nss) (tn_pos (c_tag_name c2), snd r) c2 = Ok (id, c3) ->
            CstNs.is_bound (Scope.resolve_elem sc (sb tp)) = true /\
            same_ctx c2 c3 /\ erows c3 = erows c0 ++ [(Some (c_parent_id c0), KElement idx tn ar nss)] /\
            id = len_N (d_nodes (c_doc c2))).
  { intros idx id c3 Hidx H3. rewrite Etn, S3a in Hidx. split; [exact (elem_bound _ _ _ _ _ _ Hsc2 Hidx)|].
    destruct (append_same _ _ _ _ _ H3) as (X3 & E3 & E4 & _). split; [exact X3|].
    cbn [ekind] in E3. rewrite Etn, S3b, ER2, Epid in E3. auto. }
  assert (Hc0 : c_parent_id c0 = c_parent_id c) by apply X0.
  destruct He as [-> | ->].
  - ib H idx Hidx. ib H q3 H3. destruct q3 as [nid c3]. injection H as <-.
    destruct (TAIL _ _ _ Hidx H3) as (Hb & X3 & E3 & Eid).
    split; [|split; [exists idx, ar; rewrite <- Hc0, <- R0; exact E3|split; [exact Hb|split; [apply FACTS|split; [apply FACTS|]]]]].
    2:{ destruct X3 as (_ & _ & _ & _ & _ & (Z1 & Z2 & Z3) & _). destruct X0 as (_ & _ & _ & _ & _ & (W1 & W2 & W3) & _).
        split; [cbn [c_doc set_parent_prefixes set_parent_id set_awaiting]; rewrite Z2, A4, F4; exact W2|].
        unfold tag_effect in *. cbn [c_doc set_parent_prefixes set_parent_id set_awaiting]. rewrite Z3, A5, <- W1, <- W3. exact EFF1. }
    assert (NS3 : NsOk c3 (fr :: stk)).
    { apply (NsOk_eq c1'); [|exact NS1]. eapply nseq_trans; [exact X12|apply X3]. }
    destruct X3 as (Y1 & Y2 & Y3 & Y4 & Y5 & Y6 & Y7).
    constructor.
    + cbn [c_parent_id set_parent_prefixes set_parent_id].
      match goal with |- chainN (erows ?cc) _ _ => change (erows cc) with (erows c3) end.
      rewrite E3. eapply (cn_elem _ nid (c_parent_id c0) idx tn ar fr stk).
      * assert (Hn : N.to_nat nid = length (erows c0)).
        { rewrite Eid. unfold len_N. rewrite <- ER2. unfold erows. rewrite map_length. lia. }
        rewrite nth_error_app2 by lia. rewrite Hn, Nat.sub_diag. reflexivity.
      * reflexivity.
      * apply chainN_app. exact S1.
    + cbn [c_parent_prefixes set_parent_prefixes]. rewrite map_app, Y2, Epp, S2. cbn [map rev f_pre fr].
      rewrite Etn, S3a. reflexivity.
    + cbn [c_cur_attrs set_parent_prefixes set_parent_id]. rewrite Y3. exact A1.
    + cbn [c_entities set_parent_prefixes set_parent_id]. rewrite Y5. exact Eent.
    + apply (NsOk_eq c3); [repeat split|exact NS3].
    + cbn [c_ns_start_idx c_doc set_parent_prefixes set_parent_id]. destruct Y6 as (Z1 & _ & Z3). rewrite Z1, Z3, B6, A5. reflexivity.
    + change (c_ld c3 = ld_init). rewrite Y7, B7, N9. exact S10.
  - ib H idx Hidx. ib H q3 H3. destruct q3 as [nid c3]. injection H as <-.
    destruct (TAIL _ _ _ Hidx H3) as (Hb & X3 & E3 & Eid).
    split; [|split; [exists idx, ar; rewrite <- Hc0, <- R0; exact E3|split; [exact Hb|split; [apply FACTS|split; [apply FACTS|]]]]].
    2:{ destruct X3 as (_ & _ & _ & _ & _ & (Z1 & Z2 & Z3) & _). destruct X0 as (_ & _ & _ & _ & _ & (W1 & W2 & W3) & _).
        split; [cbn [c_doc set_parent_prefixes set_parent_id set_awaiting]; rewrite Z2, A4, F4; exact W2|].
        unfold tag_effect in *. cbn [c_doc set_parent_prefixes set_parent_id set_awaiting]. rewrite Z3, A5, <- W1, <- W3. exact EFF1. }
    assert (NS3 : NsOk c3 stk).
    { assert (NS3' : NsOk c3 (fr :: stk)).
      { apply (NsOk_eq c1'); [|exact NS1]. eapply nseq_trans; [exact X12|apply X3]. }
      destruct NS3' as [K1 K2 K3 K4]. constructor; try assumption. inversion K4; assumption. }
    destruct X3 as (Y1 & Y2 & Y3 & Y4 & Y5 & Y6 & Y7).
    constructor.
    + cbn [c_parent_id set_awaiting].
      match goal with |- chainN (erows ?cc) _ _ => change (erows cc) with (erows c3) end.
      rewrite E3, Y1, Epid. apply chainN_app. exact S1.
    + cbn [c_parent_prefixes set_awaiting]. rewrite Y2, Epp. exact S2.
    + cbn [c_cur_attrs set_awaiting]. rewrite Y3. exact A1.
    + cbn [c_entities set_awaiting]. rewrite Y5. exact Eent.
    + apply (NsOk_eq c3); [repeat split|exact NS3].
    + cbn [c_ns_start_idx c_doc set_awaiting]. destruct Y6 as (Z1 & _ & Z3). rewrite Z1, Z3, B6, A5. reflexivity.
    + change (c_ld c3 = ld_init). rewrite Y7, B7, N9. exact S10.
Qed.

(* ---- end tags ---- *)
Lemma step_close_p pfx loc r c c' stk : SimP c stk ->
  T (TElementEnd (EClose pfx loc) r) c = Ok c' ->
  exists f stk', stk = f :: stk' /\ sb pfx = f_pre f /\ sb loc = f_loc f /\ SimP c' stk' /\ erows c' = erows c /\ nseq c c'.
Proof.
  intros HS H. cbn [Parse.token token_with] in H. ib H c0 H0.
  destruct (reset_same _ _ H0) as (X0 & R0 & _).
  pose proof (SimP_frame c c0 stk [] X0 ltac:(rewrite app_nil_r; exact R0) HS) as [S1 S2 S3 S4 S5 S6 S7].
  unfold process_element in H.
  destruct (slice_len (tn_name (c_tag_name c0)) =? 0); [noerr|].
  ib H q1 H1. destruct q1 as [nss c1].
  assert (Ec1 : c1 = c0).
  { unfold resolve_namespaces in H1. ib H1 pnd0 Hp0. destruct (nd_kind pnd0).
    2:{ rewrite S6, N.eqb_refl in H1. inversion H1; reflexivity. }
    all: ib H1 r0 Hr0; inversion H1; reflexivity. }
  subst c1. clear H1.
  ib H q2 H2. destruct q2 as [ar c2].
  unfold resolve_attributes in H2. cbn [c_cur_attrs set_ns_start_idx] in H2. rewrite S3 in H2.
  inversion H2; subst ar c2. clear H2. cbv zeta in H.
  cbn [c_parent_prefixes c_entity_floor set_ns_start_idx c_doc c_parent_id] in H.
  destruct (len_N (c_parent_prefixes c0) <=? c_entity_floor c0); [noerr|].
  ib H pnd Hpn. destruct (nth_N (d_nodes (c_doc c0)) (c_parent_id c0)) as [pnd'|] eqn:En; [|discriminate].
  inversion Hpn; subst pnd'. clear Hpn.
  ib H ppref Hpp. destruct (rev (c_parent_prefixes c0)) as [|lastp rp] eqn:Er; [discriminate|].
  inversion Hpp; subst lastp. clear Hpp.
  ib H nodes' Hn. ib H u Hu.
  apply nth_N_nth in En.
  assert (Erow : nth_error (erows c0) (N.to_nat (c_parent_id c0)) = Some (erowof pnd)).
  { unfold erows. rewrite nth_error_map, En. reflexivity. }
  eapply upd_node_erows in Hn; [|intros; reflexivity].
  inversion S1 as [id Hk|id par ns0 local ar0 f stk' Hk Hl Hch]; subst.
  { rewrite Erow in Hk. inversion Hk as [[Hpar Hkind]]. unfold erowof in *. rewrite Hpar in H.
    cbn [set_awaiting set_doc] in H. noerr. }
  rewrite Erow in Hk. inversion Hk as [[Hpar Hkind]].
  assert (Hkind' : nd_kind pnd = KElement ns0 local ar0 (f_nss f)).
  { destruct (nd_kind pnd); cbn [ekind] in Hkind; try discriminate; exact Hkind. }
  rewrite Hkind' in Hu. rewrite Hpar in H.
  destruct (negb (bytes_eqb (sb pfx) (sb ppref)) || negb (bytes_eqb (sb loc) (sb local))) eqn:Ech; [noerr|].
  apply orb_false_iff in Ech. destruct Ech as [Ech1 Ech2]. apply negb_false_iff in Ech1, Ech2.
  apply bytes_eqb_true in Ech1, Ech2.
  cbn [c_parent_prefixes set_awaiting set_doc set_ns_start_idx] in H.
  destruct (removelast (c_parent_prefixes c0)) as [|p0 pr] eqn:Erl; [discriminate|].
  inversion H; subst c'. clear H.
  (* the innermost prefix *)
  assert (Hpp : map sb (rev (c_parent_prefixes c0)) = (f_pre f :: map f_pre stk') ++ [[]]).
  { rewrite map_rev, S2. cbn [rev map]. rewrite rev_app_distr, rev_involutive. reflexivity. }
  rewrite Er in Hpp. cbn [map app] in Hpp. injection Hpp as Hpp1 _.
  exists f, stk'. split; [reflexivity|]. split; [congruence|]. split; [congruence|].
  assert (ER : map erowof nodes' = erows c) by (rewrite Hn; fold (erows c0); exact R0).
  split; [|split; [exact ER|]].
  2:{ destruct X0 as (_ & _ & _ & _ & _ & (W1 & W2 & W3) & _). repeat split; cbn; congruence. }
  constructor.
  - cbn [c_parent_id set_parent_prefixes set_parent_id].
    match goal with |- chainN (erows ?cc) _ _ => change (erows cc) with (map erowof nodes') end.
    rewrite Hn. fold (erows c0). exact Hch.
  - cbn [c_parent_prefixes set_parent_prefixes]. rewrite <- Erl, map_removelast, S2. cbn [map rev].
    change ([] :: rev (map f_pre stk') ++ [f_pre f]) with (([] :: rev (map f_pre stk')) ++ [f_pre f]).
    apply removelast_snoc.
  - cbn [c_cur_attrs set_parent_prefixes set_parent_id set_awaiting set_doc set_ns_start_idx]. exact S3.
  - cbn [c_entities set_parent_prefixes set_parent_id set_awaiting set_doc set_ns_start_idx]. exact S4.
  - destruct S5 as [K1 K2 K3 K4]. inversion K4 as [|? ? _ K4']; subst.
    apply (NsOk_eq c0); [repeat split; cbn; symmetry; exact S6|]. constructor; assumption.
  - cbn [c_ns_start_idx c_doc set_parent_prefixes set_parent_id set_awaiting set_doc set_ns_start_idx d_ns_tree set_nodes].
    reflexivity.
  - exact S7.
Qed.



(* ------------------------------------------------------------------------------------------ *)
(* the two namespace resources: D are the bindings declared so far (document order), K is what    *)
(* the elements closed or opened so far cost in the namespace table, own the declarations of the  *)
(* start tag being read                                                                           *)
Definition xmlb : Scope.binding := (Some Scope.xml_prefix, Scope.xml_uri).

Record Res (c : context) (D : list Scope.binding) (K : nat) (own : list Scope.binding) : Prop := {
  rs_vals : exists vs, vals c = xmlb :: vs /\ incl (D ++ own) vs;
  rs_lim : len_N (d_ns_values (c_doc c)) <= 65536;
  rs_tree : len_N (d_ns_tree (c_doc c)) = 1 + N.of_nat K + N.of_nat (length own);
  rs_u32 : 1 + N.of_nat K <= u32_max
}.

Lemma Res_eq c c' D K own : nseq c c' -> Res c D K own -> Res c' D K own.
Proof.
  intros (E1 & E2 & E3) [A B C0 D0]. constructor.
  - unfold vals, valsd in *. rewrite E2. exact A.
  - rewrite E2. exact B.
  - rewrite E3. exact C0.
  - exact D0.
Qed.

Lemma valsd_len d : length (valsd d) = length (d_ns_values d).
Proof. unfold valsd. apply map_length. Qed.

Lemma res_attr c c' D K des e : Res c D K (CstNs.own_bindings des) -> attr_effect c c' des e ->
  Res c' D K (CstNs.own_bindings (des ++ [e])).
Proof.
  intros HR [(Hn & ->)|(x & -> & Hx & Hs & Ht & Hp)]; [eapply Res_eq; eauto|].
  destruct HR as [(vs & Ev & Hi) B C0 D0].
  assert (Hl : length (valsd (c_doc c)) = length (d_ns_values (c_doc c))) by apply valsd_len.
  assert (Hl' : length (valsd (c_doc c')) = length (d_ns_values (c_doc c'))) by apply valsd_len.
  unfold vals in *. destruct Hp as [(Ev' & Hin)|(Ev' & Hle)].
  - constructor.
    + exists vs. unfold vals. rewrite Ev', Ev. split; [reflexivity|]. rewrite app_assoc. apply incl_app; [exact Hi|].
      intros y [<-|[]]. rewrite Ev in Hin. destruct Hin as [E|Hin]; [|exact Hin]. subst x. exfalso. apply Hx. reflexivity.
    + rewrite Ev' in Hl'. unfold len_N in *. lia.
    + rewrite Ht, C0, app_length. cbn [length]. lia.
    + exact D0.
  - constructor.
    + exists (vs ++ [x]). unfold vals. rewrite Ev', Ev. split; [reflexivity|]. rewrite app_assoc. apply incl_app.
      * apply incl_appl. exact Hi.
      * apply incl_appr. apply incl_refl.
    + rewrite Ev', app_length in Hl'. cbn [length] in Hl'. unfold len_N in *. lia.
    + rewrite Ht, C0, app_length. cbn [length]. lia.
    + exact D0.
Qed.

Lemma intag_own_len c stk tp tn des : InTagP c stk tp tn des ->
  c_ns_start_idx c + N.of_nat (length (CstNs.own_bindings des)) = len_N (d_ns_tree (c_doc c)).
Proof.
  intros HI. pose proof (bindings_of_length _ _ _ _ (tn_own _ _ _ _ _ HI)) as Hl.
  pose proof (no_start _ _ (tn_ns _ _ _ _ _ HI)). lia.
Qed.

Lemma res_tagend c c' D K own sc : Res c D K own ->
  c_ns_start_idx c + N.of_nat (length own) = len_N (d_ns_tree (c_doc c)) ->
  d_ns_values (c_doc c') = d_ns_values (c_doc c) -> tag_effect c c' sc ->
  Res c' (D ++ own) (K + match own with [] => 0 | _ => length sc end) [].
Proof.
  intros [(vs & Ev & Hi) B C0 D0] Hst Hv Heff.
  assert (HA : exists vs0, vals c' = xmlb :: vs0 /\ incl ((D ++ own) ++ []) vs0).
  { exists vs. unfold vals, valsd in *. rewrite Hv, app_nil_r. auto. }
  destruct Heff as [(Et & Es)|(El & Hu & Hsame)].
  - assert (own = []) by (destruct own; [reflexivity|cbn [length] in Hst; lia]). subst own.
    constructor; [exact HA|rewrite Hv; exact B| |rewrite Nat.add_0_r; exact D0].
    rewrite Et, C0. cbn [length]. lia.
  - destruct own as [|o own'].
    + cbn [length] in *. constructor; [exact HA|rewrite Hv; exact B| |rewrite Nat.add_0_r; exact D0].
      rewrite (Hsame ltac:(lia)), C0. cbn [length]. lia.
    + constructor; [exact HA|rewrite Hv; exact B| |].
      * rewrite El. cbn [length] in *. lia.
      * rewrite El in Hu. cbn [length] in *. lia.
Qed.



End BuildP.

(* ---- the token of an entity declaration; the initial context ---- *)
Section BuildP2.
Variable text : bytes.
Notation T := (Parse.token text).

Lemma step_entity_p es nm vl c c' stk : SimP text es c stk -> T (TEntityDecl nm vl) c = Ok c' ->
  SimP text (es ++ [{| en_name := nm; en_value := vl |}]) c' stk /\ erows c' = erows c /\ nseq c c'.
Proof.
  intros [S1 S2 S3 S4 S5 S6 S7] H. cbn [Parse.token token_with] in H. inversion H; subst c'. clear H.
  split; [|split; [reflexivity|repeat split]]. constructor.
  - exact S1.
  - exact S2.
  - exact S3.
  - cbn [c_entities set_entities]. rewrite S4. reflexivity.
  - apply (NsOk_eq text c); [repeat split|exact S5].
  - exact S6.
  - exact S7.
Qed.

Lemma init_sim_p opt c0 : init_context text opt = Ok c0 ->
  SimP text [] c0 [] /\ erows c0 = [(None, KRoot)] /\ d_ns_tree (c_doc c0) = [0] /\
  exists v0, d_ns_values (c_doc c0) = [v0] /\ ns_name_bytes text v0 = Some Scope.xml_prefix /\
             storage_bytes text (ns_uri v0) = Scope.xml_uri.
Proof.
  intros H0. unfold init_context in H0. cbn in H0. inversion H0; subst c0. clear H0.
  split; [|split; [reflexivity|split; [reflexivity|eexists; split; [reflexivity|split; reflexivity]]]].
  constructor; cbn; try reflexivity.
  - eapply cn_root. reflexivity.
  - constructor.
    + intros p vi Hp. cbn [c_doc d_ns_tree d_ns_values] in *.
      pose proof (SP.nth_N_Some_lt _ _ _ _ Hp) as L. change (len_N [0]) with 1 in L. assert (p = 0) by lia. subst p.
      vm_compute in Hp. inversion Hp; subst. vm_compute. reflexivity.
    + eexists. split; reflexivity.
    + cbn. lia.
    + constructor.
Qed.

Lemma init_res_p opt c0 : init_context text opt = Ok c0 -> Res text c0 [] 0 [].
Proof.
  intros H0. destruct (init_sim_p _ _ H0) as (_ & _ & Et & v0 & Ev & En & Eu).
  constructor.
  - exists []. unfold vals, valsd. rewrite Ev. cbn [map]. rewrite En, Eu. split; [reflexivity|]. intros x [].
  - rewrite Ev. cbn. lia.
  - rewrite Et. cbn. lia.
  - cbn. unfold u32_max. lia.
Qed.

End BuildP2.
