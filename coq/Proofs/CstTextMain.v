(* Proofs/CstTextMain.v -- C04/C05 on whole documents: the rendering of every well-formed document
   of Spec/CstText.v parses to exactly its tree, with DECODED character data (one Text node per
   run) and NORMALISED attribute values ([parse_render_sem_text]); layout and the choice of pieces
   do not matter ([layout_insensitive_text], [piece_choice_insensitive]).
   The size hypotheses are those of Proofs/CstMain.v (see the remarks there). *)
From Coq Require Import Ascii String.
From Coq Require Import List NArith PeanoNat Bool Lia ZifyBool ZifyN ZifyNat.
Import ListNotations.
From RX Require Import Generated.
From RX.Model Require Import Base CharClass Stream Tokenizer Doc Builder Parse.
From RX.Spec Require Cst CstText.
From RX.Spec Require Tree.
From RX.Spec Require Import Text.
From RX.Proofs Require Import Tactics CstLex CstBuild CstTree CstItems CstDoc CstMain.
From RX.Proofs Require Import CstTextSem CstTextLex CstTextBuild CstTextItems CstTextDoc.
From RX.Proofs Require KeystoneEnc KeystoneBuilder KeystoneParse CstFinal.
Open Scope N_scope.

Definition tdoc_nattrs (c : T.doc) : nat := nattrs (erase (T.d_root c)).

Lemma tnsizes_doc c : nsizes (doc_items (erase_doc c)) = N.of_nat (length (T.sem c)).
Proof. rewrite nsizes_doc, sem_erase_doc. reflexivity. Qed.

Theorem parse_render_sem_text_bounded : forall (c : T.doc) (opt : options),
  T.wf_doc c = true ->
  N.of_nat (length (T.sem c)) < nodes_limit opt ->
  N.of_nat (length (T.sem c)) < u32_max ->
  N.of_nat (tdoc_nattrs c) < u32_max ->
  exists d, parse (T.render c) opt = Ok d /\
            view (T.render c) d = T.sem c /\
            (forall nd ns local ar nss, In nd (d_nodes d) -> nd_kind nd = KElement ns local ar nss -> ns = None) /\
            (forall a, In a (d_attrs d) -> ad_ns_idx a = None).
Proof.
  intros c opt Hwf Hlim Hmax Hattr. set (text := T.render c).
  destruct (tparse_document_ok c (allow_dtd opt) (init_ctx text opt) Hwf (init_ctx_CI text opt) eq_refl eq_refl)
    as (cf & K & ext & E & S & I & F).
  { unfold node_room. rewrite tnsizes_doc. cbn. unfold len_N. cbn [length]. lia. }
  { unfold attr_room. cbn. unfold tdoc_nattrs in Hattr. lia. }
  fold text in E, F. cbn [c_parent_id init_ctx c_doc d_nodes] in F. change (len_N [_]) with 1 in F.
  destruct S as (S0 & _ & Hpp). cbn [c_parent_prefixes init_ctx] in Hpp.
  assert (Habs : absn (c_doc cf) = (None, KRoot) :: K) by (rewrite (s_nodes _ _ _ _ S0); reflexivity).
  set (d := c_doc cf) in *.
  destruct (d_nodes d) as [|rootnd nodes] eqn:En; [unfold absn in Habs; rewrite En in Habs; discriminate|].
  unfold absn in Habs. rewrite En in Habs. cbn [map] in Habs. injection Habs as Hp0 Hk0 HK.
  set (TT := tag_list 0 1 (doc_items (erase_doc c))) in *.
  assert (HlenK : length K = length TT).
  { clear - F. induction F; cbn [length]; lia. }
  assert (HlenT : N.of_nat (length TT) = N.of_nat (length (T.sem c))).
  { unfold TT. rewrite tag_list_len. apply tnsizes_doc. }
  assert (Hlen : len_N (d_nodes d) = 1 + N.of_nat (length (T.sem c))).
  { rewrite En. unfold len_N. cbn [length]. rewrite <- HK in HlenK. rewrite map_length in HlenK. lia. }
  (* the arena is the encoding of a tree *)
  assert (HP : KeystoneBuilder.P cf).
  { eapply (KeystoneParse.parse_document_Q text context (Parse.token text) KeystoneBuilder.P).
    - intros tok x x'. apply KeystoneParse.token_P.
    - exists Tree.KdRoot, [], []. apply (KeystoneParse.init_context_Inv text opt). apply init_context_eq.
    - exact E. }
  destruct HP as (k & cs & outer & Inv).
  pose proof (KeystoneBuilder.inv_pp _ _ _ _ Inv) as Ipp. rewrite Hpp in Ipp. cbn [length] in Ipp.
  destruct outer as [|o outer]; [|cbn [length] in Ipp; lia].
  pose proof (KeystoneBuilder.inv_kinds _ _ _ _ Inv) as Ik. cbn [KeystoneBuilder.kinds_ok] in Ik. subst k.
  pose proof (KeystoneBuilder.inv_rows _ _ _ _ Inv) as Irows.
  unfold KeystoneEnc.ztree in Irows. cbn [KeystoneEnc.plug] in Irows.
  (* the root element is a child of the Root node *)
  destruct (twf_doc_parts c Hwf) as [_ _ _ (name & attrs & ws & body & Er) _ _ _].
  set (k0 := length (tag_list 0 1 (map fst (Cst.d_before (erase_doc c))))).
  assert (HT0 : exists m, nth_error TT k0 = Some (0, Cst.VElem name (T.eattrs attrs) m)).
  { unfold TT, doc_items. rewrite tag_list_app. unfold k0. rewrite nth_error_app2 by lia.
    rewrite Nat.sub_diag. cbn [tag_list]. change (Cst.d_root (erase_doc c)) with (erase (T.d_root c)).
    rewrite Er, erase_elem. fold (CstTree.eattrs (map erase_attr attrs)).
    destruct body as [[cs0 w2]|]; [rewrite tag_elem|cbn [tag]]; rewrite eattrs_erase; cbn [app nth_error]; eauto. }
  destruct HT0 as (m & HT0).
  destruct (Forall2_nth_r _ _ _ F _ _ HT0) as (rw & Hrw & Hkm).
  rewrite <- HK in Hrw. apply nth_error_map_inv in Hrw. destruct Hrw as (nd0 & Hnd0 & Eabs).
  destruct Hkm as [Hpar Hkind]. rewrite <- Eabs in Hpar, Hkind. cbn [abs_nd fst snd] in Hpar, Hkind.
  assert (Hel : is_element_kind (nd_kind nd0) = true) by (destruct (nd_kind nd0); try contradiction; reflexivity).
  destruct (CstFinal.root_has_element d cs (N.of_nat (S k0)) nd0) as (it & Eit & Eany).
  { exact Irows. }
  { rewrite Hlen. unfold u32_max in Hmax. lia. }
  { rewrite Nat2N.id, En. cbn [nth_error]. exact Hnd0. }
  { exact Hpar. }
  { exact Hel. }
  exists d. split; [|split; [|split]].
  - unfold parse. rewrite init_context_eq. cbn [bind]. unfold tok_ev in E. rewrite E. cbn [bind].
    fold d. rewrite Eit. cbn [bind]. rewrite Eany. cbn [bind negb]. rewrite Hpp. reflexivity.
  - unfold view. rewrite En. cbn [view_from]. unfold view_node. rewrite Hk0.
    change (0 + 1) with 1.
    rewrite (view_from_rows text d nodes TT 1).
    + unfold TT. rewrite tag_list_sem. rewrite <- sem_erase_doc. symmetry. apply sem_doc_items.
    + rewrite HK. exact F.
    + intros k q v Hk. rewrite (tag_list_counts _ 0 1 ltac:(lia) k q v Hk). fold TT.
      unfold children_count. rewrite En. cbn [filter].
      rewrite Hp0.
      apply eq_sym. apply (count_rows text (d_attrs d)). rewrite HK. exact F.
  - intros nd ns local ar nss Hin Hk. rewrite En in Hin. destruct Hin as [<-|Hin].
    + congruence.
    + apply (in_map abs_nd) in Hin. rewrite HK in Hin.
      destruct (Forall2_In_l _ _ _ F _ Hin) as ([q v] & _ & _ & Hkm').
      cbn [abs_nd snd] in Hkm'. rewrite Hk in Hkm'. destruct v; try contradiction. apply Hkm'.
  - intros a Ha. pose proof (ci_attrs _ I) as HF. rewrite Forall_forall in HF. apply HF. exact Ha.
Qed.
Print Assumptions parse_render_sem_text_bounded.

(* ------------------------------------------------------------------------------------------ *)
(* the bounds follow from "the input is at most u32::MAX bytes long"                           *)
(* ------------------------------------------------------------------------------------------ *)

Lemma text_render_pos ps : T.wf_text ps = true -> (1 <= length (T.r_pieces ps))%nat.
Proof.
  unfold T.wf_text. rewrite !andb_true_iff. intros [[Hne H] _].
  destruct ps as [|p ps]; [discriminate|]. cbn [forallb] in H. apply andb_true_iff in H. destruct H as [H _].
  rewrite r_pieces_cons, app_length.
  assert (1 <= length (T.r_piece p))%nat; [|lia].
  destruct p as [bs|hex ds|e|bs]; cbn [T.r_piece]; rewrite ?app_length; cbn [length]; try lia.
  - cbn [T.wf_tpiece] in H. apply andb_true_iff in H. destruct H as [H _]. unfold T.wf_lit in H.
    destruct bs; [discriminate|cbn; lia].
  - cbn. lia.
Qed.

Lemma tsem_le_render : forall i, T.wf_item i = true ->
  (length (T.sem_item i) + (if is_elem' i then 1 else 0) <= length (T.r_item i))%nat /\
  (nattrs (erase i) + (if is_elem' i then 1 else 0) <= length (T.r_item i))%nat.
Proof.
  intros i. induction i as [n a w|n a w cs w2 IH|ps|bs|t s v] using titem_ind; intros Hwf.
  - rewrite tr_item_elem, tsem_item_elem, nattrs_erase_elem, !app_length. cbn [length is_elem'].
    pose proof (flat_attr_len' a). lia.
  - destruct (twf_elem_parts _ _ _ _ Hwf) as (_ & _ & _ & _ & _ & _ & _ & Hcs).
    rewrite tr_item_elem, tsem_item_elem, nattrs_erase_elem, !app_length. cbn [length is_elem'].
    assert (G : (length (tsem_items cs) <= length (tr_items cs) /\ nattrs_items (map erase cs) <= length (tr_items cs))%nat).
    { clear - IH Hcs. induction IH as [|c r Hc _ IHr]; [cbn; lia|].
      cbn [twf_items] in Hcs. apply andb_true_iff in Hcs. destruct Hcs as [H1 H2].
      cbn [tsem_items tr_items nattrs_items map]. rewrite !app_length.
      destruct (Hc H1) as [A1 A2]. destruct (IHr H2) as [B1 B2]. lia. }
    pose proof (flat_attr_len' a). lia.
  - cbn [T.sem_item T.r_item erase nattrs is_elem' length]. pose proof (text_render_pos ps Hwf). lia.
  - cbn [T.r_item Cst.r_item T.sem_item erase nattrs is_elem']. rewrite !app_length. cbn [length]. lia.
  - cbn [T.r_item Cst.r_item T.sem_item erase nattrs is_elem']. rewrite !app_length. cbn [length]. lia.
Qed.

Lemma trender_bounds c : T.wf_doc c = true ->
  (length (T.sem c) < length (T.render c))%nat /\ (tdoc_nattrs c < length (T.render c))%nat.
Proof.
  intros Hwf. pose proof (twf_doc_parts c Hwf) as [H1 H2 H3 (name & attrs & ws & body & Er) H5 H6 _].
  destruct (regroup_wf _ _ H1 H3) as [R1 _].
  rewrite (trender_shape c Hwf), <- sem_erase_doc, sem_doc_items. unfold doc_items, tdoc_nattrs.
  rewrite <- (regroup_items (Cst.d_before (erase_doc c)) (T.d_ws0 c)).
  rewrite sem_items_app. cbn [sem_items]. rewrite !app_length.
  pose proof (pairs_sem_le _ R1). pose proof (pairs_sem_le _ H6).
  destruct (tsem_le_render _ H5) as [A1 A2].
  change (Cst.d_root (erase_doc c)) with (erase (T.d_root c)). rewrite sem_erase.
  rewrite Er in A1, A2 |- *. cbn [is_elem'] in A1, A2. lia.
Qed.

Theorem parse_render_sem_text : forall (c : T.doc) (opt : options),
  T.wf_doc c = true ->
  N.of_nat (length (T.sem c)) < nodes_limit opt ->            (* room for all nodes + the Root *)
  N.of_nat (length (T.render c)) <= u32_max ->                 (* the input is at most u32::MAX bytes long *)
  exists d, parse (T.render c) opt = Ok d /\
            view (T.render c) d = T.sem c /\
            (forall nd ns local ar nss, In nd (d_nodes d) -> nd_kind nd = KElement ns local ar nss -> ns = None) /\
            (forall a, In a (d_attrs d) -> ad_ns_idx a = None).
Proof.
  intros c opt Hwf Hlim Hsz. destruct (trender_bounds c Hwf) as [B1 B2].
  apply parse_render_sem_text_bounded; [exact Hwf|exact Hlim|lia|lia].
Qed.
Print Assumptions parse_render_sem_text.

Theorem layout_insensitive_text : forall c1 c2 opt,
  T.wf_doc c1 = true -> T.wf_doc c2 = true -> T.sem c1 = T.sem c2 ->
  N.of_nat (length (T.sem c1)) < nodes_limit opt ->
  N.of_nat (length (T.render c1)) <= u32_max -> N.of_nat (length (T.render c2)) <= u32_max ->
  exists d1 d2, parse (T.render c1) opt = Ok d1 /\ parse (T.render c2) opt = Ok d2 /\
                view (T.render c1) d1 = view (T.render c2) d2.
Proof.
  intros c1 c2 opt W1 W2 E L S1 S2.
  destruct (parse_render_sem_text c1 opt W1 L S1) as (d1 & P1 & V1 & _).
  destruct (parse_render_sem_text c2 opt W2 ltac:(rewrite <- E; exact L) S2) as (d2 & P2 & V2 & _).
  exists d1, d2. split; [exact P1|]. split; [exact P2|]. rewrite V1, V2. exact E.
Qed.
Print Assumptions layout_insensitive_text.

(* ------------------------------------------------------------------------------------------ *)
(* the choice of pieces does not matter                                                       *)
(* ------------------------------------------------------------------------------------------ *)

(* the same document up to how character data and attribute values are spelled *)
Inductive same_item : T.item -> T.item -> Prop :=
| same_elem : forall n a1 a2 w1 w2 b1 b2,
    Forall2 (fun x y => T.a_name x = T.a_name y /\ T.value_sem (T.a_value x) = T.value_sem (T.a_value y)) a1 a2 ->
    same_body b1 b2 -> same_item (T.IElem n a1 w1 b1) (T.IElem n a2 w2 b2)
| same_text : forall ps1 ps2, T.text_sem ps1 = T.text_sem ps2 -> same_item (T.IText ps1) (T.IText ps2)
| same_comment : forall bs, same_item (T.IComment bs) (T.IComment bs)
| same_pi : forall t s1 s2 v, same_item (T.IPI t s1 v) (T.IPI t s2 v)
with same_body : option (list T.item * bytes) -> option (list T.item * bytes) -> Prop :=
| same_none : same_body None None
| same_some : forall cs1 cs2 w1 w2, same_items cs1 cs2 -> same_body (Some (cs1, w1)) (Some (cs2, w2))
with same_items : list T.item -> list T.item -> Prop :=
| same_nil : same_items [] []
| same_cons : forall i1 i2 r1 r2, same_item i1 i2 -> same_items r1 r2 -> same_items (i1 :: r1) (i2 :: r2).

Scheme same_item_mut := Induction for same_item Sort Prop
  with same_body_mut := Induction for same_body Sort Prop
  with same_items_mut := Induction for same_items Sort Prop.

Lemma same_items_len cs1 cs2 : same_items cs1 cs2 -> length cs1 = length cs2.
Proof. induction 1; cbn [length]; congruence. Qed.

Lemma same_item_sem : forall i1 i2, same_item i1 i2 -> T.sem_item i1 = T.sem_item i2.
Proof.
  apply (same_item_mut
    (fun i1 i2 _ => T.sem_item i1 = T.sem_item i2)
    (fun b1 b2 _ => forall n a w1 w2, T.eattrs a = T.eattrs a ->
                    forall a2, T.eattrs a = T.eattrs a2 ->
                    T.sem_item (T.IElem n a w1 b1) = T.sem_item (T.IElem n a2 w2 b2))
    (fun cs1 cs2 _ => tsem_items cs1 = tsem_items cs2 /\ length cs1 = length cs2)).
  - intros n a1 a2 w1 w2 b1 b2 Ha _ IH. apply IH; [reflexivity|].
    unfold T.eattrs. induction Ha as [|x y l l' [E1 E2] _ IHa]; [reflexivity|]. cbn [map]. rewrite E1, E2, IHa. reflexivity.
  - intros ps1 ps2 E. cbn [T.sem_item]. rewrite E. reflexivity.
  - reflexivity.
  - reflexivity.
  - intros n a w1 w2 _ a2 E. rewrite !tsem_item_elem, E. reflexivity.
  - intros cs1 cs2 w1 w2 _ [IH1 IH2] n a w1' w2' _ a2 E. rewrite !tsem_item_elem, E, IH1, IH2. reflexivity.
  - split; reflexivity.
  - intros i1 i2 r1 r2 _ IH1 _ [IH2 IH3]. cbn [tsem_items length]. rewrite IH1, IH2, IH3. split; reflexivity.
Qed.

Theorem piece_choice_insensitive : forall c1 c2 opt,
  T.wf_doc c1 = true -> T.wf_doc c2 = true ->
  same_item (T.d_root c1) (T.d_root c2) ->
  map fst (T.d_before c1) = map fst (T.d_before c2) -> map snd (T.d_after c1) = map snd (T.d_after c2) ->
  N.of_nat (length (T.sem c1)) < nodes_limit opt ->
  N.of_nat (length (T.render c1)) <= u32_max -> N.of_nat (length (T.render c2)) <= u32_max ->
  exists d1 d2, parse (T.render c1) opt = Ok d1 /\ parse (T.render c2) opt = Ok d2 /\
                view (T.render c1) d1 = view (T.render c2) d2.
Proof.
  intros c1 c2 opt W1 W2 Hr Hb Ha L S1 S2. apply layout_insensitive_text; try assumption.
  unfold T.sem. rewrite (same_item_sem _ _ Hr). f_equal; [|f_equal].
  - assert (G : forall l : list (T.item * bytes), flat_map (fun p => T.sem_item (fst p)) l = flat_map T.sem_item (map fst l)).
    { induction l as [|x r IH]; [reflexivity|]. cbn [flat_map map]. rewrite IH. reflexivity. }
    rewrite !G, Hb. reflexivity.
  - assert (G : forall l : list (bytes * T.item), flat_map (fun p => T.sem_item (snd p)) l = flat_map T.sem_item (map snd l)).
    { induction l as [|x r IH]; [reflexivity|]. cbn [flat_map map]. rewrite IH. reflexivity. }
    rewrite !G, Ha. reflexivity.
Qed.
Print Assumptions piece_choice_insensitive.

(* the three spellings of "a&b" *)
Definition doc_of (ps : list T.piece) : T.doc :=
  {| T.d_before := []; T.d_ws0 := []; T.d_root := T.IElem [114] [] [] (Some ([T.IText ps], []));
     T.d_after := []; T.d_ws_end := [] |}.

Corollary amp_spellings : forall opt, 2 < nodes_limit opt ->
  let c1 := doc_of [T.PLit [97]; T.PPredef T.Amp; T.PLit [98]] in        (* <r>a&amp;b</r> *)
  let c2 := doc_of [T.PLit [97]; T.PCData [38]; T.PLit [98]] in           (* <r>a<![CDATA[&]]>b</r> *)
  let c3 := doc_of [T.PLit [97]; T.PCharRef false [51; 56]; T.PLit [98]] in  (* <r>a&#38;b</r> *)
  exists d1 d2 d3, parse (T.render c1) opt = Ok d1 /\ parse (T.render c2) opt = Ok d2 /\ parse (T.render c3) opt = Ok d3 /\
    view (T.render c1) d1 = view (T.render c2) d2 /\ view (T.render c2) d2 = view (T.render c3) d3 /\
    view (T.render c1) d1 = [Cst.VElem [114] [] 1; Cst.VText [97; 38; 98]].
Proof.
  intros opt Hl c1 c2 c3.
  destruct (parse_render_sem_text c1 opt eq_refl) as (d1 & P1 & V1 & _); [cbn; lia|cbn; unfold u32_max; lia|].
  destruct (parse_render_sem_text c2 opt eq_refl) as (d2 & P2 & V2 & _); [cbn; lia|cbn; unfold u32_max; lia|].
  destruct (parse_render_sem_text c3 opt eq_refl) as (d3 & P3 & V3 & _); [cbn; lia|cbn; unfold u32_max; lia|].
  exists d1, d2, d3. rewrite V1, V2, V3. repeat split; assumption || reflexivity.
Qed.
Print Assumptions amp_spellings.
