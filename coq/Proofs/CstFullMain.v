(* Proofs/CstFullMain.v -- the capstone fragment (Spec/CstFull.v): from the rows appended by parse_document to
   the namespace-aware view ([finish], shared by all stages), the size bounds implied by "the input
   is at most u32::MAX bytes long", and the whole-document theorem for a stage WITHOUT a DOCTYPE,
   given what the stage supplies ([parse_render_sem_frame]). *)
From Coq Require Import Ascii String.
From Coq Require Import List NArith PeanoNat Bool Lia ZifyBool ZifyN ZifyNat.
Import ListNotations.
From RX Require Import Generated.
From RX.Model Require Import Base CharClass Stream Tokenizer Doc Builder Parse.
From RX.Spec Require Cst Scope CstNs CstU.
From RX.Spec Require Tree.
From RX.Spec Require Import CstFull.
From RX.Proofs Require Import Tactics CstLex CstBuild CstNsLex CstNsView CstNsBuild CstULex CstFullLex CstFullBuild CstFullTree CstFullItems CstFullDoc.
From RX.Proofs Require CstNsItems CstNsDoc CstNsMain.
From RX.Proofs Require KeystoneEnc KeystoneBuilder KeystoneParse CstFinal ScopeProofs.
Open Scope N_scope.

Notation init_ctx := CstNsMain.init_ctx.

(* ------------------------------------------------------------------------------------------ *)
(* from the rows to the view                                                                  *)
(* ------------------------------------------------------------------------------------------ *)
Lemma finish text opt cf K ext (L : list CstNs.item) :
  parse_document text context (Parse.token text) (allow_dtd opt) (init_ctx text opt) = Ok cf ->
  Stepn (init_ctx text opt) cf K ext ->
  Forall2 (kmn text (c_doc cf)) K (NT.tag_list [] 0 1 L) ->
  (exists l1 name es ws body l2, L = l1 ++ CstNs.IElem name es ws body :: l2) ->
  NT.nsizes L < u32_max ->
  exists d, parse text opt = Ok d /\ view text d = Some (NT.sem_items [] L).
Proof.
  intros E S F (l1 & name & es & ws & body & l2 & EL) Hmax.
  destruct S as (S0 & _ & Hpp). cbn [c_parent_prefixes CstNsMain.init_ctx] in Hpp.
  assert (Habs : absn (c_doc cf) = (None, KRoot) :: K) by (rewrite (sn_nodes _ _ _ _ S0); reflexivity).
  set (d := c_doc cf) in *.
  destruct (d_nodes d) as [|rootnd nodes] eqn:En; [unfold absn in Habs; rewrite En in Habs; discriminate|].
  unfold absn in Habs. rewrite En in Habs. cbn [map] in Habs. injection Habs as Hp0 Hk0 HK.
  set (T := NT.tag_list [] 0 1 L) in *.
  assert (HlenK : length K = length T).
  { clear - F. induction F; cbn [length]; lia. }
  assert (HlenT : N.of_nat (length T) = NT.nsizes L).
  { unfold T. apply NT.tag_list_len. }
  assert (Hlen : len_N (d_nodes d) = 1 + NT.nsizes L).
  { rewrite En. unfold len_N. cbn [length]. rewrite <- HK in HlenK. rewrite map_length in HlenK. lia. }
  (* the arena is the encoding of a tree *)
  assert (HP : KeystoneBuilder.P cf).
  { eapply (KeystoneParse.parse_document_Q text context (Parse.token text) KeystoneBuilder.P).
    - intros tok x x'. apply KeystoneParse.token_P.
    - exists Tree.KdRoot, [], []. apply (KeystoneParse.init_context_Inv text opt). apply CstNsMain.init_context_eq.
    - exact E. }
  destruct HP as (k & cs & outer & Inv).
  pose proof (KeystoneBuilder.inv_pp _ _ _ _ Inv) as Ipp. rewrite Hpp in Ipp. cbn [length] in Ipp.
  destruct outer as [|o outer]; [|cbn [length] in Ipp; lia].
  pose proof (KeystoneBuilder.inv_kinds _ _ _ _ Inv) as Ik. cbn [KeystoneBuilder.kinds_ok] in Ik. subst k.
  pose proof (KeystoneBuilder.inv_rows _ _ _ _ Inv) as Irows.
  unfold KeystoneEnc.ztree in Irows. cbn [KeystoneEnc.plug] in Irows.
  (* the root element is a child of the Root node *)
  set (k0 := length (NT.tag_list [] 0 1 l1)).
  assert (HT0 : exists m, nth_error T k0 = Some (0, NT.elem_v [] name es m)).
  { unfold T. rewrite EL, CstNsDoc.tag_list_app. unfold k0. rewrite nth_error_app2 by lia.
    rewrite Nat.sub_diag. cbn [NT.tag_list].
    destruct body as [[cs0 w2]|]; [rewrite NT.tag_elem|cbn [NT.tag]]; cbn [app nth_error]; eauto. }
  destruct HT0 as (m & HT0).
  destruct (CstNsMain.Forall2_nth_r _ _ _ F _ _ HT0) as (rw & Hrw & Hkm).
  rewrite <- HK in Hrw. apply nth_error_map_inv in Hrw. destruct Hrw as (nd0 & Hnd0 & Eabs).
  destruct Hkm as [Hpar Hkind]. rewrite <- Eabs in Hpar, Hkind. cbn [abs_nd fst snd] in Hpar, Hkind.
  assert (Hel : is_element_kind (nd_kind nd0) = true).
  { unfold NT.elem_v in Hkind. destruct (nd_kind nd0); try contradiction; reflexivity. }
  destruct (CstFinal.root_has_element d cs (N.of_nat (S k0)) nd0) as (it & Eit & Eany).
  { exact Irows. }
  { rewrite Hlen. unfold u32_max in Hmax. lia. }
  { rewrite Nat2N.id, En. cbn [nth_error]. exact Hnd0. }
  { exact Hpar. }
  { exact Hel. }
  exists d. split.
  - unfold parse. rewrite CstNsMain.init_context_eq. cbn [bind]. rewrite E. cbn [bind].
    fold d. rewrite Eit. cbn [bind]. rewrite Eany. cbn [bind negb]. rewrite Hpp. reflexivity.
  - unfold view. rewrite En. cbn [view_from]. unfold view_node at 1. rewrite Hk0.
    change (0 + 1) with 1.
    rewrite (CstNsMain.view_from_rows text d nodes T 1).
    + unfold T. rewrite NT.tag_list_sem. reflexivity.
    + rewrite HK. exact F.
    + intros k q v Hk. rewrite (NT.tag_list_counts [] _ 0 1 ltac:(lia) k q v Hk). fold T.
      unfold children_count. rewrite En. cbn [filter]. rewrite Hp0.
      apply eq_sym. apply (CstNsMain.count_rows text d). rewrite HK. exact F.
Qed.

Lemma sem_items_len inh l : length (NT.sem_items inh l) = NT.isizes l.
Proof. apply NT.sem_items_len. Qed.

(* ------------------------------------------------------------------------------------------ *)
(* the node and attribute bounds follow from the size of the input                             *)
(* ------------------------------------------------------------------------------------------ *)
Section Bounds.
Variable Sy : syntax.
Variable M : meaning Sy.
Variable run_steps : run Sy -> nat.
Hypothesis Hrun_steps : forall r, wf_run M r = true -> (1 <= run_steps r <= length (r_run Sy r))%nat.

Notation item := (CstFull.item Sy).
Notation dens := (CstFullTree.dens Sy M).

Lemma nea_x f es : NT.nea (map (x_entry Sy f) es) = NT.nea (map (x_entry Sy (r_val Sy)) es).
Proof.
  unfold NT.nea. induction es as [|e r IH]; [reflexivity|]. cbn [map filter].
  destruct e; cbn [x_entry length]; rewrite ?IH; reflexivity.
Qed.

Lemma nea_le_f f es : (NT.nea (map (x_entry Sy f) es) <= length (flat_map r_entry es))%nat.
Proof. rewrite nea_x, (r_entries_x Sy). apply CstNsMain.nea_le. Qed.

Lemma sem_le_render_f : forall i : item, wf_item M i = true ->
  (NT.isizes (den M i) + (if is_elem Sy i then 1 else 0) <= length (r_item i))%nat /\
  (NT.nattrs_items (den M i) + (if is_elem Sy i then 1 else 0) <= length (r_item i))%nat.
Proof.
  intros i. induction i as [n a w|n a w cs w2 IH|r|bs|t s v] using fitem_ind; intros Hwf.
  - rewrite den_elem, r_item_elem, !app_length. cbn [NT.isizes NT.nattrs_items NT.isize length is_elem].
    rewrite NT.nattrs_elem. pose proof (nea_le_f (val_sem M) a). lia.
  - rewrite wf_item_elem, !andb_true_iff in Hwf. destruct Hwf as [_ [_ Hcs]].
    rewrite den_elem, r_item_elem, !app_length. cbn [NT.isizes NT.nattrs_items length is_elem].
    rewrite NT.isize_elem, NT.nattrs_elem.
    assert (G : (NT.isizes (dens cs) <= length (r_items cs) /\ NT.nattrs_items (dens cs) <= length (r_items cs))%nat).
    { clear - IH Hcs. induction IH as [|c r Hc _ IHr]; [cbn; lia|].
      cbn [CstFullTree.wf_items] in Hcs. apply andb_true_iff in Hcs. destruct Hcs as [H1 H2].
      cbn [CstFullTree.dens r_items]. rewrite isizes_app, nattrs_items_app, !app_length.
      destruct (Hc H1) as [A1 A2]. destruct (IHr H2) as [B1 B2]. clear - A1 A2 B1 B2. lia. }
    pose proof (nea_le_f (val_sem M) a). lia.
  - cbn [den r_item is_elem]. pose proof (Hrun_steps r Hwf) as H. clear Hwf. destruct (run_sem M r); cbn [NT.isizes NT.nattrs_items NT.isize NT.nattrs]; clear - H; lia.
  - cbn [den r_item Cst.r_item is_elem NT.isizes NT.nattrs_items NT.isize NT.nattrs]. rewrite !app_length. cbn [length]. lia.
  - cbn [den r_item Cst.r_item is_elem NT.isizes NT.nattrs_items NT.isize NT.nattrs]. rewrite !app_length. cbn [length]. lia.
Qed.

Lemma pairs_sem_le_f (l : pairs Sy) : wf_pairs Sy M l = true -> (NT.isizes (dens (map snd l)) <= length (r_pairs l))%nat.
Proof.
  induction l as [|[w i] r IH]; intros H; [cbn; lia|]. cbn [CstFullDoc.wf_pairs forallb fst snd] in H.
  rewrite !andb_true_iff in H. destruct H as [[[H1 H2] H3] H4].
  cbn [map snd CstFullTree.dens r_pairs flat_map fst]. rewrite isizes_app, !app_length. specialize (IH H4).
  unfold r_pairs in IH. destruct (sem_le_render_f i H3) as [A _]. lia.
Qed.

Lemma render_bounds_f c : wf_doc M c = true ->
  (length (sem M c) < length (render c))%nat /\ (NT.nattrs_items (den M (d_root c)) < length (render c))%nat.
Proof.
  intros Hwf. pose proof (wf_doc_parts Sy M c Hwf) as [H1 H2 H3 (name & es & ws & body & Er) H5 H6 _].
  destruct (regroup_wf Sy M _ _ H1 H3) as [R1 _].
  rewrite render_shape, sem_dens, sem_items_len, (doc_items_shape Sy), (dens_app Sy M). cbn [CstFullTree.dens].
  rewrite !isizes_app, !app_length.
  pose proof (pairs_sem_le_f _ R1). pose proof (pairs_sem_le_f _ H6).
  destruct (sem_le_render_f _ H5) as [A1 A2]. rewrite Er in A1, A2 |- *. cbn [is_elem] in A1, A2.
  change (@map (Scope.bytes * item) item (@snd Scope.bytes item) (d_after c))
    with (@map (bytes * item) item (@snd bytes item) (d_after c)).
  clear - H H0 A1 A2. lia.
Qed.

End Bounds.

(* ------------------------------------------------------------------------------------------ *)
(* the whole-document theorem of a stage without DOCTYPE                                       *)
(* ------------------------------------------------------------------------------------------ *)
Section Frame.
Variable Sy : syntax.
Variable M : meaning Sy.
Variable run_steps : run Sy -> nat.
Hypothesis Hval_lex : forall q v, wf_val M q v = true -> q = 39 \/ q = 34 -> uval_ok q (r_val Sy v).
Hypothesis Hrun_valid : forall r, wf_run M r = true -> U8.Valid (r_run Sy r).
Hypothesis Hrun_steps : forall r, wf_run M r = true -> (1 <= run_steps r <= length (r_run Sy r))%nat.
(* no entities are declared: es0 = [] *)
Hypothesis Hval_norm : forall text q v p more, wf_val M q v = true -> q = 39 \/ q = 34 ->
  CstULex.WV text p (r_val Sy v ++ [q] ++ more) ->
  exists stor, norm_ok text [] (sl p (p + blen (r_val Sy v))) stor /\ storage_bytes text stor = val_sem M v.
Hypothesis Hrun : forall text D, (forall l, NoDup l -> incl l D -> N.of_nat (length l) <= 65535) ->
  forall r, PIf Sy M run_steps text D [] (IText r).

Lemma root_in_items (c : doc Sy) : wf_doc M c = true ->
  exists l1 name es ws body l2, CstFullTree.dens Sy M (doc_items c) = l1 ++ CstNs.IElem name es ws body :: l2.
Proof.
  intros Hwf. pose proof (wf_doc_parts Sy M c Hwf) as [_ _ _ (name & es & ws & body & Er) _ _ _].
  unfold doc_items. rewrite (dens_app Sy M). cbn [CstFullTree.dens]. rewrite Er, den_elem. cbn [app]. eauto 10.
Qed.

Theorem parse_render_sem_frame_bounded : forall (c : doc Sy) (opt : options),
  wf_doc M c = true ->
  N.of_nat (length (sem M c)) < nodes_limit opt ->
  N.of_nat (length (sem M c)) < u32_max ->
  N.of_nat (NT.nattrs_items (den M (d_root c))) < u32_max ->
  distinct_decls_le M c (N.to_nat 65535) ->
  1 + N.of_nat (ns_cost M c) <= u32_max ->
  exists d, parse (render c) opt = Ok d /\ view (render c) d = Some (sem M c).
Proof.
  intros c opt Hwf Hlim Hmax Hattr Hdist Hcost. set (text := render c).
  set (D := doc_decls M c).
  assert (HD : forall l, NoDup l -> incl l D -> N.of_nat (length l) <= 65535).
  { intros l N1 N2. pose proof (Hdist l N1 N2). lia. }
  assert (Hsz : NT.nsizes (CstFullTree.dens Sy M (doc_items c)) = N.of_nat (length (sem M c))).
  { rewrite sem_dens, sem_items_len. reflexivity. }
  destruct (parse_document_ok_f Sy M run_steps Hval_lex Hrun_valid Hrun_steps text D HD [] (Hval_norm text) (Hrun text D HD)
              c (allow_dtd opt) (init_ctx text opt) Hwf eq_refl (incl_refl _) (CstNsMain.init_ctx_CIn text D opt))
    as (cf & K & ext & E & S & I & F).
  { split; reflexivity. }
  { reflexivity. }
  { unfold CstNsItems.node_room. cbn. rewrite Hsz. unfold len_N. cbn [length]. lia. }
  { unfold CstNsItems.attr_room. cbn. lia. }
  { unfold CstNsItems.ns_room. cbn. unfold len_N. cbn [length]. lia. }
  cbn [c_parent_id CstNsMain.init_ctx c_doc d_nodes] in F. change (len_N [_]) with 1 in F.
  destruct (finish text opt cf K ext _ E S F (root_in_items c Hwf)) as (d & P & V).
  { rewrite Hsz. exact Hmax. }
  exists d. split; [exact P|]. rewrite V, sem_dens. reflexivity.
Qed.

Theorem parse_render_sem_frame : forall (c : doc Sy) (opt : options),
  wf_doc M c = true ->
  N.of_nat (length (sem M c)) < nodes_limit opt ->               (* room for all nodes + the Root *)
  N.of_nat (length (render c)) <= u32_max ->                      (* the input is at most u32::MAX bytes long *)
  distinct_decls_le M c (N.to_nat 65535) ->                       (* at most 65535 distinct declared bindings *)
  1 + N.of_nat (ns_cost M c) <= u32_max ->                        (* the namespace table fits *)
  exists d, parse (render c) opt = Ok d /\ view (render c) d = Some (sem M c).
Proof.
  intros c opt Hwf Hlim Hsz Hd Hc. destruct (render_bounds_f Sy M run_steps Hrun_steps c Hwf) as [B1 B2].
  apply parse_render_sem_frame_bounded; [exact Hwf|exact Hlim|lia|lia|exact Hd|exact Hc].
Qed.

End Frame.

Print Assumptions parse_render_sem_frame.

Lemma distinct_by_count Sy (M : meaning Sy) (c : doc Sy) n : (length (doc_decls M c) <= n)%nat -> distinct_decls_le M c n.
Proof. intros H l N1 N2. pose proof (NoDup_incl_length N1 N2). lia. Qed.
