(* Proofs/RangeShiftStream.v -- C13 (shift by prolog whitespace), part 2: every Stream primitive
   run on [ws ++ text] from a shifted stream does what it does on [text], shifted. *)
From Coq Require Import List Arith NArith Bool Lia ZifyBool ZifyN ZifyNat.
Import ListNotations.
From RX Require Import Generated.
From RX.Model Require Import Base CharClass Stream.
From RX.Proofs Require Import Tactics NoPanicUtf8 NoPanicStream RangeShiftBase.
Open Scope N_scope.

Definition pmap {A B A' B'} (f : A -> A') (g : B -> B') (x : A * B) : A' * B' := (f (fst x), g (snd x)).
Definition idf {A} (x : A) : A := x.


Definition sh_ref (k : N) (r : reference) : reference :=
  match r with RefEntity name => RefEntity (sh_sl k name) | RefChar c => RefChar c end.

(* one step of a lockstep proof *)
Ltac rs_core spec :=
  lazymatch goal with
  | |- rsimf _ (Ok _) (Ok _) => apply rsimf_ret; try reflexivity
  | |- rsimf _ (Err _) (Err _) => apply rsimf_err
  | |- rsimf _ (Panic _) (Panic _) => apply rsimf_panic
  | |- rsimf _ OutOfFuel OutOfFuel => apply rsimf_fuel
  | |- rsimf _ (bind _ _) (bind _ _) =>
    eapply rsimf_bind; [ solve [spec] | let a := fresh "a" in let Ea := fresh "Ea" in intros a Ea; cbv beta ]
  | |- rsimf _ (if ?b then _ else _) (if ?b then _ else _) => let E := fresh "E" in destruct b eqn:E
  | |- rsimf _ (match ?x with _ => _ end) (match ?x with _ => _ end) =>
    first [ is_var x; destruct x | let E := fresh "E" in destruct x eqn:E ]
  | |- rsimf _ (let _ := _ in _) _ => cbv zeta
  | |- rsimf _ _ _ => solve [spec]
  end.

Section Shift.
Variable ws text : bytes.
Hypothesis Hvalid : valid_utf8_b text = true.
Hypothesis Hws : forallb byte_is_space ws = true.
Notation text2 := (ws ++ text).
Notation k := (blen ws).
Notation shs := (sh_s k).
Notation shl := (sh_sl k).

Lemma ws_ascii : forallb ascii ws = true.
Proof.
  clear Hvalid. eapply forallb_impl; [|exact Hws]. apply byte_is_space_ascii.
Qed.

Lemma valid2 : valid_utf8_b text2 = true.
Proof.
  apply valid_iff_Valid. apply Valid_app; [|apply valid_iff_Valid; exact Hvalid].
  pose proof ws_ascii as H. clear Hws. induction ws as [|x r IH]; [constructor|].
  cbn [forallb] in H. apply andb_true_iff in H. destruct H as [H1 H2].
  change (x :: r) with ([x] ++ r). apply Valid_app; [apply Valid_ascii; exact H1|apply IH; exact H2].
Qed.

Lemma err_from_is_err {A} t (Ht : valid_utf8_b t = true) p mk : exists e, @err_from t A p mk = Err e.
Proof.
  unfold err_from. pose proof (gen_text_pos_from_safe t Ht p) as H.
  unfold gen_text_pos_from, gen_text_pos_at in *.
  destruct (_ || _); cbn in *; [contradiction|eauto].
Qed.

Lemma err_from_sh0 {A B} p p' mk mk' (f : A -> B) :
  rsimf f (@err_from text A p mk) (@err_from text2 B p' mk').
Proof.
  destruct (err_from_is_err (A:=A) text Hvalid p mk) as [e ->].
  destruct (err_from_is_err (A:=B) text2 valid2 p' mk') as [e' ->]. apply rsimf_err.
Qed.

Lemma err_from_sh {A B C D} p p' mk mk' (k1 : A -> res C) (k2 : B -> res D) (f : C -> D) :
  rsimf f (bind (@err_from text A p mk) k1) (bind (@err_from text2 B p' mk') k2).
Proof.
  destruct (err_from_is_err (A:=A) text Hvalid p mk) as [e ->].
  destruct (err_from_is_err (A:=B) text2 valid2 p' mk') as [e' ->]. apply rsimf_err.
Qed.

Ltac sync :=
  rewrite ?(at_end_sh ws), ?(starts_with_sh ws), ?(curr_byte_opt_sh ws), ?(starts_with_space_sh ws),
          ?(skip_spaces_sh ws), ?(skip_bytes_sh ws), ?(curr_byte_sh ws), ?(next_byte_sh ws),
          ?(slice_bytes_shift ws), ?(slice_len_shift ws), ?(avail_sh ws), ?s_rest_sh, ?s_pos_sh.

Ltac base :=
  first [ apply (err_at_sh0 ws text Hvalid) | apply err_from_sh0
        | apply (err_at_sh ws text Hvalid) | apply err_from_sh
        | apply (advance_sh ws) | apply id_sim ].

Ltac rs spec := sync; rs_core ltac:(first [spec | base]).

Lemma curr_byte_sim s : rsimf idf (curr_byte s) (curr_byte (shs s)).
Proof. clear Hvalid Hws. rewrite (curr_byte_sh ws). apply id_sim. Qed.

Lemma curr_byte_unchecked_sim s : rsimf idf (curr_byte_unchecked s) (curr_byte_unchecked (shs s)).
Proof. apply id_sim. Qed.

Lemma consume_byte_sh c s : rsimf shs (consume_byte text c s) (consume_byte text2 c (shs s)).
Proof.
  unfold consume_byte. repeat rs ltac:(first [apply curr_byte_sim]).
Qed.

Lemma try_consume_byte_sh c s :
  try_consume_byte c (shs s) = pmap idf shs (try_consume_byte c s).
Proof.
  clear Hvalid Hws. unfold try_consume_byte. rewrite (curr_byte_opt_sh ws).
  destruct (curr_byte_opt s) as [x|]; [|reflexivity]. destruct (x =? c); [|reflexivity].
  pose proof (advance_sh ws 1 s) as H. destruct (advance 1 s); cbn in H.
  - rewrite H. reflexivity.
  - destruct H as [e' ->]. reflexivity.
  - rewrite H. reflexivity.
  - rewrite H. reflexivity.
Qed.

Lemma skip_string_sh p s : rsimf shs (skip_string text p s) (skip_string text2 p (shs s)).
Proof. unfold skip_string. repeat rs fail. Qed.

Lemma mk_slice_sh a e : rsimf shl (mk_slice text a e) (mk_slice text2 (a + k) (e + k)).
Proof.
  clear Hws. unfold mk_slice. rewrite (tlen_shift ws), !(is_boundary_shift ws text Hvalid).
  replace (e + k <? a + k) with (e <? a) by lia.
  replace (tlen text + k <? e + k) with (tlen text <? e) by lia.
  destruct (_ || _); [reflexivity|]. destruct (_ && _); reflexivity.
Qed.

Lemma slice_back_sh start s :
  rsimf shl (slice_back text start s) (slice_back text2 (start + k) (shs s)).
Proof. unfold slice_back. rewrite s_pos_sh. apply mk_slice_sh. Qed.

Lemma consume_bytes_sh f s :
  rsimf (pmap shl shs) (consume_bytes text f s) (consume_bytes text2 f (shs s)).
Proof.
  unfold consume_bytes. cbv zeta. repeat rs ltac:(first [apply slice_back_sh]).
Qed.

Lemma consume_spaces_sh s : rsimf shs (consume_spaces text s) (consume_spaces text2 (shs s)).
Proof.
  unfold consume_spaces. repeat rs ltac:(first [apply curr_byte_unchecked_sim]).
Qed.

Lemma advance_until2_sh n1 n2 s :
  rsimf shs (advance_until2 n1 n2 s) (advance_until2 n1 n2 (shs s)).
Proof. unfold advance_until2. repeat rs fail. Qed.

Lemma next_char_sh s : next_char (shs s) = next_char s.
Proof.
  clear Hvalid Hws. unfold next_char. rewrite (at_end_sh ws), s_rest_sh, s_pos_sh, s_end_sh.
  destruct (at_end s); [reflexivity|]. destruct (decode1 (s_rest s)) as [[c n]|]; [|reflexivity].
  replace (s_end s + k <? s_pos s + k + n) with (s_end s <? s_pos s + n) by lia. reflexivity.
Qed.

Lemma next_char_sim s : rsimf idf (next_char s) (next_char (shs s)).
Proof. clear Hvalid Hws. rewrite next_char_sh. apply id_sim. Qed.

Lemma skip_chars_loop_sh f : (forall s c, f (shs s) c = f s c) ->
  forall fuel s, rsimf shs (skip_chars_loop text fuel f s) (skip_chars_loop text2 fuel f (shs s)).
Proof.
  intros Hf. induction fuel as [|fu IH]; intros s; cbn [skip_chars_loop]; [reflexivity|].
  eapply rsimf_bind; [apply next_char_sim|]. intros oc _. unfold idf.
  destruct oc as [[c n]|]; [|reflexivity].
  destruct (negb (char_is_char c)); [apply (err_at_sh0 ws text Hvalid)|].
  rewrite Hf. destruct (f s c); [|reflexivity].
  eapply rsimf_bind; [apply (advance_sh ws)|]. intros s1 _. apply IH.
Qed.

Lemma skip_chars_sh f s : (forall s c, f (shs s) c = f s c) ->
  rsimf shs (skip_chars text f s) (skip_chars text2 f (shs s)).
Proof. intros Hf. unfold skip_chars. rewrite s_rest_sh. apply skip_chars_loop_sh. exact Hf. Qed.

Lemma consume_chars_sh f s : (forall s c, f (shs s) c = f s c) ->
  rsimf (pmap shl shs) (consume_chars text f s) (consume_chars text2 f (shs s)).
Proof.
  intros Hf. unfold consume_chars.
  repeat rs ltac:(first [apply skip_chars_sh; exact Hf | apply slice_back_sh]).
Qed.

Lemma skip_name_loop_sh : forall fuel s,
  rsimf shs (skip_name_loop fuel s) (skip_name_loop fuel (shs s)).
Proof.
  induction fuel as [|fu IH]; intros s; cbn [skip_name_loop]; [reflexivity|].
  eapply rsimf_bind; [apply next_char_sim|]. intros oc _. unfold idf.
  destruct oc as [[c n]|]; [|reflexivity]. destruct (char_is_name c); [|reflexivity].
  eapply rsimf_bind; [apply (advance_sh ws)|]. intros s1 _. apply IH.
Qed.

Lemma skip_name_sh s : rsimf shs (skip_name text s) (skip_name text2 (shs s)).
Proof.
  unfold skip_name. cbv zeta.
  eapply rsimf_bind; [apply next_char_sim|]. intros oc _. unfold idf.
  destruct oc as [[c n]|]; [|reflexivity]. destruct (char_is_name_start c); [|apply err_from_sh0].
  eapply rsimf_bind; [apply (advance_sh ws)|]. intros s1 _. cbv beta. rewrite s_rest_sh.
  apply skip_name_loop_sh.
Qed.

Lemma consume_name_sh s :
  rsimf (pmap shl shs) (consume_name text s) (consume_name text2 (shs s)).
Proof.
  unfold consume_name. cbv zeta.
  eapply rsimf_bind; [apply skip_name_sh|]. intros s1 _. cbv beta.
  eapply rsimf_bind; [apply slice_back_sh|]. intros nm _. cbv beta.
  rewrite (slice_len_shift ws). destruct (slice_len nm =? 0); [apply err_from_sh0|reflexivity].
Qed.

Definition sh_opt (o : option N) : option N := option_map (fun x => x + k) o.

Lemma consume_qname_loop_sh : forall fuel start spl s,
  rsimf (pmap sh_opt shs) (consume_qname_loop text fuel start spl s)
        (consume_qname_loop text2 fuel (start + k) (sh_opt spl) (shs s)).
Proof.
  induction fuel as [|fu IH]; intros start spl s; cbn [consume_qname_loop]; [reflexivity|].
  rewrite (at_end_sh ws). destruct (at_end s); [reflexivity|].
  eapply rsimf_bind; [apply curr_byte_unchecked_sim|]. intros x _. unfold idf.
  destruct (x <? 128).
  - destruct (x =? 58).
    + destruct spl as [sp|]; cbn [sh_opt option_map]; [apply err_from_sh0|].
      eapply rsimf_bind; [apply (advance_sh ws)|]. intros s1 _. cbv beta. rewrite s_pos_sh.
      apply (IH start (Some (s_pos s)) s1).
    + destruct (byte_is_name x); [|reflexivity].
      eapply rsimf_bind; [apply (advance_sh ws)|]. intros s1 _. apply IH.
  - eapply rsimf_bind; [apply next_char_sim|]. intros oc _. unfold idf.
    destruct oc as [[c n]|]; [|reflexivity]. destruct (char_is_name c); [|reflexivity].
    eapply rsimf_bind; [apply (advance_sh ws)|]. intros s1 _. apply IH.
Qed.

Definition sh_qn (x : slice * slice * stream) : slice * slice * stream :=
  (shl (fst (fst x)), shl (snd (fst x)), shs (snd x)).

Lemma consume_qname_sh s : rsimf sh_qn (consume_qname text s) (consume_qname text2 (shs s)).
Proof.
  unfold consume_qname. cbv zeta. rewrite s_rest_sh, s_pos_sh.
  eapply rsimf_bind; [apply (consume_qname_loop_sh _ (s_pos s) None s)|].
  intros [spl s1] _. cbn [pmap fst snd]. cbv beta iota.
  eapply rsimf_bind with (f := pmap shl shl).
  - destruct spl as [sp|]; cbn [sh_opt option_map].
    + eapply rsimf_bind; [apply mk_slice_sh|]. intros p _. cbv beta.
      replace (sp + k + 1) with (sp + 1 + k) by lia.
      eapply rsimf_bind; [apply slice_back_sh|]. intros l _. reflexivity.
    + eapply rsimf_bind; [apply slice_back_sh|]. intros l _. cbv beta.
      eapply rsimf_bind; [apply mk_slice_sh|]. intros p _. reflexivity.
  - intros [p l] _. cbn [pmap fst snd]. cbv beta iota.
    rewrite !(slice_len_shift ws), !(slice_bytes_shift ws).
    destruct (_ && _); [apply err_from_sh0|]. destruct (negb _); [apply err_from_sh0|]. reflexivity.
Qed.

Lemma consume_eq_sh s : rsimf shs (consume_eq text s) (consume_eq text2 (shs s)).
Proof.
  unfold consume_eq. cbv zeta. rewrite (skip_spaces_sh ws).
  eapply rsimf_bind; [apply consume_byte_sh|]. intros s1 _. cbv beta. rewrite (skip_spaces_sh ws). reflexivity.
Qed.

Lemma consume_quote_sh s : rsimf (pmap idf shs) (consume_quote text s) (consume_quote text2 (shs s)).
Proof.
  unfold consume_quote.
  eapply rsimf_bind; [apply curr_byte_sim|]. intros c _. unfold idf.
  destruct (_ || _); [|apply (err_at_sh0 ws text Hvalid)].
  eapply rsimf_bind; [apply (advance_sh ws)|]. intros s1 _. reflexivity.
Qed.

Definition sh_refres (o : option (reference * stream)) : option (reference * stream) :=
  option_map (pmap (sh_ref k) shs) o.

Lemma consume_reference_sh s :
  rsimf sh_refres (consume_reference text s) (consume_reference text2 (shs s)).
Proof.
  unfold consume_reference.
  rewrite (try_consume_byte_sh 38 s). destruct (try_consume_byte 38 s) as [ok s1]. cbn [pmap fst snd idf].
  destruct (negb ok); [reflexivity|].
  rewrite (try_consume_byte_sh 35 s1). destruct (try_consume_byte 35 s1) as [is_num s2]. cbn [pmap fst snd idf].
  eapply rsimf_bind with (f := sh_refres).
  - destruct is_num.
    + rewrite (try_consume_byte_sh 120 s2). destruct (try_consume_byte 120 s2) as [is_hex s3].
      cbn [pmap fst snd idf].
      eapply rsimf_bind; [apply consume_bytes_sh|]. intros [value s4] _. cbn [pmap fst snd]. cbv beta iota.
      rewrite (slice_bytes_shift ws). destruct (slice_bytes text value); [reflexivity|].
      destruct (u32_max <? _); [reflexivity|]. destruct (negb _); reflexivity.
    + pose proof (consume_name_sh s2) as H. destruct (consume_name text s2) as [[name s3]| | |]; cbn in H.
      * rewrite H. cbn [pmap fst snd]. rewrite (slice_bytes_shift ws).
        repeat match goal with |- context [if ?b then _ else _] => destruct b end; reflexivity.
      * destruct H as [e' ->]. reflexivity.
      * rewrite H. reflexivity.
      * rewrite H. reflexivity.
  - intros [[r s5]|] _; cbn [sh_refres option_map pmap fst snd]; [|reflexivity].
    pose proof (consume_byte_sh 59 s5) as H. destruct (consume_byte text 59 s5); cbn in H.
    + rewrite H. reflexivity.
    + destruct H as [e' ->]. reflexivity.
    + rewrite H. reflexivity.
    + rewrite H. reflexivity.
Qed.

Lemma is_xml_str_ascii_sh : forall l i i',
  rsimf idf (is_xml_str_ascii text l i) (is_xml_str_ascii text2 l i').
Proof.
  induction l as [|x l IH]; intros i i'; cbn [is_xml_str_ascii]; [reflexivity|].
  destruct (negb (byte_is_char x)); [apply err_from_sh0|apply IH].
Qed.

Lemma is_xml_str_unicode_sh : forall fuel l i i',
  rsimf idf (is_xml_str_unicode text fuel l i) (is_xml_str_unicode text2 fuel l i').
Proof.
  induction fuel as [|fu IH]; intros l i i'; cbn [is_xml_str_unicode]; [reflexivity|].
  destruct l as [|x l']; [reflexivity|]. destruct (decode1 (x :: l')) as [[c n]|]; [|reflexivity].
  destruct (negb (char_is_char c)); [apply err_from_sh0|apply IH].
Qed.

Lemma is_xml_str_sh sl i i' :
  rsimf idf (is_xml_str text sl i) (is_xml_str text2 (shl sl) i').
Proof.
  unfold is_xml_str. cbv zeta. rewrite (slice_bytes_shift ws).
  destruct (forallb (fun x => x <? 128) (slice_bytes text sl)); [apply is_xml_str_ascii_sh|apply is_xml_str_unicode_sh].
Qed.

Lemma stream_from_substr_sh a e :
  rsimf shs (stream_from_substr text a e) (stream_from_substr text2 (a + k) (e + k)).
Proof.
  clear Hvalid Hws. unfold stream_from_substr. rewrite (tlen_shift ws).
  replace (e + k <? a + k) with (e <? a) by lia.
  replace (tlen text + k <? e + k) with (tlen text <? e) by lia.
  destruct (_ || _); [reflexivity|]. cbn. unfold sh_s. cbn. rewrite (skipn_shift ws). reflexivity.
Qed.

End Shift.
