(* Proofs/CstEntCLoop.v -- C07 with content entities: the dispatch of parse_content_loop (Proofs/CstItems.v) for a
   stream over a part of the input (Proofs/CstEntCLex.v) and any callback. *)
From Coq Require Import Ascii String.
From Coq Require Import List NArith PeanoNat Bool Lia ZifyBool ZifyN ZifyNat.
Import ListNotations.
From RX Require Import Generated.
From RX.Model Require Import Base CharClass Stream Tokenizer.
From RX.Spec Require Cst CstText.
From RX.Proofs Require Import Tactics CstLex CstTextLex CstEntCLex.
Open Scope N_scope.

Section SubLoop.
Variable text : bytes.
Variable en : N.
Variable tl : bytes.
Variable C : Type.
Variable ev : token -> C -> res C.
Notation W := (CstEntCLex.W text en tl).
Notation st := (CstEntCLex.st en tl).
Notation loop := (parse_content_loop text C ev).

Lemma loop_end fuel depth p c : W p [] -> loop (S fuel) depth (st p []) c = Ok (st p [], c).
Proof. intros HW. cbn [parse_content_loop]. rewrite (at_end_st text en tl) by assumption. reflexivity. Qed.

Lemma loop_text fuel depth p x l c : W p (x :: l) -> x <> 60 ->
  loop (S fuel) depth (st p (x :: l)) c =
  let! (s, c) := parse_text text C ev (st p (x :: l)) c in loop fuel depth s c.
Proof.
  intros HW Hx. cbn [parse_content_loop]. rewrite (at_end_st text en tl) by assumption.
  cbn [curr_byte_unchecked CstEntCLex.st s_rest bind app]. replace (x =? 60) with false by lia. reflexivity.
Qed.

Lemma loop_lt fuel depth p y l c : W p (60 :: y :: l) ->
  loop (S fuel) depth (st p (60 :: y :: l)) c =
  if y =? 33 then
    if starts_with (st p (60 :: y :: l)) (b "<!--") then
      let! (s, c) := parse_comment text C ev (st p (60 :: y :: l)) c in loop fuel depth s c
    else if starts_with (st p (60 :: y :: l)) (b "<![CDATA[") then
      let! (s, c) := parse_cdata text C ev (st p (60 :: y :: l)) c in loop fuel depth s c
    else err_at text (st p (60 :: y :: l)) UnknownToken
  else if y =? 63 then
    let! (s, c) := parse_pi text C ev (st p (60 :: y :: l)) c in loop fuel depth s c
  else if y =? 47 then
    let! (s, c) := parse_close_element text C ev (st p (60 :: y :: l)) c in
    if depth =? 0 then Ok (s, c) else loop fuel (depth - 1) s c
  else
    let! (open, s, c) := parse_element text C ev (st p (60 :: y :: l)) c in
    loop fuel (if open then depth + 1 else depth) s c.
Proof.
  intros HW. cbn [parse_content_loop]. rewrite (at_end_st text en tl) by assumption.
  rewrite (next_byte_st text en tl p 60 y l HW).
  cbn [curr_byte_unchecked CstEntCLex.st s_rest bind app]. change (60 =? 60) with true. cbv iota.
  reflexivity.
Qed.

Lemma loop_comment fuel depth p l c : W p ([60; 33; 45; 45] ++ l) ->
  loop (S fuel) depth (st p ([60; 33; 45; 45] ++ l)) c =
  let! (s, c) := parse_comment text C ev (st p ([60; 33; 45; 45] ++ l)) c in loop fuel depth s c.
Proof.
  intros HW. cbn [app] in *. rewrite loop_lt by assumption. change (33 =? 33) with true. cbv iota.
  rewrite (starts_with_st text en tl) by assumption. reflexivity.
Qed.

Lemma loop_cdata fuel depth p l c : W p (T.cdata_open ++ l) ->
  loop (S fuel) depth (st p (T.cdata_open ++ l)) c =
  let! (s, c) := parse_cdata text C ev (st p (T.cdata_open ++ l)) c in loop fuel depth s c.
Proof.
  intros HW. unfold T.cdata_open in *. cbn [app] in *. rewrite loop_lt by assumption. change (33 =? 33) with true. cbv iota.
  rewrite !(starts_with_st text en tl) by assumption. reflexivity.
Qed.

Lemma loop_pi fuel depth p l c : W p ([60; 63] ++ l) ->
  loop (S fuel) depth (st p ([60; 63] ++ l)) c =
  let! (s, c) := parse_pi text C ev (st p ([60; 63] ++ l)) c in loop fuel depth s c.
Proof. intros HW. cbn [app] in *. rewrite loop_lt by assumption. reflexivity. Qed.

Lemma loop_close fuel depth p l c : W p ([60; 47] ++ l) ->
  loop (S fuel) depth (st p ([60; 47] ++ l)) c =
  let! (s, c) := parse_close_element text C ev (st p ([60; 47] ++ l)) c in
  if depth =? 0 then Ok (s, c) else loop fuel (depth - 1) s c.
Proof. intros HW. cbn [app] in *. rewrite loop_lt by assumption. reflexivity. Qed.

Lemma loop_elem fuel depth p n l c : W p ([60] ++ (n :: l)) -> Cst.is_name_start n = true ->
  loop (S fuel) depth (st p ([60] ++ (n :: l))) c =
  let! (open, s, c) := parse_element text C ev (st p ([60] ++ (n :: l))) c in
  loop fuel (if open then depth + 1 else depth) s c.
Proof.
  intros HW Hn. cbn [app] in *. rewrite loop_lt by assumption.
  destruct (name_start_byte _ Hn) as (_ & _ & _ & H47 & _ & H33 & H63 & _).
  replace (n =? 33) with false by lia. replace (n =? 63) with false by lia.
  replace (n =? 47) with false by lia. reflexivity.
Qed.

Lemma loop_elem' fuel depth p name l c : W p ([60] ++ name ++ l) -> Cst.wf_name name = true ->
  loop (S fuel) depth (st p ([60] ++ name ++ l)) c =
  let! (open, s, c) := parse_element text C ev (st p ([60] ++ name ++ l)) c in
  loop fuel (if open then depth + 1 else depth) s c.
Proof.
  intros HW Hn. destruct name as [|n ns]; [discriminate|].
  cbn [Cst.wf_name] in Hn. apply andb_true_iff in Hn. destruct Hn as [Hn _].
  apply (loop_elem fuel depth p n (ns ++ l) c HW Hn).
Qed.

End SubLoop.
