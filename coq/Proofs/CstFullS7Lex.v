(* Proofs/CstFullS7Lex.v -- the capstone fragment, stage S7 (Spec/CstFullS7.v): Proofs/CstFullS6Lex.v (the lexer
   post-conditions for a stream over a part of the input) where a comment body and a PI value are any Chars (CR
   included) and a PI target is a Name with colons; plus skip_name / consume_name on such Names.  An adapted copy. *)
From Coq Require Import Ascii String.
From Coq Require Import List NArith PeanoNat Bool Lia ZifyBool ZifyN ZifyNat.
Import ListNotations.
From RX Require Import Generated.
From RX.Model Require Import Base CharClass Stream Tokenizer.
From RX.Spec Require Cst Scope CstNs CstU CstText Chars.
From RX.Proofs Require Import Tactics CstLex CstULex CstNsLex CstFullLex CstTextSem CstTextLex CstFullS2Sem CstFullS2Lex.
From RX.Spec Require Import CstFull CstFullS5 CstFullS7.
From RX.Proofs Require CharTablesProofs.
From RX.Proofs Require Import CstFullS5Ws CstFullS5Lex.
From RX.Proofs Require CstEntCLex CstEntCLoop.
Open Scope N_scope.

Ltac clia := repeat match goal with H : @eq bool _ true |- _ => clear H end; lia.

(* the range and what follows it are inferred from the hypothesis about the stream *)
Arguments CstEntCLex.W_app text {en tl} p x l.
Arguments CstEntCLex.W_cons text {en tl} p x l.
Arguments CstEntCLex.W_sub text {en tl} p x l.
Arguments CstEntCLex.W_slice text {en tl} p x l.
Arguments CstEntCLex.W_le text {en tl} p r.

(* ---- Names with colons ---- *)
Lemma name7_char_facts c : Chars.xml_NameChar c = true -> is_scalar c = true /\ char_is_name c = true.
Proof.
  intros H1. pose proof (name_char_scalar c H1) as Hs. split; [exact Hs|].
  destruct (CharTablesProofs.char_tables_conform c Hs) as (_ & _ & E). rewrite E. exact H1.
Qed.
Lemma name7_start_facts c : Chars.xml_NameStartChar c = true -> Chars.xml_NameChar c = true /\ char_is_name_start c = true.
Proof.
  intros H1. pose proof (name_start_name c H1) as Hn. split; [exact Hn|].
  destruct (CharTablesProofs.char_tables_conform c (name_char_scalar c Hn)) as (_ & E & _). rewrite E. exact H1.
Qed.
Lemma wf_name7_parts n : wf_name7 n = true ->
  exists c x, n = c :: x /\ Chars.xml_NameStartChar c = true /\ forallb Chars.xml_NameChar (c :: x) = true.
Proof.
  destruct n as [|c x]; [discriminate|]. cbn [wf_name7]. intros H. apply andb_true_iff in H.
  destruct H as [H1 H2]. exists c, x. split; [reflexivity|]. split; [exact H1|].
  cbn [forallb]. rewrite (proj1 (name7_start_facts c H1)), H2. reflexivity.
Qed.
Lemma name7_scalars n : forallb Chars.xml_NameChar n = true -> scalars_ok n.
Proof.
  induction n as [|c n IH]; intros H; [constructor|]. cbn [forallb] in H. apply andb_true_iff in H. destruct H as [H1 H2].
  constructor; [apply (name7_char_facts c H1)|apply IH; exact H2].
Qed.
Lemma name7_valid n : wf_name7 n = true -> U8.Valid (utf8s n).
Proof. intros H. destruct (wf_name7_parts n H) as (c & x & -> & _ & Hall). apply Valid_utf8s. apply name7_scalars. exact Hall. Qed.
Lemma name_7 n : CstU.wf_name n = true -> wf_name7 n = true.
Proof.
  destruct n as [|c x]; [discriminate|]. cbn [CstU.wf_name wf_name7]. rewrite !andb_true_iff. intros [H1 H2]. split.
  - unfold CstU.is_name_start in H1. apply andb_true_iff in H1. apply H1.
  - revert H2. apply forallb_imp. intros y Hy. unfold CstU.is_name_char in Hy. apply andb_true_iff in Hy. apply Hy.
Qed.

Lemma name7_head n : wf_name7 n = true -> exists b0 r, utf8s n = b0 :: r /\ byte_is_space b0 = false.
Proof.
  intros H. destruct (wf_name7_parts n H) as (c & x & -> & Hc & _). rewrite utf8s_cons.
  destruct (N.lt_ge_cases c 128) as [L|L].
  - rewrite (utf8_ascii c L). cbn [app]. exists c, (utf8s x). split; [reflexivity|].
    destruct (CharTablesProofs.byte_tables_conform c L) as (_ & E & _). rewrite <- E in Hc. revert Hc. cls. lia.
  - destruct (utf8_high c L) as (_ & b0 & r & E & Hb). rewrite E. cbn [app]. exists b0, (r ++ utf8s x). split; [reflexivity|].
    cls. lia.
Qed.

Section SubU.
Variable text : bytes.
Variable en : N.
Variable tl : bytes.

Notation st := (CstEntCLex.st en tl).
Notation W := (CstEntCLex.W text en tl).
Notation W_app := CstEntCLex.W_app.
Notation W_cons := CstEntCLex.W_cons.
Notation W_sub := CstEntCLex.W_sub.
Notation W_slice := CstEntCLex.W_slice.
Notation W_le := CstEntCLex.W_le.
Notation at_end_st := (CstEntCLex.at_end_st text en tl).
Notation avail_st := (CstEntCLex.avail_st text en tl).
Notation starts_with_st := (CstEntCLex.starts_with_st text en tl).
Notation advance_st := (CstEntCLex.advance_st text en tl).
Notation advance1_st := (CstEntCLex.advance1_st text en tl).
Notation curr_byte_st := (CstEntCLex.curr_byte_st text en tl).
Notation curr_byte_opt_st := (CstEntCLex.curr_byte_opt_st text en tl).
Notation next_byte_st := (CstEntCLex.next_byte_st text en tl).
Notation consume_byte_st := (CstEntCLex.consume_byte_st text en tl).
Notation skip_string_st := (CstEntCLex.skip_string_st text en tl).
Notation skip_bytes_st := (CstEntCLex.skip_bytes_st text en tl).
Notation skip_spaces_st := (CstEntCLex.skip_spaces_st text en tl).
Notation next_char_end := (CstEntCLex.next_char_end text en tl).

(* r is the input from p on up to the end of the range, and the input from p on is a concatenation of encodings *)
Definition WV (p : N) (r : bytes) : Prop := CstULex.WV text p (r ++ tl) /\ p + blen r = en.

Lemma WV_W p r : WV p r -> W p r.
Proof. intros [H1 H2]. split; [apply H1|exact H2]. Qed.

Lemma WV_app p x l : WV p (x ++ l) -> U8.Valid x -> WV (p + blen x) l.
Proof.
  intros [H1 H2] Hx. split.
  - rewrite <- app_assoc in H1. apply (CstULex.WV_app text _ _ _ H1 Hx).
  - rewrite blen_app in H2. lia.
Qed.

Lemma WV_lit p x l : WV p (x ++ l) -> forallb (fun y => y <? 128) x = true -> WV (p + blen x) l.
Proof. intros H Hx. apply (WV_app _ _ _ H). apply Valid_lit. exact Hx. Qed.

Lemma WV_cons p x l : WV p (x :: l) -> x < 128 -> WV (p + 1) l.
Proof. intros H Hx. apply (WV_lit p [x] l H). cbn. replace (x <? 128) with true by lia. reflexivity. Qed.

Lemma boundary_v p r : WV p r -> is_boundary text p = true.
Proof. intros [H _]. apply (CstULex.boundary_v text _ _ H). Qed.

Lemma mk_slice_v a x l : WV a (x ++ l) -> U8.Valid x -> mk_slice text a (a + blen x) = Ok (sl a (a + blen x)).
Proof. intros [H _] Hx. rewrite <- app_assoc in H. apply (CstULex.mk_slice_v text a x _ H Hx). Qed.

Lemma mk_slice_empty a l : WV a l -> mk_slice text a a = Ok (sl a a).
Proof. intros [H _]. apply (CstULex.mk_slice_empty text a _ H). Qed.

Ltac wv H := first [exact H | apply (WV_W _ _ H)].

(* ---- one character ---- *)
Lemma next_char_v p c l : WV p (utf8 c ++ l) -> is_scalar c = true ->
  next_char (st p (utf8 c ++ l)) = Ok (Some (c, blen (utf8 c))).
Proof.
  intros HWV Hc. pose proof (WV_W _ _ HWV) as HW. unfold next_char. rewrite at_end_st by exact HW.
  pose proof (utf8_len c) as Hl.
  replace (match utf8 c ++ l with [] => true | _ :: _ => false end) with false
    by (destruct (utf8 c); [unfold blen in Hl; cbn in Hl; lia|reflexivity]).
  cbn [CstEntCLex.st s_rest]. rewrite <- app_assoc, utf8_enc, (U8.decode1_encode c (l ++ tl) Hc).
  destruct HW as [_ HW]. rewrite blen_app in HW. rewrite <- utf8_enc. cbn [CstEntCLex.st s_end s_pos].
  replace (en <? p + blen (utf8 c)) with false by lia. reflexivity.
Qed.

Lemma next_char_a p c l : WV p (c :: l) -> c < 128 -> next_char (st p (c :: l)) = Ok (Some (c, 1)).
Proof.
  intros H Hc. pose proof (next_char_v p c l) as E. rewrite (utf8_ascii c Hc) in E.
  apply E; [exact H|unfold is_scalar; lia].
Qed.

Lemma advance_v p c l : WV p (utf8 c ++ l) ->
  advance (blen (utf8 c)) (st p (utf8 c ++ l)) = Ok (st (p + blen (utf8 c)) l).
Proof. intros H. apply advance_st; [reflexivity|apply (WV_W _ _ H)]. Qed.

(* ---- consume_chars over scalar values ---- *)
Fixpoint walk_u (f : stream -> N -> bool) (p : N) (cs : list N) (l : bytes) : Prop :=
  match cs with
  | [] => True
  | c :: cs' => is_scalar c = true /\ char_is_char c = true /\ f (st p (utf8s cs ++ l)) c = true /\
                walk_u f (p + blen (utf8 c)) cs' l
  end.
Definition stop_u (f : stream -> N -> bool) (p : N) (l : bytes) : Prop :=
  match l with [] => True | c :: _ => c < 128 /\ char_is_char c = true /\ f (st p l) c = false end.

Lemma walk_scalars f : forall cs p l, walk_u f p cs l -> scalars_ok cs.
Proof. induction cs as [|c cs IH]; intros p l H; [constructor|]. destruct H as (H1 & _ & _ & H4). constructor; [exact H1|apply (IH _ _ H4)]. Qed.

Lemma skip_chars_loop_v f : forall cs p l fuel, WV p (utf8s cs ++ l) -> walk_u f p cs l -> stop_u f (p + blen (utf8s cs)) l ->
  (length cs < fuel)%nat ->
  skip_chars_loop text fuel f (st p (utf8s cs ++ l)) = Ok (st (p + blen (utf8s cs)) l).
Proof.
  induction cs as [|c cs IH]; intros p l fuel HW Hx Hl Hf.
  - cbn [CstU.utf8s flat_map app] in *. rewrite blen_nil, N.add_0_r in *. destruct fuel as [|fu]; [cbn in Hf; lia|].
    cbn [skip_chars_loop]. destruct l as [|c l].
    + rewrite next_char_end by wv HW. reflexivity.
    + destruct Hl as (H0 & H1 & H2). rewrite next_char_a by assumption. cbn [bind]. rewrite H1, H2. reflexivity.
  - destruct fuel as [|fu]; [cbn in Hf; lia|]. cbn [length] in Hf.
    destruct Hx as (H0 & H1 & H2 & H3). rewrite utf8s_cons, <- app_assoc in *.
    cbn [skip_chars_loop]. rewrite next_char_v by assumption. cbn [bind].
    rewrite H1, H2. cbn [negb].
    rewrite advance_v by exact HW. cbn [bind].
    assert (HW' : WV (p + blen (utf8 c)) (utf8s cs ++ l)).
    { apply (WV_app _ _ _ HW). rewrite utf8_enc. apply U8.Valid_encode. exact H0. }
    rewrite IH; [|exact HW'|exact H3| |lia].
    + rewrite blen_app, N.add_assoc. reflexivity.
    + rewrite blen_app, N.add_assoc in Hl. exact Hl.
Qed.

Lemma consume_chars_v f cs p l : WV p (utf8s cs ++ l) -> walk_u f p cs l -> stop_u f (p + blen (utf8s cs)) l ->
  consume_chars text f (st p (utf8s cs ++ l)) = Ok (sl p (p + blen (utf8s cs)), st (p + blen (utf8s cs)) l).
Proof.
  intros HW Hx Hl. unfold consume_chars, skip_chars.
  rewrite skip_chars_loop_v; [|exact HW|exact Hx|exact Hl|].
  2:{ cbn [CstEntCLex.st s_rest]. rewrite !app_length. pose proof (utf8s_len_le cs). lia. }
  cbn [bind]. unfold slice_back. cbn [CstEntCLex.st s_pos].
  rewrite (mk_slice_v p (utf8s cs) l); [reflexivity|exact HW|]. apply Valid_utf8s. apply (walk_scalars _ _ _ _ Hx).
Qed.


(* ---- names ---- *)
Lemma qname_loop_u start : forall x p l fuel, WV p (utf8s x ++ l) ->
  forallb CstU.is_name_char x = true -> name_stop l -> (length x < fuel)%nat ->
  consume_qname_loop text fuel start None (st p (utf8s x ++ l)) = Ok (None, st (p + blen (utf8s x)) l).
Proof.
  induction x as [|c x IH]; intros p l fuel HW Hx Hl Hf.
  - cbn [CstU.utf8s flat_map app] in *. rewrite blen_nil, N.add_0_r. destruct fuel as [|fu]; [cbn in Hf; lia|].
    cbn [consume_qname_loop]. rewrite at_end_st by wv HW. destruct l as [|c l]; [reflexivity|].
    cbn [curr_byte_unchecked CstEntCLex.st s_rest bind app]. destruct Hl as (H1 & H2 & H3).
    replace (c <? 128) with true by lia. replace (c =? 58) with false by lia. rewrite H3. reflexivity.
  - destruct fuel as [|fu]; [cbn in Hf; lia|]. cbn [length] in Hf.
    cbn [forallb] in Hx. apply andb_true_iff in Hx. destruct Hx as [Hc Hx].
    destruct (uname_char_facts _ Hc) as (Hs & Hn & H58 & Hb).
    rewrite utf8s_cons, <- app_assoc in *.
    assert (HW' : WV (p + blen (utf8 c)) (utf8s x ++ l)).
    { apply (WV_app _ _ _ HW). rewrite utf8_enc. apply U8.Valid_encode. exact Hs. }
    cbn [consume_qname_loop]. rewrite at_end_st by wv HW.
    pose proof (utf8_len c) as Hlen.
    replace (match utf8 c ++ utf8s x ++ l with [] => true | _ :: _ => false end) with false
      by (destruct (utf8 c); [unfold blen in Hlen; cbn in Hlen; lia|reflexivity]).
    destruct (N.lt_ge_cases c 128) as [L|L].
    + rewrite (utf8_ascii c L) in *. cbn [app] in *. cbn [curr_byte_unchecked CstEntCLex.st s_rest bind app].
      replace (c <? 128) with true by lia. replace (c =? 58) with false by lia. rewrite (Hb L).
      fold (st p (c :: utf8s x ++ l)). rewrite advance1_st by wv HW. cbn [bind].
      change (blen [c]) with 1 in HW'.
      rewrite IH; [|exact HW'|exact Hx|exact Hl|lia]. rewrite blen_cons, N.add_assoc. reflexivity.
    + destruct (utf8_high c L) as (_ & b0 & r & E & Hb0).
      assert (Ecb : curr_byte_unchecked (st p (utf8 c ++ utf8s x ++ l)) = Ok b0).
      { rewrite E. reflexivity. }
      rewrite Ecb. cbn [bind]. replace (b0 <? 128) with false by lia.
      rewrite next_char_v by assumption. cbn [bind]. rewrite Hn.
      rewrite advance_v by exact HW. cbn [bind].
      rewrite IH; [|exact HW'|exact Hx|exact Hl|lia]. rewrite blen_app, N.add_assoc. reflexivity.
Qed.

Lemma str_is_name_start_u n l : CstU.wf_name n = true -> str_is_name_start (utf8s n ++ l) = true.
Proof.
  intros H. destruct (wf_uname_parts n H) as (c & x & -> & Hc & _).
  destruct (uname_start_facts c Hc) as (Hnc & Hcs & Hbs). destruct (uname_char_facts c Hnc) as (Hs & _).
  rewrite utf8s_cons, <- app_assoc. destruct (N.lt_ge_cases c 128) as [L|L].
  - rewrite (utf8_ascii c L). cbn [app str_is_name_start]. replace (c <? 128) with true by lia. apply (Hbs L).
  - destruct (utf8_high c L) as (_ & b0 & r & E & Hb0). unfold str_is_name_start.
    rewrite utf8_enc, (U8.decode1_encode c _ Hs). rewrite <- utf8_enc, E. cbn [app].
    replace (b0 <? 128) with false by lia. exact Hcs.
Qed.

Lemma consume_qname_u name p l : WV p (utf8s name ++ l) -> CstU.wf_name name = true -> name_stop l ->
  consume_qname text (st p (utf8s name ++ l)) = Ok (sl p p, sl p (p + blen (utf8s name)), st (p + blen (utf8s name)) l).
Proof.
  intros HW Hn Hl. unfold consume_qname. cbn [CstEntCLex.st s_pos s_rest].
  destruct (wf_uname_parts name Hn) as (c & x & E & Hc & Hx).
  fold (st p (utf8s name ++ l)).
  rewrite (qname_loop_u p name p l); [|exact HW|rewrite E; exact Hx|exact Hl|].
  2:{ rewrite !app_length. pose proof (utf8s_len_le name). lia. }
  cbn [bind]. unfold slice_back. cbn [CstEntCLex.st s_pos].
  assert (Hv : U8.Valid (utf8s name)) by (apply Valid_utf8s; apply uname_scalars; rewrite E; exact Hx).
  rewrite (mk_slice_v p (utf8s name) l HW Hv). cbn [bind]. rewrite (mk_slice_empty p _ HW). cbn [bind].
  unfold slice_len. cbn [sl sl_start sl_end]. rewrite N.sub_diag. change (0 =? 0) with true. cbn [negb andb].
  fold (sl p (p + blen (utf8s name))). rewrite (W_slice _ _ _ _ (WV_W _ _ HW)).
  rewrite <- (app_nil_r (utf8s name)), (str_is_name_start_u name [] Hn). reflexivity.
Qed.

Lemma skip_name_loop_u : forall x p l fuel, WV p (utf8s x ++ l) ->
  forallb CstU.is_name_char x = true -> name_stop l -> (length x < fuel)%nat ->
  skip_name_loop fuel (st p (utf8s x ++ l)) = Ok (st (p + blen (utf8s x)) l).
Proof.
  induction x as [|c x IH]; intros p l fuel HW Hx Hl Hf.
  - cbn [CstU.utf8s flat_map app] in *. rewrite blen_nil, N.add_0_r. destruct fuel as [|fu]; [cbn in Hf; lia|].
    cbn [skip_name_loop]. destruct l as [|c l].
    + rewrite next_char_end by wv HW. reflexivity.
    + destruct Hl as (H1 & H2 & H3). rewrite next_char_a by assumption. cbn [bind].
      rewrite char_is_name_ascii by exact H1. rewrite H3. reflexivity.
  - destruct fuel as [|fu]; [cbn in Hf; lia|]. cbn [length] in Hf.
    cbn [forallb] in Hx. apply andb_true_iff in Hx. destruct Hx as [Hc Hx].
    destruct (uname_char_facts _ Hc) as (Hs & Hn & H58 & Hb).
    rewrite utf8s_cons, <- app_assoc in *.
    assert (HW' : WV (p + blen (utf8 c)) (utf8s x ++ l)).
    { apply (WV_app _ _ _ HW). rewrite utf8_enc. apply U8.Valid_encode. exact Hs. }
    cbn [skip_name_loop]. rewrite next_char_v by assumption. cbn [bind]. rewrite Hn.
    rewrite advance_v by exact HW. cbn [bind].
    rewrite IH; [|exact HW'|exact Hx|exact Hl|lia]. rewrite blen_app, N.add_assoc. reflexivity.
Qed.

Lemma consume_name_u name p l : WV p (utf8s name ++ l) -> CstU.wf_name name = true -> name_stop l ->
  consume_name text (st p (utf8s name ++ l)) = Ok (sl p (p + blen (utf8s name)), st (p + blen (utf8s name)) l).
Proof.
  intros HW Hn Hl. unfold consume_name, skip_name. cbn [CstEntCLex.st s_pos].
  destruct (wf_uname_parts name Hn) as (c & x & E & Hc & Hx). subst name.
  assert (Hv : U8.Valid (utf8s (c :: x))) by (apply Valid_utf8s; apply uname_scalars; exact Hx).
  cbn [forallb] in Hx. apply andb_true_iff in Hx. destruct Hx as [Hc' Hx].
  destruct (uname_start_facts c Hc) as (_ & Hcs & _). destruct (uname_char_facts c Hc') as (Hs & _).
  rewrite utf8s_cons, <- app_assoc in *.
  fold (st p (utf8 c ++ utf8s x ++ l)). rewrite next_char_v by assumption. cbn [bind]. rewrite Hcs.
  rewrite advance_v by exact HW. cbn [bind].
  assert (HW' : WV (p + blen (utf8 c)) (utf8s x ++ l)).
  { apply (WV_app _ _ _ HW). rewrite utf8_enc. apply U8.Valid_encode. exact Hs. }
  rewrite skip_name_loop_u; [|exact HW'|exact Hx|exact Hl|].
  2:{ cbn [CstEntCLex.st s_rest]. rewrite !app_length. pose proof (utf8s_len_le x). lia. }
  cbn [bind]. unfold slice_back. cbn [CstEntCLex.st s_pos].
  rewrite <- N.add_assoc, <- blen_app.
  rewrite (mk_slice_v p (utf8 c ++ utf8s x) l); [|rewrite <- app_assoc; exact HW|rewrite <- utf8s_cons; exact Hv].
  cbn [bind]. unfold slice_len. cbn [sl sl_start sl_end].
  pose proof (utf8_len c) as Hlen.
  replace (p + blen (utf8 c ++ utf8s x) - p =? 0) with false by (rewrite blen_app; lia).
  reflexivity.
Qed.

Lemma skip_name_loop7 : forall x p l fuel, WV p (utf8s x ++ l) ->
  forallb Chars.xml_NameChar x = true -> name_stop l -> (length x < fuel)%nat ->
  skip_name_loop fuel (st p (utf8s x ++ l)) = Ok (st (p + blen (utf8s x)) l).
Proof.
  induction x as [|c x IH]; intros p l fuel HW Hx Hl Hf.
  - cbn [CstU.utf8s flat_map app] in *. rewrite blen_nil, N.add_0_r. destruct fuel as [|fu]; [cbn in Hf; lia|].
    cbn [skip_name_loop]. destruct l as [|c l].
    + rewrite next_char_end by wv HW. reflexivity.
    + destruct Hl as (H1 & H2 & H3). rewrite next_char_a by assumption. cbn [bind].
      rewrite char_is_name_ascii by exact H1. rewrite H3. reflexivity.
  - destruct fuel as [|fu]; [cbn in Hf; lia|]. cbn [length] in Hf.
    cbn [forallb] in Hx. apply andb_true_iff in Hx. destruct Hx as [Hc Hx].
    destruct (name7_char_facts _ Hc) as (Hs & Hn).
    rewrite utf8s_cons, <- app_assoc in *.
    assert (HW' : WV (p + blen (utf8 c)) (utf8s x ++ l)).
    { apply (WV_app _ _ _ HW). rewrite utf8_enc. apply U8.Valid_encode. exact Hs. }
    cbn [skip_name_loop]. rewrite next_char_v by assumption. cbn [bind]. rewrite Hn.
    rewrite advance_v by exact HW. cbn [bind].
    rewrite IH; [|exact HW'|exact Hx|exact Hl|lia]. rewrite blen_app, N.add_assoc. reflexivity.
Qed.

Lemma consume_name7 name p l : WV p (utf8s name ++ l) -> wf_name7 name = true -> name_stop l ->
  consume_name text (st p (utf8s name ++ l)) = Ok (sl p (p + blen (utf8s name)), st (p + blen (utf8s name)) l).
Proof.
  intros HW Hn Hl. unfold consume_name, skip_name. cbn [CstEntCLex.st s_pos].
  destruct (wf_name7_parts name Hn) as (c & x & E & Hc & Hx). subst name.
  assert (Hv : U8.Valid (utf8s (c :: x))) by (apply Valid_utf8s; apply name7_scalars; exact Hx).
  cbn [forallb] in Hx. apply andb_true_iff in Hx. destruct Hx as [Hc' Hx].
  destruct (name7_start_facts c Hc) as (_ & Hcs). destruct (name7_char_facts c Hc') as (Hs & _).
  rewrite utf8s_cons, <- app_assoc in *.
  fold (st p (utf8 c ++ utf8s x ++ l)). rewrite next_char_v by assumption. cbn [bind]. rewrite Hcs.
  rewrite advance_v by exact HW. cbn [bind].
  assert (HW' : WV (p + blen (utf8 c)) (utf8s x ++ l)).
  { apply (WV_app _ _ _ HW). rewrite utf8_enc. apply U8.Valid_encode. exact Hs. }
  rewrite skip_name_loop7; [|exact HW'|exact Hx|exact Hl|].
  2:{ cbn [CstEntCLex.st s_rest]. rewrite !app_length. pose proof (utf8s_len_le x). lia. }
  cbn [bind]. unfold slice_back. cbn [CstEntCLex.st s_pos].
  rewrite <- N.add_assoc, <- blen_app.
  rewrite (mk_slice_v p (utf8 c ++ utf8s x) l); [|rewrite <- app_assoc; exact HW|rewrite <- utf8s_cons; exact Hv].
  cbn [bind]. unfold slice_len. cbn [sl sl_start sl_end].
  pose proof (utf8_len c) as Hlen.
  replace (p + blen (utf8 c ++ utf8s x) - p =? 0) with false by (rewrite blen_app; lia).
  reflexivity.
Qed.



Lemma skip_name7 name p l : WV p (utf8s name ++ l) -> wf_name7 name = true -> name_stop l ->
  skip_name text (st p (utf8s name ++ l)) = Ok (st (p + blen (utf8s name)) l).
Proof.
  intros HW Hn Hl. unfold skip_name. cbn [CstEntCLex.st s_pos].
  destruct (wf_name7_parts name Hn) as (c & x & E & Hc & Hx). subst name.
  cbn [forallb] in Hx. apply andb_true_iff in Hx. destruct Hx as [Hc' Hx].
  destruct (name7_start_facts c Hc) as (_ & Hcs). destruct (name7_char_facts c Hc') as (Hs & _).
  rewrite utf8s_cons, <- app_assoc in *.
  fold (st p (utf8 c ++ utf8s x ++ l)). rewrite next_char_v by assumption. cbn [bind]. rewrite Hcs.
  rewrite advance_v by exact HW. cbn [bind].
  assert (HW' : WV (p + blen (utf8 c)) (utf8s x ++ l)).
  { apply (WV_app _ _ _ HW). rewrite utf8_enc. apply U8.Valid_encode. exact Hs. }
  rewrite skip_name_loop7; [|exact HW'|exact Hx|exact Hl|].
  2:{ cbn [CstEntCLex.st s_rest]. rewrite !app_length. pose proof (utf8s_len_le x). lia. }
  rewrite blen_app, N.add_assoc. reflexivity.
Qed.

Lemma is_xml_str_u p cs l vstart : W p (utf8s cs ++ l) ->
  Forall (fun c => is_scalar c = true /\ char_is_char c = true) cs ->
  is_xml_str text (sl p (p + blen (utf8s cs))) vstart = Ok tt.
Proof. intros [HW _] F. rewrite <- app_assoc in HW. apply (CstULex.is_xml_str_u text p cs _ vstart HW F). Qed.

(* ------------------------------------------------------------------------------------------ *)
(* the productions                                                                            *)
(* ------------------------------------------------------------------------------------------ *)
Variable C : Type.
Variable ev : token -> C -> res C.

(* ---- comments ---- *)
Definition comment_ok_u (bs : list N) : Prop :=
  forallb Chars.xml_Char bs = true /\ contains_b [45; 45] bs = false /\ ends_with_byte 45 bs = false.

Lemma comment_walk_u : forall bs p post, comment_ok_u bs ->
  walk_u comment_f p bs ([45; 45; 62] ++ post).
Proof.
  induction bs as [|c r IH]; intros p post (H1 & H2 & H3); cbn [walk_u]; [exact I|].
  cbn [forallb] in H1. apply andb_true_iff in H1. destruct H1 as [Hc H1].
  destruct (CstTextLex.xml_Char_model _ Hc) as (Hs & K & _).
  cbn [contains_b] in H2. apply orb_false_iff in H2. destruct H2 as [H2 H2'].
  rewrite ends_with_cons in H3.
  split; [exact Hs|]. split; [exact K|]. split.
  - unfold comment_f. destruct (c =? 45) eqn:E; [|reflexivity]. cbn [andb]. apply N.eqb_eq in E. subst c.
    unfold starts_with, avail. cbn [CstEntCLex.st s_rest s_pos s_end]. rewrite utf8s_cons, (utf8_ascii 45) by lia.
    destruct r as [|y r]; [discriminate|].
    cbn [prefix_b] in H2. rewrite N.eqb_refl in H2. cbn [andb] in H2.
    assert (Hy : y <> 45) by (destruct (45 =? y) eqn:Ey; [discriminate|lia]).
    rewrite utf8s_cons, <- !app_assoc. destruct (head_byte_ne y 45 (utf8s r ++ [45; 45; 62] ++ post ++ tl) ltac:(lia) Hy) as (b0 & t & Eb & Hb).
    rewrite Eb. cbn [app].
    destruct (N.to_nat (en - p)) as [|[|k]]; cbn [firstn prefix_b];
      try reflexivity. rewrite N.eqb_refl. replace (45 =? b0) with false by lia. reflexivity.
  - apply IH. split; [exact H1|]. split; [exact H2'|]. destruct r; [reflexivity|exact H3].
Qed.

Lemma lex_comment_u p bs post c : WV p ([60; 33; 45; 45] ++ utf8s bs ++ [45; 45; 62] ++ post) -> comment_ok_u bs ->
  parse_comment text C ev (st p ([60; 33; 45; 45] ++ utf8s bs ++ [45; 45; 62] ++ post)) c =
  let! c' := ev (TComment (sl (p + 4) (p + 4 + blen (utf8s bs))) (p, p + 4 + blen (utf8s bs) + 3)) c in
  Ok (st (p + 4 + blen (utf8s bs) + 3) post, c').
Proof.
  intros HW Hok. pose proof (WV_W _ _ HW) as HW0. unfold parse_comment. cbv zeta.
  rewrite (advance_st 4 p [60; 33; 45; 45]) by (try reflexivity; exact HW0). cbn [bind].
  pose proof (WV_lit _ _ _ HW eq_refl) as HW1. change (blen [60; 33; 45; 45]) with 4 in HW1.
  change (b "-->") with [45; 45; 62]. change (b "--") with [45; 45].
  change (fun (s : stream) (ch : N) => negb ((ch =? 45) && starts_with s [45; 45; 62])) with comment_f.
  rewrite consume_chars_v; [|exact HW1|apply comment_walk_u; assumption|].
  2:{ cbn [stop_u app]. split; [lia|]. split; [reflexivity|]. unfold comment_f.
      assert (Hv : U8.Valid (utf8s bs)).
      { apply Valid_utf8s. apply chars_scalars. apply uchars_of. apply Hok. }
      rewrite starts_with_st by (apply (W_app _ _ _ _ (WV_W _ _ HW1))). reflexivity. }
  cbn [bind]. pose proof (W_app _ _ _ _ (WV_W _ _ HW1)) as HW2.
  rewrite skip_string_st by exact HW2. cbn [bind].
  rewrite (W_slice _ _ _ _ (WV_W _ _ HW1)). destruct Hok as (_ & H2 & H3).
  rewrite (contains_utf8 [45; 45]) by (try discriminate; reflexivity). rewrite H2.
  rewrite ends_utf8 by lia. rewrite H3.
  cbn [CstEntCLex.st s_pos]. change (blen [45; 45; 62]) with 3. reflexivity.
Qed.

(* ---- text ---- *)
Definition text_ok_u (bs : list N) : Prop :=
  forallb (fun x => CstU.is_char x && negb (x =? 60) && negb (x =? 38)) bs = true /\
  contains_b [93; 93; 62] bs = false.

Lemma text_walk_u : forall bs p post,
  forallb (fun x => CstU.is_char x && negb (x =? 60) && negb (x =? 38)) bs = true ->
  walk_u text_f p bs post.
Proof.
  induction bs as [|c r IH]; intros p post H; cbn [walk_u]; [exact I|].
  cbn [forallb] in H. apply andb_true_iff in H. destruct H as [Hc H].
  apply andb_true_iff in Hc. destruct Hc as [Hc H38]. apply andb_true_iff in Hc. destruct Hc as [Hc H60].
  destruct (uchar_facts _ Hc) as (Hs & K & _).
  split; [exact Hs|]. split; [exact K|]. split; [exact H60|]. apply IH. exact H.
Qed.

Lemma lex_text_u p bs post c : WV p (utf8s bs ++ post) -> text_ok_u bs -> text_stop post ->
  parse_text text C ev (st p (utf8s bs ++ post)) c =
  let! c' := ev (TText (sl p (p + blen (utf8s bs))) (p, p + blen (utf8s bs))) c in Ok (st (p + blen (utf8s bs)) post, c').
Proof.
  intros HW [H1 H2] Hs. unfold parse_text. cbv zeta.
  change (fun (_ : stream) (ch : N) => negb (ch =? 60)) with text_f.
  rewrite consume_chars_v; [|exact HW|apply text_walk_u; exact H1|].
  2:{ destruct post as [|x post]; cbn [stop_u]; [exact I|]. cbn [text_stop] in Hs. subst x.
      split; [lia|]. split; reflexivity. }
  cbn [bind]. rewrite (W_slice _ _ _ _ (WV_W _ _ HW)). change (b "]]>") with [93; 93; 62].
  rewrite (contains_utf8 [93; 93; 62]) by (try discriminate; reflexivity). rewrite H2, andb_false_r.
  reflexivity.
Qed.


(* ---- processing instructions ---- *)
Lemma pi_walk_u : forall v p post,
  forallb Chars.xml_Char v = true -> contains_b [63; 62] v = false ->
  walk_u pi_f p v ([63; 62] ++ post).
Proof.
  induction v as [|c r IH]; intros p post H1 H2; cbn [walk_u]; [exact I|].
  cbn [forallb] in H1. apply andb_true_iff in H1. destruct H1 as [Hc H1].
  destruct (CstTextLex.xml_Char_model _ Hc) as (Hs & K & _).
  cbn [contains_b] in H2. apply orb_false_iff in H2. destruct H2 as [H2 H2'].
  split; [exact Hs|]. split; [exact K|]. split.
  - unfold pi_f. destruct (c =? 63) eqn:E; [|reflexivity]. cbn [andb]. apply N.eqb_eq in E. subst c.
    unfold starts_with, avail. cbn [CstEntCLex.st s_rest]. rewrite utf8s_cons, (utf8_ascii 63) by lia.
    destruct r as [|y r].
    + cbn [CstU.utf8s flat_map app].
      match goal with |- context [firstn ?n _] => destruct n as [|[|k]] end; cbn [firstn prefix_b app]; reflexivity.
    + cbn [prefix_b] in H2. rewrite N.eqb_refl in H2. cbn [andb] in H2.
      assert (Hy : y <> 62) by (destruct (62 =? y) eqn:Ey; [discriminate|lia]).
      rewrite utf8s_cons, <- !app_assoc.
      destruct (head_byte_ne y 62 (utf8s r ++ [63; 62] ++ post ++ tl) ltac:(lia) Hy) as (b0 & t & Eb & Hb).
      rewrite Eb. cbn [app].
      match goal with |- context [firstn ?n _] => destruct n as [|[|k]] end; cbn [firstn prefix_b];
        try reflexivity. rewrite N.eqb_refl. replace (62 =? b0) with false by lia. reflexivity.
  - apply IH; [exact H1|exact H2'].
Qed.

Definition pi_ok_u (target : list N) (sep : bytes) (value : list N) : Prop :=
  wf_name7 target = true /\ wf_s sep = true /\ forallb Chars.xml_Char value = true /\
  contains_b [63; 62] value = false /\ Cst.prefix_is_xml target = false /\
  match value with
  | [] => True
  | x :: _ => Chars.xml_S x = false /\ sep <> []
  end.

Lemma uchar_space_s x : Chars.xml_Char x = true -> Chars.xml_S x = false -> forall l,
  stops byte_is_space (utf8 x ++ l).
Proof.
  intros Hc Hw l.  destruct (N.lt_ge_cases x 128) as [L|L].
  - rewrite (utf8_ascii x L). cbn [app stops]. revert Hw. cls5. lia.
  - destruct (utf8_high x L) as (_ & b0 & r & E & Hb). rewrite E. cbn [app stops]. cls5. lia.
Qed.

Lemma pi_after_target_u target sep value post : pi_ok_u target sep value ->
  name_stop (sep ++ utf8s value ++ [63; 62] ++ post) /\ stops byte_is_space (utf8s value ++ [63; 62] ++ post).
Proof.
  intros (_ & Hs & Hv & _ & _ & Hx). split.
  - destruct sep as [|s sep].
    + destruct value as [|x v]; [|destruct Hx as [_ Hx]; congruence].
      cbn [app name_stop CstU.utf8s flat_map]. apply not_name_byte_lit. auto.
    + cbn [app name_stop]. cbn [wf_s forallb] in Hs. apply andb_true_iff in Hs.
      apply s_not_name_byte. apply Hs.
  - destruct value as [|x v]; [reflexivity|]. rewrite utf8s_cons, <- app_assoc.
    cbn [forallb] in Hv. apply andb_true_iff in Hv. destruct Hv as [Hp _]. destruct Hx as [Hx _].
    apply uchar_space_s; assumption.
Qed.

(* "<?xml " cannot be a prefix of the rendering of a PI whose target is not xml *)
Lemma not_xml_gen_u x target rest : wf_name7 target = true -> Cst.prefix_is_xml target = false ->
  name_stop rest -> Chars.xml_NameChar x = false -> x < 128 ->
  prefix_b [120; 109; 108; x] (utf8s target ++ rest) = false.
Proof.
  intros Hn Hx Hr Hxn Hx128. destruct (wf_name7_parts target Hn) as (c0 & x0 & E0 & _ & Hall). clear Hn.
  assert (G : forall pre cs, forallb (fun x => x <? 128) pre = true -> forallb Chars.xml_NameChar cs = true ->
              prefix_b pre (utf8s cs ++ rest) = true ->
              (exists cs2, cs = pre ++ cs2) \/
              (exists pre2, pre = cs ++ pre2 /\ pre2 <> [] /\ prefix_b pre2 rest = true)).
  { induction pre as [|a pre IH]; intros cs Hp Hc Hpre; [left; exists cs; reflexivity|].
    cbn [forallb] in Hp. apply andb_true_iff in Hp. destruct Hp as [Ha Hp].
    destruct cs as [|c cs].
    - right. exists (a :: pre). split; [reflexivity|]. split; [discriminate|exact Hpre].
    - cbn [forallb] in Hc. apply andb_true_iff in Hc. destruct Hc as [Hc1 Hc].
      rewrite utf8s_cons, <- app_assoc in Hpre. destruct (N.lt_ge_cases c 128) as [L|L].
      + rewrite (utf8_ascii c L) in Hpre. cbn [app prefix_b] in Hpre. apply andb_true_iff in Hpre.
        destruct Hpre as [Hac Hpre]. apply N.eqb_eq in Hac. subst c.
        destruct (IH cs Hp Hc Hpre) as [(cs2 & ->)|(pre2 & -> & Hne & Hp2)].
        * left. exists cs2. reflexivity.
        * right. exists pre2. auto.
      + destruct (utf8_high c L) as (_ & b0 & r & E & Hb). rewrite E in Hpre. cbn [app prefix_b] in Hpre.
        replace (a =? b0) with false in Hpre by lia. discriminate. }
  destruct (prefix_b [120; 109; 108; x] (utf8s target ++ rest)) eqn:E; [|reflexivity]. exfalso.
  assert (Hpre : forallb (fun y => y <? 128) [120; 109; 108; x] = true) by (cbn; replace (x <? 128) with true by lia; reflexivity).
  rewrite E0 in *. destruct (G [120; 109; 108; x] (c0 :: x0) Hpre Hall E) as [(cs2 & Ec)|(pre2 & Ec & Hne & Hp2)].
  - (* the blank would be a name character *)
    rewrite Ec in Hall. cbn [app forallb] in Hall. rewrite !andb_true_iff in Hall.
    destruct Hall as (_ & _ & _ & H32 & _). congruence.
  - (* the target is a proper prefix of "xml ", followed by a byte of "xml " *)
    destruct x0 as [|c1 [|c2 [|c3 x3]]]; cbn [app] in Ec.
    + injection Ec as Ea Eb; subst c0 pre2. destruct rest as [|r0 rest]; [discriminate|]. cbn [prefix_b] in Hp2.
      apply andb_true_iff in Hp2. destruct Hp2 as [Hr0 _]. apply N.eqb_eq in Hr0. subst r0.
      destruct Hr as (_ & _ & Hr). vm_compute in Hr. discriminate.
    + injection Ec as Ea Eb Ed; subst c0 c1 pre2. destruct rest as [|r0 rest]; [discriminate|]. cbn [prefix_b] in Hp2.
      apply andb_true_iff in Hp2. destruct Hp2 as [Hr0 _]. apply N.eqb_eq in Hr0. subst r0.
      destruct Hr as (_ & _ & Hr). vm_compute in Hr. discriminate.
    + injection Ec as Ea Eb Ed Ee; subst c0 c1 c2 pre2. discriminate.
    + injection Ec as Ea Eb Ed Ee Ef. destruct x3; [|discriminate]. destruct pre2; [congruence|discriminate].
Qed.

Lemma not_xml_decl_u target rest : wf_name7 target = true -> Cst.prefix_is_xml target = false ->
  name_stop rest -> prefix_b [120; 109; 108; 32] (utf8s target ++ rest) = false.
Proof. intros Hn Hx Hr. apply not_xml_gen_u; [assumption..|reflexivity|lia]. Qed.


Lemma lex_pi_u p target sep value post c :
  WV p ([60; 63] ++ utf8s target ++ sep ++ utf8s value ++ [63; 62] ++ post) -> pi_ok_u target sep value ->
  let e := p + 2 + blen (utf8s target) + blen sep + blen (utf8s value) in
  parse_pi text C ev (st p ([60; 63] ++ utf8s target ++ sep ++ utf8s value ++ [63; 62] ++ post)) c =
  let! c' := ev (TPI (sl (p + 2) (p + 2 + blen (utf8s target)))
                     (match value with [] => None | _ => Some (sl (p + 2 + blen (utf8s target) + blen sep) e) end)
                     (p, e + 2)) c in
  Ok (st (e + 2) post, c').
Proof.
  intros HW Hok e. pose proof (pi_after_target_u _ _ _ post Hok) as [Hst1 Hst2].
  destruct Hok as (Hn & Hs & Hv & Hc & Hx & Hfirst).
  pose proof (WV_W _ _ HW) as HW0.
  unfold parse_pi. rewrite starts_with_st by exact HW0.
  change (b "<?xml ") with ([60; 63] ++ [120; 109; 108; 32]).
  assert (Hdecl : prefix_b ([60; 63] ++ [120; 109; 108; 32])
                    ([60; 63] ++ utf8s target ++ sep ++ utf8s value ++ [63; 62] ++ post) = false).
  { cbn [app prefix_b]. rewrite !N.eqb_refl. cbn [andb].
    apply (not_xml_decl_u target (sep ++ utf8s value ++ [63; 62] ++ post) Hn Hx Hst1). }
  rewrite Hdecl. cbv zeta.
  rewrite (advance_st 2 p [60; 63]) by (try reflexivity; exact HW0). cbn [bind].
  pose proof (WV_lit _ _ _ HW eq_refl) as HW1. change (blen [60; 63]) with 2 in HW1.
  rewrite consume_name7; [|exact HW1|exact Hn|exact Hst1]. cbn [bind].
  assert (Hvt : U8.Valid (utf8s target)).
  { destruct (wf_name7_parts target Hn) as (c0 & x0 & -> & _ & Hall). apply Valid_utf8s. apply name7_scalars. exact Hall. }
  pose proof (WV_app _ _ _ HW1 Hvt) as HW2. pose proof (WV_W _ _ HW2) as HW2'.
  change (b "?>") with [63; 62].
  assert (Hsp : (if starts_with (st (p + 2 + blen (utf8s target)) (sep ++ utf8s value ++ [63; 62] ++ post)) [63; 62]
                 then Ok (st (p + 2 + blen (utf8s target)) (sep ++ utf8s value ++ [63; 62] ++ post))
                 else consume_spaces text (st (p + 2 + blen (utf8s target)) (sep ++ utf8s value ++ [63; 62] ++ post)))
                = Ok (st (p + 2 + blen (utf8s target) + blen sep) (utf8s value ++ [63; 62] ++ post))).
  { rewrite starts_with_st by exact HW2'. destruct sep as [|w sep'].
    - destruct value as [|x v]; [|destruct Hfirst as [_ Hf]; congruence].
      cbn [app prefix_b CstU.utf8s flat_map]. rewrite blen_nil, N.add_0_r. reflexivity.
    - assert (Hw : Chars.xml_S w = true).
      { cbn [wf_s forallb] in Hs. apply andb_true_iff in Hs. apply Hs. }
      replace (prefix_b [63; 62] ((w :: sep') ++ utf8s value ++ [63; 62] ++ post)) with false.
      2:{ cbn [app prefix_b]. destruct (63 =? w) eqn:E63; [|reflexivity].
          apply N.eqb_eq in E63. subst w. discriminate. }
      unfold consume_spaces. cbn [app]. rewrite at_end_st by exact HW2'.
      unfold starts_with_space. rewrite curr_byte_opt_st by exact HW2'.
      rewrite (s_space _ Hw). cbn [negb].
      f_equal. apply (skip_spaces_st (p + 2 + blen (utf8s target)) (w :: sep') (utf8s value ++ [63; 62] ++ post));
        [exact HW2'|apply s_spaces; exact Hs|exact Hst2]. }
  rewrite Hsp. cbn [bind]. clear Hsp.
  pose proof (WV_lit _ _ _ HW2 (s_lit _ Hs)) as HW3.
  change (fun (s : stream) (ch : N) => negb ((ch =? 63) && starts_with s [63; 62])) with pi_f.
  rewrite consume_chars_v; [|exact HW3|apply pi_walk_u; assumption|].
  2:{ cbn [stop_u app]. split; [lia|]. split; [reflexivity|]. unfold pi_f.
      rewrite starts_with_st by (apply (W_app _ _ _ _ (WV_W _ _ HW3))). reflexivity. }
  cbn [bind]. pose proof (W_app _ _ _ _ (WV_W _ _ HW3)) as HW4.
  rewrite skip_string_st by exact HW4. cbn [bind]. cbn [CstEntCLex.st s_pos]. change (blen [63; 62]) with 2.
  unfold slice_len. cbn [sl sl_start sl_end]. fold e.
  replace (p + 2 + blen (utf8s target) + blen sep + blen (utf8s value)) with e by reflexivity.
  destruct value as [|x v].
  - cbn [CstU.utf8s flat_map] in *. rewrite blen_nil in *.
    replace (e - (p + 2 + blen (utf8s target) + blen sep) =? 0) with true by (unfold e; rewrite blen_nil; lia).
    reflexivity.
  - pose proof (utf8_len x) as Hl.
    replace (e - (p + 2 + blen (utf8s target) + blen sep) =? 0) with false
      by (unfold e; rewrite utf8s_cons, blen_app; lia).
    reflexivity.
Qed.




(* ---- character data and CDATA sections (Proofs/CstFullS2Lex.v) ---- *)
Notation n3 := CstTextLex.n3.
Lemma text_walk_g : forall cs p post, uchars cs -> forallb (fun x => negb (x =? 60)) cs = true ->
  walk_u text_f p cs post.
Proof.
  induction cs as [|c r IH]; intros p post Hu H; cbn [walk_u]; [exact I|].
  inversion Hu as [|? ? [Hs Hc] Hu']; subst. cbn [forallb] in H. apply andb_true_iff in H. destruct H as [H60 H].
  split; [exact Hs|]. split; [exact Hc|]. split; [exact H60|]. apply IH; assumption.
Qed.

(* a text token: UTF-8 of Chars other than '<', without "]]>" *)
Lemma lex_text_g p bs post c : WV p (bs ++ post) -> ustr bs ->
  forallb (fun y => negb (y =? 60)) bs = true -> contains_b n3 bs = false -> text_stop post ->
  parse_text text C ev (st p (bs ++ post)) c =
  let! c' := ev (TText (sl p (p + blen bs)) (p, p + blen bs)) c in Ok (st (p + blen bs) post, c').
Proof.
  intros HW (cs & -> & Hu) H1 H2 Hs. unfold parse_text. cbv zeta.
  change (fun (_ : stream) (ch : N) => negb (ch =? 60)) with text_f.
  rewrite (consume_chars_v); [|exact HW|apply text_walk_g; [exact Hu|apply no60_scalars; exact H1]|].
  2:{ destruct post as [|x post]; cbn [stop_u]; [exact I|]. cbn [text_stop] in Hs. subst x.
      split; [lia|]. split; reflexivity. }
  cbn [bind]. rewrite (W_slice _ _ _ _ (WV_W _ _ HW)). change (b "]]>") with n3. rewrite H2, andb_false_r.
  reflexivity.
Qed.

Lemma cdata_walk_u : forall cs p post, W p (utf8s cs ++ n3 ++ post) ->
  uchars cs -> contains_b n3 (utf8s cs) = false ->
  walk_u cdata_f p cs (n3 ++ post).
Proof.
  induction cs as [|c r IH]; intros p post HW Hu H2; cbn [walk_u]; [exact I|].
  inversion Hu as [|? ? [Hs Hc] Hu']; subst.
  split; [exact Hs|]. split; [exact Hc|]. rewrite utf8s_cons, <- app_assoc in *. split.
  - unfold cdata_f. rewrite (starts_with_st) by exact HW.
    destruct (c =? 93) eqn:E; [|reflexivity]. cbn [andb]. apply N.eqb_eq in E. subst c.
    rewrite (utf8_ascii 93) in * by lia. cbn [app] in *.
    cbn [contains_b] in H2. apply orb_false_iff in H2. destruct H2 as [H2 H2'].
    unfold n3, CstTextLex.n3 in *. destruct (utf8s r) as [|y [|z r']]; cbn [app prefix_b] in *.
    + reflexivity.
    + rewrite !N.eqb_refl. cbn [andb]. destruct (93 =? y); reflexivity.
    + rewrite H2. reflexivity.
  - assert (Hv : U8.Valid (utf8 c)) by (rewrite utf8_enc; apply U8.Valid_encode; exact Hs).
    apply IH; [apply (W_app _ _ _ _ HW)|exact Hu'|].
    destruct (contains_b n3 (utf8s r)) eqn:E; [|reflexivity].
    exfalso. clear - E H2. induction (utf8 c) as [|x l IHl]; cbn [app contains_b] in H2; [congruence|].
    apply orb_false_iff in H2. apply IHl. apply H2.
Qed.

Lemma lex_cdata_u p bs post c : WV p (T.cdata_open ++ bs ++ n3 ++ post) ->
  ustr bs -> contains_b n3 bs = false ->
  parse_cdata text C ev (st p (T.cdata_open ++ bs ++ n3 ++ post)) c =
  let! c' := ev (TCdata (sl (p + 9) (p + 9 + blen bs)) (p, p + 9 + blen bs + 3)) c in
  Ok (st (p + 9 + blen bs + 3) post, c').
Proof.
  intros HW (cs & -> & Hu) H2. pose proof (WV_W _ _ HW) as HW0. unfold parse_cdata. cbv zeta.
  rewrite (advance_st 9 p T.cdata_open) by (try reflexivity; exact HW0). cbn [bind].
  pose proof (WV_lit _ _ _ HW (eq_refl : forallb (fun y => y <? 128) T.cdata_open = true)) as HW1. change (blen T.cdata_open) with 9 in HW1.
  change (b "]]>") with n3.
  change (fun (s : stream) (ch : N) => negb ((ch =? 93) && starts_with s n3)) with cdata_f.
  rewrite (consume_chars_v); [|exact HW1|apply cdata_walk_u; [apply (WV_W _ _ HW1)|exact Hu|exact H2]|].
  2:{ cbn [stop_u app n3 CstTextLex.n3]. split; [lia|]. split; [reflexivity|]. unfold cdata_f.
      rewrite (starts_with_st) by (apply (W_app _ _ _ _ (WV_W _ _ HW1))). reflexivity. }
  cbn [bind]. pose proof (W_app _ _ _ _ (WV_W _ _ HW1)) as HW2.
  rewrite (skip_string_st) by exact HW2. cbn [bind]. cbn [CstEntCLex.st s_pos].
  change (blen n3) with 3. reflexivity.
Qed.


(* ---- qualified names and start tags (Proofs/CstFullLex.v) ---- *)
Lemma lex_elem_end fuel ts q ws_end empty post c :
  W q (ws_end ++ tag_tail empty ++ post) -> wf_s ws_end = true ->
  parse_element_loop text C ev (S fuel) ts (st q (ws_end ++ tag_tail empty ++ post)) c =
  let! c' := ev (end_tok (q + blen ws_end) empty) c in
  Ok (negb empty, st (q + blen ws_end + blen (tag_tail empty)) post, c').
Proof.
  intros HW Hws. cbn [parse_element_loop]. rewrite at_end_st by exact HW.
  replace (match ws_end ++ tag_tail empty ++ post with [] => true | _ => false end) with false
    by (destruct ws_end, empty; reflexivity). cbv zeta.
  rewrite skip_spaces_st; [|exact HW|apply s_spaces; exact Hws|destruct empty; reflexivity].
  pose proof (W_app _ _ _ _ HW) as HW1. unfold end_tok. destruct empty; cbn [tag_tail app negb] in *.
  - rewrite curr_byte_st by exact HW1. cbn [bind]. change (47 =? 47) with true. cbv iota.
    rewrite advance1_st by exact HW1. cbn [bind].
    rewrite consume_byte_st by (apply (W_cons _ _ _ _ HW1)). cbn [bind CstEntCLex.st s_pos].
    change (blen [47; 62]) with 2. replace (q + blen ws_end + 1 + 1) with (q + blen ws_end + 2) by lia.
    reflexivity.
  - rewrite curr_byte_st by exact HW1. cbn [bind]. change (62 =? 47) with false. change (62 =? 62) with true. cbv iota.
    rewrite advance1_st by exact HW1. cbn [bind CstEntCLex.st s_pos]. change (blen [62]) with 1. reflexivity.
Qed.
Lemma qname_chars_u start spl : forall x p l fuel, WV p (utf8s x ++ l) ->
  forallb CstU.is_name_char x = true ->
  consume_qname_loop text (length x + fuel) start spl (st p (utf8s x ++ l)) =
  consume_qname_loop text fuel start spl (st (p + blen (utf8s x)) l).
Proof.
  induction x as [|c x IH]; intros p l fuel HW Hx.
  - cbn [CstU.utf8s flat_map app length Nat.add]. rewrite blen_nil, N.add_0_r. reflexivity.
  - cbn [length Nat.add].
    cbn [forallb] in Hx. apply andb_true_iff in Hx. destruct Hx as [Hc Hx].
    destruct (uname_char_facts _ Hc) as (Hs & Hn & H58 & Hb).
    rewrite utf8s_cons, <- app_assoc in *.
    assert (HW' : WV (p + blen (utf8 c)) (utf8s x ++ l)).
    { apply (WV_app _ _ _ HW). rewrite utf8_enc. apply U8.Valid_encode. exact Hs. }
    cbn [consume_qname_loop]. rewrite at_end_st by wv HW.
    pose proof (utf8_len c) as Hlen.
    replace (match utf8 c ++ utf8s x ++ l with [] => true | _ :: _ => false end) with false
      by (destruct (utf8 c); [unfold blen in Hlen; cbn in Hlen; lia|reflexivity]).
    destruct (N.lt_ge_cases c 128) as [L|L].
    + rewrite (utf8_ascii c L) in *. cbn [app] in *. cbn [curr_byte_unchecked CstEntCLex.st s_rest bind app].
      replace (c <? 128) with true by lia. replace (c =? 58) with false by lia. rewrite (Hb L).
      fold (st p (c :: utf8s x ++ l)). rewrite advance1_st by wv HW. cbn [bind].
      change (blen [c]) with 1 in HW'.
      rewrite IH; [|exact HW'|exact Hx]. rewrite blen_cons, N.add_assoc. reflexivity.
    + destruct (utf8_high c L) as (_ & b0 & r & E & Hb0).
      assert (Ecb : curr_byte_unchecked (st p (utf8 c ++ utf8s x ++ l)) = Ok b0).
      { rewrite E. reflexivity. }
      rewrite Ecb. cbn [bind]. replace (b0 <? 128) with false by lia.
      rewrite next_char_v by assumption. cbn [bind]. rewrite Hn.
      rewrite advance_v by exact HW. cbn [bind].
      rewrite IH; [|exact HW'|exact Hx]. rewrite blen_app, N.add_assoc. reflexivity.
Qed.

Lemma qname_stop_u start spl p l fuel : W p l -> name_stop l ->
  consume_qname_loop text (S fuel) start spl (st p l) = Ok (spl, st p l).
Proof.
  intros HW Hl. cbn [consume_qname_loop]. rewrite at_end_st by exact HW. destruct l as [|c l]; [reflexivity|].
  cbn [curr_byte_unchecked CstEntCLex.st s_rest bind app]. destruct Hl as (H1 & H2 & H3).
  replace (c <? 128) with true by lia. replace (c =? 58) with false by lia. rewrite H3. reflexivity.
Qed.

Lemma qname_colon_u start p l fuel : W p (58 :: l) ->
  consume_qname_loop text (S fuel) start None (st p (58 :: l)) =
  consume_qname_loop text fuel start (Some p) (st (p + 1) l).
Proof.
  intros HW. cbn [consume_qname_loop]. rewrite at_end_st by exact HW.
  cbn [curr_byte_unchecked CstEntCLex.st s_rest bind app]. change (58 <? 128) with true. change (58 =? 58) with true.
  cbv iota. fold (st p (58 :: l)). rewrite advance1_st by exact HW. reflexivity.
Qed.

Lemma name_start_str n : CstU.wf_name n = true -> str_is_name_start (utf8s n) = true.
Proof. intros H. rewrite <- (app_nil_r (utf8s n)). apply str_is_name_start_u. exact H. Qed.

(* consume_qname on a rendered qualified name *)
Lemma consume_qname_full q p l : WV p (CstNs.r_qname q ++ l) -> uq_ok q -> name_stop l ->
  consume_qname text (st p (CstNs.r_qname q ++ l)) =
  Ok (sl p (p + blen (CstNs.q_prefix q)), sl (p + q_off q) (p + blen (CstNs.r_qname q)), st (p + blen (CstNs.r_qname q)) l).
Proof.
  intros HW (pre & loc & -> & Hp & Hloc) Hl.
  destruct (wf_uname_parts _ Hloc) as (c & x & El & Hc & Hx).
  pose proof (r_qname_len (xq pre loc)) as Hlen.
  unfold consume_qname. cbn [CstEntCLex.st s_pos s_rest].
  fold (st p (CstNs.r_qname (xq pre loc) ++ l)).
  unfold CstNs.r_qname, q_off, xq in *. cbn [CstNs.q_prefix CstNs.q_local] in *.
  destruct Hp as [-> |Hp].
  - (* unprefixed *)
    cbn [CstU.utf8s flat_map] in *.
    assert (EF : exists F, S (length ((utf8s loc ++ l) ++ tl)) = (length loc + S F)%nat).
    { rewrite !app_length. pose proof (utf8s_len_le loc). exists (length (utf8s loc) + length l + length tl - length loc)%nat. lia. }
    destruct EF as [F EF]. rewrite EF. clear EF.
    rewrite qname_chars_u; [|exact HW|rewrite El; exact Hx].
    pose proof (WV_app _ _ _ HW (uname_valid _ Hloc)) as HW1.
    rewrite qname_stop_u by (try exact Hl; wv HW1). cbn [bind]. unfold slice_back. cbn [CstEntCLex.st s_pos].
    rewrite (mk_slice_v p (utf8s loc) l HW (uname_valid _ Hloc)). cbn [bind].
    rewrite (mk_slice_empty p _ HW). cbn [bind].
    unfold slice_len. cbn [sl sl_start sl_end]. rewrite N.sub_diag. change (0 =? 0) with true. cbn [negb andb].
    fold (sl p (p + blen (utf8s loc))). rewrite (W_slice _ _ _ _ (WV_W _ _ HW)).
    rewrite (name_start_str _ Hloc). cbn [negb].
    change (blen []) with 0. rewrite !N.add_0_r. reflexivity.
  - (* prefix : local *)
    destruct (wf_uname_parts _ Hp) as (c0 & x0 & Ep0 & Hc0 & Hx0).
    destruct (uname_ne _ Hp) as (pb & pr & Epb). rewrite Epb in *. rewrite <- Epb in *.
    rewrite <- !app_assoc in HW. rewrite <- !app_assoc.
    assert (EF : exists F, S (length (utf8s pre ++ [58] ++ utf8s loc ++ l ++ tl)) = (length pre + S (length loc + S F))%nat).
    { rewrite !app_length. cbn [length]. pose proof (utf8s_len_le pre). pose proof (utf8s_len_le loc).
      exists (length (utf8s pre) + length (utf8s loc) + length l + length tl - length pre - length loc)%nat. lia. }
    destruct EF as [F EF]. rewrite EF. clear EF.
    rewrite qname_chars_u; [|exact HW|rewrite Ep0; exact Hx0].
    pose proof (WV_app _ _ _ HW (uname_valid _ Hp)) as HW1.
    cbn [app] in HW1 |- *. rewrite qname_colon_u by wv HW1.
    pose proof (WV_cons _ _ _ HW1 ltac:(lia)) as HW2.
    rewrite qname_chars_u; [|exact HW2|rewrite El; exact Hx].
    pose proof (WV_app _ _ _ HW2 (uname_valid _ Hloc)) as HW3.
    rewrite qname_stop_u by (try exact Hl; wv HW3). cbn [bind]. unfold slice_back. cbn [CstEntCLex.st s_pos].
    rewrite (mk_slice_v p (utf8s pre) _ HW (uname_valid _ Hp)). cbn [bind].
    rewrite (mk_slice_v (p + blen (utf8s pre) + 1) (utf8s loc) l HW2 (uname_valid _ Hloc)). cbn [bind].
    unfold slice_len. cbn [sl sl_start sl_end].
    replace (p + blen (utf8s pre) - p =? 0) with false by (rewrite Epb, blen_cons; lia). cbn [negb andb].
    fold (sl p (p + blen (utf8s pre))).
    rewrite (W_slice _ _ (utf8s pre) _ (WV_W _ _ HW)).
    rewrite (name_start_str _ Hp). cbn [negb].
    fold (sl (p + blen (utf8s pre) + 1) (p + blen (utf8s pre) + 1 + blen (utf8s loc))).
    rewrite (W_slice _ _ _ _ (WV_W _ _ HW2)).
    rewrite (name_start_str _ Hloc). cbn [negb].
    rewrite !blen_app. cbn [app]. rewrite ?blen_cons. change (blen [58]) with 1.
    replace (p + (blen (utf8s pre) + (1 + blen (utf8s loc)))) with (p + blen (utf8s pre) + 1 + blen (utf8s loc)) by lia.
    replace (p + (blen (utf8s pre) + 1)) with (p + blen (utf8s pre) + 1) by lia. reflexivity.
Qed.

(* ---- start-tag entries ---- *)

Lemma uentry_parts e : uentry_ok_s e ->
  CstNs.l_ws (CstNs.e_layout e) <> [] /\ wf_s (CstNs.l_ws (CstNs.e_layout e)) = true /\
  wf_s (CstNs.l_ws1 (CstNs.e_layout e)) = true /\ wf_s (CstNs.l_ws2 (CstNs.e_layout e)) = true /\
  (CstNs.l_quote (CstNs.e_layout e) = 39 \/ CstNs.l_quote (CstNs.e_layout e) = 34) /\
  uval_ok (CstNs.l_quote (CstNs.e_layout e)) (CstNs.e_value e) /\ uq_ok (e_qname e).
Proof.
  intros (H & Hq & Hv). unfold wf_layout_s in H. rewrite !andb_true_iff in H. destruct H as [[[H1 H2] H3] H4].
  repeat split; try assumption.
  - unfold wf_s1 in H1. destruct (CstNs.l_ws (CstNs.e_layout e)); [discriminate|discriminate].
  - unfold wf_s1 in H1. unfold wf_s. destruct (CstNs.l_ws (CstNs.e_layout e)); [reflexivity|exact H1].
  - apply is_quote_cases. exact H4.
Qed.

Lemma uentry_valid e : uentry_ok_s e -> U8.Valid (CstNs.r_entry e).
Proof.
  intros H. destruct (uentry_parts e H) as (_ & Hw & Hw1 & Hw2 & Hq & (cs & Ev & Hcs & _) & Hn).
  unfold CstNs.r_entry. cbv zeta. rewrite e_name_qname.
  repeat apply U8.Valid_app; try (apply Valid_lit; apply s_lit; assumption).
  - apply uq_valid; exact Hn.
  - apply Valid_lit. reflexivity.
  - apply Valid_lit. cbn. destruct Hq as [-> | ->]; reflexivity.
  - rewrite Ev. apply Valid_utf8s. apply chars_scalars. exact Hcs.
  - apply Valid_lit. cbn. destruct Hq as [-> | ->]; reflexivity.
Qed.

Lemma lex_entry_full fuel ts q e more c : WV q (CstNs.r_entry e ++ more) -> uentry_ok_s e ->
  parse_element_loop text C ev (S fuel) ts (st q (CstNs.r_entry e ++ more)) c =
  let! c' := ev (entry_tok q e) c in
  parse_element_loop text C ev fuel ts (st (q + blen (CstNs.r_entry e)) more) c'.
Proof.
  intros HW Hwf. destruct (uentry_parts _ Hwf) as (Hne & Hws & Hw1 & Hw2 & Hq & Hv & Hn).
  unfold entry_tok. cbv zeta.
  assert (Elen : q + blen (CstNs.r_entry e) = q + blen (CstNs.l_ws (CstNs.e_layout e)) + blen (CstNs.r_qname (e_qname e))
                  + blen (CstNs.l_ws1 (CstNs.e_layout e)) + 1 + blen (CstNs.l_ws2 (CstNs.e_layout e)) + 1 + blen (CstNs.e_value e) + 1).
  { clear. unfold CstNs.r_entry. cbv zeta. rewrite e_name_qname, !blen_app, !blen_cons, blen_nil. lia. }
  rewrite Elen. clear Elen.
  unfold CstNs.r_entry in *. cbv zeta in *. rewrite e_name_qname in *. rewrite <- !app_assoc in *. cbn [app] in *.
  set (qn := e_qname e) in *. clearbody qn.
  destruct (CstNs.e_layout e) as [ws ws1 ws2 quote]. set (value := CstNs.e_value e) in *. clearbody value.
  cbn [CstNs.l_ws CstNs.l_ws1 CstNs.l_ws2 CstNs.l_quote] in *. clear Hwf.
  destruct Hv as (cs & -> & Hv2 & Hv1).
  assert (Hqq : (quote =? 39) || (quote =? 34) = true) by (clear - Hq; lia).
  assert (Hqsp : byte_is_space quote = false) by (clear - Hq; destruct Hq as [-> | ->]; reflexivity).
  assert (Hq128 : quote < 128) by (clear - Hq; lia). clear Hq.
  destruct ws as [|w ws]; [congruence|]. clear Hne.
  destruct (uq_head _ Hn) as (n & nr & En & Hnsp & Hn47 & Hn62 & _).
  apply N.eqb_neq in Hn47, Hn62.
  assert (Hwsp : byte_is_space w = true).
  { cbn [wf_s forallb] in Hws. apply andb_true_iff in Hws. apply s_space. apply Hws. }
  pose proof (WV_W _ _ HW) as HW0.
  cbn [parse_element_loop]. rewrite at_end_st by exact HW0. cbn [app].
  unfold starts_with_space. rewrite curr_byte_opt_st by exact HW0.
  rewrite Hwsp. cbv zeta.
  change (w :: ws ++ ?l) with ((w :: ws) ++ l) in HW, HW0 |- *.
  rewrite skip_spaces_st; [|exact HW0|apply s_spaces; exact Hws|rewrite En; cbn [app stops]; exact Hnsp].
  pose proof (WV_lit _ _ _ HW (s_lit _ Hws)) as HW1. pose proof (WV_W _ _ HW1) as HW1'. cbn [CstEntCLex.st s_pos].
  assert (Ecb : curr_byte (st (q + blen (w :: ws)) (CstNs.r_qname qn ++ ws1 ++ 61 :: ws2 ++ quote :: utf8s cs ++ quote :: more)) = Ok n).
  { revert HW1'. rewrite En. cbn [app]. intros HW1'. apply curr_byte_st. exact HW1'. }
  rewrite Ecb. cbn [bind]. rewrite Hn47, Hn62. clear Ecb En.
  rewrite consume_qname_full; [|exact HW1|exact Hn|].
  2:{ apply s_stop_name; [exact Hw1|]. cbn [name_stop]. apply not_name_byte_lit. auto. }
  cbn [bind].
  pose proof (WV_app _ _ _ HW1 (uq_valid _ Hn)) as HW2. pose proof (WV_W _ _ HW2) as HW2'.
  unfold consume_eq.
  rewrite skip_spaces_st; [|exact HW2'|apply s_spaces; exact Hw1|reflexivity].
  pose proof (WV_lit _ _ _ HW2 (s_lit _ Hw1)) as HW3.
  rewrite consume_byte_st by (apply (WV_W _ _ HW3)). cbn [bind].
  pose proof (WV_cons _ _ _ HW3 ltac:(lia)) as HW4.
  rewrite skip_spaces_st; [|apply (WV_W _ _ HW4)|apply s_spaces; exact Hw2|cbn [stops]; exact Hqsp].
  pose proof (WV_lit _ _ _ HW4 (s_lit _ Hw2)) as HW5. cbn [CstEntCLex.st s_pos].
  unfold consume_quote. rewrite curr_byte_st by (apply (WV_W _ _ HW5)). cbn [bind].
  rewrite Hqq.
  rewrite advance1_st by (apply (WV_W _ _ HW5)). cbn [bind].
  pose proof (WV_cons _ _ _ HW5 Hq128) as HW6. pose proof (WV_W _ _ HW6) as HW6'. cbn [CstEntCLex.st s_pos].
  unfold advance_until2. rewrite avail_st by exact HW6'.
  rewrite find_idx_run; [|exact Hv1|rewrite N.eqb_refl; reflexivity].
  rewrite advance_st by (try reflexivity; exact HW6'). cbn [bind].
  unfold slice_back. cbn [CstEntCLex.st s_pos].
  rewrite (mk_slice_v _ (utf8s cs) _ HW6) by (apply Valid_utf8s; apply chars_scalars; exact Hv2). cbn [bind].
  rewrite (is_xml_str_u _ cs _ _ HW6' Hv2). cbn [bind].
  pose proof (W_app _ _ _ _ HW6') as HW7.
  rewrite consume_byte_st by exact HW7. cbn [bind]. cbn [CstEntCLex.st s_pos].
  reflexivity.
Qed.

Lemma lex_entries_full ts ws_end empty post : forall es q c fuel,
  WV q (flat_map CstNs.r_entry es ++ ws_end ++ tag_tail empty ++ post) ->
  Forall uentry_ok_s es -> wf_s ws_end = true -> (length es < fuel)%nat ->
  parse_element_loop text C ev fuel ts (st q (flat_map CstNs.r_entry es ++ ws_end ++ tag_tail empty ++ post)) c =
  let q' := q + blen (flat_map CstNs.r_entry es) + blen ws_end in
  let! c1 := evs C ev (entry_toks q es) c in
  let! c2 := ev (end_tok q' empty) c1 in
  Ok (negb empty, st (q' + blen (tag_tail empty)) post, c2).
Proof.
  induction es as [|a es IH]; intros q c fuel HW Ha Hws Hf; cbv zeta.
  - cbn [flat_map app entry_toks evs bind] in *. rewrite blen_nil, N.add_0_r.
    destruct fuel as [|fu]; [cbn in Hf; lia|]. apply lex_elem_end; [apply (WV_W _ _ HW)|exact Hws].
  - apply Forall_cons_iff in Ha. destruct Ha as [Ha1 Ha2].
    cbn [length] in Hf. destruct fuel as [|fu]; [lia|].
    cbn [flat_map entry_toks evs] in *. rewrite <- app_assoc in *.
    rewrite lex_entry_full by assumption.
    destruct (ev (entry_tok q a) c) as [c'| | |]; cbn [bind]; try reflexivity.
    rewrite IH; [|apply (WV_app _ _ _ HW (uentry_valid _ Ha1))|exact Ha2|exact Hws|lia]. cbv zeta.
    rewrite blen_app. rewrite !N.add_assoc. reflexivity.
Qed.

Lemma uentries_name_stop es ws_end empty post :
  Forall uentry_ok_s es -> wf_s ws_end = true ->
  name_stop (flat_map CstNs.r_entry es ++ ws_end ++ tag_tail empty ++ post).
Proof.
  intros Ha Hws. destruct es as [|a es].
  - cbn [flat_map app]. apply s_stop_name; [exact Hws|]. destruct empty; cbn [tag_tail app name_stop];
      apply not_name_byte_lit; auto.
  - apply Forall_cons_iff in Ha. destruct Ha as [Ha _].
    destruct (uentry_parts _ Ha) as (Hne & Hw & _). cbn [flat_map]. unfold CstNs.r_entry. cbv zeta.
    destruct (CstNs.l_ws (CstNs.e_layout a)) as [|w ws]; [congruence|]. cbn [app name_stop].
    cbn [wf_s forallb] in Hw. apply andb_true_iff in Hw. apply s_not_name_byte. apply Hw.
Qed.

Lemma lex_element_full p name es ws_end empty post c :
  WV p ([60] ++ CstNs.r_qname name ++ flat_map CstNs.r_entry es ++ ws_end ++ tag_tail empty ++ post) ->
  uq_ok name -> Forall uentry_ok_s es -> wf_s ws_end = true ->
  let q' := p + 1 + blen (CstNs.r_qname name) + blen (flat_map CstNs.r_entry es) + blen ws_end in
  parse_element text C ev (st p ([60] ++ CstNs.r_qname name ++ flat_map CstNs.r_entry es ++ ws_end ++ tag_tail empty ++ post)) c =
  let! c1 := evs C ev (start_toks_ns p name es) c in
  let! c2 := ev (end_tok q' empty) c1 in
  Ok (negb empty, st (q' + blen (tag_tail empty)) post, c2).
Proof.
  intros HW Hn Ha Hws q'. unfold parse_element. cbv zeta. cbn [CstEntCLex.st s_pos].
  fold (st p ([60] ++ CstNs.r_qname name ++ flat_map CstNs.r_entry es ++ ws_end ++ tag_tail empty ++ post)).
  rewrite (advance_st 1 p [60]) by (try reflexivity; apply (WV_W _ _ HW)). cbn [bind].
  pose proof (WV_lit _ _ _ HW eq_refl) as HW1. change (blen [60]) with 1 in HW1.
  rewrite consume_qname_full; [|exact HW1|exact Hn|apply uentries_name_stop; assumption]. cbn [bind].
  unfold start_toks_ns. cbn [evs].
  destruct (ev _ c) as [c0| | |]; cbn [bind]; try reflexivity.
  pose proof (WV_app _ _ _ HW1 (uq_valid _ Hn)) as HW2.
  rewrite lex_entries_full; [|exact HW2|exact Ha|exact Hws|].
  2:{ cbn [CstEntCLex.st s_rest]. rewrite !app_length. pose proof (flat_entry_len es). lia. }
  reflexivity.
Qed.

Lemma lex_close_full p name ws2 post c : WV p ([60; 47] ++ CstNs.r_qname name ++ ws2 ++ [62] ++ post) ->
  uq_ok name -> wf_s ws2 = true ->
  let e := p + 2 + blen (CstNs.r_qname name) + blen ws2 + 1 in
  parse_close_element text C ev (st p ([60; 47] ++ CstNs.r_qname name ++ ws2 ++ [62] ++ post)) c =
  let! c' := ev (TElementEnd (EClose (sl (p + 2) (p + 2 + blen (CstNs.q_prefix name)))
                                     (sl (p + 2 + q_off name) (p + 2 + blen (CstNs.r_qname name)))) (p, e)) c in
  Ok (st e post, c').
Proof.
  intros HW Hn Hws e. unfold parse_close_element. cbv zeta. cbn [CstEntCLex.st s_pos].
  fold (st p ([60; 47] ++ CstNs.r_qname name ++ ws2 ++ [62] ++ post)).
  rewrite (advance_st 2 p [60; 47]) by (try reflexivity; apply (WV_W _ _ HW)). cbn [bind].
  pose proof (WV_lit _ _ _ HW eq_refl) as HW1. change (blen [60; 47]) with 2 in HW1.
  rewrite consume_qname_full; [|exact HW1|exact Hn|].
  2:{ apply s_stop_name; [exact Hws|]. cbn [app name_stop]. apply not_name_byte_lit. auto. }
  cbn [bind]. pose proof (W_app _ _ _ _ (WV_W _ _ HW1)) as HW2.
  rewrite skip_spaces_st; [|exact HW2|apply s_spaces; exact Hws|reflexivity].
  pose proof (W_app _ _ _ _ HW2) as HW3. cbn [app] in *.
  rewrite consume_byte_st by exact HW3. cbn [bind CstEntCLex.st s_pos]. reflexivity.
Qed.



(* ---- the content loop at '<' followed by a qualified name ---- *)
Lemma loop_elem_q fuel depth p name l c : W p ([60] ++ CstNs.r_qname name ++ l) -> uq_ok name ->
  parse_content_loop text C ev (S fuel) depth (st p ([60] ++ CstNs.r_qname name ++ l)) c =
  let! (open, s, c) := parse_element text C ev (st p ([60] ++ CstNs.r_qname name ++ l)) c in
  parse_content_loop text C ev fuel (if open then depth + 1 else depth) s c.
Proof.
  intros HW Hn. destruct (uq_head name Hn) as (n & r & En & _ & H47 & _ & H33 & H63 & _). rewrite En in *.
  cbn [app] in *. rewrite (CstEntCLoop.loop_lt text en tl) by assumption.
  replace (n =? 33) with false by lia. replace (n =? 63) with false by lia.
  replace (n =? 47) with false by lia. reflexivity.
Qed.

End SubU.

(* ---- the conditions of Spec/CstFullS7.v ---- *)
Lemma wf_comment7_ok bs : wf_comment7 bs = true -> comment_ok_u bs.
Proof.
  unfold wf_comment7. rewrite !andb_true_iff. intros [[H1 H2] H3]. split; [exact H1|]. split.
  - rewrite <- contains_eq. apply negb_true_iff. exact H2.
  - unfold ends_with_byte. destruct (rev bs); [reflexivity|]. apply negb_true_iff. exact H3.
Qed.

Lemma wf_pi7_ok t s v : wf_pi7 t s v = true -> pi_ok_u t s v.
Proof.
  unfold wf_pi7. rewrite !andb_true_iff. intros [[[[[H1 H2] H3] H4] H5] H6].
  split; [exact H1|]. split; [exact H2|]. split; [exact H3|]. split.
  { rewrite <- contains_eq. apply negb_true_iff. exact H4. }
  split; [apply negb_true_iff; exact H5|].
  destruct v as [|x v]; [exact Logic.I|]. apply andb_true_iff in H6. destruct H6 as [H6 H7].
  split; [apply negb_true_iff; exact H6|]. destruct s; [discriminate|discriminate].
Qed.

Lemma chars7_valid cs : forallb Chars.xml_Char cs = true -> U8.Valid (utf8s cs).
Proof. intros H. apply Valid_utf8s, chars_scalars, uchars_of. exact H. Qed.

Lemma comment7_valid bs : wf_comment7 bs = true -> U8.Valid (Cst.r_item (Cst.IComment (utf8s bs))).
Proof.
  intros H. destruct (wf_comment7_ok bs H) as (H1 & _). cbn [Cst.r_item].
  apply U8.Valid_app; [apply Valid_lit; reflexivity|]. apply U8.Valid_app; [apply chars7_valid; exact H1|apply Valid_lit; reflexivity].
Qed.

Lemma pi7_valid t s v : wf_pi7 t s v = true -> U8.Valid (Cst.r_item (Cst.IPI (utf8s t) s (utf8s v))).
Proof.
  intros H. destruct (wf_pi7_ok _ _ _ H) as (H1 & H2 & H3 & _). cbn [Cst.r_item].
  apply U8.Valid_app; [apply Valid_lit; reflexivity|]. apply U8.Valid_app; [apply name7_valid; exact H1|].
  apply U8.Valid_app; [apply s_valid; exact H2|]. apply U8.Valid_app; [apply chars7_valid; exact H3|apply Valid_lit; reflexivity].
Qed.


Arguments WV_app text {en tl} p x l.
Arguments WV_lit text {en tl} p x l.
Arguments WV_cons text {en tl} p x l.
Arguments WV_W text {en tl} p r.

Print Assumptions lex_comment_u.
Print Assumptions lex_pi_u.
Print Assumptions lex_text_g.
Print Assumptions lex_cdata_u.
Print Assumptions lex_element_full.
Print Assumptions lex_close_full.
