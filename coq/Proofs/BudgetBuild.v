(* BudgetBuild.v -- C09, part 3: what the builder does to the node count and to the loop
   detector.  Nodes: +1 at most per non-text token.  Detector: the depth is restored, the
   reference counter only grows while the depth is >= 1, never exceeds 255, is 0 at depth 0. *)
From Coq Require Import Ascii String.
From Coq Require Import Lia ZifyBool ZifyN ZifyNat.
From RX Require Import Generated.
From RX.Model Require Import Base CharClass Stream Tokenizer Doc Builder Parse.
From RX.Proofs Require Import Tactics OptionsParam OptionsBuild BudgetStream.

Definition dp (c : context) : N := ld_depth (c_ld c).
Definition rf (c : context) : N := ld_references (c_ld c).

Definition ldok (ld : loop_detector) : Prop :=
  ld_references ld <= 255 /\ (ld_depth ld = 0 -> ld_references ld = 0).

(* same depth, the counter grew, still fine *)
Definition ldle (ld ld' : loop_detector) : Prop :=
  ld_depth ld' = ld_depth ld /\ ld_references ld <= ld_references ld' /\ ldok ld'.

Lemma ldle_refl ld : ldok ld -> ldle ld ld.
Proof. unfold ldle. intros. repeat split; try lia; apply H. Qed.

Lemma ldle_trans a b c : ldle a b -> ldle b c -> ldle a c.
Proof.
  unfold ldle. intros (H1 & H2 & H3) (H4 & H5 & H6). repeat split; try lia; apply H6.
Qed.

(* the detector is untouched, at most one node more *)
Definition b1 (c c' : context) : Prop := c_ld c' = c_ld c /\ cnt c <= cnt c' /\ cnt c' <= cnt c + 1.
Definition b0 (c c' : context) : Prop := c_ld c' = c_ld c /\ cnt c' = cnt c.

Ltac bsolve :=
  unfold b0, b1, cnt, len_N in *; cproj;
  repeat match goal with H : _ /\ _ |- _ => destruct H end;
  repeat match goal with H : d_nodes _ = d_nodes _ |- _ => rewrite H in *; clear H end;
  repeat match goal with H : c_ld _ = c_ld _ |- _ => rewrite H in *; clear H end;
  repeat split; try reflexivity; try lia.

Section WithText.
Variable text : bytes.

Lemma b1_append_node k r c id c' : append_node k r c = Ok (id, c') -> b1 c c'.
Proof.
  intros H. pose proof (append_node_spec _ _ _ _ _ H) as (_ & Hc & _).
  unfold append_node in H. usteps. unfold b1. split; [reflexivity|]. lia.
Qed.

Lemma b1_append_text t r c c' : append_text t r c = Ok c' -> b1 c c'.
Proof. unfold append_text. intros H. usteps; repeat fw1 b1_append_node; bsolve. Qed.

Lemma b0_merge_text c c' : merge_text text c = Ok c' -> b0 c c'.
Proof. unfold merge_text. intros H. usteps. apply upd_node_len in Hb. bsolve. Qed.

Lemma b0_reset_after_text c c' : reset_after_text text c = Ok c' -> b0 c c'.
Proof. unfold reset_after_text. intros H. usteps; repeat fw1 b0_merge_text; bsolve. Qed.

Lemma b0_resolve_namespaces c x c' : resolve_namespaces text c = Ok (x, c') -> b0 c c'.
Proof.
  unfold resolve_namespaces. intros H. usteps; repeat fw1 resolve_ns_loop_nodes; bsolve.
Qed.

Lemma b0_resolve_attributes nss c x c' : resolve_attributes text nss c = Ok (x, c') -> b0 c c'.
Proof.
  unfold resolve_attributes. intros H. usteps; repeat fw1 resolve_attrs_loop_nodes; bsolve.
Qed.

Lemma b1_process_element e r c c' : process_element text e r c = Ok c' -> b1 c c'.
Proof.
  unfold process_element. intros H. usteps;
  repeat first [fw1 b0_resolve_namespaces | fw1 b0_resolve_attributes | fw1 b1_append_node
               | fw1 upd_node_len ]; bsolve.
Qed.

Lemma b1_process_cdata t r c c' : process_cdata text t r c = Ok c' -> b1 c c'.
Proof. unfold process_cdata. intros H. usteps; fw1 b1_append_text; assumption. Qed.

(* ---- the detector ---- *)

Lemma inc_references_spec s ld ld' : inc_references text s ld = Ok ld' ->
  (ld_depth ld = 0 /\ ld' = ld) \/
  (ld_depth ld <> 0 /\ ld_references ld <> 255 /\
   ld' = {| ld_depth := ld_depth ld; ld_references := ld_references ld + 1 |}).
Proof.
  unfold inc_references. intros H. usteps.
  - left. split; [lia|reflexivity].
  - right. unfold ld_max_refs in *. repeat split; try lia.
Qed.

Lemma inc_depth_spec s ld ld' : inc_depth text s ld = Ok ld' ->
  ld' = {| ld_depth := ld_depth ld + 1; ld_references := ld_references ld |}.
Proof. unfold inc_depth. intros H. usteps. reflexivity. Qed.

(* enter then leave around a nested run that keeps its own depth *)
Lemma enter_leave s s' ld ld1 ld2 ld3 :
  ldok ld -> inc_references text s ld = Ok ld1 -> inc_depth text s' ld1 = Ok ld2 ->
  ldle ld2 ld3 -> ldle ld (dec_depth ld3).
Proof.
  intros (Hr & Hz) H1 H2 (Hd & Hrr & Hr3 & Hz3).
  apply inc_depth_spec in H2. subst ld2. cbn [ld_depth ld_references] in *.
  apply inc_references_spec in H1. unfold ldle, ldok, dec_depth.
  destruct H1 as [[Hd0 ->]|(Hd0 & Hr0 & ->)]; cbn [ld_depth ld_references] in *.
  - rewrite Hd, Hd0. replace (0 <? 0 + 1) with true by lia.
    replace (0 + 1 - 1 =? 0) with true by lia. cbn [ld_depth ld_references]. lia.
  - rewrite Hd. replace (0 <? ld_depth ld + 1) with true by lia.
    replace (ld_depth ld + 1 - 1 =? 0) with false by lia. cbn [ld_depth ld_references]. lia.
Qed.

(* ---- attribute values: the loop of norm_attr_lvl, named ---- *)
Definition na_loop (rec : slice -> text_buffer -> loop_detector -> res (text_buffer * loop_detector))
           (entities : list entity) :=
  fix loop (fuel : nat) (s : stream) (t : text_buffer) (ld : loop_detector) {struct fuel}
    : res (text_buffer * loop_detector) :=
    match fuel with
    | O => OutOfFuel
    | S fu =>
      if at_end s then Ok (t, ld) else
      let! x := curr_byte_unchecked s in
      if negb (x =? 38) then
        if (x =? 60) && (0 <? ld_depth ld) then err_at text s InvalidAttributeValue
        else
          let! s := advance 1 s in
          loop fu s (tb_push_from_attr x (curr_byte_opt s) t) ld
      else
        let start := s_pos s in
        let! r := consume_reference text s in
        match r with
        | Some (RefChar ch, s) =>
          match push_char_bytes_attr (encode_utf8 ch) (0 <? ld_depth ld) t with
          | Some t => loop fu s t ld
          | None => err_from text start InvalidAttributeValue
          end
        | Some (RefEntity name, s) =>
          match find_entity text entities (slice_bytes text name) with
          | Some e =>
            let! ld := inc_references text s ld in
            let! ld := inc_depth text s ld in
            let! (t, ld) := rec (en_value e) t ld in
            loop fu s t (dec_depth ld)
          | None => err_from text start (UnknownEntityReference (slice_bytes text name))
          end
        | None => err_from text start MalformedEntityReference
        end
    end.

Lemma norm_attr_lvl_S lvl entities value t ld :
  norm_attr_lvl text (S lvl) entities value t ld =
  let! s0 := stream_from_substr text (sl_start value) (sl_end value) in
  na_loop (norm_attr_lvl text lvl entities) entities (S (length (s_rest s0))) s0 t ld.
Proof. reflexivity. Qed.

Lemma na_loop_spec rec entities :
  (forall v t ld t' ld', rec v t ld = Ok (t', ld') -> ldok ld -> ldle ld ld') ->
  forall fuel s t ld t' ld',
  na_loop rec entities fuel s t ld = Ok (t', ld') -> ldok ld -> ldle ld ld'.
Proof.
  intros Hrec. induction fuel; intros s t ld t' ld' H Hok; [discriminate|].
  cbn [na_loop] in H. usteps; try (apply ldle_refl; assumption); try (eapply IHfuel; eassumption).
  assert (Hok2 : ldok a2).
  { apply inc_depth_spec in Hb2. subst a2. apply inc_references_spec in Hb1.
    destruct Hok as [Hr Hz]. unfold ldok.
    destruct Hb1 as [[Hd0 ->]|(Hd0 & Hr0 & ->)]; cbn [ld_depth ld_references]; lia. }
  pose proof (Hrec _ _ _ _ _ Hb3 Hok2) as Hle.
  pose proof (enter_leave _ _ _ _ _ _ Hok Hb1 Hb2 Hle) as Hle2.
  apply IHfuel in H; [|apply Hle2]. eapply ldle_trans; eassumption.
Qed.

Lemma norm_attr_lvl_spec lvl : forall entities v t ld t' ld',
  norm_attr_lvl text lvl entities v t ld = Ok (t', ld') -> ldok ld -> ldle ld ld'.
Proof.
  induction lvl; intros entities v t ld t' ld' H Hok; [discriminate|].
  rewrite norm_attr_lvl_S in H. apply bind_ok in H. destruct H as [s0 [_ H]].
  eapply na_loop_spec; [|exact H|exact Hok]. intros. eapply IHlvl; eauto.
Qed.

(* same node count, the detector grew *)
Definition ba (c c' : context) : Prop := cnt c' = cnt c /\ ldle (c_ld c) (c_ld c').

Lemma ba_normalize_attribute v c x c' :
  normalize_attribute text v c = Ok (x, c') -> ldok (c_ld c) -> ba c c'.
Proof.
  unfold normalize_attribute, ba. intros H Hok. usteps.
  - apply norm_attr_lvl_spec in Hb; [|assumption]. unfold cnt. cproj. auto.
  - split; [reflexivity|apply ldle_refl; assumption].
Qed.

Lemma ba_process_attribute r q e p l v c c' :
  process_attribute text r q e p l v c = Ok c' -> ldok (c_ld c) -> ba c c'.
Proof.
  unfold process_attribute. intros H Hok. usteps;
  (eapply ba_normalize_attribute in Hb; [|assumption]);
  repeat fw1 push_ns_nodes; unfold ba, cnt in *; cproj; destruct Hb as [Hn Hl];
  repeat match goal with H : d_nodes _ = d_nodes _ |- _ => rewrite H in *; clear H end; auto.
Qed.

End WithText.
