(* Proofs/CstFullS5Main.v -- the capstone fragment, stage S5: the size bounds of Proofs/CstFullMain.v ("the
   input is at most u32::MAX bytes long" bounds the nodes and the attributes) for the
   well-formedness conditions of Spec/CstFullS5.v. *)
From Coq Require Import Ascii String.
From Coq Require Import List NArith PeanoNat Bool Lia ZifyBool ZifyN ZifyNat.
Import ListNotations.
From RX Require Import Generated.
From RX.Model Require Import Base CharClass Stream Tokenizer Doc Builder Parse.
From RX.Spec Require Cst Scope CstNs CstU Chars.
From RX.Spec Require Import CstFull CstFullS5.
From RX.Proofs Require Import Tactics CstLex CstBuild CstNsLex CstNsView CstNsBuild CstULex CstFullLex CstFullBuild CstFullTree.
From RX.Proofs Require Import CstFullS5Ws CstFullS5Lex CstFullS5Items CstFullDoc CstFullS5Doc.
From RX.Proofs Require CstNsItems CstNsDoc CstNsMain CstFullMain.
Open Scope N_scope.

Notation nea_le_f := CstFullMain.nea_le_f.

Section Bounds.
Variable Sy : syntax.
Variable M : meaning Sy.
Variable run_steps : run Sy -> nat.
Hypothesis Hrun_steps : forall r, wf_run M r = true -> (1 <= run_steps r <= length (r_run Sy r))%nat.

Notation item := (CstFull.item Sy).
Notation dens := (CstFullTree.dens Sy M).

Lemma sem_le_render_s : forall i : item, wf_item_s M i = true ->
  (NT.isizes (den M i) + (if is_elem Sy i then 1 else 0) <= length (r_item i))%nat /\
  (NT.nattrs_items (den M i) + (if is_elem Sy i then 1 else 0) <= length (r_item i))%nat.
Proof.
  intros i. induction i as [n a w|n a w cs w2 IH|r|bs|t s v] using fitem_ind; intros Hwf.
  - rewrite den_elem, r_item_elem, !app_length. cbn [NT.isizes NT.nattrs_items NT.isize length is_elem].
    rewrite NT.nattrs_elem. pose proof (nea_le_f Sy (val_sem M) a). lia.
  - rewrite wf_item_elem_s, !andb_true_iff in Hwf. destruct Hwf as [_ [_ Hcs]].
    rewrite den_elem, r_item_elem, !app_length. cbn [NT.isizes NT.nattrs_items length is_elem].
    rewrite NT.isize_elem, NT.nattrs_elem.
    assert (G : (NT.isizes (dens cs) <= length (r_items cs) /\ NT.nattrs_items (dens cs) <= length (r_items cs))%nat).
    { clear - IH Hcs. induction IH as [|c r Hc _ IHr]; [cbn; lia|].
      cbn [wf_items_s] in Hcs. apply andb_true_iff in Hcs. destruct Hcs as [H1 H2].
      cbn [CstFullTree.dens r_items]. rewrite isizes_app, nattrs_items_app, !app_length.
      destruct (Hc H1) as [A1 A2]. destruct (IHr H2) as [B1 B2]. clear - A1 A2 B1 B2. lia. }
    pose proof (nea_le_f Sy (val_sem M) a). lia.
  - cbn [den r_item is_elem]. pose proof (Hrun_steps r Hwf) as H. clear Hwf. destruct (run_sem M r); cbn [NT.isizes NT.nattrs_items NT.isize NT.nattrs]; clear - H; lia.
  - cbn [den r_item Cst.r_item is_elem NT.isizes NT.nattrs_items NT.isize NT.nattrs]. rewrite !app_length. cbn [length]. lia.
  - cbn [den r_item Cst.r_item is_elem NT.isizes NT.nattrs_items NT.isize NT.nattrs]. rewrite !app_length. cbn [length]. lia.
Qed.

Lemma pairs_sem_le_s (l : pairs Sy) : wf_pairs_s Sy M l = true -> (NT.isizes (dens (map snd l)) <= length (r_pairs l))%nat.
Proof.
  induction l as [|[w i] r IH]; intros H; [cbn; lia|]. cbn [wf_pairs_s forallb fst snd] in H.
  rewrite !andb_true_iff in H. destruct H as [[[H1 H2] H3] H4].
  cbn [map snd CstFullTree.dens r_pairs flat_map fst]. rewrite isizes_app, !app_length. specialize (IH H4).
  unfold r_pairs in IH. destruct (sem_le_render_s i H3) as [A _]. lia.
Qed.

Lemma render_bounds_s c : wf_main_s M c = true ->
  (length (sem M c) < length (render c))%nat /\ (NT.nattrs_items (den M (d_root c)) < length (render c))%nat.
Proof.
  intros Hwf. pose proof (wf_main_parts Sy M c Hwf) as [H1 H2 H3 (name & es & ws & body & Er) H5 H6 _].
  destruct (regroup_wf_s Sy M _ _ H1 H3) as [R1 _].
  rewrite render_shape, sem_dens, CstFullMain.sem_items_len, (doc_items_shape Sy), (dens_app Sy M). cbn [CstFullTree.dens].
  rewrite !isizes_app, !app_length.
  pose proof (pairs_sem_le_s _ R1). pose proof (pairs_sem_le_s _ H6).
  destruct (sem_le_render_s _ H5) as [A1 A2]. rewrite Er in A1, A2 |- *. cbn [is_elem] in A1, A2.
  change (@map (Scope.bytes * item) item (@snd Scope.bytes item) (d_after c))
    with (@map (bytes * item) item (@snd bytes item) (d_after c)).
  clear - H H0 A1 A2. lia.
Qed.

End Bounds.

Print Assumptions render_bounds_s.
