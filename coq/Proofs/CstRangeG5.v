(* Proofs/CstRangeG5.v -- C13 / C18 on the capstone fragment, stage S5 (Spec/CstFullS5.v: the whole prolog --
   byte order mark, XML declaration, DOCTYPE with external identifier and a general internal
   subset, white space S): parse_document of CstFullS5.v once more with the observations of
   CstRangeG5Items.v, and the theorems [parse_render_ranges_f5], [parse_render_attr_ranges_f5],
   [parse_render_storage_f5]. *)
From Coq Require Import Ascii String.
From Coq Require Import List NArith PeanoNat Bool Lia ZifyBool ZifyN ZifyNat.
Import ListNotations.
From RX Require Import Generated.
From RX.Model Require Import Base CharClass Stream Tokenizer Doc Builder Parse Api.
From RX.Spec Require Cst Scope CstNs CstU CstText CstEnt Chars Detector.
From RX.Spec Require Import Text CstFull CstFullS5.
From RX.Proofs Require Import Tactics CstLex CstBuild CstNsLex CstNsView CstNsBuild CstULex DetectorProofs.
From RX.Proofs Require Import CstEntSem CstEntDtd CstFullLex CstFullBuild CstFullTree CstFullDoc CstFullMain.
From RX.Proofs Require Import CstFullS2Sem CstFullS3Sem CstFullS3Text CstFullS3Dtd CstFullS3Plug CstFullS3.
From RX.Proofs Require Import CstFullS5Ws CstFullS5Lex CstFullS5Items CstFullS5Doc CstFullS5Main CstFullS5Dtd CstFullS5Decl CstFullS5.
From RX.Proofs Require CstItems CstNsItems CstNsDoc CstNsMain CstDoc CstUDoc RangeInv RangeParse.
From RX.Proofs Require Import CstRangeDefs CstRangeBuild CstRangeTDefs CstRangeTBuild CstRangeEDefs CstRangeFDefs CstRangeFBuild CstRangeFItems CstRangeFDoc CstRangeFMain CstRangeFS2.
From RX.Proofs Require Import CstRangeGDefs CstRangeGS3 CstRangeG5Defs CstRangeG5Frags CstRangeG5Doc CstRangeG5Dtd.
From RX.Proofs Require CstRangeG5Items CstRangeG5Plug.
Open Scope N_scope.

Ltac clia := repeat match goal with H : @eq bool _ true |- _ => clear H end; lia.

Lemma m0_val_norm_gr text es0 vs : forall q v p more, wf_val M0 q v = true -> q = 39 \/ q = 34 ->
  CstULex.WV text p (r_val epieces v ++ [q] ++ more) ->
  exists stor, norm_ok text es0 (sl p (p + blen (r_val epieces v))) stor /\ storage_bytes text stor = val_sem M0 v /\
               stored stor (vs p v).
Proof. intros q v p more H. discriminate H. Qed.

Lemma fpairs_misc_s M : forall (l : pairs epieces) p, wf_pairs_s epieces M l = true ->
  Forall (fun x => is_misc epieces (snd x) = true) (fpairs_at epieces p l).
Proof.
  induction l as [|[w i] r IH]; intros p H; cbn [fpairs_at]; [constructor|].
  cbn [wf_pairs_s forallb fst snd] in H. rewrite !andb_true_iff in H. destruct H as [[[_ H2] _] H4].
  constructor; [exact H2|apply IH; exact H4].
Qed.

Lemma smisc_misc_gen : forall ds q, forallb wf_sdecl ds = true ->
  Forall (fun x => is_misc epieces (snd x) = true) (smisc_at q ds).
Proof.
  induction ds as [|s r IH]; intros q H; [constructor|]. cbn [forallb] in H. apply andb_true_iff in H. destruct H as [Hs Hr].
  destruct s; cbn [smisc_at]; try (apply IH; exact Hr).
  constructor; [|apply IH; exact Hr]. cbn [wf_sdecl snd] in *. apply andb_true_iff in Hs. destruct Hs as [_ Hi].
  destruct i; try discriminate; reflexivity.
Qed.

Lemma smisc_misc q t : wf_doctype t = true -> Forall (fun x => is_misc epieces (snd x) = true) (smisc_at q (subset_decls t)).
Proof.
  unfold wf_doctype, subset_decls. rewrite !andb_true_iff. intros [_ Hsub].
  destruct (t_subset t) as [u|]; cbn [wf_opt] in Hsub; [|constructor].
  unfold wf_subset in Hsub. rewrite !andb_true_iff in Hsub. apply smisc_misc_gen. tauto.
Qed.

(* ------------------------------------------------------------------------------------------ *)
(* from the root element to the end of the document                                           *)
(* ------------------------------------------------------------------------------------------ *)
Section TailR.
Variable decls : list E.edecl.
Hypothesis Hdk : Forall udecl_ok decls.
Notation tb := (E.level decls E.max_level).
Notation M := (ents_meaning tb).
Variable text : bytes.
Variable D : list Scope.binding.
Hypothesis HD : forall l, NoDup l -> incl l D -> N.of_nat (length l) <= 65535.
Variable es : list entity.
Hypothesis Henv : Forall2 (uent_ok text) decls es.
Notation vt := (vt_of decls es).

Notation CIn := (CstNsBuild.CIn text D).
Notation WV := (CstULex.WV text).
Notation node_room := CstNsItems.node_room.
Notation attr_room := CstNsItems.attr_room.
Notation ns_room := CstNsItems.ns_room.
Notation dens := (dens5 M).
Notation dens0 := (dens5 M0).
Notation ExtraF := (CstRangeFItems.ExtraF epieces M (vstore3 tb) (run_nodes3 tb vt) text).

Lemma run5_r : forall r, CstRangeG5Items.PIf_r epieces M steps3 (vstore3 tb) (run_nodes3 tb vt) text D es (IText r).
Proof. exact (CstRangeG5Plug.s3_run_r decls Hdk text D HD es Henv). Qed.

Lemma tail_ok_r name ens ws body (A : pairs epieces) wE p3 c3 :
  let root := IElem name ens ws body in
  wf_item_s M root = true -> CstFullTree.ns_oks [] (den M root) = true -> incl (NT.items_decls (den M root)) D ->
  wf_pairs_s epieces M A = true -> wf_s wE = true ->
  WV p3 (r_item root ++ r_pairs A ++ wE ++ []) ->
  CIn [] c3 -> CstFullBuild.NC es c3 -> c_after_text c3 = [] ->
  node_room c3 (NT.nsizes (den M root) + NT.nsizes (dens (map snd A))) ->
  attr_room c3 (NT.nattrs_items (den M root)) -> ns_room c3 (NT.ns_costs [] (den M root)) ->
  exists c5 K ext,
    doc_tail text (CstLex.st text p3 (r_item root ++ r_pairs A ++ wE ++ [])) c3 = Ok c5 /\
    Stepn c3 c5 K ext /\
    Forall2 (kmn text (c_doc c5)) K
      (NT.tag_list [] (c_parent_id c3) (len_N (d_nodes (c_doc c3))) (den M root ++ dens (map snd A))) /\
    ExtraF (fitems_at epieces p3 root ++ fpairs_at epieces (p3 + blen (r_item root)) A) c3 c5 K ext.
Proof.
  intros root H5 H7 HinD H6 H2 HWg I3 HC3 A3 NR AR SR.
  pose proof (root_name_s epieces M _ _ _ _ H5) as Hn.
  destruct (root_starts epieces name ens ws body Hn) as (n & l & El & Hnsp & H33 & H63). fold root in El.
  pose proof (WV_W _ _ _ HWg) as HWg'.
  unfold doc_tail. cbv zeta.
  assert (Hsp : stops byte_is_space (r_item root ++ r_pairs A ++ wE ++ [])) by (rewrite El; reflexivity).
  rewrite (CstDoc.skip_spaces_none text) by (try exact HWg'; exact Hsp).
  assert (Ecb : match curr_byte_opt (CstLex.st text p3 (r_item root ++ r_pairs A ++ wE ++ [])) with Some x => x =? 60 | None => false end = true).
  { revert HWg'. rewrite El. cbn [app]. intros HWg'. rewrite curr_byte_opt_st by exact HWg'. reflexivity. }
  rewrite Ecb.
  destruct (CstRangeG5Items.root_ok_f_r epieces M steps3 (vstore3 tb) (run_nodes3 tb vt) (s3_val_lex decls) (s3_run_valid decls) (s3_run_steps decls) text D HD es
              (CstRangeG5Plug.s3_val_norm_r decls Hdk text D HD es Henv) run5_r
              [] name ens ws body p3 (r_pairs A ++ wE ++ []) c3 H5 H7 HinD HWg I3 HC3 A3)
    as (c4 & K2 & e2 & E4 & S4 & I4 & A4 & _ & F4 & L4 & Tr4 & Y4).
  { unfold CstNsItems.node_room in *. fold root. clia. }
  { exact AR. } { exact SR. }
  fold root in E4, S4, F4, L4, Tr4, Y4.
  rewrite E4. cbn [bind]. clear E4.
  pose proof (WV_app _ _ _ _ HWg (CstFullS5Items.fitem_valid epieces M (s3_val_lex decls) (s3_run_valid decls) _ H5)) as HWh. fold root in HWh.
  set (p4 := p3 + blen (r_item root)) in *.
  pose proof (CstFullS5Items.Stepn_nodes_len _ _ _ _ S4) as Ln4.
  rewrite (CstFullS5Items.Forall2_len_N _ _ _ F4) in Ln4. unfold len_N at 3 in Ln4. rewrite NT.tag_list_len in Ln4.
  pose proof (CstFullS5Items.Stepn_opt _ _ _ _ (proj1 S4)) as Lo4.
  destruct (pairs_indep_s M A H6) as [H6' EdA].
  unfold parse_misc. cbn [CstLex.st s_rest]. fold (CstLex.st text p4 (r_pairs A ++ wE ++ [])).
  destruct (misc_loop_ok_s_r epieces M0 (vstore3 tb) (run_nodes3 tb vt) CstFullS3.m0_val_lex CstFullS3.m0_run_valid text D HD es (m0_val_norm_gr text es (vstore3 tb))
              A p4 wE [] c4 (S (length (r_pairs A ++ wE ++ []))) HWh H6' H2)
    as (c5 & K3 & E5 & S5 & I5 & A5 & Tr5 & F5 & Y5).
  { split; [exact Logic.I|split; reflexivity]. }
  { pose proof (pairs_len_s epieces M A H6). rewrite app_length. clia. }
  { exact I4. } { exact A4. }
  { rewrite EdA. unfold CstNsItems.node_room in *. rewrite Ln4, Lo4, <- !N.add_assoc. exact NR. }
  rewrite EdA in F5. rewrite E5. cbn [bind]. clear E5.
  pose proof (WV_W _ _ _ HWh) as HWh'.
  pose proof (W_app _ _ _ _ HWh') as HWi. pose proof (W_app _ _ _ _ HWi) as HWj.
  rewrite at_end_st by exact HWj. cbn [negb].
  exists c5, (K2 ++ K3), (e2 ++ []). split; [reflexivity|]. split; [apply (Stepn_trans _ _ _ _ _ _ _ S4 S5)|].
  split.
  2:{ eapply CstRangeFItems.ExtraF_app; [exact Y4|]. apply (ExtraF_misc_indep _ _ _ _ _ _ _ _ _ _ _ _ _ (fpairs_misc_s _ _ _ H6') Y5). }
  rewrite CstNsDoc.tag_list_app. apply Forall2_app.
  - apply (CstFullS5Items.kmn_Forall2_ext text D HD (c_doc c4)); [apply (Step0n_DocExt _ _ _ _ (proj1 S5))|exact F4].
  - destruct S4 as (_ & P4 & _). rewrite P4, Ln4 in F5. exact F5.
Qed.

End TailR.

(* ------------------------------------------------------------------------------------------ *)
(* parse_document                                                                             *)
(* ------------------------------------------------------------------------------------------ *)
Section Doc5R.
Variable d : S5.doc.
Hypothesis Hwf : S5.wf_doc d = true.

Notation decls := (decls5 d).
Notation M := (ents_meaning (E.level decls E.max_level)).
Notation main := (S5.x_main d).
Notation text := (S5.render d).
Notation dens := (dens5 M).
Notation dens0 := (dens5 M0).
Notation s5_parts := (CstFullS5.s5_parts d Hwf).
Notation Hdk5 := (CstFullS5.Hdk5 d Hwf).
Notation all_items := (CstFullS5.all_items d).
Notation bomb := (CstFullS5.bomb d).
Notation dtd_bytes := (CstFullS5.dtd_bytes d).
Notation text_eq := (CstFullS5.text_eq d).
Notation dtd_bytes_shape := (CstFullS5.dtd_bytes_shape d).
Notation text_valid := (CstFullS5.text_valid d Hwf).
Notation ExtraF := (CstRangeFItems.ExtraF epieces M (vstore_s5 d) (run_nodes_s5 d) text).

Variable D : list Scope.binding.
Hypothesis HD : forall l, NoDup l -> incl l D -> N.of_nat (length l) <= 65535.
Hypothesis HinD : incl (doc_decls M main) D.

Notation CIn := (CstNsBuild.CIn text D).
Notation node_room := CstNsItems.node_room.
Notation attr_room := CstNsItems.attr_room.
Notation ns_room := CstNsItems.ns_room.
Notation WV := (CstULex.WV text).

Lemma parse_document_ok_5_r (dtd : bool) (c0 : context) :
  (S5.has_dtd d = true -> dtd = true) ->
  CIn [] c0 -> c_entities c0 = [] -> c_ld c0 = ld_init -> c_after_text c0 = [] ->
  node_room c0 (NT.nsizes (dens all_items)) -> attr_room c0 (NT.nattrs_items (den M (d_root main))) ->
  ns_room c0 (ns_cost M main) ->
  exists cf K ext,
    parse_document text context (tok_ev text) dtd c0 = Ok cf /\
    absn (c_doc cf) = absn (c_doc c0) ++ K /\ d_attrs (c_doc cf) = d_attrs (c_doc c0) ++ ext /\
    ExtraF (s5_items_at d) c0 cf K ext.
Proof.
  intros Hdtd I0 Hes0 Hld0 A0 NR AR SR.
  destruct s5_parts as (Hx & Hg & Hm). pose proof Hdk5 as Hdk. pose proof text_valid as Hvalid.
  pose proof (wf_main_parts epieces M main Hm) as [H1 H2 H3 (name & ens & ws & body & Er) H5 H6 H7].
  destruct (regroup_wf_s epieces M _ _ H1 H3) as [Q1 Q2].
  unfold doc_decls in HinD. rewrite <- (items_decls_flat) in HinD. unfold ns_cost in SR. rewrite <- ns_costs_sum in SR.
  set (B1 := regroup (d_ws0 main) (d_before main)) in *. set (wB1 := last_ws (d_ws0 main) (d_before main)) in *.
  set (A := d_after main) in *. set (wE := d_ws_end main) in *.
  rewrite Er in *. set (root := IElem name ens ws body) in *.
  set (rest1 := r_item root ++ r_pairs A ++ wE ++ []).
  assert (Emain : render main = r_pairs B1 ++ wB1 ++ rest1).
  { rewrite (render_shape epieces main). fold B1 wB1 A wE. rewrite Er. reflexivity. }
  assert (Eitems : doc_items main = map snd B1 ++ root :: map snd A).
  { rewrite (doc_items_shape epieces). fold B1 A. rewrite Er. reflexivity. }
  pose proof (root_name_s epieces M _ _ _ _ H5) as Hn.
  destruct (root_starts epieces name ens ws body Hn) as (n & l & El & Hnsp & H33 & H63). fold root in El.
  assert (Hstop1 : CstDoc.misc_stop rest1).
  { unfold rest1. rewrite El. cbn [app]. split; [reflexivity|]. cbn [prefix_b].
    replace (33 =? n) with false by clia. replace (63 =? n) with false by clia. split; reflexivity. }
  assert (Hdt1 : prefix_b [60; 33; 68; 79; 67; 84; 89; 80; 69] rest1 = false).
  { unfold rest1. rewrite El. cbn [app prefix_b]. replace (33 =? n) with false by clia. rewrite andb_false_r. reflexivity. }
  destruct (pairs_indep_s M B1 Q1) as [Q1' Ed1].
  destruct (pairs_dens_s epieces M B1 Q1) as (_ & _ & _ & Hn1 & _).
  unfold parse_document.
  destruct (S5.x_dtd d) as [g|] eqn:Ex.
  - (* with a DOCTYPE *)
    cbn [wf_opt] in Hg. destruct (dtd_part_parts g Hg) as (H0 & Hb & Ht).
    destruct (regroup_wf_s epieces M0 _ _ H0 Hb) as [R1 R2].
    set (B0 := regroup (S5.g_ws0 g) (S5.g_before g)) in *. set (wB0 := last_ws (S5.g_ws0 g) (S5.g_before g)) in *.
    set (t := S5.g_dtd g) in *.
    assert (Hd : dtd = true) by (apply Hdtd; unfold S5.has_dtd; rewrite Ex; reflexivity). subst dtd.
    assert (Eall : all_items = map snd B0 ++ subset_misc t ++ map snd B1 ++ root :: map snd A).
    { unfold all_items, S5.prolog_items. rewrite Ex, Eitems. unfold B0. rewrite (regroup_items epieces), <- app_assoc. reflexivity. }
    assert (Edec : decls = map enc_decl (ge_decls t)) by (unfold decls5; rewrite Ex; reflexivity).
    set (rest0 := r_doctype t ++ r_pairs B1 ++ wB1 ++ rest1).
    assert (Ebody : dtd_bytes ++ render main = r_pairs B0 ++ wB0 ++ rest0).
    { rewrite (dtd_bytes_shape g Ex), Emain. unfold rest0. rewrite <- !app_assoc. reflexivity. }
    destruct (doctype_head t (r_pairs B1 ++ wB1 ++ rest1)) as [ld Eld]. fold rest0 in Eld.
    assert (Hstop0 : CstDoc.misc_stop rest0) by (rewrite Eld; split; [reflexivity|split; reflexivity]).
    destruct (head_pairs B0 wB0 33 (68 :: ld) R1 R2 ltac:(lia)) as [Hdecl Hhead]. rewrite <- Eld, <- Ebody in Hdecl, Hhead.
    destruct (prefix_ok text (S5.x_bom d) (S5.x_decl d) (dtd_bytes ++ render main) text_eq Hvalid Hx Hdecl Hhead) as (P1 & P2 & HWp).
    rewrite P1. cbn [bind]. rewrite P2. cbn [bind]. clear P1 P2.
    set (p0 := pb (S5.x_bom d) + blen (r_opt r_xmldecl (S5.x_decl d))) in *.
    rewrite Ebody in HWp |- *.
    (* before the DOCTYPE *)
    rewrite Eall in NR. rewrite !(dens_app epieces M) in NR. cbn [CstFullTree.dens] in NR. rewrite !nsizes_app in NR.
    destruct (pairs_dens_s epieces M0 B0 R1) as (_ & _ & _ & Hn0 & _).
    assert (Ed0' : dens0 (map snd B0) = dens (map snd B0)).
    { apply items_indep. clear - R1. induction B0 as [|[w i] r IH]; [reflexivity|]. cbn [wf_pairs_s forallb fst snd] in R1.
      rewrite !andb_true_iff in R1. destruct R1 as [[[_ Hi] _] Hr]. cbn [map snd forallb]. rewrite Hi, (IH Hr). reflexivity. }
    pose proof (items_indep M (subset_misc t) (subset_misc_misc t Ht)) as Eds.
    rewrite <- Ed0', <- Eds in NR.
    unfold parse_misc. cbn [CstLex.st s_rest]. fold (CstLex.st text p0 (r_pairs B0 ++ wB0 ++ rest0)).
    destruct (misc_loop_ok_s_r epieces M0 (vstore_s5 d) (run_nodes_s5 d) CstFullS3.m0_val_lex CstFullS3.m0_run_valid text D HD [] (m0_val_norm_gr text [] (vstore_s5 d))
                B0 p0 wB0 rest0 c0 (S (length (r_pairs B0 ++ wB0 ++ rest0))) HWp R1 R2 Hstop0)
      as (c1 & K0 & E1 & S1 & I1 & A1 & Tr1 & F1 & Y1).
    { pose proof (pairs_len_s epieces M0 B0 R1). rewrite app_length. clia. }
    { exact I0. } { exact A0. } { unfold CstNsItems.node_room in *. clia. }
    rewrite E1. cbn [bind]. clear E1.
    pose proof (WV_app _ _ _ _ HWp (pairs_valid_s epieces M0 CstFullS3.m0_val_lex CstFullS3.m0_run_valid B0 R1)) as HWa.
    pose proof (WV_lit _ _ _ _ HWa (s_lit _ R2)) as HWd. pose proof (WV_W _ _ _ HWd) as HWd'.
    set (p1 := p0 + blen (r_pairs B0) + blen wB0) in *.
    rewrite (CstDoc.skip_spaces_none text) by (try exact HWd'; apply Hstop0).
    rewrite starts_with_st by exact HWd'. change (b "<!DOCTYPE") with E.kw_doctype.
    replace (prefix_b E.kw_doctype rest0) with true by (unfold rest0, r_doctype; rewrite <- !app_assoc; rewrite prefix_b_app_same; reflexivity).
    cbn [negb bind].
    pose proof (CstFullS5Items.Stepn_nodes_len _ _ _ _ S1) as Ln1.
    rewrite (CstFullS5Items.Forall2_len_N _ _ _ F1) in Ln1. unfold len_N at 3 in Ln1. rewrite NT.tag_list_len in Ln1.
    pose proof (CstFullS5Items.Stepn_opt _ _ _ _ (proj1 S1)) as Lo1.
    pose proof (CstFullS5Items.Stepn_attrs_len _ _ _ _ (proj1 S1)) as La1. change (len_N []) with 0 in La1.
    destruct (sn_keep _ _ _ _ (proj1 S1)) as (_ & Ee1 & _ & Eld1).
    (* the DOCTYPE *)
    unfold rest0 in HWd |- *.
    destruct (doctype_ok_r text D HD (vstore_s5 d) (run_nodes_s5 d) p1 t (r_pairs B1 ++ wB1 ++ rest1) c1 HWd Ht I1 A1) as (c2 & Kd & es & E2 & S2 & Henv & I2 & A2 & Tr2 & F2 & Es & Y2).
    { unfold CstNsItems.node_room in *. rewrite Ln1, Lo1. clia. }
    rewrite E2. cbn [bind]. clear E2.
    rewrite Ee1, Hes0 in S2. cbn [app] in S2. set (c1' := set_entities c1 es) in *.
    pose proof (CstFullS5Items.Stepn_nodes_len _ _ _ _ S2) as Ln2. cbn [c1' c_doc set_entities] in Ln2.
    rewrite (CstFullS5Items.Forall2_len_N _ _ _ F2) in Ln2. unfold len_N at 3 in Ln2. rewrite NT.tag_list_len in Ln2.
    pose proof (CstFullS5Items.Stepn_opt _ _ _ _ (proj1 S2)) as Lo2. cbn [c1' c_opt set_entities] in Lo2.
    pose proof (CstFullS5Items.Stepn_attrs_len _ _ _ _ (proj1 S2)) as La2. change (len_N []) with 0 in La2. cbn [c1' c_doc set_entities] in La2.
    destruct (sn_keep _ _ _ _ (proj1 S2)) as (_ & Ee2 & _ & Eld2). cbn [c1' c_entities c_ld set_entities] in Ee2, Eld2.
    assert (HC2 : CstFullBuild.NC es c2) by (split; [exact Ee2|rewrite Eld2, Eld1; exact Hld0]).
    rewrite <- Edec in Henv.
    pose proof (WV_app _ _ _ _ HWd (doctype_valid t Ht)) as HWe.
    set (p2 := p1 + blen (r_doctype t)) in *.
    (* between the DOCTYPE and the root *)
    unfold parse_misc. cbn [CstLex.st s_rest]. fold (CstLex.st text p2 (r_pairs B1 ++ wB1 ++ rest1)).
    destruct (misc_loop_ok_s_r epieces M0 (vstore_s5 d) (run_nodes_s5 d) CstFullS3.m0_val_lex CstFullS3.m0_run_valid text D HD es (m0_val_norm_gr text es (vstore_s5 d))
                B1 p2 wB1 rest1 c2 (S (length (r_pairs B1 ++ wB1 ++ rest1))) HWe Q1' Q2 Hstop1)
      as (c3 & K1 & E3 & S3 & I3 & A3 & Tr3 & F3 & Y3).
    { pose proof (pairs_len_s epieces M B1 Q1). rewrite app_length. clia. }
    { exact I2. } { exact A2. }
    { rewrite Ed1. unfold CstNsItems.node_room in *. rewrite Ln2, Lo2, Ln1, Lo1. clia. }
    rewrite Ed1 in F3. rewrite E3. cbn [bind]. clear E3.
    pose proof (WV_app _ _ _ _ HWe (pairs_valid_s epieces M (s3_val_lex decls) (s3_run_valid decls) B1 Q1)) as HWf.
    pose proof (WV_lit _ _ _ _ HWf (s_lit _ Q2)) as HWg.
    set (p3 := p2 + blen (r_pairs B1) + blen wB1) in *.
    pose proof (CstFullS5Items.Stepn_nodes_len _ _ _ _ S3) as Ln3.
    rewrite (CstFullS5Items.Forall2_len_N _ _ _ F3) in Ln3. unfold len_N at 3 in Ln3. rewrite NT.tag_list_len in Ln3.
    pose proof (CstFullS5Items.Stepn_opt _ _ _ _ (proj1 S3)) as Lo3.
    pose proof (CstFullS5Items.Stepn_attrs_len _ _ _ _ (proj1 S3)) as La3. change (len_N []) with 0 in La3.
    (* the root and the epilog *)
    destruct (tail_ok_r decls Hdk text D HD es Henv name ens ws body A wE p3 c3 H5 H7 HinD H6 H2 HWg I3) as (c5 & K23 & e23 & E5 & S5 & F5 & Y5).
    { apply (CstFullS5Items.Stepn_NC _ _ _ _ _ S3 HC2). }
    { exact A3. }
    { unfold CstNsItems.node_room in *. rewrite Ln3, Lo3, Ln2, Lo2, Ln1, Lo1. fold root. rewrite <- !N.add_assoc. exact NR. }
    { unfold CstNsItems.attr_room in *. rewrite La3, La2, La1. fold root. clia. }
    { unfold CstNsItems.ns_room in *. rewrite Tr3, Tr2, Tr1. fold root. exact SR. }
    fold root in E5, F5. fold rest1 in E5.
    match goal with |- exists cf K ext, ?X = Ok cf /\ _ => change X with (doc_tail text (CstLex.st text p3 rest1) c3) end. rewrite E5.
    exists c5, (K0 ++ Kd ++ K1 ++ K23), ([] ++ [] ++ [] ++ e23). split; [reflexivity|].
    destruct S1 as (S1 & P1a & P1b). destruct S2 as (S2 & P2a & P2b). destruct S3 as (S3 & P3a & P3b). destruct S5 as (S5 & P5a & P5b).
    cbn [c1' c_parent_id c_parent_prefixes set_entities] in P2a, P2b.
    split; [|split].
    + rewrite (sn_nodes _ _ _ _ S5), (sn_nodes _ _ _ _ S3), (sn_nodes _ _ _ _ S2). cbn [c1' c_doc set_entities].
      rewrite (sn_nodes _ _ _ _ S1), <- !app_assoc. reflexivity.
    + rewrite (sn_attrs _ _ _ _ S5), (sn_attrs _ _ _ _ S3), (sn_attrs _ _ _ _ S2). cbn [c1' c_doc set_entities].
      rewrite (sn_attrs _ _ _ _ S1), <- !app_assoc. reflexivity.
    + (* where things are *)
      assert (Ep0 : p0 = s5_start d) by (unfold p0, s5_start, pb, nlen, blen; reflexivity).
      assert (Ep1 : p1 = s5_dtd_offset d g).
      { unfold p1, s5_dtd_offset, fbefore_len, B0, wB0. rewrite <- Ep0.
        pose proof (f_equal (@length N) (regroup_render epieces (S5.g_before g) (S5.g_ws0 g))) as E.
        rewrite !app_length in E. unfold nlen, blen. clear - E. lia. }
      assert (Mb0 : forallb (fun x => is_misc epieces (fst x)) (S5.g_before g) = true).
      { clear - Hb. apply forallb_forall. intros x Hx. rewrite forallb_forall in Hb. specialize (Hb x Hx). rewrite !andb_true_iff in Hb. tauto. }
      assert (Mm : forallb (fun x => is_misc epieces (fst x)) (d_before main) = true /\ forallb (fun x => is_misc epieces (snd x)) (d_after main) = true).
      { clear - H3 H6. split; apply forallb_forall; intros x Hx.
        - rewrite forallb_forall in H3. specialize (H3 x Hx). rewrite !andb_true_iff in H3. tauto.
        - unfold wf_pairs_s in H6. rewrite forallb_forall in H6. specialize (H6 x Hx). rewrite !andb_true_iff in H6. tauto. }
      destruct Mm as [Mm1 Mm2].
      unfold s5_items_at. rewrite Ex. fold t. rewrite <- Ep1, <- Ep0.
      change (nlen (r_doctype t)) with (blen (r_doctype t)). fold p2.
      rewrite (fdoc_items_from_eq_m epieces main p2 Mm1 Mm2). cbv zeta. fold B1 wB1 A. fold p3. rewrite Er. fold root.
      rewrite <- (fpairs_at_regroup_m epieces (S5.g_before g) p0 (S5.g_ws0 g) Mb0). fold B0.
      (* the table of the values *)
      assert (Evt : s5_vtable d = vt_of decls es).
      { unfold s5_vtable. rewrite Ex. fold t. rewrite <- Ep1, Es, Edec. symmetry. apply vt_of_sents. }
      assert (Etb : S5.table d = E.level decls E.max_level) by apply table5.
      unfold run_nodes_s5, vstore_s5 in *. rewrite Evt, Etb in *.
      eapply CstRangeFItems.ExtraF_app; [apply (ExtraF_misc_indep _ _ _ _ _ _ _ _ _ _ _ _ _ (fpairs_misc_s _ _ _ R1) Y1)|].
      eapply CstRangeFItems.ExtraF_app; [apply (ExtraF_misc_indep _ _ _ _ _ _ _ _ _ _ _ _ _ (smisc_misc _ _ Ht) Y2)|].
      eapply CstRangeFItems.ExtraF_app; [apply (ExtraF_misc_indep _ _ _ _ _ _ _ _ _ _ _ _ _ (fpairs_misc_s _ _ _ Q1') Y3)|].
      exact Y5.
  - (* without a DOCTYPE *)
    assert (Eall : all_items = map snd B1 ++ root :: map snd A).
    { unfold all_items, S5.prolog_items. rewrite Ex, Eitems. reflexivity. }
    assert (Edec : decls = []) by (unfold decls5; rewrite Ex; reflexivity).
    assert (Ebody : dtd_bytes ++ render main = r_pairs B1 ++ wB1 ++ rest1).
    { unfold dtd_bytes. rewrite Ex, Emain. reflexivity. }
    assert (Erest : exists l', rest1 = 60 :: n :: l') by (unfold rest1; rewrite El; cbn [app]; eexists; reflexivity).
    destruct Erest as [l' Erest].
    destruct (head_pairs B1 wB1 n l' Q1' Q2 H63) as [Hdecl Hhead]. rewrite <- Erest, <- Ebody in Hdecl, Hhead.
    destruct (prefix_ok text (S5.x_bom d) (S5.x_decl d) (dtd_bytes ++ render main) text_eq Hvalid Hx Hdecl Hhead) as (P1 & P2 & HWp).
    rewrite P1. cbn [bind]. rewrite P2. cbn [bind]. clear P1 P2.
    set (p0 := pb (S5.x_bom d) + blen (r_opt r_xmldecl (S5.x_decl d))) in *.
    rewrite Ebody in HWp |- *.
    rewrite Eall in NR. rewrite !(dens_app epieces M) in NR. cbn [CstFullTree.dens] in NR. rewrite !nsizes_app in NR.
    unfold parse_misc. cbn [CstLex.st s_rest]. fold (CstLex.st text p0 (r_pairs B1 ++ wB1 ++ rest1)).
    destruct (misc_loop_ok_s_r epieces M0 (vstore_s5 d) (run_nodes_s5 d) CstFullS3.m0_val_lex CstFullS3.m0_run_valid text D HD [] (m0_val_norm_gr text [] (vstore_s5 d))
                B1 p0 wB1 rest1 c0 (S (length (r_pairs B1 ++ wB1 ++ rest1))) HWp Q1' Q2 Hstop1)
      as (c3 & K1 & E3 & S3 & I3 & A3 & Tr3 & F3 & Y3).
    { pose proof (pairs_len_s epieces M B1 Q1). rewrite app_length. clia. }
    { exact I0. } { exact A0. } { rewrite Ed1. unfold CstNsItems.node_room in *. clia. }
    rewrite Ed1 in F3. rewrite E3. cbn [bind]. clear E3.
    pose proof (WV_app _ _ _ _ HWp (pairs_valid_s epieces M (s3_val_lex decls) (s3_run_valid decls) B1 Q1)) as HWf.
    pose proof (WV_lit _ _ _ _ HWf (s_lit _ Q2)) as HWg. pose proof (WV_W _ _ _ HWg) as HWg'.
    set (p3 := p0 + blen (r_pairs B1) + blen wB1) in *.
    rewrite (CstDoc.skip_spaces_none text) by (try exact HWg'; apply Hstop1).
    rewrite starts_with_st by exact HWg'. change (b "<!DOCTYPE") with [60; 33; 68; 79; 67; 84; 89; 80; 69]. rewrite Hdt1. cbn [bind].
    pose proof (CstFullS5Items.Stepn_nodes_len _ _ _ _ S3) as Ln3.
    rewrite (CstFullS5Items.Forall2_len_N _ _ _ F3) in Ln3. unfold len_N at 3 in Ln3. rewrite NT.tag_list_len in Ln3.
    pose proof (CstFullS5Items.Stepn_opt _ _ _ _ (proj1 S3)) as Lo3.
    pose proof (CstFullS5Items.Stepn_attrs_len _ _ _ _ (proj1 S3)) as La3. change (len_N []) with 0 in La3.
    destruct (sn_keep _ _ _ _ (proj1 S3)) as (_ & Ee3 & _ & Eld3).
    assert (Henv : Forall2 (uent_ok text) decls []) by (rewrite Edec; constructor).
    destruct (tail_ok_r decls Hdk text D HD [] Henv name ens ws body A wE p3 c3 H5 H7 HinD H6 H2 HWg I3) as (c5 & K23 & e23 & E5 & S5 & F5 & Y5).
    { split; [rewrite Ee3; exact Hes0|rewrite Eld3; exact Hld0]. }
    { exact A3. }
    { unfold CstNsItems.node_room in *. rewrite Ln3, Lo3. fold root. rewrite <- !N.add_assoc. exact NR. }
    { unfold CstNsItems.attr_room in *. rewrite La3. fold root. clia. }
    { unfold CstNsItems.ns_room in *. rewrite Tr3. fold root. exact SR. }
    fold root in E5, F5. fold rest1 in E5.
    match goal with |- exists cf K ext, ?X = Ok cf /\ _ => change X with (doc_tail text (CstLex.st text p3 rest1) c3) end. rewrite E5.
    exists c5, (K1 ++ K23), ([] ++ e23). split; [reflexivity|].
    destruct S3 as (S3 & P3a & P3b). destruct S5 as (S5 & P5a & P5b).
    split; [|split].
    + rewrite (sn_nodes _ _ _ _ S5), (sn_nodes _ _ _ _ S3), <- !app_assoc. reflexivity.
    + rewrite (sn_attrs _ _ _ _ S5), (sn_attrs _ _ _ _ S3), <- !app_assoc. reflexivity.
    + assert (Ep0 : p0 = s5_start d) by (unfold p0, s5_start, pb, nlen, blen; reflexivity).
      assert (Mm : forallb (fun x => is_misc epieces (fst x)) (d_before main) = true /\ forallb (fun x => is_misc epieces (snd x)) (d_after main) = true).
      { clear - H3 H6. split; apply forallb_forall; intros x Hx.
        - rewrite forallb_forall in H3. specialize (H3 x Hx). rewrite !andb_true_iff in H3. tauto.
        - unfold wf_pairs_s in H6. rewrite forallb_forall in H6. specialize (H6 x Hx). rewrite !andb_true_iff in H6. tauto. }
      destruct Mm as [Mm1 Mm2].
      unfold s5_items_at. rewrite Ex, <- Ep0.
      rewrite (fdoc_items_from_eq_m epieces main p0 Mm1 Mm2). cbv zeta. fold B1 wB1 A. fold p3. rewrite Er. fold root.
      assert (Evt : s5_vtable d = vt_of decls []) by (unfold s5_vtable; rewrite Ex, Edec; reflexivity).
      assert (Etb : S5.table d = E.level decls E.max_level) by apply table5.
      unfold run_nodes_s5, vstore_s5 in *. rewrite Evt, Etb in *.
      eapply CstRangeFItems.ExtraF_app; [apply (ExtraF_misc_indep _ _ _ _ _ _ _ _ _ _ _ _ _ (fpairs_misc_s _ _ _ Q1') Y3)|].
      exact Y5.
Qed.

End Doc5R.

Print Assumptions parse_document_ok_5_r.

(* ------------------------------------------------------------------------------------------ *)
(* what parse observes on a rendered document of stage S5                                     *)
(* ------------------------------------------------------------------------------------------ *)
Lemma parse_observed_f5 : forall (d : S5.doc) (opt : options) doc,
  S5.wf_doc d = true -> (S5.has_dtd d = true -> allow_dtd opt = true) ->
  N.of_nat (length (S5.sem d)) < nodes_limit opt ->
  N.of_nat (length (S5.render d)) <= u32_max ->
  S5.distinct_decls_le d (N.to_nat 65535) ->
  1 + N.of_nat (S5.ns_cost d) <= u32_max ->
  parse (S5.render d) opt = Ok doc ->
  map nd_range (d_nodes doc) = (0, tlen (S5.render d)) :: fspans5 d /\
  (exists k0, map nd_kind (d_nodes doc) = KRoot :: k0 /\ Forall2 fkshape k0 (fshapes5 d)) /\
  Forall2 fattr_obs (d_attrs doc) (fattr_spans5 d) /\
  d_ns_values doc = xml_ns :: map nsv_of (fns_table5 d).
Proof.
  intros d opt doc Hwf Hdtd Hlim Hsz Hdist Hcost H. destruct (s5_render_bounds d Hwf) as [B1 B2]. set (text := S5.render d) in *.
  unfold fns_table5. unfold S5.distinct_decls_le, S5.ns_cost in *. rewrite s5_meaning in *.
  set (D := doc_decls (M5 d) (S5.x_main d)).
  assert (HD : forall l, NoDup l -> incl l D -> N.of_nat (length l) <= 65535).
  { intros l N1 N2. pose proof (Hdist l N1 N2). lia. }
  assert (Hsz' : NT.nsizes (dens5 (M5 d) (all_items d)) = N.of_nat (length (S5.sem d))).
  { rewrite (sem_all d), CstFullMain.sem_items_len. reflexivity. }
  destruct (parse_document_ok_5_r d Hwf D HD (incl_refl _) (allow_dtd opt) (init_ctx text opt) Hdtd (CstNsMain.init_ctx_CIn text D opt) eq_refl eq_refl eq_refl)
    as (cf & K & ext & E & Habs & Hattrs & (X1 & X2 & X3 & X4)).
  { unfold CstNsItems.node_room. cbn [CstNsMain.init_ctx c_doc c_opt d_nodes]. rewrite Hsz'. unfold len_N. cbn [length]. unfold u32_max in *. lia. }
  { unfold CstNsItems.attr_room. cbn [CstNsMain.init_ctx c_doc d_attrs]. unfold len_N. cbn [length]. unfold u32_max in *. lia. }
  { unfold CstNsItems.ns_room. cbn [CstNsMain.init_ctx c_doc d_ns_tree]. unfold len_N. cbn [length]. lia. }
  fold text in E. unfold tok_ev in E. rewrite (parse_is_doc_ns text opt cf doc E H).
  split; [exact X3|]. split; [|split].
  - exists (map snd K). split; [|exact X1].
    rewrite <- absn_kinds, Habs, map_app. reflexivity.
  - rewrite Hattrs. cbn [CstNsMain.init_ctx c_doc d_attrs app]. exact X2.
  - destruct X4 as [_ X4]. rewrite X4. reflexivity.
Qed.

(* ------------------------------------------------------------------------------------------ *)
(* (1) the ranges                                                                             *)
(* ------------------------------------------------------------------------------------------ *)
Theorem parse_render_ranges_f5 : forall (d : S5.doc) (opt : options) doc,
  S5.wf_doc d = true ->
  (S5.has_dtd d = true -> allow_dtd opt = true) ->                (* a DOCTYPE needs the option *)
  N.of_nat (length (S5.sem d)) < nodes_limit opt ->               (* room for all nodes + the Root *)
  N.of_nat (length (S5.render d)) <= u32_max ->                    (* the input is at most u32::MAX bytes long *)
  S5.distinct_decls_le d (N.to_nat 65535) ->                       (* at most 65535 distinct declared bindings *)
  1 + N.of_nat (S5.ns_cost d) <= u32_max ->                        (* the namespace table fits *)
  parse (S5.render d) opt = Ok doc ->
  (* every node below the Root, in document order -- the comments / PIs before the DOCTYPE, those of
     the internal subset, those between the DOCTYPE and the root element, the root element with all
     it contains, those after it: the span of the construct it was read from -- in the document, or
     (a Text node that starts with the value of an entity) inside the literal of the entity
     declaration in the internal subset *)
  map nd_range (tl (d_nodes doc)) = fspans5 d /\
  (* the Root: the whole input, the byte order mark and the XML declaration included *)
  (exists root, nth_N (d_nodes doc) 0 = Some root /\ nd_range root = (0, N.of_nat (length (S5.render d)))) /\
  (* all these offsets are on character boundaries *)
  Forall (fun r => is_boundary (S5.render d) (fst r) = true /\ is_boundary (S5.render d) (snd r) = true) (fspans5 d).
Proof.
  intros d opt doc Hwf Hdtd Hlim Hsz Hd Hc H. destruct (parse_observed_f5 d opt doc Hwf Hdtd Hlim Hsz Hd Hc H) as (R & _ & _ & _).
  pose proof (RangeParse.parse_ranges_valid _ opt doc (render_valid_utf8_s5 d Hwf) H) as (G & _ & _).
  destruct (d_nodes doc) as [|root nodes]; [discriminate|]. cbn [map tl] in *. injection R as R0 R1.
  split; [exact R1|]. split; [exists root; split; [reflexivity|exact R0]|].
  rewrite <- R1. apply Forall_forall. intros r Hr. apply in_map_iff in Hr. destruct Hr as (nd & <- & Hin).
  destruct (G nd (or_intror Hin)) as (_ & _ & B1 & B2). split; assumption.
Qed.
Print Assumptions parse_render_ranges_f5.

Theorem parse_render_attr_ranges_f5 : forall (d : S5.doc) (opt : options) doc,
  S5.wf_doc d = true -> (S5.has_dtd d = true -> allow_dtd opt = true) ->
  N.of_nat (length (S5.sem d)) < nodes_limit opt ->
  N.of_nat (length (S5.render d)) <= u32_max ->
  S5.distinct_decls_le d (N.to_nat 65535) ->
  1 + N.of_nat (S5.ns_cost d) <= u32_max ->
  fattrs_small5 d ->                                           (* below the saturation limits *)
  parse (S5.render d) opt = Ok doc ->
  map (fun a => (ad_range a, attr_range_qname a, attr_range_value a)) (d_attrs doc) =
  map (fun s => (fa_range s, fa_qname s, Ok (fa_value s))) (fattr_spans5 d).
Proof.
  intros d opt doc Hwf Hdtd Hlim Hsz Hd Hc Hsmall H. destruct (parse_observed_f5 d opt doc Hwf Hdtd Hlim Hsz Hd Hc H) as (_ & _ & A & _).
  apply (obs_ranges _ _ A); [apply items_aspans_ok|exact Hsmall].
Qed.
Print Assumptions parse_render_attr_ranges_f5.

(* ------------------------------------------------------------------------------------------ *)
(* (2) what is stored (C18)                                                                   *)
(* ------------------------------------------------------------------------------------------ *)
Theorem parse_render_storage_f5 : forall (d : S5.doc) (opt : options) doc,
  S5.wf_doc d = true -> (S5.has_dtd d = true -> allow_dtd opt = true) ->
  N.of_nat (length (S5.sem d)) < nodes_limit opt ->
  N.of_nat (length (S5.render d)) <= u32_max ->
  S5.distinct_decls_le d (N.to_nat 65535) ->
  1 + N.of_nat (S5.ns_cost d) <= u32_max ->
  parse (S5.render d) opt = Ok doc ->
  (* every node holds exactly what [fshapes5] says: comments and PIs (those of the prolog and of the
     internal subset too) hold slices of the input; a Text node is Borrowed with the span of its only
     fragment -- a literal or a CDATA section of the document, or the literal value of an entity inside
     the internal subset, through any nesting of references that add nothing else -- or Owned with its text *)
  Forall2 stored_as_f (map nd_kind (tl (d_nodes doc))) (fshapes5 d) /\
  (* every ordinary attribute: local name = slice of the written local part; a value with a
     reference is Owned with the normalised value *)
  Forall2 attr_stored_f (d_attrs doc) (fattr_spans5 d) /\
  (* the namespace table, as in stage S2; a URI written with an entity reference is Owned *)
  d_ns_values doc = xml_ns :: map ns_entry_of (fns_table5 d).
Proof.
  intros d opt doc Hwf Hdtd Hlim Hsz Hd Hc H.
  destruct (parse_observed_f5 d opt doc Hwf Hdtd Hlim Hsz Hd Hc H) as (_ & (k0 & Hk & HF) & A & V).
  split; [|split; [|exact V]].
  - destruct (d_nodes doc) as [|root nodes]; [discriminate|]. cbn [map tl] in *. injection Hk as _ Hk. rewrite Hk. exact HF.
  - clear - A. induction A as [|a s l l' (_ & O2 & _ & _ & O5) _ IH]; constructor; [split; assumption|exact IH].
Qed.
Print Assumptions parse_render_storage_f5.

(* ------------------------------------------------------------------------------------------ *)
(* example (vm_compute): the model against the definitions                                    *)
(* ------------------------------------------------------------------------------------------ *)
Module ExamplesF5.
Import Example5.

Definition obs (c : S5.doc) :=
  match parse (S5.render c) opt with
  | Ok d => Some (map nd_range (d_nodes d),
                  map (fun nd => match nd_kind nd with
                                 | KText (Borrowed (SIn s)) => Some (TBorrowed (sl_start s, sl_end s))
                                 | KText (Owned bs) => Some (TOwned bs)
                                 | _ => None end) (tl (d_nodes d)),
                  map (fun a => (ad_range a, attr_range_qname a, attr_range_value a, (sl_start (ad_local a), sl_end (ad_local a)))) (d_attrs d),
                  tl (d_ns_values d))
  | _ => None
  end.
Definition expd (c : S5.doc) :=
  Some ((0, tlen (S5.render c)) :: fspans5 c,
        map (fun sh => match sh with TSText st => Some st | _ => None end) (fshapes5 c),
        map (fun s => (fa_range s, fa_qname s, Ok (fa_value s), fa_local s)) (fattr_spans5 c),
        map ns_entry_of (fns_table5 c)).

(* the example of CstFullS5.v: byte order mark, XML declaration, a comment before the DOCTYPE, a
   comment and a PI inside the internal subset (nodes below the Root), an entity-derived Text node
   whose range lies inside the subset *)
Example ex_obs : S5.wf_doc ex = true /\ obs ex = expd ex /\
  tlen (S5.render ex) = 369 /\
  fspans5 ex = [(65, 73); (115, 137); (273, 293); (298, 355); (237, 246); (340, 345); (356, 368)].
Proof. vm_compute. repeat split; reflexivity. Qed.
End ExamplesF5.
