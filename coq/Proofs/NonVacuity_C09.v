(* Proofs/NonVacuity_C09.v -- non-vacuity of the hypotheses of the theorems pinned under C09 that
   had no instance yet: the trace theorems of DetectorProofs.v, budget_no_entities, and a concrete
   builder context for the token-level cycle theorems (CycleExamples.v gives closed3 / attr_closed3 /
   value_into and instance_doc3, which is still universally quantified over the context).
   (Whole-document limit theorems: CstEntRejSanity.v, CstFullRejSanity.v instantiate them.) *)
From Coq Require Import Ascii String List NArith Bool Lia.
Import ListNotations.
From RX Require Import Generated.
From RX.Model Require Import Base CharClass Stream Tokenizer Doc Builder Parse Api.
From RX.Spec Require Import Detector.
From RX.Proofs Require Import DetectorProofs BudgetNoEnt CycleStream CycleContent CycleAttr CycleEntered CycleExamples
     NonVacuity_Doc.
Open Scope N_scope.

(* ---- DetectorProofs.v ---- *)

(* two top-level references, the first one with two nested references *)
Definition tr0 : list lop := [Enter; Enter; Exit; Enter; Exit; Exit; Enter; Exit].

Example nv_detector_sound :
  exists st, ld_run ld_init tr0 = Some st /\ depth_after 0 tr0 <> None.
Proof. eexists. split; vm_compute; [reflexivity|discriminate]. Qed.

Example nv_detector_complete : within_limits ld_max_depth ld_max_refs 0 0 tr0 = true.
Proof. vm_compute. reflexivity. Qed.

Example nv_detector_complete_applied : accepted tr0.
Proof. exact (detector_complete tr0 nv_detector_complete). Qed.

Example nv_limits_bound_depth :
  within_limits 10 255 0 0 tr0 = true /\ tr0 = [Enter; Enter] ++ [Exit; Enter; Exit; Exit; Enter; Exit].
Proof. split; vm_compute; reflexivity. Qed.

Example nv_limits_bound_nested :
  within_limits 10 255 0 0 ([] ++ Enter :: [Enter; Exit; Enter; Exit] ++ [Exit; Enter; Exit]) = true /\
  depth_after 0 [] = Some 0 /\
  (forall p q, [Enter; Exit; Enter; Exit] = p ++ q -> exists d, depth_after 1 p = Some d /\ 1 <= d).
Proof.
  split; [vm_compute; reflexivity|]. split; [reflexivity|].
  intros p q E.
  destruct p as [|x1 [|x2 [|x3 [|x4 [|x5 p]]]]]; cbn in E; inversion E; subst;
    eexists; (split; [vm_compute; reflexivity|vm_compute; discriminate]).
Qed.

Example nv_limits_bound_nested_applied : count_enter [Enter; Exit; Enter; Exit] <= 255.
Proof.
  destruct nv_limits_bound_nested as (H1 & H2 & H3).
  exact (limits_bound_nested 10 255 [] _ _ H1 H2 H3).
Qed.

(* ---- BudgetNoEnt.v ---- *)
Definition text_nodtd : bytes := b "<r xmlns:p='u' a='1'><p:c b='x&amp;'>t&#65;<!--k--></p:c><d/></r>".

Example nv_budget_no_entities :
  exists d, parse text_nodtd opt0 = Ok d /\ contains_b (b "<!DOCTYPE") text_nodtd = false.
Proof. eexists. split; vm_compute; reflexivity. Qed.

(* ---- the token-level cycle theorems: a concrete context ---- *)
(* the state of the builder after <r> of doc3 (CycleExamples.v): Root and the open element r, the
   entity table es3, no pending text *)
Definition c3 : context :=
  {| c_opt := CycleExamples.o; c_ns_start_idx := 1; c_cur_attrs := []; c_awaiting := [];
     c_parent_prefixes := [empty_slice; empty_slice]; c_entities := es3; c_after_text := [];
     c_parent_id := 1; c_tag_name := tag_name_null; c_entity_floor := 0; c_ld := ld_init;
     c_doc := {| d_nodes := [ {| nd_parent := None; nd_prev_sibling := None; nd_next_subtree := None;
                                nd_last_child := Some 1; nd_kind := KRoot; nd_range := (0, 78) |};
                              {| nd_parent := Some 0; nd_prev_sibling := None; nd_next_subtree := None;
                                nd_last_child := None;
                                nd_kind := KElement None (sl 69 70) (0, 0) (0, 1); nd_range := (68, 71) |} ];
                 d_attrs := [];
                 d_ns_values := [{| ns_name := Some (SStatic ns_xml_prefix); ns_uri := Borrowed (SStatic ns_xml_uri) |}];
                 d_ns_tree := [0] |} |}.

Example nv_app_ok : c_entities c3 = es3 /\ app_ok c3.
Proof.
  split; [reflexivity|]. right. intros t r. unfold append_text. cbn [c_after_text c3].
  unfold append_node. cbn. eexists. reflexivity.
Qed.

(* cycle_entered, fully instantiated (instance_doc3 of CycleExamples.v applied to c3) *)
Example nv_cycle_entered_applied :
  exists s0 p, stream_from_substr doc3 61 64 = Ok s0 /\
               parse_content_lvl doc3 entity_levels s0 c3 = Err (EntityReferenceLoop p).
Proof.
  assert (Hs : exists s0, stream_from_substr doc3 61 64 = Ok s0) by (eexists; vm_compute; reflexivity).
  destruct Hs as [s0 Hs]. destruct nv_app_ok as [He Ha].
  destruct (instance_doc3 c3 He Ha entity_levels s0 (le_n _) Hs) as [p Hp]. eauto.
Qed.

(* cycle_in_content_token: a text token "&a;" (a is a member of the closed set) -- here the
   reference inside the value of c (bytes 61..64 of doc3) read as a text token *)
Example nv_cycle_in_content_token :
  sl_start (sl 61 64) = fst (61, 64) /\ sl_end (sl 61 64) = snd (61, 64) /\ fst (61, 64) <= snd (61, 64) /\
  snd (61, 64) <= tlen doc3 /\
  sub doc3 (fst (61, 64)) (snd (61, 64)) = [] ++ 38 :: b "a" ++ 59 :: [] /\
  plain [] /\ ascii_name (b "a") /\ predefined_b (b "a") = false /\ S3 (b "a") /\
  is_boundary doc3 (fst (61, 64) + blen [] + blen (b "a") + 2) = true.
Proof.
  repeat split; try (vm_compute; first [reflexivity | discriminate]). left. reflexivity.
Qed.

Example nv_cycle_in_content_token_applied :
  exists p, Parse.token doc3 (TText (sl 61 64) (61, 64)) c3 = Err (EntityReferenceLoop p).
Proof.
  destruct nv_cycle_in_content_token as (H1 & H2 & H3 & H4 & H5 & H6 & H7 & H8 & H9 & H10).
  destruct nv_app_ok as [He Ha].
  exact (cycle_in_content_token doc3 es3 S3 closed3 (sl 61 64) (61, 64) c3 [] (b "a") [] H1 H2 H3 H4 H5 H6 H7 H8 H9 H10 He Ha).
Qed.

(* cycle_in_content_entered: the text token "&c;" of the document itself (bytes 71..74): c is
   outside the closed set, its value leads into it *)
Example nv_cycle_in_content_entered :
  find_entity doc3 es3 (b "c") = Some {| en_name := sl 58 59; en_value := sl 61 64 |} /\
  value_into doc3 S3 (sl 61 64) /\
  sub doc3 71 74 = [] ++ 38 :: b "c" ++ 59 :: [] /\
  ascii_name (b "c") /\ predefined_b (b "c") = false /\ is_boundary doc3 (71 + blen [] + blen (b "c") + 2) = true.
Proof.
  split; [vm_compute; reflexivity|]. split; [exact c_enters|].
  repeat split; vm_compute; reflexivity.
Qed.

(* cycle_in_normalize_attribute: the value of entity c read as an attribute value *)
Example nv_cycle_in_normalize_attribute : attr_value_into doc3 S3 (sl 61 64) /\ c_entities c3 = es3.
Proof.
  split; [|reflexivity]. exists [], (b "a"), []. cbn [sl sl_start sl_end].
  repeat split; try (vm_compute; first [reflexivity | discriminate]). left. reflexivity.
Qed.

Example nv_cycle_in_normalize_attribute_applied :
  exists p, normalize_attribute doc3 (sl 61 64) c3 = Err (EntityReferenceLoop p).
Proof.
  destruct nv_cycle_in_normalize_attribute as [H1 H2].
  exact (cycle_in_normalize_attribute doc3 es3 S3 attr_closed3 (sl 61 64) c3 H1 H2).
Qed.
