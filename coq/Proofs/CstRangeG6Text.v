(* Proofs/CstRangeG6Text.v -- C13 / C18 on the capstone fragment, stage S6 (Spec/CstFullS6.v): Proofs/CstFullS6Text.v
   (character data whose references may stand for ITEMS) once more, observing the ranges: every
   fragment appended to the open run of character data with the range it is appended with, and
   what is observed of the nodes appended meanwhile (CstRangeG6Ev.v [Extra] on the events of
   CstRangeG6Defs.v).  The statements are those of that file with the observations added. *)
From Coq Require Import Ascii String.
From Coq Require Import List NArith PeanoNat Bool Lia ZifyBool ZifyN ZifyNat.
Import ListNotations.
From RX Require Import Generated.
From RX.Model Require Import Base CharClass Stream Tokenizer Doc Builder Parse.
From RX.Spec Require Cst CstText CstEnt Detector Scope CstU CstNs.
From RX.Spec Require Chars.
From RX.Spec Require Import CstFullS5.
From RX.Spec Require Import Text CstFull CstFullS4.
From RX.Spec Require Import CstFullS6.
From RX.Proofs Require Import Tactics CstLex CstBuild CstULex TextMachine TextMerge HoistProofs NoPanicUtf8 DetectorProofs.
From RX.Proofs Require Import CstTextSem CstTextLex CstTextBuild CstEntSem CstEntMeaning CstEntRun CstEntInline.
From RX.Proofs Require Import CstNsLex CstNsView CstNsBuild CstFullLex CstFullBuild CstFullTree.
From RX.Proofs Require Import CstFullS2Sem CstFullS2Lex CstFullS2Build CstFullS3Sem CstFullS3Text CstFullS3Plug.
From RX.Proofs Require Import CstEntCFloor CstEntCBuild CstEntCSem CstEntCLoop.
From RX.Proofs Require Import CstFullS4Sem CstFullS4TSem CstFullS4TText CstFullS4Build CstFullS4Attr.
From RX.Proofs Require Import CstFullS5Ws CstFullS6Text.
From RX.Proofs Require CstEntText CstEntCLex CstEntCText CstFullS6Lex CstNsItems CstNsDoc CstFullItems CstTextItems.
From RX.Proofs Require Import CstRangeDefs CstRangeBuild CstRangeTDefs CstRangeTBuild CstRangeEDefs CstRangeEText CstRangeEFrags.
From RX.Proofs Require Import CstRangeFDefs CstRangeFBuild CstRangeFItems CstRangeGDefs.
From RX.Proofs Require Import CstRangeG6Defs CstRangeG6Sem CstRangeG6Build CstRangeG6Ev.
From RX.Proofs Require CstRangeGText CstRangeG5Frags CstRangeG6Frags CstRangeG6TText.
Open Scope N_scope.

Ltac clia := repeat match goal with H : @eq bool _ true |- _ => clear H end; lia.

(* the events of a reference to the entity n whose value was recorded at vs *)
Definition ref_evs (vt : xvt) (ent : N -> list uitem -> list lev) (vs : N) (v : xvalue) : list lev :=
  match v with
  | XText vps =>
    let V := E.r_epieces (enc_epieces vps) in
    let vr := (vs, vs + nlen V) in
    match V with
    | [] => []
    | _ => map LFrag (if has_amp_cr V then frs_ps E.max_level (tvt vt) false (enc_epieces vps) vr else [(vr, Some vr)])
    end
  | XContent its => ent vs its
  end.

Lemma lev_ps_ref vt ent ne n rest r : lev_ps vt ent ne (E.ERef n :: rest) r =
  (if ne then [LFrag (r, None)] else []) ++
  match xvlookup vt n with Some (vs, v) => ref_evs vt ent vs v | None => [] end ++ lev_ps vt ent false rest r.
Proof. cbn [lev_ps]. destruct (xvlookup vt n) as [[vs [vps|its]]|]; reflexivity. Qed.

Section MachineR.
Variable text : bytes.
Variable D : list Scope.binding.
Hypothesis HD : forall l, NoDup l -> incl l D -> N.of_nat (length l) <= 65535.
Variable decls : list xdecl.
Variable es : list entity.
Hypothesis Henv : Forall2 (uent_ok text) (map pd decls) es.
Hypothesis Hdecls : Forall udecl_okc (map pd decls).
Hypothesis Hcont : Forall decl_cont decls.

Notation W := (CstLex.W text).
Notation WV := (CstULex.WV text).
Notation evl := (CstEntCBuild.evl text).
Notation CIn := (CstNsBuild.CIn text D).
Notation kmn := (CstNsBuild.kmn text).
Notation decls3 := (map pd decls).
Notation OR := (CstFullS6Text.OR text D es).
Notation Res := (CstFullS6Text.Res text D es).
Notation Rooms := CstFullS6Text.Rooms.
Notation NsOk := (CstFullS6Text.NsOk D).
Notation SemI := (CstEntCText.SemI text).
Notation OR_frame := (CstFullS6Text.OR_frame text D es).
Notation NsOk_app := (CstFullS6Text.NsOk_app D).
Notation Res_app := (CstFullS6Text.Res_app text D HD es).
Notation Rooms_app_l := (CstFullS6Text.Rooms_app_l D HD).
Notation Rooms_app_r := (CstFullS6Text.Rooms_app_r text D HD es).
Notation Res_nil := (CstFullS6Text.Res_nil text D HD es).
Notation first_xdecl_in := (CstFullS6Text.first_xdecl_in decls).
Notation or_run := (CstFullS6Text.or_run text D es).
Notation or_es := (CstFullS6Text.or_es text D es).
Notation usteps_le := (CstFullS6Text.usteps_le D HD).
Notation usteps_list_le := (CstFullS6Text.usteps_list_le D HD).
Notation sst4 := CstEntCLex.st.
Notation WVs := (CstFullS6Lex.WV text).
Notation RunR := CstRangeEText.RunR.
Notation ExpG := (CstRangeEText.ExpG text decls3 es).
Notation ValG := (CstRangeEText.ValG text decls3 es).
Notation run_append_n_r := (CstRangeGText.run_append_n_r text D).
Notation finish_emit_u_r := (CstRangeGText.finish_emit_u_r text D).
Notation TL_u_r := (CstRangeG6TText.TL_u_r text D HD decls3 es Henv Hdecls).
Notation emitG_desc := (CstRangeG6Frags.emitG_desc).
Notation ValG_frs := (CstRangeG6Frags.ValG_frs text decls3 es Henv Hdecls).

Notation vt := (xvt_of decls es).
Notation tbm := (E.level decls3 E.max_level).
Notation Extra := (CstRangeG6Ev.Extra text (ents_meaning tbm) (vstore3 tbm)).
Notation Extra_app := (CstRangeG6Ev.Extra_app text (ents_meaning tbm) (vstore3 tbm)).
Notation Extra_nil := (CstRangeG6Ev.Extra_nil text (ents_meaning tbm) (vstore3 tbm)).
Notation Extra_frags := (CstRangeG6Ev.Extra_frags text (ents_meaning tbm) (vstore3 tbm)).

Lemma firstn1_app {A} (l G : list A) : l <> [] -> firstn 1 (l ++ G) = firstn 1 l.
Proof. destruct l; [congruence|reflexivity]. Qed.

(* ---- one more string: the buffer of a text token, flushed ---- *)
Lemma buf_flush_r inh m bacc bps r c0 c fr acc :
  acc_ok m bacc -> bacc = chunks bps -> nomarks bps ->
  OR inh c0 c (map fst fr) -> rng c = rng c0 ++ firstn 1 (map snd fr) ->
  SemI (map fst fr) acc -> bnd acc = true -> E.crlf_split_ok (acc ++ bps) = true ->
  (all_marks acc = true -> bps <> [] -> room c0) ->
  exists c', finish_text r (push_text_chunks m bacc tb_new) c = Ok c' /\
    OR inh c0 c' (map fst (fr ++ emitG m bacc r)) /\ rng c' = rng c0 ++ firstn 1 (map snd (fr ++ emitG m bacc r)) /\
    SemI (map fst (fr ++ emitG m bacc r)) (acc ++ bps) /\
    c_ld c' = c_ld c /\ c_tag_name c' = c_tag_name c /\ c_entity_floor c' = c_entity_floor c.
Proof.
  intros Hacc Hb Hnm [A1 A2 A3 A4 A5 A6] Hg HS Hbnd Hcr Hroom.
  destruct (finish_emit_u_r inh m bacc r c0 c fr Hacc (conj A5 Hg) A1) as (c' & E & [HR' Hg'] & L1 & L2 & L3); [|exact A2|].
  { intros Z0 Z1. apply Hroom; [apply (proj2 HS); rewrite Z0; reflexivity|].
    intros ->. apply Z1. apply (emit_nil_iff_u m bacc Hacc). rewrite Hb. reflexivity. }
  exists c'. split; [exact E|]. split.
  { constructor; try assumption. rewrite (CstEntText.Run_entities _ _ _ HR'). rewrite <- A6. symmetry. apply (CstEntText.Run_entities _ _ _ A5). }
  split; [exact Hg'|]. split; [|auto].
  pose proof (emitG_bytes text m bacc r) as HG. remember (map fst (emitG m bacc r)) as G eqn:EG. rewrite map_app, <- EG.
  apply SemI_ext; [exact HS| | |].
  - rewrite HG, emit_concat_u by exact Hacc. rewrite Hb. reflexivity.
  - rewrite (nomarks_all bps Hnm). rewrite <- (nomarks_chunks_nil bps Hnm), <- Hb, <- (emit_nil_iff_u m bacc Hacc), <- HG.
    split; [intros ->; reflexivity|]. destruct G; [reflexivity|discriminate].
  - apply (nosplit_bnd acc bps []); [exact Hbnd|rewrite app_nil_r; exact Hcr].
Qed.

Lemma value_text_r inh L d en vps qv trv Fv c0 c2 (fr2 : list (cow * range)) acc2 ld1' :
  E.e_value d = E.EText vps -> uent_ok text d en -> udecl_okc d ->
  Exp decls3 true [] vps qv trv Fv ->
  OR inh c0 c2 (map fst fr2) -> rng c2 = rng c0 ++ firstn 1 (map snd fr2) -> SemI (map fst fr2) acc2 -> bnd acc2 = true ->
  0 < ld_depth (c_ld c2) <= 10 -> N.of_nat L + ld_depth (c_ld c2) = 13 ->
  ld_run (c_ld c2) trv = Some ld1' ->
  E.crlf_split_ok (acc2 ++ qv) = true ->
  (all_marks acc2 = true -> all_marks qv = false -> room c0) ->
  exists sv s' c2' Gv,
    stream_from_substr text (sl_start (en_value en)) (sl_end (en_value en)) = Ok sv /\
    parse_content_lvl text L sv c2 = Ok (s', c2') /\
    OR inh c0 c2' (map fst (fr2 ++ Gv)) /\ rng c2' = rng c0 ++ firstn 1 (map snd (fr2 ++ Gv)) /\ ValG vps (en_value en) Gv /\
    SemI (map fst (fr2 ++ Gv)) (acc2 ++ qv) /\
    c_ld c2' = ld1' /\ ld_depth ld1' = ld_depth (c_ld c2) /\
    c_tag_name c2' = c_tag_name c2 /\ c_entity_floor c2' = c_entity_floor c2.
Proof.
  intros Hval (Hen & vs & tail & Eval & HWv) Hdok Hv [A1 A2 A3 A4 A5 A6] Hg HS Hbnd Hd0 Hlvl Erun1 Hcr Hroom.
  pose proof (conj A5 Hg : RunR c0 c2 fr2) as HRR.
  unfold udecl_okc in Hdok. rewrite Hval in Hdok. destruct Hdok as (Hvok & Hvn3 & _).
  rewrite Hval in Eval, HWv. cbn [E.r_value] in Eval, HWv.
  rewrite Eval. cbn [sl sl_start sl_end].
  rewrite (stream_from_substr_W text vs (E.r_epieces vps) tail (WV_W _ _ _ HWv)).
  destruct L as [|lvl']; [lia|].
  set (ve := vs + blen (E.r_epieces vps)) in *.
  pose proof (CstLex.W_le _ _ _ (CstLex.W_app _ _ _ _ (WV_W _ _ _ HWv))) as Hlev. fold ve in Hlev.
  destruct (uep_bytes true vps Hvok) as [Hvu Hvb].
  pose proof (Exp_empty_u decls3 Hdecls _ _ _ _ _ _ Hv Hvok (acc_nil true)) as Hemp.
  assert (HFroom : fr2 = [] -> Fv <> [] -> room c0).
  { intros Z0 Z1. apply Hroom; [apply (proj2 HS); rewrite Z0; reflexivity|].
    destruct (all_marks qv) eqn:Em; [|reflexivity]. exfalso. apply Z1. apply (proj2 Hemp). split; [reflexivity|exact Em]. }
  assert (Hinner : exists c2' Gv,
            parse_content_lvl text (S lvl') (sst ve vs (E.r_epieces vps ++ tail)) c2 = Ok (sst ve ve tail, c2') /\
            RunR c0 c2' (fr2 ++ Gv) /\ map (cow_bytes text) (map fst Gv) = Fv /\ ValG vps (sl vs (vs + blen (E.r_epieces vps))) Gv /\
            c_ld c2' = ld1' /\ ld_depth ld1' = ld_depth (c_ld c2) /\
            c_tag_name c2' = c_tag_name c2 /\ c_entity_floor c2' = c_entity_floor c2).
  { assert (Epc : forall s0 cc, parse_content_lvl text (S lvl') s0 cc =
              parse_content_loop text context (token_with text (process_text_with text (parse_content_lvl text lvl')))
                (S (length (s_rest s0))) 0 s0 cc) by reflexivity.
    rewrite Epc. cbn [sst s_rest].
    destruct (list_eq_dec N.eq_dec (E.r_epieces vps) []) as [Ex|Hne].
    - assert (Evps : vps = []).
      { destruct vps as [|pp vr]; [reflexivity|].
        apply Forall_cons_iff in Hvok. destruct Hvok as [Hq0 _].
        destruct (uep_piece_ne true pp Hq0) as (x1 & r1 & E1).
        rewrite r_epieces_cons, E1 in Ex. discriminate. }
      subst vps. inversion Hv; subst. cbn [E.r_epieces flat_map app length] in *.
      cbn [parse_content_loop]. rewrite at_end_sst. unfold ve. rewrite blen_nil, N.add_0_r.
      replace (vs <=? vs) with true by lia.
      exists c2, []. rewrite app_nil_r. cbn [ld_run] in Erun1. injection Erun1 as <-.
      split; [reflexivity|]. split; [exact HRR|]. split; [reflexivity|]. split; [apply VG_empty; reflexivity|]. repeat split; auto.
    - assert (Hlen : (1 <= length (E.r_epieces vps ++ tail))%nat).
      { rewrite app_length. destruct (E.r_epieces vps); [congruence|cbn; lia]. }
      destruct (length (E.r_epieces vps ++ tail)) as [|len'] eqn:El; [lia|].
      rewrite (content_loop_text_ne_u text context _ ve vs (E.r_epieces vps) tail c2 len' HWv eq_refl Hlev Hvu Hvb Hvn3 Hne).
      cbn [token_with].
      rewrite process_text_with_unfold. unfold slice_bytes at 1. cbn [sl sl_start sl_end].
      unfold ve. rewrite (CstLex.W_sub _ _ _ _ (WV_W _ _ _ HWv)). fold ve.
      destruct (existsb (fun x => (x =? 38) || (x =? 13)) (E.r_epieces vps)) eqn:Efast; cbn [negb].
      + cbn [fst snd]. unfold ve. rewrite (stream_from_substr_W text vs (E.r_epieces vps) tail (WV_W _ _ _ HWv)). fold ve. cbn [bind].
        destruct (TL_u_r true [] vps qv trv Fv Hv inh ve vs tail c0 c2 fr2
                    (S (length (s_rest (sst ve vs (E.r_epieces vps ++ tail))))) lvl' (vs, ve) ld1')
          as (c2' & Gv & Ev & HRv & HGv & HXv & Lv1 & Lv2 & Lv3 & Lv4); try assumption; try reflexivity.
        * replace (0 <? ld_depth (c_ld c2)) with true by lia. reflexivity.
        * apply acc_nil.
        * lia.
        * cbn [sst s_rest]. rewrite app_length. lia.
        * cbn [push_text_chunks sst s_rest] in Ev |- *. rewrite Ev. cbn [bind]. exists c2', Gv.
          split; [reflexivity|]. split; [exact HRv|]. split; [exact HGv|]. split; [apply VG_slow; [exact Hne|exact Efast|exact HXv]|]. repeat split; auto.
      + destruct (existsb_or_false _ _ _ Efast) as [E38 E13].
        destruct (exp_plain_u decls3 true vps [] qv trv Fv Hv Hvok E38) as [-> ->]. cbn [app].
        assert (Hemit : emit true ([] ++ map CLit (E.r_epieces vps)) = [E.r_epieces vps]).
        { cbn [app]. unfold emit. rewrite text_chunks_in_entity.
          replace (concat (map chunk_bytes (map CLit (E.r_epieces vps)))) with (E.r_epieces vps)
            by (clear; induction (E.r_epieces vps) as [|z l IHl]; [reflexivity|cbn; rewrite <- IHl; reflexivity]).
          rewrite norm_eol_nocr by exact E13. destruct (E.r_epieces vps); [congruence|reflexivity]. }
        destruct (run_append_n_r inh (CowBorrowed (sl vs ve)) (vs, ve) c0 c2 fr2 HRR A1
                    (fun Z0 => HFroom Z0 ltac:(rewrite Hemit; discriminate)) A2)
          as (c2' & Ea & HRa & La1 & La2 & La3).
        rewrite Ea. cbn [bind]. exists c2', [(CowBorrowed (sl vs ve), (vs, ve))]. cbn [ld_run] in Erun1. injection Erun1 as <-.
        split; [reflexivity|]. split; [exact HRa|]. split; [|split; [apply (VG_fast text decls3 es vps (sl vs ve) Hne Efast)|]].
        { cbn [map cow_bytes fst]. unfold slice_bytes, ve. cbn [sl sl_start sl_end]. rewrite (CstLex.W_sub _ _ _ _ (WV_W _ _ _ HWv)).
          cbn [app] in Hemit. rewrite Hemit. reflexivity. }
        repeat split; auto. }
  destruct Hinner as (c2' & Gv & Ein & [HRv Hgv] & HGv & HXv & Lv1 & Lv2 & Lv3 & Lv4).
  rewrite map_app in HRv.
  eexists. exists (sst ve ve tail), c2', Gv. split; [reflexivity|]. split; [exact Ein|]. rewrite (map_app fst). split.
  { constructor; try assumption. rewrite (CstEntText.Run_entities _ _ _ HRv). rewrite <- A6. symmetry. apply (CstEntText.Run_entities _ _ _ A5). }
  split; [exact Hgv|]. split; [exact HXv|]. split; [|repeat split; assumption].
  remember (map fst Gv) as Gv1 eqn:EGv.
  apply SemI_ext; [exact HS| | |].
  - rewrite HGv. rewrite (Exp_sem_u decls3 Hdecls true [] vps qv trv Fv Hv Hvok (acc_nil true) eq_refl
                            (crlf_split_app_r _ _ Hcr)). reflexivity.
  - rewrite <- HGv in Hemp. split.
    + intros ->. apply Hemp. reflexivity.
    + intros Em. destruct Gv1 as [|c Gv1]; [reflexivity|]. exfalso.
      assert (X : map (cow_bytes text) (c :: Gv1) = []) by (apply (proj2 Hemp); split; [reflexivity|exact Em]). discriminate.
  - apply (nosplit_bnd acc2 qv []); [exact Hbnd|rewrite app_nil_r; exact Hcr].
Qed.



Lemma pnc_value e p n more en en0 s' : WV p ([38] ++ n ++ [59] ++ more) -> uname n ->
  E.is_predef_name n = false -> p + 2 + blen n <= e -> e <= tlen text ->
  find_entity text es n = Some en0 ->
  parse_next_chunk text (sst e p ([38] ++ n ++ [59] ++ more)) es = Ok (ChText (en_value en), s') ->
  en_value en0 = en_value en.
Proof.
  intros HW Hn Hp He Hle Efind. unfold parse_next_chunk. rewrite at_end_sst. replace (e <=? p) with false by lia.
  cbn [app curr_byte_unchecked sst s_rest bind]. change (38 =? 38) with true. cbv iota zeta.
  fold (sst e p (38 :: n ++ 59 :: more)).
  pose proof (CstFullS3Text.cref_entity_u text D HD e p n more HW Hn Hp He Hle) as Ec. cbn [app] in Ec. rewrite Ec. cbn [bind].
  pose proof (W_cons _ _ _ _ (WV_W _ _ _ HW)) as HW1. cbn [app] in HW1.
  rewrite (W_slice _ _ _ _ HW1), Efind. intros X. injection X as X _. exact X.
Qed.

(* ------------------------------------------------------------------------------------------ *)
(* what is proved of lists of items                                                           *)
(* ------------------------------------------------------------------------------------------ *)
Definition ItemsOK_r (k : nat) (cs : list uitem) : Prop :=
  forall inh m en tl p post c0 c (fr : list (cow * range)) acc lvl depth fuel its tr ld',
    forallb (wf_uitem_s m) cs = true -> no_adjacent_text epieces cs = true ->
    WVs en tl p (r_uitems cs ++ post) -> text_stop post ->
    OR inh c0 c (map fst fr) -> rng c = rng c0 ++ firstn 1 (map snd fr) -> SemI (map fst fr) acc -> bnd_if cs acc ->
    m = (0 <? ld_depth (c_ld c)) -> N.of_nat lvl + ld_depth (c_ld c) = 12 -> ld_ok (c_ld c) ->
    c_entity_floor c <= len_N (c_parent_prefixes c) ->
    inline_items (level decls k) m cs = Some (its, tr) -> ld_run (c_ld c) tr = Some ld' ->
    Pok acc its -> Rooms inh c0 acc its -> NsOk inh acc its ->
    exists c0' c' fr' K ext,
      parse_content_loop text context (evl lvl) (usteps_list cs + fuel) depth (sst4 en tl p (r_uitems cs ++ post)) c =
      parse_content_loop text context (evl lvl) fuel depth (sst4 en tl (p + blen (r_uitems cs)) post) c' /\
      Res inh c0 c acc its ld' c0' c' (map fst fr') K ext /\
      rng c' = rng c0' ++ firstn 1 (map snd fr') /\
      Extra c0 c0' fr fr' (lev_items vt (lev_ent vt k) p cs) K ext.

Section LevelR.
Variable k : nat.
Hypothesis IHk : forall k', k = S k' -> forall cs, ItemsOK_r k' cs.
Notation tb := (level decls k).

Lemma value_ok_r inh n v d en L c0 c2 (fr2 : list (cow * range)) acc2 ld1' :
  ylookup tb n = Some v -> first_xdecl decls n = Some d -> uent_ok text (pd d) en ->
  OR inh c0 c2 (map fst fr2) -> rng c2 = rng c0 ++ firstn 1 (map snd fr2) -> SemI (map fst fr2) acc2 -> bnd acc2 = true ->
  0 < ld_depth (c_ld c2) <= 10 -> N.of_nat L + ld_depth (c_ld c2) = 13 -> ld_ok (c_ld c2) ->
  c_entity_floor c2 = len_N (c_parent_prefixes c2) ->
  ld_run (c_ld c2) (y_trace v) = Some ld1' ->
  Pok acc2 (y_items v) -> Rooms inh c0 acc2 (y_items v) -> NsOk inh acc2 (y_items v) ->
  exists sv s' c0' c2' fr' K ext,
    stream_from_substr text (sl_start (en_value en)) (sl_end (en_value en)) = Ok sv /\
    parse_content_lvl text L sv c2 = Ok (s', c2') /\
    Res inh c0 c2 acc2 (y_items v) ld1' c0' c2' (map fst fr') K ext /\
    rng c2' = rng c0' ++ firstn 1 (map snd fr') /\
    Extra c0 c0' fr2 fr' (ref_evs vt (lev_ent vt k) (sl_start (en_value en)) (x_value d)) K ext.
Proof.
  intros El Hfd Hent HO Hg HS Hbnd Hd0 Hlvl Hok Hfl Hld HP HR HN.
  rewrite ylookup_level in El. destruct k as [|k'] eqn:Ek; [discriminate|]. rewrite Hfd in El.
  pose proof (first_xdecl_in _ _ Hfd) as Hin.
  destruct (x_value d) as [vps|its_v] eqn:Hval; cbn [inline_value] in El.
  - (* character data *)
    rewrite inline_ps_level in El.
    destruct (E.inline_ps (E.level decls3 k') false true (enc_epieces vps)) as [[qv trv]|] eqn:Ei; [|discriminate].
    cbn [E.obind fst snd] in El. injection El as <-. cbn [y_items y_trace] in *.
    destruct (inline_Exp decls3 k' true (enc_epieces vps) qv trv Ei true []) as [Fv Hv].
    assert (Hdok : udecl_okc (pd d)) by (rewrite Forall_forall in Hdecls; apply Hdecls; apply in_map; exact Hin).
    assert (Hval' : E.e_value (pd d) = E.EText (enc_epieces vps)) by (cbn [pd E.e_value]; rewrite Hval; reflexivity).
    destruct HP as [_ HP2]. cbn [walk snd] in HP2.
    destruct (value_text_r inh L (pd d) en (enc_epieces vps) qv trv Fv c0 c2 fr2 acc2 ld1' Hval' Hent Hdok Hv HO Hg HS Hbnd Hd0 Hlvl Hld HP2)
      as (sv & s' & c2' & Gv & Es & Ep & HO' & Hg' & HXv & HS' & L1 & L2 & L3 & L4).
    { intros Z0 Z1. destruct HR as [HR _]. cbn [walk fst snd app] in HR. apply (CstFullItems.node_room_room _ _ HR).
      rewrite nsizes_flush, all_marks_app, Z0, Z1. cbn [andb]. lia. }
    exists sv, s', c0, c2', (fr2 ++ Gv), [], []. split; [exact Es|]. split; [exact Ep|].
    split; [|split; [exact Hg'|]].
    2:{ assert (Hvok : Forall (uep_ok true) (enc_epieces vps)) by (unfold udecl_okc in Hdok; rewrite Hval' in Hdok; apply Hdok).
        assert (Eend : sl_end (en_value en) = sl_start (en_value en) + blen (E.r_epieces (enc_epieces vps))).
        { destruct Hent as (_ & vs0 & tail0 & Eval0 & _). rewrite Eval0, Hval'. reflexivity. }
        pose proof (ValG_frs _ _ _ _ _ _ _ _ Hv HXv Hld Hvok Eend) as Efr. rewrite <- tvt_xvt_of in Efr.
        assert (Eev : ref_evs vt (lev_ent vt (S k')) (sl_start (en_value en)) (XText vps) = map LFrag (map gdesc Gv)).
        { rewrite Efr. unfold ref_evs. cbv zeta. destruct (E.r_epieces (enc_epieces vps)); reflexivity. }
        rewrite Eev. apply (Extra_frags c0 fr2 Gv _ eq_refl). }
    unfold CstFullS6Text.Res. cbn [walk fst snd CstFullTree.dens NT.tag_list NT.nattrs_items NT.ns_costs length].
    split; [apply Stepn_refl|]. split; [exact HO'|]. split; [exact HS'|]. split; [constructor|].
    split; [reflexivity|]. split; [lia|]. split; [exact L1|]. split; [exact L2|]. split; [exact L4|].
    unfold tn_set. rewrite L3. auto.
  - (* items *)
    destruct (inline_items (level decls k') true its_v) as [[itv trv]|] eqn:Ei; [|discriminate].
    cbn [E.obind fst snd] in El. injection El as <-. cbn [y_items y_trace] in *.
    assert (Hc : decl_cont d) by (rewrite Forall_forall in Hcont; apply Hcont; exact Hin).
    unfold decl_cont in Hc. rewrite Hval in Hc. destruct Hc as [Hwf Hna].
    destruct Hent as (Hen & vs & tail & Eval & HWv).
    change (E.e_value (pd d)) with (pv (x_value d)) in Eval, HWv. rewrite r_value_pv, Hval in Eval, HWv. cbn [r_xvalue] in Eval, HWv.
    rewrite Eval. cbn [sl sl_start sl_end].
    rewrite (stream_from_substr_W text vs (r_uitems its_v) tail (WV_W _ _ _ HWv)).
    destruct L as [|L']; [lia|].
    set (ve := vs + blen (r_uitems its_v)).
    pose proof (usteps_list_le true its_v Hwf) as Hst.
    assert (HW' : WVs ve tail vs (r_uitems its_v ++ [])).
    { split; [rewrite app_nil_r; exact HWv|rewrite app_nil_r; reflexivity]. }
    destruct (IHk k' eq_refl its_v inh true ve tail vs [] c0 c2 fr2 acc2 L' 0
                (S (length (r_uitems its_v ++ tail) - usteps_list its_v)) itv trv ld1'
                Hwf Hna HW' I HO Hg HS)
      as (c0' & c2' & fr' & K & ext & El & HRes & Hg' & HX); try assumption.
    { destruct its_v; [exact I|]. intros _. exact Hbnd. }
    { replace (0 <? ld_depth (c_ld c2)) with true by lia. reflexivity. }
    { lia. }
    { lia. }
    exists (sst ve vs (r_uitems its_v ++ tail)), (sst4 ve tail (vs + blen (r_uitems its_v)) []), c0', c2', fr', K, ext.
    split; [reflexivity|]. split; [|split; [exact HRes|split; [exact Hg'|exact HX]]].
    rewrite parse_content_lvl_S. unfold parse_content. cbn [sst s_rest].
    replace (S (length (r_uitems its_v ++ tail)))
      with (usteps_list its_v + S (length (r_uitems its_v ++ tail) - usteps_list its_v))%nat
      by (rewrite app_length; lia).
    change (sst ve vs (r_uitems its_v ++ tail)) with (sst4 ve tail vs (r_uitems its_v)).
    rewrite <- (app_nil_r (r_uitems its_v)) at 2.
    rewrite El. apply (loop_end text ve tail context (evl L')).
    apply (CstEntCLex.W_app text _ _ _ (CstFullS6Lex.WV_W text _ _ HW')).
Qed.

Lemma TLc_r : forall ps bps bacc inh m e p more c0 c (fr : list (cow * range)) acc fuel L r its tr ld',
  Forall (uep_ok m) ps -> WV p (E.r_epieces ps ++ more) -> p + blen (E.r_epieces ps) = e -> e <= tlen text ->
  m = (0 <? ld_depth (c_ld c)) -> N.of_nat L + ld_depth (c_ld c) = 12 -> ld_ok (c_ld c) ->
  acc_ok m bacc -> bacc = chunks bps -> nomarks bps ->
  OR inh c0 c (map fst fr) -> rng c = rng c0 ++ firstn 1 (map snd fr) -> SemI (map fst fr) acc -> bnd acc = true ->
  c_entity_floor c <= len_N (c_parent_prefixes c) ->
  inline_run tb m ps = Some (its, tr) -> ld_run (c_ld c) tr = Some ld' ->
  Pok (acc ++ bps) its -> Rooms inh c0 (acc ++ bps) its -> NsOk inh (acc ++ bps) its ->
  (length (E.r_epieces ps) < fuel)%nat ->
  exists c0' c' fr' K ext,
    (let! (b0, c1) := text_loop text (parse_content_lvl text L) r fuel (sst e p (E.r_epieces ps ++ more))
                        (push_text_chunks m bacc tb_new) c in finish_text r b0 c1) = Ok c' /\
    Res inh c0 c (acc ++ bps) its ld' c0' c' (map fst fr') K ext /\ c_tag_name c' = c_tag_name c /\
    rng c' = rng c0' ++ firstn 1 (map snd fr') /\
    Extra c0 c0' fr fr' (lev_ps vt (lev_ent vt k) (neb bacc) ps r) K ext.
Proof.
  induction ps as [|pc0 rest IH]; intros bps bacc inh m e p more c0 c fr acc fuel L r its tr ld'
    Hok HW He Hle Hm Hlvl Hk Hacc Hb Hnm HO Hg HS Hbnd Hfl Hin Hld HP HR HN Hfu.
  - (* the end of the token *)
    cbn [inline_run] in Hin. injection Hin as <- <-.
    cbn [E.r_epieces flat_map app] in *. rewrite blen_nil, N.add_0_r in He. subst p.
    destruct fuel as [|fu]; [lia|]. cbn [text_loop]. rewrite at_end_sst. replace (e <=? e) with true by lia.
    cbn [bind]. cbn [ld_run] in Hld. injection Hld as <-.
    destruct HP as [_ HP2]. cbn [walk snd] in HP2.
    destruct (buf_flush_r inh m bacc bps r c0 c fr acc Hacc Hb Hnm HO Hg HS Hbnd HP2) as (c' & E & HO' & Hg' & HS' & L1 & L2 & L3).
    { intros Z0 Z1. destruct HR as [HR _]. cbn [walk fst snd app] in HR. apply (CstFullItems.node_room_room _ _ HR).
      rewrite nsizes_flush, all_marks_app, Z0. cbn [andb].
      destruct (all_marks bps) eqn:Em; [apply (nomarks_all bps Hnm) in Em; congruence|]. lia. }
    exists c0, c', (fr ++ emitG m bacc r), [], []. split; [exact E|]. split; [|split; [exact L2|split; [exact Hg'|]]].
    2:{ cbn [lev_ps]. apply (CstRangeG6Ev.Extra_eq text _ _ _ _ _ _ (map LFrag (if neb bacc then [(r, None)] else []))); [destruct (neb bacc); reflexivity|].
        apply (Extra_frags c0 fr (emitG m bacc r)). apply emitG_desc. exact Hacc. }
    unfold CstFullS6Text.Res. cbn [walk fst snd CstFullTree.dens NT.tag_list NT.nattrs_items NT.ns_costs length].
    split; [apply Stepn_refl|]. split; [exact HO'|]. split; [exact HS'|]. split; [constructor|].
    split; [reflexivity|]. split; [lia|]. split; [exact L1|]. split; [reflexivity|]. split; [exact L3|].
    unfold tn_set. rewrite L2. auto.
  - apply Forall_cons_iff in Hok. destruct Hok as [Hp Hrest]. destruct pc0 as [q|n].
    + (* a piece *)
      cbn [inline_run] in Hin. destruct (inline_run tb m rest) as [[itr trr]|] eqn:Er; [|discriminate].
      cbn [E.obind fst snd] in Hin. injection Hin as <- <-.
      cbn [E.r_epieces flat_map E.r_epiece] in *. fold (E.r_epieces rest) in *.
      rewrite <- app_assoc in HW |- *. rewrite blen_app in He.
      pose proof Hp as [Hvp _]. pose proof (chunks_le_piece_u D HD q Hvp) as Hcl. rewrite app_length in Hfu.
      replace fuel with (length (T.piece_chunks q) + (fuel - length (T.piece_chunks q)))%nat by lia.
      rewrite (loop_piece_u text D HD) by (try assumption; lia). rewrite <- Hm.
      rewrite <- push_text_chunks_app.
      destruct (IH (bps ++ [q]) (bacc ++ T.piece_chunks q) inh m e (p + blen (T.r_piece q)) more c0 c fr acc
                  (fuel - length (T.piece_chunks q))%nat L r itr trr ld') as (c0' & c' & fr' & K & ext & E & HRes & Ht & Hg' & HX);
        try assumption; try lia.
      * apply (WV_app _ _ _ _ HW (vpiece_valid 60 q Hvp)).
      * apply acc_app; [exact Hacc|apply uep_chunks; exact Hp].
      * rewrite chunks_app, Hb. f_equal. unfold chunks. cbn [flat_map]. rewrite app_nil_r. reflexivity.
      * apply Forall_app. split; [exact Hnm|]. constructor; [apply (uep_nonmark _ _ Hp)|constructor].
      * rewrite app_assoc. exact HP.
      * rewrite app_assoc. exact HR.
      * rewrite app_assoc. exact HN.
      * exists c0', c', fr', K, ext. split; [exact E|]. split; [|split; [exact Ht|split; [exact Hg'|]]].
        2:{ cbn [lev_ps]. replace (neb (bacc ++ T.piece_chunks q)) with true in HX; [exact HX|].
            pose proof (uep_nonmark _ _ Hp) as Em. destruct (nonmark_chunks q Em) as (Hne & _).
            destruct bacc; [destruct (T.piece_chunks q); [congruence|reflexivity]|reflexivity]. }
        unfold CstFullS6Text.Res in *. cbn [walk]. rewrite <- app_assoc. exact HRes.
    + (* a reference *)
      destruct Hp as [Hn Hpre].
      cbn [inline_run] in Hin. destruct (ylookup tb n) as [v|] eqn:El; [|discriminate]. cbn [E.obind] in Hin.
      destruct (inline_run tb m rest) as [[itr trr]|] eqn:Er; [|discriminate].
      cbn [E.obind fst snd] in Hin. injection Hin as <- <-.
      cbn [E.r_epieces flat_map E.r_epiece] in *. fold (E.r_epieces rest) in *.
      rewrite <- !app_assoc in HW |- *. rewrite !blen_app in He. change (blen [38]) with 1 in He. change (blen [59]) with 1 in He.
      assert (Hfd : exists d, first_xdecl decls n = Some d).
      { rewrite ylookup_level in El. destruct k; [discriminate|]. destruct (first_xdecl decls n); [eauto|discriminate]. }
      destruct Hfd as [d Hfd].
      assert (Hfd3 : first_decl decls3 n = Some (pd d)) by (rewrite first_decl_pd, Hfd; reflexivity).
      destruct (pnc_entity_u text D HD decls3 es Henv e p n (E.r_epieces rest ++ more) (pd d) HW Hn Hpre ltac:(lia) Hle Hfd3)
        as (en & Epnc & Hent).
      destruct fuel as [|fu]; [lia|].
      (* what the items stand for *)
      set (acc1 := acc ++ bps) in *.
      set (acc2 := acc1 ++ [E.mark]).
      assert (Eits : bmark :: y_items v ++ bmark :: itr = (bmark :: y_items v ++ [bmark]) ++ itr)
        by (cbn [app]; rewrite <- app_assoc; reflexivity).
      assert (Ew1 : walk acc1 (bmark :: y_items v ++ [bmark]) =
                    (fst (walk acc2 (y_items v)), snd (walk acc2 (y_items v)) ++ [E.mark])).
      { unfold bmark. cbn [walk]. fold acc2. rewrite walk_app. cbn [walk fst snd]. rewrite app_nil_r. reflexivity. }
      rewrite Eits in HP, HR, HN |- *.
      destruct (Pok_app _ _ _ HP) as [HP1 HP2]. rewrite Ew1 in HP2. cbn [snd] in HP2.
      destruct (NsOk_app _ _ _ _ HN) as [HN1 HN2]. rewrite Ew1 in HN2. cbn [snd] in HN2.
      assert (HNv : NsOk inh acc2 (y_items v)).
      { unfold NsOk in HN1 |- *. rewrite Ew1 in HN1. cbn [fst] in HN1. exact HN1. }
      assert (HPv : Pok acc2 (y_items v)).
      { destruct HP1 as [X1 X2]. rewrite Ew1 in X1, X2. cbn [fst snd] in X1, X2. split; [exact X1|].
        apply (crlf_split_app_l _ [E.mark]). exact X2. }
      pose proof (Rooms_app_l _ _ _ _ _ HR) as HR1.
      (* flush *)
      destruct (buf_flush_r inh m bacc bps r c0 c fr acc Hacc Hb Hnm HO Hg HS Hbnd) as (c1 & E0 & HO1 & Hg1 & HS1 & L1 & L2 & L3).
      { apply (crlf_split_app_l _ [E.mark]). apply (Pok_acc _ _ HPv). }
      { intros Z0 Z1. destruct HR1 as [HR1 _]. rewrite Ew1 in HR1. cbn [fst snd] in HR1.
        apply (CstFullItems.node_room_room _ _ HR1).
        pose proof (flush_later (y_items v ++ [bmark]) acc2) as Hl.
        rewrite walk_app in Hl. unfold bmark in Hl. cbn [walk fst snd] in Hl. rewrite app_nil_r in Hl.
        assert (X : NT.nsizes (bdens (flush acc2)) = 1).
        { rewrite nsizes_flush. unfold acc2, acc1. rewrite !all_marks_app, Z0. cbn [andb].
          destruct (all_marks bps) eqn:Em; [apply (nomarks_all bps Hnm) in Em; congruence|]. reflexivity. }
        lia. }
      set (fr1 := fr ++ emitG m bacc r) in *.
      (* the detector *)
      cbn [ld_run] in Hld. destruct (ld_enter (c_ld c)) as [ld1|] eqn:Eenter; [|discriminate].
      rewrite ld_run_app in Hld. destruct (ld_run ld1 (y_trace v)) as [ld1'|] eqn:Erun1; [|discriminate]. cbn [ld_run] in Hld.
      destruct (enter_depth _ _ Eenter) as [Hd1 Hd10].
      (* inside the value *)
      set (c2 := set_entity_floor (set_tag_name (set_ld c1 ld1) tag_name_null) (len_N (c_parent_prefixes c1))).
      assert (HO2 : OR inh c0 c2 (map fst fr1)) by (apply (OR_frame inh c0 c1 c2 _ HO1); unfold c2; repeat split).
      assert (Hg2 : rng c2 = rng c0 ++ firstn 1 (map snd fr1)) by exact Hg1.
      assert (HS2 : SemI (map fst fr1) acc2) by (apply SemI_marks; [exact HS1|reflexivity]).
      destruct (value_ok_r inh n v d en L c0 c2 fr1 acc2 ld1' El Hfd Hent HO2 Hg2 HS2)
        as (sv & s' & c0a & c2' & fra & K1 & e1 & Es & Epc & HRes1 & Hga & HXa).
      { unfold acc2. rewrite bnd_snoc. reflexivity. }
      { unfold c2. cbn. lia. }
      { unfold c2. cbn. lia. }
      { unfold c2. cbn. apply (ld_ok_enter _ _ Eenter Hk). }
      { unfold c2. reflexivity. }
      { unfold c2. cbn. exact Erun1. }
      { exact HPv. }
      { destruct HR1 as (X1 & X2 & X3). rewrite Ew1 in X1, X2, X3. cbn [fst snd] in X1, X2, X3. split; [|split; assumption].
        unfold node_room in *. rewrite !bdens_app, !nsizes_app in *.
        assert (Y : NT.nsizes (bdens (flush (snd (walk acc2 (y_items v))))) <=
                    NT.nsizes (bdens (flush (snd (walk acc2 (y_items v)) ++ [E.mark])))).
        { rewrite !nsizes_flush, all_marks_app. change (all_marks [E.mark]) with true. rewrite andb_true_r. apply N.le_refl. }
        lia. }
      { exact HNv. }
      pose proof HRes1 as (S1 & O1 & M1 & F1 & Le1 & Nc1 & D1 & D1' & Fl1 & T1).
      (* back from the value *)
      assert (Hpp : len_N (c_parent_prefixes c2') = c_entity_floor c2').
      { rewrite Fl1. change (c_entity_floor c2) with (len_N (c_parent_prefixes c1)).
        rewrite (CstEntText.Run_pp _ _ _ (or_run _ _ _ _ O1)), (CstEntText.Run_pp _ _ _ (or_run _ _ _ _ HO1)).
        destruct S1 as (_ & _ & ->). reflexivity. }
      rewrite (ref_step text (parse_content_lvl text L) r fu (sst e p ([38] ++ n ++ [59] ++ E.r_epieces rest ++ more))
                 (push_text_chunks m bacc tb_new) c (en_value en) (sst e (p + 2 + blen n) (E.r_epieces rest ++ more)) c1 ld1 sv s' c2');
        try assumption.
      2:{ rewrite at_end_sst. lia. }
      2:{ rewrite (or_es _ _ _ _ HO). exact Epnc. }
      2:{ rewrite L1. exact Eenter. }
      set (c3 := set_ld (set_entity_floor (set_tag_name c2' (c_tag_name c1)) (c_entity_floor c1)) (dec_depth (c_ld c2'))).
      assert (HO3 : OR inh c0a c3 (map fst fra)) by (apply (OR_frame inh c0a c2' c3 _ O1); unfold c3; repeat split).
      assert (Hg3 : rng c3 = rng c0a ++ firstn 1 (map snd fra)) by exact Hga.
      assert (Eld3 : c_ld c3 = dec_depth ld1') by (unfold c3; cbn; rewrite D1; reflexivity).
      assert (Hdd : ld_depth (dec_depth ld1') = ld_depth (c_ld c)).
      { unfold dec_depth. cbn [ld_depth]. rewrite D1'. unfold c2. cbn [c_ld set_entity_floor set_tag_name set_ld].
        rewrite Hd1. replace (0 <? ld_depth (c_ld c) + 1) with true by lia. lia. }
      (* the entity as a whole *)
      assert (HResE : Res inh c0 c acc1 (bmark :: y_items v ++ [bmark]) (dec_depth ld1') c0a c3 (map fst fra) K1 e1).
      { unfold CstFullS6Text.Res. rewrite Ew1. cbn [fst snd].
        split; [exact S1|]. split; [exact HO3|]. split; [apply SemI_marks; [exact M1|reflexivity]|].
        split; [exact F1|]. split; [exact Le1|]. split; [exact Nc1|]. split; [exact Eld3|]. split; [exact Hdd|].
        split; [unfold c3; cbn; exact L3|]. unfold tn_set, c3. cbn. rewrite L2. auto. }
      (* the rest of the token *)
      assert (HWn : WV (p + 2 + blen n) (E.r_epieces rest ++ more)).
      { pose proof (WV_cons _ _ _ _ HW ltac:(lia)) as X1. cbn [app] in X1.
        destruct (uname_bytes n Hn) as (Hun & _). pose proof (WV_app _ _ _ _ X1 (ustr_valid _ Hun)) as X2.
        pose proof (WV_cons _ _ _ _ X2 ltac:(lia)) as X3.
        replace (p + 2 + blen n) with (p + 1 + blen n + 1) by lia. exact X3. }
      destruct (IH [] [] inh m e (p + 2 + blen n) more c0a c3 fra (snd (walk acc2 (y_items v)) ++ [E.mark]) fu L r itr trr ld')
        as (c0' & c' & fr' & K2 & e2 & E' & HRes2 & Ht2 & Hg' & HX2); try assumption.
      * lia.
      * rewrite Eld3, Hdd. exact Hm.
      * rewrite Eld3, Hdd. exact Hlvl.
      * rewrite Eld3. apply ld_ok_dec. apply (ld_ok_run _ _ _ Erun1). apply (ld_ok_enter _ _ Eenter Hk).
      * apply acc_nil.
      * reflexivity.
      * constructor.
      * apply SemI_marks; [exact M1|reflexivity].
      * rewrite bnd_snoc. reflexivity.
      * unfold c3. cbn [c_entity_floor c_parent_prefixes set_ld set_entity_floor set_tag_name].
        rewrite (CstEntText.Run_pp _ _ _ (or_run _ _ _ _ O1)). destruct S1 as (_ & _ & ->). rewrite L3.
        rewrite <- (CstEntText.Run_pp _ _ _ (or_run _ _ _ _ HO)). exact Hfl.
      * rewrite Eld3. exact Hld.
      * rewrite app_nil_r. exact HP2.
      * rewrite app_nil_r. pose proof (Rooms_app_r _ _ _ _ _ _ _ _ _ _ _ _ HResE HR) as X. rewrite Ew1 in X. exact X.
      * rewrite app_nil_r. exact HN2.
      * rewrite !app_length in Hfu. cbn [length] in Hfu. lia.
      * exists c0', c', fr', (K1 ++ K2), (e1 ++ e2). cbn [push_text_chunks] in E'. split; [exact E'|].
        split.
        { apply (Res_app _ _ _ _ _ _ _ _ _ _ _ _ _ _ _ _ _ _ HResE). rewrite Ew1. cbn [snd].
          rewrite app_nil_r in HRes2. exact HRes2. }
        split; [rewrite Ht2; unfold c3; cbn; exact L2|]. split; [exact Hg'|].
        (* the events *)
        rewrite lev_ps_ref.
        destruct (xlookup_pos text n d decls es Henv Hfd) as (en0 & Efind & Elk & _).
        assert (Eenv : en_value en0 = en_value en).
        { apply (pnc_value e p n (E.r_epieces rest ++ more) en en0 _ HW Hn Hpre ltac:(lia) Hle Efind Epnc). }
        rewrite Elk, Eenv.
        change (K1 ++ K2) with ([] ++ K1 ++ K2). change (e1 ++ e2) with ([] ++ e1 ++ e2).
        eapply Extra_app; [|eapply Extra_app; [exact HXa|exact HX2]].
        apply (CstRangeG6Ev.Extra_eq text _ _ _ _ _ _ (map LFrag (if neb bacc then [(r, None)] else []))); [destruct (neb bacc); reflexivity|].
        apply (Extra_frags c0 fr (emitG m bacc r)). apply emitG_desc. exact Hacc.
Qed.

End LevelR.

End MachineR.

Print Assumptions value_ok_r.
Print Assumptions TLc_r.
