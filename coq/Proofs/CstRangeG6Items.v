(* Proofs/CstRangeG6Items.v -- C13 / C18 on the capstone fragment, stage S6 (Spec/CstFullS6.v): Proofs/CstFullS6Items.v
   (parse_content_loop with the callback of any level, on a stream over any part of the input, on
   the rendering of items whose references may stand for ITEMS) once more, observing the ranges,
   what the nodes hold, the attributes and the namespace values (CstRangeG6Ev.v [Extra] on the events
   of CstRangeG6Defs.v).  The statements are those of that file with the observations added. *)
From Coq Require Import Ascii String.
From Coq Require Import List NArith PeanoNat Bool Lia ZifyBool ZifyN ZifyNat.
Import ListNotations.
From RX Require Import Generated.
From RX.Model Require Import Base CharClass Stream Tokenizer Doc Builder Parse.
From RX.Spec Require Cst CstText CstEnt Detector Scope CstU CstNs.
From RX.Spec Require Chars.
From RX.Spec Require Import CstFullS5.
From RX.Spec Require Import Text CstFull CstFullS4.
From RX.Spec Require Import CstFullS6.
From RX.Proofs Require Import Tactics CstLex CstBuild CstULex TextMachine TextMerge HoistProofs NoPanicUtf8 DetectorProofs.
From RX.Proofs Require Import CstTextSem CstTextLex CstTextBuild CstEntSem CstEntMeaning CstEntRun CstEntInline.
From RX.Proofs Require Import CstNsLex CstNsView CstNsBuild CstFullLex CstFullBuild CstFullTree.
From RX.Proofs Require Import CstFullS2Sem CstFullS2Lex CstFullS2Build CstFullS3Sem CstFullS3Text CstFullS3Run CstFullS3Plug.
From RX.Proofs Require Import CstEntCFloor CstEntCBuild CstEntCSem CstEntCLoop.
From RX.Proofs Require Import CstFullS4Sem CstFullS4TSem CstFullS4TText CstFullS4Build CstFullS4Attr CstFullS6Text.
From RX.Proofs Require Import CstFullS5Ws CstFullS5Lex.
From RX.Proofs Require CstFullS5Items.
From RX.Proofs Require CstEntText CstEntCLex CstEntCText CstFullS6Lex CstNsItems CstNsDoc CstFullItems CstTextItems CstUItems.
From RX.Proofs Require Import CstFullS6Items.
From RX.Proofs Require Import CstRangeDefs CstRangeBuild CstRangeTDefs CstRangeTBuild CstRangeEDefs CstRangeEText CstRangeEFrags.
From RX.Proofs Require Import CstRangeFDefs CstRangeFBuild CstRangeFItems CstRangeGDefs.
From RX.Proofs Require Import CstRangeG6Defs CstRangeG6Sem CstRangeG6Build CstRangeG6Ev CstRangeG6Text.
From RX.Proofs Require CstRangeGText.
Open Scope N_scope.

Module SL := CstFullS6Lex.

Ltac clia := repeat match goal with H : @eq bool _ true |- _ => clear H end; lia.

(* ---- the events of a segment of a run ---- *)
Definition seg_evs (vt : xvt) (ent : N -> list uitem -> list lev) (p : N) (s : eseg) : list lev :=
  match s with
  | ESS l =>
    let e := p + blen (E.r_epieces l) in
    if has_amp_cr (E.r_epieces l) then lev_ps vt ent false l (p, e) else [LFrag ((p, e), Some (p, e))]
  | ESC bs =>
    [LFrag ((p, p + 9 + blen bs + 3), if has_cr bs then None else Some (p + 9, p + 9 + blen bs))]
  end.

Lemma lev_segs_cons vt ent p s L :
  lev_segs vt ent p (map rseg_of (s :: L)) = seg_evs vt ent p s ++ lev_segs vt ent (p + blen (r_eseg s)) (map rseg_of L).
Proof.
  destruct s as [l|bs]; cbn [map rseg_of lev_segs seg_evs r_eseg]; cbv zeta.
  - reflexivity.
  - cbn [app]. f_equal. f_equal. rewrite !blen_app. change (blen T.cdata_open) with 9. change (blen T.cdata_close) with 3.
    unfold nlen, blen. lia.
Qed.

Lemma lev_item_open vt ent p name es ws cs ws2 :
  lev_item vt ent p (@IElem epieces name es ws (Some (cs, ws2))) =
  LNode (p, @IElem epieces name es ws (Some (cs, ws2))) :: lev_items vt ent (p + fstart_tag_len epieces name es ws) cs ++ [LBreak].
Proof.
  reflexivity.
Qed.

Section ExtraLemmas.
Variable text : bytes.
Variable M : meaning epieces.
Variable vs : N -> val epieces -> tstore.
Notation Extra := (CstRangeG6Ev.Extra text M vs).
Notation NsVals := (CstRangeFBuild.NsVals text).

(* the open run is closed, then one node that is no character data *)
Lemma Extra_flush_node c0 cr c0' fr x Kt Kx ex :
  Forall2 fkshape6 (map snd Kt) (map snd (node_of_group (map gdesc fr))) ->
  rng cr = rng c0 ++ map fst (node_of_group (map gdesc fr)) ->
  d_ns_values (c_doc cr) = d_ns_values (c_doc c0) ->
  Forall2 fkshape6 (map snd Kx) (map snd (node_of_item x)) ->
  Forall2 fattr_obs ex (fitem_aspans epieces vs x) ->
  rng c0' = rng cr ++ map fst (node_of_item x) ->
  NsVals (d_ns_values (c_doc cr)) (d_ns_values (c_doc c0')) (fitem_decls epieces M vs x) ->
  Extra c0 c0' fr [] [LNode x] (Kt ++ Kx) ex.
Proof.
  intros H1 H2 H3 H4 H5 H6 H7. unfold CstRangeG6Ev.Extra. rewrite ewalk_node. cbn [fst snd map].
  unfold ev_aspans, ev_decls. cbn [flat_map]. rewrite !app_nil_r.
  split; [rewrite !map_app; apply Forall2_app; assumption|]. split; [exact H5|].
  split; [rewrite H6, H2, map_app, app_assoc; reflexivity|]. split; [rewrite <- H3; exact H7|reflexivity].
Qed.

(* ... an empty element: its end follows at once *)
Lemma Extra_flush_empty c0 cr c0' fr x Kt Kx ex :
  Forall2 fkshape6 (map snd Kt) (map snd (node_of_group (map gdesc fr))) ->
  rng cr = rng c0 ++ map fst (node_of_group (map gdesc fr)) ->
  d_ns_values (c_doc cr) = d_ns_values (c_doc c0) ->
  Forall2 fkshape6 (map snd Kx) (map snd (node_of_item x)) ->
  Forall2 fattr_obs ex (fitem_aspans epieces vs x) ->
  rng c0' = rng cr ++ map fst (node_of_item x) ->
  NsVals (d_ns_values (c_doc cr)) (d_ns_values (c_doc c0')) (fitem_decls epieces M vs x) ->
  Extra c0 c0' fr [] [LNode x; LBreak] (Kt ++ Kx) ex.
Proof.
  intros H1 H2 H3 H4 H5 H6 H7. unfold CstRangeG6Ev.Extra. cbn [ewalk fst snd map node_of_group app]. rewrite !app_nil_r.
  unfold ev_aspans, ev_decls. cbn [flat_map]. rewrite !app_nil_r.
  split; [rewrite !map_app; apply Forall2_app; assumption|]. split; [exact H5|].
  split; [rewrite H6, H2, map_app, app_assoc; reflexivity|]. split; [rewrite <- H3; exact H7|reflexivity].
Qed.

(* an element with content: the open run is closed, the start tag, the children, the run that is
   open at the end tag is closed, the end tag completes the range of the element *)
Lemma Extra_open c0 cr c1 c0b c3 fr frb x rgx shx evc Kt row Kc Kt2 ext1 ec :
  Forall2 fkshape6 (map snd Kt) (map snd (node_of_group (map gdesc fr))) ->
  rng cr = rng c0 ++ map fst (node_of_group (map gdesc fr)) ->
  d_ns_values (c_doc cr) = d_ns_values (c_doc c0) ->
  node_of_item x = [(rgx, shx)] -> fkshape6 (snd row) shx ->
  Forall2 fattr_obs ext1 (fitem_aspans epieces vs x) ->
  NsVals (d_ns_values (c_doc cr)) (d_ns_values (c_doc c1)) (fitem_decls epieces M vs x) ->
  Extra c1 c0b [] frb evc Kc ec ->
  Forall2 fkshape6 (map snd Kt2) (map snd (node_of_group (map gdesc frb))) ->
  rng c3 = rng cr ++ rgx :: map fst (fst (ewalk [] evc)) ++ map fst (node_of_group (map gdesc frb)) ->
  d_ns_values (c_doc c3) = d_ns_values (c_doc c0b) ->
  Extra c0 c3 fr [] (LNode x :: evc ++ [LBreak]) (Kt ++ row :: Kc ++ Kt2) (ext1 ++ ec).
Proof.
  intros H1 H2 H3 Hx H4 H5 H6 (B1 & B2 & _ & B4 & B5) H8 H9 H10. cbn [map] in B1, B5.
  unfold CstRangeG6Ev.Extra. cbn [ewalk]. rewrite ewalk_app, ewalk_break. cbn [fst snd]. rewrite Hx, <- B5.
  split; [|split; [|split; [|split]]].
  - rewrite !map_app, map_cons, !map_app. cbn [map snd app]. apply Forall2_app; [exact H1|]. constructor; [exact H4|].
    apply Forall2_app; [exact B1|exact H8].
  - change (LNode x :: evc ++ [LBreak]) with ([LNode x] ++ evc ++ [LBreak]). rewrite !ev_aspans_app.
    unfold ev_aspans at 1 3. cbn [flat_map]. rewrite !app_nil_r. apply Forall2_app; assumption.
  - rewrite H9, H2, !map_app. cbn [map fst app]. rewrite <- !app_assoc. reflexivity.
  - change (LNode x :: evc ++ [LBreak]) with ([LNode x] ++ evc ++ [LBreak]). rewrite !ev_decls_app.
    unfold ev_decls at 1 3. cbn [flat_map]. rewrite !app_nil_r. rewrite <- H3, H10. eapply NsVals_app; eassumption.
  - reflexivity.
Qed.
End ExtraLemmas.

(* ---- where the nodes of an item are ---- *)
Lemma node_of_comment p bs :
  node_of_item (p, @IComment epieces bs) =
  [((p, p + 4 + blen (utf8s bs) + 3), XS (TSComment (p + 4, p + 4 + blen (utf8s bs))))].
Proof.
  unfold node_of_item. cbn [fnode_of fst snd map]. unfold nlen, blen. cbn [r_item Cst.r_item]. rewrite !app_length. cbn [length].
  do 3 f_equal. lia.
Qed.

Lemma node_of_pi p t s0 v :
  node_of_item (p, @IPI epieces t s0 v) =
  [((p, p + 2 + blen (utf8s t) + blen s0 + blen (utf8s v) + 2),
    XS (TSPI (p + 2, p + 2 + blen (utf8s t))
             (match v with [] => None | _ => Some (p + 2 + blen (utf8s t) + blen s0, p + 2 + blen (utf8s t) + blen s0 + blen (utf8s v)) end)))].
Proof.
  unfold node_of_item. cbn [fnode_of fst snd map]. unfold nlen, blen. cbn [r_item Cst.r_item]. rewrite !app_length. cbn [length].
  do 3 f_equal. lia.
Qed.

Lemma node_of_elem p name ens ws body :
  node_of_item (p, @IElem epieces name ens ws body) =
  [((p, p + blen (r_item (@IElem epieces name ens ws body))),
    XS (TSElem (p + 1 + q_off (x_qname name), p + 1 + blen (r_qname name))))].
Proof. unfold node_of_item. cbn [fnode_of fst snd map]. rewrite fq_off_q_off. reflexivity. Qed.

Section CItemsR.
Variable text : bytes.
Variable D : list Scope.binding.
Hypothesis HD : forall l, NoDup l -> incl l D -> N.of_nat (length l) <= 65535.
Variable decls : list xdecl.
Variable es : list entity.
Hypothesis Henv : Forall2 (uent_ok text) (map pd decls) es.
Hypothesis Hdecls : Forall udecl_okc (map pd decls).
Hypothesis Hcont : Forall decl_cont decls.
Variable k : nat.
Hypothesis Hk10 : (k <= E.max_level)%nat.
Hypothesis IHk : forall k', k = S k' -> forall cs, ItemsOK_r text D decls es k' cs.

Lemma IHk0 : forall k', k = S k' -> forall cs, CstFullS6Text.ItemsOK text D es (level decls k') cs.
Proof. intros k' _ cs. apply (CstFullS6Items.ItemsOK_all text D HD decls es Henv Hdecls Hcont k' cs). Qed.

Notation tb := (level decls k).
Notation W := (CstLex.W text).
Notation WV := (CstULex.WV text).
Notation WVs := (SL.WV text).
Notation sst4 := CstEntCLex.st.
Notation evl := (CstEntCBuild.evl text).
Notation CIn := (CstNsBuild.CIn text D).
Notation kmn := (CstNsBuild.kmn text).
Notation OR := (CstFullS6Text.OR text D es).
Notation Res := (CstFullS6Text.Res text D es).
Notation Rooms := (CstFullS6Text.Rooms).
Notation NsOk := (CstFullS6Text.NsOk D).
Notation SemI := (CstEntCText.SemI text).
Notation decls3 := (map pd decls).
Notation Res_app := (CstFullS6Text.Res_app text D HD es).
Notation Rooms_app_l := (CstFullS6Text.Rooms_app_l D HD).
Notation Rooms_app_r := (CstFullS6Text.Rooms_app_r text D HD es).
Notation Res_nil := (CstFullS6Text.Res_nil text D HD es).
Notation or_run := (CstFullS6Text.or_run text D es).
Notation or_es := (CstFullS6Text.or_es text D es).
Notation TLc_r := (CstRangeG6Text.TLc_r text D HD decls es Henv Hdecls Hcont k IHk).
Notation RunR := CstRangeEText.RunR.
Notation run_append_n_r := (CstRangeGText.run_append_n_r text D).

Notation WVs_full := (CstFullS6Items.WVs_full text).
Notation flush_res := (CstFullS6Items.flush_res text D HD es).
Notation Res_item := (CstFullS6Items.Res_item text D HD decls es k IHk0).
Notation room_after := (CstFullS6Items.room_after text D HD decls es k IHk0).
Notation rooms_single := (CstFullS6Items.rooms_single text D HD decls es k IHk0).
Notation nsok_single := (CstFullS6Items.nsok_single D).
Notation balT_level := (CstFullS6Items.balT_level decls).
Notation evs_reset := (CstFullS6Items.evs_reset text).
Notation inline_entries_len := (CstFullS6Items.inline_entries_len decls k).
Notation own_cost_eq := (CstFullS6Items.own_cost_eq text D HD decls es k IHk0).
Notation nattrs_walk := (CstFullS6Items.nattrs_walk text D HD decls es k IHk0).
Notation ns_costs_walk := (CstFullS6Items.ns_costs_walk text D HD decls es k IHk0).
Notation inline_nontext_g := (CstFullS6Items.inline_nontext_g decls k).

Notation vt := (xvt_of decls es).
Notation tbm := (E.level decls3 E.max_level).
Notation Mm := (ents_meaning tbm).
Notation vsm := (vstore3 tbm).
Notation Extra := (CstRangeG6Ev.Extra text Mm vsm).
Notation Extra_app := (CstRangeG6Ev.Extra_app text Mm vsm).
Notation Extra_nil := (CstRangeG6Ev.Extra_nil text Mm vsm).
Notation Extra_frags := (CstRangeG6Ev.Extra_frags text Mm vsm).
Notation Extra_eq := (CstRangeG6Ev.Extra_eq text Mm vsm).
Notation ent := (lev_ent vt k).

Lemma tok_stretch_c_r inh l p more m c0 c (fr : list (cow * range)) acc L its tr ld' :
  WV p (E.r_epieces l ++ more) -> Forall (uep_ok m) l -> l <> [] ->
  m = (0 <? ld_depth (c_ld c)) -> N.of_nat L + ld_depth (c_ld c) = 12 -> ld_ok (c_ld c) ->
  OR inh c0 c (map fst fr) -> rng c = rng c0 ++ firstn 1 (map snd fr) -> SemI (map fst fr) acc -> bnd acc = true -> c_entity_floor c <= len_N (c_parent_prefixes c) ->
  inline_run tb m l = Some (its, tr) -> ld_run (c_ld c) tr = Some ld' ->
  Pok acc its -> Rooms inh c0 acc its -> NsOk inh acc its ->
  exists c0' c' fr' K ext,
    evl L (TText (sl p (p + blen (E.r_epieces l))) (p, p + blen (E.r_epieces l))) c = Ok c' /\
    Res inh c0 c acc its ld' c0' c' (map fst fr') K ext /\
    rng c' = rng c0' ++ firstn 1 (map snd fr') /\
    Extra c0 c0' fr fr' (seg_evs vt ent p (ESS l)) K ext.
Proof.
  intros HWv Hok Hne Hm Hlvl Hk HO Hg HS Hbnd Hfl Hin Hld HP HR HN. pose proof (WV_W _ _ _ HWv) as HW.
  cbn [seg_evs]. cbv zeta. unfold has_amp_cr.
  unfold CstEntCBuild.evl. cbn [token_with].
  rewrite process_text_with_unfold. unfold slice_bytes at 1. cbn [sl sl_start sl_end].
  rewrite (CstLex.W_sub _ _ _ _ HW).
  pose proof (CstLex.W_le _ _ _ (CstLex.W_app _ _ _ _ HW)) as Hle.
  destruct (existsb (fun x => (x =? 38) || (x =? 13)) (E.r_epieces l)) eqn:Efast; cbn [negb].
  - cbn [fst snd]. rewrite (stream_from_substr_W text p (E.r_epieces l) more HW). cbn [bind].
    destruct (TLc_r l [] [] inh m (p + blen (E.r_epieces l)) p more c0 c fr acc
                (S (length (s_rest (sst (p + blen (E.r_epieces l)) p (E.r_epieces l ++ more))))) L
                (p, p + blen (E.r_epieces l)) its tr ld')
      as (c0' & c' & fr' & K & ext & E' & HRes & _ & Hg' & HX); try assumption; try reflexivity.
    + apply acc_nil.
    + constructor.
    + rewrite app_nil_r. exact HP.
    + rewrite app_nil_r. exact HR.
    + rewrite app_nil_r. exact HN.
    + cbn [sst s_rest]. rewrite app_length. lia.
    + cbn [push_text_chunks] in E'. rewrite E'. exists c0', c', fr', K, ext. split; [reflexivity|].
      rewrite app_nil_r in HRes. split; [exact HRes|]. split; [exact Hg'|exact HX].
  - destruct (existsb_or_false _ _ _ Efast) as [E38 E13].
    destruct (inline_run_plain tb m l its tr E38 Hok Hin) as (-> & Htx & Hch & Hnm & Hpne).
    cbn [ld_run] in Hld. injection Hld as <-.
    set (g := pieces_of its) in *.
    assert (Ew : walk acc its = ([], acc ++ g)) by (apply walk_texts; exact Htx).
    destruct HO as [A1 A2 A3 A4 A5 A6].
    assert (Hcr : E.crlf_split_ok (acc ++ g) = true) by (destruct HP as [_ X]; rewrite Ew in X; exact X).
    destruct (run_append_n_r inh (CowBorrowed (sl p (p + blen (E.r_epieces l)))) (p, p + blen (E.r_epieces l)) c0 c fr (conj A5 Hg) A1)
      as (c' & Ea & [HRa Hga] & La1 & La2 & La3); [|exact A2|].
    { intros Z0. destruct HR as [HR _]. rewrite Ew in HR. cbn [fst snd app] in HR. apply (CstFullItems.node_room_room _ _ HR).
      rewrite nsizes_flush, all_marks_app, (proj1 (proj2 HS) ltac:(rewrite Z0; reflexivity)). cbn [andb].
      destruct (all_marks g) eqn:Em; [apply (nomarks_all g Hnm) in Em; exfalso; apply (Hpne Hne); exact Em|]. lia. }
    rewrite map_app in HRa. cbn [map fst] in HRa.
    rewrite Ea. exists c0, c', (fr ++ [(CowBorrowed (sl p (p + blen (E.r_epieces l))), (p, p + blen (E.r_epieces l)))]), [], []. split; [reflexivity|].
    split; [|split; [exact Hga|apply (Extra_frags c0 fr [(CowBorrowed (sl p (p + blen (E.r_epieces l))), (p, p + blen (E.r_epieces l)))] _ eq_refl)]].
    rewrite map_app. cbn [map fst].
    unfold CstFullS6Text.Res. rewrite Ew. cbn [fst snd CstFullTree.dens NT.tag_list NT.nattrs_items NT.ns_costs length].
    split; [apply Stepn_refl|]. split.
    { constructor; try assumption. rewrite (CstEntText.Run_entities _ _ _ HRa). rewrite <- A6. symmetry. apply (CstEntText.Run_entities _ _ _ A5). }
    split.
    { apply SemI_ext; [exact HS| | |].
      - cbn [map concat cow_bytes]. rewrite app_nil_r. unfold slice_bytes. cbn [sl sl_start sl_end].
        rewrite (CstLex.W_sub _ _ _ _ HW). rewrite Hch, decode_lits, norm_eol_nocr by exact E13. reflexivity.
      - split; [discriminate|]. intros Em. apply (nomarks_all g Hnm) in Em. exfalso. apply (Hpne Hne). exact Em.
      - apply (nosplit_bnd acc g []); [exact Hbnd|rewrite app_nil_r; exact Hcr]. }
    split; [constructor|]. split; [reflexivity|]. split; [lia|]. split; [exact La1|]. split; [reflexivity|]. split; [exact La3|].
    unfold tn_set. rewrite La2. auto.
Qed.

Lemma tok_cdata_c_r inh bs p post c0 c (fr : list (cow * range)) acc L :
  W p (T.cdata_open ++ bs ++ n3 ++ post) ->
  OR inh c0 c (map fst fr) -> rng c = rng c0 ++ firstn 1 (map snd fr) -> SemI (map fst fr) acc -> E.crlf_split_ok (acc ++ [T.PCData bs]) = true -> (fr = [] -> room c0) ->
  exists c',
    evl L (TCdata (sl (p + 9) (p + 9 + blen bs)) (p, p + 9 + blen bs + 3)) c = Ok c' /\
    let t := if mem_b 13 bs then CowOwned (norm_eol bs) else CowBorrowed (sl (p + 9) (p + 9 + blen bs)) in
    Res inh c0 c acc [@IText bpieces [T.PCData bs]] (c_ld c) c0 c' (map fst (fr ++ [(t, (p, p + 9 + blen bs + 3))])) [] [] /\
    rng c' = rng c0 ++ firstn 1 (map snd (fr ++ [(t, (p, p + 9 + blen bs + 3))])) /\
    Extra c0 c0 fr (fr ++ [(t, (p, p + 9 + blen bs + 3))]) (seg_evs vt ent p (ESC bs)) [] [].
Proof.
  intros HW [A1 A2 A3 A4 A5 A6] Hg HS Hcr Hroom.
  unfold CstEntCBuild.evl. cbn [token_with]. rewrite process_cdata_spec.
  pose proof (CstLex.W_app _ _ _ _ HW) as HW1. change (blen T.cdata_open) with 9 in HW1.
  rewrite (CstLex.W_slice _ _ _ _ HW1).
  set (t := if mem_b 13 bs then CowOwned (norm_eol bs) else CowBorrowed (sl (p + 9) (p + 9 + blen bs))).
  destruct (run_append_n_r inh t (p, p + 9 + blen bs + 3) c0 c fr (conj A5 Hg) A1 Hroom A2) as (c' & Ea & [HRa Hga] & La1 & La2 & La3).
  rewrite map_app in HRa. cbn [map fst] in HRa.
  rewrite Ea. exists c'. split; [reflexivity|]. cbv zeta. fold t.
  split; [|split; [exact Hga|]].
  2:{ apply (Extra_eq _ _ _ _ (map LFrag (map gdesc [(t, (p, p + 9 + blen bs + 3))]))); [|apply (Extra_frags c0 fr [(t, (p, p + 9 + blen bs + 3))] _ eq_refl)].
      cbn [seg_evs map gdesc fst snd]. unfold t. rewrite mem_b_existsb. fold (has_cr bs). destruct (has_cr bs); reflexivity. }
  rewrite map_app. cbn [map fst].
  unfold CstFullS6Text.Res. cbn [walk fst snd CstFullTree.dens NT.tag_list NT.nattrs_items NT.ns_costs length].
  split; [apply Stepn_refl|]. split.
  { constructor; try assumption. rewrite (CstEntText.Run_entities _ _ _ HRa). rewrite <- A6. symmetry. apply (CstEntText.Run_entities _ _ _ A5). }
  split.
  { apply SemI_ext; [exact HS| | |].
    - cbn [map concat]. rewrite app_nil_r. unfold chunks. cbn [flat_map T.piece_chunks]. rewrite app_nil_r.
      rewrite decode_ref_nil, decode_app_ref, decode_lits. change (decode_chunks []) with (@nil N). rewrite !app_nil_r.
      unfold t. destruct (mem_b 13 bs) eqn:E13; cbn [cow_bytes]; [reflexivity|].
      rewrite (CstLex.W_slice _ _ _ _ HW1). rewrite mem_b_existsb in E13. rewrite norm_eol_nocr by exact E13. reflexivity.
    - split; discriminate.
    - unfold chunks at 2. cbn [flat_map T.piece_chunks]. rewrite andb_false_r. reflexivity. }
  split; [constructor|]. split; [reflexivity|]. split; [lia|]. split; [exact La1|]. split; [reflexivity|]. split; [exact La3|].
  unfold tn_set. rewrite La2. auto.
Qed.


Lemma segs_c_r inh post en tl : text_stop post ->
  forall L prev p m c0 c (fr : list (cow * range)) acc lvl depth fuel its tr ld',
  Forall (ueseg_wfm m) L -> ealt (prev :: L) -> WVs en tl p (flat_map r_eseg L ++ post) ->
  m = (0 <? ld_depth (c_ld c)) -> N.of_nat lvl + ld_depth (c_ld c) = 12 -> ld_ok (c_ld c) ->
  OR inh c0 c (map fst fr) -> rng c = rng c0 ++ firstn 1 (map snd fr) -> SemI (map fst fr) acc -> seg_bnd L acc -> c_entity_floor c <= len_N (c_parent_prefixes c) ->
  inline_run tb m (flat_map seg_pieces L) = Some (its, tr) -> ld_run (c_ld c) tr = Some ld' ->
  Pok acc its -> Rooms inh c0 acc its -> NsOk inh acc its ->
  exists c0' c' fr' K ext,
    parse_content_loop text context (evl lvl) (length L + fuel) depth (sst4 en tl p (flat_map r_eseg L ++ post)) c =
    parse_content_loop text context (evl lvl) fuel depth (sst4 en tl (p + blen (flat_map r_eseg L)) post) c' /\
    Res inh c0 c acc its ld' c0' c' (map fst fr') K ext /\
    rng c' = rng c0' ++ firstn 1 (map snd fr') /\
    Extra c0 c0' fr fr' (lev_segs vt ent p (map rseg_of L)) K ext.
Proof.
  intros Hpost. induction L as [|s L IH]; intros prev p m c0 c fr acc lvl depth fuel its tr ld'
    HF A HW Hm Hlvl Hk HO Hg HS Hb Hfl Hin Hld HP HR HN.
  - cbn [flat_map inline_run] in Hin. injection Hin as <- <-. cbn [ld_run] in Hld. injection Hld as <-.
    cbn [length flat_map app Nat.add]. rewrite blen_nil, N.add_0_r.
    exists c0, c, fr, [], []. split; [reflexivity|]. split; [apply Res_nil; assumption|]. split; [exact Hg|apply Extra_nil].
  - apply Forall_cons_iff in HF. destruct HF as [[Hs Hsm] HL].
    assert (A' : ealt (s :: L)) by (destruct A as [_ A]; exact A).
    cbn [flat_map] in Hin, HW |- *. rewrite <- app_assoc in HW |- *.
    destruct (inline_run_app _ _ _ _ _ _ Hin) as (ia & tra & ib & trb & Ea & Eb & -> & ->).
    rewrite ld_run_app in Hld. destruct (ld_run (c_ld c) tra) as [ld1|] eqn:El1; [|discriminate].
    destruct (Pok_app _ _ _ HP) as [HPa HPb]. pose proof (Rooms_app_l _ _ _ _ _ HR) as HRa.
    destruct (CstFullS6Text.NsOk_app _ _ _ _ _ HN) as [HNa HNb].
    cbn [length Nat.add].
    assert (Hstep : exists c0a ca fra K1 e1,
              parse_content_loop text context (evl lvl) (S (length L + fuel)) depth (sst4 en tl p (r_eseg s ++ flat_map r_eseg L ++ post)) c =
              parse_content_loop text context (evl lvl) (length L + fuel) depth (sst4 en tl (p + blen (r_eseg s)) (flat_map r_eseg L ++ post)) ca /\
              Res inh c0 c acc ia ld1 c0a ca (map fst fra) K1 e1 /\ seg_bnd L (snd (walk acc ia)) /\
              rng ca = rng c0a ++ firstn 1 (map snd fra) /\ Extra c0 c0a fr fra (seg_evs vt ent p s) K1 e1).
    { destruct s as [l|bs]; cbn [r_eseg seg_pieces] in *.
      - (* a stretch *)
        destruct (ess_bytes_u D HD l Hs) as (Hu & Hb60 & x & r & Ex & Hx60). destruct Hs as (Hne & _ & _ & Hn3).
        pose proof (SL.WV_W text _ _ HW) as HW0.
        assert (El : parse_content_loop text context (evl lvl) (S (length L + fuel)) depth (sst4 en tl p (E.r_epieces l ++ flat_map r_eseg L ++ post)) c =
                     let! (s0, c1) := parse_text text context (evl lvl) (sst4 en tl p (E.r_epieces l ++ flat_map r_eseg L ++ post)) c in
                     parse_content_loop text context (evl lvl) (length L + fuel) depth s0 c1).
        { revert HW0. rewrite Ex. cbn [app]. intros HW0. apply (loop_text text en tl); assumption. }
        rewrite El. clear El.
        assert (Hstop : text_stop (flat_map r_eseg L ++ post)).
        { destruct L as [|[l'|bs'] L']; cbn [flat_map app]; [exact Hpost| |reflexivity].
          destruct A' as [A' _]. specialize (A' eq_refl). discriminate. }
        rewrite (SL.lex_text_g text en tl) by assumption.
        pose proof (WVs_full _ _ _ _ HW) as HWf. rewrite <- app_assoc in HWf.
        destruct (tok_stretch_c_r inh l p _ m c0 c fr acc lvl ia tra ld1 HWf Hsm Hne Hm Hlvl Hk HO Hg HS Hb Hfl Ea El1 HPa HRa HNa)
          as (c0a & ca & fra & K1 & e1 & E1 & HRes1 & Hga & HXa).
        rewrite E1. cbn [bind]. exists c0a, ca, fra, K1, e1. split; [reflexivity|]. split; [exact HRes1|]. split; [|split; [exact Hga|exact HXa]].
        destruct L as [|[l'|bs'] L']; [exact I| |exact I]. destruct A' as [A' _]. specialize (A' eq_refl). discriminate.
      - (* a CDATA section *)
        cbn [inline_run E.obind fst snd] in Ea. injection Ea as <- <-. cbn [ld_run] in El1. injection El1 as <-.
        destruct Hs as [H1 H2]. rewrite <- !app_assoc in HW |- *.
        rewrite (loop_cdata text en tl) by (apply (SL.WV_W text _ _ HW)).
        change T.cdata_close with n3 in *.
        rewrite (SL.lex_cdata_u text en tl) by assumption.
        pose proof (WVs_full _ _ _ _ HW) as HWf. rewrite <- !app_assoc in HWf.
        destruct (tok_cdata_c_r inh bs p _ c0 c fr acc lvl (WV_W _ _ _ HWf) HO Hg HS) as (ca & E1 & HRes1 & Hga & HXa).
        { destruct HPa as [_ X]. cbn [walk snd] in X. exact X. }
        { intros Z0. destruct HRa as [X _]. cbn [walk fst snd app] in X. apply (CstFullItems.node_room_room _ _ X).
          rewrite nsizes_flush, all_marks_app. change (all_marks [T.PCData bs]) with false. rewrite andb_false_r. lia. }
        cbv zeta in HRes1, Hga, HXa.
        rewrite E1. cbn [bind]. eexists c0, ca, _, [], []. split.
        { f_equal. f_equal. rewrite !blen_app. change (blen T.cdata_open) with 9. change (blen n3) with 3. lia. }
        split; [exact HRes1|]. split; [|split; [exact Hga|exact HXa]]. cbn [walk snd]. destruct L as [|[l'|bs'] L']; try exact I.
        cbn [seg_bnd]. rewrite bnd_snoc. reflexivity. }
    destruct Hstep as (c0a & ca & fra & K1 & e1 & E1 & HRes1 & Hb1 & Hga & HXa). rewrite E1.
    pose proof HRes1 as (S1 & O1 & M1 & F1 & Le1 & Nc1 & D1 & D1' & Fl1 & T1).
    assert (Hvs : U8.Valid (r_eseg s)) by (apply (eseg_valid D HD); exact Hs).
    destruct (IH s (p + blen (r_eseg s)) m c0a ca fra (snd (walk acc ia)) lvl depth fuel ib trb ld' HL A')
      as (c0' & c' & fr' & K2 & e2 & E2 & HRes2 & Hg' & HX2); try assumption.
    + apply (SL.WV_app text _ _ _ HW Hvs).
    + rewrite D1, D1'. exact Hm.
    + rewrite D1, D1'. exact Hlvl.
    + rewrite D1. apply (ld_ok_run _ _ _ El1 Hk).
    + rewrite Fl1. rewrite (CstEntText.Run_pp _ _ _ (or_run _ _ _ _ O1)). destruct S1 as (_ & _ & ->).
      rewrite <- (CstEntText.Run_pp _ _ _ (or_run _ _ _ _ HO)). exact Hfl.
    + rewrite D1. exact Hld.
    + apply (Rooms_app_r _ _ _ _ _ _ _ _ _ _ _ _ HRes1 HR).
    + rewrite E2. exists c0', c', fr', (K1 ++ K2), (e1 ++ e2). split.
      { rewrite blen_app, N.add_assoc. reflexivity. }
      split; [apply (Res_app _ _ _ _ _ _ _ _ _ _ _ _ _ _ _ _ _ _ HRes1 HRes2)|]. split; [exact Hg'|].
      rewrite lev_segs_cons. apply (Extra_app _ _ _ _ _ _ _ _ _ _ _ _ HXa HX2).
Qed.



(* ---- a token that is not character data closes the open run ---- *)
Lemma flush_res_r inh c0 c (fr : list (cow * range)) acc :
  OR inh c0 c (map fst fr) -> rng c = rng c0 ++ firstn 1 (map snd fr) -> SemI (map fst fr) acc ->
  exists cr Kt,
    (reset_after_text text c = Ok cr /\ c_after_text cr = [] /\ Stepn c0 (sh cr) Kt [] /\ CIn inh (sh cr) /\
     c_ld cr = c_ld c /\ c_tag_name cr = c_tag_name c /\ c_entity_floor cr = c_entity_floor c /\
     d_ns_tree (c_doc cr) = d_ns_tree (c_doc c0) /\
     (forall d, Forall2 (kmn d) Kt (NT.tag_list inh (c_parent_id c0) (len_N (d_nodes (c_doc c0))) (bdens (flush acc)))) /\
     c_entities cr = es /\ c_parent_prefixes cr = c_parent_prefixes c) /\
    Forall2 fkshape6 (map snd Kt) (map snd (node_of_group (map gdesc fr))) /\
    rng cr = rng c0 ++ map fst (node_of_group (map gdesc fr)) /\
    d_ns_values (c_doc cr) = d_ns_values (c_doc c0).
Proof.
  intros HO Hg HS. destruct (flush_res inh c0 c (map fst fr) acc HO HS) as (cr & Kt & Er & HR).
  exists cr, Kt. split; [split; [exact Er|exact HR]|].
  destruct HO as [A1 A2 A3 A4 A5 A6].
  destruct (flush_run_n_r text D HD inh c0 c fr A1 A2 A3 A4 (conj A5 Hg)) as (cr' & K' & Er' & _ & St' & _ & _ & _ & _ & _ & _ & Y1 & Y2 & Y3).
  rewrite Er in Er'. injection Er' as <-.
  destruct HR as (_ & St & _).
  pose proof (sn_nodes _ _ _ _ (proj1 St)) as N1. rewrite (sn_nodes _ _ _ _ (proj1 St')) in N1. apply app_inv_head in N1. subst K'.
  split; [exact Y1|]. split; [exact Y2|exact Y3].
Qed.

(* ------------------------------------------------------------------------------------------ *)
(* items                                                                                      *)
(* ------------------------------------------------------------------------------------------ *)
Definition ItemOK_r (i : uitem) : Prop :=
  forall inh m en tl p post c0 c (fr : list (cow * range)) acc lvl depth fuel its tr ld',
    wf_uitem_s m i = true -> WVs en tl p (r_item i ++ post) ->
    (is_text epieces i = true -> text_stop post) ->
    OR inh c0 c (map fst fr) -> rng c = rng c0 ++ firstn 1 (map snd fr) -> SemI (map fst fr) acc ->
    (is_text epieces i = true -> bnd acc = true) ->
    m = (0 <? ld_depth (c_ld c)) -> N.of_nat lvl + ld_depth (c_ld c) = 12 -> ld_ok (c_ld c) ->
    c_entity_floor c <= len_N (c_parent_prefixes c) ->
    inline_item tb m i = Some (its, tr) -> ld_run (c_ld c) tr = Some ld' ->
    Pok acc its -> Rooms inh c0 acc its -> NsOk inh acc its ->
    exists c0' c' fr' K ext,
      parse_content_loop text context (evl lvl) (usteps i + fuel) depth (sst4 en tl p (r_item i ++ post)) c =
      parse_content_loop text context (evl lvl) fuel depth (sst4 en tl (p + blen (r_item i)) post) c' /\
      Res inh c0 c acc its ld' c0' c' (map fst fr') K ext /\
      rng c' = rng c0' ++ firstn 1 (map snd fr') /\
      Extra c0 c0' fr fr' (lev_item vt ent p i) K ext.

Lemma ItemOK_text_r ps : ItemOK_r (IText ps).
Proof.
  intros inh m en tl p post c0 c fr acc lvl depth fuel its tr ld' Hwf HW Hstop HO Hg HS Hb Hm Hlvl Hk Hfl Hin Hld HP HR HN.
  specialize (Hstop eq_refl). specialize (Hb eq_refl).
  cbn [wf_uitem_s r_item r_run epieces usteps inline_item lev_item] in *. rewrite rsegs_esegs.
  apply andb_true_iff in Hwf. destruct Hwf as [Hne Hw].
  pose proof (esegs_wfm m ps Hw) as HF.
  rewrite <- (esegs_render (enc_epieces ps)) in HW |- *. rewrite <- (esegs_flat (enc_epieces ps)) in Hin.
  destruct (segs_c_r inh post en tl Hstop (esegs (enc_epieces ps)) (ESC []) p m c0 c fr acc lvl depth fuel its tr ld' HF)
    as (c0' & c' & fr' & K & ext & E' & HRes & Hg' & HX); try assumption.
  - apply ealt_sc. apply ealt_esegs.
  - destruct (esegs (enc_epieces ps)) as [|[l|bs] L]; try exact I. exact Hb.
  - exists c0', c', fr', K, ext. split; [exact E'|]. split; [exact HRes|]. split; [exact Hg'|exact HX].
Qed.

Lemma ItemOK_comment_r bs : ItemOK_r (IComment bs).
Proof.
  intros inh m en tl p post c0 c fr acc lvl depth fuel its tr ld' Hwf HW _ HO Hg HS _ Hm Hlvl Hk Hfl Hin Hld HP HR HN.
  cbn [inline_item] in Hin. injection Hin as <- <-. cbn [ld_run] in Hld. injection Hld as <-.
  assert (Hok : SL.comment_ok_u bs) by (apply CstUItems.uwf_comment; exact Hwf).
  cbn [r_item Cst.r_item usteps Nat.add] in *. rewrite <- !app_assoc in HW |- *.
  rewrite (loop_comment text en tl) by (apply (SL.WV_W text _ _ HW)).
  rewrite (SL.lex_comment_u text en tl) by assumption.
  destruct (flush_res_r inh c0 c fr acc HO Hg HS) as (cr & Kt & (Er & Ar & St & Ir & L1 & L2 & L3 & Tr0 & HKt & _) & Y1 & Y2 & Y3).
  rewrite (evl_reset text lvl (TComment (sl (p + 4) (p + 4 + blen (utf8s bs))) (p, p + 4 + blen (utf8s bs) + 3)) c cr I Er Ar).
  destruct (rooms_single inh c0 acc (@IComment bpieces bs) cr Kt eq_refl HR St Tr0 HKt) as (NR & _ & _).
  destruct (tok_comment_gn text D HD lvl inh (sl (p + 4) (p + 4 + blen (utf8s bs))) (p, p + 4 + blen (utf8s bs) + 3) cr Ir
              (CstFullItems.node_room_room _ _ NR ltac:(cbn; lia)))
    as (c' & E & S & I' & A & T & Dd & Fl & Tr).
  destruct (comment_obs_n text lvl _ _ cr c' E) as [Rg Nv].
  rewrite E. cbn [bind]. eexists (sh c'), c', [], _, []. split.
  { f_equal. f_equal. rewrite !blen_app. change (blen [60; 33; 45; 45]) with 4. change (blen [45; 45; 62]) with 3. lia. }
  split; [|split; [cbn [map firstn]; rewrite app_nil_r; reflexivity|]].
  2:{ cbn [lev_item]. apply (Extra_flush_node text Mm vsm c0 cr (sh c') fr _ Kt [(Some (c_parent_id cr), KComment (sl (p + 4) (p + 4 + blen (utf8s bs))))] [] Y1 Y2 Y3).
      - rewrite node_of_comment. cbn [map snd]. constructor; [reflexivity|constructor].
      - constructor.
      - rewrite node_of_comment. exact Rg.
      - apply NsVals_same. exact Nv. }
  apply (Res_item inh c0 c (map fst fr) acc cr Kt (@IComment bpieces bs) c' _ [] (c_ld c) HO St L1 L3 L2 Tr0 HKt S I' A); try reflexivity; try congruence.
  - cbn [den NT.tag_list NT.tag app]. constructor; [|constructor]. split; [reflexivity|]. cbn [snd].
    pose proof (CstEntCLex.W_app text _ _ _ (SL.WV_W text _ _ HW)) as HW1. change (blen [60; 33; 45; 45]) with 4 in HW1.
    apply (CstEntCLex.W_slice text _ _ _ HW1).
  - cbn [den NT.ns_costs CstNs.ns_cost]. rewrite Tr. cbn. lia.
Qed.


Lemma ItemOK_pi_r t s0 v : ItemOK_r (IPI t s0 v).
Proof.
  intros inh m en tl p post c0 c fr acc lvl depth fuel its tr ld' Hwf HW _ HO Hg HS _ Hm Hlvl Hk Hfl Hin Hld HP HR HN.
  cbn [inline_item] in Hin. injection Hin as <- <-. cbn [ld_run] in Hld. injection Hld as <-.
  assert (Hok : SL.pi_ok_u t s0 v) by (exact (swf_pi _ _ _ Hwf)).
  cbn [r_item Cst.r_item usteps Nat.add] in *. rewrite <- !app_assoc in HW |- *.
  rewrite (loop_pi text en tl) by (apply (SL.WV_W text _ _ HW)).
  rewrite (SL.lex_pi_u text en tl) by assumption. cbv zeta.
  set (vs := match v with [] => None | _ :: _ => Some (sl (p + 2 + blen (utf8s t) + blen s0) (p + 2 + blen (utf8s t) + blen s0 + blen (utf8s v))) end).
  destruct (flush_res_r inh c0 c fr acc HO Hg HS) as (cr & Kt & (Er & Ar & St & Ir & L1 & L2 & L3 & Tr0 & HKt & _) & Y1 & Y2 & Y3).
  rewrite (evl_reset text lvl (TPI (sl (p + 2) (p + 2 + blen (utf8s t))) vs (p, p + 2 + blen (utf8s t) + blen s0 + blen (utf8s v) + 2)) c cr I Er Ar).
  destruct (rooms_single inh c0 acc (@IPI bpieces t s0 v) cr Kt eq_refl HR St Tr0 HKt) as (NR & _ & _).
  destruct (tok_pi_gn text D HD lvl inh (sl (p + 2) (p + 2 + blen (utf8s t))) vs (p, p + 2 + blen (utf8s t) + blen s0 + blen (utf8s v) + 2) cr Ir
              (CstFullItems.node_room_room _ _ NR ltac:(cbn; lia)))
    as (c' & E & S & I' & A & T & Dd & Fl & Tr).
  destruct (pi_obs_n text lvl _ _ _ cr c' E) as [Rg Nv].
  rewrite E. cbn [bind]. eexists (sh c'), c', [], _, []. split.
  { f_equal. f_equal. rewrite !blen_app. change (blen [60; 63]) with 2. change (blen [63; 62]) with 2. lia. }
  split; [|split; [cbn [map firstn]; rewrite app_nil_r; reflexivity|]].
  2:{ cbn [lev_item]. apply (Extra_flush_node text Mm vsm c0 cr (sh c') fr _ Kt [(Some (c_parent_id cr), KPI (sl (p + 2) (p + 2 + blen (utf8s t))) vs)] [] Y1 Y2 Y3).
      - rewrite node_of_pi. cbn [map snd]. constructor; [|constructor]. unfold vs. destruct v; cbn; split; reflexivity.
      - constructor.
      - rewrite node_of_pi. exact Rg.
      - apply NsVals_same. exact Nv. }
  apply (Res_item inh c0 c (map fst fr) acc cr Kt (@IPI bpieces t s0 v) c' _ [] (c_ld c) HO St L1 L3 L2 Tr0 HKt S I' A); try reflexivity; try congruence.
  - cbn [den NT.tag_list NT.tag app]. constructor; [|constructor]. split; [reflexivity|]. cbn [snd].
    pose proof (CstEntCLex.W_app text _ _ _ (SL.WV_W text _ _ HW)) as HW1. change (blen [60; 63]) with 2 in HW1.
    split; [apply (CstEntCLex.W_slice text _ _ _ HW1)|].
    pose proof (CstEntCLex.W_app text _ _ _ HW1) as HW2. pose proof (CstEntCLex.W_app text _ _ _ HW2) as HW3.
    unfold vs. destruct v as [|x v]; [exact Logic.I|].
    assert (Hne : utf8s (x :: v) <> []).
    { rewrite utf8s_cons. pose proof (utf8_len x). destruct (utf8 x); [unfold blen in *; cbn in *; lia|discriminate]. }
    destruct (utf8s (x :: v)) as [|y0 yr] eqn:Ey; [congruence|]. rewrite <- Ey in *. apply (CstEntCLex.W_slice text _ _ _ HW3).
  - cbn [den NT.ns_costs CstNs.ns_cost]. rewrite Tr. cbn. lia.
Qed.


Lemma sentries_at_r more m : forall ens q ens' tr ld ld',
  WV q (flat_map r_entry ens ++ more) -> forallb (wf_uentry_s m) ens = true ->
  m = (0 <? ld_depth ld) -> ld_ok ld ->
  inline_entries tb m ens = Some (ens', tr) -> ld_run ld tr = Some ld' ->
  forallb (fun e => E.crlf_split_ok (e_value bpieces e)) ens' = true ->
  exists xs, raws xs = map (x_entry epieces (r_val epieces)) ens /\
             CstFullBuild.dens xs = map (x_entry bpieces T.value_sem) ens' /\
             sentries_ok text es q xs /\ norms text es q xs ld ld' /\ ld_depth ld' = ld_depth ld /\
             Forall2 ta_obs (tas_g q xs) (entries_aspans epieces vsm q ens) /\
             sdecls q xs = map (fun kd => (fst kd, nsv_of (snd kd))) (entries_decls epieces Mm vsm q ens).
Proof.
  induction ens as [|e ens IH]; intros q ens' tr ld ld' HW Hwf Hm Hk Hin Hld Hpr.
  - cbn [inline_entries] in Hin. injection Hin as <- <-. cbn [ld_run] in Hld. injection Hld as <-.
    exists []. repeat split. constructor.
  - cbn [forallb] in Hwf. apply andb_true_iff in Hwf. destruct Hwf as [H1 H2].
    cbn [inline_entries] in Hin.
    destruct (inline_entry tb m e) as [[e' tre]|] eqn:Ee; [|discriminate]. cbn [E.obind fst snd] in Hin.
    destruct (inline_entries tb m ens) as [[er trr]|] eqn:Er; [|discriminate]. cbn [E.obind fst snd] in Hin. injection Hin as <- <-.
    cbn [forallb] in Hpr. apply andb_true_iff in Hpr. destruct Hpr as [Hp1 Hp2].
    rewrite ld_run_app in Hld. destruct (ld_run ld tre) as [ld1|] eqn:El1; [|discriminate].
    cbn [flat_map] in HW. rewrite <- app_assoc in HW.
    pose proof (uentry_valid_s _ (uentry_of4 m e H1)) as Hv. change (CstNs.r_entry (x_entry epieces (r_val epieces) e)) with (r_entry e) in Hv.
    assert (Hl : wf_layout_s (e_layout epieces e) = true /\
                 wf_uepieces (CstNs.l_quote (e_layout epieces e)) false false m (e_value epieces e) = true).
    { unfold wf_uentry_s in H1. rewrite !andb_true_iff in H1. tauto. }
    destruct Hl as [Hl Hvw]. pose proof (CstFullS5Items.layout_quote _ Hl) as Hq.
    set (re := x_entry epieces (r_val epieces) e).
    assert (Ere : CstNs.e_layout re = e_layout epieces e /\ CstNs.e_value re = r_val epieces (e_value epieces e)) by (destruct e; split; reflexivity).
    destruct Ere as [Ere1 Ere2].
    set (ps := e_value epieces e) in *. pose (quote := CstNs.l_quote (e_layout epieces e)).
    change (CstNs.l_quote (e_layout epieces e)) with quote in Hq, Hvw.
    (* the value stands between the quotes *)
    assert (HWv : WV (q + blen (CstNs.l_ws (CstNs.e_layout re)) + blen (CstNs.r_qname (e_qname re)) + blen (CstNs.l_ws1 (CstNs.e_layout re)) + 1
                      + blen (CstNs.l_ws2 (CstNs.e_layout re)) + 1)
                     (E.r_epieces (enc_epieces ps) ++ [quote] ++ (flat_map r_entry ens ++ more))).
    { destruct (uentry_parts_s _ (uentry_of4 m e H1)) as (_ & Hw & Hw1 & Hw2 & Hqq & _ & Hn). fold re in Hw, Hw1, Hw2, Hqq, Hn.
      rewrite Ere1 in Hw, Hw1, Hw2, Hqq.
      revert HW. change (r_entry e) with (CstNs.r_entry re). unfold CstNs.r_entry. cbv zeta.
      rewrite e_name_qname, Ere2, Ere1, <- !app_assoc. intros HW.
      pose proof (WV_lit _ _ _ _ HW (s_lit _ Hw)) as A1.
      pose proof (WV_app _ _ _ _ A1 (uq_valid _ Hn)) as A2.
      pose proof (WV_lit _ _ _ _ A2 (s_lit _ Hw1)) as A3.
      pose proof (WV_lit _ _ _ _ A3 (eq_refl : forallb (fun y => y <? 128) [61] = true)) as A4. change (blen [61]) with 1 in A4.
      pose proof (WV_lit _ _ _ _ A4 (s_lit _ Hw2)) as A5.
      assert (Hq1 : forallb (fun y => y <? 128) [quote] = true) by (cbn; destruct Hq as [Hq' | Hq']; rewrite Hq'; reflexivity).
      pose proof (WV_lit _ _ _ _ A5 Hq1) as A6. change (blen [quote]) with 1 in A6. exact A6. }
    (* the inlined value *)
    assert (Hval : exists Q, E.inline_ps (E.level decls3 k) true m (enc_epieces ps) = Some (Q, tre) /\ e_value bpieces e' = Q /\
                             x_entry bpieces T.value_sem e' = match e with
                               | EAttr l n _ => CstNs.EAttr l (x_qname n) (T.value_sem Q)
                               | EDecl l p _ => CstNs.EDecl l (utf8s p) (T.value_sem Q) end).
    { unfold inline_entry in Ee. fold ps in Ee. destruct e as [l n v|l p v]; cbn [e_value] in ps; subst ps;
        rewrite inline_ps_level in Ee;
        (destruct (E.inline_ps (E.level decls3 k) true m (enc_epieces v)) as [[Q trq]|]; [|discriminate]);
        cbn [E.obind fst snd] in Ee; injection Ee as <- <-; exists Q; repeat split. }
    destruct Hval as (Q & EQ & EQ' & Eden). rewrite EQ' in Hp1.
    pose proof Hvw as Hw0. unfold wf_uepieces in Hw0. apply andb_true_iff in Hw0. destruct Hw0 as [Hwp _].
    pose proof (no_cdata_of _ _ _ _ Hwp) as Hnc.
    destruct (uepieces_ok quote false false m ps ltac:(lia) Hvw Hnc) as (Hok & Hadj & _).
    assert (Hok0 : Forall (uep_ok false) (enc_epieces ps)).
    { destruct m; [|exact Hok]. revert Hok. apply Forall_impl. apply uep_weaken. }
    set (vq := q + blen (CstNs.l_ws (CstNs.e_layout re)) + blen (CstNs.r_qname (e_qname re)) + blen (CstNs.l_ws1 (CstNs.e_layout re)) + 1
               + blen (CstNs.l_ws2 (CstNs.e_layout re)) + 1) in *.
    set (stor := if needs_norm (E.r_epieces (enc_epieces ps)) then Owned (T.value_sem Q)
                 else Borrowed (SIn (sl vq (vq + blen (E.r_epieces (enc_epieces ps)))))).
    assert (Hbal : CstEntRejSem.Bal tre) by (apply (CstEntRejSem.bal_ps _ (balT_level k) _ _ _ _ _ EQ)).
    assert (EQ0 : E.inline_ps (E.level decls3 k) true false (enc_epieces ps) = Some (Q, tre)).
    { destruct m; [apply inline_ps_out; exact EQ|exact EQ]. }
    pose proof (ld_run_top tre ld ld1 Hbal El1 Hk) as Htop.
    assert (Hdep : ld_depth ld1 = ld_depth ld).
    { pose proof El1 as X. rewrite (mk_eta ld) in X.
      destruct (ld_run_lower tre Hbal (ld_depth ld) (ld_references ld) (ld_depth ld) (ld_references ld) ld1 X ltac:(lia) ltac:(lia) Hk) as (_ & _ & _ & Y & _).
      exact Y. }
    destruct (IH (q + blen (r_entry e)) er trr ld1 ld' (WV_app _ _ _ _ HW Hv) H2) as (xs & E1 & E2 & E3 & E4 & E5 & E6 & E7); try assumption; try reflexivity.
    { rewrite Hdep. exact Hm. }
    { apply (ld_ok_run _ _ _ El1 Hk). }
    exists ({| s_raw := re; s_den := x_entry bpieces T.value_sem e'; s_stor := stor |} :: xs).
    cbn [raws CstFullBuild.dens map s_raw s_den]. fold (raws xs). fold (CstFullBuild.dens xs). rewrite E1, E2.
    split; [reflexivity|]. split; [reflexivity|].
    assert (Evsl : vsl q re = sl vq (vq + blen (E.r_epieces (enc_epieces ps)))).
    { unfold vsl. cbv zeta. rewrite Ere2. reflexivity. }
    split; [|split].
    + cbn [sentries_ok s_raw]. split; [|exact E3].
      split; [rewrite Eden; destruct e; reflexivity|]. cbn [s_raw s_den s_stor]. split.
      * rewrite Evsl. intros c [Hes Hc].
        destruct (normalize_attribute_gu text D HD decls3 es Henv Hdecls vq (enc_epieces ps) quote _ c k Q tre ld_init false HWv Hok0 Hadj) as [En _];
          try assumption; try (rewrite Hc; assumption); try (rewrite Hc; reflexivity).
        fold stor in En. rewrite En. rewrite <- Hc. f_equal. f_equal. destruct c. reflexivity.
      * rewrite Eden. unfold stor. destruct (needs_norm (E.r_epieces (enc_epieces ps))) eqn:En.
        { destruct e; reflexivity. }
        cbn [storage_bytes str_bytes]. rewrite (CstLex.W_slice _ _ _ _ (WV_W _ _ _ HWv)).
        assert (Evs : E.r_epieces (enc_epieces ps) = T.value_sem Q).
        { symmetry. unfold T.value_sem. unfold needs_norm in En.
          assert (H38 : existsb (fun x => x =? 38) (E.r_epieces (enc_epieces ps)) = false).
          { clear - En. induction (E.r_epieces (enc_epieces ps)) as [|x l IHl]; [reflexivity|]. cbn [existsb] in *. apply orb_false_iff in En.
            destruct En as [X1 X2]. rewrite (IHl X2). lia. }
          assert (Hnc' : forallb (fun p0 => negb (is_ecdata p0)) (enc_epieces ps) = true).
          { clear - Hnc. unfold enc_epieces. rewrite forallb_forall in *. intros p0 Hp. apply in_map_iff in Hp. destruct Hp as (p1 & <- & Hp1).
            rewrite enc_is_ecdata. apply Hnc. exact Hp1. }
          pose proof (CstEntBuild.inline_plain _ true false _ Q tre H38 Hnc' EQ0) as Ech. unfold chunks in Ech. rewrite Ech.
          apply norm_attr_lits_plain.
          clear - En. induction (E.r_epieces (enc_epieces ps)) as [|x l IHl]; [reflexivity|]. cbn [existsb] in *. apply orb_false_iff in En.
          destruct En as [X1 X2]. rewrite (IHl X2). lia. }
        rewrite Evs. destruct e; reflexivity.
    + cbn [norms s_raw s_stor]. exists ld1. split; [|exact E4].
      rewrite Evsl. intros c Hes Hc.
      destruct (normalize_attribute_gu text D HD decls3 es Henv Hdecls vq (enc_epieces ps) quote _ c k Q tre ld1 m HWv Hok Hadj) as [En _];
        try assumption; try (rewrite Hc; assumption).
    + split; [rewrite E5; exact Hdep|].
      assert (Hsd : stored stor (vsm vq ps)).
      { unfold vstore3. cbn [r_val epieces]. rewrite (eval_sem_level decls k m ps Q tre Hk10 EQ).
        change (needs_norm_b (E.r_epieces (enc_epieces ps))) with (needs_norm (E.r_epieces (enc_epieces ps))). unfold stor.
        destruct (needs_norm (E.r_epieces (enc_epieces ps))); reflexivity. }
      assert (Evq : vq = e_vstart epieces q e).
      { unfold vq, e_vstart, e_name_end, e_start, nlen, blen. fold re. rewrite e_name_qname, Ere1. reflexivity. }
      assert (Esem : eval_sem tbm ps = T.value_sem Q) by (apply (eval_sem_level decls k m ps Q tre Hk10 EQ)).
      change (r_entry e) with (CstNs.r_entry re) in E6, E7.
      rewrite tas_g_cons. cbn [sdecls entries_aspans entries_decls s_raw].
      change (nlen (r_entry e)) with (blen (CstNs.r_entry re)). rewrite map_app.
      split; [apply Forall2_app; [|exact E6]|f_equal; [|exact E7]].
      * (* an ordinary attribute *)
        cbn [tas_g s_den s_raw s_stor]. rewrite Eden. rewrite Evq in Hsd. clearbody stor. clear - Hsd H1. subst re ps.
        destruct e as [l n v|l p v]; cbn [x_entry entry_aspans app]; [|constructor].
        constructor; [|constructor]. unfold ta_obs, ta_g, ta_e. cbv zeta.
        cbn [ta_range ta_local ta_value ta_qname_len ta_eq_len fa_range fa_qname fa_local fa_value fa_store fst snd].
        assert (Hnq : wf_qname n = true) by (unfold wf_uentry_s in H1; rewrite !andb_true_iff in H1; tauto).
        cbn [e_value] in Hsd.
        unfold e_vend, e_vstart, e_name_end, e_start, nlen, blen in *. cbn [x_entry e_layout e_value CstNs.e_layout CstNs.e_value CstNs.e_name e_qname] in *.
        rewrite fq_off_q_off. unfold pr. cbn [sl sl_start sl_end].
        split; [f_equal; lia|]. split; [reflexivity|]. split; [f_equal; lia|]. split; [f_equal; lia|]. exact Hsd.
      * (* a declaration *)
        unfold sdecl_rec. cbn [s_den s_raw s_stor]. rewrite Eden. rewrite Evq in Hsd. clearbody stor. clear - Hsd Esem. subst re ps.
        destruct e as [l n v|l p v]; cbn [x_entry entry_decls map]; [reflexivity|].
        change (bytes_eqb (utf8s p) ns_xml_prefix) with (Scope.bytes_eqb (utf8s p) Scope.xml_prefix).
        destruct (Scope.bytes_eqb (utf8s p) Scope.xml_prefix); [reflexivity|]. cbn [map fst snd]. f_equal. f_equal.
        -- cbn [val_sem ents_meaning e_value] in *. rewrite Esem. f_equal.
           destruct p as [|x0 pr0]; [reflexivity|]. destruct (utf8s (x0 :: pr0)) eqn:Eu; [apply (proj1 (utf8s_nil_iff _)) in Eu; discriminate Eu|]. reflexivity.
        -- unfold nsv_of. cbn [fn_prefix fn_uri]. pose proof (stored_stor_of _ _ Hsd) as Es. cbn [e_value] in Es. rewrite <- Es. f_equal.
           destruct p as [|x0 pr0]; [reflexivity|].
           destruct (utf8s (x0 :: pr0)) as [|y0 yr] eqn:Eu; [apply (proj1 (utf8s_nil_iff _)) in Eu; discriminate Eu|]. rewrite <- Eu.
           f_equal. f_equal. unfold ta_e. cbv zeta. cbn [ta_local]. unfold sl_of. cbn [fst snd].
           unfold e_name_end, e_start, nlen, blen, q_off. cbn [x_entry e_layout CstNs.e_layout CstNs.e_name e_qname CstNs.q_prefix].
           rewrite Eu. rewrite <- Eu. cbn [e_qname CstNs.q_prefix CstNs.r_qname CstNs.q_local]. rewrite Eu. rewrite <- Eu.
           unfold CstNs.xmlns_b. rewrite !app_length. cbn [length]. f_equal; lia.
Qed.



(* ---- elements ---- *)
(* what is observed of a start tag (CstRangeFBuild.v [start_tag_obs] on the shadow) *)
Lemma start_tag_extra inh p name (ens : list uentry) xs empty more cr c' kind ext q' :
  W (p + 1 + blen (CstNs.r_qname name)) (flat_map CstNs.r_entry (raws xs) ++ more) ->
  sentries_ok text es (p + 1 + blen (CstNs.r_qname name)) xs ->
  forallb CstFull.ns_entry_ok (CstFullBuild.dens xs) = true ->
  c_entities cr = es -> c_after_text cr = [] -> CIn inh (sh cr) ->
  (let! c1 := evs context (CstBuild.tok_ev text) (start_toks_ns p name (raws xs)) (sh cr) in CstBuild.tok_ev text (end_tok q' empty) c1) = Ok (sh c') ->
  Step0n (sh cr) (sh c') [(Some (c_parent_id cr), kind)] ext ->
  Forall2 ta_obs (tas_g (p + 1 + blen (CstNs.r_qname name)) xs) (entries_aspans epieces vsm (p + 1 + blen (CstNs.r_qname name)) ens) ->
  sdecls (p + 1 + blen (CstNs.r_qname name)) xs =
    map (fun kd => (fst kd, nsv_of (snd kd))) (entries_decls epieces Mm vsm (p + 1 + blen (CstNs.r_qname name)) ens) ->
  fkshape kind (TSElem (p + 1 + q_off name, p + 1 + blen (CstNs.r_qname name))) /\
  Forall2 fattr_obs ext (entries_aspans epieces vsm (p + 1 + blen (CstNs.r_qname name)) ens) /\
  rng c' = rng cr ++ [(p, q' + (if empty then 2 else 1))] /\
  NsVals text (d_ns_values (c_doc cr)) (d_ns_values (c_doc c')) (entries_decls epieces Mm vsm (p + 1 + blen (CstNs.r_qname name)) ens).
Proof.
  intros HW Hok Hns Hes Hat I E S0 E4 E5.
  destruct (start_tag_obs text D HD es p name xs q' empty more (sh cr) (sh c') HW Hok Hns (conj Hes eq_refl) Hat (cn_cur _ _ _ _ I) E)
    as (tns & ar & nss & new & K2 & A2 & F2 & V2 & Kk & Rg).
  pose proof (f_equal (map snd) (sn_nodes _ _ _ _ S0)) as Ek. rewrite map_app, !absn_kinds in Ek. cbn [map snd] in Ek.
  unfold kinds in K2. rewrite K2 in Ek. apply app_inv_head in Ek. injection Ek as Ek.
  pose proof (sn_attrs _ _ _ _ S0) as Ea0. rewrite A2 in Ea0. apply app_inv_head in Ea0.
  split; [rewrite <- Ek; reflexivity|]. split; [rewrite <- Ea0; apply (copied_obs _ _ _ F2 E4)|].
  split; [exact Rg|]. apply (NsVals_of_push text _ _ _ _ E5 Kk V2).
Qed.

Notation bd := (map (x_entry bpieces T.value_sem)).

Lemma elem_empty_c_r inh name ens ws m en tl p post c0 c (fr : list (cow * range)) acc lvl its tr ld' :
  wf_uitem_s m (IElem name ens ws None) = true ->
  WVs en tl p (r_item (@IElem epieces name ens ws None) ++ post) ->
  OR inh c0 c (map fst fr) -> rng c = rng c0 ++ firstn 1 (map snd fr) -> SemI (map fst fr) acc ->
  m = (0 <? ld_depth (c_ld c)) -> ld_ok (c_ld c) ->
  inline_item tb m (IElem name ens ws None) = Some (its, tr) -> ld_run (c_ld c) tr = Some ld' ->
  Pok acc its -> Rooms inh c0 acc its -> NsOk inh acc its ->
  exists c0' c' fr' K ext,
    parse_element text context (evl lvl) (sst4 en tl p (r_item (@IElem epieces name ens ws None) ++ post)) c =
    Ok (false, sst4 en tl (p + blen (r_item (@IElem epieces name ens ws None))) post, c') /\
    Res inh c0 c acc its ld' c0' c' (map fst fr') K ext /\
    rng c' = rng c0' ++ firstn 1 (map snd fr') /\
    Extra c0 c0' fr fr' (lev_item vt ent p (IElem name ens ws None)) K ext.
Proof.
  intros Hwf HW HO Hg HS Hm Hk Hin Hld HP HR HN.
  destruct (wf_elem_parts4 _ _ _ _ _ Hwf) as (Hn & Ha & Hw & _). clear Hwf.
  rewrite inline_item_elem in Hin. destruct (inline_entries tb m ens) as [[ens' tra]|] eqn:Eat; [|discriminate].
  cbn [E.obind fst snd] in Hin. injection Hin as <- <-.
  set (el := @IElem bpieces name ens' ws None) in *.
  assert (Hprov : forallb (fun e => E.crlf_split_ok (e_value bpieces e)) ens' = true).
  { destruct HP as [X _]. rewrite walk_single in X by reflexivity. cbn [fst] in X. rewrite forallb_app in X.
    apply andb_true_iff in X. destruct X as [_ X]. cbn [forallb] in X. unfold el in X. rewrite prov_elem, !andb_true_r in X. exact X. }
  destruct (nsok_single inh acc el eq_refl HN) as [Hns HinD].
  destruct (elem_ns inh name ens' ws None Hns) as (N1 & Nent & N6 & N2e & N2a & N7 & _).
  unfold el in HinD. rewrite den_elem in HinD. cbn [NT.items_decls] in HinD. rewrite NT.item_decls_elem, !app_nil_r in HinD.
  rewrite r_uitem_elem in *. rewrite <- !app_assoc in HW |- *.
  change ([47; 62] ++ post) with (tag_tail true ++ post) in *.
  unfold r_qname in HW |- *. rewrite r_entries_x4 in HW |- *.
  rewrite (SL.lex_element_full text en tl context (evl lvl) p (x_qname name) _ ws true post c HW (CstFullItems.uq_of _ Hn))
    by (try exact Hw; apply (uentries_of4 m); exact Ha).
  cbv zeta.
  destruct (flush_res_r inh c0 c fr acc HO Hg HS) as (cr & Kt & (Er & Ar & St & Ir & L1 & L2 & L3 & Tr0 & HKt & Ees & Epp) & Y1 & Y2 & Y3).
  unfold start_toks_ns.
  match goal with |- context [evs context (evl lvl) (?tk :: ?r) c] => rewrite (evs_reset lvl tk r c cr I Er Ar) end.
  destruct (rooms_single inh c0 acc el cr Kt eq_refl HR St Tr0 HKt) as (NR & AR & SR).
  unfold el in NR, AR, SR. rewrite den_elem in NR, AR, SR.
  cbn [NT.nattrs_items NT.ns_costs] in AR, SR. rewrite NT.nattrs_elem, !Nat.add_0_r in AR. rewrite NT.ns_cost_elem, !Nat.add_0_r in SR.
  pose proof (WVs_full _ _ _ _ HW) as HWf. rewrite <- !app_assoc in HWf.
  pose proof (WV_lit _ _ _ _ HWf (eq_refl : forallb (fun y => y <? 128) [60] = true)) as HW1. change (blen [60]) with 1 in HW1.
  pose proof (WV_app _ _ _ _ HW1 (uq_valid _ (CstFullItems.uq_of _ Hn))) as HW2.
  rewrite <- r_entries_x4 in HW2.
  destruct (sentries_at_r _ m ens _ ens' tra (c_ld cr) ld' HW2 Ha ltac:(rewrite L1; exact Hm) ltac:(rewrite L1; exact Hk) Eat ltac:(rewrite L1; exact Hld) Hprov)
    as (xs & Ex1 & Ex2 & Hok & Hnorms & Hdep & Ex4 & Ex5).
  rewrite <- Ex1 in HWf |- *.
  destruct (start_tag_gn_r text D HD es lvl inh p (x_qname name) xs ws true (post ++ tl) cr ld' (WV_W _ _ _ HWf)
              (CstFullItems.uq_local_ne _ Hn) N1 Hok Hnorms)
    as (c' & kind & ext & E & S0 & Lx & Hkm & A & Tt & Lns & D1 & Fl & Esh & I' & P1 & P2); try (rewrite Ex2; assumption); try assumption.
  { apply (CstFullItems.node_room_room _ _ NR). cbn. lia. }
  { rewrite Ex2, NT.sem_attrs_len. unfold attr_room in AR. exact AR. }
  { rewrite Ex2, own_cost_eq. unfold ns_room in SR. fold (NT.esc (bd ens') inh). exact SR. }
  assert (HY : fkshape kind (TSElem (p + 1 + q_off (x_qname name), p + 1 + blen (CstNs.r_qname (x_qname name)))) /\
               Forall2 fattr_obs ext (entries_aspans epieces vsm (p + 1 + blen (CstNs.r_qname (x_qname name))) ens) /\
               rng c' = rng cr ++ [(p, p + 1 + blen (CstNs.r_qname (x_qname name)) + blen (flat_map CstNs.r_entry (raws xs)) + blen ws + 2)] /\
               NsVals text (d_ns_values (c_doc cr)) (d_ns_values (c_doc c')) (entries_decls epieces Mm vsm (p + 1 + blen (CstNs.r_qname (x_qname name))) ens)).
  { cbv zeta in Esh.
    pose proof (CstLex.W_app _ _ _ _ (CstLex.W_app _ _ _ _ (WV_W _ _ _ HWf))) as HWe. change (blen [60]) with 1 in HWe.
    apply (start_tag_extra inh p (x_qname name) ens xs true _ cr c' kind ext _ HWe Hok); try assumption.
    rewrite Ex2. exact Nent. }
  rewrite Ex2 in *. cbv zeta in E. apply bind_ok in E. destruct E as (c1 & E1 & E2).
  unfold start_toks_ns in E1. rewrite E1. cbn [bind]. rewrite E2. cbn [bind negb].
  eexists (sh c'), c', [], _, _. split.
  { replace (p + blen ([60] ++ CstNs.r_qname (x_qname name) ++ flat_map CstNs.r_entry (raws xs) ++ ws ++ [47; 62]))
      with (p + 1 + blen (CstNs.r_qname (x_qname name)) + blen (flat_map CstNs.r_entry (raws xs)) + blen ws + blen (tag_tail true)); [reflexivity|].
    rewrite !blen_app. change (blen [60]) with 1. change (blen (tag_tail true)) with 2. change (blen [47; 62]) with 2. lia. }
  split; [|split; [cbn [map firstn]; rewrite app_nil_r; reflexivity|]].
  2:{ destruct HY as (Z1 & Z2 & Z3 & Z4). cbn [lev_item app].
      apply (Extra_flush_empty text Mm vsm c0 cr (sh c') fr _ Kt [(Some (c_parent_id cr), kind)] ext Y1 Y2 Y3).
      - rewrite node_of_elem. cbn [map snd]. constructor; [exact Z1|constructor].
      - exact Z2.
      - rewrite node_of_elem. cbn [map fst]. change (rng (sh c')) with (rng c'). rewrite Z3. do 3 f_equal. rewrite r_uitem_elem, !blen_app. change (blen [60]) with 1. change (blen [47; 62]) with 2.
        unfold r_qname. rewrite Ex1, <- r_entries_x4. lia.
      - exact Z4. }
  apply (Res_item inh c0 c (map fst fr) acc cr Kt el c' [(Some (c_parent_id cr), kind)] ext ld' HO St L1 L3 L2 Tr0 HKt); try assumption; try reflexivity.
  - split; [exact S0|]. split; assumption.
  - unfold el. rewrite den_elem. cbn [NT.tag_list NT.tag app]. constructor; [|constructor]. apply Hkm.
  - unfold el. rewrite den_elem. cbn [NT.nattrs_items]. rewrite NT.nattrs_elem, !Nat.add_0_r, Lx, NT.sem_attrs_len. reflexivity.
  - unfold el. rewrite den_elem. cbn [NT.ns_costs]. rewrite NT.ns_cost_elem, !Nat.add_0_r, Lns, own_cost_eq. reflexivity.
  - intros _. exact Tt.
Qed.

Lemma ItemOK_empty_r name ens ws : ItemOK_r (IElem name ens ws None).
Proof.
  intros inh m en tl p post c0 c fr acc lvl depth fuel its tr ld' Hwf HW _ HO Hg HS _ Hm Hlvl Hk Hfl Hin Hld HP HR HN.
  destruct (elem_empty_c_r inh name ens ws m en tl p post c0 c fr acc lvl its tr ld' Hwf HW HO Hg HS Hm Hk Hin Hld HP HR HN)
    as (c0' & c' & fr' & K & ext & E & HRes & Hg' & HX).
  destruct (wf_elem_parts4 _ _ _ _ _ Hwf) as (Hn & _).
  exists c0', c', fr', K, ext. split; [|split; [exact HRes|split; [exact Hg'|exact HX]]].
  cbn [usteps Nat.add]. rewrite r_uitem_elem in HW, E |- *. rewrite <- !app_assoc in HW, E |- *.
  unfold r_qname in HW, E |- *.
  rewrite (SL.loop_elem_q text en tl) by (try apply (SL.WV_W text _ _ HW); apply CstFullItems.uq_of; exact Hn).
  rewrite E. reflexivity.
Qed.



Lemma elem_open_c_r name ens ws cs ws2 : ItemsOK_r text D decls es k cs ->
  forall inh m en tl p post c0 c (fr : list (cow * range)) acc lvl d fuel its tr ld',
  wf_uitem_s m (IElem name ens ws (Some (cs, ws2))) = true ->
  WVs en tl p (r_item (@IElem epieces name ens ws (Some (cs, ws2))) ++ post) ->
  OR inh c0 c (map fst fr) -> rng c = rng c0 ++ firstn 1 (map snd fr) -> SemI (map fst fr) acc ->
  m = (0 <? ld_depth (c_ld c)) -> N.of_nat lvl + ld_depth (c_ld c) = 12 -> ld_ok (c_ld c) ->
  c_entity_floor c <= len_N (c_parent_prefixes c) ->
  inline_item tb m (IElem name ens ws (Some (cs, ws2))) = Some (its, tr) -> ld_run (c_ld c) tr = Some ld' ->
  Pok acc its -> Rooms inh c0 acc its -> NsOk inh acc its ->
  let q := p + 1 + blen (r_qname name) + blen (flat_map r_entry ens) + blen ws + 1 in
  let post2 := [60; 47] ++ r_qname name ++ ws2 ++ [62] ++ post in
  let pe := p + blen (r_item (@IElem epieces name ens ws (Some (cs, ws2)))) in
  exists c1 c0' c' fr' K ext,
    parse_element text context (evl lvl) (sst4 en tl p (r_item (@IElem epieces name ens ws (Some (cs, ws2))) ++ post)) c =
      Ok (true, sst4 en tl q (r_uitems cs ++ post2), c1) /\
    parse_content_loop text context (evl lvl) (usteps_list cs + S fuel) d (sst4 en tl q (r_uitems cs ++ post2)) c1 =
      (if d =? 0 then Ok (sst4 en tl pe post, c')
       else parse_content_loop text context (evl lvl) fuel (d - 1) (sst4 en tl pe post) c') /\
    Res inh c0 c acc its ld' c0' c' (map fst fr') K ext /\
    rng c' = rng c0' ++ firstn 1 (map snd fr') /\
    Extra c0 c0' fr fr' (lev_item vt ent p (IElem name ens ws (Some (cs, ws2)))) K ext.
Proof.
  intros HL inh m en tl p post c0 c fr acc lvl d fuel its tr ld' Hwf HW HO Hg HS Hm Hlvl Hk Hfl Hin Hld HP HR HN q0 post20 pe.
  assert (Epe : pe = p + 1 + blen (r_qname name) + blen (flat_map r_entry ens) + blen ws + 1 + blen (r_uitems cs) + 2 + blen (r_qname name) + blen ws2 + 1).
  { unfold pe. rewrite r_uitem_elem, !blen_app. change (blen [60]) with 1. change (blen [60; 47]) with 2. change (blen [62]) with 1. lia. }
  assert (Epe0 : p + blen (r_item (@IElem epieces name ens ws (Some (cs, ws2)))) = pe) by reflexivity.
  clearbody pe. subst q0 post20.
  set (xitem := @IElem epieces name ens ws (Some (cs, ws2))) in Epe0.
  assert (Exitem : xitem = @IElem epieces name ens ws (Some (cs, ws2))) by reflexivity. clearbody xitem.
  destruct (wf_elem_parts4 _ _ _ _ _ Hwf) as (Hn & Ha & Hw & Hw2 & Hna & Hcs). clear Hwf.
  rewrite inline_item_elem in Hin. destruct (inline_entries tb m ens) as [[ens' tra]|] eqn:Eat; [|discriminate].
  cbn [E.obind fst snd] in Hin. destruct (inline_items tb m cs) as [[itsc trc]|] eqn:Ecs; [|discriminate].
  cbn [E.obind fst snd] in Hin. injection Hin as <- <-.
  set (el := @IElem bpieces name ens' ws (Some (regroup itsc, ws2))) in *.
  assert (Hprov : forallb (fun e => E.crlf_split_ok (e_value bpieces e)) ens' = true /\ forallb provisos_item (regroup itsc) = true).
  { destruct HP as [X _]. rewrite walk_single in X by reflexivity. cbn [fst] in X. rewrite forallb_app in X.
    apply andb_true_iff in X. destruct X as [_ X]. cbn [forallb] in X. unfold el in X. rewrite prov_elem, andb_true_r in X.
    apply andb_true_iff in X. exact X. }
  destruct Hprov as [Hpa Hpc]. destruct (provisos_walk itsc Hpc) as [Pc1 Pc2].
  set (outc := fst (walk [] itsc)) in *. set (accc := snd (walk [] itsc)) in *.
  destruct (nsok_single inh acc el eq_refl HN) as [Hns HinD].
  destruct (elem_ns inh name ens' ws _ Hns) as (N1 & Nent & N6 & N2e & N2a & N7 & Nch).
  set (des := bd ens') in *. set (sc := NT.esc des inh) in *.
  unfold el in HinD. rewrite den_elem in HinD. cbn [NT.items_decls] in HinD. rewrite NT.item_decls_elem, app_nil_r in HinD.
  change (@val_sem bpieces bmeaning) with T.value_sem in HinD. fold des in HinD.
  rewrite bdens_regroup in Nch. fold outc accc in Nch. rewrite bdens_app, ns_oks_app in Nch. apply andb_true_iff in Nch. destruct Nch as [Nch _].
  rewrite ld_run_app in Hld. destruct (ld_run (c_ld c) tra) as [lda|] eqn:Ela; [|discriminate].
  rewrite r_uitem_elem in *. rewrite <- !app_assoc in HW |- *.
  set (post2 := [60; 47] ++ r_qname name ++ ws2 ++ [62] ++ post) in *.
  change ([62] ++ r_uitems cs ++ post2) with (tag_tail false ++ (r_uitems cs ++ post2)) in *.
  unfold r_qname at 1 in HW. unfold r_qname at 1. rewrite r_entries_x4 in HW |- *.
  rewrite (SL.lex_element_full text en tl context (evl lvl) p (x_qname name) _ ws false (r_uitems cs ++ post2) c HW (CstFullItems.uq_of _ Hn))
    by (try exact Hw; apply (uentries_of4 m); exact Ha).
  cbv zeta.
  destruct (flush_res_r inh c0 c fr acc HO Hg HS) as (cr & Kt & (Er & Ar & St & Ir & L1 & L2 & L3 & Tr0 & HKt & Ees & Epp) & Y1 & Y2 & Y3).
  unfold start_toks_ns.
  match goal with |- context [evs context (evl lvl) (?tk :: ?r) c] => rewrite (evs_reset lvl tk r c cr I Er Ar) end.
  destruct (rooms_single inh c0 acc el cr Kt eq_refl HR St Tr0 HKt) as (NR & AR & SR).
  unfold el in NR, AR, SR. rewrite den_elem in NR, AR, SR. change (@val_sem bpieces bmeaning) with T.value_sem in NR, AR, SR. fold des in NR, AR, SR.
  rewrite nsizes_one, NT.nsize_elem in NR.
  cbn [NT.nattrs_items NT.ns_costs] in AR, SR. rewrite NT.nattrs_elem, Nat.add_0_r in AR. rewrite NT.ns_cost_elem, Nat.add_0_r in SR.
  fold sc in SR. rewrite nattrs_walk in AR. rewrite ns_costs_walk in SR. rewrite bdens_regroup in NR. fold outc accc in NR, AR, SR.
  pose proof (WVs_full _ _ _ _ HW) as HWf. rewrite <- !app_assoc in HWf.
  pose proof (WV_lit _ _ _ _ HWf (eq_refl : forallb (fun y => y <? 128) [60] = true)) as HW1. change (blen [60]) with 1 in HW1.
  pose proof (WV_app _ _ _ _ HW1 (uq_valid _ (CstFullItems.uq_of _ Hn))) as HW2.
  rewrite <- r_entries_x4 in HW2.
  destruct (sentries_at_r _ m ens _ ens' tra (c_ld cr) lda HW2 Ha ltac:(rewrite L1; exact Hm) ltac:(rewrite L1; exact Hk) Eat ltac:(rewrite L1; exact Ela) Hpa)
    as (xs & Ex1 & Ex2 & Hok & Hnorms & Hdep & Ex4 & Ex5).
  fold des in Ex2. rewrite <- Ex1 in HWf, HW |- *.
  destruct (start_tag_gn_r text D HD es lvl inh p (x_qname name) xs ws false (r_uitems cs ++ post2 ++ tl) cr lda (WV_W _ _ _ HWf)
              (CstFullItems.uq_local_ne _ Hn) N1 Hok Hnorms)
    as (c1 & kind & ext1 & E & S1 & Lx & Hkm & A1 & T1 & Lns1 & D1 & Fl1 & Esh & I1 & P1 & P2 & P3); try (rewrite Ex2; assumption); try assumption.
  { rewrite Ex2. intros z Hz. apply HinD. apply in_or_app. left. exact Hz. }
  { unfold node_room, room in *. clia. }
  { rewrite Ex2, NT.sem_attrs_len. unfold attr_room in AR. clia. }
  { rewrite Ex2, own_cost_eq. unfold ns_room in SR. change (Scope.scope_of (CstNs.own_bindings des) inh) with sc. destruct (CstNs.own_bindings des); clia. }
  assert (HY : fkshape kind (TSElem (p + 1 + q_off (x_qname name), p + 1 + blen (CstNs.r_qname (x_qname name)))) /\
               Forall2 fattr_obs ext1 (entries_aspans epieces vsm (p + 1 + blen (CstNs.r_qname (x_qname name))) ens) /\
               rng c1 = rng cr ++ [(p, p + 1 + blen (CstNs.r_qname (x_qname name)) + blen (flat_map CstNs.r_entry (raws xs)) + blen ws + 1)] /\
               NsVals text (d_ns_values (c_doc cr)) (d_ns_values (c_doc c1)) (entries_decls epieces Mm vsm (p + 1 + blen (CstNs.r_qname (x_qname name))) ens)).
  { cbv zeta in Esh.
    pose proof (CstLex.W_app _ _ _ _ (CstLex.W_app _ _ _ _ (WV_W _ _ _ HWf))) as HWe. change (blen [60]) with 1 in HWe.
    apply (start_tag_extra inh p (x_qname name) ens xs false _ cr c1 kind ext1 _ HWe Hok); try assumption.
    rewrite Ex2. exact Nent. }
  rewrite Ex2 in *. fold sc in Lx, Hkm, Lns1, I1.
  cbv zeta in E. apply bind_ok in E. destruct E as (cx & E0 & E1).
  unfold start_toks_ns in E0. rewrite E0. cbn [bind]. rewrite E1. cbn [bind negb]. clear E0 E1 cx.
  exists c1.
  assert (Hlsl : exists tns lsl ar nss, kind = KElement tns lsl ar nss /\ slice_bytes text lsl = CstNs.q_local (x_qname name)).
  { destruct (Hkm O) as [_ Hk0]. cbn [snd] in Hk0.
    destruct kind as [|tns lsl ar nss| | |]; try contradiction.
    exists tns, lsl, ar, nss. split; [reflexivity|apply Hk0]. }
  destruct Hlsl as (tns & lsl & ar & nss & -> & Hlsl).
  set (row := (Some (c_parent_id cr), KElement tns lsl ar nss)) in *.
  (* the children *)
  set (q := p + 1 + blen (CstNs.r_qname (x_qname name)) + blen (flat_map CstNs.r_entry (raws xs)) + blen ws + blen (tag_tail false)) in *.
  assert (HW5 : WVs en tl q (r_uitems cs ++ post2)).
  { pose proof (SL.WV_lit text _ _ _ HW (eq_refl : forallb (fun y => y <? 128) [60] = true)) as B1. change (blen [60]) with 1 in B1.
    pose proof (SL.WV_app text _ _ _ B1 (uq_valid _ (CstFullItems.uq_of _ Hn))) as B2.
    assert (Hve : U8.Valid (flat_map CstNs.r_entry (raws xs))).
    { rewrite Ex1. clear - Ha. induction ens as [|e r IH]; [constructor|]. cbn [forallb] in Ha. apply andb_true_iff in Ha. destruct Ha as [X1 X2].
      cbn [map flat_map]. apply U8.Valid_app; [apply (uentry_valid_s _ (uentry_of4 m e X1))|apply IH; exact X2]. }
    pose proof (SL.WV_app text _ _ _ B2 Hve) as B3.
    pose proof (SL.WV_lit text _ _ _ B3 (s_lit _ Hw)) as B4.
    pose proof (SL.WV_lit text _ _ _ B4 (eq_refl : forallb (fun y => y <? 128) (tag_tail false) = true)) as B5. exact B5. }
  pose proof (Step0n_len _ _ _ _ S1) as Ln1. change (len_N [_]) with 1 in Ln1.
  change (d_nodes (c_doc (sh c1))) with (d_nodes (c_doc c1)) in Ln1. change (d_nodes (c_doc (sh cr))) with (d_nodes (c_doc cr)) in Ln1.
  pose proof (CstFullItems.Stepn_attrs_len _ _ _ _ S1) as La1. unfold len_N at 3 in La1. rewrite Lx, NT.sem_attrs_len in La1.
  change (d_attrs (c_doc (sh c1))) with (d_attrs (c_doc c1)) in La1. change (d_attrs (c_doc (sh cr))) with (d_attrs (c_doc cr)) in La1.
  pose proof (CstFullItems.Stepn_opt _ _ _ _ S1) as Lo1. change (c_opt (sh c1)) with (c_opt c1) in Lo1. change (c_opt (sh cr)) with (c_opt cr) in Lo1.
  destruct (sn_keep _ _ _ _ S1) as (_ & Kes & _).
  change (c_entities (sh c1)) with (c_entities c1) in Kes. change (c_entities (sh cr)) with (c_entities cr) in Kes.
  assert (HO1 : OR sc (sh c1) c1 []).
  { constructor; try assumption; try reflexivity; [apply CstEntText.same_frame_sym; apply sh_frame|congruence]. }
  assert (Hg1 : rng c1 = rng (sh c1) ++ firstn 1 (map snd (@nil (cow * range)))) by (cbn [map firstn]; rewrite app_nil_r; reflexivity).
  destruct (HL sc m en tl q post2 (sh c1) c1 (@nil (cow * range)) [] lvl d (S fuel) itsc trc ld' Hcs Hna HW5 ltac:(reflexivity) HO1 Hg1 (SemI_nil text))
    as (c0b & cb & frb & Kc & ec & Ec & HResc & Hgb & HXc); try assumption.
  { destruct cs; [exact I|]. intros _. reflexivity. }
  { rewrite D1, Hdep, L1. exact Hm. }
  { rewrite D1, Hdep, L1. exact Hlvl. }
  { rewrite D1. apply (ld_ok_run _ _ _ Ela Hk). }
  { rewrite Fl1, L3, P2, len_N_app, Epp. change (len_N [_]) with 1. clia. }
  { rewrite D1. exact Hld. }
  { split; assumption. }
  { fold outc accc. split; [|split].
    - unfold node_room in *. change (d_nodes (c_doc (sh c1))) with (d_nodes (c_doc c1)). change (c_opt (sh c1)) with (c_opt c1).
      rewrite Ln1, Lo1. fold outc accc. clia.
    - unfold attr_room in *. change (d_attrs (c_doc (sh c1))) with (d_attrs (c_doc c1)). rewrite La1. fold outc. clia.
    - unfold ns_room in *. change (d_ns_tree (c_doc (sh c1))) with (d_ns_tree (c_doc c1)). rewrite Lns1, own_cost_eq. fold outc. change (Scope.scope_of (CstNs.own_bindings des) inh) with sc. destruct (CstNs.own_bindings des); clia. }
  { fold outc. split; [exact Nch|]. intros z Hz. apply HinD. apply in_or_app. right.
    rewrite bdens_regroup. fold outc accc. rewrite bdens_app, items_decls_app. apply in_or_app. left. exact Hz. }
  change (p + 1 + blen (r_qname name) + blen (flat_map CstNs.r_entry (raws xs)) + blen ws + 1) with q.
  rewrite Ec. clear Ec. fold outc accc in HResc.
  destruct HResc as (Sc & Ob & Mb & Fc & Lc & Ncb & Db & Db' & Flb & Tb).
  (* the end tag *)
  assert (Hvc : U8.Valid (r_uitems cs)).
  { apply (uitems_valid m). exact Hcs. }
  pose proof (SL.WV_app text _ _ _ HW5 Hvc) as HW6. set (e := q + blen (r_uitems cs)) in *.
  unfold post2 in HW6 |- *. rewrite (loop_close text en tl) by (apply (SL.WV_W text _ _ HW6)).
  unfold r_qname in HW6 |- *.
  rewrite (SL.lex_close_full text en tl context (evl lvl) e (x_qname name) ws2 post cb HW6 (CstFullItems.uq_of _ Hn) Hw2). cbv zeta.
  destruct (flush_res_r sc c0b cb frb accc Ob Hgb Mb) as (cr2 & Kt2 & (Er2 & Ar2 & St2 & Ir2 & M1 & M2 & M3 & Tr2 & HKt2 & Ees2 & Epp2) & V1 & V2 & V3).
  match goal with |- context [evl lvl ?tk cb] => rewrite (evl_reset text lvl tk cb cr2 I Er2 Ar2) end.
  (* the contexts in between *)
  destruct Sc as (Sc & Pidc & Ppc). destruct St2 as (St2 & Pid2 & Pp2).
  change (c_parent_id (sh c1)) with (c_parent_id c1) in Pidc. change (c_parent_prefixes (sh c1)) with (c_parent_prefixes c1) in Ppc.
  change (c_parent_id (sh cr2)) with (c_parent_id cr2) in Pid2. change (c_parent_prefixes (sh cr2)) with (c_parent_prefixes cr2) in Pp2.
  pose proof (cn_pid _ _ _ _ Ir : c_parent_id cr < len_N (d_nodes (c_doc cr))) as Hpidr.
  pose proof (Step0n_len _ _ _ _ Sc) as Lnc. change (d_nodes (c_doc (sh c1))) with (d_nodes (c_doc c1)) in Lnc.
  pose proof (Step0n_len _ _ _ _ St2) as Ln2. change (d_nodes (c_doc (sh cr2))) with (d_nodes (c_doc cr2)) in Ln2.
  pose proof (CstLex.W_app _ _ _ _ (WV_W _ _ _ HWf)) as HWq1. change (blen [60]) with 1 in HWq1.
  destruct (qname_slices text D HD _ _ _ HWq1) as [Sp1 Sl1].
  pose proof (WVs_full _ _ _ _ HW6) as HW6f. rewrite <- !app_assoc in HW6f.
  pose proof (CstLex.W_app _ _ _ _ (WV_W _ _ _ HW6f)) as HW7. change (blen [60; 47]) with 2 in HW7.
  destruct (qname_slices text D HD _ _ _ HW7) as [Sp7 Sl7].
  destruct (cn_par _ _ _ _ Ir) as (par0 & k0 & Ep0 & Hk0).
  change (absn (c_doc (sh cr))) with (absn (c_doc cr)) in Ep0. change (c_parent_id (sh cr)) with (c_parent_id cr) in Ep0.
  change (c_doc (sh cr)) with (c_doc cr) in Hk0.
  assert (Habs2 : absn (c_doc cr2) = absn (c_doc cr) ++ row :: Kc ++ Kt2).
  { change (absn (c_doc cr2)) with (absn (c_doc (sh cr2))). rewrite (sn_nodes _ _ _ _ St2), (sn_nodes _ _ _ _ Sc).
    change (absn (c_doc (sh c1))) with (absn (c_doc c1)). change (absn (c_doc c1)) with (absn (c_doc (sh c1))). rewrite (sn_nodes _ _ _ _ S1).
    change (absn (c_doc (sh cr))) with (absn (c_doc cr)). rewrite <- !app_assoc. reflexivity. }
  destruct (close_tag_gn text D HD lvl inh sc (sl (e + 2) (e + 2 + blen (CstNs.q_prefix (x_qname name))))
              (sl (e + 2 + q_off (x_qname name)) (e + 2 + blen (CstNs.r_qname (x_qname name))))
              (e, e + 2 + blen (CstNs.r_qname (x_qname name)) + blen ws2 + 1) cr2 (c_parent_id cr) tns lsl ar nss (x_qname name)
              (c_parent_prefixes cr) (sl (p + 1) (p + 1 + blen (CstNs.q_prefix (x_qname name)))) Ir2)
    as (c3 & E3 & S3 & I3 & Pid3 & Pp3 & A3 & Tn3 & D3 & Fl3 & Tr3).
  { rewrite Pid2, Pidc, P1, Habs2.
    replace (N.to_nat (len_N (d_nodes (c_doc cr)))) with (length (absn (c_doc cr)))
      by (unfold absn, len_N; rewrite map_length; clia).
    rewrite nth_error_app2 by clia. rewrite Nat.sub_diag. reflexivity. }
  { exact Hlsl. }
  { exact Sl7. }
  { exact Sp7. }
  { rewrite Pp2, Ppc, P2. reflexivity. }
  { apply (cn_pp _ _ _ _ Ir). }
  { exact Sp1. }
  { unfold tn_set in *. rewrite M2. apply Tb. exact T1. }
  { rewrite M3, Flb, Fl1, L3, Epp. exact Hfl. }
  { rewrite Ln2, Lnc, Ln1. clia. }
  { exists par0, k0. split.
    - rewrite Habs2. rewrite nth_error_app1; [exact Ep0|]. rewrite <- absn_len in Hpidr. unfold len_N in Hpidr. clia.
    - apply (par_ok_ext text D HD (c_doc cr)); [|exact Hk0].
      eapply NsExt_trans; [apply (sn_ns _ _ _ _ S1)|]. eapply NsExt_trans; [apply (sn_ns _ _ _ _ Sc)|apply (sn_ns _ _ _ _ St2)]. }
  { apply (cn_uniq _ _ _ _ Ir). }
  (* the ranges *)
  destruct HY as (Z1 & Z2 & Z3 & Z4). destruct HXc as (X1 & X2 & X3 & X4 & X5). cbn [map] in X1, X3, X5.
  change (rng (sh c1)) with (rng c1) in X3. change (d_ns_values (c_doc (sh c1))) with (d_ns_values (c_doc c1)) in X4.
  set (evc := lev_items vt ent q cs) in *.
  destruct (close_obs_n text lvl _ _ _ cr2 c3 (rng cr) (p, q)
              (map fst (fst (ewalk [] evc)) ++ map fst (node_of_group (map gdesc frb)))
              ltac:(rewrite Pp2, Ppc, P2, len_N_app, M3, Flb, Fl1, L3, Epp; change (len_N [sl (p + 1) (p + 1 + blen (CstNs.q_prefix (x_qname name)))]) with 1; clia) E3)
    as [Rg3 Nv3].
  { rewrite V2, X3, Z3, <- !app_assoc. reflexivity. }
  { rewrite Pid2, Pidc, P1. unfold rng, len_N. rewrite map_length. clia. }
  cbn [fst snd] in Rg3.
  rewrite E3. cbn [bind].
  eexists (sh c3), c3, [], (Kt ++ row :: Kc ++ Kt2), (ext1 ++ ec).
  assert (Epos : e + 2 + blen (CstNs.r_qname (x_qname name)) + blen ws2 + 1 = pe).
  { rewrite Epe. unfold e, q. change (blen (tag_tail false)) with 1. unfold r_qname. rewrite Ex1, <- r_entries_x4. clear. clia. }
  rewrite Epos. split; [reflexivity|]. split; [reflexivity|].
  pose proof (Step0n_trans _ _ _ _ _ _ _ (Step0n_trans _ _ _ _ _ _ _ (Step0n_trans _ _ _ _ _ _ _ S1 Sc) St2) S3) as S13.
  rewrite !app_nil_r in S13. cbn [app] in S13.
  assert (X13 : DocExt (c_doc c1) (c_doc c3)).
  { eapply DocExt_trans; [apply (Step0n_DocExt _ _ _ _ Sc)|]. eapply DocExt_trans; [apply (Step0n_DocExt _ _ _ _ St2)|apply (Step0n_DocExt _ _ _ _ S3)]. }
  assert (Xb3 : DocExt (c_doc c0b) (c_doc c3)).
  { eapply DocExt_trans; [apply (Step0n_DocExt _ _ _ _ St2)|apply (Step0n_DocExt _ _ _ _ S3)]. }
  split; [|split; [cbn [map firstn]; rewrite app_nil_r; reflexivity|]].
  2:{ rewrite lev_item_open, <- Exitem.
      assert (Eq : p + fstart_tag_len epieces name ens ws = q).
      { unfold q, fstart_tag_len, nlen. fold (blen (r_qname name)). fold (blen (flat_map r_entry ens)). fold (blen ws).
        change (blen (tag_tail false)) with 1. unfold r_qname. rewrite Ex1, <- r_entries_x4. clear. clia. }
      rewrite Eq. fold evc.
      apply (Extra_open text Mm vsm c0 cr c1 c0b (sh c3) fr frb (p, xitem) (p, pe) (XS (TSElem (p + 1 + q_off (x_qname name), p + 1 + blen (r_qname name))))
               evc Kt row Kc Kt2 ext1 ec Y1 Y2 Y3).
      - rewrite Exitem, node_of_elem, <- Exitem, Epe0. reflexivity.
      - exact Z1.
      - rewrite Exitem. exact Z2.
      - rewrite Exitem. exact Z4.
      - split; [exact X1|]. split; [exact X2|]. split; [exact X3|]. split; [exact X4|exact X5].
      - exact V1.
      - change (rng (sh c3)) with (rng c3). rewrite Rg3, Epos. reflexivity.
      - change (d_ns_values (c_doc (sh c3))) with (d_ns_values (c_doc c3)). rewrite Nv3. exact V3. }
  apply (Res_item inh c0 c (map fst fr) acc cr Kt el c3 (row :: Kc ++ Kt2) (ext1 ++ ec) ld' HO St L1 L3 L2 Tr0 HKt); try assumption; try reflexivity.
  - split; [exact S13|]. split; [exact Pid3|exact Pp3].
  - unfold el. rewrite den_elem. change (@val_sem bpieces bmeaning) with T.value_sem. fold des.
    cbn [NT.tag_list]. rewrite app_nil_r, NT.tag_elem. fold sc. rewrite bdens_regroup. fold outc accc.
    constructor.
    + apply (kmn_ext text D HD (c_doc c1)); [exact X13|]. apply Hkm.
    + rewrite bdens_app, CstNsDoc.tag_list_app. apply Forall2_app.
      * apply (kmn_F2_ext text D HD (c_doc c0b)); [exact Xb3|].
        change (c_parent_id (sh c1)) with (c_parent_id c1) in Fc. change (d_nodes (c_doc (sh c1))) with (d_nodes (c_doc c1)) in Fc.
        rewrite P1, Ln1 in Fc. exact Fc.
      * pose proof (HKt2 (c_doc c3)) as X. rewrite Pidc, P1 in X.
        rewrite (F2_len D HD _ _ _ Fc) in Lnc. unfold len_N at 3 in Lnc. rewrite NT.tag_list_len in Lnc.
        rewrite Lnc, Ln1 in X. exact X.
  - unfold el. rewrite den_elem. change (@val_sem bpieces bmeaning) with T.value_sem. fold des.
    cbn [NT.nattrs_items]. rewrite NT.nattrs_elem, Nat.add_0_r, app_length, Lx, NT.sem_attrs_len, Lc, nattrs_walk. reflexivity.
  - unfold el. rewrite den_elem. change (@val_sem bpieces bmeaning) with T.value_sem. fold des.
    cbn [NT.ns_costs]. rewrite NT.ns_cost_elem, Nat.add_0_r. fold sc. rewrite ns_costs_walk. fold outc.
    rewrite Tr3, Tr2, Ncb. change (d_ns_tree (c_doc (sh c1))) with (d_ns_tree (c_doc c1)). rewrite Lns1, own_cost_eq.
    change (Scope.scope_of (CstNs.own_bindings des) inh) with sc. fold outc. destruct (CstNs.own_bindings des); clia.
  - rewrite D3, M1. exact Db.
  - rewrite Db', D1, Hdep. reflexivity.
  - rewrite Fl3, M3, Flb. exact Fl1.
  - intros _. unfold tn_set in *. rewrite Tn3, M2. apply Tb. exact T1.
Qed.


Lemma ItemOK_open_r name ens ws cs ws2 : ItemsOK_r text D decls es k cs -> ItemOK_r (IElem name ens ws (Some (cs, ws2))).
Proof.
  intros HL inh m en tl p post c0 c fr acc lvl depth fuel its tr ld' Hwf HW _ HO Hg HS _ Hm Hlvl Hk Hfl Hin Hld HP HR HN.
  destruct (elem_open_c_r name ens ws cs ws2 HL inh m en tl p post c0 c fr acc lvl (depth + 1) fuel its tr ld'
              Hwf HW HO Hg HS Hm Hlvl Hk Hfl Hin Hld HP HR HN) as (c1 & c0' & c' & fr' & K & ext & E1 & E2 & HRes & Hg' & HX).
  destruct (wf_elem_parts4 _ _ _ _ _ Hwf) as (Hn & _).
  exists c0', c', fr', K, ext. split; [|split; [exact HRes|split; [exact Hg'|exact HX]]].
  rewrite usteps_elem. cbn [Nat.add].
  assert (El : parse_content_loop text context (evl lvl) (S (usteps_list cs + 1 + fuel)) depth (sst4 en tl p (r_item (@IElem epieces name ens ws (Some (cs, ws2))) ++ post)) c =
               let! (open, s0, c2) := parse_element text context (evl lvl) (sst4 en tl p (r_item (@IElem epieces name ens ws (Some (cs, ws2))) ++ post)) c in
               parse_content_loop text context (evl lvl) (usteps_list cs + 1 + fuel) (if open then depth + 1 else depth) s0 c2).
  { revert HW. rewrite r_uitem_elem, <- !app_assoc. unfold r_qname at 1 3. intros HW.
    apply (SL.loop_elem_q text en tl); [apply (SL.WV_W text _ _ HW)|apply CstFullItems.uq_of; exact Hn]. }
  rewrite El, E1. cbn [bind].
  replace (usteps_list cs + 1 + fuel)%nat with (usteps_list cs + S fuel)%nat by lia.
  rewrite E2. replace (depth + 1 =? 0) with false by lia. replace (depth + 1 - 1) with depth by lia. reflexivity.
Qed.

Lemma ItemsOK_of_r cs : Forall ItemOK_r cs -> ItemsOK_r text D decls es k cs.
Proof.
  induction 1 as [|i r Hi _ IH]; intros inh m en tl p post c0 c fr acc lvl depth fuel its tr ld'
    Hwf Hna HW Hpost HO Hg HS Hb Hm Hlvl Hk Hfl Hin Hld HP HR HN.
  - cbn [inline_items] in Hin. injection Hin as <- <-. cbn [ld_run] in Hld. injection Hld as <-.
    cbn [usteps_list r_uitems flat_map app Nat.add]. rewrite blen_nil, N.add_0_r.
    exists c0, c, fr, [], []. split; [reflexivity|]. split; [apply Res_nil; assumption|]. split; [exact Hg|apply Extra_nil].
  - cbn [forallb] in Hwf. apply andb_true_iff in Hwf. destruct Hwf as [Hw1 Hw2].
    cbn [r_uitems flat_map] in HW |- *. fold (r_uitems r) in HW |- *. rewrite <- app_assoc in HW |- *.
    cbn [inline_items] in Hin.
    destruct (inline_item tb m i) as [[its1 tr1]|] eqn:Ei; [|discriminate]. cbn [E.obind fst snd] in Hin.
    destruct (inline_items tb m r) as [[its2 tr2]|] eqn:Er; [|discriminate]. cbn [E.obind fst snd] in Hin.
    injection Hin as <- <-.
    assert (Hna2 : no_adjacent_text epieces r = true).
    { destruct r as [|d r']; [reflexivity|]. cbn [no_adjacent_text] in Hna. apply andb_true_iff in Hna. apply Hna. }
    assert (Hnext : forall d r', r = d :: r' -> is_text epieces i = true -> is_text epieces d = false).
    { intros d r' -> Hi1. cbn [no_adjacent_text] in Hna. apply andb_true_iff in Hna.
      destruct Hna as [Hna _]. rewrite Hi1 in Hna. cbn [andb] in Hna. apply negb_true_iff in Hna. exact Hna. }
    rewrite ld_run_app in Hld. destruct (ld_run (c_ld c) tr1) as [ld1|] eqn:El1; [|discriminate].
    destruct (Pok_app _ _ _ HP) as [HP1 HP2]. pose proof (Rooms_app_l _ _ _ _ _ HR) as HR1.
    destruct (CstFullS6Text.NsOk_app _ _ _ _ _ HN) as [HN1 HN2].
    destruct (Hi inh m en tl p (r_uitems r ++ post) c0 c fr acc lvl depth (usteps_list r + fuel)%nat its1 tr1 ld1 Hw1 HW)
      as (c0a & ca & fra & K1 & e1 & E1 & HRes1 & Hga & HXa); try assumption.
    { intros Hi1. destruct r as [|d r']; [exact Hpost|]. cbn [r_uitems flat_map]. rewrite <- app_assoc.
      apply (nontext_stop m); [apply (Hnext d r' eq_refl Hi1)|]. cbn [forallb] in Hw2. apply andb_true_iff in Hw2. apply Hw2. }
    pose proof HRes1 as (S1 & O1 & M1 & F1 & Le1 & Nc1 & D1 & D1' & Fl1 & T1).
    destruct (IH inh m en tl (p + blen (r_item i)) post c0a ca fra (snd (walk acc its1)) lvl depth fuel its2 tr2 ld' Hw2 Hna2)
      as (c0' & c' & fr' & K2 & e2 & E2 & HRes2 & Hg' & HX2); try assumption.
    + apply (SL.WV_app text _ _ _ HW (uitem_valid m i Hw1)).
    + destruct r as [|d r']; [exact I|]. intros Hd. destruct (is_text epieces i) eqn:Eti.
      * rewrite (Hnext d r' eq_refl eq_refl) in Hd. discriminate.
      * destruct (inline_nontext_g m i its1 tr1 Eti Ei) as (x & -> & Hx). rewrite walk_single by exact Hx. reflexivity.
    + rewrite D1, D1'. exact Hm.
    + rewrite D1, D1'. exact Hlvl.
    + rewrite D1. apply (ld_ok_run _ _ _ El1 Hk).
    + rewrite Fl1. rewrite (CstEntText.Run_pp _ _ _ (or_run _ _ _ _ O1)). destruct S1 as (_ & _ & ->).
      rewrite <- (CstEntText.Run_pp _ _ _ (or_run _ _ _ _ HO)). exact Hfl.
    + rewrite D1. exact Hld.
    + apply (Rooms_app_r _ _ _ _ _ _ _ _ _ _ _ _ HRes1 HR).
    + exists c0', c', fr', (K1 ++ K2), (e1 ++ e2). split.
      { cbn [usteps_list]. rewrite <- Nat.add_assoc, E1, E2. f_equal. f_equal. rewrite blen_app. lia. }
      split; [apply (Res_app _ _ _ _ _ _ _ _ _ _ _ _ _ _ _ _ _ _ HRes1 HRes2)|]. split; [exact Hg'|].
      cbn [lev_items]. apply (Extra_app _ _ _ _ _ _ _ _ _ _ _ _ HXa HX2).
Qed.

Theorem ItemOK_all_r : forall i, ItemOK_r i.
Proof.
  intros i. induction i as [n a w|n a w cs w2 IH|ps|bs|t s v] using fitem_ind.
  - apply ItemOK_empty_r.
  - apply ItemOK_open_r. apply ItemsOK_of_r. exact IH.
  - apply ItemOK_text_r.
  - apply ItemOK_comment_r.
  - apply ItemOK_pi_r.
Qed.

Theorem ItemsOK_level_r : forall cs, ItemsOK_r text D decls es k cs.
Proof. intros cs. apply ItemsOK_of_r. apply Forall_forall. intros i _. apply ItemOK_all_r. Qed.

End CItemsR.

(* every level of the table up to the top one *)
Theorem ItemsOK_all_r text D (HD : forall l, NoDup l -> incl l D -> N.of_nat (length l) <= 65535) decls es :
  Forall2 (uent_ok text) (map pd decls) es -> Forall udecl_okc (map pd decls) -> Forall decl_cont decls ->
  forall k cs, (k <= E.max_level)%nat -> ItemsOK_r text D decls es k cs.
Proof.
  intros Henv Hdecls Hcont. induction k as [|k IH]; intros cs Hk.
  - apply (ItemsOK_level_r text D HD decls es Henv Hdecls Hcont 0 Hk). intros k' E0. discriminate.
  - apply (ItemsOK_level_r text D HD decls es Henv Hdecls Hcont (S k) Hk). intros k' E0. injection E0 as <-. intros cs'. apply IH. lia.
Qed.

Print Assumptions ItemsOK_all_r.
